//! Case writer, PRNG, tracked element type, scripted iterator.
use std::cell::RefCell;
use std::collections::VecDeque;
use std::fs::File;
use std::io::{BufWriter, Write};

pub const DBG: bool = cfg!(debug_assertions);

/// watchdog: a case that runs longer than the limit hangs inside the crate (a loop that a
/// broken invariant made endless); the process is aborted, which leaves the case line
/// without observation - the orchestrator reports it as the failing input
static CASE_STARTED_MS: std::sync::atomic::AtomicU64 = std::sync::atomic::AtomicU64::new(u64::MAX);
pub fn start_watchdog() {
    let t0 = std::time::Instant::now();
    let limit: u64 = std::env::var("HARNESS_CASE_LIMIT_MS").ok().and_then(|x| x.parse().ok()).unwrap_or(20_000);
    CASE_STARTED_MS.store(u64::MAX, std::sync::atomic::Ordering::SeqCst);
    std::thread::spawn(move || loop {
        std::thread::sleep(std::time::Duration::from_millis(500));
        let started = CASE_STARTED_MS.load(std::sync::atomic::Ordering::SeqCst);
        let now = t0.elapsed().as_millis() as u64;
        if started != u64::MAX && now > started && now - started > limit {
            eprintln!("harness: case exceeded {} ms, aborting", limit);
            std::process::abort();
        }
    });
    WATCH_T0.with(|c| *c.borrow_mut() = Some(t0));
}
thread_local! { static WATCH_T0: RefCell<Option<std::time::Instant>> = RefCell::new(None); }
fn watch_mark(running: bool) {
    WATCH_T0.with(|c| if let Some(t0) = *c.borrow() {
        CASE_STARTED_MS.store(if running { t0.elapsed().as_millis() as u64 } else { u64::MAX }, std::sync::atomic::Ordering::SeqCst);
    });
}

pub struct Out {
    w: BufWriter<File>,
    pub cases: u64,
    pub samples: u64,
}

impl Out {
    pub fn create(path: &str) -> Out {
        Out { w: BufWriter::with_capacity(1 << 16, File::create(path).expect("create out")), cases: 0, samples: 0 }
    }
    /// Writes the case header and input and flushes, so that a process abort inside the
    /// case leaves a line without observation that names the failing input.
    pub fn begin(&mut self, prop: u32, fam: u32, inp: &[u64]) {
        write!(self.w, "{} {} |", prop, fam).unwrap();
        for x in inp {
            write!(self.w, " {}", x).unwrap();
        }
        write!(self.w, " |").unwrap();
        self.w.flush().unwrap();
        self.cases += 1;
        watch_mark(true);
    }
    pub fn end(&mut self, obs: &[u64]) {
        watch_mark(false);
        for x in obs {
            write!(self.w, " {}", x).unwrap();
        }
        writeln!(self.w).unwrap();
    }
    /// human-readable rendering of a few cases, copied into the evidence file
    pub fn sample(&mut self, s: &str) {
        if self.samples < 6 {
            self.samples += 1;
            writeln!(self.w, "# sample {}", s).unwrap();
        }
    }
    pub fn want_sample(&self) -> bool {
        self.samples < 6 && self.cases % 997 == 3
    }
    pub fn comment(&mut self, s: &str) {
        writeln!(self.w, "# {}", s).unwrap();
    }
    pub fn finish(mut self) {
        self.w.flush().unwrap();
    }
}

/// xorshift64*; every random choice of a run derives from one state seeded by VERIF_SEED
pub struct Rng(pub u64);
impl Rng {
    pub fn new(seed: u64) -> Rng {
        Rng(seed.wrapping_mul(0x9E3779B97F4A7C15) ^ 0xD1B54A32D192ED03 | 1)
    }
    pub fn next(&mut self) -> u64 {
        let mut x = self.0;
        x ^= x >> 12;
        x ^= x << 25;
        x ^= x >> 27;
        self.0 = x;
        x.wrapping_mul(0x2545F4914F6CDD1D)
    }
    pub fn below(&mut self, n: u64) -> u64 {
        if n == 0 { 0 } else { self.next() % n }
    }
    pub fn chance(&mut self, pct: u64) -> bool {
        self.below(100) < pct
    }
    pub fn pick<'a, T>(&mut self, xs: &'a [T]) -> &'a T {
        &xs[self.below(xs.len() as u64) as usize]
    }
}

// ---------------------------------------------------------------------------------------
// Tracked elements with a drop ledger
// ---------------------------------------------------------------------------------------

#[derive(Default)]
pub struct Ledger {
    /// per serial: 0 = live, 1 = dropped
    pub state: Vec<u8>,
    pub step_drops: Vec<u64>,
    pub double: u64,
    pub default_next: u32,
    /// countdown to a panic inside Clone / Default / Drop (fault injection); None = off
    pub clone_panic_in: Option<u64>,
    pub default_panic_in: Option<u64>,
    pub drop_panic_in: Option<u64>,
}

thread_local! {
    pub static LEDGER: RefCell<Ledger> = RefCell::new(Ledger::default());
}

pub fn ledger_reset() {
    LEDGER.with(|l| {
        let mut l = l.borrow_mut();
        l.state.clear();
        l.step_drops.clear();
        l.double = 0;
        l.default_next = 1_000_000;
        l.clone_panic_in = None;
        l.default_panic_in = None;
        l.drop_panic_in = None;
    })
}
pub fn ledger_take_step_drops() -> Vec<u64> {
    LEDGER.with(|l| {
        let mut v = std::mem::take(&mut l.borrow_mut().step_drops);
        v.sort_unstable();
        v
    })
}
pub fn ledger_double() -> u64 {
    LEDGER.with(|l| l.borrow().double)
}
pub fn ledger_live() -> u64 {
    LEDGER.with(|l| l.borrow().state.iter().filter(|s| **s == 0).count() as u64)
}

pub struct Tracked {
    pub val: u32,
    pub serial: u32,
}

impl Tracked {
    pub fn new(val: u32) -> Tracked {
        let serial = LEDGER.with(|l| {
            let mut l = l.borrow_mut();
            l.state.push(0);
            (l.state.len() - 1) as u32
        });
        Tracked { val, serial }
    }
}

fn countdown(c: &mut Option<u64>) -> bool {
    match c {
        Some(0) => {
            *c = None;
            true
        }
        Some(n) => {
            *n -= 1;
            false
        }
        None => false,
    }
}

impl Drop for Tracked {
    fn drop(&mut self) {
        let boom = LEDGER.with(|l| {
            let mut l = l.borrow_mut();
            let s = self.serial as usize;
            if l.state[s] == 1 {
                l.double += 1;
            } else {
                l.state[s] = 1;
            }
            l.step_drops.push(self.val as u64);
            countdown(&mut l.drop_panic_in)
        });
        if boom && !std::thread::panicking() {
            panic!("injected Drop panic");
        }
    }
}
impl Clone for Tracked {
    fn clone(&self) -> Tracked {
        let boom = LEDGER.with(|l| countdown(&mut l.borrow_mut().clone_panic_in));
        if boom {
            panic!("injected Clone panic");
        }
        Tracked::new(self.val)
    }
}
impl Default for Tracked {
    fn default() -> Tracked {
        let (boom, v) = LEDGER.with(|l| {
            let mut l = l.borrow_mut();
            let b = countdown(&mut l.default_panic_in);
            let v = l.default_next;
            if !b {
                l.default_next += 1;
            }
            (b, v)
        });
        if boom {
            panic!("injected Default panic");
        }
        Tracked::new(v)
    }
}
impl PartialEq for Tracked {
    fn eq(&self, o: &Tracked) -> bool {
        self.val == o.val
    }
}
impl Eq for Tracked {}
impl std::hash::Hash for Tracked {
    fn hash<H: std::hash::Hasher>(&self, h: &mut H) {
        self.val.hash(h)
    }
}

pub trait Elem: Sized + Clone + Default + PartialEq + 'static {
    const TRACK: bool;
    const ESZ: u64;
    fn mk(v: u32) -> Self;
    fn val(&self) -> u32;
    fn is_zombie(&self) -> bool;
}
impl Elem for u32 {
    const TRACK: bool = false;
    const ESZ: u64 = 4;
    fn mk(v: u32) -> u32 { v }
    fn val(&self) -> u32 { *self }
    fn is_zombie(&self) -> bool { false }
}
impl Elem for Tracked {
    const TRACK: bool = true;
    const ESZ: u64 = 8;
    fn mk(v: u32) -> Tracked { Tracked::new(v) }
    fn val(&self) -> u32 { self.val }
    fn is_zombie(&self) -> bool {
        LEDGER.with(|l| l.borrow().state[self.serial as usize] == 1)
    }
}

/// A large Copy-like element (328 bytes): rows and whole arrays cross the byte thresholds at
/// which rotate / swap / copy strategies change, with few cells
#[derive(Clone, PartialEq)]
pub struct Big { pub v: u32, pub pad: [u64; 40] }
impl Default for Big { fn default() -> Big { Big { v: 0, pad: [0; 40] } } }
impl Eq for Big {}
impl PartialOrd for Big { fn partial_cmp(&self, o: &Big) -> Option<std::cmp::Ordering> { Some(self.cmp(o)) } }
impl Ord for Big { fn cmp(&self, o: &Big) -> std::cmp::Ordering { self.v.cmp(&o.v) } }
impl Elem for Big {
    const TRACK: bool = false;
    const ESZ: u64 = 328;
    fn mk(v: u32) -> Big { Big { v, pad: [v as u64 ^ 0x5555_5555_5555_5555; 40] } }
    fn val(&self) -> u32 { if self.pad.iter().all(|p| *p == self.v as u64 ^ 0x5555_5555_5555_5555) || (self.v == 0 && self.pad == [0; 40]) { self.v } else { u32::MAX } }
    fn is_zombie(&self) -> bool { false }
}

/// A zero-sized element type with drop side effects: only counts can be observed.
pub struct Zt;
thread_local! {
    pub static ZLIVE: std::cell::Cell<i64> = std::cell::Cell::new(0);
}
impl Zt {
    pub fn new() -> Zt { ZLIVE.with(|c| c.set(c.get() + 1)); Zt }
}
impl Drop for Zt {
    fn drop(&mut self) { ZLIVE.with(|c| c.set(c.get() - 1)); }
}
impl Clone for Zt { fn clone(&self) -> Zt { Zt::new() } }
impl Default for Zt { fn default() -> Zt { Zt::new() } }
impl PartialEq for Zt { fn eq(&self, _: &Zt) -> bool { true } }
impl Elem for Zt {
    const TRACK: bool = true;
    const ESZ: u64 = 0;
    fn mk(_: u32) -> Zt { Zt::new() }
    fn val(&self) -> u32 { 0 }
    fn is_zombie(&self) -> bool { false }
}

// ---------------------------------------------------------------------------------------
// Scripted caller-supplied iterator
// ---------------------------------------------------------------------------------------

#[derive(Clone, Debug)]
pub struct Script {
    pub claimed: u64,
    pub items: Vec<u32>,
    /// the k-th call of next()/next_back() panics
    pub panic_at: Option<u64>,
}
impl Script {
    pub fn honest(items: Vec<u32>) -> Script {
        Script { claimed: items.len() as u64, items, panic_at: None }
    }
    pub fn encode(&self, o: &mut Vec<u64>) {
        o.push(self.claimed);
        o.push(self.items.len() as u64);
        o.extend(self.items.iter().map(|x| *x as u64));
        o.push(match self.panic_at { None => 0, Some(k) => k + 1 });
    }
    pub fn decode(i: &mut std::slice::Iter<'_, u64>) -> Script {
        let claimed = *i.next().unwrap();
        let n = *i.next().unwrap();
        let items = (0..n).map(|_| *i.next().unwrap() as u32).collect();
        let p = *i.next().unwrap();
        Script { claimed, items, panic_at: if p == 0 { None } else { Some(p - 1) } }
    }
}

pub struct ScriptIter<T> {
    items: VecDeque<T>,
    claimed: usize,
    panic_at: Option<u64>,
    calls: u64,
}
impl<T: Elem> ScriptIter<T> {
    pub fn new(s: &Script) -> ScriptIter<T> {
        ScriptIter {
            items: s.items.iter().map(|v| T::mk(*v)).collect(),
            claimed: s.claimed as usize,
            panic_at: s.panic_at,
            calls: 0,
        }
    }
    fn tick(&mut self) {
        let k = self.calls;
        self.calls += 1;
        if self.panic_at == Some(k) {
            panic!("injected iterator panic");
        }
    }
}
impl<T: Elem> Iterator for ScriptIter<T> {
    type Item = T;
    fn next(&mut self) -> Option<T> {
        self.tick();
        self.items.pop_front()
    }
    fn size_hint(&self) -> (usize, Option<usize>) {
        (self.claimed, Some(self.claimed))
    }
}
impl<T: Elem> DoubleEndedIterator for ScriptIter<T> {
    fn next_back(&mut self) -> Option<T> {
        self.tick();
        self.items.pop_back()
    }
}
impl<T: Elem> ExactSizeIterator for ScriptIter<T> {
    fn len(&self) -> usize {
        self.claimed
    }
}

pub const MARK_PROBE_PANIC: u64 = 888_888;
