//! Family 7 (C19): documents generated from a grammar, deserialised through the four
//! serde_json transports.  Family 8 (C18): serialise / deserialise round trips.
use crate::util::*;
use std::panic::{catch_unwind, AssertUnwindSafe};
use toodee::*;

#[derive(Clone, Debug)]
pub enum JV { UInt(u64), Big, Neg(u64), Float, Str, Null, Bool, Arr(Vec<JV>), Obj }

impl JV {
    fn text(&self, o: &mut String) {
        match self {
            JV::UInt(n) => o.push_str(&n.to_string()),
            JV::Big => o.push_str("18446744073709551616"),
            JV::Neg(n) => { o.push('-'); o.push_str(&n.max(&1).to_string()) }
            JV::Float => o.push_str("1.5"),
            JV::Str => o.push_str("\"2\""),
            JV::Null => o.push_str("null"),
            JV::Bool => o.push_str("true"),
            JV::Arr(l) => { o.push('['); for (i, v) in l.iter().enumerate() { if i > 0 { o.push(',') } v.text(o) } o.push(']') }
            JV::Obj => o.push_str("{}"),
        }
    }
    fn encode(&self, o: &mut Vec<u64>) {
        match self {
            JV::UInt(n) => o.extend([0, *n]),
            JV::Big => o.push(1),
            JV::Neg(n) => o.extend([2, *n]),
            JV::Float => o.push(3), JV::Str => o.push(4), JV::Null => o.push(5), JV::Bool => o.push(6),
            JV::Arr(l) => { o.extend([7, l.len() as u64]); for v in l { v.encode(o) } }
            JV::Obj => o.push(8),
        }
    }
    fn decode(i: &mut std::slice::Iter<'_, u64>) -> JV {
        match *i.next().unwrap() {
            0 => JV::UInt(*i.next().unwrap()), 1 => JV::Big, 2 => JV::Neg(*i.next().unwrap()),
            3 => JV::Float, 4 => JV::Str, 5 => JV::Null, 6 => JV::Bool,
            7 => { let n = *i.next().unwrap(); JV::Arr((0..n).map(|_| JV::decode(i)).collect()) }
            _ => JV::Obj,
        }
    }
}

const KEYS: [&str; 4] = ["num_cols", "num_rows", "data", "foo"];

/// `top`: 1 = a JSON object; 2 = a JSON array of the field values in order (the positional
/// form compact transports use for structs); 0 = some other top-level value or a truncation
fn doc_text(top: u64, fields: &[(u64, JV)]) -> String {
    if top == 2 {
        let mut s = String::from("[");
        for (i, (_, v)) in fields.iter().enumerate() { if i > 0 { s.push(',') } v.text(&mut s); }
        s.push(']');
        return s;
    }
    let top_map = top == 1;
    let mut s = String::new();
    s.push('{');
    for (i, (k, v)) in fields.iter().enumerate() {
        if i > 0 { s.push(',') }
        s.push('"'); s.push_str(KEYS[(*k).min(3) as usize]); s.push_str("\":");
        v.text(&mut s);
    }
    s.push('}');
    if !top_map {
        // not a (complete) map: other top-level values and truncations of the text
        return match fields.len() % 5 {
            0 => "[1,2,3]".to_string(),
            1 => "3".to_string(),
            2 => "\"num_cols\"".to_string(),
            3 => "null".to_string(),
            _ => s[..s.len() / 2].to_string(),
        };
    }
    s
}

/// `top` = form + 10 * element kind; form as in `doc_text`; element kind 0 = u32, 1 = the
/// zero-sized `()` (JSON null), 2 = Option<u8>
pub fn emit_doc(out: &mut Out, transport: u64, top: u64, fields: &[(u64, JV)]) {
    let mut inp = vec![DBG as u64, transport, top, fields.len() as u64];
    for (k, v) in fields { inp.push(*k); v.encode(&mut inp); }
    let (form, ek) = (top % 10, top / 10);
    let text = doc_text(form, fields);
    if out.want_sample() { out.sample(&format!("C19 transport {} element kind {} document {}", transport, ek, text)); }
    out.begin(19, 7, &inp);
    fn de<T: serde::de::DeserializeOwned>(transport: u64, text: &str) -> Result<TooDee<T>, String> {
        match transport {
            0 => serde_json::from_str(text).map_err(|e| e.to_string()),
            1 => { let v: serde_json::Value = serde_json::from_str(text).map_err(|e| e.to_string())?; serde_json::from_value(v).map_err(|e| e.to_string()) }
            2 => serde_json::from_slice(text.as_bytes()).map_err(|e| e.to_string()),
            _ => serde_json::from_reader(text.as_bytes()).map_err(|e| e.to_string()),
        }
    }
    let mut obs = vec![];
    let res = catch_unwind(AssertUnwindSafe(|| -> Result<(u64, u64, Vec<u64>), String> {
        match ek {
            0 => de::<u32>(transport, &text).map(|t| (t.num_cols() as u64, t.num_rows() as u64, t.data().iter().map(|x| *x as u64).collect())),
            1 => de::<()>(transport, &text).map(|t| (t.num_cols() as u64, t.num_rows() as u64, t.data().iter().map(|_| 0u64).collect())),
            _ => de::<Option<u8>>(transport, &text).map(|t| (t.num_cols() as u64, t.num_rows() as u64, t.data().iter().map(|x| match x { None => 0, Some(v) => 1 + *v as u64 }).collect())),
        }
    }));
    match res {
        Err(_) => obs.push(2),
        Ok(Err(_)) => obs.push(0),
        Ok(Ok((c, r, d))) => { obs.extend([1, c, r, d.len() as u64]); obs.extend(d); }
    }
    out.end(&obs);
}

pub fn replay_doc(out: &mut Out, inp: &[u64]) {
    let n = inp[3];
    let mut it = inp[4..].iter();
    let fields: Vec<(u64, JV)> = (0..n).map(|_| { let k = *it.next().unwrap(); (k, JV::decode(&mut it)) }).collect();
    emit_doc(out, inp[1], inp[2], &fields);
}

fn arr(n: u64) -> JV { JV::Arr((0..n).map(|i| JV::UInt(10 + i)).collect()) }

pub fn gen_c19(out: &mut Out, tier: &str, rng: &mut Rng) {
    let dimvals: Vec<JV> = vec![JV::UInt(0), JV::UInt(1), JV::UInt(2), JV::UInt(3), JV::UInt(1 << 32), JV::UInt(1 << 63),
        JV::UInt(u64::MAX), JV::Big, JV::Neg(1), JV::Float, JV::Str, JV::Null, JV::Bool, JV::Arr(vec![]), JV::Obj];
    // (a) every sequence of up to 4 keys (subset / order / duplication / unknown), good values
    let good = |k: u64| match k { 0 => JV::UInt(2), 1 => JV::UInt(3), 2 => arr(6), _ => JV::UInt(7) };
    let mut seqs: Vec<Vec<u64>> = vec![vec![]];
    let mut frontier: Vec<Vec<u64>> = vec![vec![]];
    for _ in 0..4 {
        let mut next = vec![];
        for s in &frontier { for k in 0..4 { let mut t = s.clone(); t.push(k); next.push(t); } }
        seqs.extend(next.clone());
        frontier = next;
    }
    for s in &seqs {
        for tr in 0..4 {
            let fields: Vec<(u64, JV)> = s.iter().map(|k| (*k, good(*k))).collect();
            emit_doc(out, tr, 1, &fields);
            if s.len() <= 2 { emit_doc(out, tr, 0, &fields); }
            if s.len() <= 3 { emit_doc(out, tr, 2, &fields); }
        }
        // duplicated keys carrying different values (data: last one wins)
        if s.len() >= 2 {
            let mut seen = [0u64; 4];
            let fields: Vec<(u64, JV)> = s.iter().map(|k| { seen[*k as usize] += 1; let n = seen[*k as usize];
                (*k, match k { 0 => JV::UInt(1 + n), 1 => JV::UInt(4 - n.min(3)), 2 => arr(12 / n.max(1)), _ => JV::Null }) }).collect();
            for tr in [0, 1] { emit_doc(out, tr, 1, &fields); }
        }
    }
    // (b) every pair of dimension values x data lengths around the product, two field orders
    for c in &dimvals { for r in &dimvals {
        let p: Option<u64> = match (c, r) { (JV::UInt(a), JV::UInt(b)) => a.checked_mul(*b).filter(|p| *p <= 64), _ => None };
        let lens: Vec<u64> = match p { Some(p) => vec![p, p + 1, p.saturating_sub(1), 0], None => vec![0, 4] };
        for l in lens {
            for tr in [0, 1, 3] {
                emit_doc(out, tr, 1, &[(2, arr(l)), (1, r.clone()), (0, c.clone())]);
                if tr == 0 { emit_doc(out, tr, 1, &[(0, c.clone()), (1, r.clone()), (2, arr(l))]); }
                // the same values as a positional sequence, in the serialiser's and the visitor's field order
                if tr != 3 {
                    emit_doc(out, tr, 2, &[(2, arr(l)), (1, r.clone()), (0, c.clone())]);
                    emit_doc(out, tr, 2, &[(0, c.clone()), (1, r.clone()), (2, arr(l))]);
                }
            }
        }
    } }
    // (c) wrong element types, non-array data
    let bad_elems = vec![JV::UInt(1 << 32), JV::Big, JV::Neg(3), JV::Str, JV::Null, JV::Arr(vec![]), JV::Float, JV::Bool, JV::Obj, JV::UInt(u32::MAX as u64)];
    for e in &bad_elems { for pos in 0..4usize {
        let mut l: Vec<JV> = (0..4).map(|i| JV::UInt(i)).collect();
        l[pos] = e.clone();
        for tr in [0, 1] { emit_doc(out, tr, 1, &[(0, JV::UInt(2)), (1, JV::UInt(2)), (2, JV::Arr(l.clone()))]); }
    } }
    for d in &dimvals { for tr in [0, 1] { emit_doc(out, tr, 1, &[(0, JV::UInt(0)), (1, JV::UInt(0)), (2, d.clone())]); } }
    // (e) other element types: the zero-sized () (null) and Option<u8> (null or a byte)
    for ek in [1u64, 2] {
        let elem = |i: u64| if ek == 1 || i % 3 == 0 { JV::Null } else { JV::UInt(i % 200) };
        let arr_e = |n: u64| JV::Arr((0..n).map(elem).collect());
        for (c, r) in [(0u64, 0u64), (1, 1), (2, 3), (3, 2), (1, 5), (0, 2), (2, 0), (1 << 32, 1 << 32), (u64::MAX, 1), (1 << 63, 2), (8, 8)] {
            let p = (c as u128 * r as u128).min(70) as u64;
            for l in [p, p + 1, p.saturating_sub(1), 0] {
                for tr in 0..4 {
                    emit_doc(out, tr, 1 + 10 * ek, &[(2, arr_e(l)), (1, JV::UInt(r)), (0, JV::UInt(c))]);
                    emit_doc(out, tr, 1 + 10 * ek, &[(0, JV::UInt(c)), (1, JV::UInt(r)), (2, arr_e(l))]);
                    if tr != 3 { emit_doc(out, tr, 2 + 10 * ek, &[(2, arr_e(l)), (1, JV::UInt(r)), (0, JV::UInt(c))]); }
                }
            }
        }
        for e in &bad_elems { for tr in [0, 1] {
            emit_doc(out, tr, 1 + 10 * ek, &[(0, JV::UInt(2)), (1, JV::UInt(1)), (2, JV::Arr(vec![elem(0), e.clone()]))]);
        } }
        for tr in 0..4 { emit_doc(out, tr, 1 + 10 * ek, &[(0, JV::UInt(2))]); emit_doc(out, tr, 10 * ek, &[]); }
    }
    // (d) random documents
    let n = if tier == "quick" { 4000 } else { 100000 };
    for _ in 0..n {
        let nf = rng.below(6);
        let fields: Vec<(u64, JV)> = (0..nf).map(|_| {
            let k = *rng.pick(&[0u64, 0, 1, 1, 2, 2, 2, 3]);
            let v = match k {
                2 if rng.chance(85) => { let l = rng.below(9); let mut a: Vec<JV> = (0..l).map(|i| JV::UInt(i)).collect(); if l > 0 && rng.chance(15) { a[rng.below(l) as usize] = rng.pick(&bad_elems).clone(); } JV::Arr(a) }
                0 | 1 if rng.chance(80) => JV::UInt(rng.below(4)),
                _ => rng.pick(&dimvals).clone(),
            };
            (k, v)
        }).collect();
        let top = if rng.chance(5) { 0 } else if rng.chance(8) { 2 } else { 1 };
        emit_doc(out, rng.below(4), top, &fields);
    }
}

// ---------------------------------------------------------------------------------------

fn strings(n: usize, seed: u64) -> Vec<String> {
    let pool = ["", "plain", "quote\"inside", "back\\slash", "tab\tnew\nline", "\u{1}ctl", "unicode \u{e9}\u{4e16}\u{1F600}", "num_cols", "{\"data\":[]}", "\u{7f}\u{2028}"];
    (0..n).map(|i| format!("{}{}", pool[(i + seed as usize) % pool.len()], i)).collect()
}

fn roundtrip<T>(t: &TooDee<T>, transport: u64) -> Result<TooDee<T>, String>
where T: serde::Serialize + serde::de::DeserializeOwned {
    match transport {
        0 => { let s = serde_json::to_string(t).map_err(|e| e.to_string())?; serde_json::from_str(&s).map_err(|e| e.to_string()) }
        1 => { let v = serde_json::to_value(t).map_err(|e| e.to_string())?; serde_json::from_value(v).map_err(|e| e.to_string()) }
        2 => { let s = serde_json::to_vec(t).map_err(|e| e.to_string())?; serde_json::from_slice(&s).map_err(|e| e.to_string()) }
        _ => { let mut w = vec![]; serde_json::to_writer(&mut w, t).map_err(|e| e.to_string())?; serde_json::from_reader(&w[..]).map_err(|e| e.to_string()) }
    }
}
fn via<S: serde::Serialize>(s: &S, transport: u64) -> Result<TooDee<u32>, String> {
    match transport {
        0 => { let x = serde_json::to_string(s).map_err(|e| e.to_string())?; serde_json::from_str(&x).map_err(|e| e.to_string()) }
        1 => { let v = serde_json::to_value(s).map_err(|e| e.to_string())?; serde_json::from_value(v).map_err(|e| e.to_string()) }
        2 => { let x = serde_json::to_vec(s).map_err(|e| e.to_string())?; serde_json::from_slice(&x).map_err(|e| e.to_string()) }
        _ => { let mut w = vec![]; serde_json::to_writer(&mut w, s).map_err(|e| e.to_string())?; serde_json::from_reader(&w[..]).map_err(|e| e.to_string()) }
    }
}

fn report<T: PartialEq>(orig: &TooDee<T>, back: Result<TooDee<T>, String>, obs: &mut Vec<u64>) -> Option<TooDee<T>> {
    match back {
        Err(_) => { obs.push(0); None }
        Ok(b) => { obs.extend([(b == *orig && b.size() == orig.size()) as u64, b.num_cols() as u64, b.num_rows() as u64]); Some(b) }
    }
}

pub fn emit_roundtrip(out: &mut Out, ety: u64, transport: u64, rk: u64, c: u64, r: u64, win: (u64, u64, u64, u64)) {
    let inp = vec![DBG as u64, ety, transport, rk, c, r, win.0, win.1, win.2, win.3];
    if out.want_sample() { out.sample(&format!("C18 element type {} transport {} receiver {} shape {}x{} window {:?}", ety, transport, rk, c, r, win)); }
    out.begin(18, 8, &inp);
    let (cu, ru) = (c as usize, r as usize);
    let n = cu * ru;
    let mut obs = vec![];
    let res = catch_unwind(AssertUnwindSafe(|| {
        match ety {
            0 => {
                let mut t = TooDee::from_vec(cu, ru, (0..n as u32).collect());
                let (s, e) = ((win.0 as usize, win.1 as usize), (win.2 as usize, win.3 as usize));
                match rk {
                    0 => { if let Some(b) = report(&t, roundtrip(&t, transport), &mut obs) { obs.push(b.data().len() as u64); obs.extend(b.data().iter().map(|x| *x as u64)); } }
                    1 => { let v = t.view(s, e); let expect = TooDee::from(v); if let Some(b) = report(&expect, via(&v, transport), &mut obs) { obs.push(b.data().len() as u64); obs.extend(b.data().iter().map(|x| *x as u64)); } }
                    // views built directly over a slice that is longer than the array needs
                    // (rk 3 / 4: one spare cell, rk 5 / 6: a spare row's worth)
                    3 | 4 | 5 | 6 => {
                        let spare = if rk <= 4 { 1 } else { cu.max(1) };
                        let mut buf: Vec<u32> = (0..(n + spare) as u32).collect();
                        let expect = TooDee::from_vec(cu, ru, (0..n as u32).collect());
                        let back = if rk % 2 == 1 { let v = TooDeeView::new(cu, ru, &buf); via(&v, transport) } else { let v = TooDeeViewMut::new(cu, ru, &mut buf); via(&v, transport) };
                        if let Some(b) = report(&expect, back, &mut obs) { obs.push(b.data().len() as u64); obs.extend(b.data().iter().map(|x| *x as u64)); }
                    }
                    _ => { let expect = TooDee::from(t.view(s, e)); let v = t.view_mut(s, e); if let Some(b) = report(&expect, via(&v, transport), &mut obs) { obs.push(b.data().len() as u64); obs.extend(b.data().iter().map(|x| *x as u64)); } }
                }
            }
            1 => { let t: TooDee<i64> = TooDee::from_vec(cu, ru, (0..n as i64).map(|i| if i % 2 == 0 { -i * 1_000_000_007 } else { i64::MAX - i }).collect()); report(&t, roundtrip(&t, transport), &mut obs); }
            2 => { let t: TooDee<String> = TooDee::from_vec(cu, ru, strings(n, c + r)); report(&t, roundtrip(&t, transport), &mut obs); }
            3 => { let t: TooDee<Option<u8>> = TooDee::from_vec(cu, ru, (0..n).map(|i| if i % 3 == 0 { None } else { Some(i as u8) }).collect()); report(&t, roundtrip(&t, transport), &mut obs); }
            4 => { let t: TooDee<Vec<u8>> = TooDee::from_vec(cu, ru, (0..n).map(|i| (0..(i % 4) as u8).collect()).collect()); report(&t, roundtrip(&t, transport), &mut obs); }
            // zero-sized cells, cells that are all empty sequences, 128-bit cells, float cells
            5 => { let t: TooDee<()> = TooDee::from_vec(cu, ru, vec![(); n]); report(&t, roundtrip(&t, transport), &mut obs); }
            6 => { let t: TooDee<Vec<u32>> = TooDee::from_vec(cu, ru, vec![vec![]; n]); report(&t, roundtrip(&t, transport), &mut obs); }
            7 => { let t: TooDee<i128> = TooDee::from_vec(cu, ru, (0..n as i128).map(|i| if i % 2 == 0 { -i * 1_000_000_007 } else { i64::MAX as i128 - i }).collect()   /* within i64: serde_json::Value holds no wider integers */); report(&t, roundtrip(&t, transport), &mut obs); }
            _ => { let t: TooDee<f64> = TooDee::from_vec(cu, ru, (0..n).map(|i| i as f64 * 0.5 - 3.0).collect()   /* dyadic values: serde_json's default float parser is exact on them */); report(&t, roundtrip(&t, transport), &mut obs); }
        }
    }));
    if res.is_err() { obs.clear(); obs.push(2); }
    out.end(&obs);
}

pub fn gen_c18(out: &mut Out, tier: &str, _rng: &mut Rng) {
    let max = if tier == "quick" { 4 } else { 6 };
    let mut shapes = vec![(0u64, 0u64), (1, 7), (7, 1)];
    for c in 1..=max { for r in 1..=max { shapes.push((c, r)); } }
    for (c, r) in shapes {
        for tr in 0..4 {
            for ety in 0..9 { emit_roundtrip(out, ety, tr, 0, c, r, (0, 0, 0, 0)); }
            for s0 in 0..=c { for e0 in s0..=c { for s1 in 0..=r { for e1 in s1..=r {
                if tier == "quick" && (c * r > 9) && ((s0 + s1 + e0 + e1 + tr) % 4 != 0) { continue; }
                for rk in [1, 2] { emit_roundtrip(out, 0, tr, rk, c, r, (s0, s1, e0, e1)); }
            } } } }
            for rk in [3, 4, 5, 6] { emit_roundtrip(out, 0, tr, rk, c, r, (0, 0, c, r)); }
        }
    }
    gen_c18_large(out, tier);
}
/// larger arrays: sizes around the powers of two at which buffers, pre-allocation caps and
/// length prefixes change behaviour (the small exhaustive shapes above cannot reach them)
pub fn gen_c18_large(out: &mut Out, tier: &str) {
    let mut shapes: Vec<(u64, u64)> = vec![(33, 32), (32, 33), (1, 1025), (1025, 1), (40, 40), (17, 61), (16, 16), (255, 1), (1, 257)];
    if tier != "quick" { shapes.extend([(64, 65), (4097, 1), (3, 1366), (300, 7), (90, 91)]); }
    for (c, r) in shapes {
        for tr in 0..4 {
            emit_roundtrip(out, 0, tr, 0, c, r, (0, 0, 0, 0));
            if c * r <= 2000 { for ety in 1..9 { emit_roundtrip(out, ety, tr, 0, c, r, (0, 0, 0, 0)); } }
            // the whole array as a view, and the largest interior window
            let mut wins = vec![(0, 0, c, r)];
            if c > 2 && r > 2 { wins.push((1, 1, c - 1, r - 1)); }
            if c > 1 { wins.push((1, 0, c, r)); }
            if r > 1 { wins.push((0, 0, c, r - 1)); }
            for w in wins { for rk in [1, 2] { emit_roundtrip(out, 0, tr, rk, c, r, w); } }
            for rk in [3, 4, 5, 6] { emit_roundtrip(out, 0, tr, rk, c, r, (0, 0, c, r)); }
        }
    }
}
pub fn replay_roundtrip(out: &mut Out, inp: &[u64]) {
    emit_roundtrip(out, inp[1], inp[2], inp[3], inp[4], inp[5], (inp[6], inp[7], inp[8], inp[9]));
}
