//! Family 1: histories of public calls on the owned array (C01, C05, C06, C07, C11, C12).
use crate::util::*;
#[allow(unused_imports)]
use crate::util::Big;
use std::panic::{catch_unwind, AssertUnwindSafe};
use toodee::*;

pub const FAM: u32 = 1;

#[derive(Clone, Copy, Debug, PartialEq)]
pub enum DStep { Front, Back, Len, Nth(u64), NthBack(u64) }
#[derive(Clone, Copy, Debug, PartialEq)]
pub enum DEnd { Drop, Forget }

#[derive(Clone, Debug)]
pub enum Op {
    FromVec(u64, u64, Vec<u32>),
    New(u64, u64),
    Init(u64, u64, u32),
    Default,
    InsertRow(u64, Script),
    PushRow(Script),
    InsertCol(u64, Script),
    PushCol(Script),
    RemoveRow(u64, Vec<DStep>, DEnd),
    PopRow(Vec<DStep>, DEnd),
    RemoveCol(u64, Vec<DStep>, DEnd),
    PopCol(Vec<DStep>, DEnd),
    Clear,
    SwapDims,
    Capacity(u64, u64),
    SetCell(u64, u64, u32),
    Fill(u32),
    CloneArr,
    IntoVec,
    IntoIter(u64),
    DropArr,
    /// the k-th element destructor running during the wrapped operation panics
    Bomb(u64, Box<Op>),
    /// the k-th call of Clone::clone (kind 0) / Default::default (kind 1) during the wrapped
    /// operation panics
    Fuse(u64, u64, Box<Op>),
    /// t.clone_from(&TooDee::from_vec(c, r, d))
    CloneFrom(u64, u64, Vec<u32>),
}

fn enc_drain(o: &mut Vec<u64>, st: &[DStep], f: DEnd) {
    o.push(st.len() as u64);
    for s in st {
        match s { DStep::Front => o.push(0), DStep::Back => o.push(1), DStep::Len => o.push(2),
                  DStep::Nth(k) => o.extend([3, *k]), DStep::NthBack(k) => o.extend([4, *k]) }
    }
    o.push(match f { DEnd::Drop => 0, DEnd::Forget => 1 });
}
fn dec_drain(i: &mut std::slice::Iter<'_, u64>) -> (Vec<DStep>, DEnd) {
    let n = *i.next().unwrap();
    let st = (0..n)
        .map(|_| match *i.next().unwrap() { 0 => DStep::Front, 1 => DStep::Back, 2 => DStep::Len,
                                            3 => DStep::Nth(*i.next().unwrap()), _ => DStep::NthBack(*i.next().unwrap()) })
        .collect();
    let f = if *i.next().unwrap() == 0 { DEnd::Drop } else { DEnd::Forget };
    (st, f)
}

impl Op {
    pub fn encode(&self, o: &mut Vec<u64>) {
        match self {
            Op::FromVec(c, r, d) => {
                o.extend([0, *c, *r, d.len() as u64]);
                o.extend(d.iter().map(|x| *x as u64));
            }
            Op::New(c, r) => o.extend([1, *c, *r]),
            Op::Init(c, r, v) => o.extend([2, *c, *r, *v as u64]),
            Op::Default => o.push(3),
            Op::InsertRow(i, s) => { o.extend([4, *i]); s.encode(o) }
            Op::PushRow(s) => { o.push(5); s.encode(o) }
            Op::InsertCol(i, s) => { o.extend([6, *i]); s.encode(o) }
            Op::PushCol(s) => { o.push(7); s.encode(o) }
            Op::RemoveRow(i, st, f) => { o.extend([8, *i]); enc_drain(o, st, *f) }
            Op::PopRow(st, f) => { o.push(9); enc_drain(o, st, *f) }
            Op::RemoveCol(i, st, f) => { o.extend([10, *i]); enc_drain(o, st, *f) }
            Op::PopCol(st, f) => { o.push(11); enc_drain(o, st, *f) }
            Op::Clear => o.push(12),
            Op::SwapDims => o.push(13),
            Op::Capacity(k, n) => o.extend([14, *k, *n]),
            Op::SetCell(c, r, v) => o.extend([15, *c, *r, *v as u64]),
            Op::Fill(v) => o.extend([16, *v as u64]),
            Op::CloneArr => o.push(17),
            Op::IntoVec => o.push(18),
            Op::IntoIter(k) => o.extend([19, *k]),
            Op::DropArr => o.push(20),
            Op::Bomb(k, op) => { o.extend([21, *k]); op.encode(o) }
            Op::Fuse(kind, k, op) => { o.extend([22, *kind, *k]); op.encode(o) }
            Op::CloneFrom(c, r, d) => { o.extend([23, *c, *r, d.len() as u64]); o.extend(d.iter().map(|x| *x as u64)); }
        }
    }
    pub fn decode(i: &mut std::slice::Iter<'_, u64>) -> Op {
        let mut n = || *i.next().unwrap();
        match n() {
            0 => { let c = n(); let r = n(); let l = n(); Op::FromVec(c, r, (0..l).map(|_| n() as u32).collect()) }
            1 => Op::New(n(), n()),
            2 => Op::Init(n(), n(), n() as u32),
            3 => Op::Default,
            4 => { let x = n(); Op::InsertRow(x, Script::decode(i)) }
            5 => Op::PushRow(Script::decode(i)),
            6 => { let x = n(); Op::InsertCol(x, Script::decode(i)) }
            7 => Op::PushCol(Script::decode(i)),
            8 => { let x = n(); let (s, f) = dec_drain(i); Op::RemoveRow(x, s, f) }
            9 => { let (s, f) = dec_drain(i); Op::PopRow(s, f) }
            10 => { let x = n(); let (s, f) = dec_drain(i); Op::RemoveCol(x, s, f) }
            11 => { let (s, f) = dec_drain(i); Op::PopCol(s, f) }
            12 => Op::Clear,
            13 => Op::SwapDims,
            14 => Op::Capacity(n(), n()),
            15 => Op::SetCell(n(), n(), n() as u32),
            16 => Op::Fill(n() as u32),
            17 => Op::CloneArr,
            18 => Op::IntoVec,
            19 => Op::IntoIter(n()),
            20 => Op::DropArr,
            21 => { let k = n(); Op::Bomb(k, Box::new(Op::decode(i))) }
            22 => { let kind = n(); let k = n(); Op::Fuse(kind, k, Box::new(Op::decode(i))) }
            23 => { let c = n(); let r = n(); let l = n(); Op::CloneFrom(c, r, (0..l).map(|_| n() as u32).collect()) }
            x => panic!("bad opcode {x}"),
        }
    }
}

fn run_drain<T: Elem, D: DoubleEndedIterator<Item = T> + ExactSizeIterator>(
    mut d: D, st: &[DStep], f: DEnd, ret: &mut Vec<u64>,
) {
    let mut got: Vec<T> = vec![];
    for s in st {
        match s {
            DStep::Front => match d.next() {
                Some(x) => { ret.extend([1, x.val() as u64]); got.push(x) }
                None => ret.push(0),
            },
            DStep::Back => match d.next_back() {
                Some(x) => { ret.extend([1, x.val() as u64]); got.push(x) }
                None => ret.push(0),
            },
            DStep::Len => ret.extend([2, d.len() as u64]),
            // Iterator::nth / DoubleEndedIterator::nth_back as the drain type provides them
            DStep::Nth(k) => match d.nth(*k as usize) {
                Some(x) => { ret.extend([1, x.val() as u64]); got.push(x) }
                None => ret.push(0),
            },
            DStep::NthBack(k) => match d.nth_back(*k as usize) {
                Some(x) => { ret.extend([1, x.val() as u64]); got.push(x) }
                None => ret.push(0),
            },
        }
    }
    match f {
        DEnd::Drop => drop(d),
        DEnd::Forget => std::mem::forget(d),
    }
    drop(got);
}

fn apply<T: Elem>(t: &mut TooDee<T>, op: &Op, ret: &mut Vec<u64>) {
    let u = |x: &u64| *x as usize;
    match op {
        Op::FromVec(c, r, d) => {
            let v: Vec<T> = d.iter().map(|x| T::mk(*x)).collect();
            let n = TooDee::from_vec(u(c), u(r), v);
            *t = n;
        }
        Op::New(c, r) => { let n = TooDee::new(u(c), u(r)); *t = n; }
        Op::Init(c, r, v) => { let n = TooDee::init(u(c), u(r), T::mk(*v)); *t = n; }
        Op::Default => *t = TooDee::default(),
        Op::InsertRow(i, s) => t.insert_row(u(i), ScriptIter::<T>::new(s)),
        Op::PushRow(s) => t.push_row(ScriptIter::<T>::new(s)),
        Op::InsertCol(i, s) => t.insert_col(u(i), ScriptIter::<T>::new(s)),
        Op::PushCol(s) => t.push_col(ScriptIter::<T>::new(s)),
        Op::RemoveRow(i, st, f) => { let d = t.remove_row(u(i)); run_drain(d, st, *f, ret) }
        Op::PopRow(st, f) => match t.pop_row() {
            None => ret.push(3),
            Some(d) => run_drain(d, st, *f, ret),
        },
        Op::RemoveCol(i, st, f) => { let d = t.remove_col(u(i)); run_drain(d, st, *f, ret) }
        Op::PopCol(st, f) => match t.pop_col() {
            None => ret.push(3),
            Some(d) => run_drain(d, st, *f, ret),
        },
        Op::Clear => t.clear(),
        Op::SwapDims => t.swap_dimensions(),
        Op::Capacity(k, n) => match k {
            0 => t.reserve(u(n)),
            1 => t.reserve_exact(u(n)),
            // an empty array replaced by with_capacity(n): still the empty array
            3 => if t.data().is_empty() { *t = TooDee::with_capacity(u(n)) },
            _ => t.shrink_to_fit(),
        },
        Op::SetCell(c, r, v) => {
            // in range: the same cell through IndexMut, data_mut() or AsMut<[T]> (row-major address)
            let (nc, nr) = t.size();
            let inside = u(c) < nc && u(r) < nr;
            match (inside, *v % 3) {
                (true, 1) => { let s: &mut [T] = t.as_mut(); s[u(r) * nc + u(c)] = T::mk(*v); }
                (true, 2) => { t.data_mut()[u(r) * nc + u(c)] = T::mk(*v); }
                _ => { t[(u(c), u(r))] = T::mk(*v); }
            }
        }
        Op::Fill(v) => t.fill(T::mk(*v)),
        Op::CloneArr => {
            let t2 = t.clone();
            ret.push((t2 == *t && t2.size() == t.size()) as u64);
            *t = t2;
        }
        Op::IntoVec => {
            let (c, r) = t.size();
            let v: Vec<T> = std::mem::take(t).into();
            ret.push(v.len() as u64);
            ret.extend(v.iter().map(|x| x.val() as u64));
            *t = TooDee::from_vec(c, r, v);
        }
        Op::IntoIter(k) => {
            let mut it = std::mem::take(t).into_iter();
            let got: Vec<T> = it.by_ref().take(u(k)).collect();
            ret.push(got.len() as u64);
            ret.extend(got.iter().map(|x| x.val() as u64));
            drop(it);
            drop(got);
        }
        Op::DropArr => *t = TooDee::default(),
        Op::Bomb(k, op) => {
            LEDGER.with(|l| l.borrow_mut().drop_panic_in = Some(*k));
            apply(t, op, ret);
        }
        Op::Fuse(kind, k, op) => {
            LEDGER.with(|l| { let mut l = l.borrow_mut(); if *kind == 0 { l.clone_panic_in = Some(*k) } else { l.default_panic_in = Some(*k) } });
            apply(t, op, ret);
        }
        Op::CloneFrom(c, r, d) => {
            let v: Vec<T> = d.iter().map(|x| T::mk(*x)).collect();
            let src = TooDee::from_vec(u(c), u(r), v);
            t.clone_from(&src);
            ret.push((*t == src && t.size() == src.size()) as u64);
        }
    }
}

fn probe<T: Elem>(t: &TooDee<T>, out: &mut Vec<u64>) {
    let (c, r) = t.size();
    out.extend([c as u64, r as u64]);
    let d = t.data();
    // AsRef<[T]> / AsRef<Vec<T>> are the same buffer
    let (a1, a2): (&[T], &Vec<T>) = (t.as_ref(), t.as_ref());
    let same_buf = a1.as_ptr() == d.as_ptr() && a1.len() == d.len() && a2.as_ptr() == d.as_ptr() && a2.len() == d.len();
    // is_empty() / size() (trait defaults) agree with the dimensions and the buffer
    // ... and the buffer never claims more cells than it has room for
    let consistent = same_buf && TooDeeOps::is_empty(t) == d.is_empty() && t.size() == (t.num_cols(), t.num_rows()) && t.capacity() >= d.len();
    out.push(if consistent { d.len() as u64 } else { u64::MAX });
    out.extend(d.iter().map(|x| x.val() as u64));
    let drops = ledger_take_step_drops();
    if T::TRACK {
        out.push(drops.len() as u64);
        out.extend(drops);
    } else {
        out.push(0);
    }
    let mark = out.len();
    let ok = catch_unwind(AssertUnwindSafe(|| {
        let mut o: Vec<u64> = vec![];
        o.push(t.rows().len() as u64);
        o.push(t.cells().len() as u64);
        if c > 1024 || r > 1024 {
            // dimensions that cannot describe a test array: refuse to walk them
            o.push(MARK_PROBE_PANIC);
            return o;
        }
        o.push(c as u64);
        for i in 0..c {
            o.push(t.col(i).len() as u64);
        }
        o.push((c * r) as u64);
        for y in 0..r {
            for x in 0..c {
                o.push(t[(x, y)].val() as u64);
            }
        }
        o
    }));
    match ok {
        Ok(o) => out.extend(o),
        Err(_) => { out.truncate(mark); out.push(MARK_PROBE_PANIC) }
    }
    out.push(d.iter().filter(|x| x.is_zombie()).count() as u64);
    out.push(if T::TRACK { ledger_double() } else { 0 });
}

pub fn run_hist<T: Elem>(ops: &[Op], obs: &mut Vec<u64>) {
    ledger_reset();
    let mut t: TooDee<T> = TooDee::default();
    for op in ops {
        let mut ret: Vec<u64> = vec![];
        let ok = catch_unwind(AssertUnwindSafe(|| apply(&mut t, op, &mut ret))).is_ok();
        LEDGER.with(|l| { let mut l = l.borrow_mut(); l.drop_panic_in = None; l.clone_panic_in = None; l.default_panic_in = None; });
        if !ok {
            ret.clear();
        }
        obs.push(ok as u64);
        obs.push(ret.len() as u64);
        obs.extend(ret);
        probe(&t, obs);
    }
    drop(t);
    obs.push(if T::TRACK { ledger_live() } else { 0 });
}

/// family 2: the same histories on a zero-sized element type, observed through counts
pub fn emit_zst(out: &mut Out, prop: u32, ops: &[Op]) {
    let mut inp = vec![DBG as u64, 0, 2, 1, ops.len() as u64];
    for op in ops {
        op.encode(&mut inp);
    }
    if out.want_sample() {
        out.sample(&format!("C{:02} zero-sized elements history={:?}", prop, ops));
    }
    out.begin(prop, 2, &inp);
    let mut obs = vec![];
    ZLIVE.with(|c| c.set(0));
    let mut t: TooDee<Zt> = TooDee::default();
    for op in ops {
        let mut ret: Vec<u64> = vec![];
        let ok = catch_unwind(AssertUnwindSafe(|| apply(&mut t, op, &mut ret))).is_ok();
        let (c, r) = t.size();
        obs.extend([ok as u64, c as u64, r as u64, t.data().len() as u64, ZLIVE.with(|c| c.get()) as u64]);
    }
    drop(t);
    obs.push(ZLIVE.with(|c| c.get()) as u64);
    out.end(&obs);
}

fn zst_safe(op: &Op) -> bool {
    // a zero-sized Vec never fails to allocate: huge accepted sizes would loop for ever
    let small = |x: &u64| *x <= 64;
    match op {
        Op::New(c, r) | Op::Init(c, r, _) => small(c) && small(r),
        Op::InsertRow(_, s) | Op::PushRow(s) | Op::InsertCol(_, s) | Op::PushCol(s) => small(&s.claimed),
        Op::Capacity(..) => true,
        Op::Bomb(..) | Op::Fuse(..) => false,
        _ => true,
    }
}

/// zero-sized elements: exhaustive insert/remove on small shapes plus random histories
pub fn gen_zst(out: &mut Out, prop: u32, tier: &str, rng: &mut Rng) {
    let max = if tier == "quick" { 3 } else { 5 };
    for (c, r) in shapes(max) {
        for idx in 0..=r.max(c) + 1 {
            for l in [c, r, c + 1, 0, 1] {
                let s = Script::honest(ids(l as usize, 1));
                for op in [Op::InsertRow(idx, s.clone()), Op::InsertCol(idx, s.clone()), Op::PushRow(s.clone()), Op::PushCol(s.clone()),
                           Op::RemoveRow(idx, vec![DStep::Front, DStep::Len], DEnd::Drop), Op::RemoveCol(idx, vec![DStep::Back], DEnd::Drop)] {
                    emit_zst(out, prop, &[FromVecOp(c, r), op, Op::PopCol(vec![], DEnd::Drop), Op::DropArr]);
                }
                // iterators that do not keep their promise: a zero-sized element has no address
                // to tell "written" from "not written", so the count is all there is
                if idx <= 2 || idx == r.max(c) + 1 {
                    let mut bad: Vec<Script> = vec![];
                    if l >= 1 { let mut b = Script::honest(ids(l as usize - 1, 1)); b.claimed = l; bad.push(b); }            // one short
                    if l >= 2 { let mut b = Script::honest(vec![]); b.claimed = l; bad.push(b); }                           // yields nothing
                    { let mut b = Script::honest(ids(l as usize + 1, 1)); b.claimed = l; bad.push(b); }                      // one long
                    if l >= 1 { let mut b = Script::honest(ids(l as usize, 1)); b.panic_at = Some(l / 2); bad.push(b); }     // panics midway
                    { let mut b = Script::honest(ids(l as usize, 1)); b.panic_at = Some(l); bad.push(b); }                   // panics at the end check
                    for b in bad {
                        for op in [Op::InsertRow(idx, b.clone()), Op::InsertCol(idx, b.clone()), Op::PushRow(b.clone()), Op::PushCol(b.clone())] {
                            emit_zst(out, prop, &[FromVecOp(c, r), op, Op::PopRow(vec![], DEnd::Drop), Op::DropArr]);
                        }
                    }
                }
            }
        }
    }
    let n = if tier == "quick" { 800 } else { 20000 };
    for _ in 0..n {
        let len = 1 + rng.below(12) as usize;
        let mut ops: Vec<Op> = rand_history(rng, len, true, false).into_iter().filter(zst_safe).collect();
        ops.push(Op::DropArr);
        emit_zst(out, prop, &ops);
    }
}

pub fn encode_input(track: bool, spare: u64, ops: &[Op]) -> Vec<u64> {
    let mut inp = vec![DBG as u64, if track { 8 } else { 4 }, spare, track as u64, ops.len() as u64];
    for op in ops {
        op.encode(&mut inp);
    }
    inp
}

pub fn emit(out: &mut Out, prop: u32, track: bool, ops: &[Op]) {
    let inp = encode_input(track, 2, ops);
    if out.want_sample() {
        out.sample(&format!("C{:02} track={} history={:?}", prop, track, ops));
    }
    out.begin(prop, FAM, &inp);
    let mut obs = vec![];
    if track { run_hist::<Tracked>(ops, &mut obs) } else { run_hist::<u32>(ops, &mut obs) }
    out.end(&obs);
}

/// the same history on the 328-byte element type
pub fn emit_big(out: &mut Out, prop: u32, ops: &[Op]) {
    let mut inp = encode_input(false, 2, ops);
    inp[1] = Big::ESZ;
    if out.want_sample() { out.sample(&format!("C{:02} 328-byte elements history={:?}", prop, ops)); }
    out.begin(prop, FAM, &inp);
    let mut obs = vec![];
    run_hist::<Big>(ops, &mut obs);
    out.end(&obs);
}

/// re-run a recorded input (replay / shrinking)
pub fn replay(out: &mut Out, prop: u32, fam: u32, inp: &[u64]) {
    if fam != 2 && inp[1] == Big::ESZ {
        let n = inp[4];
        let mut it = inp[5..].iter();
        let ops: Vec<Op> = (0..n).map(|_| Op::decode(&mut it)).collect();
        return emit_big(out, prop, &ops);
    }
    let track = inp[3] != 0;
    let n = inp[4];
    let mut it = inp[5..].iter();
    let ops: Vec<Op> = (0..n).map(|_| Op::decode(&mut it)).collect();
    if fam == 2 { emit_zst(out, prop, &ops) } else { emit(out, prop, track, &ops) }
}

// ---------------------------------------------------------------------------------------
// Generators
// ---------------------------------------------------------------------------------------

pub fn ids(n: usize, base: u32) -> Vec<u32> {
    (0..n as u32).map(|i| base + i).collect()
}
fn shapes(max: u64) -> Vec<(u64, u64)> {
    let mut v = vec![(0, 0)];
    for c in 1..=max {
        for r in 1..=max {
            v.push((c, r));
        }
    }
    v
}
const HUGE: [u64; 3] = [u64::MAX, u64::MAX / 2 + 1, 1 << 62];

/// C06: every shape, insertion index, supplied length, element type, capacity situation
pub fn gen_c06(out: &mut Out, tier: &str, _rng: &mut Rng) {
    let max = if tier == "quick" { 4 } else { 7 };
    for (c, r) in shapes(max) {
        let base = FromVecOp(c, r);
        for track in [false, true] {
            for cap in 0..3u64 {
                for kind in 0..4 {
                    let dim = if kind % 2 == 0 { r } else { c };
                    let other = if kind % 2 == 0 { c } else { r };
                    let idxs: Vec<u64> = if kind < 2 {
                        (0..=dim + 1).chain([u64::MAX, 1 << 32]).collect()
                    } else { vec![0] };
                    for idx in idxs {
                        for l in 0..=other + 2 {
                            let s = Script::honest(ids(l as usize, 500));
                            let op = match kind {
                                0 => Op::InsertRow(idx, s),
                                1 => Op::InsertCol(idx, s),
                                2 => Op::PushRow(s),
                                _ => Op::PushCol(s),
                            };
                            let mut ops = vec![base.clone()];
                            match cap {
                                0 => ops.push(Op::Capacity(2, 0)),
                                1 => ops.push(Op::Capacity(0, 64)),
                                _ => {}
                            }
                            ops.push(op);
                            emit(out, 6, track, &ops);
                        }
                    }
                }
            }
        }
    }
}

/// shapes beyond the small exhaustive sweep: rows wider than 256 bytes (u32: 65+ columns,
/// the 16-byte tracked type: 17+), long columns, and arrays of 4096+ elements with and
/// without spare capacity - sizes at which buffer strategies (stack buffers in rotate,
/// reallocation fast paths) change
pub fn gen_large(out: &mut Out, prop: u32, tier: &str, rng: &mut Rng) {
    let mut shapes: Vec<(u64, u64)> = vec![(70, 3), (20, 3), (3, 70), (250, 2), (33, 4)];   // (the probe suite walks at most 1024 x 1024)
    let big: Vec<(u64, u64)> = if tier == "quick" { vec![(64, 64)] } else { vec![(64, 64), (16, 256), (256, 17)] };
    shapes.extend(big.iter().copied());
    for (c, r) in shapes {
        let is_big = c * r >= 4096;
        let row = |b: u32| Script::honest(ids(c as usize, b));
        let col = |b: u32| Script::honest(ids(r as usize, b));
        let mut ops: Vec<Op> = vec![];
        for i in [0, 1, r / 2, r] { ops.push(Op::InsertRow(i, row(700))); }
        for i in [0, 1, c / 2, c] { ops.push(Op::InsertCol(i, col(800))); }
        ops.push(Op::PushRow(row(900))); ops.push(Op::PushCol(col(950)));
        for fin in [DEnd::Drop, DEnd::Forget] {
            for i in [0, 1, r - 1] { for st in [vec![], vec![DStep::Front, DStep::Back], vec![DStep::Nth(1), DStep::Len]] { ops.push(Op::RemoveRow(i, st, fin.clone())); } }
            for i in [0, c / 2, c - 1] { for st in [vec![], vec![DStep::Back, DStep::Front]] { ops.push(Op::RemoveCol(i, st, fin.clone())); } }
            ops.push(Op::PopRow(vec![DStep::Front], fin.clone())); ops.push(Op::PopCol(vec![DStep::Back], fin.clone()));
        }
        if is_big && tier == "quick" { ops = ops.into_iter().enumerate().filter(|(i, _)| i % 3 == (rng.below(3) as usize)).map(|(_, o)| o).collect(); }
        for op in ops {
            for track in [true, false] {
                if is_big && track && tier == "quick" { continue; }
                // exact capacity (from_vec of an exact Vec) and a buffer with spare room
                for spare in [false, true] {
                    if is_big && spare && tier == "quick" && rng.chance(50) { continue; }
                    let mut h = vec![FromVecOp(c, r)];
                    if spare { h.push(Op::Capacity(0, 2 * (c + r))); }
                    h.push(op.clone());
                    h.push(Op::PushRow(Script::honest(ids(if matches!(op, Op::InsertCol(..) | Op::PushCol(..)) { c + 1 } else if matches!(op, Op::RemoveCol(..) | Op::PopCol(..)) { c - 1 } else { c } as usize, 600))));
                    emit(out, prop, track, &h);
                }
            }
        }
    }
}

#[allow(non_snake_case)]
fn FromVecOp(c: u64, r: u64) -> Op {
    Op::FromVec(c, r, ids((c * r) as usize, 1))
}

fn all_scripts(n: u64, with_len: bool) -> Vec<Vec<DStep>> {
    // every (front, back) split with front + back <= n + 1, in the two pure orders and an
    // alternating order, optionally with len() interleaved
    let mut v = vec![];
    for f in 0..=n + 1 {
        for b in 0..=(n + 1 - f) {
            let mut a: Vec<DStep> = vec![];
            a.extend(std::iter::repeat(DStep::Front).take(f as usize));
            a.extend(std::iter::repeat(DStep::Back).take(b as usize));
            v.push(a.clone());
            if f > 0 && b > 0 {
                let mut z = vec![];
                for i in 0..f.max(b) {
                    if i < b { z.push(DStep::Back) }
                    if i < f { z.push(DStep::Front) }
                }
                v.push(z);
            }
            // the same split reached with one nth / nth_back jump per end
            if f > 1 || b > 1 {
                let mut j = vec![];
                if f > 0 { j.push(DStep::Nth(f - 1)); }
                if b > 0 { j.push(DStep::NthBack(b - 1)); }
                v.push(j);
            }
            if with_len {
                let mut l = vec![DStep::Len];
                for s in &a {
                    l.push(*s);
                    l.push(DStep::Len);
                }
                v.push(l);
            }
        }
    }
    v
}

fn random_script(rng: &mut Rng, n: u64) -> Vec<DStep> {
    let k = rng.below(n + 3);
    (0..k).map(|_| match rng.below(8) { 0 | 1 => DStep::Front, 2 | 3 => DStep::Back, 4 => DStep::Len,
                                        5 => DStep::Nth(rng.below(n + 2)), 6 => DStep::NthBack(rng.below(n + 2)), _ => DStep::Len }).collect()
}

/// C07: every shape, index, consumption split; random interleavings
pub fn gen_c07(out: &mut Out, tier: &str, rng: &mut Rng) {
    let max = if tier == "quick" { 4 } else { 7 };
    let nrand = if tier == "quick" { 6 } else { 40 };
    for (c, r) in shapes(max) {
        for track in [false, true] {
            for kind in 0..4 {
                let dim = if kind % 2 == 0 { r } else { c };
                let line = if kind % 2 == 0 { c } else { r };
                let idxs: Vec<u64> = if kind < 2 { (0..=dim).chain([u64::MAX]).collect() } else { vec![0] };
                for idx in idxs {
                    let mut scripts = all_scripts(line, true);
                    for _ in 0..nrand {
                        scripts.push(random_script(rng, line));
                    }
                    for st in scripts {
                        let op = match kind {
                            0 => Op::RemoveRow(idx, st, DEnd::Drop),
                            1 => Op::RemoveCol(idx, st, DEnd::Drop),
                            2 => Op::PopRow(st, DEnd::Drop),
                            _ => Op::PopCol(st, DEnd::Drop),
                        };
                        let ops = vec![FromVecOp(c, r), Op::Capacity(2, 0), op.clone()];
                        emit(out, 7, track, &ops);
                        // a panicking element destructor at every position: the drop guards
                        // must still close the gap
                        if track && (c + r).wrapping_add(idx) % 3 == 0 {
                            for k in 0..=line {
                                let ops = vec![FromVecOp(c, r), Op::Bomb(k, Box::new(op.clone()))];
                                emit(out, 7, true, &ops);
                            }
                        }
                    }
                }
            }
        }
    }
}

fn rand_dim_arg(rng: &mut Rng, dim: u64, invalid_pct: u64) -> u64 {
    if rng.chance(invalid_pct) {
        match rng.below(4) {
            0 => dim,
            1 => dim + 1,
            2 => *rng.pick(&HUGE),
            _ => dim + rng.below(3),
        }
    } else if dim == 0 { 0 } else { rng.below(dim) }
}

/// one random operation on an array of the given (tracked by the generator) shape;
/// `faults` = allow dishonest iterators / leaked drains (C11, C12)
pub fn rand_op(rng: &mut Rng, c: u64, r: u64, next_id: &mut u32, honest_only: bool, allow_forget: bool) -> Op {
    let mut fresh = |n: usize| { let b = *next_id; *next_id += n as u32; ids(n, b) };
    let fin = |rng: &mut Rng| if allow_forget && rng.chance(30) { DEnd::Forget } else { DEnd::Drop };
    let script = |rng: &mut Rng, want: u64, fresh: &mut dyn FnMut(usize) -> Vec<u32>| {
        let l = if rng.chance(80) { want } else { rng.below(want + 3) };
        let mut s = Script::honest(fresh(l as usize));
        if !honest_only && rng.chance(50) {
            match rng.below(4) {
                0 => s.panic_at = Some(rng.below(l + 2)),
                1 => s.claimed = rng.below(l + 3),
                2 => s.claimed = *rng.pick(&HUGE),
                _ => { s.claimed = want; }
            }
        }
        s
    };
    match rng.below(28) {
        0 => {
            let (nc, nr) = if rng.chance(15) { (0, 0) } else { (1 + rng.below(5), 1 + rng.below(5)) };
            let l = if rng.chance(85) { nc * nr } else { rng.below(nc * nr + 3) };
            let (nc, nr) = if rng.chance(10) { (nc, 0) } else { (nc, nr) };
            Op::FromVec(nc, nr, fresh(l as usize))
        }
        1 => {
            if rng.chance(20) { Op::New(*rng.pick(&HUGE), rng.below(4)) }
            else if rng.chance(20) { Op::New(rng.below(4), 0) }
            else { Op::New(rng.below(5), rng.below(5)) }
        }
        2 => {
            let v = fresh(1)[0];
            if rng.chance(20) { Op::Init(1 << 32, 1 << 32, v) } else { Op::Init(rng.below(5), rng.below(5), v) }
        }
        3 => Op::Default,
        4 | 5 => { let i = rand_dim_arg(rng, r + 1, 25); let w = if r == 0 { rng.below(5) } else { c }; Op::InsertRow(i, script(rng, w, &mut fresh)) }
        6 | 7 => { let w = if r == 0 { rng.below(5) } else { c }; Op::PushRow(script(rng, w, &mut fresh)) }
        8 | 9 => { let i = rand_dim_arg(rng, c + 1, 25); let w = if c == 0 { rng.below(5) } else { r }; Op::InsertCol(i, script(rng, w, &mut fresh)) }
        10 | 11 => { let w = if c == 0 { rng.below(5) } else { r }; Op::PushCol(script(rng, w, &mut fresh)) }
        12 => Op::RemoveRow(rand_dim_arg(rng, r, 20), random_script(rng, c), fin(rng)),
        13 => { let o = Op::RemoveRow(rand_dim_arg(rng, r, 20), random_script(rng, c), DEnd::Drop); if rng.chance(50) { Op::Bomb(rng.below(c + 1), Box::new(o)) } else { o } }
        14 => Op::PopRow(random_script(rng, c), fin(rng)),
        15 => Op::RemoveCol(rand_dim_arg(rng, c, 20), random_script(rng, r), fin(rng)),
        16 => { let o = Op::RemoveCol(rand_dim_arg(rng, c, 20), random_script(rng, r), DEnd::Drop); if rng.chance(50) { Op::Bomb(rng.below(r + 1), Box::new(o)) } else { o } }
        17 => Op::PopCol(random_script(rng, r), fin(rng)),
        18 => if rng.chance(30) { Op::Clear } else if rng.chance(30) { Op::Bomb(rng.below(c * r + 1), Box::new(Op::Clear)) } else { Op::SwapDims },
        19 => Op::SwapDims,
        20 => Op::Capacity(rng.below(4), rng.below(40)),
        21 | 22 => { let v = fresh(1)[0]; Op::SetCell(rand_dim_arg(rng, c, 20), rand_dim_arg(rng, r, 20), v) }
        23 => { let v = fresh(1)[0]; Op::Fill(v) }
        24 => Op::CloneArr,
        25 => Op::IntoVec,
        26 => if rng.chance(30) { Op::IntoIter(rng.below(c * r + 2)) } else { Op::IntoVec },
        _ => if rng.chance(20) { Op::DropArr } else { Op::Capacity(2, 0) },
    }
}

/// The dimensions the array has after `op` according to the plain rows-of-cells reading of
/// the API.  The generator uses it only to choose mostly-valid arguments; it deliberately
/// does not run the crate under test (a broken crate must not be able to stall or steer the
/// generator).  After a faulting call the dimensions are taken as unchanged.
fn shadow_dims(op: &Op, (c, r): (u64, u64)) -> (u64, u64) {
    let honest = |s: &Script| s.panic_at.is_none() && s.claimed == s.items.len() as u64;
    let zero_ok = |a: u64, b: u64| (a == 0) == (b == 0);
    match op {
        Op::FromVec(a, b, d) => if zero_ok(*a, *b) && a.checked_mul(*b) == Some(d.len() as u64) { (*a, *b) } else { (c, r) },
        Op::New(a, b) | Op::Init(a, b, _) => if zero_ok(*a, *b) && a.checked_mul(*b).map_or(false, |p| p <= 4096) { (*a, *b) } else { (c, r) },
        Op::Default | Op::Clear | Op::DropArr | Op::IntoIter(_) => (0, 0),
        Op::InsertRow(i, s) => if honest(s) && *i <= r && (r == 0 || s.items.len() as u64 == c) && !s.items.is_empty() { (s.items.len() as u64, r + 1) } else { (c, r) },
        Op::PushRow(s) => if honest(s) && (r == 0 || s.items.len() as u64 == c) && !s.items.is_empty() { (s.items.len() as u64, r + 1) } else { (c, r) },
        Op::InsertCol(i, s) => if honest(s) && *i <= c && (c == 0 || s.items.len() as u64 == r) && !s.items.is_empty() { (c + 1, s.items.len() as u64) } else { (c, r) },
        Op::PushCol(s) => if honest(s) && (c == 0 || s.items.len() as u64 == r) && !s.items.is_empty() { (c + 1, s.items.len() as u64) } else { (c, r) },
        Op::RemoveRow(i, _, _) => if *i < r { if r == 1 { (0, 0) } else { (c, r - 1) } } else { (c, r) },
        Op::PopRow(_, _) => if r == 0 { (c, r) } else if r == 1 { (0, 0) } else { (c, r - 1) },
        Op::RemoveCol(i, _, f) => if *i < c { if *f == DEnd::Forget || c == 1 { (0, 0) } else { (c - 1, r) } } else { (c, r) },
        Op::PopCol(_, f) => if c == 0 { (c, r) } else if *f == DEnd::Forget || c == 1 { (0, 0) } else { (c - 1, r) },
        Op::SwapDims => (r, c),
        Op::Bomb(_, o) => shadow_dims(o, (c, r)),
        Op::Fuse(..) => (c, r),
        Op::CloneFrom(a, b, d) => if zero_ok(*a, *b) && a.checked_mul(*b) == Some(d.len() as u64) { (*a, *b) } else { (c, r) },
        _ => (c, r),
    }
}

/// a random history
pub fn rand_history(rng: &mut Rng, len: usize, honest_only: bool, allow_forget: bool) -> Vec<Op> {
    let mut ops: Vec<Op> = vec![];
    let mut dims = (0u64, 0u64);
    let mut next_id = 1u32;
    for _ in 0..len {
        let op = rand_op(rng, dims.0, dims.1, &mut next_id, honest_only, allow_forget);
        dims = shadow_dims(&op, dims);
        ops.push(op);
    }
    ops
}

/// C01 / C05: exhaustive short histories on tiny shapes plus random longer ones
pub fn gen_c01(out: &mut Out, prop: u32, tier: &str, rng: &mut Rng) {
    let track_modes: &[bool] = if prop == 5 { &[true] } else { &[false, true] };
    // exhaustive: two operations after a constructor, over a small alphabet
    let alphabet = |c: u64, r: u64| -> Vec<Op> {
        let mut v = vec![];
        for i in 0..=r + 1 { v.push(Op::InsertRow(i, Script::honest(ids(c.max(1) as usize, 700)))); }
        for i in 0..=c + 1 { v.push(Op::InsertCol(i, Script::honest(ids(r.max(1) as usize, 800)))); }
        v.push(Op::PushRow(Script::honest(ids(c as usize + 1, 900))));
        v.push(Op::PushCol(Script::honest(vec![])));
        // calls rejected with a panic because the iterator argument is bad: it ends before
        // the length it reported, or it panics part-way
        { let mut s = Script::honest(ids((c.max(1) - 1) as usize, 750)); s.claimed = c.max(1); v.push(Op::InsertRow(0, s)); }
        { let mut s = Script::honest(ids(c.max(1) as usize, 760)); s.panic_at = Some(c.max(1) / 2); v.push(Op::InsertRow(r, s)); }
        { let mut s = Script::honest(ids((r.max(1) - 1) as usize, 770)); s.claimed = r.max(1); v.push(Op::InsertCol(0, s)); }
        { let mut s = Script::honest(ids(r.max(1) as usize, 780)); s.panic_at = Some(r.max(1) / 2); v.push(Op::InsertCol(c, s)); }
        for i in 0..=r { v.push(Op::RemoveRow(i, vec![DStep::Front, DStep::Len], DEnd::Drop)); }
        for i in 0..=c { v.push(Op::RemoveCol(i, vec![DStep::Back], DEnd::Drop)); }
        v.push(Op::PopRow(vec![], DEnd::Drop));
        v.push(Op::PopCol(vec![DStep::Front, DStep::Front, DStep::Front], DEnd::Drop));
        v.push(Op::Clear);
        v.push(Op::SwapDims);
        v.push(Op::SetCell(0, 0, 990));
        v.push(Op::SetCell(c, 0, 991));
        v.push(Op::Fill(992));
        v.push(Op::New(2, 0));
        v.push(Op::New(2, 1));
        v.push(Op::IntoVec);
        v.push(Op::CloneArr);
        v.push(Op::IntoIter(1));
        v
    };
    let smax = if tier == "quick" { 2 } else { 3 };
    for (c, r) in shapes(smax) {
        for a in alphabet(c, r) {
            // the shape after `a` is not known statically; reuse the alphabet of nearby shapes
            for (c2, r2) in [(c, r), (c + 1, r), (c, r + 1), (c.saturating_sub(1), r), (c, r.saturating_sub(1))] {
                for b in alphabet(c2, r2) {
                    for &track in track_modes {
                        if tier == "quick" && track && prop != 5 && (c + r) % 2 == 1 { continue; }
                        emit(out, prop, track, &[FromVecOp(c, r), a.clone(), b.clone(), Op::DropArr]);
                    }
                }
            }
        }
    }
    let (n, maxlen) = if tier == "quick" { (3000, 14) } else { (60000, 40) };
    for i in 0..n {
        let len = 1 + rng.below(maxlen) as usize;
        // one history in four also passes bad iterators (wrong reported length, early end, panic)
        let mut ops = rand_history(rng, len, i % 4 != 3, false);
        ops.push(Op::DropArr);
        emit(out, prop, track_modes[i % track_modes.len()], &ops);
    }
}

/// C11 (iterator faults): every shape/index, panic at every k, lying lengths
pub fn gen_c11_iter(out: &mut Out, tier: &str, rng: &mut Rng) {
    let max = if tier == "quick" { 3 } else { 5 };
    for (c, r) in shapes(max) {
        for kind in 0..2 {
            let dim = if kind == 0 { r } else { c };
            let want = if kind == 0 { c } else { r };
            let wants: Vec<u64> = if c == 0 { vec![0, 1, 3] } else { vec![want] };
            for want in wants {
                for idx in 0..=dim {
                    let mut scripts: Vec<Script> = vec![];
                    for k in 0..=want + 1 {
                        let mut s = Script::honest(ids(want as usize, 500));
                        s.panic_at = Some(k);
                        scripts.push(s);
                    }
                    for body in [want.saturating_sub(1), want, want + 1, 0] {
                        for claimed in [want.saturating_sub(1), want, want + 1, 0, u64::MAX, u64::MAX / 2 + 1] {
                            let mut s = Script::honest(ids(body as usize, 500));
                            s.claimed = claimed;
                            scripts.push(s);
                        }
                    }
                    for s in scripts {
                        // push_row / push_col are entry points of their own
                        if idx == dim {
                            let push = if kind == 0 { Op::PushRow(s.clone()) } else { Op::PushCol(s.clone()) };
                            for cap in [Op::Capacity(2, 0), Op::Capacity(0, 16)] {
                                emit(out, 11, true, &[FromVecOp(c, r), cap, push.clone(), Op::PushRow(Script::honest(ids(c.max(1) as usize, 600))), Op::Clear]);
                            }
                        }
                        let op = if kind == 0 { Op::InsertRow(idx, s) } else { Op::InsertCol(idx, s) };
                        // after the fault: probe suite = read (probes), modify, drain, clear
                        let tail = vec![
                            Op::PushRow(Script::honest(ids(c.max(1) as usize, 600))),
                            Op::RemoveCol(0, vec![DStep::Front, DStep::Back], DEnd::Drop),
                            Op::Clear,
                        ];
                        for track in [true, false] {
                            // without spare room (shrink_to_fit) and with it (reserve)
                            for cap in [Op::Capacity(2, 0), Op::Capacity(0, 16)] {
                                if !track && matches!(cap, Op::Capacity(0, _)) { continue; }
                                let mut ops = vec![FromVecOp(c, r), cap, op.clone()];
                                ops.extend(tail.clone());
                                emit(out, 11, track, &ops);
                            }
                        }
                    }
                }
            }
        }
    }
    gen_fuses(out, 11, tier);
    let (n, maxlen) = if tier == "quick" { (1500, 10) } else { (40000, 30) };
    for i in 0..n {
        let len = 1 + rng.below(maxlen) as usize;
        let mut ops = rand_history(rng, len, false, false);
        // every third random history: some Clone-calling steps get a fuse
        if i % 3 == 0 {
            ops = ops.into_iter().map(|o| match &o {
                Op::Fill(_) | Op::CloneArr | Op::Init(..) if rng.chance(60) => Op::Fuse(0, rng.below(6), Box::new(o)),
                Op::New(..) if rng.chance(60) => Op::Fuse(1, rng.below(6), Box::new(o)),
                _ => o }).collect();
            if rng.chance(50) { let (c2, r2) = (1 + rng.below(3), 1 + rng.below(3)); let at = rng.below(ops.len() as u64 + 1) as usize;
                let cf = Op::CloneFrom(c2, r2, ids((c2 * r2) as usize, 7100)); ops.insert(at, if rng.chance(50) { Op::Fuse(0, rng.below(c2 * r2 + 1), Box::new(cf)) } else { cf }); }
        }
        ops.push(Op::DropArr);
        emit(out, 11, true, &ops);
    }
}

/// Clone / Default that panic at their k-th call, for every operation that calls them:
/// init, fill, clone, clone_from (every pair of shapes), new
pub fn gen_fuses(out: &mut Out, prop: u32, tier: &str) {
    let fmax = if tier == "quick" { 3 } else { 4 };
    for (c, r) in shapes(fmax) {
        let n = c * r;
        let mut fused: Vec<(u64, u64, Op)> = vec![];   // (kind, number of calls, op)
        fused.push((0, n.saturating_sub(1), Op::Fill(4242)));
        fused.push((0, n, Op::CloneArr));
        for (c2, r2) in shapes(fmax) {
            let n2 = c2 * r2;
            fused.push((0, n2, Op::CloneFrom(c2, r2, ids(n2 as usize, 7000))));
            if c == 0 || (c + r + c2 + r2) % 2 == 0 {
                fused.push((0, n2.saturating_sub(1), Op::Init(c2, r2, 4243)));
                fused.push((1, n2, Op::New(c2, r2)));
            }
        }
        fused.push((0, 0, Op::CloneFrom(2, 0, vec![])));            // rejected source
        fused.push((0, 0, Op::Init(0, 3, 4244)));                   // rejected before any clone
        for (kind, calls, op) in fused {
            for k in 0..=calls + 1 {
                let tail = vec![
                    Op::PushRow(Script::honest(ids(8, 600))),      // accepted only on an empty / 8-wide array
                    Op::Fill(4300),
                    Op::RemoveCol(0, vec![DStep::Front, DStep::Back], DEnd::Drop),
                    Op::Clear,
                ];
                let mut ops = vec![FromVecOp(c, r), Op::Fuse(kind, k, Box::new(op.clone()))];
                ops.extend(tail);
                emit(out, prop, true, &ops);
                if k == 0 { let mut o2 = vec![FromVecOp(c, r), Op::Fuse(kind, k, Box::new(op.clone())), Op::Clear]; o2.truncate(3); emit(out, prop, false, &o2); }
            }
        }
    }
}

/// an element destructor that panics at its k-th call during clear / removals / the drop of
/// the array (the paths whose drop guards must finish the work), then further use
pub fn gen_bombs(out: &mut Out, prop: u32, tier: &str) {
    let max = if tier == "quick" { 3 } else { 4 };
    for (c, r) in shapes(max) {
        if c == 0 { continue; }
        let mut ops: Vec<(u64, Op)> = vec![(c * r, Op::Clear), (c * r, Op::DropArr)];
        for st in [vec![], vec![DStep::Front], vec![DStep::Back, DStep::Front]] {
            for i in 0..r { ops.push((c, Op::RemoveRow(i, st.clone(), DEnd::Drop))); }
            for i in 0..c { ops.push((r, Op::RemoveCol(i, st.clone(), DEnd::Drop))); }
            ops.push((c, Op::PopRow(st.clone(), DEnd::Drop)));
            ops.push((r, Op::PopCol(st.clone(), DEnd::Drop)));
        }
        for (calls, op) in ops {
            for k in 0..=calls {
                emit(out, prop, true, &[FromVecOp(c, r), Op::Bomb(k, Box::new(op.clone())),
                                        Op::PushRow(Script::honest(ids(c as usize, 600))), Op::Fill(4300), Op::Clear]);
            }
        }
    }
}

/// large elements: every insert / remove operation on small shapes (a 2-cell row is already
/// wider than 256 bytes, a 13-cell array larger than a page), then random histories
pub fn gen_big(out: &mut Out, prop: u32, tier: &str, rng: &mut Rng) {
    for (c, r) in [(1u64, 1u64), (2, 3), (3, 2), (1, 4), (4, 1), (5, 3), (3, 5)] {
        let row = |b: u32| Script::honest(ids(c as usize, b));
        let col = |b: u32| Script::honest(ids(r as usize, b));
        let mut ops: Vec<Op> = vec![Op::Clear, Op::SwapDims, Op::Fill(77), Op::CloneArr, Op::IntoVec, Op::IntoIter(2)];
        for i in 0..=r { ops.push(Op::InsertRow(i, row(700))); }
        for i in 0..=c { ops.push(Op::InsertCol(i, col(800))); }
        ops.push(Op::PushRow(row(900))); ops.push(Op::PushCol(col(950)));
        for fin in [DEnd::Drop, DEnd::Forget] {
            for st in [vec![], vec![DStep::Front], vec![DStep::Back, DStep::Len, DStep::Front]] {
                for i in 0..r { ops.push(Op::RemoveRow(i, st.clone(), fin)); }
                for i in 0..c { ops.push(Op::RemoveCol(i, st.clone(), fin)); }
                ops.push(Op::PopRow(st.clone(), fin)); ops.push(Op::PopCol(st.clone(), fin));
            }
        }
        for op in ops {
            for spare in [false, true] {
                let mut h = vec![FromVecOp(c, r)];
                if spare { h.push(Op::Capacity(0, 2 * (c + r))); }
                h.push(op.clone());
                h.push(Op::PushRow(Script::honest(ids(8, 600))));
                h.push(Op::SetCell(0, 0, 5));
                emit_big(out, prop, &h);
            }
        }
    }
    let n = if tier == "quick" { 300 } else { 6000 };
    for _ in 0..n {
        let len = 1 + rng.below(10) as usize;
        let mut ops: Vec<Op> = rand_history(rng, len, true, true).into_iter().filter(|o| !matches!(o, Op::Bomb(..) | Op::Fuse(..) | Op::New(..) | Op::Init(..))).collect();
        ops.push(Op::DropArr);
        emit_big(out, prop, &ops);
    }
}

/// C20: clone() / clone_from() between every pair of small shapes (equal counts with
/// different dimensions included), then the conversions out, tracked and Copy elements
pub fn gen_clone_from(out: &mut Out, prop: u32, tier: &str) {
    let max = if tier == "quick" { 3 } else { 4 };
    for (c, r) in shapes(max) { for (c2, r2) in shapes(max) {
        let d = ids((c2 * r2) as usize, 7000);
        for track in [true, false] {
            emit(out, prop, track, &[FromVecOp(c, r), Op::CloneFrom(c2, r2, d.clone()), Op::CloneArr, Op::SetCell(0, 0, 9), Op::IntoVec]);
            emit(out, prop, track, &[FromVecOp(c, r), Op::CloneArr, Op::CloneFrom(c2, r2, d.clone()), Op::IntoIter(2)]);
        }
    } }
    // rejected sources leave the destination alone
    for (c2, r2, l) in [(2u64, 0u64, 0usize), (0, 3, 0), (2, 2, 3), (2, 2, 5)] {
        emit(out, prop, true, &[FromVecOp(2, 2), Op::CloneFrom(c2, r2, ids(l, 7000)), Op::IntoVec]);
    }
}

/// C12 (leaked drains): every shape, index and consumption split before mem::forget
pub fn gen_c12_drain(out: &mut Out, tier: &str, rng: &mut Rng) {
    let max = if tier == "quick" { 4 } else { 6 };
    for (c, r) in shapes(max) {
        for kind in 0..4 {
            let dim = if kind % 2 == 0 { r } else { c };
            let line = if kind % 2 == 0 { c } else { r };
            let idxs: Vec<u64> = if kind < 2 { (0..dim.max(1)).collect() } else { vec![0] };
            for idx in idxs {
                for st in all_scripts(line, false) {
                    let op = match kind {
                        0 => Op::RemoveRow(idx, st, DEnd::Forget),
                        1 => Op::RemoveCol(idx, st, DEnd::Forget),
                        2 => Op::PopRow(st, DEnd::Forget),
                        _ => Op::PopCol(st, DEnd::Forget),
                    };
                    let tail = vec![
                        Op::PushRow(Script::honest(ids(c.max(1) as usize, 600))),
                        Op::RemoveRow(0, vec![DStep::Front], DEnd::Forget),
                        Op::PushCol(Script::honest(ids(r.max(1) as usize, 650))),
                        Op::RemoveCol(0, vec![DStep::Front, DStep::Back], DEnd::Drop),
                        Op::Clear,
                    ];
                    for track in [true, false] {
                        let mut ops = vec![FromVecOp(c, r), op.clone()];
                        ops.extend(tail.clone());
                        emit(out, 12, track, &ops);
                    }
                }
            }
        }
    }
    let (n, maxlen) = if tier == "quick" { (1500, 10) } else { (40000, 30) };
    for _ in 0..n {
        let len = 1 + rng.below(maxlen) as usize;
        let mut ops = rand_history(rng, len, true, true);
        ops.push(Op::DropArr);
        emit(out, 12, true, &ops);
    }
}
