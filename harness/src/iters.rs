//! Family 3: call sequences on rows()/rows_mut(), col()/col_mut(), cells()/cells_mut() and the
//! IntoIterator forms, on an owned array or a window of it (C08, C09, C10).
use crate::util::*;
use std::ops::Index;
use std::panic::{catch_unwind, AssertUnwindSafe};
use toodee::*;

pub const FAM: u32 = 3;

#[derive(Clone, Debug)]
pub struct ICase {
    pub recv: u64,    // 0 owned, 1 view, 2 view_mut
    pub mutable: bool,
    pub c: u64,
    pub r: u64,
    pub win: (u64, u64, u64, u64), // s0 s1 e0 e1
    pub kind: u64,    // 0 rows, 1 col, 2 cells, 3 cells through IntoIterator
    pub col: u64,
    pub calls: Vec<(u64, u64)>, // 0 next 1 next_back 2 nth 3 nth_back 4 len 5 index
    pub term: u64,    // 0 count 1 last 2 fold 3 rfold 4 none
}

impl ICase {
    pub fn encode(&self) -> Vec<u64> {
        let mut v = vec![DBG as u64, self.recv, self.mutable as u64, self.c, self.r,
                         self.win.0, self.win.1, self.win.2, self.win.3, self.kind, self.col,
                         self.calls.len() as u64];
        for (o, n) in &self.calls {
            v.extend([*o, *n]);
        }
        v.push(self.term);
        v
    }
    pub fn decode(inp: &[u64]) -> ICase {
        let n = inp[11] as usize;
        let calls = (0..n).map(|i| (inp[12 + 2 * i], inp[13 + 2 * i])).collect();
        ICase { recv: inp[1], mutable: inp[2] != 0, c: inp[3], r: inp[4],
                win: (inp[5], inp[6], inp[7], inp[8]), kind: inp[9], col: inp[10], calls,
                term: inp[12 + 2 * n] }
    }
}

fn mark(k: usize) -> u32 { 1000 * (k as u32 + 1) }

trait Item {
    fn enc(self, k: Option<usize>, o: &mut Vec<u64>);
    fn enc_fold(self, o: &mut Vec<u64>);
}
impl Item for &[u32] {
    fn enc(self, _k: Option<usize>, o: &mut Vec<u64>) {
        o.extend([1, ident(self.first().copied().unwrap_or(0)), self.len() as u64]);
    }
    fn enc_fold(self, o: &mut Vec<u64>) {
        o.extend([ident(self.first().copied().unwrap_or(0)), self.len() as u64]);
    }
}
impl Item for &mut [u32] {
    fn enc(self, k: Option<usize>, o: &mut Vec<u64>) {
        o.extend([1, ident(self.first().copied().unwrap_or(0)), self.len() as u64]);
        if let Some(k) = k {
            for x in self.iter_mut() { *x += mark(k); }
        }
    }
    fn enc_fold(self, o: &mut Vec<u64>) {
        o.extend([self.first().copied().unwrap_or(0) as u64, self.len() as u64]);
    }
}
impl Item for &u32 {
    fn enc(self, _k: Option<usize>, o: &mut Vec<u64>) { o.extend([1, ident(*self)]); }
    fn enc_fold(self, o: &mut Vec<u64>) { o.push(ident(*self)); }
}
impl Item for &mut u32 {
    fn enc(self, k: Option<usize>, o: &mut Vec<u64>) {
        o.extend([1, ident(*self)]);
        if let Some(k) = k { *self += mark(k); }
    }
    fn enc_fold(self, o: &mut Vec<u64>) { o.push(ident(*self)); }
}

fn drive<I>(it: I, case: &ICase, o: &mut Vec<u64>, idx: Option<&dyn Fn(&I, usize) -> u32>)
where I: DoubleEndedIterator + ExactSizeIterator, I::Item: Item {
    drive_mut(it, case, o, idx, None)
}

/// `idx_mut`: the IndexMut form of indexing (ColMut): reads the cell, then adds the step's mark
fn drive_mut<I>(mut it: I, case: &ICase, o: &mut Vec<u64>, idx: Option<&dyn Fn(&I, usize) -> u32>, idx_mut: Option<&dyn Fn(&mut I, usize, u32) -> u32>)
where I: DoubleEndedIterator + ExactSizeIterator, I::Item: Item {
    for (k, (op, n)) in case.calls.iter().enumerate() {
        let n = *n as usize;
        match op {
            0 => match it.next() { Some(x) => x.enc(Some(k), o), None => o.push(0) },
            1 => match it.next_back() { Some(x) => x.enc(Some(k), o), None => o.push(0) },
            2 => match it.nth(n) { Some(x) => x.enc(Some(k), o), None => o.push(0) },
            3 => match it.nth_back(n) { Some(x) => x.enc(Some(k), o), None => o.push(0) },
            4 => o.push(it.len() as u64),
            _ => match (idx_mut, idx) {
                (Some(f), _) if case.mutable => match catch_unwind(AssertUnwindSafe(|| f(&mut it, n, mark(k)))) {
                    Ok(v) => o.extend([1, ident(v)]),
                    Err(_) => o.push(0),
                },
                (_, Some(f)) => match catch_unwind(AssertUnwindSafe(|| f(&it, n))) {
                    Ok(v) => o.extend([1, ident(v)]),
                    Err(_) => o.push(0),
                },
                _ => o.push(0),
            },
        }
    }
    match case.term {
        0 => o.push(it.count() as u64),
        1 => match it.last() { Some(x) => x.enc(None, o), None => o.push(0) },
        2 => {
            let mut tmp = vec![];
            let n = it.fold(0u64, |a, x| { x.enc_fold(&mut tmp); a + 1 });
            o.push(n);
            o.extend(tmp);
        }
        3 => {
            let mut tmp = vec![];
            let n = it.rfold(0u64, |a, x| { x.enc_fold(&mut tmp); a + 1 });
            o.push(n);
            o.extend(tmp);
        }
        _ => {}
    }
}

fn col_idx<'a>(it: &Col<'a, u32>, i: usize) -> u32 { *it.index(i) }
fn colmut_idx<'a>(it: &ColMut<'a, u32>, i: usize) -> u32 { *it.index(i) }
fn colmut_idx_mut<'a>(it: &mut ColMut<'a, u32>, i: usize, m: u32) -> u32 { use std::ops::IndexMut; let cell = it.index_mut(i); let old = *cell; *cell += m; old }
/// the cell's identity: its original value (marks are multiples of 1000, arrays of this family have fewer cells)
fn ident(x: u32) -> u64 { (x % 1000) as u64 }

fn run_on<V: TooDeeOps<u32>>(v: &V, case: &ICase, o: &mut Vec<u64>) {
    match case.kind {
        0 => drive(v.rows(), case, o, None),
        1 => drive(v.col(case.col as usize), case, o, Some(&col_idx)),
        _ => drive(v.cells(), case, o, None),
    }
}
fn run_on_mut<V: TooDeeOpsMut<u32>>(v: &mut V, case: &ICase, o: &mut Vec<u64>) {
    match case.kind {
        0 => drive(v.rows_mut(), case, o, None),
        1 => drive_mut(v.col_mut(case.col as usize), case, o, Some(&colmut_idx), Some(&colmut_idx_mut)),
        _ => drive(v.cells_mut(), case, o, None),
    }
}

pub fn run_case(case: &ICase, obs: &mut Vec<u64>) {
    let (c, r) = (case.c as usize, case.r as usize);
    let mut t = TooDee::from_vec(c, r, (0..(c * r) as u32).collect());
    let (s, e) = ((case.win.0 as usize, case.win.1 as usize), (case.win.2 as usize, case.win.3 as usize));
    let mut o: Vec<u64> = vec![];
    if case.recv >= 3 {
        // TooDeeView::new / TooDeeViewMut::new over a slice that is win.0 cells longer than
        // the array (the documentation allows it: only a too-short slice is rejected)
        let mut buf: Vec<u32> = (0..(c * r + case.win.0 as usize) as u32).collect();
        let res = catch_unwind(AssertUnwindSafe(|| {
            let into = case.kind == 3;
            match (case.recv, case.mutable) {
                (3, _) => { let v = TooDeeView::new(c, r, &buf); if into { drive((&v).into_iter(), case, &mut o, None) } else { run_on(&v, case, &mut o) } }
                (_, false) => { let v = TooDeeViewMut::new(c, r, &mut buf); if into { drive((&v).into_iter(), case, &mut o, None) } else { run_on(&v, case, &mut o) } }
                (_, true) => { let mut v = TooDeeViewMut::new(c, r, &mut buf); if into { drive((&mut v).into_iter(), case, &mut o, None) } else { run_on_mut(&mut v, case, &mut o) } }
            }
        }));
        match res {
            Ok(()) => { obs.push(1); obs.extend(o); if case.mutable { obs.push(buf.len() as u64); obs.extend(buf.iter().map(|x| *x as u64)); } }
            Err(_) => { if o.is_empty() { obs.push(0) } else { obs.push(MARK_PROBE_PANIC); obs.extend(o) } }
        }
        return;
    }
    let res = catch_unwind(AssertUnwindSafe(|| {
        let into = case.kind == 3;
        match (case.recv, case.mutable) {
            (0, false) => if into { drive((&t).into_iter(), case, &mut o, None) } else { run_on(&t, case, &mut o) },
            (0, true) => if into { drive((&mut t).into_iter(), case, &mut o, None) } else { run_on_mut(&mut t, case, &mut o) },
            (1, _) => { let v = t.view(s, e); if into { drive((&v).into_iter(), case, &mut o, None) } else { run_on(&v, case, &mut o) } }
            (_, false) => { let v = t.view_mut(s, e); if into { drive((&v).into_iter(), case, &mut o, None) } else { run_on(&v, case, &mut o) } }
            (_, true) => { let mut v = t.view_mut(s, e); if into { drive((&mut v).into_iter(), case, &mut o, None) } else { run_on_mut(&mut v, case, &mut o) } }
        }
    }));
    match res {
        Ok(()) => {
            obs.push(1);
            obs.extend(o);
            if case.mutable {
                obs.push(t.data().len() as u64);
                obs.extend(t.data().iter().map(|x| *x as u64));
            }
        }
        Err(_) => {
            if o.is_empty() { obs.push(0) } else { obs.push(MARK_PROBE_PANIC); obs.extend(o) }
        }
    }
}

pub fn emit(out: &mut Out, prop: u32, case: &ICase) {
    if out.want_sample() {
        out.sample(&format!("C{:02} {:?}", prop, case));
    }
    out.begin(prop, FAM, &case.encode());
    let mut obs = vec![];
    run_case(case, &mut obs);
    out.end(&obs);
}
pub fn replay(out: &mut Out, prop: u32, inp: &[u64]) {
    emit(out, prop, &ICase::decode(inp));
}

// ---------------------------------------------------------------------------------------

fn ceil_div_2_64(d: u64) -> u64 {
    if d <= 1 { u64::MAX } else { (((1u128 << 64) + d as u128 - 1) / d as u128) as u64 }
}

/// interesting jump sizes for a sequence of `len` items whose cursor arithmetic multiplies by `denom`
fn jumps(len: u64, denom: u64, cols: u64) -> Vec<u64> {
    let mut v = vec![0, 1, 2, len.saturating_sub(1), len, len + 1, u64::MAX, u64::MAX / 2 + 1, 1 << 63,
                     ceil_div_2_64(denom), ceil_div_2_64(denom).wrapping_add(1), ceil_div_2_64(denom).wrapping_sub(1)];
    if cols > 0 {
        v.extend([cols - 1, cols, cols + 1, 2 * cols, 2 * cols + 1]);
        // wrapped products that land inside the buffer: k * 2^j with (k*2^j*denom) mod 2^64 small
        if denom.is_power_of_two() && denom > 1 {
            v.push((1u64 << 63) / (denom / 2).max(1));
            v.push(((1u128 << 64) / denom as u128) as u64 + 1);
        }
    }
    v.sort_unstable();
    v.dedup();
    v
}

struct Recv { recv: u64, c: u64, r: u64, win: (u64, u64, u64, u64), cols: u64, rows: u64 }

fn receivers(tier: &str) -> Vec<Recv> {
    let mut v = vec![];
    let smax = if tier == "quick" { 3 } else { 5 };
    v.push(Recv { recv: 0, c: 0, r: 0, win: (0, 0, 0, 0), cols: 0, rows: 0 });
    for c in 1..=smax { for r in 1..=smax { v.push(Recv { recv: 0, c, r, win: (0, 0, 0, 0), cols: c, rows: r }); } }
    // views constructed directly over a slice with 0, 1, cols-1, cols, 2*cols+1 spare cells
    for (c, r) in [(0u64, 0u64), (1, 1), (3, 2), (2, 3), (1, 4), (4, 1)] {
        let mut extras = vec![0, 1, c.saturating_sub(1), c, 2 * c + 1]; extras.sort_unstable(); extras.dedup();
        for extra in extras { for recv in [3, 4] { v.push(Recv { recv, c, r, win: (extra, 0, 0, 0), cols: c, rows: r }); } }
    }
    let parents: Vec<(u64, u64)> = if tier == "quick" { vec![(4, 4), (1, 3), (3, 1)] } else { vec![(5, 5), (6, 4), (1, 4), (4, 1), (2, 7)] };
    for (pc, pr) in parents {
        for s0 in 0..=pc { for e0 in s0..=pc { for s1 in 0..=pr { for e1 in s1..=pr {
            let (mut nc, mut nr) = (e0 - s0, e1 - s1);
            if nc == 0 || nr == 0 { nc = 0; nr = 0; }
            for recv in [1, 2] {
                v.push(Recv { recv, c: pc, r: pr, win: (s0, s1, e0, e1), cols: nc, rows: nr });
            }
        } } } }
    }
    v
}

pub fn generate(out: &mut Out, prop: u32, tier: &str, rng: &mut Rng) {
    let kinds: Vec<u64> = match prop { 8 => vec![0], 9 => vec![1], _ => vec![2, 3] };
    let (nrand, maxdepth) = if tier == "quick" { (10, 6) } else { (60, 12) };
    for rc in receivers(tier) {
        let stride = rc.c; // parent width
        for &kind in &kinds {
            let len = match kind { 0 | 1 => rc.rows, _ => rc.rows * rc.cols };
            let denom = match kind { 0 | 1 => stride.max(1), _ => rc.cols.max(1) };
            let js = jumps(len, denom, if kind >= 2 { rc.cols } else { 0 });
            let cols_to_try: Vec<u64> = if kind != 1 { vec![0] }
                else if tier != "quick" || rc.cols <= 2 { (0..=rc.cols).chain([u64::MAX]).collect() }
                else { vec![0, rc.cols / 2, rc.cols - 1, rc.cols, u64::MAX] };
            for col in cols_to_try {
                for mutable in [false, true] {
                    if mutable && (rc.recv == 1 || rc.recv == 3) { continue; }
                    let mk = |calls: Vec<(u64, u64)>, term: u64| ICase {
                        recv: rc.recv, mutable, c: rc.c, r: rc.r, win: rc.win, kind, col, calls, term };
                    // every single call, then a terminal operation
                    let mut singles: Vec<(u64, u64)> = vec![(0, 0), (1, 0), (4, 0)];
                    for &n in &js { singles.push((2, n)); singles.push((3, n)); if kind == 1 { singles.push((5, n)); } }
                    for (i, s) in singles.iter().enumerate() {
                        let term = (i % 5) as u64;
                        let term = if kind == 1 && term == 3 { 2 } else { term };
                        emit(out, prop, &mk(vec![*s, (4, 0)], term));
                    }
                    // exhaustive pairs on small receivers (partially consumed front/back first)
                    if (len <= 6 && (kind != 1 || rc.recv == 0 || (rc.win.0 + rc.win.1) % 2 == 0)) || tier != "quick" {
                        let small: Vec<(u64, u64)> = singles.iter().copied().filter(|(_, n)| *n <= len + 1 || *n == u64::MAX).collect();
                        for a in &small { for b in &small {
                            emit(out, prop, &mk(vec![*a, *b, (4, 0), (0, 0), (1, 0)], 4));
                        } }
                    }
                    // random deeper sequences
                    for _ in 0..nrand {
                        let d = 2 + rng.below(maxdepth) as usize;
                        let calls: Vec<(u64, u64)> = (0..d).map(|_| {
                            let op = *rng.pick(&[0u64, 0, 1, 1, 2, 2, 3, 3, 4, 5]);
                            let op = if op == 5 && kind != 1 { 4 } else { op };
                            let n = if rng.chance(70) { rng.below(len + 2).min(rng.below(len + 2) + rng.below(2)) } else { *rng.pick(&js) };
                            (op, n)
                        }).collect();
                        let term = rng.below(5);
                        let term = if kind == 1 && term == 3 { 2 } else { term };
                        emit(out, prop, &mk(calls, term));
                    }
                }
            }
        }
    }
}

/// C04: iteration through a view reaches exactly the window's cells - rows_mut / col_mut /
/// cells_mut (and the shared forms) of every window, single calls, pairs of calls from
/// either end and random sequences, with a mark written through every yielded item
pub fn generate_views(out: &mut Out, prop: u32, tier: &str, rng: &mut Rng) {
    let parents: Vec<(u64, u64)> = if tier == "quick" { vec![(4, 3), (3, 4)] } else { vec![(5, 4), (4, 5), (2, 6), (6, 2)] };
    let (nrand, maxdepth) = if tier == "quick" { (4, 6) } else { (20, 10) };
    for (pc, pr) in parents {
        for s0 in 0..=pc { for e0 in s0..=pc { for s1 in 0..=pr { for e1 in s1..=pr {
            let (mut nc, mut nr) = (e0 - s0, e1 - s1);
            if nc == 0 || nr == 0 { nc = 0; nr = 0; }
            if tier == "quick" && nc * nr == 0 && (s0 + s1) % 2 == 1 { continue; }
            for kind in [0u64, 1, 2] { for (recv, mutable) in [(1u64, false), (2, false), (2, true)] {
                let len = match kind { 0 | 1 => nr, _ => nr * nc };
                let col = if kind == 1 { nc / 2 } else { 0 };
                let mk = |calls: Vec<(u64, u64)>, term: u64| ICase { recv, mutable, c: pc, r: pr, win: (s0, s1, e0, e1), kind, col, calls, term };
                let ns = [0u64, 1, 2, len.saturating_sub(1), len];
                let mut singles: Vec<(u64, u64)> = vec![(0, 0), (1, 0), (4, 0)];
                for &n in &ns { singles.push((2, n)); singles.push((3, n)); }
                singles.sort_unstable(); singles.dedup();
                if mutable || tier != "quick" {
                    for a in &singles { for b in &singles {
                        emit(out, prop, &mk(vec![*a, *b, (1, 0), (0, 0), (1, 0)], if kind == 1 { 2 } else { 2 + (a.1 + b.1) % 2 }));
                    } }
                } else {
                    for a in &singles { emit(out, prop, &mk(vec![*a, (1, 0), (0, 0)], 2)); }
                }
                for _ in 0..nrand {
                    let d = 2 + rng.below(maxdepth) as usize;
                    let calls: Vec<(u64, u64)> = (0..d).map(|_| (*rng.pick(&[0u64, 1, 1, 2, 3, 3, 4]), rng.below(len + 2))).collect();
                    emit(out, prop, &mk(calls, if kind == 1 { 2 } else { 2 + rng.below(2) }));
                }
            } }
        } } } }
    }
}
