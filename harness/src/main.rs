//! Correspondence harness: runs the real toodee crate (path dependency on /repo, rebuilt
//! from the current working tree) on generated cases and records input and observation of
//! every case as one line of integers.
//!
//!   harness gen <property> <quick|thorough> <seed> <out-file>
//!   harness replay <case-file> <out-file>
mod util;
mod hist;
mod iters;
mod geom;
mod ops;
mod serde_fam;
mod conv;
mod bigiter;

use util::*;

fn main() {
    if std::env::var("HARNESS_VERBOSE").is_err() { std::panic::set_hook(Box::new(|_| {})); }
    let args: Vec<String> = std::env::args().collect();
    start_watchdog();
    match args[1].as_str() {
        "gen" => {
            let prop: u32 = args[2].trim_start_matches('C').parse().unwrap();
            let tier = args[3].as_str();
            let seed: u64 = args[4].parse().unwrap();
            let mut out = Out::create(&args[5]);
            let mut rng = Rng::new(seed ^ ((prop as u64) << 32));
            out.comment(&format!("property C{:02} tier {} seed {} debug {}", prop, tier, seed, DBG));
            match prop {
                1 => { hist::gen_c01(&mut out, prop, tier, &mut rng); hist::gen_zst(&mut out, 1, tier, &mut rng); hist::gen_large(&mut out, 1, tier, &mut rng); hist::gen_fuses(&mut out, 1, tier); hist::gen_bombs(&mut out, 1, tier); hist::gen_big(&mut out, 1, tier, &mut rng) }
                5 => { hist::gen_c01(&mut out, prop, tier, &mut rng); hist::gen_zst(&mut out, 5, tier, &mut rng); hist::gen_large(&mut out, 5, tier, &mut rng); hist::gen_fuses(&mut out, 5, tier); hist::gen_bombs(&mut out, 5, tier); ops::gen_c11_clone(&mut out, 5, tier); conv::gen_c11_from_view(&mut out, 5, tier) }
                6 => { hist::gen_c06(&mut out, tier, &mut rng); hist::gen_zst(&mut out, 6, tier, &mut rng); hist::gen_large(&mut out, 6, tier, &mut rng); hist::gen_big(&mut out, 6, tier, &mut rng) }
                7 => { hist::gen_c07(&mut out, tier, &mut rng); hist::gen_zst(&mut out, 7, tier, &mut rng); hist::gen_large(&mut out, 7, tier, &mut rng); hist::gen_big(&mut out, 7, tier, &mut rng) }
                2 => geom::gen_c02(&mut out, tier, &mut rng),
                3 => { geom::gen_c03(&mut out, tier, &mut rng); bigiter::generate_views(&mut out, 3, tier, &mut rng) }
                4 => { ops::gen_c04(&mut out, tier, &mut rng); iters::generate_views(&mut out, 4, tier, &mut rng) }
                13 => ops::gen_c13(&mut out, tier, &mut rng),
                14 => ops::gen_c14(&mut out, tier, &mut rng),
                15 => ops::gen_c15(&mut out, tier, &mut rng),
                16 | 17 => ops::gen_sort(&mut out, prop, tier, &mut rng),
                18 => serde_fam::gen_c18(&mut out, tier, &mut rng),
                19 => serde_fam::gen_c19(&mut out, tier, &mut rng),
                20 => { conv::gen_c20(&mut out, tier, &mut rng); hist::gen_clone_from(&mut out, 20, tier) }
                8 | 9 | 10 => { iters::generate(&mut out, prop, tier, &mut rng); bigiter::generate(&mut out, prop, tier, &mut rng) }
                11 => { hist::gen_c11_iter(&mut out, tier, &mut rng); hist::gen_zst(&mut out, 11, tier, &mut rng); ops::gen_c11_sort(&mut out, tier, &mut rng); ops::gen_c11_clone(&mut out, 11, tier); conv::gen_c11_from_view(&mut out, 11, tier); hist::gen_bombs(&mut out, 11, tier) }
                12 => { hist::gen_c12_drain(&mut out, tier, &mut rng); hist::gen_zst(&mut out, 12, tier, &mut rng); hist::gen_large(&mut out, 12, tier, &mut rng); hist::gen_big(&mut out, 12, tier, &mut rng) }
                _ => panic!("no generator for property {prop}"),
            }
            println!("cases {}", out.cases);
            out.finish();
        }
        "replay" => {
            let text = std::fs::read_to_string(&args[2]).unwrap();
            let mut out = Out::create(&args[3]);
            for line in text.lines() {
                let line = line.strip_prefix("CASE ").unwrap_or(line);
                if line.starts_with('#') || !line.contains('|') { continue; }
                let parts: Vec<&str> = line.split('|').collect();
                let hd: Vec<u32> = parts[0].split_whitespace().map(|x| x.parse().unwrap()).collect();
                let inp: Vec<u64> = parts[1].split_whitespace().map(|x| x.parse().unwrap()).collect();
                match hd[1] {
                    1 | 2 => hist::replay(&mut out, hd[0], hd[1], &inp),
                    3 => iters::replay(&mut out, hd[0], &inp),
                    4 | 5 => geom::replay(&mut out, hd[0], hd[1], &inp),
                    9 => conv::replay(&mut out, hd[0], &inp),
                    10 => bigiter::replay(&mut out, hd[0], &inp),
                    6 => ops::replay(&mut out, hd[0], &inp),
                    7 => serde_fam::replay_doc(&mut out, &inp),
                    8 => serde_fam::replay_roundtrip(&mut out, &inp),
                    f => panic!("unknown family {f}"),
                }
            }
            out.finish();
        }
        _ => panic!("usage"),
    }
}
