//! Family 6: one trait operation on an owned array, a mutable view, or a third-party type
//! that implements only the required trait methods (C04, C13, C14, C15, C16, C17).
use crate::util::*;
use std::ops::{Index, IndexMut};
use std::panic::{catch_unwind, AssertUnwindSafe};
use toodee::*;

/// A third-party implementor: only the required methods, everything else from the defaults.
pub struct Third<'a>(pub TooDeeViewMut<'a, u32>);
impl<'a> Index<usize> for Third<'a> { type Output = [u32]; fn index(&self, i: usize) -> &[u32] { &self.0[i] } }
impl<'a> Index<Coordinate> for Third<'a> { type Output = u32; fn index(&self, c: Coordinate) -> &u32 { &self.0[c] } }
impl<'a> IndexMut<usize> for Third<'a> { fn index_mut(&mut self, i: usize) -> &mut [u32] { &mut self.0[i] } }
impl<'a> IndexMut<Coordinate> for Third<'a> { fn index_mut(&mut self, c: Coordinate) -> &mut u32 { &mut self.0[c] } }
impl<'a> TooDeeOps<u32> for Third<'a> {
    fn num_cols(&self) -> usize { self.0.num_cols() }
    fn num_rows(&self) -> usize { self.0.num_rows() }
    fn view(&self, s: Coordinate, e: Coordinate) -> TooDeeView<'_, u32> { self.0.view(s, e) }
    fn rows(&self) -> Rows<'_, u32> { self.0.rows() }
    fn col(&self, c: usize) -> Col<'_, u32> { self.0.col(c) }
    unsafe fn get_unchecked_row(&self, r: usize) -> &[u32] { self.0.get_unchecked_row(r) }
    unsafe fn get_unchecked(&self, c: Coordinate) -> &u32 { self.0.get_unchecked(c) }
}
impl<'a> TooDeeOpsMut<u32> for Third<'a> {
    fn view_mut(&mut self, s: Coordinate, e: Coordinate) -> TooDeeViewMut<'_, u32> { self.0.view_mut(s, e) }
    fn rows_mut(&mut self) -> RowsMut<'_, u32> { self.0.rows_mut() }
    fn col_mut(&mut self, c: usize) -> ColMut<'_, u32> { self.0.col_mut(c) }
    unsafe fn get_unchecked_row_mut(&mut self, r: usize) -> &mut [u32] { self.0.get_unchecked_row_mut(r) }
    unsafe fn get_unchecked_mut(&mut self, c: Coordinate) -> &mut u32 { self.0.get_unchecked_mut(c) }
}
impl<'a> CopyOps<u32> for Third<'a> {}

type Win = (u64, u64, u64, u64);

#[derive(Clone, Debug)]
pub enum TOp {
    Fill(u32),
    SwapRows(u64, u64),
    Swap(u64, u64, u64, u64),
    SwapCols(u64, u64),
    RowPair(u64, u64),
    CopyFromSlice(bool, Vec<u32>),
    /// clone?, source is a strided view?, cols, rows, cells (row-major)
    CopyFromTooDee(bool, bool, u64, u64, Vec<u32>),
    CopyWithin(u64, u64, u64, u64, u64, u64),
    Translate(u64, u64),
    FlipRows,
    FlipCols,
    Sort(u64, u64),
    /// variant, line, k: the comparator / key function panics at its k-th call (C11)
    SortFuse(u64, u64, u64),
    SetCell(u64, u64, u32),
    SetRowCell(u64, u64, u32),
    /// clone_from_toodee (else clone_from_slice)?, strided source?, cols, rows, cells, k: the
    /// k-th Clone call panics (C11); runs on drop-tracked elements (kind + 30)
    CloneFuse(bool, bool, u64, u64, Vec<u32>, u64),
}

#[derive(Clone, Debug)]
pub struct OCase { pub kind: u64, pub c: u64, pub r: u64, pub win: Win, pub data: Vec<u32>, pub op: TOp }

fn key(x: &u32) -> u32 { (x.wrapping_sub(100_000)) / 1024 }

thread_local! {
    /// countdown for the panicking comparator / key function; FIRED records that it went off
    static CMP_FUSE: std::cell::Cell<Option<u64>> = std::cell::Cell::new(None);
    static FIRED: std::cell::Cell<bool> = std::cell::Cell::new(false);
}
fn fuse_tick() {
    CMP_FUSE.with(|f| match f.get() {
        Some(0) => { f.set(None); FIRED.with(|x| x.set(true)); panic!("injected comparator panic") }
        Some(k) => f.set(Some(k - 1)),
        None => {}
    })
}

fn apply<V: TooDeeOpsMut<u32> + CopyOps<u32>>(v: &mut V, op: &TOp, base: *const u32, extra: &mut Vec<u64>) {
    let u = |x: &u64| *x as usize;
    match op {
        TOp::Fill(x) => v.fill(*x),
        TOp::SwapRows(a, b) => v.swap_rows(u(a), u(b)),
        TOp::Swap(a, b, c, d) => v.swap((u(a), u(b)), (u(c), u(d))),
        TOp::SwapCols(a, b) => v.swap_cols(u(a), u(b)),
        TOp::RowPair(a, b) => {
            let (x, y) = v.row_pair_mut(u(a), u(b));
            let off = |s: &[u32]| ((s.as_ptr() as usize - base as usize) / 4) as u64;
            extra.extend([off(x), x.len() as u64, off(y), y.len() as u64]);
        }
        TOp::CopyFromSlice(false, s) => v.copy_from_slice(s),
        TOp::CopyFromSlice(true, s) => v.clone_from_slice(s),
        TOp::CopyFromTooDee(clone, strided, sc, sr, cells) => {
            let (sc, sr) = (u(sc), u(sr));
            if *strided {
                // the source is an interior window of a larger array
                let (pc, pr) = (sc + 2, sr + 3);
                let mut p = TooDee::init(pc, pr, 77u32);
                for y in 0..sr { for x in 0..sc { p[(x + 1, y + 2)] = cells[y * sc + x]; } }
                let sv = p.view((1, 2), (1 + sc, 2 + sr));
                if *clone { v.clone_from_toodee(&sv) } else { v.copy_from_toodee(&sv) }
            } else {
                let s = TooDee::from_vec(sc, sr, cells.clone());
                if *clone { v.clone_from_toodee(&s) } else { v.copy_from_toodee(&s) }
            }
        }
        TOp::CopyWithin(a, b, c, d, e, f) => v.copy_within(((u(a), u(b)), (u(c), u(d))), (u(e), u(f))),
        TOp::Translate(a, b) => v.translate_with_wrap((u(a), u(b))),
        TOp::FlipRows => v.flip_rows(),
        TOp::FlipCols => v.flip_cols(),
        TOp::Sort(var, line) => {
            let l = u(line);
            match var {
                0 => v.sort_by_row(l, |a, b| key(a).cmp(&key(b))),
                1 => v.sort_unstable_by_row(l, |a, b| key(a).cmp(&key(b))),
                2 => v.sort_by_row_key(l, |a| key(a)),
                3 => v.sort_unstable_by_row_key(l, |a| key(a)),
                // the same with a one-byte key type (variant + 20)
                22 => v.sort_by_row_key(l, |a| key(a) as u8),
                23 => v.sort_unstable_by_row_key(l, |a| key(a) as u8),
                28 => v.sort_by_col_key(l, |a| key(a) as u8),
                29 => v.sort_unstable_by_col_key(l, |a| key(a) as u8),
                4 => v.sort_row_ord::<()>(l),
                5 => v.sort_unstable_row_ord::<()>(l),
                6 => v.sort_by_col::<_>(l, |a, b| key(a).cmp(&key(b))),
                7 => v.sort_unstable_by_col(l, |a, b| key(a).cmp(&key(b))),
                8 => v.sort_by_col_key(l, |a| key(a)),
                9 => v.sort_unstable_by_col_key(l, |a| key(a)),
                _ => v.sort_col_ord::<()>(l),
            }
        }
        TOp::SortFuse(var, line, k) => {
            let l = u(line);
            CMP_FUSE.with(|f| f.set(Some(*k)));
            FIRED.with(|x| x.set(false));
            match var {
                0 => v.sort_by_row(l, |a, b| { fuse_tick(); key(a).cmp(&key(b)) }),
                1 => v.sort_unstable_by_row(l, |a, b| { fuse_tick(); key(a).cmp(&key(b)) }),
                2 => v.sort_by_row_key(l, |a| { fuse_tick(); key(a) }),
                3 => v.sort_unstable_by_row_key(l, |a| { fuse_tick(); key(a) }),
                6 => v.sort_by_col::<_>(l, |a, b| { fuse_tick(); key(a).cmp(&key(b)) }),
                7 => v.sort_unstable_by_col(l, |a, b| { fuse_tick(); key(a).cmp(&key(b)) }),
                8 => v.sort_by_col_key(l, |a| { fuse_tick(); key(a) }),
                _ => v.sort_unstable_by_col_key(l, |a| { fuse_tick(); key(a) }),
            }
        }
        TOp::SetCell(c, r, x) => v[(u(c), u(r))] = *x,
        TOp::SetRowCell(c, r, x) => v[u(r)][u(c)] = *x,
        TOp::CloneFuse(..) => {}    // runs on drop-tracked elements only (emit_clone_fuse)
    }
}

fn encode_op(op: &TOp, sigma: &[u64], o: &mut Vec<u64>) {
    let list = |o: &mut Vec<u64>, l: &[u32]| { o.push(l.len() as u64); o.extend(l.iter().map(|x| *x as u64)); };
    match op {
        TOp::Fill(x) => o.extend([1, *x as u64]),
        TOp::SwapRows(a, b) => o.extend([2, *a, *b]),
        TOp::Swap(a, b, c, d) => o.extend([3, *a, *b, *c, *d]),
        TOp::SwapCols(a, b) => o.extend([4, *a, *b]),
        TOp::RowPair(a, b) => o.extend([5, *a, *b]),
        TOp::CopyFromSlice(cl, s) => { o.push(if *cl { 7 } else { 6 }); list(o, s) }
        TOp::CopyFromTooDee(cl, _, sc, sr, cells) => { o.extend([if *cl { 9 } else { 8 }, *sc, *sr]); list(o, cells) }
        TOp::CopyWithin(a, b, c, d, e, f) => o.extend([10, *a, *b, *c, *d, *e, *f]),
        TOp::Translate(a, b) => o.extend([11, *a, *b]),
        TOp::FlipRows => o.push(12),
        TOp::FlipCols => o.push(13),
        TOp::Sort(v, l) => { o.extend([14, *v, *l, sigma.len() as u64]); o.extend(sigma); }
        TOp::SortFuse(v, l, k) => { o.extend([17, *v, *l, *k, FIRED.with(|x| x.get()) as u64, sigma.len() as u64]); o.extend(sigma); }
        TOp::SetCell(c, r, x) => o.extend([15, *c, *r, *x as u64]),
        TOp::SetRowCell(c, r, x) => o.extend([16, *c, *r, *x as u64]),
        TOp::CloneFuse(td, st, sc, sr, cells, k) => { o.extend([18, *td as u64, *st as u64, *sc, *sr]); list(o, cells); o.push(*k); }
    }
}

/// clone_from_slice / clone_from_toodee over drop-tracked elements whose k-th Clone panics
/// (kind + 30): outcome, cells, elements dropped twice, elements leaked
pub fn emit_clone_fuse(out: &mut Out, prop: u32, case: &OCase) {
    let (c, r) = (case.c as usize, case.r as usize);
    let (s, e) = ((case.win.0 as usize, case.win.1 as usize), (case.win.2 as usize, case.win.3 as usize));
    let TOp::CloneFuse(td, strided, sc, sr, cells, k) = &case.op else { return };
    ledger_reset();
    let mut t: TooDee<Tracked> = TooDee::from_vec(c, r, case.data.iter().map(|x| Tracked::new(*x)).collect());
    let (scu, sru) = (*sc as usize, *sr as usize);
    // the sources are built before the fuse is armed
    let src_vec: Vec<Tracked> = cells.iter().map(|x| Tracked::new(*x)).collect();
    let src_arr: Option<TooDee<Tracked>> = if *td {
        if *strided {
            let mut p: TooDee<Tracked> = TooDee::from_vec(scu + 2, sru + 3, (0..(scu + 2) * (sru + 3)).map(|_| Tracked::new(77)).collect());
            for y in 0..sru { for x in 0..scu { p[(x + 1, y + 2)] = Tracked::new(cells[y * scu + x]); } }
            Some(p)
        } else if scu * sru == cells.len() && ((scu == 0) == (sru == 0)) {
            Some(TooDee::from_vec(scu, sru, cells.iter().map(|x| Tracked::new(*x)).collect()))
        } else { None }
    } else { None };
    fn apply_t<V: TooDeeOpsMut<Tracked> + CopyOps<Tracked>>(v: &mut V, td: bool, strided: bool, sc: usize, sr: usize, src_vec: &[Tracked], src_arr: &Option<TooDee<Tracked>>) {
        if !td { v.clone_from_slice(src_vec) }
        else {
            let a = src_arr.as_ref().expect("generator builds a well-formed source");
            if strided { let sv = a.view((1, 2), (1 + sc, 2 + sr)); v.clone_from_toodee(&sv) } else { v.clone_from_toodee(a) }
        }
    }
    LEDGER.with(|l| l.borrow_mut().clone_panic_in = Some(*k));
    let ok = catch_unwind(AssertUnwindSafe(|| match case.kind {
        0 => apply_t(&mut t, *td, *strided, scu, sru, &src_vec, &src_arr),
        2 => { let mut v = t.view_mut(s, e); apply_t(&mut v, *td, *strided, scu, sru, &src_vec, &src_arr) }
        _ => { let mut v = TooDeeViewMut::new(c, r, t.data_mut()); apply_t(&mut v, *td, *strided, scu, sru, &src_vec, &src_arr) }
    })).is_ok();
    LEDGER.with(|l| l.borrow_mut().clone_panic_in = None);
    drop(src_vec); drop(src_arr);
    let mut inp = vec![DBG as u64, case.kind + 30, case.c, case.r, case.win.0, case.win.1, case.win.2, case.win.3, case.data.len() as u64];
    inp.extend(case.data.iter().map(|x| *x as u64));
    encode_op(&case.op, &[], &mut inp);
    if out.want_sample() { out.sample(&format!("C{:02} drop-tracked elements {:?}", prop, case)); }
    out.begin(prop, 6, &inp);
    let mut obs = vec![ok as u64, t.data().len() as u64];
    obs.extend(t.data().iter().map(|x| x.val as u64));
    obs.push(ledger_double());
    obs.push(ledger_live().saturating_sub(t.data().len() as u64));
    out.end(&obs);
    drop(t);
}

/// the same operation on an array of zero-sized elements of the same shape (kind + 10):
/// cells cannot be observed, only whether the call returns or panics and the buffer's length
pub fn emit_zst(out: &mut Out, prop: u32, case: &OCase) {
    let (c, r) = (case.c as usize, case.r as usize);
    // all cells are the one value the type has: zeros in the model, the identity as the
    // permutation an unstable sort "produced"
    let mut inp = vec![DBG as u64, case.kind + 10, case.c, case.r, case.win.0, case.win.1, case.win.2, case.win.3, case.data.len() as u64];
    inp.extend(case.data.iter().map(|_| 0u64));
    let sigma: Vec<u64> = if let TOp::Sort(var, line) = &case.op {
        let (nc, nr) = if case.kind == 2 { let (a, b) = (case.win.2.saturating_sub(case.win.0), case.win.3.saturating_sub(case.win.1)); if a == 0 || b == 0 { (0, 0) } else { (a, b) } } else { (case.c, case.r) };
        let (lines, n) = if var % 20 >= 6 { (nc, nr) } else { (nr, nc) };
        if *line < lines { (0..n).collect() } else { vec![] }
    } else { vec![] };
    encode_op(&case.op, &sigma, &mut inp);
    if out.want_sample() { out.sample(&format!("C{:02} zero-sized elements {:?}", prop, case)); }
    out.begin(prop, 6, &inp);
    let mut t: TooDee<()> = TooDee::from_vec(c, r, vec![(); c * r]);
    let (s, e) = ((case.win.0 as usize, case.win.1 as usize), (case.win.2 as usize, case.win.3 as usize));
    fn apply_z<V: TooDeeOpsMut<()> + CopyOps<()>>(v: &mut V, op: &TOp) {
        let u = |x: &u64| *x as usize;
        match op {
            TOp::Fill(_) => v.fill(()),
            TOp::SwapRows(a, b) => v.swap_rows(u(a), u(b)),
            TOp::Swap(a, b, c, d) => v.swap((u(a), u(b)), (u(c), u(d))),
            TOp::SwapCols(a, b) => v.swap_cols(u(a), u(b)),
            TOp::RowPair(a, b) => { let _ = v.row_pair_mut(u(a), u(b)); }
            TOp::CopyFromSlice(false, s) => v.copy_from_slice(&vec![(); s.len()]),
            TOp::CopyFromSlice(true, s) => v.clone_from_slice(&vec![(); s.len()]),
            TOp::CopyFromTooDee(clone, _, sc, sr, _) => {
                let src = TooDee::from_vec(u(sc), u(sr), vec![(); u(sc) * u(sr)]);
                if *clone { v.clone_from_toodee(&src) } else { v.copy_from_toodee(&src) }
            }
            TOp::CopyWithin(a, b, c, d, e, f) => v.copy_within(((u(a), u(b)), (u(c), u(d))), (u(e), u(f))),
            TOp::Translate(a, b) => v.translate_with_wrap((u(a), u(b))),
            TOp::FlipRows => v.flip_rows(),
            TOp::FlipCols => v.flip_cols(),
            TOp::Sort(var, line) => {
                let l = u(line);
                match var % 20 {
                    0 => v.sort_by_row(l, |a, b| a.cmp(b)),
                    1 => v.sort_unstable_by_row(l, |a, b| a.cmp(b)),
                    2 => v.sort_by_row_key(l, |_| 0u8),
                    3 => v.sort_unstable_by_row_key(l, |_| 0u8),
                    4 => v.sort_row_ord::<()>(l),
                    5 => v.sort_unstable_row_ord::<()>(l),
                    6 => v.sort_by_col::<_>(l, |a, b| a.cmp(b)),
                    7 => v.sort_unstable_by_col(l, |a, b| a.cmp(b)),
                    8 => v.sort_by_col_key(l, |_| 0u8),
                    9 => v.sort_unstable_by_col_key(l, |_| 0u8),
                    _ => v.sort_col_ord::<()>(l),
                }
            }
            TOp::SortFuse(..) => {}
            TOp::SetCell(c, r, _) => v[(u(c), u(r))] = (),
            TOp::SetRowCell(c, r, _) => v[u(r)][u(c)] = (),
            TOp::CloneFuse(..) => {}
        }
    }
    let ok = catch_unwind(AssertUnwindSafe(|| match case.kind {
        0 => apply_z(&mut t, &case.op),
        2 => { let mut v = t.view_mut(s, e); apply_z(&mut v, &case.op) }
        _ => { let mut v = TooDeeViewMut::new(c, r, t.data_mut()); apply_z(&mut v, &case.op) }
    })).is_ok();
    out.end(&[ok as u64, t.data().len() as u64]);
}

/// the same operation on 328-byte elements carrying the same values (kind + 20): the
/// observation must be the one the u32 run gives (minus row_pair_mut's addresses)
pub fn emit_big(out: &mut Out, prop: u32, case: &OCase) {
    let (c, r) = (case.c as usize, case.r as usize);
    let mut t: TooDee<Big> = TooDee::from_vec(c, r, case.data.iter().map(|x| Big::mk(*x)).collect());
    let (s, e) = ((case.win.0 as usize, case.win.1 as usize), (case.win.2 as usize, case.win.3 as usize));
    fn apply_b<V: TooDeeOpsMut<Big> + CopyOps<Big>>(v: &mut V, op: &TOp) {
        let u = |x: &u64| *x as usize;
        let bigs = |l: &[u32]| -> Vec<Big> { l.iter().map(|x| Big::mk(*x)).collect() };
        let kb = |a: &Big| key(&a.v);
        match op {
            TOp::Fill(x) => v.fill(Big::mk(*x)),
            TOp::SwapRows(a, b) => v.swap_rows(u(a), u(b)),
            TOp::Swap(a, b, c, d) => v.swap((u(a), u(b)), (u(c), u(d))),
            TOp::SwapCols(a, b) => v.swap_cols(u(a), u(b)),
            TOp::RowPair(a, b) => { let _ = v.row_pair_mut(u(a), u(b)); }
            TOp::CopyFromSlice(_, s) => v.clone_from_slice(&bigs(s)),
            TOp::CopyFromTooDee(_, strided, sc, sr, cells) => {
                let (sc, sr) = (u(sc), u(sr));
                if *strided {
                    let (pc, pr) = (sc + 2, sr + 3);
                    let mut p = TooDee::init(pc, pr, Big::mk(77));
                    for y in 0..sr { for x in 0..sc { p[(x + 1, y + 2)] = Big::mk(cells[y * sc + x]); } }
                    let sv = p.view((1, 2), (1 + sc, 2 + sr));
                    v.clone_from_toodee(&sv)
                } else {
                    let src = TooDee::from_vec(sc, sr, bigs(cells));
                    v.clone_from_toodee(&src)
                }
            }
            TOp::CopyWithin(..) => {}    // needs Copy: not available for this element type
            TOp::Translate(a, b) => v.translate_with_wrap((u(a), u(b))),
            TOp::FlipRows => v.flip_rows(),
            TOp::FlipCols => v.flip_cols(),
            TOp::Sort(var, line) => {
                let l = u(line);
                match var % 20 {
                    0 => v.sort_by_row(l, |a, b| kb(a).cmp(&kb(b))),
                    1 => v.sort_unstable_by_row(l, |a, b| kb(a).cmp(&kb(b))),
                    2 => v.sort_by_row_key(l, |a| kb(a)),
                    3 => v.sort_unstable_by_row_key(l, |a| kb(a)),
                    4 => v.sort_row_ord::<()>(l),
                    5 => v.sort_unstable_row_ord::<()>(l),
                    6 => v.sort_by_col::<_>(l, |a, b| kb(a).cmp(&kb(b))),
                    7 => v.sort_unstable_by_col(l, |a, b| kb(a).cmp(&kb(b))),
                    8 => v.sort_by_col_key(l, |a| kb(a)),
                    9 => v.sort_unstable_by_col_key(l, |a| kb(a)),
                    _ => v.sort_col_ord::<()>(l),
                }
            }
            TOp::SortFuse(..) => {}
            TOp::SetCell(c, r, x) => v[(u(c), u(r))] = Big::mk(*x),
            TOp::SetRowCell(c, r, x) => v[u(r)][u(c)] = Big::mk(*x),
            TOp::CloneFuse(..) => {}    // runs on drop-tracked elements only (emit_clone_fuse)
        }
    }
    let key_line = |t: &TooDee<Big>| -> Vec<u32> {
        if let TOp::Sort(var, line) = &case.op {
            let (x0, y0, nc, nr) = if case.kind == 0 || case.kind == 6 { (0, 0, c, r) } else {
                let (a, b) = (e.0 - s.0, e.1 - s.1); if a == 0 || b == 0 { (0, 0, 0, 0) } else { (s.0, s.1, a, b) } };
            let l = *line as usize;
            if *var % 20 >= 6 { if l < nc { (0..nr).map(|y| t[(x0 + l, y0 + y)].v).collect() } else { vec![] } }
            else if l < nr { (0..nc).map(|x| t[(x0 + x, y0 + l)].v).collect() } else { vec![] }
        } else { vec![] }
    };
    let before = key_line(&t);
    let ok = catch_unwind(AssertUnwindSafe(|| match case.kind {
        0 => apply_b(&mut t, &case.op),
        2 => { let mut v = t.view_mut(s, e); apply_b(&mut v, &case.op) }
        _ => { let mut v = TooDeeViewMut::new(c, r, t.data_mut()); apply_b(&mut v, &case.op) }
    })).is_ok();
    let after = key_line(&t);
    let sigma: Vec<u64> = if ok { after.iter().map(|x| before.iter().position(|y| y == x).unwrap_or(9999) as u64).collect() } else { vec![] };
    let mut inp = vec![DBG as u64, case.kind + 20, case.c, case.r, case.win.0, case.win.1, case.win.2, case.win.3, case.data.len() as u64];
    inp.extend(case.data.iter().map(|x| *x as u64));
    encode_op(&case.op, &sigma, &mut inp);
    if out.want_sample() { out.sample(&format!("C{:02} 328-byte elements {:?}", prop, case)); }
    out.begin(prop, 6, &inp);
    let mut obs = vec![ok as u64, t.data().len() as u64];
    obs.extend(t.data().iter().map(|x| x.val() as u64));
    out.end(&obs);
}

pub fn emit(out: &mut Out, prop: u32, case: &OCase) {
    if case.kind >= 30 { let mut k = case.clone(); k.kind -= 30; return emit_clone_fuse(out, prop, &k); }
    if matches!(case.op, TOp::CloneFuse(..)) { return emit_clone_fuse(out, prop, case); }
    if case.kind >= 20 { let mut k = case.clone(); k.kind -= 20; return emit_big(out, prop, &k); }
    if case.kind >= 10 { let mut k = case.clone(); k.kind -= 10; return emit_zst(out, prop, &k); }
    let (c, r) = (case.c as usize, case.r as usize);
    // a slice-constructed view over a buffer with spare cells: the buffer is kept as a 1-wide array
    let spare = case.kind == 6 && case.data.len() != c * r;
    let mut t = if spare { TooDee::from_vec(1, case.data.len(), case.data.clone()) } else { TooDee::from_vec(c, r, case.data.clone()) };
    let base = t.data().as_ptr();
    let (s, e) = ((case.win.0 as usize, case.win.1 as usize), (case.win.2 as usize, case.win.3 as usize));
    let mut extra = vec![];
    let header = |sigma: &[u64]| {
        let mut inp = vec![DBG as u64, case.kind, case.c, case.r, case.win.0, case.win.1, case.win.2, case.win.3, case.data.len() as u64];
        inp.extend(case.data.iter().map(|x| *x as u64));
        encode_op(&case.op, sigma, &mut inp);
        inp
    };
    let is_sort = matches!(case.op, TOp::Sort(..) | TOp::SortFuse(..));
    if out.want_sample() { out.sample(&format!("C{:02} {:?}", prop, case)); }
    if !is_sort { out.begin(prop, 6, &header(&[])); }
    // the key line before the call (to read the permutation back for the unstable sorts)
    let key_line = |t: &TooDee<u32>| -> Vec<u32> {
        if let TOp::Sort(var, line) | TOp::SortFuse(var, line, _) = &case.op {
            let (x0, y0, nc, nr) = if case.kind == 0 || case.kind == 6 { (0, 0, c, r) } else {
                let o = if case.kind == 4 { 1 } else { 0 };
                let (a, b) = (e.0 - s.0, e.1 - s.1); if a == 0 || b == 0 { (0, 0, 0, 0) } else { (s.0 + o, s.1 + o, a, b) } };
            let l = *line as usize;
            // (the buffer is c cells wide in every case, also when it is kept 1-wide)
            if *var % 20 >= 6 { if l < nc { (0..nr).map(|y| t.data()[(y0 + y) * c + x0 + l]).collect() } else { vec![] } }
            else if l < nr { (0..nc).map(|x| t.data()[(y0 + l) * c + x0 + x]).collect() } else { vec![] }
        } else { vec![] }
    };
    let before = key_line(&t);
    let ok = catch_unwind(AssertUnwindSafe(|| match case.kind {
        0 => apply(&mut t, &case.op, base, &mut extra),
        2 => { let mut v = t.view_mut(s, e); apply(&mut v, &case.op, base, &mut extra) }
        // nested mutable windows: the window is taken from an outer mutable view that is
        // narrower than the parent (kind 4: off the top-left edges, kind 5: off the bottom-right)
        4 => { let mut o = t.view_mut((1, 1), (c, r)); let mut v = o.view_mut(s, e); apply(&mut v, &case.op, base, &mut extra) }
        5 => { let mut o = t.view_mut((0, 0), (c - 1, r - 1)); let mut v = o.view_mut(s, e); apply(&mut v, &case.op, base, &mut extra) }
        // a mutable view built directly over a slice (stride = num_cols; 0 for the empty one)
        6 => { let mut v = TooDeeViewMut::new(c, r, t.data_mut()); apply(&mut v, &case.op, base, &mut extra) }
        _ => { let mut v = Third(t.view_mut(s, e)); apply(&mut v, &case.op, base, &mut extra) }
    })).is_ok();
    CMP_FUSE.with(|f| f.set(None));
    let mut obs = vec![ok as u64];
    if ok { obs.extend(extra); }
    obs.push(t.data().len() as u64);
    obs.extend(t.data().iter().map(|x| *x as u64));
    if is_sort {
        let after = key_line(&t);
        let sigma: Vec<u64> = if ok { after.iter().map(|x| before.iter().position(|y| y == x).unwrap_or(9999) as u64).collect() } else { vec![] };
        out.begin(prop, 6, &header(&sigma));
    }
    out.end(&obs);
    // the same call on zero-sized elements (owned, window, slice-constructed view)
    if matches!(case.kind, 0 | 2 | 6) && !spare && !matches!(case.op, TOp::SortFuse(..)) && case.data.len() <= 64 { emit_zst(out, prop, case); }
    // ... and on 328-byte elements (not copy_within: that needs Copy; not the slice / array
    // copies in their `copy_` form either: they run as `clone_`)
    if matches!(case.kind, 0 | 2 | 6) && !spare && !matches!(case.op, TOp::SortFuse(..) | TOp::CopyWithin(..)) && case.data.len() <= 64 && (case.data.len() + case.c as usize) % 2 == 0 { emit_big(out, prop, case); }
}

pub fn replay(out: &mut Out, prop: u32, inp: &[u64]) {
    let n = inp[8] as usize;
    let data: Vec<u32> = inp[9..9 + n].iter().map(|x| *x as u32).collect();
    let a = &inp[9 + n..];
    let lst = |a: &[u64], at: usize| -> Vec<u32> { let n = a[at] as usize; a[at + 1..at + 1 + n].iter().map(|x| *x as u32).collect() };
    let op = match a[0] {
        1 => TOp::Fill(a[1] as u32), 2 => TOp::SwapRows(a[1], a[2]), 3 => TOp::Swap(a[1], a[2], a[3], a[4]),
        4 => TOp::SwapCols(a[1], a[2]), 5 => TOp::RowPair(a[1], a[2]),
        6 => TOp::CopyFromSlice(false, lst(a, 1)), 7 => TOp::CopyFromSlice(true, lst(a, 1)),
        8 => TOp::CopyFromTooDee(false, false, a[1], a[2], lst(a, 3)), 9 => TOp::CopyFromTooDee(true, true, a[1], a[2], lst(a, 3)),
        10 => TOp::CopyWithin(a[1], a[2], a[3], a[4], a[5], a[6]), 11 => TOp::Translate(a[1], a[2]),
        12 => TOp::FlipRows, 13 => TOp::FlipCols, 14 => TOp::Sort(a[1], a[2]),
        15 => TOp::SetCell(a[1], a[2], a[3] as u32), 17 => TOp::SortFuse(a[1], a[2], a[3]),
        18 => { let l = lst(a, 5); let k = a[6 + l.len()]; TOp::CloneFuse(a[1] != 0, a[2] != 0, a[3], a[4], l, k) }
        _ => TOp::SetRowCell(a[1], a[2], a[3] as u32),
    };
    emit(out, prop, &OCase { kind: inp[1], c: inp[2], r: inp[3], win: (inp[4], inp[5], inp[6], inp[7]), data, op });
}

// ---------------------------------------------------------------------------------------

#[derive(Clone)]
pub struct Recv { pub kind: u64, pub c: u64, pub r: u64, pub win: Win, pub nc: u64, pub nr: u64 }

fn plain(c: u64, r: u64) -> Vec<u32> { (0..(c * r) as u32).collect() }

/// owned shapes up to smax, and every window (incl. empty, edge-touching, single row/col)
/// of the given parents as mutable view and as third-party implementor
pub fn receivers(smax: u64, parents: &[(u64, u64)], kinds: &[u64]) -> Vec<Recv> {
    let mut v = vec![];
    if kinds.contains(&0) {
        // the owned array, and TooDeeViewMut::new over a slice of the same shape (kind 6)
        for kind in [0, 6] {
            v.push(Recv { kind, c: 0, r: 0, win: (0, 0, 0, 0), nc: 0, nr: 0 });
            for c in 1..=smax { for r in 1..=smax { v.push(Recv { kind, c, r, win: (0, 0, 0, 0), nc: c, nr: r }); } }
        }
        // ... and over slices with spare cells behind the array (fewer than a row, exactly a row, more)
        for (c, r) in [(2u64, 2u64), (3, 2), (1, 3), (smax, 1)] { for spare in [1, c, c + 1] {
            v.push(Recv { kind: 6, c, r, win: (spare, 0, 0, 0), nc: c, nr: r });
        } }
        v.push(Recv { kind: 6, c: 0, r: 0, win: (3, 0, 0, 0), nc: 0, nr: 0 });
    }
    // the only window of the empty array: a view whose stride is 0
    for &k in kinds { if k == 2 || k == 3 { v.push(Recv { kind: k, c: 0, r: 0, win: (0, 0, 0, 0), nc: 0, nr: 0 }); } }
    for &(pc, pr) in parents {
        for s0 in 0..=pc { for e0 in s0..=pc { for s1 in 0..=pr { for e1 in s1..=pr {
            let (mut nc, mut nr) = (e0 - s0, e1 - s1);
            if nc == 0 || nr == 0 { nc = 0; nr = 0; }
            for &k in kinds {
                if k == 0 { continue; }
                if (k == 4 || k == 5) && (e0 > pc - 1 || e1 > pr - 1) { continue; }
                v.push(Recv { kind: k, c: pc, r: pr, win: (s0, s1, e0, e1), nc, nr });
            }
        } } } }
    }
    v
}

fn case(rc: &Recv, op: TOp) -> OCase {
    // kind 6 (TooDeeViewMut::new over a slice): win.0 spare cells behind the cells the view needs
    let data: Vec<u32> = if rc.kind == 6 { (0..(rc.c * rc.r + rc.win.0) as u32).collect() } else { plain(rc.c, rc.r) };
    OCase { kind: rc.kind, c: rc.c, r: rc.r, win: rc.win, data, op }
}
fn idxs(dim: u64) -> Vec<u64> { (0..=dim + 1).chain([u64::MAX]).collect() }

/// C13: swap family, row_pair_mut, fill on the three implementors
pub fn gen_c13(out: &mut Out, tier: &str, _rng: &mut Rng) {
    let (smax, parents): (u64, Vec<(u64, u64)>) = if tier == "quick" { (3, vec![(4, 4)]) } else { (4, vec![(5, 5), (3, 6)]) };
    for rc in receivers(smax, &parents, &[0, 2, 3]) {
        emit(out, 13, &case(&rc, TOp::Fill(4242)));
        for a in idxs(rc.nr) { for b in idxs(rc.nr) {
            emit(out, 13, &case(&rc, TOp::SwapRows(a, b)));
            emit(out, 13, &case(&rc, TOp::RowPair(a, b)));
        } }
        for a in idxs(rc.nc) { for b in idxs(rc.nc) { emit(out, 13, &case(&rc, TOp::SwapCols(a, b))); } }
        // swap: every pair of cells on small receivers, a sweep of out-of-range coordinates
        let cs: Vec<u64> = if rc.nc * rc.nr <= 6 || tier != "quick" { idxs(rc.nc) } else { vec![0, rc.nc - 1, rc.nc, u64::MAX] };
        let rs: Vec<u64> = if rc.nc * rc.nr <= 6 || tier != "quick" { idxs(rc.nr) } else { vec![0, rc.nr - 1, rc.nr, u64::MAX] };
        for &c1 in &cs { for &r1 in &rs { for &c2 in &cs { for &r2 in &rs {
            emit(out, 13, &case(&rc, TOp::Swap(c1, r1, c2, r2)));
        } } } }
        // rows whose product with the stride wraps
        if rc.c > 1 {
            let q = ((1u128 << 64) / rc.c as u128) as u64;
            for big in [q, q.wrapping_add(1), 1 << 63, 1 << 62, 1 << 61, 0xAAAA_AAAA_AAAA_AAAB] {
                emit(out, 13, &case(&rc, TOp::Swap(0, big, rc.nc.saturating_sub(1), rc.nr.saturating_sub(1))));
                emit(out, 13, &case(&rc, TOp::Swap(0, 0, 0, big)));
                emit(out, 13, &case(&rc, TOp::SwapRows(big, 0)));
                emit(out, 13, &case(&rc, TOp::SwapRows(big, big)));
                emit(out, 13, &case(&rc, TOp::RowPair(0, big)));
                emit(out, 13, &case(&rc, TOp::SwapCols(big, 0)));
            }
        }
    }
}

/// C14: copy operations
pub fn gen_c14(out: &mut Out, tier: &str, _rng: &mut Rng) {
    let (smax, parents): (u64, Vec<(u64, u64)>) = if tier == "quick" { (3, vec![(4, 3)]) } else { (4, vec![(5, 4), (3, 5)]) };
    let src = |n: u64| -> Vec<u32> { (0..n as u32).map(|i| 5000 + i).collect() };
    for rc in receivers(smax, &parents, &[0, 2, 3]) {
        let n = rc.nc * rc.nr;
        for l in [n, n + 1, n.saturating_sub(1), 0, n + rc.nc] {
            for cl in [false, true] { emit(out, 14, &case(&rc, TOp::CopyFromSlice(cl, src(l)))); }
        }
        // every source shape up to 3x3 (+ the matching one), owned and strided
        let mut shapes: Vec<(u64, u64)> = vec![(0, 0), (rc.nc, rc.nr), (rc.nr, rc.nc)];
        for a in 1..=3 { for b in 1..=3 { shapes.push((a, b)); } }
        shapes.sort_unstable(); shapes.dedup();
        for (sc, sr) in shapes {
            if (sc == 0) != (sr == 0) { continue; }
            for cl in [false, true] { for strided in [false, true] {
                emit(out, 14, &case(&rc, TOp::CopyFromTooDee(cl, strided, sc, sr, src(sc * sr))));
            } }
        }
    }
    // copy_within: all source rectangles x all destination corners (every overlap direction)
    let shapes: Vec<(u64, u64, u64)> = if tier == "quick" { vec![(0, 3, 3), (0, 1, 4), (0, 4, 1), (2, 5, 5), (3, 5, 4), (0, 0, 0), (2, 0, 0), (3, 0, 0), (6, 0, 0), (6, 3, 2)] }
        else { vec![(0, 4, 4), (0, 3, 5), (0, 1, 5), (0, 5, 1), (2, 6, 6), (3, 6, 5), (0, 0, 0), (2, 0, 0), (3, 0, 0), (6, 0, 0), (6, 3, 3), (6, 2, 4)] };
    for (kind, c, r) in shapes {
        let rc = if kind == 0 || kind == 6 || c == 0 { Recv { kind, c, r, win: (0, 0, 0, 0), nc: c, nr: r } }
                 else { Recv { kind, c, r, win: (1, 1, c - 1, r - 1), nc: c - 2, nr: r - 2 } };
        let (nc, nr) = (rc.nc, rc.nr);
        for x0 in 0..=nc + 1 { for x1 in 0..=nc + 1 { for y0 in 0..=nr + 1 { for y1 in 0..=nr + 1 {
            if tier == "quick" && (x0 > x1 + 1 || y0 > y1 + 1) { continue; }
            for dx in 0..=nc + 1 { for dy in 0..=nr + 1 {
                emit(out, 14, &case(&rc, TOp::CopyWithin(x0, y0, x1, y1, dx, dy)));
            } }
        } } } }
        // destination corners near usize::MAX, both profiles: sums that would wrap onto an
        // in-range value without overflow checks (the assertions use checked sums since the
        // D14 repair); zero-area sources included
        if nc > 0 && nr > 0 {
            let mut bigs = vec![u64::MAX, u64::MAX - 1, u64::MAX - 2, 1 << 63, 1 << 62, (1 << 63) + 1, 1 << 32];
            for k in 1..=nc.max(nr) + 1 { bigs.push(u64::MAX - k + 1); bigs.push((u64::MAX - k + 1).wrapping_add(1 << 63)); }
            bigs.sort(); bigs.dedup();
            for &big in &bigs {
                for x0 in 0..=nc { for x1 in x0..=nc { for y0 in 0..=nr { for y1 in y0..=nr {
                    if tier == "quick" && (x1 - x0 > 2 || y1 - y0 > 2) && (x1, y1) != (nc, nr) { continue; }
                    for small in [0, 1, nr.saturating_sub(1)] {
                        emit(out, 14, &case(&rc, TOp::CopyWithin(x0, y0, x1, y1, big, small)));
                        emit(out, 14, &case(&rc, TOp::CopyWithin(x0, y0, x1, y1, small.min(nc), big)));
                    }
                    emit(out, 14, &case(&rc, TOp::CopyWithin(x0, y0, x1, y1, big, big)));
                } } } }
            }
        }
    }
}

/// C15: translate and flips, every shape and every mid
pub fn gen_c15(out: &mut Out, tier: &str, _rng: &mut Rng) {
    let max = if tier == "quick" { 6 } else { 10 };
    let mut recvs = vec![];
    for c in 0..=max { for r in 0..=max {
        if (c == 0) != (r == 0) { continue; }
        recvs.push(Recv { kind: 0, c, r, win: (0, 0, 0, 0), nc: c, nr: r });
        if c > 0 {
            // interior window of a (c+2) x (r+2) parent
            for kind in [2, 3] {
                if tier == "quick" && kind == 3 && (c + r) % 2 == 1 { continue; }
                recvs.push(Recv { kind, c: c + 2, r: r + 2, win: (1, 1, c + 1, r + 1), nc: c, nr: r });
            }
        }
    } }
    recvs.push(Recv { kind: 2, c: 3, r: 3, win: (1, 1, 1, 1), nc: 0, nr: 0 });
    // views whose root is empty (stride 0), and TooDeeViewMut::new over a slice
    for kind in [2, 3, 6] { recvs.push(Recv { kind, c: 0, r: 0, win: (0, 0, 0, 0), nc: 0, nr: 0 }); }
    for (c, r) in [(1, 1), (3, 2), (2, 5), (4, 4)] { recvs.push(Recv { kind: 6, c, r, win: (0, 0, 0, 0), nc: c, nr: r }); }
    // ... and over slices with spare cells behind the array
    for (c, r, spare) in [(3u64, 2u64, 1u64), (2, 5, 2), (4, 4, 5), (2, 3, 3)] { recvs.push(Recv { kind: 6, c, r, win: (spare, 0, 0, 0), nc: c, nr: r }); }
    for rc in recvs {
        emit(out, 15, &case(&rc, TOp::FlipRows));
        emit(out, 15, &case(&rc, TOp::FlipCols));
        for mc in idxs(rc.nc) { for mr in idxs(rc.nr) { emit(out, 15, &case(&rc, TOp::Translate(mc, mr))); } }
    }
}

fn key_patterns(n: u64, letters: u64) -> Vec<Vec<u64>> {
    let mut v = vec![vec![]];
    for _ in 0..n {
        let mut w = vec![];
        for p in &v { for l in 0..letters { let mut q = p.clone(); q.push(l); w.push(q); } }
        v = w;
    }
    v
}

/// C16 / C17: every key line over a small alphabet (all tie patterns), every variant
pub fn gen_sort(out: &mut Out, prop: u32, tier: &str, rng: &mut Rng) {
    let (smax, letters) = if tier == "quick" { (4, 3) } else { (5, 3) };
    let variants: Vec<u64> = if prop == 16 { (0..=5).collect() } else { (6..=10).collect() };
    let mut recvs = vec![];
    for c in 0..=smax { for r in 0..=smax {
        if (c == 0) != (r == 0) { continue; }
        if tier == "quick" && c * r > 12 { continue; }
        recvs.push(Recv { kind: 0, c, r, win: (0, 0, 0, 0), nc: c, nr: r });
        if c > 0 { for kind in [2, 3] { recvs.push(Recv { kind, c: c + 2, r: r + 1, win: (1, 1, c + 1, r + 1), nc: c, nr: r }); } }
    } }
    for kind in [2, 3, 6] { recvs.push(Recv { kind, c: 0, r: 0, win: (0, 0, 0, 0), nc: 0, nr: 0 }); }
    for (c, r) in [(1, 1), (3, 2), (2, 3)] { recvs.push(Recv { kind: 6, c, r, win: (0, 0, 0, 0), nc: c, nr: r }); }
    for rc in recvs {
        for &var in &variants {
            let is_col = var >= 6;
            let (lines, n) = if is_col { (rc.nc, rc.nr) } else { (rc.nr, rc.nc) };
            for line in (0..=lines).chain([u64::MAX]) {
                let pats = if line < lines { key_patterns(n, letters) } else { vec![vec![0; n as usize]] };
                for (pi, pat) in pats.iter().enumerate() {
                    if tier == "quick" && rc.kind == 3 && pi % 3 != 0 { continue; }
                    let mut data = plain(rc.c, rc.r);
                    let (x0, y0) = if rc.kind == 0 { (0, 0) } else { (rc.win.0, rc.win.1) };
                    if line < lines {
                        for (pos, k) in pat.iter().enumerate() {
                            let (cx, cy) = if is_col { (x0 + line, y0 + pos as u64) } else { (x0 + pos as u64, y0 + line) };
                            let ord_variant = matches!(var, 4 | 5 | 10);
                            // natural-order variants compare whole values: make them distinct
                            let val = if ord_variant { 100_000 + ((*k * 7 + (pos as u64 * 3) % 5) * 1024) as u32 + pos as u32 } else { 100_000 + (*k * 1024) as u32 + pos as u32 };
                            data[(cy * rc.c + cx) as usize] = val;
                        }
                    }
                    emit(out, prop, &OCase { kind: rc.kind, c: rc.c, r: rc.r, win: rc.win, data: data.clone(), op: TOp::Sort(var, line) });
                    // the stable natural-order variants with key cells that are EQUAL values:
                    // the lines differ only elsewhere, stability is what orders them
                    if matches!(var, 4 | 10) && line < lines {
                        for (pos, k) in pat.iter().enumerate() {
                            let (cx, cy) = if is_col { (x0 + line, y0 + pos as u64) } else { (x0 + pos as u64, y0 + line) };
                            data[(cy * rc.c + cx) as usize] = 100_000 + (*k * 1024) as u32;
                        }
                        emit(out, prop, &OCase { kind: rc.kind, c: rc.c, r: rc.r, win: rc.win, data, op: TOp::Sort(var, line) });
                    }
                }
            }
        }
    }
    // long key lines with many ties: beyond the length (20 / 32 elements, depending on the
    // standard library) up to which slice::sort_unstable happens to behave like a stable sort
    // (lines longer than 256 and key functions returning a one-byte type - variant + 20 -
    // are there for index-narrowing tricks in cached-key sorts)
    let lens: &[u64] = if tier == "quick" { &[21, 33, 48, 257, 300] } else { &[21, 32, 33, 40, 64, 100, 256, 257, 600, 1000] };
    let reps = if tier == "quick" { 2 } else { 8 };
    let mut long_variants: Vec<u64> = variants.clone();
    long_variants.extend(variants.iter().filter(|v| matches!(**v, 2 | 3 | 8 | 9)).map(|v| v + 20));
    for &n in lens { for other in [1u64, 2, 3] { for &var in &long_variants { for kind in [0u64, 2, 3] { for rep in 0..reps {
        if n > 100 && (other == 3 || kind == 3 || rep >= 2) { continue; }
        let is_col = var % 20 >= 6;
        let (nc, nr) = if is_col { (other, n) } else { (n, other) };
        let rc = if kind == 0 { Recv { kind, c: nc, r: nr, win: (0, 0, 0, 0), nc, nr } }
                 else { Recv { kind, c: nc + 2, r: nr + 1, win: (1, 1, nc + 1, nr + 1), nc, nr } };
        let line = rng.below(other);
        let letters = 2 + rng.below(3);
        let tied_values = matches!(var, 4 | 10) && rep % 2 == 0;
        let mut data = plain(rc.c, rc.r);
        let (x0, y0) = if kind == 0 { (0, 0) } else { (rc.win.0, rc.win.1) };
        for pos in 0..n {
            let k = rng.below(letters);
            let (cx, cy) = if is_col { (x0 + line, y0 + pos) } else { (x0 + pos, y0 + line) };
            let val = if tied_values { 100_000 + (k * 1024) as u32 }
                      else if matches!(var, 4 | 5 | 10) { 100_000 + ((k * 7 + (pos * 3) % 5) * 1024) as u32 + pos as u32 }
                      else { 100_000 + (k * 1024) as u32 + pos as u32 };
            data[(cy * rc.c + cx) as usize] = val;
        }
        emit(out, prop, &OCase { kind: rc.kind, c: rc.c, r: rc.r, win: rc.win, data, op: TOp::Sort(var, line) });
    } } } } }
}

/// C04: every mutating operation on every window position of a parent
pub fn gen_c04(out: &mut Out, tier: &str, rng: &mut Rng) {
    let parents: Vec<(u64, u64)> = if tier == "quick" { vec![(4, 4), (5, 2)] } else { vec![(5, 5), (6, 3), (2, 6)] };
    for rc in receivers(0, &parents, &[2, 4, 5]) {
        let (nc, nr) = (rc.nc, rc.nr);
        let n = nc * nr;
        let org = if rc.kind == 4 { 1 } else { 0 };
        let src = |n: u64| -> Vec<u32> { (0..n as u32).map(|i| 5000 + i).collect() };
        let mut ops = vec![TOp::Fill(9), TOp::FlipRows, TOp::FlipCols,
            TOp::CopyFromSlice(false, src(n)), TOp::CopyFromSlice(true, src(n)),
            TOp::CopyFromTooDee(false, true, nc, nr, src(n)), TOp::CopyFromTooDee(true, false, nc, nr, src(n))];
        for a in 0..=nr { for b in 0..=nr { ops.push(TOp::SwapRows(a, b)); ops.push(TOp::RowPair(a, b)); } }
        for a in 0..=nc { for b in 0..=nc { ops.push(TOp::SwapCols(a, b)); } }
        for mc in 0..=nc + 1 { for mr in 0..=nr + 1 { ops.push(TOp::Translate(mc, mr)); } }
        for c in 0..=nc { for r in 0..=nr { ops.push(TOp::SetCell(c, r, 31337)); ops.push(TOp::SetRowCell(c, r, 31338)); } }
        for _ in 0..(if tier == "quick" { 12 } else { 60 }) {
            ops.push(TOp::Swap(rng.below(nc + 1), rng.below(nr + 1), rng.below(nc + 1), rng.below(nr + 1)));
            let (x0, y0) = (rng.below(nc + 1), rng.below(nr + 1));
            let (x1, y1) = (x0 + rng.below(nc + 1 - x0), y0 + rng.below(nr + 1 - y0));
            ops.push(TOp::CopyWithin(x0, y0, x1, y1, rng.below(nc + 1), rng.below(nr + 1)));
        }
        for op in ops { emit(out, 4, &case(&rc, op)); }
        // sorts: one tie pattern per line
        for var in 0..=10u64 {
            let is_col = var >= 6;
            let (lines, len) = if is_col { (nc, nr) } else { (nr, nc) };
            for line in 0..lines {
                let mut data = plain(rc.c, rc.r);
                for pos in 0..len {
                    let (cx, cy) = if is_col { (org + rc.win.0 + line, org + rc.win.1 + pos) } else { (org + rc.win.0 + pos, org + rc.win.1 + line) };
                    let k = (pos * 2 + line + var) % 3;
                    let val = if matches!(var, 4 | 5 | 10) { 100_000 + ((k * 7 + (pos * 3) % 5) * 1024) as u32 + pos as u32 } else { 100_000 + (k * 1024) as u32 + pos as u32 };
                    data[(cy * rc.c + cx) as usize] = val;
                }
                emit(out, 4, &OCase { kind: rc.kind, c: rc.c, r: rc.r, win: rc.win, data, op: TOp::Sort(var, line) });
            }
        }
    }
}

/// C11: the comparator / key function panics at its k-th call, every sort variant that
/// takes one, owned arrays, windows and third-party implementors
/// C11: clone_from_slice / clone_from_toodee (dense and strided sources) on owned arrays,
/// windows and slice-constructed views, the k-th Clone panicking for every k, plus sources of
/// the wrong size
pub fn gen_c11_clone(out: &mut Out, prop: u32, tier: &str) {
    let shapes: Vec<(u64, u64)> = if tier == "quick" { vec![(1, 1), (2, 3), (3, 2), (1, 4), (4, 1), (0, 0)] } else { vec![(1, 1), (2, 3), (3, 2), (4, 4), (1, 6), (6, 1), (5, 3), (0, 0)] };
    for (nc, nr) in shapes { for kind in [0u64, 2, 6] {
        let rc = if kind == 0 || kind == 6 { Recv { kind, c: nc, r: nr, win: (0, 0, 0, 0), nc, nr } }
                 else { Recv { kind, c: nc + 2, r: nr + 1, win: (1, 1, nc + 1, nr + 1), nc, nr } };
        if kind == 2 && nc == 0 { continue; }
        let area = nc * nr;
        let cells: Vec<u32> = (0..area as u32).map(|i| 500 + i).collect();
        // C11: the fuse fires (k < area); C05: it does not - the completed call drops every
        // replaced element exactly once and leaks nothing
        let ks: Vec<u64> = if prop == 11 { (0..area).collect() } else { vec![area, area + 1] };
        for k in ks {
            let mk = |op: TOp| OCase { kind: rc.kind, c: rc.c, r: rc.r, win: rc.win, data: plain(rc.c, rc.r), op };
            emit(out, prop, &mk(TOp::CloneFuse(false, false, 0, 0, cells.clone(), k)));
            emit(out, prop, &mk(TOp::CloneFuse(true, false, nc, nr, cells.clone(), k)));
            if nc > 0 { emit(out, prop, &mk(TOp::CloneFuse(true, true, nc, nr, cells.clone(), k))); }
        }
        if prop != 11 { continue; }
        // sources of the wrong size: rejected before the first clone
        let mk = |op: TOp| OCase { kind: rc.kind, c: rc.c, r: rc.r, win: rc.win, data: plain(rc.c, rc.r), op };
        let mut longer = cells.clone(); longer.push(999);
        emit(out, 11, &mk(TOp::CloneFuse(false, false, 0, 0, longer, 0)));
        if area > 0 { emit(out, 11, &mk(TOp::CloneFuse(false, false, 0, 0, cells[1..].to_vec(), 0))); }
        if nc > 0 { emit(out, 11, &mk(TOp::CloneFuse(true, false, nr + 1, nc, (0..((nr + 1) * nc) as u32).collect(), 0))); }
    } }
}

pub fn gen_c11_sort(out: &mut Out, tier: &str, rng: &mut Rng) {
    let shapes: Vec<(u64, u64)> = if tier == "quick" { vec![(1, 1), (2, 3), (3, 2), (4, 4), (1, 5), (5, 1), (40, 2), (2, 40)] } else { vec![(1, 1), (2, 3), (3, 2), (4, 4), (1, 6), (6, 1), (5, 5), (40, 2), (2, 40), (3, 70)] };
    for (nc, nr) in shapes { for kind in [0u64, 2, 3, 6] { for var in [0u64, 1, 2, 3, 6, 7, 8, 9] {
        let rc = if kind == 0 || kind == 6 { Recv { kind, c: nc, r: nr, win: (0, 0, 0, 0), nc, nr } }
                 else { Recv { kind, c: nc + 2, r: nr + 1, win: (1, 1, nc + 1, nr + 1), nc, nr } };
        let is_col = var >= 6;
        let (lines, n) = if is_col { (nc, nr) } else { (nr, nc) };
        let ks: Vec<u64> = if n <= 6 { (0..=3 * n + 2).collect() } else { vec![0, 1, 2, n / 2, n - 1, n, 2 * n, 5 * n, 1000] };
        for line in [0, lines - 1, lines] { for &k in &ks {
            let mut data = plain(rc.c, rc.r);
            let (x0, y0) = if kind == 0 || kind == 6 { (0, 0) } else { (rc.win.0, rc.win.1) };
            if line < lines { for pos in 0..n {
                let (cx, cy) = if is_col { (x0 + line, y0 + pos) } else { (x0 + pos, y0 + line) };
                data[(cy * rc.c + cx) as usize] = 100_000 + (rng.below(3) * 1024) as u32 + pos as u32;
            } }
            emit(out, 11, &OCase { kind: rc.kind, c: rc.c, r: rc.r, win: rc.win, data, op: TOp::SortFuse(var, line, k) });
        } }
    } } }
}
