//! Family 4 (C03): chains of view()/view_mut() and the direct view constructors.
//! Family 5 (C02): every accessor at one coordinate, compared by address.
use crate::util::*;
use std::panic::{catch_unwind, AssertUnwindSafe};
use toodee::*;

type Win = (u64, u64, u64, u64);
#[derive(Clone, Debug)]
pub struct Level { pub mutable: bool, pub win: Win }

fn cells_of<V: TooDeeOps<u32>>(v: &V, o: &mut Vec<u64>) {
    let (c, r) = v.size();
    // num_cols / num_rows / is_empty / rows().len() / cells().len() must all tell the same story
    let consistent = v.num_cols() == c && v.num_rows() == r && v.is_empty() == (c * r == 0)
        && v.rows().len() == r && v.cells().len() == c * r;
    o.extend([1, c as u64, r as u64, if consistent { (c * r) as u64 } else { u64::MAX }]);
    for y in 0..r { for x in 0..c { o.push(v[(x, y)] as u64); } }
}
fn bump_all(v: &mut TooDeeViewMut<'_, u32>) {
    let (c, r) = v.size();
    for y in 0..r { for x in 0..c { v[(x, y)] += 1000; } }
}
fn us(w: &Win) -> ((usize, usize), (usize, usize)) {
    ((w.0 as usize, w.1 as usize), (w.2 as usize, w.3 as usize))
}

/// chains are at most 3 deep; written out because each level borrows the previous one
fn run_chain(t: &mut TooDee<u32>, ls: &[Level], o: &mut Vec<u64>, depth: &mut u64) -> bool {
    // returns whether the final receiver was a mutable view (then it was bumped)
    *depth = 0;
    if ls.is_empty() { cells_of(t, o); return false; }
    let (s, e) = us(&ls[0].win);
    if ls[0].mutable {
        let mut v1 = t.view_mut(s, e);
        *depth = 1;
        if ls.len() == 1 { cells_of(&v1, o); bump_all(&mut v1); return true; }
        let (s, e) = us(&ls[1].win);
        if ls[1].mutable {
            let mut v2 = v1.view_mut(s, e);
            *depth = 2;
            if ls.len() == 2 { cells_of(&v2, o); bump_all(&mut v2); return true; }
            let (s, e) = us(&ls[2].win);
            if ls[2].mutable { let mut v3 = v2.view_mut(s, e); *depth = 3; cells_of(&v3, o); bump_all(&mut v3); true }
            else { let v3 = v2.view(s, e); *depth = 3; cells_of(&v3, o); false }
        } else {
            let v2 = v1.view(s, e);
            *depth = 2;
            if ls.len() == 2 { cells_of(&v2, o); return false; }
            let (s, e) = us(&ls[2].win);
            let v3 = v2.view(s, e); *depth = 3; cells_of(&v3, o); false
        }
    } else {
        let v1 = t.view(s, e);
        *depth = 1;
        if ls.len() == 1 { cells_of(&v1, o); return false; }
        let (s, e) = us(&ls[1].win);
        let v2 = v1.view(s, e);
        *depth = 2;
        if ls.len() == 2 { cells_of(&v2, o); return false; }
        let (s, e) = us(&ls[2].win);
        let v3 = v2.view(s, e); *depth = 3; cells_of(&v3, o); false
    }
}

pub fn emit_chain(out: &mut Out, c: u64, r: u64, ls: &[Level]) {
    let mut inp = vec![DBG as u64, 0, c, r, ls.len() as u64];
    for l in ls { inp.extend([l.mutable as u64, l.win.0, l.win.1, l.win.2, l.win.3]); }
    if out.want_sample() { out.sample(&format!("C03 parent {}x{} chain {:?}", c, r, ls)); }
    out.begin(3, 4, &inp);
    let mut t = TooDee::from_vec(c as usize, r as usize, (0..(c * r) as u32).collect());
    let mut o = vec![];
    let mut depth = 0u64;
    let res = catch_unwind(AssertUnwindSafe(|| run_chain(&mut t, ls, &mut o, &mut depth)));
    let mut obs = vec![];
    match res {
        Ok(bumped) => {
            obs.extend(o);
            if bumped { obs.push(t.data().len() as u64); obs.extend(t.data().iter().map(|x| *x as u64)); }
        }
        Err(_) => obs.extend([0, depth]),
    }
    out.end(&obs);
}

pub fn emit_new(out: &mut Out, prop: u32, mutable: bool, c: u64, r: u64, slen: u64) {
    let inp = vec![DBG as u64, if mutable { 2 } else { 1 }, c, r, slen];
    if out.want_sample() { out.sample(&format!("C{:02} TooDeeView{}::new({}, {}, slice of {})", prop, if mutable { "Mut" } else { "" }, c, r, slen)); }
    out.begin(prop, 4, &inp);
    let mut data: Vec<u32> = (0..slen as u32).collect();
    let mut o = vec![];
    let res = catch_unwind(AssertUnwindSafe(|| {
        if mutable { let mut v = TooDeeViewMut::new(c as usize, r as usize, &mut data); cells_of(&v, &mut o); bump_all(&mut v); }
        else { let v = TooDeeView::new(c as usize, r as usize, &data); cells_of(&v, &mut o); }
    }));
    let mut obs = vec![];
    match res {
        Ok(()) => { obs.extend(o); if mutable { obs.push(data.len() as u64); obs.extend(data.iter().map(|x| *x as u64)); } }
        Err(_) => obs.extend([0, 0]),
    }
    out.end(&obs);
}

fn windows(c: u64, r: u64, slack: u64) -> Vec<Win> {
    // every (start, end) in (0..=dim+slack)^4, valid and invalid
    let mut v = vec![];
    for s0 in 0..=c + slack { for e0 in 0..=c + slack { for s1 in 0..=r + slack { for e1 in 0..=r + slack {
        v.push((s0, s1, e0, e1));
    } } } }
    v
}
fn valid_windows(c: u64, r: u64) -> Vec<Win> {
    windows(c, r, 0).into_iter().filter(|w| w.0 <= w.2 && w.1 <= w.3).collect()
}
const BIG: [u64; 4] = [u64::MAX, u64::MAX / 2 + 1, 1 << 32, 1 << 63];

pub fn gen_c03(out: &mut Out, tier: &str, rng: &mut Rng) {
    let parents: Vec<(u64, u64)> = if tier == "quick" { vec![(0, 0), (1, 1), (3, 2), (1, 3), (3, 3)] }
        else { vec![(0, 0), (1, 1), (3, 2), (1, 4), (4, 1), (4, 4), (5, 3)] };
    for &(c, r) in &parents {
        // depth 1: every (start, end) including one past, both receivers
        for w in windows(c, r, 1) {
            for m in [false, true] { emit_chain(out, c, r, &[Level { mutable: m, win: w }]); }
        }
        // huge coordinates
        for &b in &BIG {
            for w in [(b, 0, b, 0), (0, b, 0, b), (0, 0, b, r), (0, 0, c, b), (b, b, b, b), (c, r, b, b)] {
                for m in [false, true] { emit_chain(out, c, r, &[Level { mutable: m, win: w }]); }
            }
        }
        // depth 2 and 3: every valid first window, then every (valid or off-by-one) second window
        for w1 in valid_windows(c, r) {
            let (c1, r1) = { let (a, b) = (w1.2 - w1.0, w1.3 - w1.1); if a == 0 || b == 0 { (0, 0) } else { (a, b) } };
            let seconds = windows(c1, r1, if c1 * r1 <= 4 { 1 } else { 0 });
            for w2 in seconds {
                let kinds: &[(bool, bool)] = &[(false, false), (true, false), (true, true)];
                for &(m1, m2) in kinds {
                    if tier == "quick" && rng.below(3) != 0 && c1 * r1 > 2 { continue; }
                    emit_chain(out, c, r, &[Level { mutable: m1, win: w1 }, Level { mutable: m2, win: w2 }]);
                    // depth 3 on a sample
                    if w2.0 <= w2.2 && w2.1 <= w2.3 && w2.2 <= c1 && w2.3 <= r1 && rng.below(if tier == "quick" { 6 } else { 2 }) == 0 {
                        let (c2, r2) = { let (a, b) = (w2.2 - w2.0, w2.3 - w2.1); if a == 0 || b == 0 { (0, 0) } else { (a, b) } };
                        for w3 in windows(c2, r2, 1) {
                            if rng.below(4) != 0 { continue; }
                            let m3 = m2 && rng.chance(50);
                            emit_chain(out, c, r, &[Level { mutable: m1, win: w1 }, Level { mutable: m2, win: w2 }, Level { mutable: m3, win: w3 }]);
                        }
                    }
                }
            }
        }
    }
    // direct constructors
    let dims: Vec<u64> = (0..=4).chain(BIG).collect();
    for &c in &dims { for &r in &dims {
        let p = (c as u128) * (r as u128);
        let lens: Vec<u64> = if p <= 64 { let p = p as u64; vec![p.saturating_sub(1), p, p + 1, p + 5, 0] } else { vec![0, 7] };
        for slen in lens { for m in [false, true] { emit_new(out, 3, m, c, r, slen); } }
    } }
}

// ---------------------------------------------------------------------------------------

fn off_of(p: *const u32, base: *const u32) -> u64 {
    ((p as usize).wrapping_sub(base as usize) / 4) as u64
}
fn acc(o: &mut Vec<u64>, f: impl FnOnce() -> *const u32, base: *const u32) {
    match catch_unwind(AssertUnwindSafe(f)) {
        Ok(p) => o.extend([1, off_of(p, base)]),
        Err(_) => o.push(0),
    }
}

fn checked_shared<V: TooDeeOps<u32>>(v: &V, c: usize, r: usize, base: *const u32, o: &mut Vec<u64>) {
    acc(o, || &v[(c, r)] as *const u32, base);
    acc(o, || &v[r][c] as *const u32, base);
    acc(o, || &v.col(c)[r] as *const u32, base);
}
fn checked_mut<V: TooDeeOpsMut<u32>>(v: &mut V, c: usize, r: usize, base: *const u32, o: &mut Vec<u64>) {
    acc(o, || &mut v[(c, r)] as *mut u32 as *const u32, base);
    acc(o, || &mut v[r][c] as *mut u32 as *const u32, base);
    acc(o, || { let mut cm = v.col_mut(c); &mut cm[r] as *mut u32 as *const u32 }, base);
}
fn unchecked_shared<V: TooDeeOps<u32>>(v: &V, c: usize, r: usize, base: *const u32, o: &mut Vec<u64>) {
    unsafe {
        acc(o, || v.get_unchecked((c, r)) as *const u32, base);
        acc(o, || &v.get_unchecked_row(r)[c] as *const u32, base);
    }
}
fn unchecked_mut<V: TooDeeOpsMut<u32>>(v: &mut V, c: usize, r: usize, base: *const u32, o: &mut Vec<u64>) {
    unsafe {
        acc(o, || v.get_unchecked_mut((c, r)) as *mut u32 as *const u32, base);
        acc(o, || &mut v.get_unchecked_row_mut(r)[c] as *mut u32 as *const u32, base);
    }
}

pub fn emit_access(out: &mut Out, rk: u64, pc: u64, pr: u64, w: Win, c: u64, r: u64) {
    let inp = vec![DBG as u64, rk, pc, pr, 0, w.0, w.1, w.2, w.3, c, r];
    if out.want_sample() { out.sample(&format!("C02 receiver kind {} parent {}x{} window {:?} coordinate ({}, {})", rk, pc, pr, w, c, r)); }
    out.begin(2, 5, &inp);
    let mut t = TooDee::from_vec(pc as usize, pr as usize, (0..(pc * pr) as u32).collect());
    let before: Vec<u32> = t.data().to_vec();
    let base = t.data().as_ptr();
    let (s, e) = us(&w);
    let (cu, ru) = (c as usize, r as usize);
    let mut o = vec![];
    let res = catch_unwind(AssertUnwindSafe(|| {
        match rk {
            0 => {
                let (nc, nr) = t.size();
                checked_shared(&t, cu, ru, base, &mut o);
                checked_mut(&mut t, cu, ru, base, &mut o);
                if cu < nc && ru < nr { unchecked_shared(&t, cu, ru, base, &mut o); unchecked_mut(&mut t, cu, ru, base, &mut o); }
            }
            1 => {
                let v = t.view(s, e);
                let (nc, nr) = v.size();
                checked_shared(&v, cu, ru, base, &mut o);
                if cu < nc && ru < nr { unchecked_shared(&v, cu, ru, base, &mut o); }
            }
            2 => {
                let mut v = t.view_mut(s, e);
                let (nc, nr) = v.size();
                checked_shared(&v, cu, ru, base, &mut o);
                checked_mut(&mut v, cu, ru, base, &mut o);
                if cu < nc && ru < nr { unchecked_shared(&v, cu, ru, base, &mut o); unchecked_mut(&mut v, cu, ru, base, &mut o); }
            }
            // nested receivers, cut from the outer window (1,1)-(C,R) (narrower than the root)
            3 => {
                let mut outer = t.view_mut((1, 1), (pc as usize, pr as usize));
                let mut v = outer.view_mut(s, e);
                let (nc, nr) = v.size();
                checked_shared(&v, cu, ru, base, &mut o);
                checked_mut(&mut v, cu, ru, base, &mut o);
                if cu < nc && ru < nr { unchecked_shared(&v, cu, ru, base, &mut o); unchecked_mut(&mut v, cu, ru, base, &mut o); }
            }
            4 => {
                let outer = t.view_mut((1, 1), (pc as usize, pr as usize));
                let v = outer.view(s, e);
                let (nc, nr) = v.size();
                checked_shared(&v, cu, ru, base, &mut o);
                if cu < nc && ru < nr { unchecked_shared(&v, cu, ru, base, &mut o); }
            }
            _ => {
                let outer = t.view((1, 1), (pc as usize, pr as usize));
                let v = outer.view(s, e);
                let (nc, nr) = v.size();
                checked_shared(&v, cu, ru, base, &mut o);
                if cu < nc && ru < nr { unchecked_shared(&v, cu, ru, base, &mut o); }
            }
        }
    }));
    let mut obs = vec![];
    match res {
        Ok(()) => { obs.push(1); obs.extend(o); if t.data() != &before[..] { obs.push(MARK_PROBE_PANIC); } }
        Err(_) => obs.push(0),
    }
    out.end(&obs);
}

pub fn gen_c02(out: &mut Out, tier: &str, _rng: &mut Rng) {
    let smax = if tier == "quick" { 3 } else { 5 };
    let coords = |dim: u64, stride: u64| -> Vec<u64> {
        let mut v: Vec<u64> = (0..=dim + 1).collect();
        v.extend(BIG);
        if stride > 0 {
            // multiples of 2^k whose product with the stride wraps to something small
            let q = ((1u128 << 64) / stride as u128) as u64;
            v.extend([q, q.wrapping_add(1), q.wrapping_sub(1)]);
            if stride.is_power_of_two() { v.extend([(1u64 << 63) / stride, 1u64 << (64 - stride.trailing_zeros() - 1).min(63)]); }
            for j in [62, 61, 33] { v.push(1u64 << j); v.push((1u64 << j) + 1); v.push(3u64 << j); }
        }
        v.sort_unstable(); v.dedup(); v
    };
    // owned arrays
    let mut shapes = vec![(0u64, 0u64)];
    for c in 1..=smax { for r in 1..=smax { shapes.push((c, r)); } }
    shapes.extend([(2, 3), (4, 2), (8, 2)]);
    for (c, r) in shapes {
        for x in coords(c, c) { for y in coords(r, c) { emit_access(out, 0, c, r, (0, 0, 0, 0), x, y); } }
    }
    // windows
    let parents: Vec<(u64, u64)> = if tier == "quick" { vec![(4, 3), (2, 2)] } else { vec![(5, 5), (4, 3), (2, 4), (8, 3)] };
    for (pc, pr) in parents {
        for w in valid_windows(pc, pr) {
            let (nc, nr) = { let (a, b) = (w.2 - w.0, w.3 - w.1); if a == 0 || b == 0 { (0, 0) } else { (a, b) } };
            let xs: Vec<u64> = if tier == "quick" { (0..=nc + 1).chain([u64::MAX, 1 << 62, ((1u128 << 64) / pc as u128) as u64]).collect() } else { coords(nc, pc) };
            let ys: Vec<u64> = if tier == "quick" { (0..=nr + 1).chain([u64::MAX, 1 << 63, 1 << 62, ((1u128 << 64) / pc as u128) as u64, (((1u128 << 64) / pc as u128) as u64).wrapping_add(1)]).collect() } else { coords(nr, pc) };
            for rk in [1, 2] { for &x in &xs { for &y in &ys { emit_access(out, rk, pc, pr, w, x, y); } } }
        }
        // windows of a window (view_mut of view_mut, view of view_mut, view of view)
        if pc >= 2 && pr >= 2 {
            for w in valid_windows(pc - 1, pr - 1) {
                let (nc, nr) = { let (a, b) = (w.2 - w.0, w.3 - w.1); if a == 0 || b == 0 { (0, 0) } else { (a, b) } };
                let xs: Vec<u64> = (0..=nc + 1).chain([u64::MAX, ((1u128 << 64) / pc as u128) as u64]).collect();
                let ys: Vec<u64> = (0..=nr + 1).chain([u64::MAX, 1 << 62, ((1u128 << 64) / pc as u128) as u64]).collect();
                for rk in [3, 4, 5] { for &x in &xs { for &y in &ys { emit_access(out, rk, pc, pr, w, x, y); } } }
            }
        }
    }
}

pub fn replay(out: &mut Out, prop: u32, fam: u32, inp: &[u64]) {
    if fam == 5 {
        emit_access(out, inp[1], inp[2], inp[3], (inp[5], inp[6], inp[7], inp[8]), inp[9], inp[10]);
    } else if inp[1] == 0 {
        let n = inp[4] as usize;
        let ls: Vec<Level> = (0..n).map(|i| { let b = 5 + 5 * i; Level { mutable: inp[b] != 0, win: (inp[b + 1], inp[b + 2], inp[b + 3], inp[b + 4]) } }).collect();
        emit_chain(out, inp[2], inp[3], &ls);
    } else {
        emit_new(out, prop, inp[1] == 2, inp[2], inp[3], inp[4]);
    }
}
