//! Family 10: call sequences on rows()/rows_mut() and col()/col_mut() of arrays and windows
//! with dimensions up to 2^63, which zero-sized elements make free (C08, C09): the regime in
//! which `len * stride` and `n * stride` leave 64 bits although `n` is smaller than the
//! element count.  Positions are not observable (all zero-sized elements share an address):
//! a yield is recorded by its presence and, for rows, its length.
use crate::iters::ICase;
use crate::util::*;
use std::ops::Index;
use std::panic::{catch_unwind, AssertUnwindSafe};
use toodee::*;

pub const FAM: u32 = 10;

fn zslice(n: usize) -> &'static [()] {
    // a slice of zero-sized elements needs no memory: any aligned non-null pointer is valid
    unsafe { std::slice::from_raw_parts(std::ptr::NonNull::<()>::dangling().as_ptr(), n) }
}
fn zslice_mut(n: usize) -> &'static mut [()] {
    unsafe { std::slice::from_raw_parts_mut(std::ptr::NonNull::<()>::dangling().as_ptr(), n) }
}
fn zvec(n: usize) -> Vec<()> {
    let mut v: Vec<()> = Vec::new();
    unsafe { v.set_len(n) };
    v
}

trait ZItem { fn enc(self, o: &mut Vec<u64>); }
impl ZItem for &[()] { fn enc(self, o: &mut Vec<u64>) { o.extend([1, self.len() as u64]); } }
impl ZItem for &mut [()] { fn enc(self, o: &mut Vec<u64>) { o.extend([1, self.len() as u64]); } }
impl ZItem for &() { fn enc(self, o: &mut Vec<u64>) { o.push(1); } }
impl ZItem for &mut () { fn enc(self, o: &mut Vec<u64>) { o.push(1); } }

fn drive<I>(mut it: I, case: &ICase, o: &mut Vec<u64>, idx: Option<&dyn Fn(&I, usize)>)
where I: DoubleEndedIterator + ExactSizeIterator, I::Item: ZItem {
    for (op, n) in case.calls.iter() {
        let n = *n as usize;
        match op {
            0 => match it.next() { Some(x) => x.enc(o), None => o.push(0) },
            1 => match it.next_back() { Some(x) => x.enc(o), None => o.push(0) },
            2 => match it.nth(n) { Some(x) => x.enc(o), None => o.push(0) },
            3 => match it.nth_back(n) { Some(x) => x.enc(o), None => o.push(0) },
            4 => o.push(it.len() as u64),
            _ => match idx {
                Some(f) => match catch_unwind(AssertUnwindSafe(|| f(&it, n))) {
                    Ok(()) => o.push(1),
                    Err(_) => o.push(0),
                },
                None => o.push(0),
            },
        }
    }
    match case.term {
        // the cell iterators have no O(1) count(): 2^63 steps; their exact len() instead
        0 => o.push(if case.kind == 2 { it.len() as u64 } else { it.count() as u64 }),
        1 => match it.last() { Some(x) => x.enc(o), None => o.push(0) },
        _ => {}
    }
}

fn col_idx<'a>(it: &Col<'a, ()>, i: usize) { *it.index(i) }
fn colmut_idx<'a>(it: &ColMut<'a, ()>, i: usize) { *it.index(i) }

fn run_on<V: TooDeeOps<()>>(v: &V, case: &ICase, o: &mut Vec<u64>) {
    match case.kind {
        0 => drive(v.rows(), case, o, None),
        2 => drive(v.cells(), case, o, None),
        _ => drive(v.col(case.col as usize), case, o, Some(&col_idx)),
    }
}
fn run_on_mut<V: TooDeeOpsMut<()>>(v: &mut V, case: &ICase, o: &mut Vec<u64>) {
    match case.kind {
        0 => drive(v.rows_mut(), case, o, None),
        2 => drive(v.cells_mut(), case, o, None),
        _ => drive(v.col_mut(case.col as usize), case, o, Some(&colmut_idx)),
    }
}

pub fn run_case(case: &ICase, obs: &mut Vec<u64>) {
    let (c, r) = (case.c as usize, case.r as usize);
    let n = c.checked_mul(r).expect("generator keeps C*R below 2^64");
    let (s, e) = ((case.win.0 as usize, case.win.1 as usize), (case.win.2 as usize, case.win.3 as usize));
    let mut o: Vec<u64> = vec![];
    let res = catch_unwind(AssertUnwindSafe(|| {
        match (case.recv, case.mutable) {
            (0, false) => { let t = TooDee::from_vec(c, r, zvec(n)); run_on(&t, case, &mut o) }
            (0, true) => { let mut t = TooDee::from_vec(c, r, zvec(n)); run_on_mut(&mut t, case, &mut o) }
            (1, _) => { let p = TooDeeView::new(c, r, zslice(n)); let v = p.view(s, e); run_on(&v, case, &mut o) }
            (2, false) => { let mut p = TooDeeViewMut::new(c, r, zslice_mut(n)); let v = p.view_mut(s, e); run_on(&v, case, &mut o) }
            (2, true) => { let mut p = TooDeeViewMut::new(c, r, zslice_mut(n)); let mut v = p.view_mut(s, e); run_on_mut(&mut v, case, &mut o) }
            (_, _) => { let t = TooDee::from_vec(c, r, zvec(n)); let v = t.view(s, e); run_on(&v, case, &mut o) }
        }
    }));
    match res {
        Ok(()) => { obs.push(1); obs.extend(o); }
        Err(_) => { if o.is_empty() { obs.push(0) } else { obs.push(MARK_PROBE_PANIC); obs.extend(o) } }
    }
}

pub fn emit(out: &mut Out, prop: u32, case: &ICase) {
    if out.want_sample() { out.sample(&format!("C{:02} zero-sized {:?}", prop, case)); }
    out.begin(prop, FAM, &case.encode());
    let mut obs = vec![];
    run_case(case, &mut obs);
    out.end(&obs);
}
pub fn replay(out: &mut Out, prop: u32, inp: &[u64]) { emit(out, prop, &ICase::decode(inp)); }

/// uniform-ish in 0..=m without overflowing at m = u64::MAX
fn upto(rng: &mut Rng, m: u64) -> u64 { match m.checked_add(1) { Some(k) => rng.below(k), None => rng.next() } }

fn ceil_div_2_64(d: u64) -> u64 {
    if d <= 1 { u64::MAX } else { (((1u128 << 64) + d as u128 - 1) / d as u128) as u64 }
}

pub fn generate(out: &mut Out, prop: u32, tier: &str, rng: &mut Rng) {
    let kind: u64 = match prop { 8 => 0, 10 => 2, _ => 1 };
    let mut shapes: Vec<(u64, u64)> = vec![
        (1 << 32, 1 << 31), (1 << 31, 1 << 32), (1 << 22, 1 << 22), ((1 << 21) + 1, 1 << 42), (3, 1 << 62), (1 << 62, 3),
        (1, 1 << 63), (1 << 63, 1), (1 << 16, 1 << 16), (65537, 65539), (1 << 40, 1 << 20), (5, 4), (0, 0),
        (u64::MAX, 1), (1, u64::MAX), ((1 << 32) - 1, (1 << 32) + 1)];
    if tier != "quick" { for _ in 0..12 { let a = 1 + rng.below(62); let b = rng.below(64 - a); shapes.push(((1u64 << a) + rng.below(3), (1u64 << b).saturating_sub(rng.below(2)).max(1))); } }
    let (nrand, maxdepth) = if tier == "quick" { (6, 6) } else { (40, 12) };
    for (c, r) in shapes {
        if (c as u128) * (r as u128) >= (1u128 << 64) { continue; }
        let mut wins: Vec<(u64, (u64, u64, u64, u64))> = vec![(0, (0, 0, 0, 0))];
        for recv in [1u64, 2, 3] {
            wins.push((recv, (0, 0, c, r)));
            if c > 2 && r > 2 { wins.push((recv, (1, 1, c - 1, r - 1))); }
            if c > 0 { let k = rng.below(c); wins.push((recv, (k, 0, k + 1, r))); wins.push((recv, (c / 2, r / 3, c, r))); }
            if r > 0 { let k = rng.below(r); wins.push((recv, (0, k, c, k + 1))); }
            wins.push((recv, (c / 2, r / 2, c / 2, r)));            // empty
            if recv == 1 { wins.push((recv, (0, 0, c.wrapping_add(1), r))); wins.push((recv, (2, 0, 1, r))); }  // rejected
            for _ in 0..(if tier == "quick" { 1 } else { 4 }) {
                let (s0, s1) = (upto(rng, c), upto(rng, r));
                wins.push((recv, (s0, s1, s0 + upto(rng, c - s0), s1 + upto(rng, r - s1))));
            }
        }
        for (recv, win) in wins {
            let (nc, nr) = if recv == 0 { (c, r) } else {
                let (a, b) = (win.2.saturating_sub(win.0), win.3.saturating_sub(win.1));
                if a == 0 || b == 0 { (0, 0) } else { (a, b) } };
            // rows / a column: nr items; cells(): nc * nr (below 2^64 as c * r is)
            let len = if kind == 2 { nc.saturating_mul(nr) } else { nr };
            let denom = c.max(1);
            let mut js = vec![0, 1, 2, len.saturating_sub(1), len, len.saturating_add(1), u64::MAX, u64::MAX / 2 + 1, 1 << 63,
                ceil_div_2_64(denom), ceil_div_2_64(denom).wrapping_add(1), ceil_div_2_64(denom).wrapping_sub(1),
                1 << 32, (1 << 32) + 3, 3 << 32, len / 2, nc, nc.saturating_mul(len), c.saturating_mul(len).saturating_sub(1)];
            if denom.is_power_of_two() && denom > 1 {
                js.push(((1u128 << 64) / denom as u128) as u64 + 3);
                js.push((((1u128 << 64) / denom as u128) as u64).wrapping_mul(2).wrapping_add(1));
            }
            if kind == 2 {
                // row boundaries, and jumps that leave a partly consumed first / last row
                js.extend([nc.saturating_sub(1), nc.saturating_add(1), nc.saturating_mul(2), nc.saturating_mul(2).saturating_sub(1),
                    len.saturating_sub(nc), len.saturating_sub(nc).saturating_sub(1), len.saturating_sub(nc).saturating_add(1),
                    len.saturating_sub(2), nc.saturating_mul(nr / 2), nc.saturating_mul(nr / 2).saturating_add(nc / 2), nr, nr.saturating_sub(1)]);
            }
            js.sort_unstable(); js.dedup();
            let cols_to_try: Vec<u64> = if kind != 1 { vec![0] } else { vec![0, nc / 2, nc.saturating_sub(1), nc, u64::MAX] };
            for col in cols_to_try {
                for mutable in [false, true] {
                    if mutable && (recv == 1 || recv == 3) { continue; }
                    let mk = |calls: Vec<(u64, u64)>, term: u64| ICase { recv, mutable, c, r, win, kind, col, calls, term };
                    let mut singles: Vec<(u64, u64)> = vec![(0, 0), (1, 0), (4, 0)];
                    for &n in &js { singles.push((2, n)); singles.push((3, n)); if kind == 1 { singles.push((5, n)); } }
                    for (i, s) in singles.iter().enumerate() {
                        emit(out, prop, &mk(vec![*s, (4, 0), (0, 0), (1, 0), (4, 0)], [0, 1, 4][i % 3]));
                        // the same from a partially consumed iterator
                        if i % 2 == 0 { emit(out, prop, &mk(vec![(0, 0), (0, 0), (1, 0), (1, 0), *s, (4, 0)], [1, 0, 4][i % 3])); }
                        // cells(): from a first and a last row each consumed to the middle
                        if kind == 2 && i % 2 == 1 { emit(out, prop, &mk(vec![(2, nc / 2), (3, nc / 3), (4, 0), *s, (4, 0), (0, 0), (1, 0), (4, 0)], [1, 0, 4][i % 3])); }
                    }
                    for _ in 0..nrand {
                        let d = 2 + rng.below(maxdepth) as usize;
                        let calls: Vec<(u64, u64)> = (0..d).map(|_| {
                            let op = *rng.pick(&[0u64, 0, 1, 1, 2, 2, 3, 3, 4, 5]);
                            let op = if op == 5 && kind != 1 { 4 } else { op };
                            let n = match rng.below(10) { 0..=3 => rng.below(len.saturating_add(2).max(1)), 4..=5 => rng.below(4), 6 => rng.next(), _ => *rng.pick(&js) };
                            (op, n)
                        }).collect();
                        emit(out, prop, &mk(calls, [0, 1, 4][rng.below(3) as usize]));
                    }
                }
            }
        }
    }
}

/// C03 on arrays of up to 2^64-1 zero-sized cells: windows at the corners and edges of huge
/// parents (where `end.1 * stride + end.0` leaves 64 bits although every cell index fits),
/// observed through the dimensions the row / column iterators report
pub fn generate_views(out: &mut Out, prop: u32, tier: &str, rng: &mut Rng) {
    let mut shapes: Vec<(u64, u64)> = vec![
        (u64::MAX, 1), (1, u64::MAX), (1 << 32, (1 << 32) - 1), ((1 << 32) - 1, 1 << 32), (1 << 32, 1 << 31), (3, 1 << 62),
        (1 << 62, 3), ((1 << 21) + 1, 1 << 42), (65537, 65539), (1 << 63, 1), (1, 1 << 63), (5, 4), (0, 0),
        (6148914691236517205, 3), (3, 6148914691236517205), (4294967295, 4294967297)];
    if tier != "quick" { for _ in 0..20 { let a = 1 + rng.below(62); let b = rng.below(64 - a); shapes.push(((1u64 << a) + rng.below(3), (1u64 << b).saturating_sub(rng.below(2)).max(1))); } }
    let nrand = if tier == "quick" { 6 } else { 40 };
    for (c, r) in shapes {
        if (c as u128) * (r as u128) >= (1u128 << 64) { continue; }
        let mut wins: Vec<(u64, u64, u64, u64)> = vec![(0, 0, c, r), (0, 0, 0, 0), (c, r, c, r), (c / 2, r / 2, c / 2, r), (0, r, c, r)];
        if c >= 2 && r >= 2 { wins.extend([(c - 2, r - 2, c, r), (c - 1, r - 1, c, r), (0, r - 1, c, r), (c - 1, 0, c, r), (1, 1, c - 1, r - 1), (0, 0, 1, 1), (c - 2, 0, c - 1, r)]); }
        if c >= 1 && r >= 1 { wins.extend([(c - 1, r - 1, c, r), (0, r - 1, 1, r), (c - 1, 0, c, 1)]); }
        // rejected: start past end, end past the array (also by wrapping amounts)
        wins.extend([(1, 0, 0, r), (0, 1, c, 0), (0, 0, c.wrapping_add(1), r), (0, 0, c, r.wrapping_add(1)), (0, 0, u64::MAX, r), (0, 0, c, u64::MAX), (u64::MAX, u64::MAX, u64::MAX, u64::MAX)]);
        for _ in 0..nrand {
            let (s0, s1) = (upto(rng, c), upto(rng, r));
            wins.push((s0, s1, s0 + upto(rng, c - s0), s1 + upto(rng, r - s1)));
        }
        for win in wins { for recv in [1u64, 2, 3] { for mutable in [false, true] {
            if mutable && recv != 2 { continue; }
            let nc = win.2.saturating_sub(win.0);
            emit(out, prop, &ICase { recv, mutable, c, r, win, kind: 0, col: 0, calls: vec![(4, 0), (0, 0), (4, 0), (1, 0), (4, 0)], term: 0 });
            for col in [0, nc.saturating_sub(1), nc] {
                emit(out, prop, &ICase { recv, mutable, c, r, win, kind: 1, col, calls: vec![(4, 0), (0, 0), (1, 0), (4, 0)], term: 0 });
            }
        } } }
    }
}
