//! Family 9 (C20): constructors with their argument checks, conversions to and from views,
//! Vec / Box / iterator conversions, derived Clone / PartialEq / Hash.
use crate::util::*;
use crate::geom;
use crate::hist;
use std::collections::hash_map::DefaultHasher;
use std::hash::{Hash, Hasher};
use std::panic::{catch_unwind, AssertUnwindSafe};
use toodee::*;

fn hash_of<T: Hash>(t: &T) -> u64 { let mut h = DefaultHasher::new(); t.hash(&mut h); h.finish() }

fn put<T: Elem>(t: &TooDee<T>, obs: &mut Vec<u64>) {
    obs.extend([1, t.num_cols() as u64, t.num_rows() as u64, t.data().len() as u64]);
    obs.extend(t.data().iter().map(|x| x.val() as u64));
}

/// sub 0: From<TooDeeView> / From<TooDeeViewMut> of a window of a C x R array holding 0..C*R
pub fn emit_from_view(out: &mut Out, c: u64, r: u64, win: (u64, u64, u64, u64), mutable: bool) {
    let inp = vec![DBG as u64, 0, c, r, win.0, win.1, win.2, win.3, mutable as u64];
    if out.want_sample() { out.sample(&format!("C20 TooDee::from(view{} {:?} of {}x{})", if mutable { "_mut" } else { "" }, win, c, r)); }
    out.begin(20, 9, &inp);
    let mut t: TooDee<u32> = TooDee::from_vec(c as usize, r as usize, (0..(c * r) as u32).collect());
    let before = t.clone();
    let (s, e) = ((win.0 as usize, win.1 as usize), (win.2 as usize, win.3 as usize));
    let mut obs = vec![];
    let res = catch_unwind(AssertUnwindSafe(|| {
        let mut o: TooDee<u32> = if mutable { TooDee::from(t.view_mut(s, e)) } else { TooDee::from(t.view(s, e)) };
        put(&o, &mut obs);
        // independence: writing to the copy leaves the source untouched
        for x in o.data_mut() { *x += 1000; }
    }));
    if res.is_err() { obs.clear(); obs.push(0); } else { obs.push((t == before) as u64); }
    out.end(&obs);
}

/// sub 4: From<view> / From<view_mut> over drop-tracked elements whose k-th Clone panics
/// (C11): outcome, elements dropped twice, elements leaked
pub fn emit_from_view_fuse(out: &mut Out, prop: u32, c: u64, r: u64, win: (u64, u64, u64, u64), mutable: bool, k: u64) {
    let inp = vec![DBG as u64, 4, c, r, win.0, win.1, win.2, win.3, mutable as u64, k];
    if out.want_sample() { out.sample(&format!("C11 TooDee::from(view{} {:?} of {}x{}), Clone panics at call {}", if mutable { "_mut" } else { "" }, win, c, r, k)); }
    out.begin(prop, 9, &inp);
    ledger_reset();
    let mut t: TooDee<Tracked> = TooDee::from_vec(c as usize, r as usize, (0..(c * r) as u32).map(Tracked::new).collect());
    let (s, e) = ((win.0 as usize, win.1 as usize), (win.2 as usize, win.3 as usize));
    LEDGER.with(|l| l.borrow_mut().clone_panic_in = Some(k));
    let ok = catch_unwind(AssertUnwindSafe(|| {
        let o: TooDee<Tracked> = if mutable { TooDee::from(t.view_mut(s, e)) } else { TooDee::from(t.view(s, e)) };
        drop(o);
    })).is_ok();
    LEDGER.with(|l| l.borrow_mut().clone_panic_in = None);
    let obs = vec![ok as u64, ledger_double(), ledger_live().saturating_sub(t.data().len() as u64)];
    out.end(&obs);
    drop(t);
}

/// sub 1: equality and hashing of two arrays; `diff` = 0: same cells, k+1: cell k differs
pub fn emit_eq(out: &mut Out, c1: u64, r1: u64, c2: u64, r2: u64, diff: u64) {
    let inp = vec![DBG as u64, 1, c1, r1, c2, r2, diff];
    if out.want_sample() { out.sample(&format!("C20 {}x{} == {}x{} (diff {})", c1, r1, c2, r2, diff)); }
    out.begin(20, 9, &inp);
    let a: TooDee<u32> = TooDee::from_vec(c1 as usize, r1 as usize, (0..(c1 * r1) as u32).collect());
    // b reaches its contents by a different history: built larger, then a row removed
    let mut d2: Vec<u32> = (0..(c2 * r2) as u32).collect();
    if diff > 0 && (diff - 1) < c2 * r2 { d2[(diff - 1) as usize] += 500; }
    let mut b: TooDee<u32> = TooDee::from_vec(c2 as usize, r2 as usize, d2);
    if c2 > 0 { b.push_row((0..c2 as u32).map(|x| 9000 + x)); let _ = b.pop_row(); }
    let eq = a == b;
    let mut cl = a.clone();
    let cl_eq = cl == a && hash_of(&cl) == hash_of(&a);
    for x in cl.data_mut() { *x += 1; }
    let indep = a.data().iter().enumerate().all(|(i, x)| *x == i as u32);
    let obs = vec![eq as u64, (eq && hash_of(&a) == hash_of(&b)) as u64, cl_eq as u64, indep as u64];
    out.end(&obs);
}

/// sub 3: equality over an element type whose equality is not reflexive (f64 with a NaN in
/// cell `nan - 1`; 0 = no NaN): the same object, `!=`, a clone, a rebuilt copy
pub fn emit_eq_float(out: &mut Out, c: u64, r: u64, nan: u64) {
    let inp = vec![DBG as u64, 3, c, r, nan];
    if out.want_sample() { out.sample(&format!("C20 f64 {}x{} == itself, NaN at {}", c, r, nan)); }
    out.begin(20, 9, &inp);
    let mut d: Vec<f64> = (0..c * r).map(|i| i as f64).collect();
    if nan > 0 && nan <= c * r { d[(nan - 1) as usize] = f64::NAN; }
    let a: TooDee<f64> = TooDee::from_vec(c as usize, r as usize, d.clone());
    let b: TooDee<f64> = TooDee::from_vec(c as usize, r as usize, d);
    let same = { let x = &a; let y = &a; x == y };
    let ne = { let x = &a; let y = &a; x != y };
    let cl = a.clone();
    let obs = vec![same as u64, ne as u64, (a == cl) as u64, (a == b) as u64];
    out.end(&obs);
}

/// sub 2: a constructor with the given arguments, then every conversion out of the array.
/// via: 0 from_vec, 1 from_box, 2 new, 3 init (value 7)
pub fn emit_ctor<T: Elem>(out: &mut Out, via: u64, c: u64, r: u64, len: u64) {
    let inp = vec![DBG as u64, 2, via, c, r, len, T::TRACK as u64];
    if out.want_sample() { out.sample(&format!("C20 constructor {} ({}, {}) buffer {}", via, c, r, len)); }
    out.begin(20, 9, &inp);
    ledger_reset();
    let mut obs = vec![];
    let (cu, ru) = (c as usize, r as usize);
    let res = catch_unwind(AssertUnwindSafe(|| {
        let mk = |n: u64| -> Vec<T> { (0..n as u32).map(T::mk).collect() };
        let t: TooDee<T> = match via {
            0 => TooDee::from_vec(cu, ru, mk(len)),
            1 => TooDee::from_box(cu, ru, mk(len).into_boxed_slice()),
            2 => TooDee::new(cu, ru),
            _ => TooDee::init(cu, ru, T::mk(7)),
        };
        put(&t, &mut obs);
        let vals: Vec<u32> = t.data().iter().map(|x| x.val()).collect();
        let mut ok = true;
        // Vec::from, into_boxed_slice, into_iter: the same cells in row-major order
        let t2 = t.clone();
        let v: Vec<T> = t2.into();
        ok &= v.iter().map(|x| x.val()).collect::<Vec<u32>>() == vals;
        let b: Box<[T]> = TooDee::from_vec(cu, ru, v).into();
        ok &= b.iter().map(|x| x.val()).collect::<Vec<u32>>() == vals;
        let t3 = TooDee::from_box(cu, ru, b);
        ok &= t3 == t;
        ok &= t3.into_iter().map(|x| x.val()).collect::<Vec<u32>>() == vals;
        ok &= (&t).into_iter().map(|x| x.val()).collect::<Vec<u32>>() == vals;
        obs.push(ok as u64);
    }));
    if res.is_err() { obs.clear(); obs.push(0); }
    // everything created is dropped exactly once, accepted or rejected
    if T::TRACK { obs.push(ledger_live()); obs.push(ledger_double()); } else { obs.extend([0, 0]); }
    out.end(&obs);
}

pub fn replay(out: &mut Out, prop: u32, inp: &[u64]) {
    match inp[1] {
        0 => emit_from_view(out, inp[2], inp[3], (inp[4], inp[5], inp[6], inp[7]), inp[8] != 0),
        1 => emit_eq(out, inp[2], inp[3], inp[4], inp[5], inp[6]),
        3 => emit_eq_float(out, inp[2], inp[3], inp[4]),
        4 => emit_from_view_fuse(out, prop, inp[2], inp[3], (inp[4], inp[5], inp[6], inp[7]), inp[8] != 0, inp[9]),
        _ => if inp[6] != 0 { emit_ctor::<Tracked>(out, inp[2], inp[3], inp[4], inp[5]) } else { emit_ctor::<u32>(out, inp[2], inp[3], inp[4], inp[5]) },
    }
}

const BIG: [u64; 4] = [u64::MAX, u64::MAX / 2 + 1, 1 << 32, 1 << 63];

/// C11: From<view> with the k-th Clone panicking, every window of small parents, every k
pub fn gen_c11_from_view(out: &mut Out, prop: u32, tier: &str) {
    let pmax = if tier == "quick" { 3 } else { 4 };
    for c in 0..=pmax { for r in 0..=pmax {
        if (c == 0) != (r == 0) { continue; }
        for s0 in 0..=c { for e0 in s0..=c + 1 { for s1 in 0..=r { for e1 in s1..=r + 1 {
            let area = if e0 <= c && e1 <= r { (e0 - s0) * (e1 - s1) } else { 0 };
            let ks: Vec<u64> = if prop == 11 { (0..area).collect() } else { vec![area, area + 1] };
            for k in ks { for m in [false, true] { emit_from_view_fuse(out, prop, c, r, (s0, s1, e0, e1), m, k); } }
        } } } }
    } }
}

pub fn gen_c20(out: &mut Out, tier: &str, rng: &mut Rng) {
    let small = if tier == "quick" { 4 } else { 6 };
    let dims: Vec<u64> = (0..=small).chain(BIG).collect();
    // equality where the element's own equality is not reflexive
    for c in 0..=small { for r in 0..=small { if (c == 0) == (r == 0) { for nan in 0..=c * r + 1 { emit_eq_float(out, c, r, nan); } } } }
    // constructors: every dimension pair x buffer lengths around the product
    for &c in &dims { for &r in &dims {
        let p = (c as u128) * (r as u128);
        let lens: Vec<u64> = if p <= 64 { let p = p as u64; vec![p, p + 1, p.saturating_sub(1), 0] } else { vec![0, 3] };
        for &len in &lens {
            for via in [0, 1] { emit_ctor::<u32>(out, via, c, r, len); emit_ctor::<Tracked>(out, via, c, r, len); }
        }
        // new / init allocate the product: only where it is small or the call must panic
        let one_zero = (c == 0) != (r == 0);
        if p <= 64 || p >= (1u128 << 64) || one_zero {
            for via in [2, 3] { emit_ctor::<u32>(out, via, c, r, 0); emit_ctor::<Tracked>(out, via, c, r, 0); }
        }
        // the view constructors over a slice (family 4)
        let slens: Vec<u64> = if p <= 64 { let p = p as u64; vec![p.saturating_sub(1), p, p + 1, p + 5, 0] } else { vec![0, 7] };
        for slen in slens { for m in [false, true] { geom::emit_new(out, 20, m, c, r, slen); } }
    } }
    // From<view> / From<view_mut>: every window of every parent
    let pmax = if tier == "quick" { 4 } else { 6 };
    for c in 0..=pmax { for r in 0..=pmax {
        if (c == 0) != (r == 0) { continue; }
        for s0 in 0..=c + 1 { for e0 in 0..=c + 1 { for s1 in 0..=r + 1 { for e1 in 0..=r + 1 {
            let valid = s0 <= e0 && s1 <= e1 && e0 <= c && e1 <= r;
            if !valid && (tier == "quick") && rng.below(4) != 0 { continue; }
            for m in [false, true] { emit_from_view(out, c, r, (s0, s1, e0, e1), m); }
        } } } }
    } }
    // equality / hash / clone: same cells in different shapes, one differing cell
    let emax = if tier == "quick" { 4 } else { 6 };
    let mut shapes = vec![(0u64, 0u64)];
    for c in 1..=emax { for r in 1..=emax { shapes.push((c, r)); } }
    for &(c1, r1) in &shapes { for &(c2, r2) in &shapes {
        if c1 * r1 != c2 * r2 && rng.below(3) != 0 { continue; }
        emit_eq(out, c1, r1, c2, r2, 0);
        if (c1, r1) == (c2, r2) { for k in 0..c1 * r1 { emit_eq(out, c1, r1, c2, r2, k + 1); } }
    } }
    // the history machine on constructor-heavy histories (from_vec / new / init with edge
    // dimensions followed by conversions)
    let n = if tier == "quick" { 600 } else { 20000 };
    for i in 0..n {
        let hl = 1 + rng.below(5) as usize;
        let mut ops = hist::rand_history(rng, hl, true, false);
        ops.retain(|o| matches!(o, hist::Op::FromVec(..) | hist::Op::New(..) | hist::Op::Init(..) | hist::Op::Default
            | hist::Op::CloneArr | hist::Op::IntoVec | hist::Op::IntoIter(..) | hist::Op::PushRow(..) | hist::Op::PushCol(..)));
        ops.push(hist::Op::IntoVec);
        ops.push(hist::Op::DropArr);
        hist::emit(out, 20, i % 2 == 0, &ops);
    }
}
