(* Correspondence driver: replays every case the Rust harness recorded through the model
   extracted from the Coq development (gen/model.ml) and evaluates the extracted oracle on
   the implementation's observation.  Glue only: parsing, integer conversion, counting.
   usage: driver <cases-file> <failures-out> [max-failures-recorded] *)

open Model

let rec pos_of_z (z : Z.t) : positive =
  if Z.equal z Z.one then XH
  else if Z.testbit z 0 then XI (pos_of_z (Z.shift_right z 1))
  else XO (pos_of_z (Z.shift_right z 1))

let n_of_z (z : Z.t) : n = if Z.sign z = 0 then N0 else Npos (pos_of_z z)

let rec z_of_pos (p : positive) : Z.t =
  match p with
  | XH -> Z.one
  | XO q -> Z.shift_left (z_of_pos q) 1
  | XI q -> Z.succ (Z.shift_left (z_of_pos q) 1)

let z_of_n (x : n) : Z.t = match x with N0 -> Z.zero | Npos p -> z_of_pos p

(* small cache: most integers in a case are tiny *)
let cache : n array = Array.init 4096 (fun i -> n_of_z (Z.of_int i))

let n_of_string (s : string) : n =
  match int_of_string_opt s with
  | Some i when i >= 0 && i < 4096 -> cache.(i)
  | _ -> n_of_z (Z.of_string s)

let ints_of_section (s : string) : n list =
  String.split_on_char ' ' s
  |> List.filter (fun t -> t <> "")
  |> List.map n_of_string

let string_of_nlist (l : n list) : string =
  String.concat " " (List.map (fun x -> Z.to_string (z_of_n x)) l)

let () =
  let file = Sys.argv.(1) in
  let fout = open_out Sys.argv.(2) in
  let dump = Array.length Sys.argv > 3 && Sys.argv.(3) = "dump" in
  let maxrec = if Array.length Sys.argv > 3 && not dump then int_of_string Sys.argv.(3) else 20 in
  let ic = open_in file in
  let total = ref 0 and corr_fail = ref 0 and oracle_fail = ref 0 and crash = ref 0
  and bad = ref 0 and recorded = ref 0 and rec_corr = ref 0 in
  (try
     while true do
       let line = input_line ic in
       if String.length line > 0 && line.[0] <> '#' then begin
         incr total;
         match String.split_on_char '|' line with
         | [_; _; obs] when String.trim obs = "" ->
             (* the harness died while running this case *)
             incr crash;
             if !recorded < maxrec then begin
               incr recorded;
               Printf.fprintf fout "CRASH\nCASE %s\n" line
             end
         | [hd; inp; _] when dump ->
             (* dump mode: one line per case with the extracted model's prediction *)
             (match ints_of_section hd with
              | _ :: fam :: _ -> Printf.fprintf fout "%s\n" (string_of_nlist (model fam (ints_of_section inp)))
              | _ -> incr bad)
         | [hd; inp; obs] ->
             (match ints_of_section hd with
              | prop :: fam :: _ ->
                  let inp = ints_of_section inp and obs = ints_of_section obs in
                  let c = corr fam inp obs in
                  let o = oracle prop fam inp obs in
                  if not c then incr corr_fail;
                  if not o then incr oracle_fail;
                  (* separate quotas: failures of the correspondence alone must not crowd out
                     the cases on which the property itself fails *)
                  let take = if not o then (if !recorded < maxrec then (incr recorded; true) else false)
                             else if not c then (if !rec_corr < maxrec then (incr rec_corr; true) else false)
                             else false in
                  if take then begin
                    Printf.fprintf fout "%s %s\nCASE %s\nEXPECTED %s\n"
                      (if o then "ORACLE_OK" else "ORACLE_FAIL")
                      (if c then "CORR_OK" else "CORR_FAIL")
                      line (string_of_nlist (model fam inp))
                  end
              | _ -> incr bad)
         | [_; _] ->
             (* the harness died while running this case *)
             incr crash;
             if !recorded < maxrec then begin
               incr recorded;
               Printf.fprintf fout "CRASH\nCASE %s\n" line
             end
         | _ -> incr bad
       end
     done
   with End_of_file -> ());
  close_in ic; close_out fout;
  Printf.printf "{\"total\": %d, \"corr_fail\": %d, \"oracle_fail\": %d, \"crash\": %d, \"bad\": %d}\n"
    !total !corr_fail !oracle_fail !crash !bad
