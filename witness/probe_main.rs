use toodee::*;
use std::panic::{catch_unwind, AssertUnwindSafe};
fn p<R>(name:&str, f: impl FnOnce()->R) -> Option<R> where R: std::fmt::Debug {
    let r = catch_unwind(AssertUnwindSafe(f));
    match &r { Ok(v) => println!("{name}: Ok({v:?})"), Err(_) => println!("{name}: PANIC") }
    r.ok()
}
struct PanicIter{ n: usize, at: usize, i: usize }
impl Iterator for PanicIter { type Item=u32; fn next(&mut self)->Option<u32>{ if self.i==self.at {panic!("boom")} self.i+=1; Some(100+self.i as u32)} }
impl ExactSizeIterator for PanicIter { fn len(&self)->usize{self.n} }
impl DoubleEndedIterator for PanicIter { fn next_back(&mut self)->Option<u32>{ self.next() } }
fn main(){
    std::panic::set_hook(Box::new(|_|{}));
    let which = std::env::args().nth(1).unwrap_or("all".into());
    let all = which=="all";
    if all||which=="D1" { p("D1 new(5,0)", || TooDee::<u32>::new(5,0).size()); }
    if all||which=="D2" { p("D2 swap_rows(7,7) toodee", || { let mut t=TooDee::<u32>::new(3,3); t.swap_rows(7,7); });
      p("D2 swap_rows(7,7) viewmut", || { let mut t=TooDee::<u32>::new(3,3); t.view_mut((0,0),(2,2)).swap_rows(7,7); }); }
    if all||which=="D3" { p("D3 rows_mut nth_back(0)", || { let mut t=TooDee::from_vec(3,3,(0u32..9).collect()); t.rows_mut().nth_back(0).map(|r| r.to_vec()) });
      p("D3 rows_mut nth_back(1)", || { let mut t=TooDee::from_vec(3,3,(0u32..9).collect()); t.rows_mut().nth_back(1).map(|r| r.to_vec()) });
      p("D3 cells_mut nth_back(0)", || { let mut t=TooDee::from_vec(3,3,(0u32..9).collect()); t.cells_mut().nth_back(0).map(|r| *r) }); }
    if all||which=="D4" { p("D4 col_mut nth_back(0)", || { let mut t=TooDee::from_vec(3,3,(0u32..9).collect()); t.col_mut(1).nth_back(0).map(|r| *r) });
      p("D4 col_mut nth_back(1)", || { let mut t=TooDee::from_vec(3,3,(0u32..9).collect()); t.col_mut(1).nth_back(1).map(|r| *r) }); }
    if all||which=="D5" { p("D5 col(0)[1<<63] on 2x3", || { let t=TooDee::from_vec(2,3,(0u32..6).collect()); t.col(0)[1usize<<63] });
      p("D5 col_mut(0)[1<<63] on 2x3", || { let mut t=TooDee::from_vec(2,3,(0u32..6).collect()); t.col_mut(0)[1usize<<63] }); }
    if all||which=="D6" { p("D6 sort_by_col_key(0)", || { let mut t=TooDee::from_vec(2,3,vec![3u32,1,2,5,1,9]); t.sort_by_col_key(0,|x| *x); t.data().to_vec() });
      p("D6 sort_unstable_by_col_key(0)", || { let mut t=TooDee::from_vec(2,3,vec![3u32,1,2,5,1,9]); t.sort_unstable_by_col_key(0,|x| *x); t.data().to_vec() }); }
    if all||which=="D7" { p("D7 from_reader", || { let t=TooDee::from_vec(2,2,vec![1u32,2,3,4]); let s=serde_json::to_vec(&t).unwrap(); serde_json::from_reader::<_,TooDee<u32>>(&s[..]).map(|x| x==t).map_err(|e| e.to_string()) });
      p("D7 from_value", || { let t=TooDee::from_vec(2,2,vec![1u32,2,3,4]); let s=serde_json::to_value(&t).unwrap(); serde_json::from_value::<TooDee<u32>>(s).map(|x| x==t).map_err(|e| e.to_string()) });
      p("D7 from_str escaped key", || { serde_json::from_str::<TooDee<u32>>(r#"{"data":[1],"num_rows":1,"num_cols":1}"#).map(|x| x.size()).map_err(|e| e.to_string()) }); }
    if all||which=="D8" { p("D8 0x5 doc", || serde_json::from_str::<TooDee<u32>>(r#"{"data":[],"num_rows":5,"num_cols":0}"#).map(|x| x.size()).map_err(|e| e.to_string())); }
    if all||which=="D9" { 
      p("D9 viewmut.view((2,2),(2,2))", || { let mut t=TooDee::<u32>::new(3,3); let vm=t.view_mut((0,0),(2,2)); let v=vm.view((2,2),(2,2)); v.size() });
      p("D9 view((3,3),(3,3))", || { let t=TooDee::<u32>::new(3,3); t.view((3,3),(3,3)).size() });
      p("D9 view((1,3),(2,3))", || { let t=TooDee::<u32>::new(3,3); t.view((1,3),(2,3)).size() }); }
    if all||which=="D10" { p("D10 empty view copy_from_slice", || { let mut t=TooDee::<u32>::new(3,3); t.view_mut((1,1),(1,1)).copy_from_slice(&[]); });
      p("D10 empty view clone_from_slice", || { let mut t=TooDee::<u32>::new(3,3); t.view_mut((1,1),(1,1)).clone_from_slice(&[]); }); }
    if all||which=="D11" { p("D11 forget remove_row(0)", || { let mut t=TooDee::from_vec(3,3,(0u32..9).collect()); std::mem::forget(t.remove_row(0)); (t.size(), t.data().len()) });
      p("D11 forget remove_row(1) after next", || { let mut t=TooDee::from_vec(3,3,(0u32..9).collect()); let mut d=t.remove_row(1); d.next(); std::mem::forget(d); (t.size(), t.data().len()) });
      p("D11 forget remove_col(0)", || { let mut t=TooDee::from_vec(3,3,(0u32..9).collect()); std::mem::forget(t.remove_col(0)); (t.size(), t.data().len()) }); }
    if all||which=="D12" { 
      p("D12 insert_row panic iter", || { let mut t=TooDee::from_vec(3,3,(0u32..9).collect()); let _=catch_unwind(AssertUnwindSafe(|| t.insert_row(1, PanicIter{n:3,at:1,i:0}))); (t.size(), t.data().len()) });
      p("D12 insert_row panic iter on empty", || { let mut t=TooDee::<u32>::default(); let _=catch_unwind(AssertUnwindSafe(|| t.insert_row(0, PanicIter{n:3,at:1,i:0}))); (t.size(), t.data().len()) });
      p("D12 insert_col panic iter", || { let mut t=TooDee::from_vec(3,3,(0u32..9).collect()); let _=catch_unwind(AssertUnwindSafe(|| t.insert_col(1, PanicIter{n:3,at:1,i:0}))); (t.size(), t.data().len()) });
      p("D12 insert_col panic iter on empty", || { let mut t=TooDee::<u32>::default(); let _=catch_unwind(AssertUnwindSafe(|| t.insert_col(0, PanicIter{n:3,at:1,i:0}))); (t.size(), t.data().len()) });
      p("D12 insert_row usize::MAX len on empty", || { let mut t=TooDee::<u32>::default(); let _=catch_unwind(AssertUnwindSafe(|| t.insert_row(0, PanicIter{n:usize::MAX,at:1,i:0}))); (t.size(), t.data().len()) });
      p("D12 insert_row short iter", || { let mut t=TooDee::from_vec(3,3,(0u32..9).collect()); let _=catch_unwind(AssertUnwindSafe(|| t.insert_row(1, PanicIter{n:3,at:9,i:0}.take(2)))); (t.size(), t.data().len()) });
    }
    // D14 (release builds): the two destination assertions of copy_within added with `+`
    if all||which=="D14" {
      p("D14 copy_within zero-area source to (usize::MAX,0) returns", || { let mut t=TooDee::from_vec(4,3,(0u32..12).collect()); t.copy_within(((0,0),(2,0)),(usize::MAX,0)); t.data().to_vec() });
      p("D14 copy_within rows 0..2 to row usize::MAX: array after the panic", || { let mut t=TooDee::from_vec(4,3,(0u32..12).collect()); let _=catch_unwind(AssertUnwindSafe(|| t.copy_within(((0,0),(2,2)),(0,usize::MAX)))); t.data().to_vec() });
    }
}
