(** Prelude: outcomes, machine integers, list helpers, slice windows.
    Definitions only plus small generic lemmas; used by every model file. *)
From Coq Require Export List Arith NArith ZArith Lia Bool PeanoNat.
From Coq Require Export ZifyBool ZifyNat ZifyN.
Export ListNotations.

Ltac Zify.zify_post_hook ::= Z.div_mod_to_equations.

(** no witness caches: a build never depends on files left behind by an earlier one *)
#[global] Unset Lia Cache.
#[global] Unset Nia Cache.
#[global] Unset Nra Cache.

Global Arguments N.add : simpl never.
Global Arguments N.sub : simpl never.
Global Arguments N.mul : simpl never.
Global Arguments N.div : simpl never.
Global Arguments N.modulo : simpl never.
Global Arguments N.eqb : simpl never.
Global Arguments N.ltb : simpl never.
Global Arguments N.leb : simpl never.
Global Arguments N.pow : simpl never.
Global Arguments N.of_nat : simpl never.
Global Arguments N.to_nat : simpl never.

(** * Outcomes (DESIGN 2.1) *)
Inductive res (A : Type) : Type :=
| Ok (a : A)
| Panic
| UB.
Arguments Ok {A} a.
Arguments Panic {A}.
Arguments UB {A}.

Definition bind {A B} (r : res A) (f : A -> res B) : res B :=
  match r with Ok a => f a | Panic => Panic | UB => UB end.

Notation "x <- r ;; k" := (bind r (fun x => k))
  (at level 61, r at next level, right associativity).
Notation "' p <- r ;; k" := (bind r (fun x => let p := x in k))
  (at level 61, p pattern, r at next level, right associativity).

Definition assert (b : bool) : res unit := if b then Ok tt else Panic.
(** an unchecked precondition *)
Definition require (b : bool) : res unit := if b then Ok tt else UB.

Definition is_ok {A} (r : res A) : bool := match r with Ok _ => true | _ => false end.
Definition is_panic {A} (r : res A) : bool := match r with Panic => true | _ => false end.

(** * Machine integers: 64-bit usize (DESIGN 2.2) *)
Definition W : N := 18446744073709551616%N. (* 2^64 *)
Definition ISIZE_MAX : N := 9223372036854775807%N. (* 2^63 - 1 *)

Definition overflowing_mul (a b : N) : N * bool :=
  (((a * b) mod W)%N, (W <=? a * b)%N).
Definition checked_mul (a b : N) : option N :=
  if (a * b <? W)%N then Some (a * b)%N else None.
(** plain [+] on caller-supplied integers: panics with overflow checks on, wraps otherwise *)
Definition uadd (oc : bool) (a b : N) : res N :=
  if (a + b <? W)%N then Ok (a + b)%N else if oc then Panic else Ok ((a + b) mod W)%N.
(** [checked_add(..)] under an assertion: a sum that leaves 64 bits panics in either build mode *)
Definition cadd (a b : N) : res N := if (a + b <? W)%N then Ok (a + b)%N else Panic.
Definition umul (oc : bool) (a b : N) : res N :=
  if (a * b <? W)%N then Ok (a * b)%N else if oc then Panic else Ok ((a * b) mod W)%N.
(** subtraction of internal (buffer-derived) quantities: an underflow is a defect in
    either build mode (debug: overflow panic; release: wrapped length fed to unchecked
    code); the model classes it as [UB] so that every theorem must exclude it. *)
Definition usub (a b : nat) : res nat := if b <=? a then Ok (a - b) else UB.

(** * List helpers *)
Section Lists.
Context {A : Type}.

Fixpoint upd (i : nat) (x : A) (l : list A) : list A :=
  match l, i with
  | [], _ => []
  | _ :: t, 0 => x :: t
  | h :: t, S i' => h :: upd i' x t
  end.

Definition slice (a n : nat) (l : list A) : list A := firstn n (skipn a l).

(** overwrite [l] at position [a] with [xs] (requires the range to fit) *)
Definition splice (a : nat) (xs l : list A) : list A :=
  firstn a l ++ xs ++ skipn (a + length xs) l.

Fixpoint chunks (fuel c : nat) (l : list A) : list (list A) :=
  match fuel with
  | 0 => []
  | S f => firstn c l :: chunks f c (skipn c l)
  end.

Definition swap_idx (i j : nat) (l : list A) : list A :=
  match nth_error l i, nth_error l j with
  | Some x, Some y => upd j x (upd i y l)
  | _, _ => l
  end.

Fixpoint rotl1 (l : list A) : list A := match l with [] => [] | h :: t => t ++ [h] end.
Definition rotate_left (k : nat) (l : list A) : list A := skipn k l ++ firstn k l.

Fixpoint all_some (l : list (option A)) : option (list A) :=
  match l with
  | [] => Some []
  | Some x :: t => match all_some t with Some r => Some (x :: r) | None => None end
  | None :: _ => None
  end.

Fixpoint insert_at (i : nat) (x : A) (l : list A) : list A :=
  match i, l with
  | 0, _ => x :: l
  | S i', h :: t => h :: insert_at i' x t
  | S _, [] => [x]
  end.

Fixpoint remove_at (i : nat) (l : list A) : list A :=
  match i, l with
  | _, [] => []
  | 0, _ :: t => t
  | S i', h :: t => h :: remove_at i' t
  end.

End Lists.

(** * Slices are windows into a root buffer (DESIGN 2.3) *)
Record sl : Type := mkSl { off : nat; len : nat }.
Definition sl_empty : sl := mkSl 0 0.

Definition sl_is_empty (s : sl) : bool := len s =? 0.
(** checked [split_at] *)
Definition split_at (s : sl) (k : nat) : res (sl * sl) :=
  if k <=? len s then Ok (mkSl (off s) k, mkSl (off s + k) (len s - k)) else Panic.
(** [get_unchecked(a..)] *)
Definition get_from (s : sl) (a : nat) : res sl :=
  if a <=? len s then Ok (mkSl (off s + a) (len s - a)) else UB.
(** [get_unchecked(..b)] *)
Definition get_to (s : sl) (b : nat) : res sl :=
  if b <=? len s then Ok (mkSl (off s) b) else UB.
(** [get_unchecked(a..b)] *)
Definition get_range (s : sl) (a b : nat) : res sl :=
  if (a <=? b) && (b <=? len s) then Ok (mkSl (off s + a) (b - a)) else UB.
(** checked [&s[a..b]] *)
Definition index_range (s : sl) (a b : nat) : res sl :=
  if (a <=? b) && (b <=? len s) then Ok (mkSl (off s + a) (b - a)) else Panic.

Definition sl_eqb (a b : sl) : bool := (off a =? off b) && (len a =? len b).

(** * Small generic lemmas *)
Lemma upd_length {A} i (x : A) l : length (upd i x l) = length l.
Proof. revert i; induction l as [|h t IH]; intros [|i]; simpl; auto. Qed.

Lemma nth_error_upd_eq {A} i (x : A) l : i < length l -> nth_error (upd i x l) i = Some x.
Proof. revert i; induction l as [|h t IH]; intros [|i] H; simpl in *; try lia; auto. apply IH; lia. Qed.

Lemma nth_error_upd_neq {A} i j (x : A) l : i <> j -> nth_error (upd i x l) j = nth_error l j.
Proof.
  revert i j; induction l as [|h t IH]; intros [|i] [|j] H; simpl; auto; try congruence.
Qed.

Lemma slice_length {A} a n (l : list A) : a + n <= length l -> length (slice a n l) = n.
Proof. intros H. unfold slice. rewrite firstn_length, skipn_length. lia. Qed.

Lemma splice_length {A} a (xs l : list A) : a + length xs <= length l -> length (splice a xs l) = length l.
Proof. intros H. unfold splice. rewrite !app_length, firstn_length, skipn_length. lia. Qed.
