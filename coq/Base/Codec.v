(** Flat integer encoding of cases exchanged with the Rust harness: parsers over [list N].
    Definitions only. *)
From TD Require Import Base.Prelude.

Definition parser (X : Type) : Type := list N -> option (X * list N).

Definition p_ret {X} (x : X) : parser X := fun l => Some (x, l).
Definition p_bind {X Y} (p : parser X) (f : X -> parser Y) : parser Y :=
  fun l => match p l with Some (x, l') => f x l' | None => None end.
Definition p_fail {X} : parser X := fun _ => None.

Notation "x <~ p ;; k" := (p_bind p (fun x => k))
  (at level 61, p at next level, right associativity).

Definition p_N : parser N := fun l => match l with x :: t => Some (x, t) | [] => None end.
(** small naturals only (sizes of things that exist); refuses anything above 2^24 so that a
    caller-supplied huge integer is never converted to unary *)
Definition p_nat : parser nat :=
  x <~ p_N ;; if (x <? 16777216)%N then p_ret (N.to_nat x) else p_fail.
Definition p_bool : parser bool := x <~ p_N ;; p_ret (negb (x =? 0)%N).

Fixpoint p_rep {X} (p : parser X) (n : nat) : parser (list X) :=
  match n with
  | 0 => p_ret []
  | S n' => x <~ p ;; xs <~ p_rep p n' ;; p_ret (x :: xs)
  end.
Definition p_list {X} (p : parser X) : parser (list X) := n <~ p_nat ;; p_rep p n.
Definition p_opt {X} (p : parser X) : parser (option X) :=
  t <~ p_N ;; if (t =? 0)%N then p_ret None else x <~ p ;; p_ret (Some x).
(** [0] = None, [k+1] = Some k *)
Definition p_optnat : parser (option nat) :=
  t <~ p_nat ;; p_ret (match t with 0 => None | S k => Some k end).

Definition run_parser {X} (p : parser X) (l : list N) : option X :=
  match p l with Some (x, []) => Some x | _ => None end.

(** encoders *)
Definition e_nat (n : nat) : list N := [N.of_nat n].
Definition e_bool (b : bool) : list N := [if b then 1%N else 0%N].
Definition e_list {X} (e : X -> list N) (l : list X) : list N :=
  N.of_nat (length l) :: concat (map e l).
Definition e_opt {X} (e : X -> list N) (o : option X) : list N :=
  match o with None => [0%N] | Some x => 1%N :: e x end.
Definition e_Nlist (l : list N) : list N := e_list (fun x => [x]) l.
Definition e_natlist (l : list nat) : list N := e_list e_nat l.

Fixpoint list_N_eqb (a b : list N) : bool :=
  match a, b with
  | [], [] => true
  | x :: a', y :: b' => (x =? y)%N && list_N_eqb a' b'
  | _, _ => false
  end.

(** insertion sort on N (canonical order for multisets of dropped ids) *)
Fixpoint ins_N (x : N) (l : list N) : list N :=
  match l with
  | [] => [x]
  | y :: t => if (x <=? y)%N then x :: l else y :: ins_N x t
  end.
Definition sort_N (l : list N) : list N := fold_right ins_N [] l.

(** marker returned by a model when the case could not be decoded (harness/driver bug) *)
Definition BAD_CASE : list N := [999999%N].
