(** Extraction of the executable model and oracles to OCaml.
    Only [ExtrOcamlBasic] is used: bool, option, list, prod, unit map to OCaml's own types;
    [nat], [N], [positive] stay the extracted inductive types.  No [Extract Constant] or
    [Extract Inductive] directive of our own. *)
From TD Require Import Extract.Dispatch.
Require Import ExtrOcamlBasic.
Extraction Language OCaml.
Extraction "model.ml" model corr oracle.
