(** Entry points used by the correspondence driver: one model, one correspondence
    predicate and one oracle per case family.  Definitions only. *)
From TD Require Import Base.Prelude Base.Codec Model.Hist Spec.HistSpec Model.IterRun Spec.Ideal Model.GeomRun Spec.GeomSpec Model.OpsRun Spec.OpsSpec Model.Serde Model.Conv Spec.ConvSpec Model.BigIterRun Spec.BigIterSpec.

(** case families (which harness runner produced the case) *)
Definition FAM_HIST : N := 1.
Definition FAM_ZST : N := 2.
Definition FAM_ITER : N := 3.
Definition FAM_VIEW : N := 4.
Definition FAM_ACCESS : N := 5.
Definition FAM_OPS : N := 6.
Definition FAM_SERDE : N := 7.
Definition FAM_ROUNDTRIP : N := 8.
Definition FAM_CONV : N := 9.
Definition FAM_BIGITER : N := 10.

Definition model (fam : N) (inp : list N) : list N :=
  if (fam =? FAM_HIST)%N then hist_model inp
  else if (fam =? FAM_ZST)%N then zst_model inp
  else if (fam =? FAM_ITER)%N then iter_model inp
  else if (fam =? FAM_VIEW)%N then view_model inp
  else if (fam =? FAM_ACCESS)%N then access_model inp
  else if (fam =? FAM_OPS)%N then ops_model inp
  else if (fam =? FAM_SERDE)%N then serde_model inp
  else if (fam =? FAM_ROUNDTRIP)%N then roundtrip_model inp
  else if (fam =? FAM_CONV)%N then conv_model inp
  else if (fam =? FAM_BIGITER)%N then bigiter_model inp
  else BAD_CASE.

(** correspondence: the implementation's observation equals the model's prediction *)
Definition corr (fam : N) (inp obs : list N) : bool :=
  list_N_eqb (model fam inp) obs.

(** oracle: the property's conclusion evaluated on the implementation's observation *)
Definition oracle (prop fam : N) (inp obs : list N) : bool :=
  if (fam =? FAM_HIST)%N then
    if (prop =? 5)%N then oracle_ledger inp obs
    else if (prop =? 11)%N || (prop =? 12)%N then oracle_fault inp obs
    else oracle_hist_spec inp obs
  else if (fam =? FAM_ZST)%N then oracle_zst inp obs
  else if (fam =? FAM_ITER)%N then oracle_iter inp obs
  else if (fam =? FAM_VIEW)%N then oracle_view inp obs
  else if (fam =? FAM_ACCESS)%N then oracle_access inp obs
  else if (fam =? FAM_OPS)%N then oracle_ops inp obs
  else if (fam =? FAM_SERDE)%N then oracle_serde inp obs
  else if (fam =? FAM_ROUNDTRIP)%N then oracle_roundtrip inp obs
  else if (fam =? FAM_CONV)%N then oracle_conv inp obs
  else if (fam =? FAM_BIGITER)%N then oracle_bigiter inp obs
  else false.
