(** Oracles for families 4 and 5, from geometry alone.  Definitions only. *)
From TD Require Import Base.Prelude Base.Codec Model.View Model.GeomRun.

(** plain rectangle arithmetic on the C x R parent: (x0, y0, cols, rows) *)
Definition rect := (nat * nat * nat * nat)%type.

Definition sub_rect (p : rect) (l : vlevel) : option rect :=
  let '(x0, y0, nc, nr) := p in
  let '(s0, s1, e0, e1) := lv_win l in
  if (s0 <=? e0)%N && (s1 <=? e1)%N && (e0 <=? N.of_nat nc)%N && (e1 <=? N.of_nat nr)%N then
    let c := N.to_nat e0 - N.to_nat s0 in
    let r := N.to_nat e1 - N.to_nat s1 in
    if (c =? 0) || (r =? 0) then Some (0, 0, 0, 0)
    else Some (x0 + N.to_nat s0, y0 + N.to_nat s1, c, r)
  else None.

Fixpoint chain_rect (p : rect) (ls : list vlevel) (d : nat) : rect + nat :=
  match ls with
  | [] => inl p
  | l :: tl => match sub_rect p l with Some q => chain_rect q tl (S d) | None => inr d end
  end.

Definition rect_cells (stride : nat) (p : rect) : list nat :=
  let '(x0, y0, nc, nr) := p in
  flat_map (fun r => map (fun c => (y0 + r) * stride + x0 + c) (seq 0 nc)) (seq 0 nr).

Definition last_mut (ls : list vlevel) : bool :=
  match rev ls with l :: _ => lv_mut l | [] => false end.

Definition expected_view (inp : list N) : list N :=
  match inp with
  | _dbg :: sub :: rest =>
      if (sub =? 0)%N then
        match run_parser (C <~ p_nat ;; R <~ p_nat ;; ls <~ p_list p_level ;; p_ret (C, R, ls)) rest with
        | None => BAD_CASE
        | Some (C, R, ls) =>
            match chain_rect (0, 0, C, R) ls 0 with
            | inr d => [0%N; N.of_nat d]
            | inl q =>
                let '(_, _, nc, nr) := q in
                let cells := rect_cells C q in
                let b0 := map N.of_nat (seq 0 (C * R)) in
                [1%N; N.of_nat nc; N.of_nat nr] ++ e_natlist cells
                ++ (if last_mut ls then e_Nlist (fold_left bump cells b0) else [])
            end
        end
      else
        match run_parser (c <~ p_N ;; r <~ p_N ;; sl <~ p_nat ;; p_ret (c, r, sl)) rest with
        | None => BAD_CASE
        | Some (c, r, slen) =>
            if Bool.eqb (c =? 0)%N (r =? 0)%N && (c * r <? W)%N && (c * r <=? N.of_nat slen)%N then
              let cells := seq 0 (N.to_nat (c * r)) in
              [1%N; c; r] ++ e_natlist cells
              ++ (if (sub =? 2)%N then e_Nlist (fold_left bump cells (map N.of_nat (seq 0 slen))) else [])
            else [0%N; 0%N]
        end
  | _ => BAD_CASE
  end.

Definition oracle_view (inp obs : list N) : bool := list_N_eqb (expected_view inp) obs.

(** C02: in range, every accessor denotes the one cell (y0+r)*C + x0 + c; out of range every
    checked accessor panics *)
Definition expected_access (inp : list N) : list N :=
  match run_parser (dbg <~ p_bool ;; rk <~ p_nat ;; C <~ p_nat ;; R <~ p_nat ;;
                    w <~ p_level ;; c <~ p_N ;; r <~ p_N ;; p_ret (rk, C, R, w, c, r)) inp with
  | None => BAD_CASE
  | Some (rk, C, R, w, c, r) =>
      let outer := mkLevel true (1%N, 1%N, N.of_nat C, N.of_nat R) in
      let q : option rect :=
        match rk with
        | 0 => Some (0, 0, C, R)
        | 1 | 2 => sub_rect (0, 0, C, R) w
        | _ => match sub_rect (0, 0, C, R) outer with Some o => sub_rect o w | None => None end
        end in
      match q with
      | None => [0%N]
      | Some (x0, y0, nc, nr) =>
          let mutable := (rk =? 0) || (rk =? 2) || (rk =? 3) in
          if (c <? N.of_nat nc)%N && (r <? N.of_nat nr)%N then
            let i := N.of_nat ((y0 + N.to_nat r) * C + x0 + N.to_nat c) in
            1%N :: concat (repeat [1%N; i] ((if mutable then 6 else 3) + (if mutable then 4 else 2)))
          else
            1%N :: repeat 0%N (if mutable then 6 else 3)
      end
  end.

Definition oracle_access (inp obs : list N) : bool := list_N_eqb (expected_access inp) obs.
