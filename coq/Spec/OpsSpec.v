(** Oracle for family 6 from a position map on the rectangle: inside the window the new
    cell (c,r) holds what the operation's specification says; every cell outside the window
    is unchanged (C04); invalid arguments panic and change nothing.  Definitions only. *)
From TD Require Import Base.Prelude Base.Codec Model.View Model.GeomRun Model.Ops Model.OpsRun Spec.GeomSpec.

(** where the new content of window cell (c, r) comes from *)
Inductive source : Type :=
| FromCell (c r : nat)     (* the old content of window cell (c, r) *)
| Value (x : N).

Definition in_rect (x0 y0 x1 y1 : nat) (c r : nat) : bool :=
  (x0 <=? c) && (c <? x1) && (y0 <=? r) && (r <? y1).

(** [spec_map nc nr op] = None when the call must panic, Some f otherwise *)
Definition spec_map (nc nr : nat) (o : top) : option (nat -> nat -> source) :=
  let okc (c : N) := (c <? N.of_nat nc)%N in
  let okr (r : N) := (r <? N.of_nat nr)%N in
  match o with
  | OFill x => Some (fun _ _ => Value x)
  | OSwapRows r1 r2 =>
      if okr r1 && okr r2 then
        Some (fun c r => if r =? N.to_nat r1 then FromCell c (N.to_nat r2)
                         else if r =? N.to_nat r2 then FromCell c (N.to_nat r1) else FromCell c r)
      else None
  | OSwap c1 r1 c2 r2 =>
      if okc c1 && okc c2 && okr r1 && okr r2 then
        Some (fun c r =>
                if (c =? N.to_nat c1) && (r =? N.to_nat r1) then FromCell (N.to_nat c2) (N.to_nat r2)
                else if (c =? N.to_nat c2) && (r =? N.to_nat r2) then FromCell (N.to_nat c1) (N.to_nat r1)
                else FromCell c r)
      else None
  | OSwapCols c1 c2 =>
      if okc c1 && okc c2 then
        Some (fun c r => if c =? N.to_nat c1 then FromCell (N.to_nat c2) r
                         else if c =? N.to_nat c2 then FromCell (N.to_nat c1) r else FromCell c r)
      else None
  | ORowPair r1 r2 =>
      if okr r1 && okr r2 && negb (r1 =? r2)%N then Some (fun c r => FromCell c r) else None
  | OCopyFromSlice _ src =>
      if nc * nr =? length src then
        Some (fun c r => match nth_error src (r * nc + c) with Some x => Value x | None => FromCell c r end)
      else None
  | OCopyFromTooDee _ sc sr cells =>
      if (nc =? sc) && (nr =? sr) then
        Some (fun c r => match nth_error cells (r * nc + c) with Some x => Value x | None => FromCell c r end)
      else None
  | OCopyWithin x0 y0 x1 y1 dx dy =>
      if (x0 <=? x1)%N && (y0 <=? y1)%N && (x1 <=? N.of_nat nc)%N && (y1 <=? N.of_nat nr)%N
         && (dx + (x1 - x0) <=? N.of_nat nc)%N && (dy + (y1 - y0) <=? N.of_nat nr)%N then
        let '(x0, y0, x1, y1, dx, dy) :=
          (N.to_nat x0, N.to_nat y0, N.to_nat x1, N.to_nat y1, N.to_nat dx, N.to_nat dy) in
        Some (fun c r => if in_rect dx dy (dx + (x1 - x0)) (dy + (y1 - y0)) c r
                         then FromCell (c - dx + x0) (r - dy + y0) else FromCell c r)
      else None
  | OTranslate mc mr =>
      if (mc <=? N.of_nat nc)%N && (mr <=? N.of_nat nr)%N then
        Some (fun c r => FromCell ((c + N.to_nat mc) mod nc) ((r + N.to_nat mr) mod nr))
      else None
  | OFlipRows => Some (fun c r => FromCell c (nr - 1 - r))
  | OFlipCols => Some (fun c r => FromCell (nc - 1 - c) r)
  | OSort _ _ _ => None    (* decided relationally, below *)
  | OSortFuse _ _ _ _ _ => None
  | OCloneFuse td sc sr cells _ =>
      if (if td then (nc =? sc) && (nr =? sr) else (nc * nr =? length cells)) then
        Some (fun c r => match nth_error cells (r * nc + c) with Some x => Value x | None => FromCell c r end)
      else None
  | OSetCell c r x | OSetRowCell c r x =>
      if okc c && okr r then
        Some (fun c' r' => if (c' =? N.to_nat c) && (r' =? N.to_nat r) then Value x else FromCell c' r')
      else None
  end.

(** the rectangle of the receiver in the C-wide parent *)
Definition oc_rect (c : ocase) : option rect :=
  match oc_kind c with
  | 0 | 6 => Some (0, 0, oc_C c, oc_R c)
  | 4 => match sub_rect (0, 0, oc_C c, oc_R c)
                 (mkLevel true (1%N, 1%N, N.of_nat (oc_C c), N.of_nat (oc_R c))) with
         | Some o => sub_rect o (mkLevel true (oc_win c))
         | None => None
         end
  | 5 => match sub_rect (0, 0, oc_C c, oc_R c)
                 (mkLevel true (0%N, 0%N, N.of_nat (oc_C c - 1), N.of_nat (oc_R c - 1))) with
         | Some o => sub_rect o (mkLevel true (oc_win c))
         | None => None
         end
  | _ => sub_rect (0, 0, oc_C c, oc_R c) (mkLevel true (oc_win c))
  end.

Definition cell_idx (C : nat) (q : rect) (c r : nat) : nat :=
  let '(x0, y0, _, _) := q in (y0 + r) * C + x0 + c.

Definition coords (nc nr : nat) : list (nat * nat) :=
  flat_map (fun r => map (fun c => (c, r)) (seq 0 nc)) (seq 0 nr).

Definition expected_buf (C : nat) (q : rect) (f : nat -> nat -> source) (old : list N) : list N :=
  let '(_, _, nc, nr) := q in
  fold_left (fun b cr =>
               let '(c, r) := cr in
               let x := match f c r with
                        | Value x => Some x
                        | FromCell c' r' => nth_error old (cell_idx C q c' r')
                        end in
               match x with Some x => upd (cell_idx C q c r) x b | None => b end)
            (coords nc nr) old.

(** * sort: relational oracle *)
Definition line_cells (C : nat) (q : rect) (is_col : bool) (i : nat) : list nat :=
  let '(_, _, nc, nr) := q in
  if is_col then map (fun r => cell_idx C q i r) (seq 0 nr)
  else map (fun c => cell_idx C q c i) (seq 0 nc).

Definition nth_N (l : list N) (i : nat) : N := match nth_error l i with Some x => x | None => 0%N end.
Fixpoint sorted_by (key : N -> N) (l : list N) : bool :=
  match l with
  | x :: ((y :: _) as t) => (key x <=? key y)%N && sorted_by key t
  | _ => true
  end.
Fixpoint find_pos (x : N) (l : list N) (i : nat) : option nat :=
  match l with [] => None | y :: t => if (x =? y)%N then Some i else find_pos x t (S i) end.
Fixpoint nodup_nat (l : list nat) : bool :=
  match l with [] => true | x :: t => negb (existsb (Nat.eqb x) t) && nodup_nat t end.

(** the place of original line [i] after a STABLE sort, stated without any sorting
    algorithm: the number of lines that must precede it - those with a smaller key, and
    those with an equal key that stood before it *)
Definition rank_of (keys : list N) (i : nat) : nat :=
  let ki := nth_N keys i in
  length (filter (fun j => let kj := nth_N keys j in (kj <? ki)%N || ((kj =? ki)%N && (j <? i)))
                 (seq 0 (length keys))).

(** whole line [j] of [new] = whole line [i] of [old] *)
Definition line_eq (C : nat) (q : rect) (is_col : bool) (new old : list N) (j i : nat) : bool :=
  let '(_, _, nc, nr) := q in
  let other := if is_col then nc else nr in
  forallb (fun t =>
             let '(cj, rj, ci, ri) := if is_col then (t, j, t, i) else (j, t, i, t) in
             (nth_N new (cell_idx C q cj rj) =? nth_N old (cell_idx C q ci ri))%N)
          (seq 0 other).

(** stable variants: the result is determined - original line [i] stands at [rank_of i]
    (key cells may tie, and may be equal values: the lines are told apart by their place).
    Unstable variants: every line of the result is one original line intact, each original
    exactly once, keys in order; line [j] of the result comes from the original line that
    held its key cell (the generator keeps key cells of unstable cases distinct) *)
Definition sort_ok (C : nat) (q : rect) (var : nat) (line : nat) (old new : list N) : bool :=
  let is_col := sort_is_col var in
  let key := key_of (sort_by_key var) in
  let kc := line_cells C q is_col line in
  let old_keys := map (nth_N old) kc in
  let new_keys := map (nth_N new) kc in
  let n := length kc in
  if sort_is_stable var then
    forallb (fun i => line_eq C q is_col new old (rank_of (map key old_keys) i) i) (seq 0 n)
  else
  let origin := map (fun x => find_pos x old_keys 0) new_keys in
  sorted_by key new_keys
  && forallb (fun o => match o with Some _ => true | None => false end) origin
  && nodup_nat (map (fun o => match o with Some i => i | None => 0 end) origin)
  && forallb (fun j =>
        match nth_error origin j with
        | Some (Some i) => line_eq C q is_col new old j i
        | _ => false
        end) (seq 0 n).

Definition outside_unchanged (C : nat) (q : rect) (old new : list N) : bool :=
  let '(x0, y0, nc, nr) := q in
  (length old =? length new)
  && forallb (fun i =>
        let c := i mod C in let r := i / C in
        in_rect x0 y0 (x0 + nc) (y0 + nr) c r || (nth_N old i =? nth_N new i)%N)
      (seq 0 (length old)).

Definition oracle_ops (inp obs : list N) : bool :=
  match run_parser p_ocase inp with
  | None => false
  | Some c =>
      match oc_rect c with
      | None => false
      | Some q =>
          let '(x0, y0, nc, nr) := q in
          let old := oc_data c in
          if oc_zst c then
            (* zero-sized elements: the call returns exactly when its arguments are valid *)
            let valid := match oc_op c with
                         | OSort var line _ | OSortFuse var line _ _ _ =>
                             (line <? N.of_nat (if sort_is_col var then nc else nr))%N
                         | o => match spec_map nc nr o with Some _ => true | None => false end
                         end in
            list_N_eqb obs [if valid then 1%N else 0%N; N.of_nat (length old)]
          else
          match oc_op c with
          | OSort var line sigma =>
              let bound := if sort_is_col var then nc else nr in
              if (line <? N.of_nat bound)%N then
                match obs with
                | ok :: rest =>
                    match run_parser (p_list p_N) rest with
                    | Some new => (ok =? 1)%N && outside_unchanged (oc_C c) q old new
                                  && sort_ok (oc_C c) q var (N.to_nat line) old new
                    | None => false
                    end
                | [] => false
                end
              else list_N_eqb obs (0%N :: e_Nlist old)
          | OSortFuse var line _ fired sigma =>
              (* C11: when the comparator / key function panicked, every cell still holds an
                 element that was in the array - the cells are a permutation of the old ones -
                 and nothing outside the receiver moved; otherwise the sort's own contract *)
              let bound := if sort_is_col var then nc else nr in
              match obs with
              | ok :: rest =>
                  match run_parser (p_list p_N) rest with
                  | Some new =>
                      if fired then
                        (ok =? 0)%N && outside_unchanged (oc_C c) q old new
                        && list_N_eqb (sort_N old) (sort_N new)
                      else if (line <? N.of_nat bound)%N then
                        (ok =? 1)%N && outside_unchanged (oc_C c) q old new
                        && sort_ok (oc_C c) q var (N.to_nat line) old new
                      else (ok =? 0)%N && list_N_eqb new old
                  | None => false
                  end
              | [] => false
              end
          | OCloneFuse td sc sr cells kf =>
              (* obs: outcome, buffer, double drops, leaked elements *)
              match obs with
              | ok :: rest =>
                  match run_parser (nw <~ p_list p_N ;; d <~ p_N ;; l <~ p_N ;; p_ret (nw, d, l)) rest with
                  | Some (new, dbl, leaked) =>
                      match spec_map nc nr (OCloneFuse td sc sr cells kf) with
                      | None => (ok =? 0)%N && list_N_eqb new old && (dbl =? 0)%N && (leaked =? 0)%N
                      | Some f =>
                          if (kf <? N.of_nat (nc * nr))%N then
                            (* C11: the k-th Clone panicked: every cell holds an element that was in
                               the array or was supplied, nothing outside the receiver moved,
                               nothing is dropped twice; elements may be leaked *)
                            (ok =? 0)%N && outside_unchanged (oc_C c) q old new
                            && forallb (fun x => existsb (N.eqb x) (old ++ cells)) new && (dbl =? 0)%N
                          else
                            (ok =? 1)%N && list_N_eqb new (expected_buf (oc_C c) q f old)
                            && (dbl =? 0)%N && (leaked =? 0)%N
                      end
                  | None => false
                  end
              | [] => false
              end
          | o =>
              match spec_map nc nr o with
              | None => list_N_eqb obs (0%N :: e_Nlist old)
              | Some f =>
                  let extra :=
                    match o with
                    | ORowPair r1 r2 =>
                        [N.of_nat (cell_idx (oc_C c) q 0 (N.to_nat r1)); N.of_nat nc;
                         N.of_nat (cell_idx (oc_C c) q 0 (N.to_nat r2)); N.of_nat nc]
                    | _ => []
                    end in
                  list_N_eqb obs (1%N :: (if oc_big c then [] else extra) ++ e_Nlist (expected_buf (oc_C c) q f old))
              end
          end
      end
  end.
