(** Specification layer: plain rows-of-cells (DESIGN 5.1).  Definitions only. *)
From TD Require Import Base.Prelude.

Section Grid.
Context {A : Type}.

Definition grid := list (list A).

Definition g_height (g : grid) : nat := length g.
Definition g_width (g : grid) : nat := match g with [] => 0 | r :: _ => length r end.

Definition wf_grid (g : grid) : Prop :=
  g = [] \/ (0 < g_width g /\ Forall (fun r => length r = g_width g) g).

Definition wf_gridb (g : grid) : bool :=
  match g with
  | [] => true
  | r :: _ => (0 <? length r) && forallb (fun r' => length r' =? length r) g
  end.

Definition g_cells (g : grid) : list A := concat g.

Definition g_get (g : grid) (c r : nat) : option A :=
  match nth_error g r with Some row => nth_error row c | None => None end.

(** insertion of a row: accepted when [i <= height] and the row has the grid's width (any
    width when the grid is empty); an empty row into an empty grid leaves it empty *)
Definition g_insert_row (i : nat) (xs : list A) (g : grid) : option grid :=
  if negb (i <=? g_height g) then None
  else match g with
       | [] => Some (match xs with [] => [] | _ => [xs] end)
       | _ => if length xs =? g_width g then Some (insert_at i xs g) else None
       end.

Fixpoint map2 {X Y Z} (f : X -> Y -> Z) (l1 : list X) (l2 : list Y) : list Z :=
  match l1, l2 with
  | x :: t1, y :: t2 => f x y :: map2 f t1 t2
  | _, _ => []
  end.

Definition g_insert_col (i : nat) (xs : list A) (g : grid) : option grid :=
  if negb (i <=? g_width g) then None
  else match g with
       | [] => Some (map (fun x => [x]) xs)
       | _ => if length xs =? g_height g
              then Some (map2 (fun x row => insert_at i x row) xs g) else None
       end.

Definition g_remove_row (i : nat) (g : grid) : option (list A * grid) :=
  match nth_error g i with
  | None => None
  | Some row => Some (row, remove_at i g)
  end.

Definition g_col (i : nat) (g : grid) : list A :=
  flat_map (fun row => match nth_error row i with Some x => [x] | None => [] end) g.

Definition g_remove_col (i : nat) (g : grid) : option (list A * grid) :=
  if i <? g_width g then
    Some (g_col i g, if g_width g =? 1 then [] else map (remove_at i) g)
  else None.

Definition g_of_data (cols rows : nat) (d : list A) : grid := chunks rows cols d.

End Grid.
Arguments grid : clear implicits.
