(** Executable oracles for the history-based properties (C01, C05, C06, C07, C11, C12).
    They are evaluated on the *implementation's* observations; the same predicates are the
    conclusions of the theorems about the model.  Definitions only. *)
From TD Require Import Base.Prelude Base.Codec Spec.Grid Model.Owned Model.Hist.

(** one step as observed *)
Record sobs : Type := mkSObs {
  s_ok : bool;
  s_out : list N;
  s_cols : nat; s_rows : nat;
  s_data : list elt;
  s_dropped : list elt;
  s_rows_len : nat; s_cells_len : nat;
  s_col_lens : list nat;
  s_reads : list elt;
  s_zombies : nat; s_double : nat;
}.

Definition p_sobs : parser sobs :=
  ok <~ p_bool ;; out <~ p_list p_N ;; c <~ p_nat ;; r <~ p_nat ;;
  d <~ p_list p_N ;; dr <~ p_list p_N ;; rl <~ p_nat ;; cl <~ p_nat ;;
  cls <~ p_list p_nat ;; rd <~ p_list p_N ;; z <~ p_nat ;; dd <~ p_nat ;;
  p_ret (mkSObs ok out c r d dr rl cl cls rd z dd).

Definition p_hobs (n : nat) : parser (list sobs * nat) :=
  l <~ p_rep p_sobs n ;; lk <~ p_nat ;; p_ret (l, lk).

Fixpoint list_nat_eqb (a b : list nat) : bool :=
  match a, b with
  | [], [] => true
  | x :: a', y :: b' => (x =? y) && list_nat_eqb a' b'
  | _, _ => false
  end.

(** * Shape invariant of C01 as observed through the public API *)
Definition shape_ok (s : sobs) : bool :=
  (s_cols s * s_rows s =? length (s_data s))
  && Bool.eqb (s_cols s =? 0) (s_rows s =? 0)
  && (s_rows_len s =? s_rows s)
  && (s_cells_len s =? s_cols s * s_rows s)
  && list_nat_eqb (s_col_lens s) (repeat (s_rows s) (s_cols s))
  && list_N_eqb (s_reads s) (s_data s)
  && (s_zombies s =? 0) && (s_double s =? 0).

(** * The plain rows-of-cells model driven by the same history *)
Definition honest (s : iter_script elt) : bool :=
  (claimed s =? N.of_nat (length (items s)))%N
  && match panic_at s with None => true | Some _ => false end.

Definition fits_nat (x : N) : bool := (x <? 16777216)%N.

(** ideal double-ended sequence run of a drain script over a line *)
Fixpoint ideal_drain (steps : list drain_step) (rem : list elt) : list N :=
  match steps with
  | [] => []
  | DLen :: tl => [2%N; N.of_nat (length rem)] ++ ideal_drain tl rem
  | DFront :: tl =>
      match rem with
      | [] => [0%N] ++ ideal_drain tl rem
      | x :: rem' => [1%N; x] ++ ideal_drain tl rem'
      end
  | DBack :: tl =>
      match rev rem with
      | [] => [0%N] ++ ideal_drain tl rem
      | x :: r' => [1%N; x] ++ ideal_drain tl (rev r')
      end
  | DSkipFront :: tl => ideal_drain tl (match rem with [] => [] | _ :: rem' => rem' end)
  | DSkipBack :: tl => ideal_drain tl (match rev rem with [] => rem | _ :: r' => rev r' end)
  end.

Inductive expect : Type :=
| ExpGrid (ok : bool) (g : grid elt) (out : option (list N))  (* fully specified step *)
| ExpAny.                                                      (* outside the spec (faults) *)

Definition fin_is_drop (f : drain_end) : bool := match f with DropIt => true | ForgetIt => false end.

(** [g_step lim cap g o after]: what the plain model says about operation [o] on grid [g].
    [after] is the observed data after the step, used only to learn the identities that
    [T::default()] produced.  [lim]: arrays that [new] / [init] would make larger than this
    are not materialised by the run-time oracle (it passes 4096; the refinement theorem
    holds for every [lim]).  Every [N.to_nat] below is taken only after a comparison has
    shown the number to be at most a dimension or a length of the grid, so that evaluating
    the oracle never builds a huge unary number. *)
Fixpoint g_step (lim cap : N) (g : grid elt) (o : hop) (after : list elt) {struct o} : expect :=
  let unchanged := ExpGrid false g None in
  match o with
  | HBomb _ o' => g_step lim cap g o' after
  | HFromVec c r d =>
      if zero_rule_ok c r && (c * r =? N.of_nat (length d))%N
      then ExpGrid true (g_of_data (N.to_nat c) (N.to_nat r) d) None
      else unchanged
  | HNew c r =>
      if zero_rule_ok c r && (c * r <=? lim)%N && (c * r <=? cap)%N && (c * r <? W)%N
      then ExpGrid true (g_of_data (N.to_nat c) (N.to_nat r) after) None
      else if zero_rule_ok c r && (c * r <=? cap)%N && (c * r <? W)%N then ExpAny else unchanged
  | HInit c r v =>
      if zero_rule_ok c r && (c * r <=? lim)%N && (c * r <=? cap)%N && (c * r <? W)%N
      then ExpGrid true (g_of_data (N.to_nat c) (N.to_nat r) (repeat v (N.to_nat (c * r)))) None
      else if zero_rule_ok c r && (c * r <=? cap)%N && (c * r <? W)%N then ExpAny else unchanged
  | HDefault => ExpGrid true [] None
  | HInsertRow idx s =>
      if honest s then
        if (idx <=? N.of_nat (g_height g))%N then
          match g_insert_row (N.to_nat idx) (items s) g with
          | Some g' => ExpGrid true g' None
          | None => unchanged
          end
        else unchanged
      else ExpAny
  | HPushRow s =>
      if honest s then
        match g_insert_row (g_height g) (items s) g with
        | Some g' => ExpGrid true g' None
        | None => unchanged
        end
      else ExpAny
  | HInsertCol idx s =>
      if honest s then
        if (idx <=? N.of_nat (g_width g))%N then
          match g_insert_col (N.to_nat idx) (items s) g with
          | Some g' => ExpGrid true g' None
          | None => unchanged
          end
        else unchanged
      else ExpAny
  | HPushCol s =>
      if honest s then
        match g_insert_col (g_width g) (items s) g with
        | Some g' => ExpGrid true g' None
        | None => unchanged
        end
      else ExpAny
  | HRemoveRow idx steps fin =>
      if (idx <? N.of_nat (g_height g))%N then
        match g_remove_row (N.to_nat idx) g with
        | Some (line, g') =>
            if fin_is_drop fin then ExpGrid true g' (Some (ideal_drain steps line)) else ExpAny
        | None => unchanged
        end
      else unchanged
  | HPopRow steps fin =>
      match g with
      | [] => ExpGrid true g (Some [3%N])
      | _ =>
          match g_remove_row (g_height g - 1) g with
          | Some (line, g') =>
              if fin_is_drop fin then ExpGrid true g' (Some (ideal_drain steps line)) else ExpAny
          | None => ExpAny
          end
      end
  | HRemoveCol idx steps fin =>
      if (idx <? N.of_nat (g_width g))%N then
        match g_remove_col (N.to_nat idx) g with
        | Some (line, g') =>
            if fin_is_drop fin then ExpGrid true g' (Some (ideal_drain steps line)) else ExpAny
        | None => unchanged
        end
      else unchanged
  | HPopCol steps fin =>
      match g with
      | [] => ExpGrid true g (Some [3%N])
      | _ =>
          match g_remove_col (g_width g - 1) g with
          | Some (line, g') =>
              if fin_is_drop fin then ExpGrid true g' (Some (ideal_drain steps line)) else ExpAny
          | None => ExpAny
          end
      end
  | HClear => ExpGrid true [] None
  | HSwapDims => ExpGrid true (g_of_data (g_height g) (g_width g) (g_cells g)) None
  | HCapacity => ExpGrid true g None
  | HSetCell c r v =>
      if (c <? N.of_nat (g_width g))%N && (r <? N.of_nat (g_height g))%N then
        ExpGrid true (g_of_data (g_width g) (g_height g)
                        (upd (N.to_nat r * g_width g + N.to_nat c) v (g_cells g))) None
      else unchanged
  | HFill v => ExpGrid true (map (map (fun _ => v)) g) None
  | HClone => ExpGrid true g (Some [1%N])
  | HIntoVec => ExpGrid true g (Some (e_Nlist (g_cells g)))
  | HIntoIter k => ExpGrid true [] (Some (e_Nlist (firstn k (g_cells g))))
  | HDrop => ExpGrid true [] None
  (* a panicking Clone / Default: the plain model does not say which cells a partly
     completed fill has replaced; the shape rules are checked, the cells by C11's oracle *)
  | HFuse _ _ _ => ExpAny
  | HCloneFrom c r d =>
      if zero_rule_ok c r && (c * r =? N.of_nat (length d))%N
      then ExpGrid true (g_of_data (N.to_nat c) (N.to_nat r) d) (Some [1%N])
      else unchanged
  end.

Fixpoint grid_eqb (a b : grid elt) : bool :=
  match a, b with
  | [], [] => true
  | x :: a', y :: b' => list_N_eqb x y && grid_eqb a' b'
  | _, _ => false
  end.

Definition is_bomb (o : hop) : bool := match o with HBomb _ _ => true | _ => false end.

Definition obs_grid (s : sobs) : grid elt := g_of_data (s_cols s) (s_rows s) (s_data s).

(** every step: shape invariant; and, where the plain model specifies the step, the same
    acceptance, the same returned values and the same cells *)
(** a step with an armed Clone / Default fuse that completed is the plain step *)
Definition eff_op (o : hop) (s : sobs) : hop :=
  match o with HFuse _ _ o' => if s_ok s then o' else o | _ => o end.

Fixpoint spec_steps (lim cap : N) (g : grid elt) (ops : list hop) (obs : list sobs) : bool :=
  match ops, obs with
  | [], [] => true
  | o :: ops', s :: obs' =>
      shape_ok s
      && match g_step lim cap g (eff_op o s) (s_data s) with
         | ExpGrid ok g' out =>
             (* under an injected destructor panic the call may end in a (caught) panic and
                its return values are lost; the array must be the same nevertheless *)
             (is_bomb o || Bool.eqb (s_ok s) ok)
             && grid_eqb (obs_grid s) g'
             && (s_cols s =? g_width g') && (s_rows s =? g_height g')
             && match out with
                | Some l => (is_bomb o && negb (s_ok s)) || list_N_eqb (s_out s) l
                | None => true
                end
             && spec_steps lim cap g' ops' obs'
         | ExpAny => spec_steps lim cap (obs_grid s) ops' obs'
         end
  | _, _ => false
  end.

(** * Ledger: every element dropped exactly once *)
Fixpoint count_N (x : N) (l : list N) : nat :=
  match l with [] => 0 | y :: t => (if (x =? y)%N then 1 else 0) + count_N x t end.
(** [sub_multiset a b]: every value occurs in [a] at most as often as in [b] *)
Definition sub_multiset (a b : list N) : bool :=
  forallb (fun x => count_N x a <=? count_N x b) a.
Definition eq_multiset (a b : list N) : bool := list_N_eqb (sort_N a) (sort_N b).

Fixpoint introduced (o : hop) (before : list elt) (s : sobs) {struct o} : list elt :=
  match o with
  | HBomb _ o' => introduced o' before s
  | HFromVec _ _ d => d
  | HNew _ _ => if s_ok s then s_data s else []
  | HInit _ _ v => if s_ok s then repeat v (Nat.max 1 (length (s_data s))) else [v]
  | HInsertRow _ sc | HPushRow sc | HInsertCol _ sc | HPushCol sc => items sc
  | HSetCell _ _ v => [v]
  | HFill v => repeat v (Nat.max 1 (length before))
  | HClone => before
  | HCloneFrom _ _ d => if s_ok s then d ++ d else d
  | HFuse _ k o' =>
      match o' with
      | HInit _ _ v => if s_ok s then introduced o' before s else repeat v (S k)
      | HNew _ _ => if s_ok s then s_data s else s_dropped s
      | HCloneFrom _ _ d => d ++ d      (* the source and the clones made before the panic *)
      | _ => introduced o' before s
      end
  | _ => []
  end.

Fixpoint fault_free_op (o : hop) : bool :=
  match o with
  | HBomb _ o' => fault_free_op o'
  | HInsertRow _ s | HPushRow s | HInsertCol _ s | HPushCol s => honest s
  | HRemoveRow _ _ f | HPopRow _ f | HRemoveCol _ _ f | HPopCol _ f => fin_is_drop f
  | HFuse _ _ _ => false
  | _ => true
  end.

(** per step: nothing is duplicated or dropped twice
    ([after + dropped] is a sub-multiset of [before + introduced]); on fault-free steps
    nothing is lost either (equality) *)
Fixpoint ledger_steps (before : list elt) (ops : list hop) (obs : list sobs) : bool :=
  match ops, obs with
  | [], [] => true
  | o :: ops', s :: obs' =>
      let src := before ++ introduced o before s in
      let dst := s_data s ++ s_dropped s in
      (s_zombies s =? 0) && (s_double s =? 0)
      && (if fault_free_op o then eq_multiset dst src else sub_multiset dst src)
      && ledger_steps (s_data s) ops' obs'
  | _, _ => false
  end.

Definition all_fault_free (ops : list hop) : bool := forallb fault_free_op ops.

(** cells of the array after a faulted step are elements that were there before or were
    supplied (C11/C12) *)
Fixpoint subset_steps (before : list elt) (ops : list hop) (obs : list sobs) : bool :=
  match ops, obs with
  | [], [] => true
  | o :: ops', s :: obs' =>
      sub_multiset (s_data s) (before ++ introduced o before s)
      && subset_steps (s_data s) ops' obs'
  | _, _ => false
  end.

(** * The oracles, on encoded input and observation *)
Definition with_case (inp obs : list N)
  (k : hconf -> list hop -> list sobs -> nat -> bool) : bool :=
  match run_parser p_hist inp with
  | None => false
  | Some (cf, ops) =>
      match run_parser (p_hobs (length ops)) obs with
      | None => false
      | Some (so, leaked) => k cf ops so leaked
      end
  end.

(** C01, C06, C07: shape at every step and agreement with the plain model *)
Definition oracle_hist_spec (inp obs : list N) : bool :=
  with_case inp obs (fun cf ops so _ => spec_steps 4096 (cf_cap cf) [] ops so).

(** C05 *)
Definition oracle_ledger (inp obs : list N) : bool :=
  with_case inp obs (fun cf ops so leaked =>
    negb (cf_track cf)
    || (ledger_steps [] ops so && (if all_fault_free ops then leaked =? 0 else true))).

(** C11, C12: after faults the array is valid, holds only known elements, nothing is
    duplicated or dropped twice *)
Definition oracle_fault (inp obs : list N) : bool :=
  with_case inp obs (fun cf ops so _ =>
    forallb shape_ok so && subset_steps [] ops so
    && (negb (cf_track cf) || ledger_steps [] ops so)
    && spec_steps 4096 (cf_cap cf) [] ops so).

(** * Zero-sized elements (family 2): shape and count ledger *)
(** per step: shape rules on the counts; the number of live elements never falls below
    what the array owns (nothing is dropped while owned, nothing twice); the surplus
    [live - len] - elements leaked so far - never shrinks, and grows only at a step with a
    faulting iterator or a leaked drain; at the end (array dropped) exactly the surplus is
    still alive *)
Fixpoint zst_steps (surplus : N) (obs : list N) (ops : list hop) : bool :=
  match ops with
  | [] => match obs with [leaked] => (leaked =? surplus)%N | _ => false end
  | o :: ops' =>
      match obs with
      | ok :: c :: r :: l :: live :: rest =>
          (c * r =? l)%N && Bool.eqb (c =? 0)%N (r =? 0)%N && (l <=? live)%N
          && (if fault_free_op o then (live - l =? surplus)%N else (surplus <=? live - l)%N)
          && zst_steps (live - l) rest ops'
      | _ => false
      end
  end.

Definition oracle_zst (inp obs : list N) : bool :=
  match run_parser p_hist inp with
  | None => false
  | Some (cf, ops) =>
      zst_steps 0 obs ops
  end.
