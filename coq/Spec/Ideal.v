(** The ideal double-ended, exact-size sequence (DESIGN 5.4) and the expected observation
    of a family-3 case computed from it and from the receiver's geometry alone - no
    iterator code involved.  Definitions only. *)
From TD Require Import Base.Prelude Base.Codec Model.Iter Model.IterRun.

Section Ideal.
Context {X : Type}.

Definition i_next (l : list X) : option X * list X :=
  match l with [] => (None, []) | x :: t => (Some x, t) end.
Definition i_next_back (l : list X) : option X * list X :=
  match rev l with [] => (None, []) | x :: t => (Some x, rev t) end.
(** [nth(n)]: drop [n] elements, then pop; past the end the sequence becomes empty *)
Definition i_nth (n : N) (l : list X) : option X * list X :=
  if (N.of_nat (length l) <=? n)%N then (None, []) else i_next (skipn (N.to_nat n) l).
Definition i_nth_back (n : N) (l : list X) : option X * list X :=
  if (N.of_nat (length l) <=? n)%N then (None, [])
  else i_next_back (firstn (length l - N.to_nat n) l).
Definition i_index (i : N) (l : list X) : option X :=
  if (i <? N.of_nat (length l))%N then nth_error l (N.to_nat i) else None.

End Ideal.

(** rows / column / cells of the receiver, by geometry: the parent is a C x R owned array
    whose cell (c, r) is buffer index r*C + c; the receiver is the parent itself or the
    window [s0,e0) x [s1,e1) of it *)
Definition geom (c : icase) : nat * nat * nat * nat :=   (* x0, y0, cols, rows *)
  let '(s0, s1, e0, e1) := ic_win c in
  match ic_recv c with
  | 0 | 3 | 4 => (0, 0, ic_C c, ic_R c)
  | _ =>
      let nc := N.to_nat e0 - N.to_nat s0 in
      let nr := N.to_nat e1 - N.to_nat s1 in
      if (nc =? 0) || (nr =? 0) then (0, 0, 0, 0) else (N.to_nat s0, N.to_nat s1, nc, nr)
  end.
Definition window_ok (c : icase) : bool :=
  let '(s0, s1, e0, e1) := ic_win c in
  match ic_recv c with
  | 0 | 3 | 4 => true
  | _ => (s0 <=? e0)%N && (s1 <=? e1)%N && (e0 <=? N.of_nat (ic_C c))%N && (e1 <=? N.of_nat (ic_R c))%N
  end.

Definition ideal_rows (c : icase) : list sl :=
  let '(x0, y0, nc, nr) := geom c in
  map (fun r => mkSl ((y0 + r) * ic_C c + x0) nc) (seq 0 nr).
Definition ideal_col (c : icase) (ci : nat) : list nat :=
  let '(x0, y0, nc, nr) := geom c in
  map (fun r => (y0 + r) * ic_C c + x0 + ci) (seq 0 nr).
Definition ideal_cells (c : icase) : list nat :=
  flat_map (fun w => seq (off w) (len w)) (ideal_rows c).

Inductive iseq : Type := QRows (l : list sl) | QCells (l : list nat).

Definition ideal_call (q : iseq) (c : icall) : iyield * iseq :=
  match q, c with
  | QRows l, INext => let '(x, l') := i_next l in (YRow x, QRows l')
  | QRows l, INextBack => let '(x, l') := i_next_back l in (YRow x, QRows l')
  | QRows l, INth n => let '(x, l') := i_nth n l in (YRow x, QRows l')
  | QRows l, INthBack n => let '(x, l') := i_nth_back n l in (YRow x, QRows l')
  | QRows l, ILen => (YLen (length l), q)
  | QRows l, IIndex _ => (YLen 0, q)
  | QCells l, INext => let '(x, l') := i_next l in (YCell x, QCells l')
  | QCells l, INextBack => let '(x, l') := i_next_back l in (YCell x, QCells l')
  | QCells l, INth n => let '(x, l') := i_nth n l in (YCell x, QCells l')
  | QCells l, INthBack n => let '(x, l') := i_nth_back n l in (YCell x, QCells l')
  | QCells l, ILen => (YLen (length l), q)
  | QCells l, IIndex i =>
      (YIdx (match i_index i l with Some x => Ok x | None => Panic end), q)
  end.

Definition ideal_term (q : iseq) (t : iterm) : list N :=
  match t with
  | TNone => []
  | TCount => [N.of_nat (match q with QRows l => length l | QCells l => length l end)]
  | TLast =>
      match q with
      | QRows l => enc_yield (YRow (fst (i_next_back l)))
      | QCells l => enc_yield (YCell (fst (i_next_back l)))
      end
  | TFold =>
      match q with
      | QRows l => e_list (fun w => [N.of_nat (off w); N.of_nat (len w)]) l
      | QCells l => e_natlist l
      end
  | TRfold =>
      match q with
      | QRows l => e_list (fun w => [N.of_nat (off w); N.of_nat (len w)]) (rev l)
      | QCells l => e_natlist (rev l)
      end
  end.

Fixpoint ideal_calls (mutable : bool) (k : nat) (q : iseq) (cs : list icall) (b : list N)
  : list N * iseq * list N :=
  match cs with
  | [] => ([], q, b)
  | c :: tl =>
      let '(y, q') := ideal_call q c in
      let b' := if mutable then apply_mark k y b else b in
      let '(o, q'', b'') := ideal_calls mutable (S k) q' tl b' in
      (enc_yield y ++ o, q'', b'')
  end.

(** expected observation of a whole case *)
Definition ideal_output (c : icase) : list N :=
  if negb (window_ok c) then [0%N]
  else
    let '(_, _, nc, _) := geom c in
    let start : option iseq :=
      match ic_kind c with
      | ItRows => Some (QRows (ideal_rows c))
      | ItCells => Some (QCells (ideal_cells c))
      | ItCol => if (ic_col c <? N.of_nat nc)%N
                 then Some (QCells (ideal_col c (N.to_nat (ic_col c)))) else None
      end in
    match start with
    | None => [0%N]      (* col(c) with c out of range panics *)
    | Some q0 =>
        let spare := match ic_recv c with 3 | 4 => N.to_nat (fst (fst (fst (ic_win c)))) | _ => 0 end in
        let b0 := map N.of_nat (seq 0 (ic_C c * ic_R c + spare)) in
        let '(o, q, b) := ideal_calls (ic_mut c) 0 q0 (ic_calls c) b0 in
        1%N :: o ++ ideal_term q (match ic_kind c, ic_term c with
                                   | ItCol, TRfold => TFold
                                   | _, t => t end)
            ++ (if ic_mut c then e_Nlist b else [])
    end.

Definition oracle_iter (inp obs : list N) : bool :=
  match run_parser p_icase inp with
  | None => false
  | Some c => list_N_eqb (ideal_output c) obs
  end.
