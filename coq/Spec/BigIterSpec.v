(** Oracle for family 10: the ideal double-ended exact-size sequence of [L] items, kept as
    two counters - how many were taken from the front and from the back.  No windows, no
    strides, no multiplication that could overflow: the answers of C08 / C09 as arithmetic
    on the remaining count. *)
From TD Require Import Base.Prelude Base.Codec Model.IterRun Model.BigIterRun.
Local Open Scope N_scope.

(** the receiver's dimensions, [None] when constructing it must panic *)
Definition ideal_dims (c : bcase) : option (N * N) :=
  let '(s0, s1, e0, e1) := bc_win c in
  match bc_recv c with
  | 0%nat => Some (bc_C c, bc_R c)
  | _ =>
      if (s0 <=? e0) && (e0 <=? bc_C c) && (s1 <=? e1) && (e1 <=? bc_R c) then
        let nc := e0 - s0 in let nr := e1 - s1 in
        if (nc =? 0) || (nr =? 0) then Some (0, 0) else Some (nc, nr)
      else None
  end.

(** one call on the ideal sequence of [L] items each reported as [item] *)
Definition ideal_call (L : N) (item : list N) (is_col : bool) (fb : N * N) (c : icall) : list N * (N * N) :=
  let '(f, b) := fb in
  let rem := L - f - b in
  match c with
  | INext => if 0 <? rem then (1 :: item, (f + 1, b)) else ([0], fb)
  | INextBack => if 0 <? rem then (1 :: item, (f, b + 1)) else ([0], fb)
  | INth n => if n <? rem then (1 :: item, (f + n + 1, b)) else ([0], (L - b, b))
  | INthBack n => if n <? rem then (1 :: item, (f, b + n + 1)) else ([0], (f, L - f))
  | ILen => ([rem], fb)
  | IIndex i => if is_col then ((if i <? rem then [1] else [0]), fb) else ([0], fb)
  end.

Fixpoint ideal_calls (L : N) (item : list N) (is_col : bool) (fb : N * N) (cs : list icall) : list N * (N * N) :=
  match cs with
  | [] => ([], fb)
  | c :: tl =>
      let '(o, fb') := ideal_call L item is_col fb c in
      let '(o', fb'') := ideal_calls L item is_col fb' tl in
      (o ++ o', fb'')
  end.

Definition ideal_big_output (c : bcase) : list N :=
  match ideal_dims c with
  | None => [0]
  | Some (nc, nr) =>
      let is_cells := (bc_kind c =? 2)%nat in
      let is_col := negb (bc_kind c =? 0)%nat in
      if is_col && negb is_cells && negb (bc_col c <? nc) then [0]
      else
        (* rows: nr items reported with their width; a column: nr cells; cells(): nc * nr cells *)
        let item := if is_col then [] else [nc] in
        let L := if is_cells then nc * nr else nr in
        let '(o, (f, b)) := ideal_calls L item is_col (0, 0) (bc_calls c) in
        let rem := L - f - b in
        1 :: o ++ (match bc_term c with
                   | 0%nat => [rem]
                   | 1%nat => if 0 <? rem then 1 :: item else [0]
                   | _ => []
                   end)
  end.

Definition oracle_bigiter (inp obs : list N) : bool :=
  match run_parser p_bcase inp with
  | None => false
  | Some c => list_N_eqb (ideal_big_output c) obs
  end.
