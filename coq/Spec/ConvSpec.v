(** Oracle for family 9 (C20), from the statement of the property alone: a constructor
    accepts exactly the consistent arguments and the array then holds the buffer / the
    default or given value / the viewed cells in row-major order; conversions out return
    the same cells; equality is equality of dimensions and cells; equal arrays hash equal;
    clones are equal and independent; everything is dropped exactly once. *)
From TD Require Import Base.Prelude Base.Codec Model.View Model.GeomRun Model.Conv Spec.GeomSpec.

Definition ctor_accepts (via : nat) (c r : N) (l : nat) : bool :=
  Bool.eqb (c =? 0)%N (r =? 0)%N && (c * r <? W)%N
  && match via with 0 | 1 => (c * r =? N.of_nat l)%N | _ => true end.

Definition oracle_conv (inp obs : list N) : bool :=
  match inp with
  | _dbg :: sub :: rest =>
      if (sub =? 0)%N then
        match run_parser (C <~ p_nat ;; R <~ p_nat ;; s0 <~ p_N ;; s1 <~ p_N ;; e0 <~ p_N ;; e1 <~ p_N ;;
                          m <~ p_bool ;; p_ret (C, R, (s0, s1, e0, e1), m)) rest with
        | None => false
        | Some (C, R, w, m) =>
            match sub_rect (0, 0, C, R) (mkLevel m w) with
            | None => list_N_eqb obs [0%N]
            | Some q =>
                let '(_, _, nc, nr) := q in
                list_N_eqb obs ([1%N; N.of_nat nc; N.of_nat nr]
                                ++ e_Nlist (map N.of_nat (rect_cells C q)) ++ [1%N])
            end
        end
      else if (sub =? 1)%N then
        match run_parser (c1 <~ p_nat ;; r1 <~ p_nat ;; c2 <~ p_nat ;; r2 <~ p_nat ;; d <~ p_nat ;;
                          p_ret (c1, r1, c2, r2, d)) rest with
        | None => false
        | Some (c1, r1, c2, r2, d) =>
            let same := (c1 =? c2) && (r1 =? r2) && ((d =? 0) || (c2 * r2 <? d)) in
            let e := if same then 1%N else 0%N in
            list_N_eqb obs [e; e; 1%N; 1%N]
        end
      else if (sub =? 4)%N then
        (* C11 for From<view>: a panicking Clone leaves nothing dropped twice (what was cloned
           so far may be leaked); without a panic nothing is leaked either *)
        match run_parser (C <~ p_nat ;; R <~ p_nat ;; s0 <~ p_N ;; s1 <~ p_N ;; e0 <~ p_N ;; e1 <~ p_N ;;
                          m <~ p_bool ;; k <~ p_N ;; p_ret (C, R, (s0, s1, e0, e1), m, k)) rest with
        | None => false
        | Some (C, R, w, m, k) =>
            match sub_rect (0, 0, C, R) (mkLevel m w) with
            | None => list_N_eqb obs [0%N; 0%N; 0%N]
            | Some (_, _, nc, nr) =>
                if (k <? N.of_nat (nc * nr))%N then
                  match obs with [ok; dbl; _] => (ok =? 0)%N && (dbl =? 0)%N | _ => false end
                else list_N_eqb obs [1%N; 0%N; 0%N]
            end
        end
      else if (sub =? 3)%N then
        (* "equal exactly when dimensions and cells are equal": with a NaN cell the cells are
           not equal to themselves, so the array is equal to nothing - itself included *)
        match run_parser (c <~ p_nat ;; r <~ p_nat ;; nan <~ p_nat ;; p_ret (c, r, nan)) rest with
        | None => false
        | Some (c, r, nan) =>
            let has_nan := (0 <? nan) && (nan <=? c * r) in
            list_N_eqb obs (if has_nan then [0%N; 1%N; 0%N; 0%N] else [1%N; 0%N; 1%N; 1%N])
        end
      else
        match run_parser (via <~ p_nat ;; c <~ p_N ;; r <~ p_N ;; l <~ p_nat ;; tr <~ p_bool ;;
                          p_ret (via, c, r, l, tr)) rest with
        | None => false
        | Some (via, c, r, l, tr) =>
            if ctor_accepts via c r l then
              match obs with
              | ok :: oc :: orr :: rest' =>
                  (ok =? 1)%N && (oc =? c)%N && (orr =? r)%N
                  && match run_parser (d <~ p_list p_N ;; conv <~ p_N ;; live <~ p_N ;; dbl <~ p_N ;;
                                       p_ret (d, conv, live, dbl)) rest' with
                     | None => false
                     | Some (d, conv, live, dbl) =>
                         (N.of_nat (length d) =? c * r)%N && (conv =? 1)%N && (live =? 0)%N && (dbl =? 0)%N
                         && match via with
                            | 0 | 1 => list_N_eqb d (iota l)
                            | 2 => if tr then true else list_N_eqb d (repeat 0%N (length d))
                            | _ => list_N_eqb d (repeat 7%N (length d))
                            end
                     end
              | _ => false
              end
            else list_N_eqb obs [0%N; 0%N; 0%N]
        end
  | _ => false
  end.
