(** The shape invariant of the owned array (C01) and its abstraction to a grid. *)
From TD Require Import Base.Prelude Spec.Grid Model.Owned.

Section Inv.
Context {A : Type}.
Implicit Type t : toodee A.

Definition Inv t : Prop :=
  length (data t) = num_cols t * num_rows t /\ (num_cols t = 0 <-> num_rows t = 0).

Definition Invb t : bool :=
  (length (data t) =? num_cols t * num_rows t) && Bool.eqb (num_cols t =? 0) (num_rows t =? 0).

Definition to_grid t : grid A := g_of_data (num_cols t) (num_rows t) (data t).

End Inv.
