(** The binary-number FlattenExact model (Model/BigFlat.v) computes exactly what the unary
    one (Model/Flatten.v over the row cursor) computes, for every state and every [n : N]. *)
From TD Require Import Base.Prelude Model.Iter Model.Flatten Model.View Model.BigIter Model.BigFlat
  Proofs.BigIterRefine.

Definition si_res (p : option N * bsl) : option nat * sl := (option_map N.to_nat (fst p), sl_of (snd p)).

Lemma of_to a : N.of_nat (N.to_nat a) = a.
Proof. apply N2Nat.id. Qed.

Lemma si_next_ref s : si_next (sl_of s) = si_res (bsi_next s).
Proof.
  unfold si_next, bsi_next. rewrite is_empty_ref. destruct (bsl_is_empty s) eqn:E; [reflexivity|].
  unfold si_res, sl_of. cbn [fst snd off len boff blen option_map].
  f_equal. f_equal; lia.
Qed.
Lemma si_next_back_ref s : si_next_back (sl_of s) = si_res (bsi_next_back s).
Proof.
  unfold si_next_back, bsi_next_back. rewrite is_empty_ref. destruct (bsl_is_empty s) eqn:E; [reflexivity|].
  unfold si_res, sl_of. cbn [fst snd off len boff blen option_map].
  f_equal; [f_equal; lia|f_equal; lia].
Qed.
Lemma si_nth_ref s n : si_nth (sl_of s) n = si_res (bsi_nth s n).
Proof.
  unfold si_nth, bsi_nth. cbn [sl_of len off]. rewrite of_to.
  destruct (N.leb_spec (blen s) n).
  - unfold si_res, sl_of. cbn. f_equal. f_equal; lia.
  - rewrite <- si_next_ref. f_equal. unfold sl_of. cbn. f_equal; lia.
Qed.
Lemma si_nth_back_ref s n : si_nth_back (sl_of s) n = si_res (bsi_nth_back s n).
Proof.
  unfold si_nth_back, bsi_nth_back. cbn [sl_of len off]. rewrite of_to.
  destruct (N.leb_spec (blen s) n).
  - reflexivity.
  - rewrite <- si_next_back_ref. f_equal. unfold sl_of. cbn. f_equal; lia.
Qed.

Definition flat_res (p : option N * bflat) : option nat * flat (I:=rows_it) :=
  (option_map N.to_nat (fst p), flat_of (snd p)).

(** the front / back attempt of next / next_back *)
Lemma try_ref (bstep : bsl -> option N * bsl) (step : sl -> option nat * sl) o :
  (forall w, step (sl_of w) = si_res (bstep w)) ->
  match option_map sl_of o with
  | Some inner => match step inner with (Some c, inner') => Some (c, inner') | (None, _) => None end
  | None => None
  end = option_map (fun p => (N.to_nat (fst p), sl_of (snd p))) (btry bstep o).
Proof.
  intros H. destruct o as [w|]; [|reflexivity]. cbn [option_map btry]. rewrite H.
  destruct (bstep w) as [[c|] w']; reflexivity.
Qed.

(** a row cursor that hands out a row hands out a non-empty one *)
Definition yields_nonempty (it : brows) : Prop :=
  (forall inner it', brows_next it = Ok (Some inner, it') -> blen inner <> 0%N) /\
  (forall inner it', brows_next_back it = Ok (Some inner, it') -> blen inner <> 0%N).

Theorem flat_next_ref s k : yields_nonempty (bfiter s) ->
  rmap flat_res (bflat_next s) = flat_next_loop rows_ops (S (S k)) (flat_of s).
Proof.
  intros [Hne _]. unfold bflat_next. cbn [flat_next_loop flat_of ffront fiter fback].
  rewrite (try_ref bsi_next si_next _ si_next_ref).
  destruct (btry bsi_next (bffront s)) as [[c inner']|]; cbn [option_map fst snd]; [reflexivity|].
  cbn [rows_ops ro_next]. pose proof (rows_next_ref (bfiter s)) as R.
  destruct (brows_next (bfiter s)) as [[[inner|] it']| |] eqn:E; cbn [rmap] in R; rewrite <- R; cbn [bind rows_res fst snd option_map rmap]; try reflexivity.
  - (* a new front row *)
    cbn [ffront fiter fback]. rewrite si_next_ref.
    destruct (bsi_next inner) as [[c|] inner'] eqn:En; cbn [si_res fst snd option_map]; [reflexivity|].
    exfalso. apply (Hne inner it' eq_refl).
    unfold bsi_next, bsl_is_empty in En. destruct (N.eqb_spec (blen inner) 0); [assumption|discriminate].
  - (* the rows are exhausted: the back row *)
    destruct (bfback s) as [b|]; cbn [option_map]; [|reflexivity].
    rewrite si_next_ref. destruct (bsi_next b) as [c b']. reflexivity.
Qed.

Theorem flat_next_back_ref s k : yields_nonempty (bfiter s) ->
  rmap flat_res (bflat_next_back s) = flat_next_back_loop rows_ops (S (S k)) (flat_of s).
Proof.
  intros [_ Hne]. unfold bflat_next_back. cbn [flat_next_back_loop flat_of ffront fiter fback].
  rewrite (try_ref bsi_next_back si_next_back _ si_next_back_ref).
  destruct (btry bsi_next_back (bfback s)) as [[c inner']|]; cbn [option_map fst snd]; [reflexivity|].
  cbn [rows_ops ro_next_back]. pose proof (rows_next_back_ref (bfiter s)) as R.
  destruct (brows_next_back (bfiter s)) as [[[inner|] it']| |] eqn:E; cbn [rmap] in R; rewrite <- R; cbn [bind rows_res fst snd option_map rmap]; try reflexivity.
  - cbn [ffront fiter fback]. rewrite si_next_back_ref.
    destruct (bsi_next_back inner) as [[c|] inner'] eqn:En; cbn [si_res fst snd option_map]; [reflexivity|].
    exfalso. apply (Hne inner it' eq_refl).
    unfold bsi_next_back, bsl_is_empty in En. destruct (N.eqb_spec (blen inner) 0); [assumption|discriminate].
  - destruct (bffront s) as [b|]; cbn [option_map]; [|reflexivity].
    rewrite si_next_back_ref. destruct (bsi_next_back b) as [c b']. reflexivity.
Qed.

Lemma olen_ref o : match option_map sl_of o with Some i => len i | None => 0 end = N.to_nat (bolen o).
Proof. destruct o; reflexivity. Qed.

Theorem flat_len_ref s : N.to_nat (bflat_len s) = flat_len rows_ops (flat_of s).
Proof.
  unfold bflat_len, flat_len. cbn [flat_of fiter ffront fback rows_ops ro_num_cols ro_len].
  rewrite !olen_ref, <- rows_len_ref. cbn [rows_of rcols]. lia.
Qed.

Ltac nth_tail dbg bstep_ref ref_lemma other :=
  eapply rmap_bind; [apply ref_lemma|];
  intros [[inner|] it']; cbn [rows_res fst snd option_map];
  [ cbn [sl_of len]; rewrite of_to;
    destruct dbg; cbn [bind];
    [ apply rmap_assert | ];
    rewrite bstep_ref;
    match goal with |- context [si_res ?p] => destruct p as [c tmp] end; reflexivity
  | destruct other as [b|]; cbn [option_map];
    [ rewrite bstep_ref; match goal with |- context [si_res ?p] => destruct p as [c b'] end; reflexivity
    | reflexivity ] ].

Theorem flat_nth_ref dbg s n :
  rmap flat_res (bflat_nth dbg s n) = flat_nth rows_ops dbg (flat_of s) n.
Proof.
  unfold bflat_nth, flat_nth. cbn [flat_of fiter ffront fback rows_ops ro_num_cols ro_len ro_nth].
  rewrite <- rows_len_ref. cbn [rows_of rcols]. rewrite eqb0_ref, !of_to.
  destruct (N.eqb_spec (brcols (bfiter s)) 0); [reflexivity|].
  destruct (bffront s) as [inner0|]; cbn [option_map].
  - cbn [sl_of len]. rewrite of_to. destruct (N.ltb_spec n (blen inner0)).
    + rewrite si_nth_ref. destruct (bsi_nth inner0 n) as [c w]. reflexivity.
    + nth_tail dbg si_nth_ref rows_nth_ref (bfback s).
  - nth_tail dbg si_nth_ref rows_nth_ref (bfback s).
Qed.

Theorem flat_nth_back_ref dbg s n :
  rmap flat_res (bflat_nth_back dbg s n) = flat_nth_back rows_ops dbg (flat_of s) n.
Proof.
  unfold bflat_nth_back, flat_nth_back. cbn [flat_of fiter ffront fback rows_ops ro_num_cols ro_len ro_nth_back].
  rewrite <- rows_len_ref. cbn [rows_of rcols]. rewrite eqb0_ref, !of_to.
  destruct (N.eqb_spec (brcols (bfiter s)) 0); [reflexivity|].
  destruct (bfback s) as [inner0|]; cbn [option_map].
  - cbn [sl_of len]. rewrite of_to. destruct (N.ltb_spec n (blen inner0)).
    + rewrite si_nth_back_ref. destruct (bsi_nth_back inner0 n) as [c w]. reflexivity.
    + nth_tail dbg si_nth_back_ref rows_nth_back_ref (bffront s).
  - nth_tail dbg si_nth_back_ref rows_nth_back_ref (bffront s).
Qed.
