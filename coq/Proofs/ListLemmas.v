(** Generic list lemmas: pointwise ([nth_error]) characterisations of the list operations
    the models use, and extensionality.  *)
From TD Require Import Base.Prelude Model.Owned.

Lemma list_ext {A} (a b : list A) :
  (forall i, nth_error a i = nth_error b i) -> a = b.
Proof.
  revert b; induction a as [|x a IH]; intros [|y b] H; auto.
  - specialize (H 0); discriminate.
  - specialize (H 0); discriminate.
  - f_equal.
    + specialize (H 0); simpl in H; congruence.
    + apply IH; intros i; apply (H (S i)).
Qed.

Lemma nth_error_firstn {A} n (l : list A) i :
  nth_error (firstn n l) i = if i <? n then nth_error l i else None.
Proof.
  revert n i; induction l as [|x l IH]; intros [|n] [|i]; simpl; auto.
  - destruct (S i <? S n); auto.
  - rewrite IH. reflexivity.
Qed.

Lemma nth_error_skipn {A} n (l : list A) i :
  nth_error (skipn n l) i = nth_error l (n + i).
Proof.
  revert l; induction n as [|n IH]; intros [|x l]; simpl; auto.
  destruct i; reflexivity.
Qed.

Lemma nth_error_app {A} (a b : list A) i :
  nth_error (a ++ b) i = if i <? length a then nth_error a i else nth_error b (i - length a).
Proof.
  destruct (Nat.ltb_spec i (length a)).
  - apply nth_error_app1; auto.
  - apply nth_error_app2; auto.
Qed.

Lemma nth_error_upd {A} i (x : A) l j :
  nth_error (upd i x l) j = if (i =? j) && (j <? length l) then Some x else nth_error l j.
Proof.
  destruct (Nat.eqb_spec i j) as [->|Hne]; simpl.
  - destruct (Nat.ltb_spec j (length l)).
    + apply nth_error_upd_eq; auto.
    + transitivity (@None A).
      * apply nth_error_None. rewrite upd_length. lia.
      * symmetry. apply nth_error_None. lia.
  - apply nth_error_upd_neq; auto.
Qed.

Lemma nth_error_repeat' {A} (a : A) n i :
  nth_error (repeat a n) i = if i <? n then Some a else None.
Proof.
  destruct (Nat.ltb_spec i n).
  - apply nth_error_repeat; auto.
  - apply nth_error_None. rewrite repeat_length. lia.
Qed.

Lemma nth_error_slice {A} a n (l : list A) i :
  nth_error (slice a n l) i = if i <? n then nth_error l (a + i) else None.
Proof. unfold slice. rewrite nth_error_firstn, nth_error_skipn. reflexivity. Qed.

Lemma nth_error_seq s n i :
  nth_error (seq s n) i = if i <? n then Some (s + i) else None.
Proof.
  revert s i; induction n as [|n IH]; intros s [|i]; cbn [seq nth_error]; auto.
  - cbn. f_equal; lia.
  - rewrite IH. change (S i <? S n) with (i <? n). destruct (i <? n); auto. f_equal; lia.
Qed.

Lemma nth_error_ge_None {A} (l : list A) i : length l <= i -> nth_error l i = None.
Proof. apply nth_error_None. Qed.

Lemma nth_error_lt_Some {A} (l : list A) i : i < length l -> exists x, nth_error l i = Some x.
Proof.
  intros H. destruct (nth_error l i) eqn:E; eauto.
  apply nth_error_None in E. lia.
Qed.

Lemma length_ext_nth {A} (a b : list A) :
  length a = length b ->
  (forall i, i < length a -> nth_error a i = nth_error b i) -> a = b.
Proof.
  intros Hl H. apply list_ext. intros i.
  destruct (Nat.lt_ge_cases i (length a)) as [Hi|Hi]; auto.
  rewrite !nth_error_ge_None; auto; lia.
Qed.

Lemma slice_length' {A} a n (l : list A) : length (slice a n l) = Nat.min n (length l - a).
Proof. unfold slice. rewrite firstn_length, skipn_length. reflexivity. Qed.

(** [all_some] *)
Lemma all_some_map_Some {A} (l : list A) : all_some (map Some l) = Some l.
Proof. induction l as [|x l IH]; simpl; auto. rewrite IH. reflexivity. Qed.

Lemma all_some_spec {A} (m : list (option A)) (d : list A) :
  all_some m = Some d <-> m = map Some d.
Proof.
  split.
  - revert d; induction m as [|[x|] m IH]; simpl; intros d H.
    + inversion H; reflexivity.
    + destruct (all_some m) eqn:E; inversion H; subst. simpl. f_equal. apply IH; reflexivity.
    + discriminate.
  - intros ->. apply all_some_map_Some.
Qed.

(** destruct every boolean comparison in the goal, keeping the facts for [lia] *)
Ltac case_cmp :=
  repeat (match goal with
  | |- context [?a <? ?b] => destruct (Nat.ltb_spec a b)
  | |- context [?a <=? ?b] => destruct (Nat.leb_spec a b)
  | |- context [?a =? ?b] => destruct (Nat.eqb_spec a b)
  end; cbn [andb orb negb]; try lia).

Ltac nth_rw :=
  repeat (rewrite ?nth_error_app, ?nth_error_firstn, ?nth_error_skipn, ?nth_error_upd,
          ?nth_error_repeat', ?nth_error_slice, ?nth_error_map, ?nth_error_seq,
          ?app_length, ?firstn_length, ?skipn_length, ?map_length, ?repeat_length,
          ?upd_length, ?seq_length, ?slice_length').

(** close index-arithmetic residue: equal function applications whose arguments agree *)
Ltac fin := auto; try lia;
  try solve [f_equal; lia | f_equal; f_equal; lia | f_equal; f_equal; f_equal; lia].

Lemma ptr_copy_spec {A} src dst n (m m' : list (option A)) :
  TD.Model.Owned.ptr_copy src dst n m = Ok m' ->
  length m' = length m /\
  forall i, nth_error m' i =
            if (dst <=? i) && (i <? dst + n) then nth_error m (src + (i - dst)) else nth_error m i.
Proof.
  unfold TD.Model.Owned.ptr_copy.
  destruct (Nat.leb_spec (src + n) (length m)); cbn [andb]; [|discriminate].
  destruct (Nat.leb_spec (dst + n) (length m)); [|discriminate].
  intros E; inversion E; subst; clear E. split.
  - nth_rw. lia.
  - intros i. nth_rw. case_cmp; fin.
Qed.

Lemma ptr_copy_ok {A} src dst n (m : list (option A)) :
  src + n <= length m -> dst + n <= length m ->
  exists m', TD.Model.Owned.ptr_copy src dst n m = Ok m'.
Proof.
  intros. unfold TD.Model.Owned.ptr_copy.
  destruct (Nat.leb_spec (src + n) (length m)); [|lia].
  destruct (Nat.leb_spec (dst + n) (length m)); [|lia].
  cbn [andb]. eauto.
Qed.

