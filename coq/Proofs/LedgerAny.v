(** C05 / C11 / C12, every step whatsoever: for EVERY operation of the history machine -
    iterators that lie about their length, end early or panic at any call; drains consumed
    to any extent and then dropped or leaked; element destructors that panic - what the
    array owns afterwards, what the step dropped and what it leaked are together exactly
    what the array owned before plus what the step was given.  No element is ever dropped
    twice or both owned and dropped; elements are lost to the caller only by being leaked. *)
From Coq Require Import Permutation.
From TD Require Import Base.Prelude Base.Codec Spec.Grid Spec.Inv Spec.HistSpec Model.Iter Model.Owned
  Model.Hist Proofs.RemoveRow Proofs.RemoveCol Proofs.RemoveColLeak Proofs.HistInv Proofs.Ledger
  Proofs.LedgerAll Proofs.InsertRowAny.

Lemma remove_row_any_ledger (t : toodee elt) (index : N) steps fin : Inv t ->
  exists r, remove_row t index steps fin = Ok r /\
            Permutation (data (d_td r) ++ (d_escaped r ++ d_dropped r) ++ d_leaked r) (data t).
Proof.
  intros Hi. destruct (N.ltb_spec index (N.of_nat (num_rows t))) as [Hlt|Hge].
  - replace index with (N.of_nat (N.to_nat index)) by lia.
    destruct (remove_row_ledger t (N.to_nat index) steps fin Hi ltac:(lia)) as [r [E [Hp _]]].
    exists r. split; [exact E|]. rewrite <- app_assoc. exact Hp.
  - rewrite (remove_row_reject t index steps fin Hge). eexists. split; [reflexivity|].
    cbn. rewrite app_nil_r. apply Permutation_refl.
Qed.

Lemma remove_col_any_ledger (t : toodee elt) (index : N) steps fin : Inv t ->
  (N.of_nat (length (data t)) < W)%N ->
  exists r, remove_col t index steps fin = Ok r /\
            Permutation (data (d_td r) ++ (d_escaped r ++ d_dropped r) ++ d_leaked r) (data t).
Proof.
  intros Hi Hw. destruct fin.
  - destruct (remove_col_drop_ledger t index steps Hi Hw) as [r [E [Hp Hk]]].
    exists r. split; [exact E|]. rewrite Hk, app_nil_r. exact Hp.
  - destruct (N.ltb_spec index (N.of_nat (num_cols t))) as [Hlt|Hge].
    + replace index with (N.of_nat (N.to_nat index)) by lia.
      destruct (remove_col_leaked_all t (N.to_nat index) steps Hi ltac:(lia) Hw) as [leaked [E Hp]].
      eexists. split; [exact E|]. cbn [d_td d_escaped d_dropped d_leaked data app]. rewrite app_nil_r. exact Hp.
    + rewrite (remove_col_reject t index steps ForgetIt Hge). eexists. split; [reflexivity|].
      cbn. rewrite app_nil_r. apply Permutation_refl.
Qed.

Lemma perm_fill {X} (R S F : list X) v : Permutation ((R ++ S) ++ (F ++ [v])) ((F ++ S) ++ v :: R).
Proof.
  eapply Permutation_trans; [apply Permutation_app_comm|]. rewrite <- !app_assoc. apply Permutation_app_head.
  change ([v] ++ R ++ S) with ((v :: R) ++ S). apply Permutation_app_comm.
Qed.

Lemma fuse_ledger cf h kind k o h' ob :
  fuse_fires cf h kind k o = Some (h', ob) ->
  Permutation (data (h_td h') ++ ob_dropped ob ++ ob_leaked ob) (data (h_td h) ++ fuse_given h kind k o).
Proof.
  unfold fuse_fires, fuse_given. intros Ef.
  destruct kind as [|[|kind]]; [| |discriminate]; destruct o; try discriminate.
  - destruct (zero_rule_ok c r); [|discriminate]. destruct (checked_mul r c); [|discriminate].
    destruct ((n <=? cf_cap cf)%N && (N.of_nat (S k) <? n)%N); inversion Ef; subst; cbn [h_td ob_dropped ob_leaked].
    rewrite app_nil_r. apply Permutation_refl.
  - destruct (Nat.ltb_spec (S k) (length (data (h_td h)))); inversion Ef; subst; cbn [h_td data ob_dropped ob_leaked].
    rewrite app_nil_r. set (old := data (h_td h)).
    rewrite <- (firstn_skipn k old) at 3. change (repeat v (S k)) with (v :: repeat v k).
    apply perm_fill.
  - destruct (k <? length (data (h_td h))); inversion Ef; subst; cbn [h_td ob_dropped ob_leaked].
    rewrite app_nil_r. apply Permutation_refl.
  - destruct (zero_rule_ok c r); [|discriminate]. destruct (checked_mul c r); [|discriminate].
    destruct ((n =? N.of_nat (length d))%N && (k <? length d)); inversion Ef; subst; cbn [h_td ob_dropped ob_leaked].
    rewrite app_nil_r. apply Permutation_app_head. apply Permutation_app_comm.
  - destruct (zero_rule_ok c r); [|discriminate]. destruct (checked_mul c r); [|discriminate].
    destruct ((n <=? cf_cap cf)%N && (N.of_nat k <? n)%N); inversion Ef; subst; cbn [h_td ob_dropped ob_leaked].
    rewrite app_nil_r. apply Permutation_refl.
Qed.

Theorem hstep_ledger_all cf : forall o h h' ob,
  Inv (h_td h) -> (N.of_nat (length (data (h_td h))) < W)%N ->
  hstep cf h o = Ok (h', ob) ->
  Permutation (data (h_td h') ++ ob_dropped ob ++ ob_leaked ob) (data (h_td h) ++ supplied cf h o).
Proof.
  assert (Hplain : forall o h h' ob, fault_free_op o = true ->
            Inv (h_td h) -> (N.of_nat (length (data (h_td h))) < W)%N -> hstep cf h o = Ok (h', ob) ->
            Permutation (data (h_td h') ++ ob_dropped ob ++ ob_leaked ob) (data (h_td h) ++ supplied cf h o)).
  { intros o h h' ob Hff Hi Hw H. destruct (hstep_ledger cf o h h' ob Hi Hw Hff H) as [Hp Hk].
    rewrite Hk, app_nil_r. exact Hp. }
  induction o as [c r d|c r|c r v| |idx s|s|idx s|s|idx steps fin|steps fin|idx steps fin|steps fin
                  | | | |c r v|v| | |k| |k o IH|kind k o IH|c r d]; intros h h' ob Hi Hw H;
    try (apply Hplain; [reflexivity|exact Hi|exact Hw|exact H]); cbn [hstep supplied] in *.
  - destruct (insert_row_any (cf_dbg cf) (cf_cap cf) (cf_spare cf) (h_td h) idx s Hi) as [r [E [_ Ha]]].
    unfold of_opres in H. rewrite E in H. cbn [bind] in H. inversion H; subst; cbn [h_td ob_dropped ob_leaked]. exact Ha.
  - destruct (insert_row_any (cf_dbg cf) (cf_cap cf) (cf_spare cf) (h_td h) (N.of_nat (num_rows (h_td h))) s Hi) as [r [E [_ Ha]]].
    unfold of_opres in H. rewrite E in H. cbn [bind] in H. inversion H; subst; cbn [h_td ob_dropped ob_leaked]. exact Ha.
  - destruct (insert_col_any (cf_dbg cf) (cf_cap cf) (cf_spare cf) (h_td h) idx s Hi) as [r [E [_ Ha]]].
    unfold of_opres in H. rewrite E in H. cbn [bind] in H. inversion H; subst; cbn [h_td ob_dropped ob_leaked]. exact Ha.
  - destruct (insert_col_any (cf_dbg cf) (cf_cap cf) (cf_spare cf) (h_td h) (N.of_nat (num_cols (h_td h))) s Hi) as [r [E [_ Ha]]].
    unfold of_opres in H. rewrite E in H. cbn [bind] in H. inversion H; subst; cbn [h_td ob_dropped ob_leaked]. exact Ha.
  - destruct (remove_row_any_ledger (h_td h) idx steps fin Hi) as [r [E Hp]].
    unfold of_drainres in H. rewrite E in H. cbn [bind] in H. inversion H; subst; cbn [h_td ob_dropped ob_leaked].
    rewrite app_nil_r. exact Hp.
  - destruct (num_rows (h_td h) =? 0).
    + inversion H; subst; cbn. rewrite !app_nil_r. apply Permutation_refl.
    + destruct (remove_row_any_ledger (h_td h) (N.of_nat (num_rows (h_td h) - 1)) steps fin Hi) as [r [E Hp]].
      unfold of_drainres in H. rewrite E in H. cbn [bind] in H. inversion H; subst; cbn [h_td ob_dropped ob_leaked].
      rewrite app_nil_r. exact Hp.
  - destruct (remove_col_any_ledger (h_td h) idx steps fin Hi Hw) as [r [E Hp]].
    unfold of_drainres in H. rewrite E in H. cbn [bind] in H. inversion H; subst; cbn [h_td ob_dropped ob_leaked].
    rewrite app_nil_r. exact Hp.
  - destruct (num_cols (h_td h) =? 0).
    + inversion H; subst; cbn. rewrite !app_nil_r. apply Permutation_refl.
    + destruct (remove_col_any_ledger (h_td h) (N.of_nat (num_cols (h_td h) - 1)) steps fin Hi Hw) as [r [E Hp]].
      unfold of_drainres in H. rewrite E in H. cbn [bind] in H. inversion H; subst; cbn [h_td ob_dropped ob_leaked].
      rewrite app_nil_r. exact Hp.
  - (* a destructor panics during the step: same array, same drops, same leaks *)
    destruct (hstep cf h o) as [[h1 ob1]| |] eqn:E; cbn [bind] in H; try discriminate.
    pose proof (IH h h1 ob1 Hi Hw E) as Hp.
    destruct (negb (cf_track cf)); inversion H; subst; cbn [ob_dropped ob_leaked]; exact Hp.
  - (* a Clone / Default that panics at its k-th call *)
    destruct (negb (cf_track cf)); [apply IH; assumption|].
    destruct (fuse_fires cf h kind k o) as [[h1 ob1]|] eqn:Ef; [|apply IH; assumption].
    inversion H; subst h1 ob1. apply (fuse_ledger cf h kind k o h' ob Ef).
Qed.

(** whole histories: the final array, everything dropped and everything leaked along the
    way = everything ever supplied *)
Definition leaked_all (l : list (hstate * hobs)) : list elt := concat (map (fun p => ob_leaked (snd p)) l).

Lemma perm_rearr1 {X} (F d1 D k1 K : list X) :
  Permutation (F ++ (d1 ++ D) ++ (k1 ++ K)) ((d1 ++ k1) ++ (F ++ D ++ K)).
Proof.
  rewrite <- !app_assoc.
  eapply Permutation_trans; [apply Permutation_app_swap_app|]. apply Permutation_app_head.
  rewrite (app_assoc F D). eapply Permutation_trans; [apply Permutation_app_swap_app|].
  rewrite <- app_assoc. apply Permutation_refl.
Qed.
Lemma perm_rearr2 {X} (d1 k1 H1 SR : list X) :
  Permutation ((d1 ++ k1) ++ (H1 ++ SR)) ((H1 ++ d1 ++ k1) ++ SR).
Proof.
  eapply Permutation_trans; [apply Permutation_app_swap_app|]. rewrite <- !app_assoc. apply Permutation_refl.
Qed.

Theorem hrun_ledger_all cf : forall ops h l,
  Inv (h_td h) -> (N.of_nat (length (data (h_td h))) < W)%N ->
  hrun cf h ops = Ok l ->
  Forall (fun p => (N.of_nat (length (data (h_td (fst p)))) < W)%N) l ->
  Permutation (data (h_td (final_state h l)) ++ dropped_all l ++ leaked_all l)
              (data (h_td h) ++ supplied_all cf h ops l).
Proof.
  induction ops as [|o ops IH]; intros h l Hi Hw H Hall; cbn [hrun] in H.
  - inversion H; subst. cbn. rewrite !app_nil_r. apply Permutation_refl.
  - destruct (hstep cf h o) as [[h1 ob1]| |] eqn:E; cbn [bind fst] in H; try discriminate.
    destruct (hrun cf h1 ops) as [l1| |] eqn:E1; cbn [bind] in H; try discriminate.
    inversion H; subst l. clear H. inversion Hall as [|? ? Hw1 Hall']; subst. cbn [fst] in Hw1.
    pose proof (hstep_ledger_all cf o h h1 ob1 Hi Hw E) as Hstep.
    pose proof (IH h1 l1 (hstep_inv cf o h h1 ob1 Hi E) Hw1 E1 Hall') as Hrest.
    unfold final_state in *. cbn [map fst]. rewrite last_cons_local.
    unfold dropped_all, leaked_all in *. cbn [map concat snd supplied_all].
    set (F := data (h_td (last (map fst l1) h1))) in *.
    set (D := concat (map (fun p => ob_dropped (snd p)) l1)) in *.
    set (K := concat (map (fun p => ob_leaked (snd p)) l1)) in *.
    set (d1 := ob_dropped ob1) in *. set (k1 := ob_leaked ob1) in *.
    set (S1 := supplied cf h o) in *. set (SR := supplied_all cf h1 ops l1) in *.
    (* F ++ (d1 ++ D) ++ (k1 ++ K)  ~  data h ++ S1 ++ SR *)
    apply Permutation_trans with (l' := (d1 ++ k1) ++ (F ++ D ++ K)); [apply perm_rearr1|].
    apply Permutation_trans with (l' := (d1 ++ k1) ++ (data (h_td h1) ++ SR)).
    { apply Permutation_app_head. exact Hrest. }
    apply Permutation_trans with (l' := (data (h_td h1) ++ d1 ++ k1) ++ SR); [apply perm_rearr2|].
    apply Permutation_trans with (l' := (data (h_td h) ++ S1) ++ SR).
    { apply Permutation_app_tail. exact Hstep. }
    rewrite <- app_assoc. apply Permutation_refl.
Qed.
