(** C10: the cells of a receiver, and the cell iterators' initial state. *)
From Coq Require Import Sorted.
From TD Require Import Base.Prelude Model.Iter Model.Flatten Model.View Spec.Ideal
  Proofs.ListLemmas Proofs.RowsSim Proofs.ColSim Proofs.FlatSim Proofs.ViewGeom.

(** all cells of a receiver in row-major order, by geometry *)
Definition view_cells (v : view) : list nat := rows_cells (view_rows v).

Lemma v_cells_sim v : wf_view v ->
  exists s, v_cells v = Ok s /\ flat_sim s (view_cells v).
Proof.
  intros Hwf. unfold v_cells. destruct (v_rows_sim v Hwf) as [it [E Hs]]. rewrite E. cbn [bind].
  eexists. split; [reflexivity|]. apply flat_new_sim. exact Hs.
Qed.

Lemma view_cells_formula v :
  view_cells v = flat_map (fun r => map (fun c => v_cell v c r) (seq 0 (vcols v))) (seq 0 (vrows v)).
Proof.
  unfold view_cells, rows_cells, view_rows. rewrite map_map, flat_map_concat_map. f_equal.
  apply map_ext. intros r. unfold si_cells, v_cell. cbn [off len].
  rewrite <- (Nat.add_0_r (off (vw v) + r * vstride v)) at 1.
  generalize 0 as s. induction (vcols v) as [|n IH]; intros s; [reflexivity|].
  cbn [seq map]. f_equal. rewrite <- IH. f_equal. lia.
Qed.

Lemma view_cells_length v : wf_view v -> length (view_cells v) = vcols v * vrows v.
Proof.
  intros Hwf. unfold view_cells. destruct (v_rows_sim v Hwf) as [it [E Hs]].
  destruct (rows_sim_uniform _ _ Hs) as [Hu _].
  unfold v_rows in E. destruct (usub _ _); cbn [bind] in E; try discriminate. inversion E; subst it.
  cbn [rcols] in Hu. rewrite (rows_cells_length _ _ Hu). unfold view_rows. rewrite map_length, seq_length. reflexivity.
Qed.

(** strictly increasing buffer indices: every cell once, none twice (soundness of cells_mut) *)
Lemma rows_cells_sorted rows :
  (forall i j w1 w2, i < j -> nth_error rows i = Some w1 -> nth_error rows j = Some w2 ->
     off w1 + len w1 <= off w2) ->
  StronglySorted lt (rows_cells rows) /\ (forall x, In x (rows_cells rows) -> exists w, In w rows /\ off w <= x < off w + len w).
Proof.
  induction rows as [|w rows IH]; intros Hd.
  - split; [constructor|]. intros x [].
  - destruct IH as [IH1 IH2].
    { intros i j w1 w2 Hij H1 H2. apply (Hd (S i) (S j) w1 w2); [lia|exact H1|exact H2]. }
    rewrite rows_cells_cons. split.
    + assert (Hall : forall x, In x (rows_cells rows) -> off w + len w <= x).
      { intros x Hx. destruct (IH2 x Hx) as [w2 [Hin Hr]].
        destruct (In_nth_error _ _ Hin) as [j Hj].
        pose proof (Hd 0 (S j) w w2 ltac:(lia) eq_refl Hj). lia. }
      unfold si_cells. revert Hall. generalize (off w) as s. clear Hd IH2.
      induction (len w) as [|n IHn]; intros s Hall; cbn [seq app]; [exact IH1|].
      constructor.
      * apply IHn. intros x Hx. specialize (Hall x Hx). lia.
      * apply Forall_forall. intros x Hx. apply in_app_or in Hx. destruct Hx as [Hx|Hx].
        -- apply in_seq in Hx. lia.
        -- specialize (Hall x Hx). lia.
    + intros x Hx. apply in_app_or in Hx. destruct Hx as [Hx|Hx].
      * exists w. split; [left; reflexivity|]. unfold si_cells in Hx. apply in_seq in Hx. lia.
      * destruct (IH2 x Hx) as [w2 [Hin Hr]]. exists w2. split; [right; exact Hin|exact Hr].
Qed.

Theorem view_cells_sorted v : wf_view v -> StronglySorted lt (view_cells v).
Proof.
  intros Hwf. apply rows_cells_sorted. intros i j w1 w2 Hij H1 H2.
  exact (view_rows_disjoint v i j w1 w2 Hwf Hij H1 H2).
Qed.

Lemma sorted_nodup l : StronglySorted lt l -> NoDup l.
Proof.
  induction 1 as [|x l _ IH Hx]; constructor; [|exact IH].
  intros Hin. pose proof (proj1 (Forall_forall _ _) Hx x Hin). lia.
Qed.

Theorem view_cells_nodup v : wf_view v -> NoDup (view_cells v).
Proof. intros H. apply sorted_nodup, view_cells_sorted, H. Qed.

Theorem view_cells_inside v x : wf_view v -> In x (view_cells v) ->
  exists c r, c < vcols v /\ r < vrows v /\ x = v_cell v c r.
Proof.
  intros Hwf Hin. rewrite view_cells_formula in Hin. apply in_flat_map in Hin.
  destruct Hin as [r [Hr Hin]]. apply in_map_iff in Hin. destruct Hin as [c [<- Hc]].
  apply in_seq in Hr, Hc. exists c, r. repeat split; lia.
Qed.
