(** remove_col / pop_col whose DrainCol is leaked (mem::forget) after any consumption (C12,
    C05): the elements the caller received and the elements left behind in the emptied
    Vec's buffer are together exactly the array's elements - none dropped, none twice. *)
From Coq Require Import Permutation.
From TD Require Import Base.Prelude Spec.Grid Spec.Inv Model.Iter Model.Owned
  Proofs.ListLemmas Proofs.RemoveRow Proofs.RemoveCol.

Section Leak.
Context {A : Type}.

Definition somes (m : list (option A)) : list A :=
  fold_right (fun o acc => match o with Some x => x :: acc | None => acc end) [] m.

Lemma somes_app a b : somes (a ++ b) = somes a ++ somes b.
Proof. unfold somes. induction a as [|[x|] a IH]; cbn [app fold_right]; [reflexivity|rewrite IH; reflexivity|exact IH]. Qed.

Definition opt_list (o : option A) : list A := match o with Some x => [x] | None => [] end.

Lemma flat_map_ext_in_l {X Y} (f g : X -> list Y) (l : list X) :
  (forall x, In x l -> f x = g x) -> flat_map f l = flat_map g l.
Proof.
  induction l as [|x l IH]; intros H; [reflexivity|]. cbn [flat_map].
  rewrite (H x (or_introl eq_refl)), IH; [reflexivity|]. intros y Hy. apply H. right. exact Hy.
Qed.

(** slots that are the data with the cells selected by [T] moved out: what is still there
    plus what was moved out is the data *)
Lemma somes_perm (T : nat -> bool) : forall (data : list A) (slots : list (option A)),
  length slots = length data ->
  (forall i, i < length data -> nth_error slots i = Some (if T i then None else nth_error data i)) ->
  Permutation (somes slots ++ flat_map (fun i => if T i then opt_list (nth_error data i) else []) (seq 0 (length data))) data.
Proof.
  induction data as [|x d IH] using rev_ind; intros slots Hl Hn.
  - destruct slots; [apply Permutation_refl|discriminate].
  - rewrite app_length in Hl. cbn [length] in Hl.
    destruct (exists_last (l := slots)) as [s [o ->]]; [intros ->; cbn in Hl; lia|].
    rewrite app_length in Hl. cbn [length] in Hl. assert (Hls : length s = length d) by lia.
    rewrite somes_app, app_length. cbn [length]. rewrite Nat.add_1_r, seq_S, flat_map_app. cbn [flat_map Nat.add].
    rewrite app_nil_r.
    assert (Hpre : flat_map (fun i => if T i then opt_list (nth_error (d ++ [x]) i) else []) (seq 0 (length d))
                 = flat_map (fun i => if T i then opt_list (nth_error d i) else []) (seq 0 (length d))).
    { apply flat_map_ext_in_l. intros i Hi. apply in_seq in Hi. rewrite nth_error_app1 by lia. reflexivity. }
    rewrite Hpre.
    assert (IH' : Permutation (somes s ++ flat_map (fun i => if T i then opt_list (nth_error d i) else []) (seq 0 (length d))) d).
    { apply IH; [exact Hls|]. intros i Hi. specialize (Hn i ltac:(rewrite app_length; cbn; lia)).
      rewrite nth_error_app1 in Hn by lia. rewrite nth_error_app1 in Hn by lia. exact Hn. }
    specialize (Hn (length d) ltac:(rewrite app_length; cbn; lia)).
    rewrite nth_error_app2 in Hn by lia. rewrite Hls, Nat.sub_diag in Hn. cbn [nth_error] in Hn.
    rewrite nth_error_app2 by lia. rewrite Nat.sub_diag. cbn [nth_error].
    rewrite nth_error_app2 in Hn by lia. rewrite Nat.sub_diag in Hn. cbn [nth_error] in Hn.
    inversion Hn as [Ho]. destruct (T (length d)); cbn [somes fold_right opt_list].
    + rewrite app_nil_r. rewrite app_assoc. apply Permutation_app_tail. exact IH'.
    + rewrite app_nil_r. rewrite <- app_assoc.
      eapply Permutation_trans; [apply Permutation_app_head; apply Permutation_app_comm|].
      rewrite app_assoc. apply Permutation_app_tail. exact IH'.
Qed.

Lemma filter_split {X} (f : X -> bool) (l : list X) :
  Permutation l (filter f l ++ filter (fun x => negb (f x)) l).
Proof.
  induction l as [|x l IH]; [apply Permutation_refl|]. cbn [filter].
  destruct (f x); cbn [negb app]; [apply perm_skip; exact IH|].
  eapply Permutation_trans; [apply perm_skip; exact IH|]. apply Permutation_middle.
Qed.

Lemma flat_map_filter {X Y} (f : X -> bool) (g : X -> list Y) (l : list X) :
  flat_map (fun i => if f i then g i else []) l = flat_map g (filter f l).
Proof.
  induction l as [|x l IH]; [reflexivity|]. cbn [flat_map filter]. rewrite IH.
  destruct (f x); reflexivity.
Qed.

Definition memb (i : nat) (l : list nat) : bool := existsb (Nat.eqb i) l.
Lemma memb_in i l : memb i l = true <-> In i l.
Proof.
  unfold memb. rewrite existsb_exists. split.
  - intros [x [Hx He]]. apply Nat.eqb_eq in He. subst. exact Hx.
  - intros H. exists i. split; [exact H|apply Nat.eqb_refl].
Qed.

Theorem remove_col_leaked_all (t : toodee A) idx steps :
  Inv t -> idx < num_cols t -> (N.of_nat (length (data t)) < W)%N ->
  let colv := vals (data t) (col_cells (num_cols t) (num_rows t) idx) in
  let obs := fst (fst (run_vec_drain steps colv)) in
  let yielded := snd (fst (run_vec_drain steps colv)) in
  exists leaked,
    remove_col t (N.of_nat idx) steps ForgetIt = Ok (mkDrain (mkTD [] 0 0) true obs yielded [] leaked) /\
    Permutation (yielded ++ leaked) (data t).
Proof.
  intros Hi Hidx Hw colv obs yielded. pose proof Hi as [Hl Hz].
  destruct (drain_start t idx Hi Hidx Hw) as [Hinv0 [Hnr Hncl]].
  unfold remove_col.
  destruct (N.ltb_spec (N.of_nat idx) (N.of_nat (num_cols t))); [|lia]. cbn [negb]. rewrite Nat2N.id.
  unfold usub. destruct (Nat.leb_spec (num_cols t) (length (data t))); [|lia]. cbn [bind].
  destruct (run_dc_ok (data t) _ _ idx Hl Hidx steps _ _ Hinv0) as [d1 [l1 [E1 [Hinv1 Hv1]]]].
  fold colv in E1, Hv1. rewrite E1. cbn [bind]. fold (somes (dc_slots d1)).
  exists (somes (dc_slots d1)). split; [reflexivity|].
  destruct Hinv1 as [_ [Hnd1 [Hcol1 [Hsl Hslots]]]].
  set (cc := col_cells (num_cols t) (num_rows t) idx) in *.
  set (T := fun i => memb i cc && negb (memb i l1)).
  (* the buffer: everything but the taken column cells *)
  assert (Hbuf : Permutation (somes (dc_slots d1) ++ vals (data t) (filter T (seq 0 (length (data t))))) (data t)).
  { unfold vals. rewrite <- flat_map_filter.
    apply (somes_perm T (data t) (dc_slots d1) Hsl). intros i Hi'. rewrite (Hslots i Hi'). unfold T.
    destruct (in_dec Nat.eq_dec i l1) as [Hin|Hnin].
    - assert (memb i l1 = true) by (apply memb_in; exact Hin). rewrite H1, andb_false_r.
      destruct (nth_error (data t) i) eqn:En; [reflexivity|apply nth_error_None in En; lia].
    - assert (Hm : memb i l1 = false) by (destruct (memb i l1) eqn:Em; [apply memb_in in Em; contradiction|reflexivity]).
      rewrite Hm. cbn [negb]. rewrite andb_true_r.
      destruct (in_dec Nat.eq_dec i cc) as [Hc|Hnc].
      + assert (memb i cc = true) by (apply memb_in; exact Hc). rewrite H1. reflexivity.
      + assert (Hm2 : memb i cc = false) by (destruct (memb i cc) eqn:Em; [apply memb_in in Em; contradiction|reflexivity]).
        rewrite Hm2. destruct (nth_error (data t) i) eqn:En; [reflexivity|apply nth_error_None in En; lia]. }
  (* taken cells: the column's cells minus the ones still in the drain *)
  set (taken := filter (fun i => negb (memb i l1)) cc).
  assert (Hcc_nd : NoDup cc) by (apply col_cells_nodup; lia).
  assert (Hcc_lt : forall i, In i cc -> i < length (data t)).
  { intros i Hin. apply (in_col_lt (data t) (num_cols t) (num_rows t) idx Hl Hidx). apply (in_col_cells (data t) (num_cols t) (num_rows t) idx Hl Hidx). exact Hin. }
  assert (Htk : Permutation (filter T (seq 0 (length (data t)))) taken).
  { apply NoDup_Permutation; [apply NoDup_filter, seq_NoDup|apply NoDup_filter; exact Hcc_nd|].
    intros i. unfold taken, T. rewrite !filter_In, in_seq, andb_true_iff, memb_in. split.
    - intros [_ [Hc Hn]]. split; assumption.
    - intros [Hc Hn]. split; [split; [lia|apply Hcc_lt; exact Hc]|split; assumption]. }
  assert (Hrest : Permutation (filter (fun i => memb i l1) cc) l1).
  { apply NoDup_Permutation; [apply NoDup_filter; exact Hcc_nd|exact Hnd1|].
    intros i. rewrite filter_In, memb_in. split; [tauto|]. intros Hin. split; [|exact Hin].
    apply (in_col_cells (data t) (num_cols t) (num_rows t) idx Hl Hidx). apply Hcol1. exact Hin. }
  assert (Hvperm : forall a b, Permutation a b -> Permutation (vals (data t) a) (vals (data t) b)).
  { intros a b Hp. unfold vals. apply Permutation_flat_map. exact Hp. }
  assert (Hcol : Permutation colv (vals (data t) taken ++ vals (data t) l1)).
  { unfold colv. rewrite <- vals_app. apply Hvperm.
    eapply Permutation_trans; [apply (filter_split (fun i => negb (memb i l1)) cc)|].
    apply Permutation_app_head.
    assert (Hf : filter (fun x => negb (negb (memb x l1))) cc = filter (fun i => memb i l1) cc)
      by (apply filter_ext; intros a; apply negb_involutive).
    rewrite Hf. exact Hrest. }
  pose proof (run_vec_drain_conserves steps colv) as Hcons.
  destruct (run_vec_drain steps colv) as [[o y] rem] eqn:ER. cbn [fst snd] in *. subst yielded.
  rewrite Hv1 in Hcol.
  assert (Hy : Permutation y (vals (data t) taken)).
  { apply (Permutation_app_inv_r rem). eapply Permutation_trans; [exact Hcons|exact Hcol]. }
  eapply Permutation_trans; [apply Permutation_app_tail; exact Hy|].
  eapply Permutation_trans; [apply Permutation_app_comm|].
  eapply Permutation_trans; [|exact Hbuf]. apply Permutation_app_head. apply Hvperm. apply Permutation_sym. exact Htk.
Qed.

End Leak.
