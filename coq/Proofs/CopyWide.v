(** copy_within with destination corners of ANY magnitude (the binary-number path of the
    model): rectangles that do not fit are rejected before anything is written, in both
    build modes; the row loop never touches a cell outside the receiver; and the path
    agrees with the plain one wherever that one returns. *)
From TD Require Import Base.Prelude Model.Iter Model.View Model.Ops
  Proofs.ViewGeom Proofs.Frame Proofs.Access Proofs.OpsProofs Proofs.CopyProofs.

Definition frame_ok (v : view) (b b' : buf) : Prop :=
  length b' = length b /\ forall i, ~ in_view v i -> nth_error b' i = nth_error b i.

Lemma frame_refl v b : frame_ok v b b.
Proof. split; [reflexivity|]. intros; reflexivity. Qed.
Lemma frame_trans v b1 b2 b3 : frame_ok v b1 b2 -> frame_ok v b2 b3 -> frame_ok v b1 b3.
Proof.
  intros [L1 N1] [L2 N2]. split; [lia|]. intros i Hi. rewrite N2, N1 by exact Hi. reflexivity.
Qed.

(** a step is well-behaved: it panics, or it returns a buffer of the same length that
    differs only inside the receiver *)
Definition step_class (v : view) (step : buf -> res buf) : Prop :=
  forall b, fits v b -> step b = Panic \/ exists b', step b = Ok b' /\ frame_ok v b b'.

Lemma steps_w_panics v (step : nat -> buf -> res buf) :
  forall rs b, fits v b ->
  Forall (fun r => step_class v (step r)) rs ->
  Exists (fun r => forall b', fits v b' -> step r b' = Panic) rs ->
  exists b', steps_w step rs b = Ok (true, b') /\ frame_ok v b b'.
Proof.
  induction rs as [|r tl IH]; intros b Hb Hall Hex; [inversion Hex|].
  inversion Hall as [|? ? Hr Hall']; subst. cbn [steps_w].
  destruct (Hr b Hb) as [E|[b1 [E F1]]]; rewrite E.
  - exists b. split; [reflexivity|apply frame_refl].
  - assert (Hb1 : fits v b1) by (destruct F1 as [L _]; unfold fits in *; lia).
    inversion Hex as [? ? Hp|? ? Hex']; subst.
    + rewrite (Hp b Hb) in E. discriminate.
    + destruct (IH b1 Hb1 Hall' Hex') as [b' [E' F']]. exists b'. split; [exact E'|].
      eapply frame_trans; eassumption.
Qed.

Lemma mod_wrap a : (W <= a)%N -> (a < 2 * W)%N -> (a mod W = a - W)%N.
Proof.
  intros H1 H2. assert (HW : (0 < W)%N) by (unfold W; lia).
  rewrite (N.mod_eq _ W) by lia. replace (a / W)%N with 1%N; [lia|].
  apply N.div_unique with (r := (a - W)%N); lia.
Qed.

Section Wide.
Variable v : view.
Hypothesis Hwf : wf_view v.

Lemma in_view_of_row r i : r < vrows v -> in_win (row_win v r) i = true -> in_view v i.
Proof. intros Hr Hi. apply in_view_row. exists r. split; assumption. Qed.

(** the row-to-row copy of one step *)
Lemma copy_row_w_class b r r2 sx0 sx1 (dx e0 : N) :
  fits v b -> r < vrows v -> r2 < vrows v -> sx0 <= sx1 -> sx1 <= vcols v ->
  copy_row_to_row_w b (row_win v r) (row_win v r2) sx0 sx1 dx e0 = Panic \/
  exists b', copy_row_to_row_w b (row_win v r) (row_win v r2) sx0 sx1 dx e0 = Ok b' /\ frame_ok v b b'.
Proof.
  intros Hb Hr Hr2 Hle Hs. unfold copy_row_to_row_w, index_range_N.
  destruct ((dx <=? e0)%N && (e0 <=? N.of_nat (len (row_win v r2)))%N) eqn:Erange; cbn [bind]; [|left; reflexivity].
  apply Bool.andb_true_iff in Erange. destruct Erange as [X1 X2]. apply N.leb_le in X1, X2.
  cbn [row_win len] in X2.
  unfold index_range. cbn [row_win len off].
  destruct (Nat.leb_spec (N.to_nat dx) (N.to_nat e0)); [|lia].
  destruct (Nat.leb_spec (N.to_nat e0) (vcols v)); [|lia]. cbn [andb bind].
  destruct (Nat.leb_spec sx0 sx1); [|lia]. destruct (Nat.leb_spec sx1 (vcols v)); [|lia]. cbn [andb bind].
  unfold assert. cbn [len].
  destruct (Nat.eqb_spec (N.to_nat e0 - N.to_nat dx) (sx1 - sx0)) as [Ecols|]; cbn [bind]; [|left; reflexivity].
  right.
  rewrite read_win_ok by (cbn [off len]; pose proof (row_win_fits v b r Hwf Hb Hr); cbn [row_win off] in *; lia).
  cbn [bind off len].
  destruct (seg_copy_ok v b sx0 (N.to_nat dx) (sx1 - sx0) r r2 Hwf Hb Hr Hr2 ltac:(lia) ltac:(lia)) as [b1 [E1 [L1 N1]]].
  unfold seg_src in E1. cbn [row_win off len] in E1. rewrite Ecols. rewrite E1.
  exists b1. split; [reflexivity|]. split; [exact L1|].
  intros i Hi. rewrite N1. destruct (in_win (seg_src v (N.to_nat dx) (sx1 - sx0) r2) i) eqn:Ei; [|reflexivity].
  exfalso. apply Hi. apply (in_view_of_row r2 i Hr2).
  unfold in_win in *. cbn [seg_src row_win off len] in *.
  apply Bool.andb_true_iff in Ei. destruct Ei as [Y1 Y2]. apply Nat.leb_le in Y1. apply Nat.ltb_lt in Y2.
  apply Bool.andb_true_iff. split; [apply Nat.leb_le|apply Nat.ltb_lt]; lia.
Qed.

Lemma cw_step_class oc down off_ sx0 sx1 dx e0 r :
  r < vrows v -> sx0 <= sx1 -> sx1 <= vcols v ->
  step_class v (cw_step_w oc v down off_ sx0 sx1 dx e0 r).
Proof.
  intros Hr Hle Hs b Hb. unfold cw_step_w.
  destruct (if down then uadd oc (N.of_nat r) off_ else Ok (N.of_nat r - off_)%N) as [r2| |] eqn:E2; cbn [bind];
    [|left; reflexivity|].
  - destruct (N.ltb_spec r2 (N.of_nat (vrows v))) as [H2|H2];
      [|rewrite op_row_pair_reject by (right; left; exact H2); left; reflexivity].
    destruct (N.eq_dec (N.of_nat r) r2) as [Heq|Hne];
      [rewrite op_row_pair_reject by (right; right; exact Heq); left; reflexivity|].
    rewrite op_row_pair_spec by (try assumption; lia). rewrite Nat2N.id. cbn [bind fst snd].
    apply copy_row_w_class; try assumption. lia.
  - exfalso. destruct down; [|discriminate]. unfold uadd in E2.
    destruct (N.of_nat r + off_ <? W)%N; [discriminate|]. destruct oc; discriminate.
Qed.

(** (a) a destination column range that is empty-negative - the wrapped sum lies below the
    start - makes every step panic before anything is written *)
Lemma cw_step_panics_cols oc down off_ sx0 sx1 (dx e0 : N) r b :
  r < vrows v -> (e0 < dx)%N -> cw_step_w oc v down off_ sx0 sx1 dx e0 r b = Panic.
Proof.
  intros Hr Hlt. unfold cw_step_w.
  destruct (if down then uadd oc (N.of_nat r) off_ else Ok (N.of_nat r - off_)%N) as [r2| |] eqn:E2; cbn [bind];
    [|reflexivity|].
  - destruct (N.ltb_spec r2 (N.of_nat (vrows v))) as [H2|H2];
      [|apply f_equal with (f := fun x => x); rewrite op_row_pair_reject by (right; left; exact H2); reflexivity].
    destruct (N.eq_dec (N.of_nat r) r2) as [Heq|Hne];
      [rewrite op_row_pair_reject by (right; right; exact Heq); reflexivity|].
    rewrite op_row_pair_spec by (try assumption; lia). cbn [bind fst snd].
    unfold copy_row_to_row_w, index_range_N. destruct (N.leb_spec dx e0); [lia|]. reflexivity.
  - exfalso. destruct down; [|discriminate]. unfold uadd in E2.
    destruct (N.of_nat r + off_ <? W)%N; [discriminate|]. destruct oc; discriminate.
Qed.

(** (b) a destination row at or beyond the last row *)
Lemma cw_step_panics_row oc off_ sx0 sx1 (dx e0 : N) r b :
  (N.of_nat r + off_ < W)%N -> (N.of_nat (vrows v) <= N.of_nat r + off_)%N ->
  cw_step_w oc v true off_ sx0 sx1 dx e0 r b = Panic.
Proof.
  intros Hw Hge. unfold cw_step_w, uadd. destruct (N.ltb_spec (N.of_nat r + off_) W); [|lia]. cbn [bind].
  rewrite op_row_pair_reject by (right; left; exact Hge). reflexivity.
Qed.

Lemma cw_same_step_class sx0 sx1 dx r :
  r < vrows v -> step_class v (cw_same_step_w v sx0 sx1 dx r).
Proof.
  intros Hr b Hb. unfold cw_same_step_w.
  rewrite (index_row_in v Hwf (N.of_nat r)) by lia. rewrite Nat2N.id. cbn [bind]. fold (row_win v r).
  unfold assert. cbn [row_win len off].
  destruct ((sx0 <=? sx1) && (sx1 <=? vcols v)) eqn:E1; cbn [bind]; [|left; reflexivity].
  apply Bool.andb_true_iff in E1. destruct E1 as [X1 X2]. apply Nat.leb_le in X1, X2.
  destruct (N.leb_spec dx (N.of_nat (vcols v - (sx1 - sx0)))) as [X3|]; cbn [bind]; [|left; reflexivity].
  right.
  rewrite read_win_ok by (cbn [off len]; pose proof (row_win_fits v b r Hwf Hb Hr); cbn [row_win off] in *; lia).
  cbn [bind off len].
  destruct (seg_copy_ok v b sx0 (N.to_nat dx) (sx1 - sx0) r r Hwf Hb Hr Hr ltac:(lia) ltac:(lia)) as [b1 [E1 [L1 N1]]].
  unfold seg_src in E1. cbn [row_win off len] in E1. rewrite E1.
  exists b1. split; [reflexivity|]. split; [exact L1|].
  intros i Hi. rewrite N1. destruct (in_win (seg_src v (N.to_nat dx) (sx1 - sx0) r) i) eqn:Ei; [|reflexivity].
  exfalso. apply Hi. apply (in_view_of_row r i Hr).
  unfold in_win in *. cbn [seg_src row_win off len] in *.
  apply Bool.andb_true_iff in Ei. destruct Ei as [Y1 Y2]. apply Nat.leb_le in Y1. apply Nat.ltb_lt in Y2.
  apply Bool.andb_true_iff. split; [apply Nat.leb_le|apply Nat.ltb_lt]; lia.
Qed.

Lemma cw_same_step_panics sx0 sx1 (dx : N) r b :
  r < vrows v -> sx0 <= sx1 -> sx1 <= vcols v -> (N.of_nat (vcols v - (sx1 - sx0)) < dx)%N ->
  cw_same_step_w v sx0 sx1 dx r b = Panic.
Proof.
  intros Hr Hle Hs Hlt. unfold cw_same_step_w.
  rewrite (index_row_in v Hwf (N.of_nat r)) by lia. cbn [bind len]. unfold assert.
  destruct (Nat.leb_spec sx0 sx1); [|lia]. destruct (Nat.leb_spec sx1 (vcols v)); [|lia]. cbn [andb bind].
  destruct (N.leb_spec dx (N.of_nat (vcols v - (sx1 - sx0)))); [lia|]. reflexivity.
Qed.

Lemma Forall_seq_lt s n (P : nat -> Prop) : (forall r, s <= r < s + n -> P r) -> Forall P (seq s n).
Proof. intros H. apply Forall_forall. intros r Hr. apply in_seq in Hr. apply H. exact Hr. Qed.

(** * the theorem: every magnitude of destination corner, with and without overflow checks.
    Since the D14 repair (checked sums in the two destination assertions) every call whose
    rectangles do not fit - empty source or not - is rejected before the first row is
    touched, in both build modes *)
Theorem op_copy_within_w_rejects oc b (x0 y0 x1 y1 dx dy : N) :
  ~ ((x0 <= x1)%N /\ (y0 <= y1)%N /\ (x1 <= N.of_nat (vcols v))%N /\ (y1 <= N.of_nat (vrows v))%N /\
     (dx + (x1 - x0) <= N.of_nat (vcols v))%N /\ (dy + (y1 - y0) <= N.of_nat (vrows v))%N) ->
  op_copy_within_w oc v b x0 y0 x1 y1 dx dy = Ok (true, b).
Proof.
  intros H. unfold op_copy_within_w, assert.
  destruct (N.leb_spec x0 x1); cbn [bind]; [|reflexivity].
  destruct (N.leb_spec y0 y1); cbn [bind]; [|reflexivity].
  destruct (N.leb_spec x1 (N.of_nat (vcols v))); cbn [bind]; [|reflexivity].
  destruct (N.leb_spec y1 (N.of_nat (vrows v))); cbn [bind]; [|reflexivity].
  unfold cadd. destruct (N.ltb_spec (dx + (x1 - x0)) W); cbn [bind]; [|reflexivity].
  destruct (N.leb_spec (dx + (x1 - x0)) (N.of_nat (vcols v))); cbn [bind]; [|reflexivity].
  destruct (N.ltb_spec (dy + (y1 - y0)) W); cbn [bind]; [|reflexivity].
  destruct (N.leb_spec (dy + (y1 - y0)) (N.of_nat (vrows v))); cbn [bind]; [|reflexivity].
  exfalso. apply H. repeat split; assumption.
Qed.

(** when the rectangles fit, every step of the row loop is well-behaved (no step of the
    loop can fail in a way that would touch a cell outside the receiver) *)
Lemma rows_w_frame oc down off_ sx0 sx1 dx e0 rs b :
  fits v b -> Forall (fun r => r < vrows v) rs -> sx0 <= sx1 -> sx1 <= vcols v ->
  exists p b', copy_within_rows_w oc v rs down off_ sx0 sx1 dx e0 b = Ok (p, b') /\ frame_ok v b b'.
Proof.
  intros Hb Hall Hle Hs. unfold copy_within_rows_w. revert b Hb.
  induction rs as [|r tl IH]; intros b Hb; cbn [steps_w].
  - exists false, b. split; [reflexivity|apply frame_refl].
  - inversion Hall as [|? ? Hr Hall']; subst.
    destruct (cw_step_class oc down off_ sx0 sx1 dx e0 r Hr Hle Hs b Hb) as [E|[b1 [E F1]]]; rewrite E.
    + exists true, b. split; [reflexivity|apply frame_refl].
    + assert (Hb1 : fits v b1) by (destruct F1 as [L _]; unfold fits in *; lia).
      destruct (IH Hall' b1 Hb1) as [p [b' [E' F']]]. exists p, b'. split; [exact E'|].
      eapply frame_trans; eassumption.
Qed.

End Wide.

(** * the binary-number path agrees with the plain one wherever that one returns: every
    theorem about a completed [op_copy_within] (C14_copy_within, same-as-owned, frame)
    holds of [op_copy_within_w], which thereby models copy_within for ALL arguments *)
Lemma copy_row_w_agree b s d sx0 sx1 (dx cols : N) :
  copy_row_to_row_w b s d sx0 sx1 dx (dx + cols) = copy_row_to_row b s d sx0 sx1 (N.to_nat dx) (N.to_nat cols).
Proof.
  unfold copy_row_to_row_w, copy_row_to_row, index_range_N, index_range.
  destruct (N.leb_spec dx (dx + cols)); [|lia]. cbn [andb].
  replace (N.to_nat (dx + cols)) with (N.to_nat dx + N.to_nat cols) by lia.
  destruct (Nat.leb_spec (N.to_nat dx) (N.to_nat dx + N.to_nat cols)); [|lia]. cbn [andb].
  destruct (N.leb_spec (dx + cols) (N.of_nat (len d))); destruct (Nat.leb_spec (N.to_nat dx + N.to_nat cols) (len d));
    try lia; reflexivity.
Qed.

Lemma rows_w_agree oc v down (off_ dx cols : N) sx0 sx1 : forall rs b b',
  Forall (fun r => (down = true -> (N.of_nat r + off_ < W)%N) /\ (down = false -> (off_ <= N.of_nat r)%N)) rs ->
  copy_within_rows v rs down (N.to_nat off_) sx0 sx1 (N.to_nat dx) (N.to_nat cols) b = Ok b' ->
  copy_within_rows_w oc v rs down off_ sx0 sx1 dx (dx + cols)%N b = Ok (false, b').
Proof.
  unfold copy_within_rows_w.
  induction rs as [|r tl IH]; intros b b' Hall H; cbn [copy_within_rows steps_w] in *; [inversion H; reflexivity|].
  inversion Hall as [|? ? [Hw Hup] Hall']; subst.
  assert (Estep : cw_step_w oc v down off_ sx0 sx1 dx (dx + cols)%N r b =
                  (p <- op_row_pair v (N.of_nat r) (N.of_nat (if down then r + N.to_nat off_ else r - N.to_nat off_)) ;;
                   copy_row_to_row b (fst p) (snd p) sx0 sx1 (N.to_nat dx) (N.to_nat cols))).
  { unfold cw_step_w. destruct down.
    - specialize (Hw eq_refl). unfold uadd. destruct (N.ltb_spec (N.of_nat r + off_) W); [|lia]. cbn [bind].
      replace (N.of_nat (r + N.to_nat off_)) with (N.of_nat r + off_)%N by lia.
      destruct (op_row_pair v (N.of_nat r) (N.of_nat r + off_)) as [p| |]; cbn [bind]; try reflexivity.
      apply copy_row_w_agree.
    - cbn [bind]. specialize (Hup eq_refl).
      replace (N.of_nat (r - N.to_nat off_)) with (N.of_nat r - off_)%N by lia.
      destruct (op_row_pair v (N.of_nat r) (N.of_nat r - off_)) as [p| |]; cbn [bind]; try reflexivity.
      apply copy_row_w_agree. }
  rewrite Estep.
  destruct (op_row_pair v (N.of_nat r) (N.of_nat (if down then r + N.to_nat off_ else r - N.to_nat off_))) as [p| |];
    cbn [bind] in *; try discriminate.
  destruct (copy_row_to_row b (fst p) (snd p) sx0 sx1 (N.to_nat dx) (N.to_nat cols)) as [b1| |]; cbn [bind] in *; try discriminate.
  apply IH; assumption.
Qed.

Lemma same_w_agree v sx0 sx1 (dx : N) : forall rs b b',
  copy_within_same v rs sx0 sx1 (N.to_nat dx) b = Ok b' ->
  copy_within_same_w v rs sx0 sx1 dx b = Ok (false, b').
Proof.
  unfold copy_within_same_w.
  induction rs as [|r tl IH]; intros b b' H; cbn [copy_within_same steps_w] in *; [inversion H; reflexivity|].
  unfold cw_same_step_w at 1.
  destruct (v_index_row v (N.of_nat r)) as [w| |]; cbn [bind] in *; try discriminate.
  unfold assert in *.
  destruct (Nat.leb_spec sx0 sx1); cbn [andb bind] in *; [|discriminate].
  destruct (Nat.leb_spec sx1 (len w)); cbn [andb bind] in *; [|discriminate].
  destruct (Nat.leb_spec (N.to_nat dx + (sx1 - sx0)) (len w)); cbn [bind] in *; [|discriminate].
  destruct (N.leb_spec dx (N.of_nat (len w - (sx1 - sx0)))); [|lia]. cbn [bind].
  destruct (read_win b (mkSl (off w + sx0) (sx1 - sx0))) as [xs| |]; cbn [bind] in *; try discriminate.
  destruct (write_win b (mkSl (off w + N.to_nat dx) (sx1 - sx0)) xs) as [b1| |]; cbn [bind] in *; try discriminate.
  apply IH. exact H.
Qed.

Theorem op_copy_within_w_agrees oc v b b' (x0 y0 x1 y1 dx dy : N) :
  (N.of_nat (vrows v) < W)%N ->
  op_copy_within oc v b x0 y0 x1 y1 dx dy = Ok b' ->
  op_copy_within_w oc v b x0 y0 x1 y1 dx dy = Ok (false, b').
Proof.
  intros Hrw. unfold op_copy_within, op_copy_within_w, assert.
  destruct (N.leb_spec x0 x1); cbn [bind]; [|discriminate].
  destruct (N.leb_spec y0 y1); cbn [bind]; [|discriminate].
  destruct (N.leb_spec x1 (N.of_nat (vcols v))); cbn [bind]; [|discriminate].
  destruct (N.leb_spec y1 (N.of_nat (vrows v))); cbn [bind]; [|discriminate].
  unfold cadd. destruct (N.ltb_spec (dx + (x1 - x0)) W); cbn [bind]; [|discriminate].
  destruct (N.leb_spec (dx + (x1 - x0)) (N.of_nat (vcols v))); cbn [bind]; [|discriminate].
  destruct (N.ltb_spec (dy + (y1 - y0)) W); cbn [bind]; [|discriminate].
  destruct (N.leb_spec (dy + (y1 - y0)) (N.of_nat (vrows v))); cbn [bind]; [|discriminate].
  destruct (N.ltb_spec y0 dy); [|destruct (N.ltb_spec dy y0)].
  - destruct (seq (N.to_nat y0) (N.to_nat (y1 - y0))) as [|r0 rs0] eqn:Eseq.
    + intros E. inversion E. reflexivity.
    + rewrite <- Eseq. intros E.
      replace (N.to_nat dy - N.to_nat y0) with (N.to_nat (dy - y0)) in E by lia.
      rewrite (rows_w_agree oc v true (dy - y0) dx (x1 - x0) (N.to_nat x0) (N.to_nat x1) _ b b'); [reflexivity| |exact E].
      apply Forall_rev. apply Forall_seq_lt. intros r Hrr. split; [intros _; lia|discriminate].
  - intros E. replace (N.to_nat y0 - N.to_nat dy) with (N.to_nat (y0 - dy)) in E by lia.
    rewrite (rows_w_agree oc v false (y0 - dy) dx (x1 - x0) (N.to_nat x0) (N.to_nat x1) _ b b'); [reflexivity| |exact E].
    apply Forall_seq_lt. intros r Hrr. split; [discriminate|intros _; lia].
  - destruct (seq (N.to_nat y0) (N.to_nat (y1 - y0))) as [|r0 rs0] eqn:Eseq.
    + intros E. inversion E. reflexivity.
    + rewrite <- Eseq. intros E. rewrite (same_w_agree v _ _ dx _ b b' E). reflexivity.
Qed.
