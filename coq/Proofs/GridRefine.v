(** C01, first clause, as a theorem: every step of the history machine refines the plain
    rows-of-cells model ([g_step], the specification the run-time oracle evaluates).  For
    every state satisfying the invariant, every operation and arguments, wherever the plain
    model specifies the step ([ExpGrid]) the owned array accepts / rejects exactly as the
    plain model does, returns the same values, and its cells read as rows of [num_cols] are
    the plain model's grid. *)
From Coq Require Import Permutation.
From TD Require Import Base.Prelude Base.Codec Spec.Grid Spec.Inv Spec.HistSpec Model.Iter Model.Owned
  Model.Access Model.Hist Proofs.ListLemmas Proofs.InsertRow Proofs.InsertCol Proofs.RemoveRow
  Proofs.RemoveCol Proofs.HistInv Proofs.CopyProofs.

Section GridLemmas.
Context {A : Type}.
Implicit Type t : toodee A.

Lemma chunks_concat w : forall (rows : list (list A)),
  Forall (fun r => length r = w) rows -> chunks (length rows) w (concat rows) = rows.
Proof.
  induction rows as [|r rows IH]; intros H; [reflexivity|].
  inversion H as [|? ? Hr Hrest]; subst. cbn [length chunks concat].
  rewrite firstn_app, Nat.sub_diag, firstn_all. cbn [firstn]. rewrite app_nil_r.
  rewrite skipn_app, Nat.sub_diag, skipn_all. cbn [skipn app]. rewrite IH by assumption. reflexivity.
Qed.

Lemma to_grid_dims t : Inv t -> g_height (to_grid t) = num_rows t /\ g_width (to_grid t) = num_cols t.
Proof.
  intros [Hl Hz]. unfold to_grid, g_of_data, g_height. rewrite chunks_length. split; [reflexivity|].
  destruct (num_rows t) as [|n] eqn:En; cbn [chunks g_width].
  - symmetry. apply Hz. reflexivity.
  - rewrite firstn_length. nia.
Qed.

Lemma to_grid_cells t : Inv t -> g_cells (to_grid t) = data t.
Proof. intros [Hl _]. unfold g_cells, to_grid, g_of_data. apply concat_chunks. exact Hl. Qed.

Lemma to_grid_nth t r : Inv t -> r < num_rows t -> nth_error (to_grid t) r = Some (row_of t r).
Proof. intros _ Hr. unfold to_grid, g_of_data, row_of, slice. apply chunks_nth_local. exact Hr. Qed.

Lemma to_grid_nil t : Inv t -> num_rows t = 0 -> to_grid t = [].
Proof. intros _ H. unfold to_grid, g_of_data. rewrite H. reflexivity. Qed.

Lemma to_grid_nonnil t : Inv t -> 0 < num_rows t -> to_grid t <> [].
Proof.
  intros Hi Hr Hn. pose proof (to_grid_dims t Hi) as [Hh _]. rewrite Hn in Hh. cbn in Hh. lia.
Qed.

(** removing row [i]: the chunks of the buffer without that row *)
Lemma chunks_remove_row C : forall i R (d : list A), i < R -> length d = C * R ->
  chunks (R - 1) C (firstn (i * C) d ++ skipn (i * C + C) d) = remove_at i (chunks R C d).
Proof.
  induction i as [|i IH]; intros R d Hi Hd.
  - destruct R as [|R]; [lia|]. replace (S R - 1) with R by lia.
    cbn [Nat.mul Nat.add firstn app chunks remove_at]. reflexivity.
  - destruct R as [|R]; [lia|]. destruct R as [|R]; [lia|].
    replace (S (S R) - 1) with (S R) by lia. cbn [chunks remove_at].
    assert (HC : C <= length d) by (rewrite Hd; nia).
    assert (E1 : firstn C (firstn (S i * C) d ++ skipn (S i * C + C) d) = firstn C d).
    { rewrite firstn_app, firstn_firstn, firstn_length.
      replace (Nat.min C (S i * C)) with C by nia.
      replace (C - Nat.min (S i * C) (length d)) with 0 by nia. cbn [firstn]. apply app_nil_r. }
    assert (E2 : skipn C (firstn (S i * C) d ++ skipn (S i * C + C) d)
                 = firstn (i * C) (skipn C d) ++ skipn (i * C + C) (skipn C d)).
    { rewrite skipn_app, firstn_length. replace (C - Nat.min (S i * C) (length d)) with 0 by nia. cbn [skipn].
      f_equal.
      - rewrite skipn_firstn_comm. f_equal. cbn [Nat.mul]. lia.
      - replace (S i * C + C) with (C + (i * C + C)) by (cbn [Nat.mul]; lia). apply skipn_add. }
    rewrite E1, E2. f_equal.
    specialize (IH (S R) (skipn C d) ltac:(lia) ltac:(rewrite skipn_length; nia)).
    replace (S R - 1) with R in IH by lia. exact IH.
Qed.

Lemma without_row_grid t idx : Inv t -> idx < num_rows t ->
  to_grid (without_row t idx) = remove_at idx (to_grid t).
Proof.
  intros [Hl Hz] Hidx. unfold without_row, to_grid, g_of_data.
  destruct (Nat.eqb_spec (num_rows t - 1) 0) as [E|E].
  - assert (num_rows t = 1) by lia. assert (idx = 0) by lia. subst idx. rewrite H. cbn. reflexivity.
  - cbn [data num_rows num_cols]. apply chunks_remove_row; assumption.
Qed.

(** what the caller of a drain observes = the ideal run of the script over the line *)
Lemma drain_obs_ideal (steps : list drain_step) : forall (line : list elt),
  concat (map enc_drain_obs (fst (fst (run_vec_drain steps line)))) = ideal_drain steps line.
Proof.
  induction steps as [|s steps IH]; intros line; [reflexivity|].
  destruct s; cbn [run_vec_drain ideal_drain].
  - destruct line as [|x l].
    + specialize (IH []). destruct (run_vec_drain steps []) as [[o y] r]. cbn in *. rewrite IH. reflexivity.
    + specialize (IH l). destruct (run_vec_drain steps l) as [[o y] r]. cbn in *. rewrite IH. reflexivity.
  - destruct (rev line) as [|x l'].
    + specialize (IH line). destruct (run_vec_drain steps line) as [[o y] r]. cbn in *. rewrite IH. reflexivity.
    + specialize (IH (rev l')). destruct (run_vec_drain steps (rev l')) as [[o y] r]. cbn in *. rewrite IH. reflexivity.
  - specialize (IH line). destruct (run_vec_drain steps line) as [[o y] r]. cbn in *. rewrite IH. reflexivity.
  - destruct line as [|x l].
    + apply IH.
    + specialize (IH l). destruct (run_vec_drain steps l) as [[o y] r]. cbn in *. exact IH.
  - destruct (rev line) as [|x l'].
    + apply IH.
    + specialize (IH (rev l')). destruct (run_vec_drain steps (rev l')) as [[o y] r]. cbn in *. exact IH.
Qed.

(** fill: every cell becomes [v] *)
Lemma chunks_repeat (v : A) c : forall n (d : list A), length d = c * n ->
  chunks n c (repeat v (c * n)) = map (map (fun _ => v)) (chunks n c d).
Proof.
  induction n as [|n IH]; intros d Hd; [reflexivity|].
  cbn [chunks map]. replace (c * S n) with (c + c * n) by lia. rewrite repeat_app.
  rewrite firstn_app, repeat_length, Nat.sub_diag, firstn_all2 by (rewrite repeat_length; lia). cbn [firstn]. rewrite app_nil_r.
  rewrite skipn_app, repeat_length, Nat.sub_diag, skipn_all2 by (rewrite repeat_length; lia). cbn [skipn app].
  rewrite (IH (skipn c d)) by (rewrite skipn_length; lia). f_equal.
  assert (Hf : length (firstn c d) = c) by (rewrite firstn_length; nia).
  clear -Hf. revert Hf. generalize (firstn c d). induction c as [|c IHc]; intros l Hl.
  - destruct l; [reflexivity|discriminate].
  - destruct l as [|x l]; [discriminate|]. cbn. f_equal. apply IHc. cbn in Hl. lia.
Qed.

End GridLemmas.

(** * row and column operations against the grid operations *)
Section Ops.
Context {A : Type}.
Implicit Type t : toodee A.

Lemma Inv_rows_cols t : Inv t -> 0 < num_rows t -> 0 < num_cols t.
Proof. intros [_ Hz] Hr. destruct (num_cols t); [assert (num_rows t = 0) by (apply Hz; reflexivity); lia|lia]. Qed.
Lemma Inv_data_nil t : Inv t -> num_rows t = 0 -> data t = [].
Proof. intros [Hl _] H. apply length_zero_iff_nil. rewrite Hl, H. lia. Qed.

Lemma grid_case {X} (g : grid A) (a b : X) : g <> [] -> match g with [] => a | _ :: _ => b end = b.
Proof. destruct g; [contradiction|reflexivity]. Qed.

(** insert_row / push_row with an honest iterator = [g_insert_row] *)
Lemma insert_row_refines dbg cap spare t (index : N) xs r :
  Inv t -> (N.of_nat (length (data t)) + N.of_nat (length xs) <= cap)%N ->
  insert_row dbg cap spare t index (honest_script xs) = Ok r ->
  if (index <=? N.of_nat (num_rows t))%N then
    match g_insert_row (N.to_nat index) xs (to_grid t) with
    | Some g' => o_ok r = true /\ to_grid (o_td r) = g'
    | None => r = mkOp t false xs []
    end
  else r = mkOp t false xs [].
Proof.
  intros Hi Hcap H. pose proof (to_grid_dims t Hi) as [Hh Hw].
  destruct (N.leb_spec index (N.of_nat (num_rows t))) as [Hle|Hgt].
  2:{ rewrite insert_row_reject in H by (left; exact Hgt). inversion H. reflexivity. }
  unfold g_insert_row. rewrite Hh. destruct (Nat.leb_spec (N.to_nat index) (num_rows t)); [|lia]. cbn [negb].
  replace index with (N.of_nat (N.to_nat index)) in H by lia.
  destruct (Nat.eq_dec (num_rows t) 0) as [Hr0|Hrn].
  - rewrite (to_grid_nil t Hi Hr0).
    rewrite (insert_row_accept dbg cap spare t (N.to_nat index) xs Hi ltac:(lia) (or_introl Hr0) Hcap) in H.
    inversion H; subst r. cbn [o_ok o_td]. split; [reflexivity|].
    assert (N.to_nat index = 0) by lia. rewrite H1, (Inv_data_nil t Hi Hr0), Hr0.
    destruct xs as [|x xs']; [reflexivity|]. cbn [length Nat.eqb Nat.mul firstn skipn app Nat.add].
    unfold to_grid, g_of_data. cbn [data num_rows num_cols chunks]. rewrite app_nil_r.
    rewrite firstn_all2 by (cbn; lia). reflexivity.
  - assert (Hne : to_grid t <> []) by (apply to_grid_nonnil; [exact Hi|lia]).
    rewrite (grid_case (to_grid t) _ _ Hne), Hw.
    destruct (Nat.eqb_spec (length xs) (num_cols t)) as [Hx|Hx].
    + rewrite (insert_row_accept dbg cap spare t (N.to_nat index) xs Hi ltac:(lia) (or_intror Hx) Hcap) in H.
      inversion H; subst r. cbn [o_ok o_td]. split; [reflexivity|].
      pose proof (Inv_rows_cols t Hi ltac:(lia)) as Hc.
      destruct (Nat.eqb_spec (length xs) 0); [lia|].
      apply insert_row_grid; [exact Hi|lia|exact Hx|exact Hc].
    + rewrite insert_row_reject in H by (right; split; [exact Hrn|exact Hx]). inversion H. reflexivity.
Qed.

(** insert_col / push_col with an honest iterator = [g_insert_col] *)
Lemma map2_insert_nil (xs : list A) : forall n, length xs = n ->
  map2 (fun x row => insert_at 0 x row) xs (chunks n 0 ([] : list A)) = map (fun x => [x]) xs.
Proof.
  induction xs as [|x xs IH]; intros n Hn; [destruct n; reflexivity|].
  destruct n as [|n]; [discriminate|]. cbn [chunks firstn skipn map2 map insert_at]. f_equal. apply IH. cbn in Hn. lia.
Qed.

Lemma insert_col_refines dbg cap spare t (index : N) xs r :
  Inv t -> (N.of_nat (length (data t)) + N.of_nat (length xs) <= cap)%N ->
  insert_col dbg cap spare t index (honest_script xs) = Ok r ->
  if (index <=? N.of_nat (num_cols t))%N then
    match g_insert_col (N.to_nat index) xs (to_grid t) with
    | Some g' => o_ok r = true /\ to_grid (o_td r) = g'
    | None => r = mkOp t false xs []
    end
  else r = mkOp t false xs [].
Proof.
  intros Hi Hcap H. pose proof Hi as [Hl Hz]. pose proof (to_grid_dims t Hi) as [Hh Hw].
  destruct (N.leb_spec index (N.of_nat (num_cols t))) as [Hle|Hgt].
  2:{ rewrite insert_col_reject in H by (left; exact Hgt). inversion H. reflexivity. }
  unfold g_insert_col. rewrite Hw. destruct (Nat.leb_spec (N.to_nat index) (num_cols t)); [|lia]. cbn [negb].
  replace index with (N.of_nat (N.to_nat index)) in H by lia.
  assert (Hgrid : forall (Hwd : num_cols t = 0 \/ length xs = num_rows t) d',
            length d' = (num_cols t + 1) * length xs ->
            (forall rr c, rr < length xs -> c <= num_cols t ->
               nth_error d' (rr * (num_cols t + 1) + c) = fv (data t) xs (num_cols t) (N.to_nat index) rr c) ->
            to_grid (if 0 <? length xs then mkTD d' (length xs) (num_cols t + 1) else mkTD d' 0 0)
            = map2 (fun x row => insert_at (N.to_nat index) x row) xs (chunks (length xs) (num_cols t) (data t))).
  { intros Hwd d' Hld Hn.
    assert (Hdata : length (data t) = num_cols t * length xs).
    { destruct Hwd as [Hq0|Hx]; [rewrite Hl, Hq0; lia|rewrite Hl, Hx; reflexivity]. }
    pose proof (insert_col_rows (data t) xs d' (num_cols t) (N.to_nat index) ltac:(lia) Hdata Hld Hn) as Hrows.
    destruct (chunks_uniform (num_cols t) (length xs) (data t) Hdata) as [Hu Hcl].
    set (rows' := map2 (fun x row => insert_at (N.to_nat index) x row) xs (chunks (length xs) (num_cols t) (data t))) in *.
    assert (Hl' : length rows' = length xs) by (unfold rows'; rewrite map2_length; [reflexivity|lia]).
    assert (Hu' : Forall (fun row => length row = num_cols t + 1) rows').
    { apply Forall_forall. intros row Hin. destruct (In_nth_error _ _ Hin) as [k Hk].
      unfold rows' in Hk. rewrite map2_nth in Hk.
      destruct (nth_error xs k) as [x|]; [|discriminate].
      destruct (nth_error (chunks (length xs) (num_cols t) (data t)) k) as [row0|] eqn:Er; [|discriminate].
      inversion Hk; subst row.
      assert (length row0 = num_cols t) by (apply (proj1 (Forall_forall _ _) Hu); eapply nth_error_In; exact Er).
      rewrite insert_at_length by lia. lia. }
    destruct (Nat.ltb_spec 0 (length xs)) as [Hpos|Hz0].
    - unfold to_grid, g_of_data. cbn [data num_rows num_cols]. rewrite Hrows, <- Hl'. apply chunks_concat. exact Hu'.
    - assert (length xs = 0) by lia. unfold to_grid, g_of_data. cbn [num_rows chunks].
      destruct xs; [reflexivity|discriminate]. }
  destruct (Nat.eq_dec (num_cols t) 0) as [Hc0|Hcn].
  - assert (Hr0 : num_rows t = 0) by (apply Hz; exact Hc0).
    rewrite (to_grid_nil t Hi Hr0).
    destruct (insert_col_accept dbg cap spare t (N.to_nat index) xs Hi ltac:(lia) (or_introl Hc0) Hcap) as [d' [E [Hld Hn]]].
    rewrite E in H. inversion H; subst r. cbn [o_ok o_td]. split; [reflexivity|].
    rewrite (Hgrid (or_introl Hc0) d' Hld Hn). rewrite Hc0, (Inv_data_nil t Hi Hr0).
    assert (N.to_nat index = 0) by lia. rewrite H1. apply map2_insert_nil. reflexivity.
  - assert (Hrn : num_rows t <> 0) by (intros E0; apply Hcn; apply Hz; exact E0).
    assert (Hne : to_grid t <> []) by (apply to_grid_nonnil; [exact Hi|lia]).
    rewrite (grid_case (to_grid t) _ _ Hne), Hh.
    destruct (Nat.eqb_spec (length xs) (num_rows t)) as [Hx|Hx].
    + destruct (insert_col_accept dbg cap spare t (N.to_nat index) xs Hi ltac:(lia) (or_intror Hx) Hcap) as [d' [E [Hld Hn]]].
      rewrite E in H. inversion H; subst r. cbn [o_ok o_td]. split; [reflexivity|].
      rewrite (Hgrid (or_intror Hx) d' Hld Hn). unfold to_grid, g_of_data. rewrite Hx. reflexivity.
    + rewrite insert_col_reject in H by (right; split; [exact Hcn|exact Hx]). inversion H. reflexivity.
Qed.

End Ops.

(** * removals *)
Lemma chunks_as_map {A} nc (d : list A) : forall n,
  chunks n nc d = map (fun r => firstn nc (skipn (r * nc) d)) (seq 0 n).
Proof.
  intros n. apply list_ext. intros r. destruct (Nat.lt_ge_cases r n) as [Hr|Hr].
  - rewrite (chunks_nth_local nc d n r Hr). rewrite nth_error_map, nth_error_seq.
    destruct (Nat.ltb_spec r n); [reflexivity|lia].
  - rewrite !nth_error_ge_None; [reflexivity| |]; [rewrite map_length, seq_length; lia|rewrite chunks_length; lia].
Qed.

Lemma flat_map_map_l {X Y Z} (f : Y -> list Z) (g : X -> Y) (l : list X) :
  flat_map f (map g l) = flat_map (fun x => f (g x)) l.
Proof. induction l as [|x l IH]; [reflexivity|]. cbn. rewrite IH. reflexivity. Qed.

Lemma flat_map_ext_l {X Y} (f g : X -> list Y) (l : list X) :
  (forall x, In x l -> f x = g x) -> flat_map f l = flat_map g l.
Proof.
  induction l as [|x l IH]; intros H; [reflexivity|]. cbn [flat_map].
  rewrite (H x (or_introl eq_refl)), IH; [reflexivity|]. intros y Hy. apply H. right. exact Hy.
Qed.

Lemma g_col_vals (t : toodee elt) idx : Inv t -> idx < num_cols t ->
  g_col idx (to_grid t) = vals (data t) (col_cells (num_cols t) (num_rows t) idx).
Proof.
  intros [Hl Hz] Hidx. unfold g_col, to_grid, g_of_data, vals, col_cells.
  rewrite chunks_as_map, !flat_map_map_l. apply flat_map_ext_l. intros r Hr. apply in_seq in Hr.
  rewrite ListLemmas.nth_error_firstn. destruct (Nat.ltb_spec idx (num_cols t)); [|lia].
  rewrite nth_error_skipn. replace (r * num_cols t + idx) with (idx + r * num_cols t) by lia. reflexivity.
Qed.

Lemma remove_row_refines (t : toodee elt) (index : N) steps fin r :
  Inv t -> remove_row t index steps fin = Ok r ->
  if (index <? N.of_nat (num_rows t))%N then
    match g_remove_row (N.to_nat index) (to_grid t) with
    | Some (line, g') => d_ok r = true /\ to_grid (d_td r) = g' /\
                         concat (map enc_drain_obs (d_obs r)) = ideal_drain steps line
    | None => False
    end
  else r = mkDrain t false [] [] [] [].
Proof.
  intros Hi H. destruct (N.ltb_spec index (N.of_nat (num_rows t))) as [Hlt|Hge].
  2:{ rewrite (remove_row_reject t index steps fin Hge) in H. inversion H. reflexivity. }
  replace index with (N.of_nat (N.to_nat index)) in H by lia.
  rewrite (remove_row_spec t (N.to_nat index) steps fin Hi ltac:(lia)) in H.
  unfold g_remove_row. rewrite (to_grid_nth t (N.to_nat index) Hi ltac:(lia)).
  pose proof (drain_obs_ideal steps (row_of t (N.to_nat index))) as Hobs.
  destruct (run_vec_drain steps (row_of t (N.to_nat index))) as [[obs y] rem]. cbn [fst] in Hobs.
  inversion H; subst r. cbn [d_ok d_td d_obs]. split; [reflexivity|]. split; [|exact Hobs].
  apply without_row_grid; [exact Hi|lia].
Qed.

Lemma remove_col_refines (t : toodee elt) (index : N) steps r :
  Inv t -> (N.of_nat (length (data t)) < W)%N -> remove_col t index steps DropIt = Ok r ->
  if (index <? N.of_nat (num_cols t))%N then
    match g_remove_col (N.to_nat index) (to_grid t) with
    | Some (line, g') => d_ok r = true /\ to_grid (d_td r) = g' /\
                         concat (map enc_drain_obs (d_obs r)) = ideal_drain steps line
    | None => False
    end
  else r = mkDrain t false [] [] [] [].
Proof.
  intros Hi Hw H. pose proof Hi as [Hl Hz]. pose proof (to_grid_dims t Hi) as [Hh Hwd].
  destruct (N.ltb_spec index (N.of_nat (num_cols t))) as [Hlt|Hge].
  2:{ rewrite (remove_col_reject t index steps DropIt Hge) in H. inversion H. reflexivity. }
  replace index with (N.of_nat (N.to_nat index)) in H by lia.
  set (idx := N.to_nat index) in *. assert (Hidx : idx < num_cols t) by (unfold idx; lia).
  destruct (remove_col_dropped t idx steps Hi Hidx Hw) as [d [E [Hld Hn]]].
  rewrite E in H. inversion H; subst r. clear H E. cbn [d_ok d_td d_obs].
  unfold g_remove_col. rewrite Hwd. destruct (Nat.ltb_spec idx (num_cols t)); [|lia].
  split; [reflexivity|]. split.
  - pose proof (remove_col_rows (data t) d (num_cols t) (num_rows t) idx Hidx Hl Hld Hn) as Hrows.
    destruct (chunks_uniform (num_cols t) (num_rows t) (data t) Hl) as [Hu Hcl].
    destruct (Nat.ltb_spec 0 (num_cols t - 1)) as [Hpos|Hz1].
    + destruct (Nat.eqb_spec (num_cols t) 1); [lia|].
      unfold to_grid at 1. unfold g_of_data. cbn [data num_rows num_cols]. rewrite Hrows.
      set (rows' := map (remove_at idx) (chunks (num_rows t) (num_cols t) (data t))).
      assert (Hl' : length rows' = num_rows t) by (unfold rows'; rewrite map_length; exact Hcl).
      rewrite <- Hl'. apply chunks_concat.
      apply Forall_forall. intros row Hin. unfold rows' in Hin. apply in_map_iff in Hin.
      destruct Hin as [row0 [<- Hin0]]. pose proof (proj1 (Forall_forall _ _) Hu row0 Hin0) as H0. cbn beta in H0.
      rewrite remove_at_length by lia. lia.
    + destruct (Nat.eqb_spec (num_cols t) 1); [|lia]. reflexivity.
  - rewrite (g_col_vals t idx Hi Hidx). apply drain_obs_ideal.
Qed.

(** * every step *)
Definition refines (o : hop) (h' : hstate) (ob : hobs) (e : expect) : Prop :=
  match e with
  | ExpAny => True
  | ExpGrid ok g' out =>
      (is_bomb o = true \/ ob_ok ob = ok) /\ to_grid (h_td h') = g' /\
      (out = None \/ (is_bomb o = true /\ ob_ok ob = false) \/ out = Some (ob_out ob))
  end.

(** the reservation an insertion needs stays within [isize::MAX] bytes (otherwise the call
    panics with a capacity overflow, which the plain model does not describe) *)
Fixpoint cap_ok (cf : hconf) (h : hstate) (o : hop) : Prop :=
  match o with
  | HBomb _ o' => cap_ok cf h o'
  | HInsertRow _ s | HPushRow s | HInsertCol _ s | HPushCol s =>
      (N.of_nat (length (data (h_td h))) + N.of_nat (length (items s)) <= cf_cap cf)%N
  (* a Vec handed to from_vec has fewer than 2^64 elements *)
  | HFromVec _ _ d | HCloneFrom _ _ d => (N.of_nat (length d) < W)%N
  | _ => True
  end.

Lemma honest_script_eq (s : iter_script elt) : honest s = true -> s = honest_script (items s).
Proof.
  unfold honest. intros H. apply Bool.andb_true_iff in H. destruct H as [H1 H2].
  apply N.eqb_eq in H1. destruct s as [c i p]. cbn in *. subst c.
  destruct p; [discriminate|reflexivity].
Qed.

Lemma refines_same o h ob g out :
  (is_bomb o = true \/ ob_ok ob = true) -> to_grid (h_td h) = g ->
  (out = None \/ (is_bomb o = true /\ ob_ok ob = false) \/ out = Some (ob_out ob)) ->
  refines o h ob (ExpGrid true g out).
Proof. intros. split; [assumption|]. split; assumption. Qed.

Ltac ref_plain := split; [right; reflexivity|split; [reflexivity|left; reflexivity]].

Theorem hstep_refines lim cf : forall o h h' ob,
  Inv (h_td h) -> (N.of_nat (length (data (h_td h))) < W)%N -> cap_ok cf h o ->
  hstep cf h o = Ok (h', ob) ->
  refines o h' ob (g_step lim (cf_cap cf) (to_grid (h_td h)) o (data (h_td h'))).
Proof.
  induction o as [c r d|c r|c r v| |idx s|s|idx s|s|idx steps fin|steps fin|idx steps fin|steps fin
                  | | | |c r v|v| | |k| |k o IH|kind k o IH|c r d]; intros h h' ob Hi Hw Hcap H;
    cbn [hstep g_step cap_ok] in *; pose proof (to_grid_dims (h_td h) Hi) as [Hh Hwd].
  - (* from_vec *)
    unfold checked_mul in H.
    destruct (zero_rule_ok c r) eqn:Ez; cbn [negb andb] in *; [|inversion H; subst; ref_plain].
    destruct (N.ltb_spec (c * r) W).
    + destruct (N.eqb_spec (c * r) (N.of_nat (length d))) as [E|E]; inversion H; subst; ref_plain.
    + destruct (N.eqb_spec (c * r) (N.of_nat (length d))) as [E|E]; [lia|]. inversion H; subst. ref_plain.
  - (* new *)
    unfold checked_mul in H.
    destruct (zero_rule_ok c r) eqn:Ez; cbn [negb andb] in *; [|inversion H; subst; ref_plain].
    destruct (N.ltb_spec (c * r) W); cbn [andb].
    2:{ rewrite !Bool.andb_false_r. inversion H; subst; ref_plain. }
    destruct (N.leb_spec (c * r) (cf_cap cf)); cbn [negb andb] in *.
    2:{ rewrite !Bool.andb_false_r. cbn [andb]. inversion H; subst; ref_plain. }
    rewrite !Bool.andb_true_r. inversion H; subst. cbn [h_td data].
    destruct (c * r <=? lim)%N; [|exact I]. ref_plain.
  - (* init *)
    unfold checked_mul in H. replace (r * c)%N with (c * r)%N in H by lia.
    destruct (zero_rule_ok c r) eqn:Ez; cbn [negb andb] in *; [|inversion H; subst; ref_plain].
    destruct (N.ltb_spec (c * r) W); cbn [andb].
    2:{ rewrite !Bool.andb_false_r. inversion H; subst; ref_plain. }
    destruct (N.leb_spec (c * r) (cf_cap cf)); cbn [negb andb] in *.
    2:{ rewrite !Bool.andb_false_r. cbn [andb]. inversion H; subst; ref_plain. }
    rewrite !Bool.andb_true_r. inversion H; subst. cbn [h_td data].
    destruct (c * r <=? lim)%N; [|exact I]. ref_plain.
  - (* default *) inversion H; subst. ref_plain.
  - (* insert_row *)
    destruct (honest s) eqn:Hs; [|exact I]. rewrite (honest_script_eq s Hs) in H.
    unfold of_opres in H. destruct (insert_row _ _ _ _ _ _) as [r| |] eqn:E; cbn [bind] in H; try discriminate.
    pose proof (insert_row_refines _ _ _ _ _ _ r Hi Hcap E) as R. rewrite Hh.
    destruct (idx <=? N.of_nat (num_rows (h_td h)))%N.
    + destruct (g_insert_row (N.to_nat idx) (items s) (to_grid (h_td h))) as [g'|].
      * destruct R as [Hok Hg]. inversion H; subst h' ob. cbn [h_td ob_ok]. split; [right; exact Hok|]. split; [exact Hg|left; reflexivity].
      * subst r. inversion H; subst. ref_plain.
    + subst r. inversion H; subst. ref_plain.
  - (* push_row *)
    destruct (honest s) eqn:Hs; [|exact I]. rewrite (honest_script_eq s Hs) in H.
    unfold of_opres in H. destruct (insert_row _ _ _ _ _ _) as [r| |] eqn:E; cbn [bind] in H; try discriminate.
    pose proof (insert_row_refines _ _ _ _ _ _ r Hi Hcap E) as R. rewrite Hh.
    rewrite N.leb_refl, Nat2N.id in R.
    destruct (g_insert_row (num_rows (h_td h)) (items s) (to_grid (h_td h))) as [g'|].
    + destruct R as [Hok Hg]. inversion H; subst h' ob. cbn [h_td ob_ok]. split; [right; exact Hok|]. split; [exact Hg|left; reflexivity].
    + subst r. inversion H; subst. ref_plain.
  - (* insert_col *)
    destruct (honest s) eqn:Hs; [|exact I]. rewrite (honest_script_eq s Hs) in H.
    unfold of_opres in H. destruct (insert_col _ _ _ _ _ _) as [r| |] eqn:E; cbn [bind] in H; try discriminate.
    pose proof (insert_col_refines _ _ _ _ _ _ r Hi Hcap E) as R. rewrite Hwd.
    destruct (idx <=? N.of_nat (num_cols (h_td h)))%N.
    + destruct (g_insert_col (N.to_nat idx) (items s) (to_grid (h_td h))) as [g'|].
      * destruct R as [Hok Hg]. inversion H; subst h' ob. cbn [h_td ob_ok]. split; [right; exact Hok|]. split; [exact Hg|left; reflexivity].
      * subst r. inversion H; subst. ref_plain.
    + subst r. inversion H; subst. ref_plain.
  - (* push_col *)
    destruct (honest s) eqn:Hs; [|exact I]. rewrite (honest_script_eq s Hs) in H.
    unfold of_opres in H. destruct (insert_col _ _ _ _ _ _) as [r| |] eqn:E; cbn [bind] in H; try discriminate.
    pose proof (insert_col_refines _ _ _ _ _ _ r Hi Hcap E) as R. rewrite Hwd.
    rewrite N.leb_refl, Nat2N.id in R.
    destruct (g_insert_col (num_cols (h_td h)) (items s) (to_grid (h_td h))) as [g'|].
    + destruct R as [Hok Hg]. inversion H; subst h' ob. cbn [h_td ob_ok]. split; [right; exact Hok|]. split; [exact Hg|left; reflexivity].
    + subst r. inversion H; subst. ref_plain.
  - (* remove_row *)
    unfold of_drainres in H. destruct (remove_row _ _ _ _) as [r| |] eqn:E; cbn [bind] in H; try discriminate.
    pose proof (remove_row_refines _ _ _ _ r Hi E) as R. rewrite Hh.
    destruct (idx <? N.of_nat (num_rows (h_td h)))%N.
    + destruct (g_remove_row (N.to_nat idx) (to_grid (h_td h))) as [[line g']|]; [|contradiction].
      destruct R as [Hok [Hg Hobs]]. destruct fin; cbn [fin_is_drop]; [|exact I].
      inversion H; subst h' ob. cbn [h_td ob_ok ob_out]. split; [right; exact Hok|]. split; [exact Hg|].
      right. right. rewrite Hobs. reflexivity.
    + subst r. inversion H; subst. ref_plain.
  - (* pop_row *)
    destruct (Nat.eqb_spec (num_rows (h_td h)) 0) as [E0|En].
    + rewrite (to_grid_nil _ Hi E0). inversion H; subst. cbn. split; [right; reflexivity|]. split; [apply to_grid_nil; assumption|right; right; reflexivity].
    + rewrite (grid_case (to_grid (h_td h)) _ _ (to_grid_nonnil _ Hi ltac:(lia))), Hh.
      unfold of_drainres in H. destruct (remove_row _ _ _ _) as [r| |] eqn:E; cbn [bind] in H; try discriminate.
      pose proof (remove_row_refines _ _ _ _ r Hi E) as R.
      destruct (N.ltb_spec (N.of_nat (num_rows (h_td h) - 1)) (N.of_nat (num_rows (h_td h)))); [|lia].
      rewrite Nat2N.id in R.
      destruct (g_remove_row (num_rows (h_td h) - 1) (to_grid (h_td h))) as [[line g']|]; [|exact I].
      destruct R as [Hok [Hg Hobs]]. destruct fin; cbn [fin_is_drop]; [|exact I].
      inversion H; subst h' ob. cbn [h_td ob_ok ob_out]. split; [right; exact Hok|]. split; [exact Hg|].
      right. right. rewrite Hobs. reflexivity.
  - (* remove_col *)
    rewrite Hwd. destruct fin; cbn [fin_is_drop].
    2:{ destruct (idx <? N.of_nat (num_cols (h_td h)))%N eqn:Elt.
        - destruct (g_remove_col (N.to_nat idx) (to_grid (h_td h))) as [[line g']|] eqn:Eg; [exact I|].
          unfold g_remove_col in Eg. rewrite Hwd in Eg. apply N.ltb_lt in Elt.
          destruct (Nat.ltb_spec (N.to_nat idx) (num_cols (h_td h))); [discriminate|lia].
        - apply N.ltb_ge in Elt. rewrite (remove_col_reject _ _ steps ForgetIt Elt) in H.
          unfold of_drainres in H. cbn [bind] in H. inversion H; subst. ref_plain. }
    unfold of_drainres in H. destruct (remove_col _ _ _ _) as [r| |] eqn:E; cbn [bind] in H; try discriminate.
    pose proof (remove_col_refines _ _ _ r Hi Hw E) as R.
    destruct (idx <? N.of_nat (num_cols (h_td h)))%N.
    + destruct (g_remove_col (N.to_nat idx) (to_grid (h_td h))) as [[line g']|]; [|contradiction].
      destruct R as [Hok [Hg Hobs]].
      inversion H; subst h' ob. cbn [h_td ob_ok ob_out]. split; [right; exact Hok|]. split; [exact Hg|].
      right. right. rewrite Hobs. reflexivity.
    + subst r. inversion H; subst. ref_plain.
  - (* pop_col *)
    destruct (Nat.eqb_spec (num_cols (h_td h)) 0) as [E0|En].
    + assert (Er0 : num_rows (h_td h) = 0) by (apply (proj2 Hi); exact E0).
      rewrite (to_grid_nil _ Hi Er0). inversion H; subst. cbn. split; [right; reflexivity|]. split; [apply to_grid_nil; assumption|right; right; reflexivity].
    + assert (Ern : num_rows (h_td h) <> 0) by (intros E0; apply En; apply (proj2 Hi); exact E0).
      rewrite (grid_case (to_grid (h_td h)) _ _ (to_grid_nonnil _ Hi ltac:(lia))), Hwd.
      destruct fin; cbn [fin_is_drop].
      2:{ destruct (g_remove_col (num_cols (h_td h) - 1) (to_grid (h_td h))) as [[line g']|]; exact I. }
      unfold of_drainres in H. destruct (remove_col _ _ _ _) as [r| |] eqn:E; cbn [bind] in H; try discriminate.
      pose proof (remove_col_refines _ _ _ r Hi Hw E) as R.
      destruct (N.ltb_spec (N.of_nat (num_cols (h_td h) - 1)) (N.of_nat (num_cols (h_td h)))); [|lia].
      rewrite Nat2N.id in R.
      destruct (g_remove_col (num_cols (h_td h) - 1) (to_grid (h_td h))) as [[line g']|]; [|exact I].
      destruct R as [Hok [Hg Hobs]].
      inversion H; subst h' ob. cbn [h_td ob_ok ob_out]. split; [right; exact Hok|]. split; [exact Hg|].
      right. right. rewrite Hobs. reflexivity.
  - (* clear *) inversion H; subst. ref_plain.
  - (* swap_dimensions *)
    inversion H; subst. cbn [h_td]. split; [right; reflexivity|]. split; [|left; reflexivity].
    unfold to_grid at 1. cbn [data num_rows num_cols]. rewrite Hh, Hwd, (to_grid_cells _ Hi). reflexivity.
  - (* capacity *) inversion H; subst. ref_plain.
  - (* indexed write *)
    rewrite Hh, Hwd. unfold td_index_coord, assert, require in H.
    destruct (N.ltb_spec r (N.of_nat (num_rows (h_td h)))); cbn [bind andb] in *.
    2:{ rewrite Bool.andb_false_r. inversion H; subst. ref_plain. }
    destruct (N.ltb_spec c (N.of_nat (num_cols (h_td h)))); cbn [bind andb] in *.
    2:{ inversion H; subst. ref_plain. }
    destruct Hi as [Hl Hz].
    destruct (Nat.ltb_spec (N.to_nat r * num_cols (h_td h) + N.to_nat c) (length (data (h_td h)))); [|nia].
    cbn [bind] in H.
    destruct (nth_error (data (h_td h)) (N.to_nat r * num_cols (h_td h) + N.to_nat c)); [|discriminate].
    inversion H; subst. cbn [h_td]. split; [right; reflexivity|]. split; [|left; reflexivity].
    unfold to_grid at 1. cbn [data num_rows num_cols]. rewrite (to_grid_cells _ (conj Hl Hz)). reflexivity.
  - (* fill *)
    inversion H; subst. cbn [h_td]. split; [right; reflexivity|]. split; [|left; reflexivity].
    unfold to_grid, g_of_data. cbn [data num_rows num_cols]. destruct Hi as [Hl Hz]. rewrite Hl.
    apply chunks_repeat. exact Hl.
  - (* clone *) inversion H; subst. cbn. split; [right; reflexivity|]. split; [reflexivity|right; right; reflexivity].
  - (* into_vec *) inversion H; subst. cbn. split; [right; reflexivity|]. split; [reflexivity|right; right].
    rewrite (to_grid_cells _ Hi). reflexivity.
  - (* into_iter *) inversion H; subst. cbn. split; [right; reflexivity|]. split; [reflexivity|right; right].
    rewrite (to_grid_cells _ Hi). reflexivity.
  - (* drop *) inversion H; subst. ref_plain.
  - (* a destructor panics during the step *)
    destruct (hstep cf h o) as [[h1 ob1]| |] eqn:E; cbn [bind] in H; try discriminate.
    specialize (IH h h1 ob1 Hi Hw Hcap E).
    assert (Hd : data (h_td h') = data (h_td h1) /\ h_td h' = h_td h1).
    { destruct (negb (cf_track cf)); inversion H; subst; split; reflexivity. }
    destruct Hd as [Hd Ht]. rewrite Hd.
    destruct (g_step lim (cf_cap cf) (to_grid (h_td h)) o (data (h_td h1))) as [ok g' out|]; [|exact I].
    destruct IH as [_ [Hg Hout]]. split; [left; reflexivity|]. split; [rewrite Ht; exact Hg|].
    destruct (negb (cf_track cf)) eqn:Etr.
    + inversion H; subst. destruct Hout as [Ho|[[Hb Hk]|Ho]]; [left; exact Ho| |right; right; exact Ho].
      right. left. split; [reflexivity|exact Hk].
    + inversion H; subst. cbn [ob_ok ob_out].
      destruct (ob_ok ob1 && (length (ob_dropped ob1) <=? k)) eqn:Eok.
      * apply Bool.andb_true_iff in Eok. destruct Eok as [Eo1 _].
        destruct Hout as [Ho|[[Hb Hk]|Ho]]; [left; exact Ho|congruence|right; right; exact Ho].
      * right. left. split; reflexivity.
  - (* Clone / Default fuse: outside the plain model *) exact I.
  - (* clone_from *)
    unfold checked_mul in H.
    destruct (zero_rule_ok c r) eqn:Ez; cbn [negb andb] in *; [|inversion H; subst; ref_plain].
    destruct (N.ltb_spec (c * r) W).
    + destruct (N.eqb_spec (c * r) (N.of_nat (length d))) as [E|E]; inversion H; subst; [|ref_plain].
      cbn. split; [right; reflexivity|]. split; [reflexivity|right; right; reflexivity].
    + destruct (N.eqb_spec (c * r) (N.of_nat (length d))) as [E|E]; [lia|]. inversion H; subst. ref_plain.
Qed.

(** * every history *)
Fixpoint steps_refine (lim : N) (cf : hconf) (h : hstate) (ops : list hop) (l : list (hstate * hobs)) : Prop :=
  match ops, l with
  | [], [] => True
  | o :: ops', (h', ob) :: l' =>
      refines o h' ob (g_step lim (cf_cap cf) (to_grid (h_td h)) o (data (h_td h'))) /\ steps_refine lim cf h' ops' l'
  | _, _ => False
  end.

(** the physical side conditions, per step: buffers shorter than 2^64 elements, reservations
    within the allocator's limit *)
Fixpoint steps_feasible (cf : hconf) (h : hstate) (ops : list hop) (l : list (hstate * hobs)) : Prop :=
  match ops, l with
  | o :: ops', (h', _) :: l' =>
      (N.of_nat (length (data (h_td h))) < W)%N /\ cap_ok cf h o /\ steps_feasible cf h' ops' l'
  | _, _ => True
  end.

Theorem hrun_refines lim cf : forall ops h l,
  Inv (h_td h) -> hrun cf h ops = Ok l -> steps_feasible cf h ops l -> steps_refine lim cf h ops l.
Proof.
  induction ops as [|o ops IH]; intros h l Hi H Hf; cbn [hrun] in H.
  - inversion H; subst. exact I.
  - destruct (hstep cf h o) as [[h1 ob1]| |] eqn:E; cbn [bind fst] in H; try discriminate.
    destruct (hrun cf h1 ops) as [rest| |] eqn:E2; cbn [bind] in H; try discriminate.
    inversion H; subst l. cbn [steps_feasible steps_refine] in *. destruct Hf as [Hw [Hc Hf']].
    split; [apply hstep_refines; assumption|].
    apply IH; [eapply hstep_inv; eassumption|exact E2|exact Hf'].
Qed.
