(** serde (C18, C19): the visitor followed by [from_vec] never panics, accepts only
    consistent documents, and returns every serialised array / view unchanged. *)
From TD Require Import Base.Prelude Spec.Grid Spec.Inv Model.Owned Model.Serde Proofs.ListLemmas.

Definition u32_elems (d : list N) : Prop := Forall (fun x => (x < 4294967296)%N) d.

Lemma de_all_u32_map (d : list N) : u32_elems d -> de_all de_u32 (map JUInt d) = Some d.
Proof.
  induction 1 as [|x d Hx _ IH]; cbn [map de_all]; [reflexivity|].
  unfold de_u32 at 1. destruct (N.ltb_spec x 4294967296); [|lia]. rewrite IH. reflexivity.
Qed.

Lemma de_usize_of_nat n : (N.of_nat n < W)%N -> de_usize (JUInt (N.of_nat n)) = Some (N.of_nat n).
Proof. intros H. unfold de_usize. destruct (N.ltb_spec (N.of_nat n) W); [reflexivity|lia]. Qed.

(** the checks after the loop, for a consistent triple *)
Lemma finish_ok (c r : nat) (d : list N) :
  length d = c * r -> (c = 0 <-> r = 0) -> (N.of_nat (length d) < W)%N ->
  (let '(product, overflow) := overflowing_mul (N.of_nat c) (N.of_nat r) in
   if overflow then DeErr
   else if negb (Bool.eqb (N.of_nat c =? 0)%N (N.of_nat r =? 0)%N) then DeErr
   else if negb (product =? N.of_nat (length d))%N then DeErr
   else match from_vec_model (N.of_nat c) (N.of_nat r) d with
        | Ok t => DeOk t | Panic => DePanic | UB => DePanic end) = DeOk (mkTD d r c).
Proof.
  intros Hl Hz Hw. unfold overflowing_mul.
  assert (Hp : (N.of_nat c * N.of_nat r = N.of_nat (length d))%N) by (rewrite Hl; lia).
  rewrite Hp. destruct (N.leb_spec W (N.of_nat (length d))); [lia|].
  rewrite N.mod_small by lia.
  assert (Hzb : Bool.eqb (N.of_nat c =? 0)%N (N.of_nat r =? 0)%N = true).
  { destruct (N.eqb_spec (N.of_nat c) 0), (N.eqb_spec (N.of_nat r) 0); cbn; try reflexivity; lia. }
  rewrite Hzb. cbn [negb]. rewrite N.eqb_refl. cbn [negb].
  unfold from_vec_model, checked_mul, assert. rewrite Hp.
  destruct (N.ltb_spec (N.of_nat (length d)) W); [|lia].
  rewrite N.eqb_refl.
  destruct ((N.of_nat c =? 0)%N || (N.of_nat r =? 0)%N) eqn:E.
  - destruct (N.eqb_spec (N.of_nat r) (N.of_nat c)) as [_|Hne]; cbn [bind].
    + rewrite !Nat2N.id. reflexivity.
    + exfalso. apply Hne. apply Bool.orb_true_iff in E.
      destruct E as [E|E]; apply N.eqb_eq in E; lia.
  - cbn [bind]. rewrite !Nat2N.id. reflexivity.
Qed.

Lemma dims_small (c r n : nat) : n = c * r -> (c = 0 <-> r = 0) -> (N.of_nat n < W)%N ->
  (N.of_nat c < W)%N /\ (N.of_nat r < W)%N.
Proof. intros -> Hz Hw. unfold W in *. destruct c, r; try lia; nia. Qed.

(** * C18: round trip of an owned array through every transport *)
Theorem roundtrip_owned tr (t : toodee N) :
  Inv t -> u32_elems (data t) -> (N.of_nat (length (data t)) < W)%N ->
  deserialize tr true (serialize t) = DeOk t.
Proof.
  intros [Hl Hz] Hu Hw.
  destruct (dims_small _ _ _ Hl Hz Hw) as [Hc Hr].
  assert (Hv : visit_map (serialize t) = DeOk t).
  { unfold visit_map, serialize. cbn [visit_fields vs_cols vs_rows vs_data de_vec].
    rewrite (de_all_u32_map _ Hu). rewrite (de_usize_of_nat _ Hr), (de_usize_of_nat _ Hc).
    cbn [vs_cols vs_rows vs_data].
    rewrite (finish_ok (num_cols t) (num_rows t) (data t) Hl Hz Hw). destruct t; reflexivity. }
  (* serde_json::Value: the three keys are distinct, nothing is dropped *)
  unfold deserialize. cbn [negb]. destruct tr; exact Hv.
Qed.

(** a view (any receiver whose [cells()] are [cells], row-major) serialises to a document
    that deserialises to the owned array with those dimensions and cells *)
Theorem roundtrip_view tr (cols rows : nat) (cells : list N) :
  length cells = cols * rows -> (cols = 0 <-> rows = 0) -> u32_elems cells ->
  (N.of_nat (length cells) < W)%N ->
  deserialize tr true (serialize_view cols rows cells) = DeOk (mkTD cells rows cols).
Proof.
  intros Hl Hz Hu Hw.
  destruct (dims_small _ _ _ Hl Hz Hw) as [Hc Hr].
  assert (Hv : visit_map (serialize_view cols rows cells) = DeOk (mkTD cells rows cols)).
  { unfold visit_map, serialize_view. cbn [visit_fields vs_cols vs_rows vs_data de_vec].
    rewrite (de_usize_of_nat _ Hc), (de_usize_of_nat _ Hr). cbn [vs_cols vs_rows vs_data].
    rewrite (de_all_u32_map _ Hu). cbn [vs_cols vs_rows vs_data].
    exact (finish_ok cols rows cells Hl Hz Hw). }
  unfold deserialize. cbn [negb]. destruct tr; exact Hv.
Qed.

(** * C19: never a panic; only consistent documents are accepted *)
Lemma from_vec_after_checks (c r : N) (d : list N) :
  (c * r < W)%N -> Bool.eqb (c =? 0)%N (r =? 0)%N = true -> (c * r = N.of_nat (length d))%N ->
  from_vec_model c r d = Ok (mkTD d (N.to_nat r) (N.to_nat c)).
Proof.
  intros Hw Hz Hp. unfold from_vec_model, checked_mul, assert.
  destruct (N.ltb_spec (c * r) W); [|lia]. rewrite Hp, N.eqb_refl.
  destruct ((c =? 0)%N || (r =? 0)%N) eqn:E; [|reflexivity].
  destruct (N.eqb_spec r c) as [_|Hne]; [reflexivity|].
  exfalso. apply Hne.
  destruct (N.eqb_spec c 0), (N.eqb_spec r 0); cbn in Hz, E; try discriminate; lia.
Qed.

(** what [visit_map] returns, in closed form *)
Lemma visit_map_cases (d : jdoc) :
  visit_map d = DeErr \/
  exists c r l, visit_fields d (mkVS None None None) = Some (mkVS (Some c) (Some r) (Some l)) /\
    (c * r < W)%N /\ Bool.eqb (c =? 0)%N (r =? 0)%N = true /\
    (c * r = N.of_nat (length l))%N /\
    visit_map d = DeOk (mkTD l (N.to_nat r) (N.to_nat c)).
Proof.
  unfold visit_map.
  destruct (visit_fields d (mkVS None None None)) as [[[c|] [r|] [l|]]|]; try (left; reflexivity).
  cbn [vs_cols vs_rows vs_data]. unfold overflowing_mul.
  destruct (N.leb_spec W (c * r)) as [|Hw]; [left; reflexivity|].
  rewrite N.mod_small by exact Hw.
  destruct (Bool.eqb (c =? 0)%N (r =? 0)%N) eqn:Hz; cbn [negb]; [|left; reflexivity].
  destruct (N.eqb_spec (c * r) (N.of_nat (length l))) as [Hp|]; cbn [negb]; [|left; reflexivity].
  right. exists c, r, l. rewrite (from_vec_after_checks c r l Hw Hz Hp). repeat split; assumption.
Qed.

Theorem deserialize_never_panics tr top d : deserialize tr top d <> DePanic.
Proof.
  unfold deserialize. destruct top; cbn [negb]; [|discriminate].
  assert (H : forall d', visit_map d' <> DePanic).
  { intros d'. destruct (visit_map_cases d') as [E|[c [r [l [_ [_ [_ [_ E]]]]]]]]; rewrite E; discriminate. }
  destruct tr; apply H.
Qed.

Ltac use_ih3 IH c0 Hs H :=
  let IH' := fresh "IH'" in
  pose proof (fun Hx => IH _ _ c0 Hx H) as IH'; cbn [vs_cols vs_rows vs_data] in IH';
  destruct (IH' Hs) as [E1 E2].
Ltac use_ih2 IH Hs H :=
  let IH' := fresh "IH'" in
  pose proof (fun Hx => IH _ _ Hx H) as IH'; cbn [vs_cols vs_rows vs_data] in IH';
  rewrite (IH' Hs).

(** fields the loop has seen *)
Lemma last_field_cons k kv d :
  last_field k (kv :: d) =
  match last_field k d with
  | Some v => Some v
  | None => if jkey_eqb (fst kv) k then Some (snd kv) else None
  end.
Proof.
  unfold last_field. cbn [rev]. rewrite filter_app. cbn [filter].
  destruct (filter (fun p => jkey_eqb (fst p) k) (rev d)) as [|[k' v'] tl]; cbn [app].
  - destruct kv as [k1 v1]; cbn [fst snd]. destruct (jkey_eqb k1 k); reflexivity.
  - reflexivity.
Qed.

Lemma visit_fields_cols_set d : forall s s' c0,
  vs_cols s = Some c0 -> visit_fields d s = Some s' ->
  last_field KCols d = None /\ vs_cols s' = Some c0.
Proof.
  induction d as [|[k v] tl IH]; intros s s' c0 Hs H; cbn [visit_fields] in H.
  - inversion H; subst. split; [reflexivity|exact Hs].
  - rewrite last_field_cons; cbn [fst snd].
    destruct k; cbn [jkey_eqb].
    + rewrite Hs in H. discriminate.
    + destruct (vs_rows s); [discriminate|]. destruct (de_usize v); [|discriminate].
      use_ih3 IH c0 Hs H. rewrite E1. split; [reflexivity|exact E2].
    + destruct (de_vec v); [|discriminate].
      use_ih3 IH c0 Hs H. rewrite E1. split; [reflexivity|exact E2].
    + discriminate.
Qed.

Lemma visit_fields_rows_set d : forall s s' r0,
  vs_rows s = Some r0 -> visit_fields d s = Some s' ->
  last_field KRows d = None /\ vs_rows s' = Some r0.
Proof.
  induction d as [|[k v] tl IH]; intros s s' r0 Hs H; cbn [visit_fields] in H.
  - inversion H; subst. split; [reflexivity|exact Hs].
  - rewrite last_field_cons; cbn [fst snd].
    destruct k; cbn [jkey_eqb].
    + destruct (vs_cols s); [discriminate|]. destruct (de_usize v); [|discriminate].
      use_ih3 IH r0 Hs H. rewrite E1. split; [reflexivity|exact E2].
    + rewrite Hs in H. discriminate.
    + destruct (de_vec v); [|discriminate].
      use_ih3 IH r0 Hs H. rewrite E1. split; [reflexivity|exact E2].
    + discriminate.
Qed.

Lemma visit_fields_cols d : forall s s',
  vs_cols s = None -> visit_fields d s = Some s' ->
  vs_cols s' = match last_field KCols d with Some v => de_usize v | None => None end.
Proof.
  induction d as [|[k v] tl IH]; intros s s' Hs H; cbn [visit_fields] in H.
  - inversion H; subst. exact Hs.
  - rewrite last_field_cons; cbn [fst snd].
    destruct k; cbn [jkey_eqb].
    + rewrite Hs in H. destruct (de_usize v) as [n|] eqn:Ev; [|discriminate].
      pose proof (fun Hx => visit_fields_cols_set tl _ s' n Hx H) as Hset; cbn [vs_cols] in Hset; destruct (Hset eq_refl) as [E1 E2]. rewrite E1, E2. symmetry; exact Ev.
    + destruct (vs_rows s); [discriminate|]. destruct (de_usize v); [|discriminate].
      use_ih2 IH Hs H. destruct (last_field KCols tl); reflexivity.
    + destruct (de_vec v); [|discriminate].
      use_ih2 IH Hs H. destruct (last_field KCols tl); reflexivity.
    + discriminate.
Qed.

Lemma visit_fields_rows d : forall s s',
  vs_rows s = None -> visit_fields d s = Some s' ->
  vs_rows s' = match last_field KRows d with Some v => de_usize v | None => None end.
Proof.
  induction d as [|[k v] tl IH]; intros s s' Hs H; cbn [visit_fields] in H.
  - inversion H; subst. exact Hs.
  - rewrite last_field_cons; cbn [fst snd].
    destruct k; cbn [jkey_eqb].
    + destruct (vs_cols s); [discriminate|]. destruct (de_usize v); [|discriminate].
      use_ih2 IH Hs H. destruct (last_field KRows tl); reflexivity.
    + rewrite Hs in H. destruct (de_usize v) as [n|] eqn:Ev; [|discriminate].
      pose proof (fun Hx => visit_fields_rows_set tl _ s' n Hx H) as Hset; cbn [vs_rows] in Hset; destruct (Hset eq_refl) as [E1 E2]. rewrite E1, E2. symmetry; exact Ev.
    + destruct (de_vec v); [|discriminate].
      use_ih2 IH Hs H. destruct (last_field KRows tl); reflexivity.
    + discriminate.
Qed.

Lemma visit_fields_data d : forall s s',
  visit_fields d s = Some s' ->
  vs_data s' = match last_field KData d with Some v => de_vec v | None => vs_data s end.
Proof.
  induction d as [|[k v] tl IH]; intros s s' H; cbn [visit_fields] in H.
  - inversion H; subst. reflexivity.
  - rewrite last_field_cons; cbn [fst snd].
    destruct k; cbn [jkey_eqb].
    + destruct (vs_cols s); [discriminate|]. destruct (de_usize v); [|discriminate].
      rewrite (IH _ _ H). destruct (last_field KData tl); reflexivity.
    + destruct (vs_rows s); [discriminate|]. destruct (de_usize v); [|discriminate].
      rewrite (IH _ _ H). destruct (last_field KData tl); reflexivity.
    + destruct (de_vec v) as [l|] eqn:Ev; [|discriminate].
      rewrite (IH _ _ H). cbn [vs_data]. destruct (last_field KData tl); [reflexivity|].
      symmetry; exact Ev.
    + discriminate.
Qed.

(** an accepted document: valid shape, and the array is exactly the document's (unique)
    num_cols, num_rows and last data value; hence no overflowing product, no length
    mismatch, not exactly one zero dimension *)
Definition accepted_fields (d : jdoc) (t : toodee N) : Prop :=
  exists vc vr vd,
    last_field KCols d = Some vc /\ de_usize vc = Some (N.of_nat (num_cols t)) /\
    last_field KRows d = Some vr /\ de_usize vr = Some (N.of_nat (num_rows t)) /\
    last_field KData d = Some vd /\ de_vec vd = Some (data t).

Lemma visit_map_accepts d t :
  visit_map d = DeOk t ->
  Inv t /\ (N.of_nat (length (data t)) < W)%N /\ accepted_fields d t.
Proof.
  intros H. destruct (visit_map_cases d) as [E|[c [r [l [Hv [Hw [Hz [Hp E]]]]]]]]; [congruence|].
  rewrite E in H. inversion H; subst t. clear H E.
  assert (Hcw : (c < W)%N /\ (r < W)%N).
  { destruct (N.eqb_spec c 0), (N.eqb_spec r 0); cbn in Hz; try discriminate; unfold W in *; try lia; nia. }
  split; [|split].
  - split; cbn [data num_cols num_rows].
    + lia.
    + destruct (N.eqb_spec c 0), (N.eqb_spec r 0); cbn in Hz; try discriminate; lia.
  - cbn [data]. lia.
  - pose proof (fun Hx => visit_fields_cols d _ _ Hx Hv) as Hc; specialize (Hc eq_refl).
    pose proof (fun Hx => visit_fields_rows d _ _ Hx Hv) as Hr; specialize (Hr eq_refl).
    pose proof (visit_fields_data d _ _ Hv) as Hd.
    cbn [vs_cols vs_rows vs_data] in Hc, Hr, Hd.
    unfold accepted_fields.
    destruct (last_field KCols d) as [vc|]; [|discriminate].
    destruct (last_field KRows d) as [vr|]; [|discriminate].
    destruct (last_field KData d) as [vd|]; [|discriminate].
    exists vc, vr, vd. cbn [num_cols num_rows data]. rewrite !N2Nat.id.
    repeat split; try reflexivity; symmetry; assumption.
Qed.

(** [serde_json::Value] keeps the last entry of every key *)
Lemma existsb_last_field k d :
  existsb (fun p => jkey_eqb (fst p) k) d = true -> exists v, last_field k d = Some v.
Proof.
  induction d as [|[k1 v1] tl IH]; cbn [existsb]; [discriminate|].
  intros H. rewrite last_field_cons. cbn [fst snd].
  destruct (last_field k tl) as [v|] eqn:E; [eexists; reflexivity|].
  apply Bool.orb_true_iff in H. destruct H as [H|H].
  - cbn [fst] in H. rewrite H. eexists; reflexivity.
  - destruct (IH H) as [v Hv]. discriminate.
Qed.

Lemma jkey_eqb_eq a b : jkey_eqb a b = true <-> a = b.
Proof. destruct a, b; cbn; split; intros; try reflexivity; try discriminate. Qed.

Lemma last_field_dedup k d : last_field k (dedup_last d) = last_field k d.
Proof.
  induction d as [|[k1 v1] tl IH]; [reflexivity|].
  cbn [dedup_last]. rewrite last_field_cons. cbn [fst snd].
  destruct (existsb (fun p => jkey_eqb (fst p) k1) tl) eqn:E.
  - rewrite IH. destruct (last_field k tl) as [v|] eqn:El; [reflexivity|].
    destruct (jkey_eqb k1 k) eqn:Ek; [|reflexivity].
    apply jkey_eqb_eq in Ek. subst k1.
    destruct (existsb_last_field k tl E) as [v Hv]. congruence.
  - rewrite last_field_cons. cbn [fst snd]. rewrite IH. reflexivity.
Qed.

Theorem deserialize_accepts tr top d t :
  deserialize tr top d = DeOk t ->
  top = true /\ Inv t /\ (N.of_nat (length (data t)) < W)%N /\ accepted_fields d t.
Proof.
  unfold deserialize. destruct top; cbn [negb]; [|discriminate].
  intros H. split; [reflexivity|].
  destruct tr; try (apply visit_map_accepts; exact H).
  destruct (visit_map_accepts _ _ H) as [Hi [Hw [vc [vr [vd Hf]]]]].
  split; [exact Hi|]. split; [exact Hw|].
  exists vc, vr, vd. rewrite !last_field_dedup in Hf. exact Hf.
Qed.
