(** insert_col (C06): the back-to-front raw-pointer loop places the new column exactly and
    keeps every other cell in place; never touches a slot outside the reserved buffer, never
    owns an uninitialised slot. *)
From TD Require Import Base.Prelude Spec.Grid Spec.Inv Model.Iter Model.Owned
  Proofs.ListLemmas Proofs.InsertRow.

Section InsertCol.
Context {A : Type}.

Lemma script_next_back_honest (xs : list A) c k x :
  nth_error (rev xs) k = Some x -> script_next_back (mkScript c xs None) k = Yield x.
Proof. unfold script_next_back; cbn [panic_at items]. intros ->. reflexivity. Qed.

Lemma script_next_back_done (xs : list A) c k :
  length xs <= k -> script_next_back (mkScript c xs None) k = Done.
Proof.
  unfold script_next_back; cbn [panic_at items]. intros H. rewrite nth_error_ge_None; [reflexivity|].
  rewrite rev_length. exact H.
Qed.

Lemma nth_error_rev_local (l : list A) i : i < length l -> nth_error (rev l) i = nth_error l (length l - 1 - i).
Proof.
  intros H. revert i H. induction l as [|x l IH]; intros i H; cbn [length] in *; [lia|].
  cbn [rev]. rewrite nth_error_app, rev_length.
  destruct (Nat.ltb_spec i (length l)).
  - rewrite IH by lia. replace (S (length l) - 1 - i) with (S (length l - 1 - i)) by lia. reflexivity.
  - replace i with (length l) by lia. rewrite Nat.sub_diag.
    replace (S (length l) - 1 - length l) with 0 by lia. reflexivity.
Qed.

Lemma ptr_write_spec i (x : A) (m m' : list (option A)) :
  ptr_write i x m = Ok m' ->
  length m' = length m /\ forall p, nth_error m' p = if p =? i then Some (Some x) else nth_error m p.
Proof.
  unfold ptr_write. destruct (Nat.ltb_spec i (length m)); [|discriminate].
  intros E. inversion E; subst. split; [apply upd_length|].
  intros p. rewrite nth_error_upd. destruct (Nat.eqb_spec i p) as [->|Hne]; cbn [andb].
  - rewrite Nat.eqb_refl. destruct (Nat.ltb_spec p (length m)); [reflexivity|lia].
  - destruct (Nat.eqb_spec p i); [lia|reflexivity].
Qed.

Lemma ptr_write_ok i (x : A) (m : list (option A)) : i < length m -> exists m', ptr_write i x m = Ok m'.
Proof. intros H. unfold ptr_write. destruct (Nat.ltb_spec i (length m)); [eauto|lia]. Qed.

Lemma cell_unique n r c r' c' : c <= n -> c' <= n -> r * (n + 1) + c = r' * (n + 1) + c' -> r = r' /\ c = c'.
Proof.
  intros Hc Hc' E. destruct (Nat.lt_trichotomy r r') as [H|[H|H]].
  - exfalso. assert ((r + 1) * (n + 1) <= r' * (n + 1)) by (apply Nat.mul_le_mono_r; lia). lia.
  - subst. lia.
  - exfalso. assert ((r' + 1) * (n + 1) <= r * (n + 1)) by (apply Nat.mul_le_mono_r; lia). lia.
Qed.

(** ordering of cells of the (n+1)-wide layout *)
Lemma cell_le n r c r' c' : c <= n -> c' <= n -> r * (n + 1) + c <= r' * (n + 1) + c' -> r < r' \/ (r = r' /\ c <= c').
Proof.
  intros Hc Hc' E. destruct (Nat.lt_trichotomy r r') as [H|[H|H]]; [left; exact H|right; subst; lia|].
  exfalso. assert ((r' + 1) * (n + 1) <= r * (n + 1)) by (apply Nat.mul_le_mono_r; lia). lia.
Qed.

(** the final content of cell (c, r) of the (nc+1)-wide result *)
Variables (data xs : list A) (nc idx : nat).
Definition fv (r c : nat) : option A :=
  if c <? idx then nth_error data (r * nc + c)
  else if c =? idx then nth_error xs r
  else nth_error data (r * nc + c - 1).

Let R := length xs.
Hypothesis Hidx : idx <= nc.
Hypothesis Hdata : length data = nc * R.

(** loop invariant with [j] rows still to process *)
Definition Invc (M j : nat) (m : list (option A)) : Prop :=
  length m = M /\
  (forall r c, r < R -> c <= nc -> j * (nc + 1) + idx <= r * (nc + 1) + c ->
     nth_error m (r * (nc + 1) + c) = Some (fv r c)) /\
  (forall p, p < j * nc + idx -> nth_error m p = Some (nth_error data p)).

Lemma insert_col_loop_ok cl M : (nc + 1) * R <= M ->
  forall j m, j < R -> Invc M j m ->
  exists m', insert_col_loop (mkScript cl xs None) nc j (R - j) (j * nc + idx) (j * (nc + 1) + idx) m
             = Ok (m', true, R, idx, idx) /\ Invc M 0 m'.
Proof.
  intros HM. induction j as [|j IH]; intros m Hj [Hlen [Hfin Hraw]].
  - exists m. cbn [insert_col_loop]. rewrite Nat.sub_0_r. cbn [Nat.mul Nat.add].
    split; [reflexivity|]. split; [exact Hlen|]. split; assumption.
  - cbn [insert_col_loop]. unfold usub.
    destruct (Nat.leb_spec nc (S j * nc + idx)); [|nia]. cbn [bind].
    destruct (Nat.leb_spec nc (S j * (nc + 1) + idx)); [|nia]. cbn [bind].
    set (rp := S j * nc + idx - nc). set (wp := S j * (nc + 1) + idx - nc).
    assert (Hrp : rp = j * nc + idx) by (subst rp; nia).
    assert (Hwp : wp = j * (nc + 1) + idx + 1) by (subst wp; nia).
    destruct (ptr_copy_ok rp wp nc m) as [m1 E1]; [nia|nia|]. rewrite E1. cbn [bind].
    apply ptr_copy_spec in E1. destruct E1 as [L1 N1].
    destruct (Nat.leb_spec 1 wp); [|lia]. cbn [bind].
    assert (Hk : nth_error (rev xs) (R - S j) = nth_error xs j).
    { rewrite nth_error_rev_local by (fold R; lia). f_equal. fold R. lia. }
    destruct (nth_error xs j) as [e|] eqn:Ee; [|apply nth_error_None in Ee; fold R in Ee; lia].
    rewrite (script_next_back_honest xs cl (R - S j) e Hk).
    destruct (ptr_write_ok (wp - 1) e m1) as [m2 E2]; [nia|]. rewrite E2. cbn [bind].
    apply ptr_write_spec in E2. destruct E2 as [L2 N2].
    replace (S (R - S j)) with (R - j) by lia.
    replace (wp - 1) with (j * (nc + 1) + idx) by lia. rewrite Hrp.
    apply IH; [lia|].
    split; [lia|]. split.
    + intros r c Hr Hc Hp. rewrite N2.
      destruct (Nat.eqb_spec (r * (nc + 1) + c) (wp - 1)) as [Eq|Hne].
      * (* the inserted element of row j *)
        assert (Hu : r = j /\ c = idx) by (apply (cell_unique nc); [assumption|assumption|lia]). destruct Hu as [-> ->].
        unfold fv. rewrite Nat.ltb_irrefl, Nat.eqb_refl, Ee. reflexivity.
      * rewrite N1.
        destruct (Nat.leb_spec wp (r * (nc + 1) + c)); destruct (Nat.ltb_spec (r * (nc + 1) + c) (wp + nc)); cbn [andb].
        -- (* moved by this block copy: row j's tail or row j+1's head *)
           rewrite Hraw by nia. f_equal. unfold fv.
           destruct (Nat.eq_dec r j) as [->|Hrj].
           ++ destruct (Nat.ltb_spec c idx); [nia|]. destruct (Nat.eqb_spec c idx); [nia|]. f_equal. nia.
           ++ assert (r = S j) by nia. subst r. destruct (Nat.ltb_spec c idx); [f_equal; nia|nia].
        -- apply Hfin; [assumption|assumption|nia].
        -- nia.
        -- nia.
    + intros p Hp. rewrite N2. destruct (Nat.eqb_spec p (wp - 1)); [nia|]. rewrite N1.
      destruct (Nat.leb_spec wp p); [nia|]. cbn [andb]. apply Hraw. nia.
Qed.

End InsertCol.

Lemma mulR nc R : 0 < R -> nc * R = (R - 1) * nc + nc.
Proof. intros H. destruct R as [|R']; [lia|]. cbn [Nat.sub]. rewrite Nat.sub_0_r. lia. Qed.

Lemma cell_lt n R r c : r < R -> c <= n -> r * (n + 1) + c < n * R + R.
Proof.
  intros Hr Hc. assert ((r + 1) * (n + 1) <= R * (n + 1)) by (apply Nat.mul_le_mono_r; lia). lia.
Qed.

Lemma cell_zero n r c i : r * (n + 1) + c < i -> i <= n -> r = 0 /\ c < i.
Proof. intros H Hi. destruct r as [|r]; [lia|]. exfalso. cbn [Nat.mul] in H. lia. Qed.

Section InsertColTop.
Context {A : Type}.

Lemma all_some_build (l : list (option A)) :
  (forall p, p < length l -> exists x, nth_error l p = Some (Some x)) -> exists d, all_some l = Some d.
Proof.
  induction l as [|o l IH]; intros H; [exists []; reflexivity|].
  destruct (H 0 ltac:(cbn; lia)) as [x Hx]. cbn in Hx. inversion Hx; subst o.
  destruct IH as [d Hd]. { intros p Hp. apply (H (S p)). cbn. lia. }
  exists (x :: d). cbn [all_some]. rewrite Hd. reflexivity.
Qed.

Lemma fv_some (data xs : list A) nc idx r c : idx <= nc -> length data = nc * length xs ->
  r < length xs -> c <= nc -> exists x, fv data xs nc idx r c = Some x.
Proof.
  intros Hidx Hd Hr Hc. unfold fv.
  destruct (Nat.ltb_spec c idx); [apply nth_error_lt_Some; nia|].
  destruct (Nat.eqb_spec c idx); [apply nth_error_lt_Some; lia|]. apply nth_error_lt_Some. nia.
Qed.

Theorem insert_col_accept dbg cap spare (t : toodee A) idx xs :
  Inv t -> idx <= num_cols t -> (num_cols t = 0 \/ length xs = num_rows t) ->
  (N.of_nat (length (data t)) + N.of_nat (length xs) <= cap)%N ->
  exists d',
    insert_col dbg cap spare t (N.of_nat idx) (honest_script xs)
    = Ok (mkOp (if 0 <? length xs then mkTD d' (length xs) (num_cols t + 1) else mkTD d' 0 0) true [] []) /\
    length d' = (num_cols t + 1) * length xs /\
    (forall r c, r < length xs -> c <= num_cols t ->
       nth_error d' (r * (num_cols t + 1) + c) = fv (data t) xs (num_cols t) idx r c).
Proof.
  intros [Hlen Hz] Hidx Hw Hcap. set (nc := num_cols t) in *. set (R := length xs).
  assert (Hdata : length (data t) = nc * R).
  { destruct Hw as [H0|Hx]; [rewrite Hlen, H0; lia|rewrite Hlen; subst R; rewrite Hx; reflexivity]. }
  unfold insert_col, honest_script. cbn [items claimed].
  destruct (N.leb_spec (N.of_nat idx) (N.of_nat (num_cols t))) as [_|]; [|lia]. cbn [negb].
  assert (Hheight : (if num_cols t =? 0 then Some (N.of_nat R)
                     else if (N.of_nat (num_rows t) =? N.of_nat R)%N then Some (N.of_nat R) else None)
                    = Some (N.of_nat R)).
  { destruct (Nat.eqb_spec (num_cols t) 0); [reflexivity|]. destruct Hw as [|Hx]; [contradiction|].
    subst R. rewrite Hx, N.eqb_refl. reflexivity. }
  fold R. rewrite Hheight. unfold reserve_ok.
  destruct (N.leb_spec (N.of_nat (length (data t)) + N.of_nat R) cap); [|subst R; lia]. cbn [negb].
  rewrite !Nat2N.id. fold nc. unfold usub. destruct (Nat.leb_spec idx nc); [|lia]. cbn [bind].
  destruct (reserve_shape (data t) spare R) as [k [Hk Em0]]. rewrite Em0.
  set (m0 := map Some (data t) ++ repeat None k).
  assert (Hl0 : length m0 = nc * R + k) by (unfold m0; rewrite app_length, map_length, repeat_length; lia).
  set (M := length m0).
  destruct (Nat.ltb_spec 0 R) as [HR|HR0].
  - (* at least one row: the last row's suffix, its new element, then the loop *)
    rewrite Hdata. pose proof (mulR nc R HR) as EnR. pose proof (Nat.le_0_l ((R - 1) * nc)) as Hpos.
    destruct (Nat.leb_spec (nc - idx) (nc * R)); [|lia]. cbn [bind].
    destruct (Nat.leb_spec (nc - idx) (nc * R + R)); [|lia]. cbn [bind].
    set (rp := nc * R - (nc - idx)). set (wp := nc * R + R - (nc - idx)).
    assert (Hrp : rp = (R - 1) * nc + idx) by (subst rp; lia).
    assert (Hwp : wp = (R - 1) * (nc + 1) + idx + 1) by (subst wp; lia).
    destruct (ptr_copy_ok rp wp (nc - idx) m0) as [m1 E1]; [lia|lia|]. rewrite E1. cbn [bind].
    apply ptr_copy_spec in E1. destruct E1 as [L1 N1].
    destruct (Nat.leb_spec 1 wp); [|lia]. cbn [bind].
    assert (Hk0 : nth_error (rev xs) 0 = nth_error xs (R - 1)).
    { rewrite nth_error_rev_local by (fold R; lia). f_equal. fold R. lia. }
    destruct (nth_error xs (R - 1)) as [e|] eqn:Ee; [|apply nth_error_None in Ee; fold R in Ee; lia].
    rewrite (script_next_back_honest xs _ 0 e Hk0).
    destruct (ptr_write_ok (wp - 1) e m1) as [m2 E2]; [lia|]. rewrite E2. cbn [bind].
    apply ptr_write_spec in E2. destruct E2 as [L2 N2].
    assert (Hm0 : forall p, p < nc * R -> nth_error m0 p = Some (nth_error (data t) p)).
    { intros p Hp. unfold m0. rewrite nth_error_app, map_length. destruct (Nat.ltb_spec p (length (data t))); [|lia].
      rewrite nth_error_map. destruct (nth_error (data t) p) eqn:Ep; [reflexivity|apply nth_error_None in Ep; lia]. }
    assert (Hinv : Invc (data t) xs nc idx M (R - 1) m2).
    { split; [lia|]. split.
      - intros r c Hr Hc Hp. fold R in Hr.
        assert (Hrc : r = R - 1 /\ idx <= c).
        { destruct (cell_le nc (R - 1) idx r c Hidx Hc Hp) as [Hlt|[Heq Hle]]; [lia|split; [symmetry; exact Heq|exact Hle]]. }
        destruct Hrc as [-> Hci]. rewrite N2.
        destruct (Nat.eqb_spec ((R - 1) * (nc + 1) + c) (wp - 1)) as [Eq|Hne].
        + assert (c = idx) by lia. subst c. unfold fv. rewrite Nat.ltb_irrefl, Nat.eqb_refl, Ee. reflexivity.
        + rewrite N1. destruct (Nat.leb_spec wp ((R - 1) * (nc + 1) + c)); [|lia].
          destruct (Nat.ltb_spec ((R - 1) * (nc + 1) + c) (wp + (nc - idx))); [|lia]. cbn [andb].
          rewrite Hm0 by lia. f_equal. unfold fv.
          destruct (Nat.ltb_spec c idx); [lia|]. destruct (Nat.eqb_spec c idx); [lia|]. f_equal. lia.
      - intros p Hp. rewrite N2. destruct (Nat.eqb_spec p (wp - 1)); [lia|]. rewrite N1.
        destruct (Nat.leb_spec wp p); [lia|]. cbn [andb]. apply Hm0. lia. }
    destruct (insert_col_loop_ok (data t) xs nc idx Hidx Hdata (N.of_nat R) M ltac:(fold R; lia) (R - 1) m2
                ltac:(fold R; lia) Hinv) as [m3 [E3 Hinv3]].
    fold R in E3. replace (R - (R - 1)) with 1 in E3 by lia.
    replace (wp - 1) with ((R - 1) * (nc + 1) + idx) by lia. rewrite Hrp. rewrite E3. cbn [bind negb].
    rewrite Nat.leb_refl. cbn [bind]. rewrite Nat.sub_diag.
    destruct Hinv3 as [L3 [F3 R3]].
    destruct (ptr_copy_ok 0 0 idx m3) as [m4 E4]; [lia|lia|]. rewrite E4. cbn [bind].
    apply ptr_copy_spec in E4. destruct E4 as [L4 N4].
    assert (Hm4 : forall p, nth_error m4 p = nth_error m3 p).
    { intros p. rewrite N4. destruct ((0 <=? p) && (p <? 0 + idx)); [f_equal; lia|reflexivity]. }
    cbn [negb].
    rewrite (script_next_back_done xs _ R (Nat.le_refl _)).
    assert (Hextra : (if dbg then Some (false, S R) else @None (bool * nat)) = (if dbg then Some (false, S R) else None)) by reflexivity.
    (* every slot below new_len is initialised with its final content *)
    assert (Hall : forall r c, r < R -> c <= nc -> nth_error m4 (r * (nc + 1) + c) = Some (fv (data t) xs nc idx r c)).
    { intros r c Hr Hc. rewrite Hm4.
      destruct (Nat.le_gt_cases idx (r * (nc + 1) + c)) as [Hge|Hlt].
      - apply F3; [exact Hr|exact Hc|lia].
      - destruct (cell_zero nc r c idx Hlt Hidx) as [-> Hci]. cbn [Nat.mul Nat.add].
        rewrite R3 by lia. unfold fv. destruct (Nat.ltb_spec c idx); [|lia]. reflexivity. }
    assert (Hcells : forall p, p < (nc + 1) * R -> exists r c, r < R /\ c <= nc /\ p = r * (nc + 1) + c).
    { intros p Hp. exists (p / (nc + 1)), (p mod (nc + 1)).
      pose proof (Nat.div_mod p (nc + 1) ltac:(lia)). pose proof (Nat.mod_upper_bound p (nc + 1) ltac:(lia)).
      split; [apply Nat.div_lt_upper_bound; lia|]. split; lia. }
    assert (Hbuild : exists d, all_some (firstn (nc * R + R) m4) = Some d).
    { apply all_some_build. intros p Hp. rewrite firstn_length in Hp.
      destruct (Hcells p ltac:(lia)) as [r [c [Hr [Hc ->]]]].
      destruct (fv_some (data t) xs nc idx r c Hidx Hdata Hr Hc) as [x Hx].
      exists x. rewrite nth_error_firstn. destruct (Nat.ltb_spec (r * (nc + 1) + c) (nc * R + R)); [|lia].
      rewrite Hall by assumption. rewrite Hx. reflexivity. }
    destruct Hbuild as [d Hd].
    assert (Hop : owned_prefix m4 (nc * R + R) = Some d).
    { unfold owned_prefix. destruct (Nat.leb_spec (nc * R + R) (length m4)); [exact Hd|lia]. }
    assert (Hunc : rev_unconsumed (mkScript (N.of_nat R) xs None) R = []).
    { unfold rev_unconsumed. cbn [items]. apply skipn_all2. rewrite rev_length. fold R. lia. }
    exists d. split; [|split].
    + destruct dbg; rewrite Hop, Hunc; destruct (Nat.ltb_spec 0 R); try lia; reflexivity.
    + apply all_some_spec in Hd. apply (f_equal (@length _)) in Hd.
      rewrite firstn_length, map_length in Hd. lia.
    + intros r c Hr Hc. apply all_some_spec in Hd.
      assert (Hn : nth_error (firstn (nc * R + R) m4) (r * (nc + 1) + c) = nth_error (map Some d) (r * (nc + 1) + c))
        by (rewrite Hd; reflexivity).
      rewrite nth_error_firstn, nth_error_map in Hn.
      destruct (Nat.ltb_spec (r * (nc + 1) + c) (nc * R + R)); [|pose proof (cell_lt nc R r c Hr Hc); lia].
      rewrite Hall in Hn by assumption.
      destruct (nth_error d (r * (nc + 1) + c)); cbn in Hn; [inversion Hn; reflexivity|discriminate].
  - (* an empty column into the empty array *)
    assert (HR : R = 0) by lia. cbn [bind negb].
    assert (Hd0 : data t = []) by (apply length_zero_iff_nil; rewrite Hdata; lia).
    assert (Hx0 : xs = []) by (apply length_zero_iff_nil; exact HR).
    rewrite (script_next_back_done xs _ 0) by (fold R; lia).
    exists []. subst m0. rewrite Hd0, Hx0. cbn [map app length Nat.add].
    assert (Hop : owned_prefix (repeat (@None A) k) 0 = Some []) by (unfold owned_prefix; cbn; reflexivity).
    split; [|split; [cbn; lia|intros r c Hr; cbn in Hr; lia]].
    unfold rev_unconsumed. cbn [items rev skipn]. rewrite HR.
    destruct dbg; rewrite Hop; reflexivity.
Qed.

Theorem insert_col_reject dbg cap spare (t : toodee A) (index : N) xs :
  (N.of_nat (num_cols t) < index)%N \/ (num_cols t <> 0 /\ length xs <> num_rows t) ->
  insert_col dbg cap spare t index (honest_script xs) = Ok (mkOp t false xs []).
Proof.
  intros H. unfold insert_col, honest_script. cbn [items claimed].
  destruct (N.leb_spec index (N.of_nat (num_cols t))) as [Hle|Hgt]; cbn [negb]; [|reflexivity].
  destruct H as [H|[Hc Hl]]; [lia|].
  destruct (Nat.eqb_spec (num_cols t) 0); [lia|].
  destruct (N.eqb_spec (N.of_nat (num_rows t)) (N.of_nat (length xs))); [lia|reflexivity].
Qed.

End InsertColTop.

(** * the result as rows of cells *)
From Coq Require Import Permutation.
Section GridForm.
Context {A : Type}.

Lemma concat_uniform_nth (w : nat) : forall (rows : list (list A)) r c,
  Forall (fun row => length row = w) rows -> c < w ->
  nth_error (concat rows) (r * w + c) = match nth_error rows r with Some row => nth_error row c | None => None end.
Proof.
  induction rows as [|row rows IH]; intros r c Hall Hc.
  - cbn [concat]. rewrite nth_error_ge_None by (cbn; lia). destruct r; reflexivity.
  - inversion Hall as [|? ? Hrow Hall']; subst. cbn [concat]. rewrite nth_error_app.
    destruct r as [|r]; cbn [nth_error Nat.mul Nat.add].
    + destruct (Nat.ltb_spec c (length row)); [reflexivity|lia].
    + destruct (Nat.ltb_spec (length row + r * length row + c) (length row)); [lia|].
      replace (length row + r * length row + c - length row) with (r * length row + c) by lia.
      apply IH; assumption.
Qed.

Lemma concat_uniform_length (w : nat) (rows : list (list A)) :
  Forall (fun row => length row = w) rows -> length (concat rows) = w * length rows.
Proof.
  induction 1 as [|row rows Hrow _ IH]; cbn [concat length]; [lia|]. rewrite app_length, IH, Hrow. lia.
Qed.

Lemma chunks_uniform nc : forall n (d : list A), length d = nc * n ->
  Forall (fun row => length row = nc) (chunks n nc d) /\ length (chunks n nc d) = n.
Proof.
  induction n as [|n IH]; intros d Hd; cbn [chunks]; [split; [constructor|reflexivity]|].
  destruct (IH (skipn nc d)) as [H1 H2]; [rewrite skipn_length; lia|].
  split; [constructor; [rewrite firstn_length; lia|exact H1]|cbn [length]; lia].
Qed.

Lemma chunks_nth_local nc (d : list A) : forall n r, r < n ->
  nth_error (chunks n nc d) r = Some (firstn nc (skipn (r * nc) d)).
Proof.
  intros n. revert d. induction n as [|n IH]; intros d r Hr; [lia|].
  cbn [chunks]. destruct r as [|r]; cbn [nth_error]; [reflexivity|].
  rewrite IH by lia. f_equal. f_equal. cbn [Nat.mul]. rewrite skipn_add. reflexivity.
Qed.

Lemma nth_error_insert_at (x : A) : forall i (l : list A) c, i <= length l ->
  nth_error (insert_at i x l) c = if c <? i then nth_error l c else if c =? i then Some x else nth_error l (c - 1).
Proof.
  induction i as [|i IH]; intros l c Hi.
  - cbn [insert_at]. destruct c as [|c]; cbn [nth_error Nat.ltb Nat.leb Nat.eqb]; [reflexivity|].
    f_equal. lia.
  - destruct l as [|h t]; cbn [length] in Hi; [lia|]. cbn [insert_at].
    destruct c as [|c]; cbn [nth_error]; [reflexivity|].
    rewrite IH by lia. change (S c <? S i) with (c <? i). change (S c =? S i) with (c =? i).
    destruct (Nat.ltb_spec c i); [reflexivity|]. destruct (Nat.eqb_spec c i); [reflexivity|].
    destruct c; [lia|]. replace (S (S c) - 1) with (S c) by lia. cbn [nth_error]. f_equal. lia.
Qed.

Lemma insert_at_length (x : A) : forall i (l : list A), i <= length l -> length (insert_at i x l) = S (length l).
Proof.
  induction i as [|i IH]; intros l Hi; [reflexivity|].
  destruct l as [|h t]; cbn [length] in *; [lia|]. cbn [insert_at length]. rewrite IH by lia. reflexivity.
Qed.

Lemma map2_nth {X Y Z} (f : X -> Y -> Z) : forall (l1 : list X) (l2 : list Y) r,
  nth_error (Grid.map2 f l1 l2) r =
  match nth_error l1 r, nth_error l2 r with Some x, Some y => Some (f x y) | _, _ => None end.
Proof.
  induction l1 as [|x l1 IH]; intros l2 r; [destruct r; reflexivity|].
  destruct l2 as [|y l2]; [cbn; destruct r; cbn; [reflexivity|destruct (nth_error l1 r); reflexivity]|].
  cbn [Grid.map2]. destruct r; cbn [nth_error]; [reflexivity|apply IH].
Qed.

Lemma map2_length {X Y Z} (f : X -> Y -> Z) : forall (l1 : list X) (l2 : list Y),
  length l1 = length l2 -> length (Grid.map2 f l1 l2) = length l1.
Proof.
  induction l1 as [|x l1 IH]; intros [|y l2] H; cbn in *; try lia. rewrite IH by lia. reflexivity.
Qed.

(** the pointwise description determines the flat buffer: it is the rows with the new
    element inserted at [idx], row by row *)
Theorem insert_col_rows (data xs d' : list A) nc idx : idx <= nc -> length data = nc * length xs ->
  length d' = (nc + 1) * length xs ->
  (forall r c, r < length xs -> c <= nc -> nth_error d' (r * (nc + 1) + c) = fv data xs nc idx r c) ->
  d' = concat (Grid.map2 (fun x row => insert_at idx x row) xs (chunks (length xs) nc data)).
Proof.
  intros Hidx Hd Hl Hn. set (R := length xs) in *.
  destruct (chunks_uniform nc R data Hd) as [Hu Hcl].
  set (rows' := Grid.map2 (fun x row => insert_at idx x row) xs (chunks R nc data)).
  assert (Hu' : Forall (fun row => length row = nc + 1) rows').
  { apply Forall_forall. intros row Hin. destruct (In_nth_error _ _ Hin) as [r Hr].
    unfold rows' in Hr. rewrite map2_nth in Hr.
    destruct (nth_error xs r) as [x|] eqn:Ex; [|discriminate].
    destruct (nth_error (chunks R nc data) r) as [row0|] eqn:Er; [|discriminate]. inversion Hr; subst row.
    assert (length row0 = nc) by (apply (proj1 (Forall_forall _ _) Hu); eapply nth_error_In; exact Er).
    rewrite insert_at_length by lia. lia. }
  assert (Hl' : length rows' = R) by (unfold rows'; rewrite map2_length; [reflexivity|lia]).
  apply list_ext. intros p.
  destruct (Nat.lt_ge_cases p ((nc + 1) * R)) as [Hp|Hp].
  - set (r := p / (nc + 1)). set (c := p mod (nc + 1)).
    assert (Hpc : p = r * (nc + 1) + c) by (subst r c; pose proof (Nat.div_mod p (nc + 1) ltac:(lia)); lia).
    assert (Hc : c <= nc) by (subst c; pose proof (Nat.mod_upper_bound p (nc + 1) ltac:(lia)); lia).
    assert (Hr : r < R) by (subst r; apply Nat.div_lt_upper_bound; lia).
    rewrite Hpc. rewrite Hn by assumption.
    rewrite (concat_uniform_nth (nc + 1) rows' r c Hu') by lia.
    unfold rows'. rewrite map2_nth.
    destruct (nth_error xs r) as [x|] eqn:Ex; [|apply nth_error_None in Ex; fold R in Ex; lia].
    rewrite (chunks_nth_local nc data R r Hr).
    rewrite nth_error_insert_at by (rewrite firstn_length, skipn_length; nia).
    unfold fv. rewrite !nth_error_firstn, !nth_error_skipn.
    destruct (Nat.ltb_spec c idx).
    + destruct (Nat.ltb_spec c nc); [reflexivity|lia].
    + destruct (Nat.eqb_spec c idx); [exact Ex|].
      destruct (Nat.ltb_spec (c - 1) nc); [f_equal; lia|lia].
  - rewrite !nth_error_ge_None; [reflexivity| |lia].
    rewrite (concat_uniform_length (nc + 1) rows' Hu'), Hl'. lia.
Qed.

(** nothing lost, nothing duplicated *)
Lemma insert_cols_perm idx : forall (xs : list A) (rows : list (list A)),
  length xs = length rows -> Forall (fun row => idx <= length row) rows ->
  Permutation (concat (Grid.map2 (fun x row => insert_at idx x row) xs rows)) (concat rows ++ xs).
Proof.
  assert (Hins : forall (x : A) i l, i <= length l -> Permutation (insert_at i x l) (x :: l)).
  { intros x. induction i as [|i IH]; intros l Hi; [apply Permutation_refl|].
    destruct l as [|h t]; cbn [length] in Hi; [lia|]. cbn [insert_at].
    eapply Permutation_trans; [apply perm_skip; apply IH; lia|apply perm_swap]. }
  induction xs as [|x xs IH]; intros [|row rows] Hl Hall; cbn [length] in Hl; try lia; [apply Permutation_refl|].
  inversion Hall as [|? ? Hrow Hall']; subst. cbn [Grid.map2 concat].
  eapply Permutation_trans; [apply Permutation_app; [apply Hins; exact Hrow|apply IH; [lia|exact Hall']]|].
  cbn [app]. rewrite (app_assoc row). apply Permutation_middle.
Qed.

End GridForm.
