(** insert_col (C06): the back-to-front raw-pointer loop places the new column exactly and
    keeps every other cell in place; never touches a slot outside the reserved buffer, never
    owns an uninitialised slot. *)
From TD Require Import Base.Prelude Spec.Grid Spec.Inv Model.Iter Model.Owned
  Proofs.ListLemmas Proofs.InsertRow.

Section InsertCol.
Context {A : Type}.

Lemma script_next_back_honest (xs : list A) c k x :
  nth_error (rev xs) k = Some x -> script_next_back (mkScript c xs None) k = Yield x.
Proof. unfold script_next_back; cbn [panic_at items]. intros ->. reflexivity. Qed.

Lemma script_next_back_done (xs : list A) c k :
  length xs <= k -> script_next_back (mkScript c xs None) k = Done.
Proof.
  unfold script_next_back; cbn [panic_at items]. intros H. rewrite nth_error_ge_None; [reflexivity|].
  rewrite rev_length. exact H.
Qed.

Lemma nth_error_rev_local (l : list A) i : i < length l -> nth_error (rev l) i = nth_error l (length l - 1 - i).
Proof.
  intros H. revert i H. induction l as [|x l IH]; intros i H; cbn [length] in *; [lia|].
  cbn [rev]. rewrite nth_error_app, rev_length.
  destruct (Nat.ltb_spec i (length l)).
  - rewrite IH by lia. replace (S (length l) - 1 - i) with (S (length l - 1 - i)) by lia. reflexivity.
  - replace i with (length l) by lia. rewrite Nat.sub_diag.
    replace (S (length l) - 1 - length l) with 0 by lia. reflexivity.
Qed.

Lemma ptr_write_spec i (x : A) (m m' : list (option A)) :
  ptr_write i x m = Ok m' ->
  length m' = length m /\ forall p, nth_error m' p = if p =? i then Some (Some x) else nth_error m p.
Proof.
  unfold ptr_write. destruct (Nat.ltb_spec i (length m)); [|discriminate].
  intros E. inversion E; subst. split; [apply upd_length|].
  intros p. rewrite nth_error_upd. destruct (Nat.eqb_spec i p) as [->|Hne]; cbn [andb].
  - rewrite Nat.eqb_refl. destruct (Nat.ltb_spec p (length m)); [reflexivity|lia].
  - destruct (Nat.eqb_spec p i); [lia|reflexivity].
Qed.

Lemma ptr_write_ok i (x : A) (m : list (option A)) : i < length m -> exists m', ptr_write i x m = Ok m'.
Proof. intros H. unfold ptr_write. destruct (Nat.ltb_spec i (length m)); [eauto|lia]. Qed.

Lemma cell_unique n r c r' c' : c <= n -> c' <= n -> r * (n + 1) + c = r' * (n + 1) + c' -> r = r' /\ c = c'.
Proof.
  intros Hc Hc' E. destruct (Nat.lt_trichotomy r r') as [H|[H|H]].
  - exfalso. assert ((r + 1) * (n + 1) <= r' * (n + 1)) by (apply Nat.mul_le_mono_r; lia). lia.
  - subst. lia.
  - exfalso. assert ((r' + 1) * (n + 1) <= r * (n + 1)) by (apply Nat.mul_le_mono_r; lia). lia.
Qed.

(** ordering of cells of the (n+1)-wide layout *)
Lemma cell_le n r c r' c' : c <= n -> c' <= n -> r * (n + 1) + c <= r' * (n + 1) + c' -> r < r' \/ (r = r' /\ c <= c').
Proof.
  intros Hc Hc' E. destruct (Nat.lt_trichotomy r r') as [H|[H|H]]; [left; exact H|right; subst; lia|].
  exfalso. assert ((r' + 1) * (n + 1) <= r * (n + 1)) by (apply Nat.mul_le_mono_r; lia). lia.
Qed.

(** the final content of cell (c, r) of the (nc+1)-wide result; [cf r] = the element the
    iterator supplies for row r *)
Variables (data : list A) (cf : nat -> option A) (R nc idx : nat).
Definition fvg (r c : nat) : option A :=
  if c <? idx then nth_error data (r * nc + c)
  else if c =? idx then cf r
  else nth_error data (r * nc + c - 1).

Hypothesis Hidx : idx <= nc.
Hypothesis Hdata : length data = nc * R.

(** loop invariant with [j] rows still to process *)
Definition Invc (M j : nat) (m : list (option A)) : Prop :=
  length m = M /\
  (forall r c, r < R -> c <= nc -> j * (nc + 1) + idx <= r * (nc + 1) + c ->
     nth_error m (r * (nc + 1) + c) = Some (fvg r c)) /\
  (forall p, p < j * nc + idx -> nth_error m p = Some (nth_error data p)).

(** the loop with ANY iterator script whose k-th yield (from the back) is the element of
    row R-1-k: it never leaves the buffer; when it completes, every row is in place *)
Lemma insert_col_loop_gen (s : iter_script A) M : (nc + 1) * R <= M ->
  (forall k e, k < R -> script_next_back s k = Yield e -> cf (R - 1 - k) = Some e) ->
  forall j m, j < R -> Invc M j m ->
  exists m' completed k' rp' wp',
    insert_col_loop s nc j (R - j) (j * nc + idx) (j * (nc + 1) + idx) m = Ok (m', completed, k', rp', wp') /\
    (completed = true -> k' = R /\ rp' = idx /\ wp' = idx /\ Invc M 0 m' /\
                         forall k, R - j <= k < R -> exists e, script_next_back s k = Yield e) /\
    (completed = false -> k' < R /\ R - j <= k' /\ forall e, script_next_back s k' <> Yield e).
Proof.
  intros HM Hcf. induction j as [|j IH]; intros m Hj [Hlen [Hfin Hraw]].
  - exists m, true, R, idx, idx. cbn [insert_col_loop]. rewrite Nat.sub_0_r. cbn [Nat.mul Nat.add].
    split; [reflexivity|]. split; [|discriminate].
    intros _. split; [reflexivity|]. split; [reflexivity|]. split; [reflexivity|].
    split; [split; [exact Hlen|split; assumption]|]. intros k Hk. lia.
  - cbn [insert_col_loop]. unfold usub.
    destruct (Nat.leb_spec nc (S j * nc + idx)); [|nia]. cbn [bind].
    destruct (Nat.leb_spec nc (S j * (nc + 1) + idx)); [|nia]. cbn [bind].
    set (rp := S j * nc + idx - nc). set (wp := S j * (nc + 1) + idx - nc).
    assert (Hrp : rp = j * nc + idx) by (subst rp; nia).
    assert (Hwp : wp = j * (nc + 1) + idx + 1) by (subst wp; nia).
    destruct (ptr_copy_ok rp wp nc m) as [m1 E1]; [nia|nia|]. rewrite E1. cbn [bind].
    apply ptr_copy_spec in E1. destruct E1 as [L1 N1].
    destruct (Nat.leb_spec 1 wp); [|lia]. cbn [bind].
    destruct (script_next_back s (R - S j)) as [e| |] eqn:Esn.
    2,3: (eexists; exists false; do 3 eexists; split; [reflexivity|]; split; [discriminate|];
          intros _; split; [lia|]; split; [lia|]; intros e He; congruence).
    pose proof (Hcf (R - S j) e ltac:(lia) Esn) as Ee. replace (R - 1 - (R - S j)) with j in Ee by lia.
    destruct (ptr_write_ok (wp - 1) e m1) as [m2 E2]; [nia|]. rewrite E2. cbn [bind].
    apply ptr_write_spec in E2. destruct E2 as [L2 N2].
    replace (S (R - S j)) with (R - j) by lia.
    replace (wp - 1) with (j * (nc + 1) + idx) by lia. rewrite Hrp.
    destruct (IH m2) as [m' [completed [k' [rp' [wp' [E [Hc Hf]]]]]]]; [lia| |].
    { split; [lia|]. split.
      + intros r c Hr Hc Hp. rewrite N2.
        destruct (Nat.eqb_spec (r * (nc + 1) + c) (wp - 1)) as [Eq|Hne].
        * (* the inserted element of row j *)
          assert (Hu : r = j /\ c = idx) by (apply (cell_unique nc); [assumption|assumption|lia]). destruct Hu as [-> ->].
          unfold fvg. rewrite Nat.ltb_irrefl, Nat.eqb_refl, Ee. reflexivity.
        * rewrite N1.
          destruct (Nat.leb_spec wp (r * (nc + 1) + c)); destruct (Nat.ltb_spec (r * (nc + 1) + c) (wp + nc)); cbn [andb].
          -- (* moved by this block copy: row j's tail or row j+1's head *)
             rewrite Hraw by nia. f_equal. unfold fvg.
             destruct (Nat.eq_dec r j) as [->|Hrj].
             ++ destruct (Nat.ltb_spec c idx); [nia|]. destruct (Nat.eqb_spec c idx); [nia|]. f_equal. nia.
             ++ assert (r = S j) by nia. subst r. destruct (Nat.ltb_spec c idx); [f_equal; nia|nia].
          -- apply Hfin; [assumption|assumption|nia].
          -- nia.
          -- nia.
      + intros p Hp. rewrite N2. destruct (Nat.eqb_spec p (wp - 1)); [nia|]. rewrite N1.
        destruct (Nat.leb_spec wp p); [nia|]. cbn [andb]. apply Hraw. nia. }
    exists m', completed, k', rp', wp'. split; [exact E|]. split.
    + intros Ht. destruct (Hc Ht) as [Q1 [Q2 [Q3 [Q4 Q5]]]]. repeat (split; [assumption|]).
      intros k Hk. destruct (Nat.eq_dec k (R - S j)) as [->|Hne]; [exists e; exact Esn|apply Q5; lia].
    + intros Hfl. destruct (Hf Hfl) as [Q1 [Q2 Q3]]. split; [exact Q1|]. split; [lia|exact Q3].
Qed.

End InsertCol.

(** honest iterators: the supplied column [xs], top to bottom *)
Definition fv {A} (data xs : list A) (nc idx r c : nat) : option A := fvg data (nth_error xs) nc idx r c.

Lemma insert_col_loop_ok {A} (data xs : list A) nc idx (Hidx : idx <= nc) (Hdata : length data = nc * length xs) cl M :
  (nc + 1) * length xs <= M ->
  forall j m, j < length xs -> Invc data (nth_error xs) (length xs) nc idx M j m ->
  exists m', insert_col_loop (mkScript cl xs None) nc j (length xs - j) (j * nc + idx) (j * (nc + 1) + idx) m
             = Ok (m', true, length xs, idx, idx) /\ Invc data (nth_error xs) (length xs) nc idx M 0 m'.
Proof.
  intros HM j m Hj Hinv.
  destruct (insert_col_loop_gen data (nth_error xs) (length xs) nc idx Hidx Hdata (mkScript cl xs None) M HM) with (j := j) (m := m)
    as [m' [completed [k' [rp' [wp' [E [Hc Hf]]]]]]]; try assumption.
  - intros k e Hk Hy. unfold script_next_back in Hy. cbn [panic_at items] in Hy.
    destruct (nth_error (rev xs) k) as [x|] eqn:Ex; [|discriminate]. inversion Hy; subst x.
    rewrite nth_error_rev_local in Ex by lia. rewrite <- Ex. f_equal; lia.
  - destruct completed.
    + destruct (Hc eq_refl) as [-> [-> [-> [Hinv0 _]]]]. exists m'. split; [exact E|exact Hinv0].
    + exfalso. destruct (Hf eq_refl) as [Hk' [_ Hny]].
      unfold script_next_back in Hny. cbn [panic_at items] in Hny.
      destruct (nth_error (rev xs) k') as [x|] eqn:Ex; [exact (Hny x eq_refl)|].
      apply nth_error_None in Ex. rewrite rev_length in Ex. lia.
Qed.

Lemma mulR nc R : 0 < R -> nc * R = (R - 1) * nc + nc.
Proof. intros H. destruct R as [|R']; [lia|]. cbn [Nat.sub]. rewrite Nat.sub_0_r. lia. Qed.

Lemma cell_lt n R r c : r < R -> c <= n -> r * (n + 1) + c < n * R + R.
Proof.
  intros Hr Hc. assert ((r + 1) * (n + 1) <= R * (n + 1)) by (apply Nat.mul_le_mono_r; lia). lia.
Qed.

Lemma cell_zero n r c i : r * (n + 1) + c < i -> i <= n -> r = 0 /\ c < i.
Proof. intros H Hi. destruct r as [|r]; [lia|]. exfalso. cbn [Nat.mul] in H. lia. Qed.

Section InsertColTop.
Context {A : Type}.

Lemma all_some_build (l : list (option A)) :
  (forall p, p < length l -> exists x, nth_error l p = Some (Some x)) -> exists d, all_some l = Some d.
Proof.
  induction l as [|o l IH]; intros H; [exists []; reflexivity|].
  destruct (H 0 ltac:(cbn; lia)) as [x Hx]. cbn in Hx. inversion Hx; subst o.
  destruct IH as [d Hd]. { intros p Hp. apply (H (S p)). cbn. lia. }
  exists (x :: d). cbn [all_some]. rewrite Hd. reflexivity.
Qed.

Lemma fvg_some (data : list A) (cf : nat -> option A) R nc idx r c : idx <= nc -> length data = nc * R ->
  (forall r, r < R -> exists x, cf r = Some x) ->
  r < R -> c <= nc -> exists x, fvg data cf nc idx r c = Some x.
Proof.
  intros Hidx Hd Hcf Hr Hc. unfold fvg.
  destruct (Nat.ltb_spec c idx); [apply nth_error_lt_Some; nia|].
  destruct (Nat.eqb_spec c idx); [apply Hcf; exact Hr|]. apply nth_error_lt_Some. nia.
Qed.

Lemma snb_yield_nth (s : iter_script A) k e : script_next_back s k = Yield e -> nth_error (rev (items s)) k = Some e.
Proof.
  unfold script_next_back. destruct (panic_at s) as [p|]; [destruct (p =? k); [discriminate|]|];
  destruct (nth_error (rev (items s)) k); intros H; inversion H; reflexivity.
Qed.

(** what the caller is left with when the iterator fails (short or panicking) after [k]
    elements, or - debug builds - turns out longer than it claimed: the empty array; the
    old cells and the [k] consumed elements are leaked, the rest is dropped with the iterator *)
Definition col_failres (t : toodee A) (s : iter_script A) (k : nat) : opres A :=
  mkOp (mkTD [] 0 0) false (rev_unconsumed s k) (data t ++ firstn k (rev (items s))).
(** the iterator keeps its promise: [R] elements, and (checked in debug builds only) no more *)
Definition col_full (dbg : bool) (s : iter_script A) (R : nat) : Prop :=
  (forall k, k < R -> exists e, script_next_back s k = Yield e) /\ (dbg = true -> script_next_back s R = Done).

(** insert_col past its argument checks with ANY iterator script that claims [R] elements:
    it never touches memory outside the reserved buffer or a moved-out slot (Ok, not UB);
    it either fails as [col_failres] or - exactly when the iterator keeps its promise -
    succeeds with every cell in place *)
Theorem insert_col_gen dbg cap spare (t : toodee A) idx (s : iter_script A) R :
  Inv t -> idx <= num_cols t -> claimed s = N.of_nat R -> (num_cols t = 0 \/ R = num_rows t) ->
  (N.of_nat (length (data t)) + N.of_nat R <= cap)%N ->
  let nc := num_cols t in
  let cf := fun r => nth_error (rev (items s)) (R - 1 - r) in
  exists res, insert_col dbg cap spare t (N.of_nat idx) s = Ok res /\
   ((~ col_full dbg s R /\ exists k, k <= R /\ res = col_failres t s k) \/
    (col_full dbg s R /\ exists d',
       res = mkOp (if 0 <? R then mkTD d' R (nc + 1) else mkTD d' 0 0) true (rev_unconsumed s R) [] /\
       length d' = (nc + 1) * R /\
       forall r c, r < R -> c <= nc -> nth_error d' (r * (nc + 1) + c) = fvg (data t) cf nc idx r c)).
Proof.
  intros [Hlen Hz] Hidx Hcl Hw Hcap nc cf. fold nc in Hlen, Hz, Hidx, Hw.
  assert (Hdata : length (data t) = nc * R).
  { destruct Hw as [H0|Hx]; [rewrite Hlen, H0; lia|rewrite Hlen, Hx; reflexivity]. }
  unfold insert_col. rewrite Hcl.
  destruct (N.leb_spec (N.of_nat idx) (N.of_nat (num_cols t))) as [_|]; [|unfold nc in *; lia]. cbn [negb].
  assert (Hheight : (if num_cols t =? 0 then Some (N.of_nat R)
                     else if (N.of_nat (num_rows t) =? N.of_nat R)%N then Some (N.of_nat R) else None)
                    = Some (N.of_nat R)).
  { destruct (Nat.eqb_spec (num_cols t) 0); [reflexivity|]. destruct Hw as [|Hx]; [contradiction|].
    rewrite Hx, N.eqb_refl. reflexivity. }
  rewrite Hheight. unfold reserve_ok.
  destruct (N.leb_spec (N.of_nat (length (data t)) + N.of_nat R) cap); [|lia]. cbn [negb].
  rewrite !Nat2N.id. fold nc. unfold usub. destruct (Nat.leb_spec idx nc); [|lia]. cbn [bind].
  destruct (reserve_shape (data t) spare R) as [k [Hk Em0]]. rewrite Em0.
  set (m0 := map Some (data t) ++ repeat None k).
  assert (Hl0 : length m0 = nc * R + k) by (unfold m0; rewrite app_length, map_length, repeat_length; lia).
  set (M := length m0).
  fold (col_failres t s).
  destruct (Nat.ltb_spec 0 R) as [HR|HR0].
  - (* at least one row: the last row's suffix, its new element, then the loop *)
    rewrite Hdata. pose proof (mulR nc R HR) as EnR. pose proof (Nat.le_0_l ((R - 1) * nc)) as Hpos.
    destruct (Nat.leb_spec (nc - idx) (nc * R)); [|lia]. cbn [bind].
    destruct (Nat.leb_spec (nc - idx) (nc * R + R)); [|lia]. cbn [bind].
    set (rp := nc * R - (nc - idx)). set (wp := nc * R + R - (nc - idx)).
    assert (Hrp : rp = (R - 1) * nc + idx) by (subst rp; lia).
    assert (Hwp : wp = (R - 1) * (nc + 1) + idx + 1) by (subst wp; lia).
    destruct (ptr_copy_ok rp wp (nc - idx) m0) as [m1 E1]; [lia|lia|]. rewrite E1. cbn [bind].
    apply ptr_copy_spec in E1. destruct E1 as [L1 N1].
    destruct (Nat.leb_spec 1 wp); [|lia]. cbn [bind].
    destruct (script_next_back s 0) as [e| |] eqn:E0.
    2,3: (cbn [bind negb]; eexists; split; [reflexivity|]; left; split;
          [intros [Hy _]; destruct (Hy 0 HR) as [e He]; congruence|exists 0; split; [lia|reflexivity]]).
    assert (Ee : cf (R - 1) = Some e).
    { unfold cf. replace (R - 1 - (R - 1)) with 0 by lia. apply snb_yield_nth. exact E0. }
    destruct (ptr_write_ok (wp - 1) e m1) as [m2 E2]; [lia|]. rewrite E2. cbn [bind].
    apply ptr_write_spec in E2. destruct E2 as [L2 N2].
    assert (Hm0 : forall p, p < nc * R -> nth_error m0 p = Some (nth_error (data t) p)).
    { intros p Hp. unfold m0. rewrite nth_error_app, map_length. destruct (Nat.ltb_spec p (length (data t))); [|lia].
      rewrite nth_error_map. destruct (nth_error (data t) p) eqn:Ep; [reflexivity|apply nth_error_None in Ep; lia]. }
    assert (Hinv : Invc (data t) cf R nc idx M (R - 1) m2).
    { split; [lia|]. split.
      - intros r c Hr Hc Hp.
        assert (Hrc : r = R - 1 /\ idx <= c).
        { destruct (cell_le nc (R - 1) idx r c Hidx Hc Hp) as [Hlt|[Heq Hle]]; [lia|split; [symmetry; exact Heq|exact Hle]]. }
        destruct Hrc as [-> Hci]. rewrite N2.
        destruct (Nat.eqb_spec ((R - 1) * (nc + 1) + c) (wp - 1)) as [Eq|Hne].
        + assert (c = idx) by lia. subst c. unfold fvg. rewrite Nat.ltb_irrefl, Nat.eqb_refl, Ee. reflexivity.
        + rewrite N1. destruct (Nat.leb_spec wp ((R - 1) * (nc + 1) + c)); [|lia].
          destruct (Nat.ltb_spec ((R - 1) * (nc + 1) + c) (wp + (nc - idx))); [|lia]. cbn [andb].
          rewrite Hm0 by lia. f_equal. unfold fvg.
          destruct (Nat.ltb_spec c idx); [lia|]. destruct (Nat.eqb_spec c idx); [lia|]. f_equal. lia.
      - intros p Hp. rewrite N2. destruct (Nat.eqb_spec p (wp - 1)); [lia|]. rewrite N1.
        destruct (Nat.leb_spec wp p); [lia|]. cbn [andb]. apply Hm0. lia. }
    destruct (insert_col_loop_gen (data t) cf R nc idx Hidx Hdata s M ltac:(lia)) with (j := R - 1) (m := m2)
      as [m3 [completed [k' [rp' [wp' [E3 [Htrue Hfalse]]]]]]]; [|lia|exact Hinv|].
    { intros k0 e0 Hk0 Hy. unfold cf. replace (R - 1 - (R - 1 - k0)) with k0 by lia. apply snb_yield_nth. exact Hy. }
    replace (R - (R - 1)) with 1 in E3, Htrue, Hfalse by lia.
    replace (wp - 1) with ((R - 1) * (nc + 1) + idx) by lia. rewrite Hrp. rewrite E3. cbn [bind].
    destruct completed; cbn [negb].
    2: { destruct (Hfalse eq_refl) as [Hk' [Hlo Hny]].
         eexists; split; [reflexivity|]. left. split.
         - intros [Hy _]. destruct (Hy k' Hk') as [e' He']. exact (Hny e' He').
         - exists k'. split; [lia|reflexivity]. }
    destruct (Htrue eq_refl) as [-> [-> [-> [Hinv3 Hys]]]].
    assert (Hyall : forall k, k < R -> exists e, script_next_back s k = Yield e).
    { intros k0 Hk0. destruct (Nat.eq_dec k0 0) as [->|Hne]; [exists e; exact E0|apply Hys; lia]. }
    rewrite Nat.leb_refl. cbn [bind]. rewrite Nat.sub_diag.
    destruct Hinv3 as [L3 [F3 R3]].
    destruct (ptr_copy_ok 0 0 idx m3) as [m4 E4]; [lia|lia|]. rewrite E4. cbn [bind].
    apply ptr_copy_spec in E4. destruct E4 as [L4 N4].
    assert (Hm4 : forall p, nth_error m4 p = nth_error m3 p).
    { intros p. rewrite N4. destruct ((0 <=? p) && (p <? 0 + idx)); [f_equal; lia|reflexivity]. }
    cbn [negb].
    (* every slot below new_len is initialised with its final content *)
    assert (Hall : forall r c, r < R -> c <= nc -> nth_error m4 (r * (nc + 1) + c) = Some (fvg (data t) cf nc idx r c)).
    { intros r c Hr Hc. rewrite Hm4.
      destruct (Nat.le_gt_cases idx (r * (nc + 1) + c)) as [Hge|Hlt].
      - apply F3; [exact Hr|exact Hc|lia].
      - destruct (cell_zero nc r c idx Hlt Hidx) as [-> Hci]. cbn [Nat.mul Nat.add].
        rewrite R3 by lia. unfold fvg. destruct (Nat.ltb_spec c idx); [|lia]. reflexivity. }
    assert (Hcells : forall p, p < (nc + 1) * R -> exists r c, r < R /\ c <= nc /\ p = r * (nc + 1) + c).
    { intros p Hp. exists (p / (nc + 1)), (p mod (nc + 1)).
      pose proof (Nat.div_mod p (nc + 1) ltac:(lia)). pose proof (Nat.mod_upper_bound p (nc + 1) ltac:(lia)).
      split; [apply Nat.div_lt_upper_bound; lia|]. split; lia. }
    assert (Hcfs : forall r, r < R -> exists x, cf r = Some x).
    { intros r Hr. destruct (Hyall (R - 1 - r) ltac:(lia)) as [x Hx]. exists x. unfold cf. apply snb_yield_nth. exact Hx. }
    assert (Hbuild : exists d, all_some (firstn (nc * R + R) m4) = Some d).
    { apply all_some_build. intros p Hp. rewrite firstn_length in Hp.
      destruct (Hcells p ltac:(lia)) as [r [c [Hr [Hc ->]]]].
      destruct (fvg_some (data t) cf R nc idx r c Hidx Hdata Hcfs Hr Hc) as [x Hx].
      exists x. rewrite nth_error_firstn. destruct (Nat.ltb_spec (r * (nc + 1) + c) (nc * R + R)); [|lia].
      rewrite Hall by assumption. rewrite Hx. reflexivity. }
    destruct Hbuild as [d Hd].
    assert (Hop : owned_prefix m4 (nc * R + R) = Some d).
    { unfold owned_prefix. destruct (Nat.leb_spec (nc * R + R) (length m4)); [exact Hd|lia]. }
    assert (Hdl : length d = (nc + 1) * R).
    { apply all_some_spec in Hd. apply (f_equal (@length _)) in Hd.
      rewrite firstn_length, map_length in Hd. lia. }
    assert (Hdn : forall r c, r < R -> c <= nc -> nth_error d (r * (nc + 1) + c) = fvg (data t) cf nc idx r c).
    { intros r c Hr Hc. apply all_some_spec in Hd.
      assert (Hn : nth_error (firstn (nc * R + R) m4) (r * (nc + 1) + c) = nth_error (map Some d) (r * (nc + 1) + c))
        by (rewrite Hd; reflexivity).
      rewrite nth_error_firstn, nth_error_map in Hn.
      destruct (Nat.ltb_spec (r * (nc + 1) + c) (nc * R + R)); [|pose proof (cell_lt nc R r c Hr Hc); lia].
      rewrite Hall in Hn by assumption.
      destruct (nth_error d (r * (nc + 1) + c)); cbn in Hn; [inversion Hn; reflexivity|discriminate]. }
    rewrite Hop. destruct (Nat.ltb_spec 0 R); [|lia].
    assert (Hacc : col_full dbg s R -> exists d', mkOp (mkTD d R (nc + 1)) true (rev_unconsumed s R) [] =
        mkOp (mkTD d' R (nc + 1)) true (rev_unconsumed s R) [] /\ length d' = (nc + 1) * R /\
        forall r c, r < R -> c <= nc -> nth_error d' (r * (nc + 1) + c) = fvg (data t) cf nc idx r c).
    { intros _. exists d. split; [reflexivity|]. split; [exact Hdl|exact Hdn]. }
    destruct dbg.
    + destruct (script_next_back s R) as [e'| |] eqn:ER.
      * eexists; split; [reflexivity|]. left. split; [intros [_ Hd']; specialize (Hd' eq_refl); congruence|].
        exists R. split; [lia|reflexivity].
      * assert (Hf : col_full true s R) by (split; [exact Hyall|intros _; exact ER]).
        eexists; split; [reflexivity|]. right. split; [exact Hf|exact (Hacc Hf)].
      * eexists; split; [reflexivity|]. left. split; [intros [_ Hd']; specialize (Hd' eq_refl); congruence|].
        exists R. split; [lia|reflexivity].
    + assert (Hf : col_full false s R) by (split; [exact Hyall|discriminate]).
      eexists; split; [reflexivity|]. right. split; [exact Hf|exact (Hacc Hf)].
  - (* an empty column into the empty array *)
    assert (HR : R = 0) by lia. cbn [bind negb].
    assert (Hd0 : data t = []) by (apply length_zero_iff_nil; rewrite Hdata; lia).
    subst m0. rewrite Hd0. cbn [map app length Nat.add].
    assert (Hop : owned_prefix (repeat (@None A) k) 0 = Some []) by (unfold owned_prefix; cbn; reflexivity).
    rewrite HR in *. rewrite Hop.
    assert (Hacc : col_full dbg s 0 -> exists d' : list A, mkOp (mkTD [] 0 0) true (rev_unconsumed s 0) [] =
        mkOp (mkTD d' 0 0) true (rev_unconsumed s 0) [] /\ length d' = (nc + 1) * 0 /\
        forall r c, r < 0 -> c <= nc -> nth_error d' (r * (nc + 1) + c) = fvg [] cf nc idx r c).
    { intros _. exists []. split; [reflexivity|]. split; [cbn; lia|intros r c Hr; lia]. }
    destruct dbg.
    + destruct (script_next_back s 0) as [e'| |] eqn:ER.
      * eexists; split; [reflexivity|]. left. split; [intros [_ Hd']; specialize (Hd' eq_refl); congruence|].
        exists 0. split; [lia|unfold col_failres; rewrite Hd0; reflexivity].
      * assert (Hf : col_full true s 0) by (split; [intros k0 Hk0; lia|intros _; exact ER]).
        eexists; split; [reflexivity|]. right. split; [exact Hf|exact (Hacc Hf)].
      * eexists; split; [reflexivity|]. left. split; [intros [_ Hd']; specialize (Hd' eq_refl); congruence|].
        exists 0. split; [lia|unfold col_failres; rewrite Hd0; reflexivity].
    + assert (Hf : col_full false s 0) by (split; [intros k0 Hk0; lia|discriminate]).
      eexists; split; [reflexivity|]. right. split; [exact Hf|exact (Hacc Hf)].
Qed.

(** honest iterators keep their promise *)
Lemma honest_full dbg (xs : list A) : col_full dbg (honest_script xs) (length xs).
Proof.
  unfold honest_script. split.
  - intros k Hk. destruct (nth_error (rev xs) k) as [x|] eqn:Ex.
    + exists x. apply script_next_back_honest. exact Ex.
    + apply nth_error_None in Ex. rewrite rev_length in Ex. lia.
  - intros _. apply script_next_back_done. lia.
Qed.

Theorem insert_col_accept dbg cap spare (t : toodee A) idx xs :
  Inv t -> idx <= num_cols t -> (num_cols t = 0 \/ length xs = num_rows t) ->
  (N.of_nat (length (data t)) + N.of_nat (length xs) <= cap)%N ->
  exists d',
    insert_col dbg cap spare t (N.of_nat idx) (honest_script xs)
    = Ok (mkOp (if 0 <? length xs then mkTD d' (length xs) (num_cols t + 1) else mkTD d' 0 0) true [] []) /\
    length d' = (num_cols t + 1) * length xs /\
    (forall r c, r < length xs -> c <= num_cols t ->
       nth_error d' (r * (num_cols t + 1) + c) = fv (data t) xs (num_cols t) idx r c).
Proof.
  intros Hinv Hidx Hw Hcap.
  destruct (insert_col_gen dbg cap spare t idx (honest_script xs) (length xs) Hinv Hidx eq_refl Hw Hcap)
    as [res [E [[Hnf _]|[_ [d' [-> [Hl Hn]]]]]]]; [exfalso; apply Hnf; apply honest_full|].
  exists d'. split; [|split; [exact Hl|]].
  - rewrite E. unfold rev_unconsumed, honest_script. cbn [items]. rewrite skipn_all2 by (rewrite rev_length; lia). reflexivity.
  - intros r c Hr Hc. rewrite (Hn r c Hr Hc). unfold fv, fvg, honest_script. cbn [items].
    destruct (c <? idx); [reflexivity|]. destruct (c =? idx); [|reflexivity].
    rewrite nth_error_rev_local by lia. f_equal. lia.
Qed.

Theorem insert_col_reject dbg cap spare (t : toodee A) (index : N) xs :
  (N.of_nat (num_cols t) < index)%N \/ (num_cols t <> 0 /\ length xs <> num_rows t) ->
  insert_col dbg cap spare t index (honest_script xs) = Ok (mkOp t false xs []).
Proof.
  intros H. unfold insert_col, honest_script. cbn [items claimed].
  destruct (N.leb_spec index (N.of_nat (num_cols t))) as [Hle|Hgt]; cbn [negb]; [|reflexivity].
  destruct H as [H|[Hc Hl]]; [lia|].
  destruct (Nat.eqb_spec (num_cols t) 0); [lia|].
  destruct (N.eqb_spec (N.of_nat (num_rows t)) (N.of_nat (length xs))); [lia|reflexivity].
Qed.

End InsertColTop.

(** * the result as rows of cells *)
From Coq Require Import Permutation.
Section GridForm.
Context {A : Type}.

Lemma concat_uniform_nth (w : nat) : forall (rows : list (list A)) r c,
  Forall (fun row => length row = w) rows -> c < w ->
  nth_error (concat rows) (r * w + c) = match nth_error rows r with Some row => nth_error row c | None => None end.
Proof.
  induction rows as [|row rows IH]; intros r c Hall Hc.
  - cbn [concat]. rewrite nth_error_ge_None by (cbn; lia). destruct r; reflexivity.
  - inversion Hall as [|? ? Hrow Hall']; subst. cbn [concat]. rewrite nth_error_app.
    destruct r as [|r]; cbn [nth_error Nat.mul Nat.add].
    + destruct (Nat.ltb_spec c (length row)); [reflexivity|lia].
    + destruct (Nat.ltb_spec (length row + r * length row + c) (length row)); [lia|].
      replace (length row + r * length row + c - length row) with (r * length row + c) by lia.
      apply IH; assumption.
Qed.

Lemma concat_uniform_length (w : nat) (rows : list (list A)) :
  Forall (fun row => length row = w) rows -> length (concat rows) = w * length rows.
Proof.
  induction 1 as [|row rows Hrow _ IH]; cbn [concat length]; [lia|]. rewrite app_length, IH, Hrow. lia.
Qed.

Lemma chunks_uniform nc : forall n (d : list A), length d = nc * n ->
  Forall (fun row => length row = nc) (chunks n nc d) /\ length (chunks n nc d) = n.
Proof.
  induction n as [|n IH]; intros d Hd; cbn [chunks]; [split; [constructor|reflexivity]|].
  destruct (IH (skipn nc d)) as [H1 H2]; [rewrite skipn_length; lia|].
  split; [constructor; [rewrite firstn_length; lia|exact H1]|cbn [length]; lia].
Qed.

Lemma chunks_nth_local nc (d : list A) : forall n r, r < n ->
  nth_error (chunks n nc d) r = Some (firstn nc (skipn (r * nc) d)).
Proof.
  intros n. revert d. induction n as [|n IH]; intros d r Hr; [lia|].
  cbn [chunks]. destruct r as [|r]; cbn [nth_error]; [reflexivity|].
  rewrite IH by lia. f_equal. f_equal. cbn [Nat.mul]. rewrite skipn_add. reflexivity.
Qed.

Lemma nth_error_insert_at (x : A) : forall i (l : list A) c, i <= length l ->
  nth_error (insert_at i x l) c = if c <? i then nth_error l c else if c =? i then Some x else nth_error l (c - 1).
Proof.
  induction i as [|i IH]; intros l c Hi.
  - cbn [insert_at]. destruct c as [|c]; cbn [nth_error Nat.ltb Nat.leb Nat.eqb]; [reflexivity|].
    f_equal. lia.
  - destruct l as [|h t]; cbn [length] in Hi; [lia|]. cbn [insert_at].
    destruct c as [|c]; cbn [nth_error]; [reflexivity|].
    rewrite IH by lia. change (S c <? S i) with (c <? i). change (S c =? S i) with (c =? i).
    destruct (Nat.ltb_spec c i); [reflexivity|]. destruct (Nat.eqb_spec c i); [reflexivity|].
    destruct c; [lia|]. replace (S (S c) - 1) with (S c) by lia. cbn [nth_error]. f_equal. lia.
Qed.

Lemma insert_at_length (x : A) : forall i (l : list A), i <= length l -> length (insert_at i x l) = S (length l).
Proof.
  induction i as [|i IH]; intros l Hi; [reflexivity|].
  destruct l as [|h t]; cbn [length] in *; [lia|]. cbn [insert_at length]. rewrite IH by lia. reflexivity.
Qed.

Lemma map2_nth {X Y Z} (f : X -> Y -> Z) : forall (l1 : list X) (l2 : list Y) r,
  nth_error (Grid.map2 f l1 l2) r =
  match nth_error l1 r, nth_error l2 r with Some x, Some y => Some (f x y) | _, _ => None end.
Proof.
  induction l1 as [|x l1 IH]; intros l2 r; [destruct r; reflexivity|].
  destruct l2 as [|y l2]; [cbn; destruct r; cbn; [reflexivity|destruct (nth_error l1 r); reflexivity]|].
  cbn [Grid.map2]. destruct r; cbn [nth_error]; [reflexivity|apply IH].
Qed.

Lemma map2_length {X Y Z} (f : X -> Y -> Z) : forall (l1 : list X) (l2 : list Y),
  length l1 = length l2 -> length (Grid.map2 f l1 l2) = length l1.
Proof.
  induction l1 as [|x l1 IH]; intros [|y l2] H; cbn in *; try lia. rewrite IH by lia. reflexivity.
Qed.

(** the pointwise description determines the flat buffer: it is the rows with the new
    element inserted at [idx], row by row *)
Theorem insert_col_rows (data xs d' : list A) nc idx : idx <= nc -> length data = nc * length xs ->
  length d' = (nc + 1) * length xs ->
  (forall r c, r < length xs -> c <= nc -> nth_error d' (r * (nc + 1) + c) = fv data xs nc idx r c) ->
  d' = concat (Grid.map2 (fun x row => insert_at idx x row) xs (chunks (length xs) nc data)).
Proof.
  intros Hidx Hd Hl Hn. set (R := length xs) in *.
  destruct (chunks_uniform nc R data Hd) as [Hu Hcl].
  set (rows' := Grid.map2 (fun x row => insert_at idx x row) xs (chunks R nc data)).
  assert (Hu' : Forall (fun row => length row = nc + 1) rows').
  { apply Forall_forall. intros row Hin. destruct (In_nth_error _ _ Hin) as [r Hr].
    unfold rows' in Hr. rewrite map2_nth in Hr.
    destruct (nth_error xs r) as [x|] eqn:Ex; [|discriminate].
    destruct (nth_error (chunks R nc data) r) as [row0|] eqn:Er; [|discriminate]. inversion Hr; subst row.
    assert (length row0 = nc) by (apply (proj1 (Forall_forall _ _) Hu); eapply nth_error_In; exact Er).
    rewrite insert_at_length by lia. lia. }
  assert (Hl' : length rows' = R) by (unfold rows'; rewrite map2_length; [reflexivity|lia]).
  apply list_ext. intros p.
  destruct (Nat.lt_ge_cases p ((nc + 1) * R)) as [Hp|Hp].
  - set (r := p / (nc + 1)). set (c := p mod (nc + 1)).
    assert (Hpc : p = r * (nc + 1) + c) by (subst r c; pose proof (Nat.div_mod p (nc + 1) ltac:(lia)); lia).
    assert (Hc : c <= nc) by (subst c; pose proof (Nat.mod_upper_bound p (nc + 1) ltac:(lia)); lia).
    assert (Hr : r < R) by (subst r; apply Nat.div_lt_upper_bound; lia).
    rewrite Hpc. rewrite Hn by assumption.
    rewrite (concat_uniform_nth (nc + 1) rows' r c Hu') by lia.
    unfold rows'. rewrite map2_nth.
    destruct (nth_error xs r) as [x|] eqn:Ex; [|apply nth_error_None in Ex; fold R in Ex; lia].
    rewrite (chunks_nth_local nc data R r Hr).
    rewrite nth_error_insert_at by (rewrite firstn_length, skipn_length; nia).
    unfold fv, fvg. rewrite !nth_error_firstn, !nth_error_skipn.
    destruct (Nat.ltb_spec c idx).
    + destruct (Nat.ltb_spec c nc); [reflexivity|lia].
    + destruct (Nat.eqb_spec c idx); [exact Ex|].
      destruct (Nat.ltb_spec (c - 1) nc); [f_equal; lia|lia].
  - rewrite !nth_error_ge_None; [reflexivity| |lia].
    rewrite (concat_uniform_length (nc + 1) rows' Hu'), Hl'. lia.
Qed.

(** nothing lost, nothing duplicated *)
Lemma insert_cols_perm idx : forall (xs : list A) (rows : list (list A)),
  length xs = length rows -> Forall (fun row => idx <= length row) rows ->
  Permutation (concat (Grid.map2 (fun x row => insert_at idx x row) xs rows)) (concat rows ++ xs).
Proof.
  assert (Hins : forall (x : A) i l, i <= length l -> Permutation (insert_at i x l) (x :: l)).
  { intros x. induction i as [|i IH]; intros l Hi; [apply Permutation_refl|].
    destruct l as [|h t]; cbn [length] in Hi; [lia|]. cbn [insert_at].
    eapply Permutation_trans; [apply perm_skip; apply IH; lia|apply perm_swap]. }
  induction xs as [|x xs IH]; intros [|row rows] Hl Hall; cbn [length] in Hl; try lia; [apply Permutation_refl|].
  inversion Hall as [|? ? Hrow Hall']; subst. cbn [Grid.map2 concat].
  eapply Permutation_trans; [apply Permutation_app; [apply Hins; exact Hrow|apply IH; [lia|exact Hall']]|].
  cbn [app]. rewrite (app_assoc row). apply Permutation_middle.
Qed.

End GridForm.
