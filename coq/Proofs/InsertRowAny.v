(** insert_row with ANY iterator script (C11): lying length, early end, panic at any call.
    The call always returns or unwinds - it never performs an out-of-bounds or
    uninitialised access (the model never answers UB) - and every element is accounted for:
    owned by the array, dropped with the iterator, or leaked; none twice. *)
From Coq Require Import Permutation.
From TD Require Import Base.Prelude Spec.Grid Spec.Inv Model.Iter Model.Owned
  Proofs.ListLemmas Proofs.InsertRow Proofs.InsertCol Proofs.HistInv Proofs.RemoveCol.

Section Any.
Context {A : Type}.

Lemma script_next_cases (s : iter_script A) k :
  (exists e, script_next s k = Yield e /\ nth_error (items s) k = Some e)
  \/ script_next s k = Done \/ script_next s k = Boom.
Proof.
  unfold script_next. destruct (panic_at s) as [p|].
  - destruct (p =? k); [right; right; reflexivity|].
    destruct (nth_error (items s) k) as [e|]; [left; exists e; split; reflexivity|right; left; reflexivity].
  - destruct (nth_error (items s) k) as [e|]; [left; exists e; split; reflexivity|right; left; reflexivity].
Qed.

(** the write loop: [w] elements written, all of them items of the script, in order *)
Lemma insert_row_loop_spec (s : iter_script A) : forall todo k p (m : list (option A)),
  p + todo <= length m ->
  exists m' completed w,
    insert_row_loop s todo k p m = Ok (m', completed, k + w) /\
    w <= todo /\ (completed = true <-> w = todo) /\ length m' = length m /\
    (forall i, nth_error m' i = if (p <=? i) && (i <? p + w) then Some (nth_error (items s) (k + (i - p)))
                                else nth_error m i) /\
    (forall j, j < w -> k + j < length (items s)).
Proof.
  induction todo as [|todo IH]; intros k p m Hp.
  - exists m, true, 0. cbn [insert_row_loop]. rewrite Nat.add_0_r.
    split; [reflexivity|]. split; [lia|]. split; [tauto|]. split; [reflexivity|]. split; [|intros j Hj; lia].
    intros i. destruct (Nat.leb_spec p i); destruct (Nat.ltb_spec i (p + 0)); cbn [andb]; try reflexivity; lia.
  - cbn [insert_row_loop].
    destruct (script_next_cases s k) as [[e [E Hn]]|[E|E]]; rewrite E.
    + destruct (ptr_write_ok p e m) as [m1 E1]; [lia|]. rewrite E1. cbn [bind].
      apply ptr_write_spec in E1. destruct E1 as [L1 N1].
      destruct (IH (S k) (S p) m1) as [m' [completed [w [E2 [Hw [Hc [L2 [N2 Hit]]]]]]]]; [lia|].
      exists m', completed, (S w). replace (k + S w) with (S k + w) by lia.
      split; [exact E2|]. split; [lia|]. split; [split; intros H; [apply Hc in H; lia|apply Hc; lia]|].
      split; [lia|]. split.
      * intros i. rewrite N2, N1. destruct (Nat.eqb_spec i p) as [->|Hne].
        -- destruct (Nat.leb_spec (S p) p); [lia|]. cbn [andb].
           destruct (Nat.leb_spec p p); [|lia]. destruct (Nat.ltb_spec p (p + S w)); [|lia]. cbn [andb].
           rewrite Nat.sub_diag, Nat.add_0_r, Hn. reflexivity.
        -- destruct (Nat.leb_spec (S p) i); destruct (Nat.ltb_spec i (S p + w)); cbn [andb];
             destruct (Nat.leb_spec p i); destruct (Nat.ltb_spec i (p + S w)); cbn [andb]; try lia; try reflexivity.
           f_equal. f_equal. lia.
      * intros j Hj. destruct j as [|j]; [rewrite Nat.add_0_r; apply nth_error_Some; congruence|].
        specialize (Hit j ltac:(lia)). lia.
    + exists m, false, 0. rewrite Nat.add_0_r. split; [reflexivity|]. split; [lia|].
      split; [split; [discriminate|lia]|]. split; [reflexivity|]. split; [|intros j Hj; lia].
      intros i. destruct (Nat.leb_spec p i); destruct (Nat.ltb_spec i (p + 0)); cbn [andb]; try reflexivity; lia.
    + exists m, false, 0. rewrite Nat.add_0_r. split; [reflexivity|]. split; [lia|].
      split; [split; [discriminate|lia]|]. split; [reflexivity|]. split; [|intros j Hj; lia].
      intros i. destruct (Nat.leb_spec p i); destruct (Nat.ltb_spec i (p + 0)); cbn [andb]; try reflexivity; lia.
Qed.

(** every element is accounted for exactly once *)
Definition accounted (t : toodee A) (s : iter_script A) (r : opres A) : Prop :=
  Permutation (data (o_td r) ++ o_dropped r ++ o_leaked r) (data t ++ items s).

Lemma firstn_skipn_perm4 (d xs : list A) a k :
  Permutation (firstn a d ++ skipn k xs ++ skipn a d ++ firstn k xs) (d ++ xs).
Proof.
  rewrite <- (firstn_skipn a d) at 3. rewrite <- (firstn_skipn k xs) at 3.
  rewrite <- !app_assoc. apply Permutation_app_head.
  rewrite (app_assoc (skipn a d) (firstn k xs) (skipn k xs)). apply Permutation_app_comm.
Qed.

Theorem insert_row_any dbg cap spare (t : toodee A) (index : N) (s : iter_script A) :
  Inv t -> exists r, insert_row dbg cap spare t index s = Ok r /\ Inv (o_td r) /\ accounted t s r.
Proof.
  intros Hi. pose proof Hi as [Hl Hz].
  assert (Hinv : forall r, insert_row dbg cap spare t index s = Ok r -> Inv (o_td r))
    by (intros r Hr; eapply insert_row_inv; eassumption).
  assert (Hrej : accounted t s (mkOp t false (items s) [])).
  { unfold accounted. cbn. rewrite app_nil_r. apply Permutation_refl. }
  enough (Hex : exists r, insert_row dbg cap spare t index s = Ok r /\ accounted t s r).
  { destruct Hex as [r [E Ha]]. exists r. split; [exact E|]. split; [apply Hinv; exact E|exact Ha]. }
  clear Hinv. unfold insert_row.
  destruct (N.leb_spec index (N.of_nat (num_rows t))) as [Hidx|]; cbn [negb]; [|eexists; split; [reflexivity|exact Hrej]].
  match goal with |- context [match ?w with Some _ => _ | None => _ end] => destruct w as [ncN|] eqn:Hwidth end;
    [|eexists; split; [reflexivity|exact Hrej]].
  destruct (negb (reserve_ok cap (length (data t)) ncN)); [eexists; split; [reflexivity|exact Hrej]|].
  set (nc := N.to_nat ncN). set (idx := N.to_nat index).
  assert (Hnc : num_rows t <> 0 -> nc = num_cols t).
  { intros Hr. destruct (Nat.eqb_spec (num_rows t) 0); [contradiction|].
    destruct (N.eqb_spec (N.of_nat (num_cols t)) (claimed s)); inversion Hwidth; subst. subst nc. lia. }
  assert (Hstart : idx * nc <= length (data t)).
  { destruct (Nat.eq_dec (num_rows t) 0) as [Hr|Hr]; [assert (idx = 0) by (subst idx; lia); lia|].
    rewrite (Hnc Hr), Hl. rewrite Nat.mul_comm. apply Nat.mul_le_mono_l. subst idx. lia. }
  set (start := idx * nc) in *. set (len0 := length (data t)) in *.
  unfold usub. destruct (Nat.leb_spec start len0); [|lia]. cbn [bind].
  destruct (reserve_shape (data t) spare nc) as [k [Hk Em0]]. fold len0 in Em0. rewrite Em0.
  set (m0 := map Some (data t) ++ repeat None k).
  assert (Hl0 : length m0 = len0 + k) by (unfold m0; rewrite app_length, map_length, repeat_length; reflexivity).
  destruct (ptr_copy_ok start (start + nc) (len0 - start) m0) as [m1 E1]; [lia|lia|]. rewrite E1. cbn [bind].
  apply ptr_copy_spec in E1. destruct E1 as [L1 N1].
  destruct (insert_row_loop_spec s nc 0 start m1) as [m2 [completed [w [E2 [Hw [Hc [L2 [N2 Hit]]]]]]]]; [lia|].
  rewrite E2. cbn [bind Nat.add]. cbn [Nat.add] in N2, Hit.
  assert (Hm0 : forall p, p < len0 -> nth_error m0 p = Some (nth_error (data t) p)).
  { intros p Hp. unfold m0. rewrite nth_error_app, map_length. fold len0. destruct (Nat.ltb_spec p len0); [|lia].
    rewrite nth_error_map. destruct (nth_error (data t) p) eqn:Ep; [reflexivity|apply nth_error_None in Ep; fold len0 in Ep; lia]. }
  (* the part of the buffer below [start] is never touched *)
  assert (Hpre : owned_prefix m2 start = Some (firstn start (data t))).
  { apply owned_prefix_firstn; [lia|]. apply list_ext. intros p.
    rewrite nth_error_firstn, nth_error_map, nth_error_firstn. destruct (Nat.ltb_spec p start); [|reflexivity].
    rewrite N2. destruct (Nat.leb_spec start p); [lia|]. cbn [andb]. rewrite N1.
    destruct (Nat.leb_spec (start + nc) p); [lia|]. cbn [andb]. rewrite Hm0 by lia.
    destruct (nth_error (data t) p) eqn:Ep; [reflexivity|apply nth_error_None in Ep; fold len0 in Ep; lia]. }
  assert (Hfail : accounted t s (mkOp (mkTD (firstn start (data t)) idx (if idx =? 0 then 0 else num_cols t)) false
                                   (unconsumed s w) (skipn start (data t) ++ firstn w (items s)))).
  { unfold accounted, unconsumed. cbn [o_td o_dropped o_leaked data]. apply firstn_skipn_perm4. }
  destruct completed; cbn [negb].
  2:{ rewrite Hpre. eexists. split; [reflexivity|exact Hfail]. }
  assert (Hwn : w = nc) by (apply Hc; reflexivity). subst w.
  (* all [nc] slots were written: the Vec owns the shifted tail again *)
  assert (Hfull : owned_prefix m2 (len0 + nc)
                  = Some (firstn start (data t) ++ firstn nc (items s) ++ skipn start (data t))).
  { apply owned_prefix_firstn; [lia|]. apply list_ext. intros p.
    rewrite nth_error_firstn, nth_error_map, !nth_error_app, !firstn_length.
    assert (Hitems : nc <= length (items s)).
    { destruct nc as [|n']; [lia|]. specialize (Hit n' ltac:(lia)). lia. }
    fold len0. replace (Nat.min start len0) with start by lia. replace (Nat.min nc (length (items s))) with nc by lia.
    destruct (Nat.ltb_spec p (len0 + nc)); [|
      destruct (Nat.ltb_spec p start); [lia|]; destruct (Nat.ltb_spec (p - start) nc); [lia|];
      rewrite nth_error_skipn; rewrite (nth_error_ge_None (data t)) by (fold len0; lia); reflexivity].
    rewrite N2. destruct (Nat.leb_spec start p); destruct (Nat.ltb_spec p (start + nc)); cbn [andb].
    - destruct (Nat.ltb_spec p start); [lia|]. destruct (Nat.ltb_spec (p - start) nc); [|lia].
      rewrite nth_error_firstn. destruct (Nat.ltb_spec (p - start) nc); [|lia].
      destruct (nth_error (items s) (p - start)) eqn:Ei; [reflexivity|apply nth_error_None in Ei; lia].
    - rewrite N1. destruct (Nat.leb_spec (start + nc) p); [|lia].
      destruct (Nat.ltb_spec p (start + nc + (len0 - start))); [|lia]. cbn [andb].
      rewrite Hm0 by lia. destruct (Nat.ltb_spec p start); [lia|]. destruct (Nat.ltb_spec (p - start) nc); [lia|].
      rewrite nth_error_skipn. replace (start + (p - start - nc)) with (start + (p - (start + nc))) by lia.
      destruct (nth_error (data t) (start + (p - (start + nc)))) eqn:Ep; [reflexivity|apply nth_error_None in Ep; fold len0 in Ep; lia].
    - rewrite N1. destruct (Nat.leb_spec (start + nc) p); [lia|]. cbn [andb]. rewrite Hm0 by lia.
      destruct (Nat.ltb_spec p start); [|lia]. rewrite nth_error_firstn. destruct (Nat.ltb_spec p start); [|lia].
      destruct (nth_error (data t) p) eqn:Ep; [reflexivity|apply nth_error_None in Ep; fold len0 in Ep; lia].
    - lia. }
  assert (Hok : forall t', data t' = firstn start (data t) ++ firstn nc (items s) ++ skipn start (data t) ->
            accounted t s (mkOp t' true (unconsumed s nc) [])).
  { intros t' Ht'. unfold accounted, unconsumed. cbn [o_td o_dropped o_leaked]. rewrite Ht', app_nil_r.
    transitivity ((firstn start (data t) ++ skipn start (data t)) ++ (firstn nc (items s) ++ skipn nc (items s)));
      [|rewrite !firstn_skipn; apply Permutation_refl].
    rewrite <- !app_assoc. apply Permutation_app_head.
    rewrite !app_assoc. apply Permutation_app_tail. apply Permutation_app_comm. }
  destruct dbg.
  - destruct (script_next s nc).
    + rewrite Hpre. eexists. split; [reflexivity|exact Hfail].
    + rewrite Hfull. eexists. split; [reflexivity|]. apply Hok. destruct (nc =? 0); reflexivity.
    + rewrite Hpre. eexists. split; [reflexivity|exact Hfail].
  - rewrite Hfull. eexists. split; [reflexivity|]. apply Hok. destruct (nc =? 0); reflexivity.
Qed.

(** * insert_col with ANY iterator script *)
Lemma accounted_col_fail (t : toodee A) (s : iter_script A) k : accounted t s (col_failres t s k).
Proof.
  unfold accounted, col_failres, rev_unconsumed. cbn [o_td o_dropped o_leaked data app].
  eapply Permutation_trans; [apply Permutation_app_comm|]. rewrite <- app_assoc, firstn_skipn.
  apply Permutation_app_head. apply Permutation_sym, Permutation_rev.
Qed.

Theorem insert_col_any dbg cap spare (t : toodee A) (index : N) (s : iter_script A) :
  Inv t -> exists r, insert_col dbg cap spare t index s = Ok r /\ Inv (o_td r) /\ accounted t s r.
Proof.
  intros Hi. pose proof Hi as [Hl Hz].
  assert (Hrej : Inv (o_td (mkOp t false (items s) [])) /\ accounted t s (mkOp t false (items s) [])).
  { split; [exact Hi|]. unfold accounted. cbn. rewrite app_nil_r. apply Permutation_refl. }
  set (R := N.to_nat (claimed s)).
  assert (Hcl : claimed s = N.of_nat R) by (unfold R; rewrite N2Nat.id; reflexivity).
  destruct (N.leb_spec index (N.of_nat (num_cols t))) as [Hidx|Hidx].
  2:{ eexists. split; [|exact Hrej]. unfold insert_col.
      destruct (N.leb_spec index (N.of_nat (num_cols t))); [lia|reflexivity]. }
  assert (Hgo : (num_cols t = 0 \/ R = num_rows t) -> (N.of_nat (length (data t)) + N.of_nat R <= cap)%N ->
                exists r, insert_col dbg cap spare t index s = Ok r /\ Inv (o_td r) /\ accounted t s r).
  { intros Hw Hcap. replace index with (N.of_nat (N.to_nat index)) by lia.
    destruct (insert_col_gen dbg cap spare t (N.to_nat index) s R Hi ltac:(lia) Hcl Hw Hcap)
      as [res [E [[_ [k [Hk ->]]]|[[Hy _] [d' [-> [Hld Hn]]]]]]]; (eexists; split; [exact E|]).
    - split; [split; cbn; [reflexivity|tauto]|apply accounted_col_fail].
    - set (l := rev (items s)) in *. set (xs' := rev (firstn R l)).
      assert (HlR : R <= length l).
      { destruct R as [|R']; [lia|]. destruct (Hy R' ltac:(lia)) as [e He]. apply snb_yield_nth in He.
        fold l in He. assert (R' < length l) by (apply nth_error_Some; congruence). lia. }
      assert (Hxl : length xs' = R) by (unfold xs'; rewrite rev_length, firstn_length; lia).
      assert (Hdata : length (data t) = num_cols t * length xs').
      { rewrite Hxl, Hl. destruct Hw as [H0|Hx]; [rewrite H0; lia|rewrite Hx; reflexivity]. }
      assert (Hn' : forall r c, r < length xs' -> c <= num_cols t ->
                nth_error d' (r * (num_cols t + 1) + c) = fv (data t) xs' (num_cols t) (N.to_nat index) r c).
      { intros r c Hr Hc. rewrite Hxl in Hr. rewrite (Hn r c Hr Hc). unfold fv, fvg.
        destruct (c <? N.to_nat index); [reflexivity|]. destruct (c =? N.to_nat index); [|reflexivity].
        unfold xs'. rewrite nth_error_rev_local by (rewrite firstn_length; lia).
        rewrite firstn_length, Nat.min_l by lia. rewrite nth_error_firstn.
        destruct (Nat.ltb_spec (R - 1 - r) R); [reflexivity|lia]. }
      assert (Hld' : length d' = (num_cols t + 1) * length xs') by (rewrite Hxl; exact Hld).
      pose proof (insert_col_rows (data t) xs' d' (num_cols t) (N.to_nat index) ltac:(lia) Hdata Hld' Hn') as Hrows.
      destruct (chunks_uniform (num_cols t) (length xs') (data t) Hdata) as [Hu Hcu].
      assert (Hperm : Permutation d' (data t ++ xs')).
      { rewrite Hrows. eapply Permutation_trans.
        - apply insert_cols_perm; [lia|]. eapply Forall_impl; [|exact Hu]. intros row Hrow. cbn beta in Hrow. lia.
        - rewrite (concat_chunks (num_cols t) (length xs') (data t) Hdata). apply Permutation_refl. }
      split.
      + destruct (Nat.ltb_spec 0 R) as [HR|HR]; cbn [o_td]; split; cbn [data num_cols num_rows].
        * lia.
        * lia.
        * assert (HR0 : R = 0) by lia. rewrite HR0 in Hld. lia.
        * tauto.
      + unfold accounted, rev_unconsumed. fold l. cbn [o_dropped o_leaked]. rewrite app_nil_r.
        assert (Hd : data (o_td (mkOp (if 0 <? R then mkTD d' R (num_cols t + 1) else mkTD d' 0 0) true (skipn R l) [])) = d')
          by (destruct (0 <? R); reflexivity).
        rewrite Hd. eapply Permutation_trans; [apply Permutation_app_tail; exact Hperm|].
        rewrite <- app_assoc. apply Permutation_app_head.
        eapply Permutation_trans; [apply Permutation_app_tail; unfold xs'; apply Permutation_sym, Permutation_rev|].
        rewrite firstn_skipn. apply Permutation_sym, Permutation_rev. }
  unfold insert_col in *.
  destruct (N.leb_spec index (N.of_nat (num_cols t))); [|lia]. cbn [negb] in *.
  destruct (Nat.eqb_spec (num_cols t) 0) as [Hc0|Hcn].
  - unfold reserve_ok in *. destruct (N.leb_spec (N.of_nat (length (data t)) + claimed s) cap) as [Hcap|Hcap]; cbn [negb] in *.
    + apply Hgo; [left; exact Hc0|lia].
    + eexists. split; [reflexivity|exact Hrej].
  - destruct (N.eqb_spec (N.of_nat (num_rows t)) (claimed s)) as [Hw|Hw].
    + unfold reserve_ok in *. destruct (N.leb_spec (N.of_nat (length (data t)) + claimed s) cap) as [Hcap|Hcap]; cbn [negb] in *.
      * apply Hgo; [right; lia|lia].
      * eexists. split; [reflexivity|exact Hrej].
    + eexists. split; [reflexivity|exact Hrej].
Qed.

End Any.
