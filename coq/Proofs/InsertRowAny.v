(** insert_row with ANY iterator script (C11): lying length, early end, panic at any call.
    The call always returns or unwinds - it never performs an out-of-bounds or
    uninitialised access (the model never answers UB) - and every element is accounted for:
    owned by the array, dropped with the iterator, or leaked; none twice. *)
From Coq Require Import Permutation.
From TD Require Import Base.Prelude Spec.Grid Spec.Inv Model.Iter Model.Owned
  Proofs.ListLemmas Proofs.InsertRow Proofs.InsertCol Proofs.HistInv.

Section Any.
Context {A : Type}.

Lemma script_next_cases (s : iter_script A) k :
  (exists e, script_next s k = Yield e /\ nth_error (items s) k = Some e)
  \/ script_next s k = Done \/ script_next s k = Boom.
Proof.
  unfold script_next. destruct (panic_at s) as [p|].
  - destruct (p =? k); [right; right; reflexivity|].
    destruct (nth_error (items s) k) as [e|]; [left; exists e; split; reflexivity|right; left; reflexivity].
  - destruct (nth_error (items s) k) as [e|]; [left; exists e; split; reflexivity|right; left; reflexivity].
Qed.

(** the write loop: [w] elements written, all of them items of the script, in order *)
Lemma insert_row_loop_spec (s : iter_script A) : forall todo k p (m : list (option A)),
  p + todo <= length m ->
  exists m' completed w,
    insert_row_loop s todo k p m = Ok (m', completed, k + w) /\
    w <= todo /\ (completed = true <-> w = todo) /\ length m' = length m /\
    (forall i, nth_error m' i = if (p <=? i) && (i <? p + w) then Some (nth_error (items s) (k + (i - p)))
                                else nth_error m i) /\
    (forall j, j < w -> k + j < length (items s)).
Proof.
  induction todo as [|todo IH]; intros k p m Hp.
  - exists m, true, 0. cbn [insert_row_loop]. rewrite Nat.add_0_r.
    split; [reflexivity|]. split; [lia|]. split; [tauto|]. split; [reflexivity|]. split; [|intros j Hj; lia].
    intros i. destruct (Nat.leb_spec p i); destruct (Nat.ltb_spec i (p + 0)); cbn [andb]; try reflexivity; lia.
  - cbn [insert_row_loop].
    destruct (script_next_cases s k) as [[e [E Hn]]|[E|E]]; rewrite E.
    + destruct (ptr_write_ok p e m) as [m1 E1]; [lia|]. rewrite E1. cbn [bind].
      apply ptr_write_spec in E1. destruct E1 as [L1 N1].
      destruct (IH (S k) (S p) m1) as [m' [completed [w [E2 [Hw [Hc [L2 [N2 Hit]]]]]]]]; [lia|].
      exists m', completed, (S w). replace (k + S w) with (S k + w) by lia.
      split; [exact E2|]. split; [lia|]. split; [split; intros H; [apply Hc in H; lia|apply Hc; lia]|].
      split; [lia|]. split.
      * intros i. rewrite N2, N1. destruct (Nat.eqb_spec i p) as [->|Hne].
        -- destruct (Nat.leb_spec (S p) p); [lia|]. cbn [andb].
           destruct (Nat.leb_spec p p); [|lia]. destruct (Nat.ltb_spec p (p + S w)); [|lia]. cbn [andb].
           rewrite Nat.sub_diag, Nat.add_0_r, Hn. reflexivity.
        -- destruct (Nat.leb_spec (S p) i); destruct (Nat.ltb_spec i (S p + w)); cbn [andb];
             destruct (Nat.leb_spec p i); destruct (Nat.ltb_spec i (p + S w)); cbn [andb]; try lia; try reflexivity.
           f_equal. f_equal. lia.
      * intros j Hj. destruct j as [|j]; [rewrite Nat.add_0_r; apply nth_error_Some; congruence|].
        specialize (Hit j ltac:(lia)). lia.
    + exists m, false, 0. rewrite Nat.add_0_r. split; [reflexivity|]. split; [lia|].
      split; [split; [discriminate|lia]|]. split; [reflexivity|]. split; [|intros j Hj; lia].
      intros i. destruct (Nat.leb_spec p i); destruct (Nat.ltb_spec i (p + 0)); cbn [andb]; try reflexivity; lia.
    + exists m, false, 0. rewrite Nat.add_0_r. split; [reflexivity|]. split; [lia|].
      split; [split; [discriminate|lia]|]. split; [reflexivity|]. split; [|intros j Hj; lia].
      intros i. destruct (Nat.leb_spec p i); destruct (Nat.ltb_spec i (p + 0)); cbn [andb]; try reflexivity; lia.
Qed.

(** every element is accounted for exactly once *)
Definition accounted (t : toodee A) (s : iter_script A) (r : opres A) : Prop :=
  Permutation (data (o_td r) ++ o_dropped r ++ o_leaked r) (data t ++ items s).

Lemma firstn_skipn_perm4 (d xs : list A) a k :
  Permutation (firstn a d ++ skipn k xs ++ skipn a d ++ firstn k xs) (d ++ xs).
Proof.
  rewrite <- (firstn_skipn a d) at 3. rewrite <- (firstn_skipn k xs) at 3.
  rewrite <- !app_assoc. apply Permutation_app_head.
  rewrite (app_assoc (skipn a d) (firstn k xs) (skipn k xs)). apply Permutation_app_comm.
Qed.

Theorem insert_row_any dbg cap spare (t : toodee A) (index : N) (s : iter_script A) :
  Inv t -> exists r, insert_row dbg cap spare t index s = Ok r /\ Inv (o_td r) /\ accounted t s r.
Proof.
  intros Hi. pose proof Hi as [Hl Hz].
  assert (Hinv : forall r, insert_row dbg cap spare t index s = Ok r -> Inv (o_td r))
    by (intros r Hr; eapply insert_row_inv; eassumption).
  assert (Hrej : accounted t s (mkOp t false (items s) [])).
  { unfold accounted. cbn. rewrite app_nil_r. apply Permutation_refl. }
  enough (Hex : exists r, insert_row dbg cap spare t index s = Ok r /\ accounted t s r).
  { destruct Hex as [r [E Ha]]. exists r. split; [exact E|]. split; [apply Hinv; exact E|exact Ha]. }
  clear Hinv. unfold insert_row.
  destruct (N.leb_spec index (N.of_nat (num_rows t))) as [Hidx|]; cbn [negb]; [|eexists; split; [reflexivity|exact Hrej]].
  match goal with |- context [match ?w with Some _ => _ | None => _ end] => destruct w as [ncN|] eqn:Hwidth end;
    [|eexists; split; [reflexivity|exact Hrej]].
  destruct (negb (reserve_ok cap (length (data t)) ncN)); [eexists; split; [reflexivity|exact Hrej]|].
  set (nc := N.to_nat ncN). set (idx := N.to_nat index).
  assert (Hnc : num_rows t <> 0 -> nc = num_cols t).
  { intros Hr. destruct (Nat.eqb_spec (num_rows t) 0); [contradiction|].
    destruct (N.eqb_spec (N.of_nat (num_cols t)) (claimed s)); inversion Hwidth; subst. subst nc. lia. }
  assert (Hstart : idx * nc <= length (data t)).
  { destruct (Nat.eq_dec (num_rows t) 0) as [Hr|Hr]; [assert (idx = 0) by (subst idx; lia); lia|].
    rewrite (Hnc Hr), Hl. rewrite Nat.mul_comm. apply Nat.mul_le_mono_l. subst idx. lia. }
  set (start := idx * nc) in *. set (len0 := length (data t)) in *.
  unfold usub. destruct (Nat.leb_spec start len0); [|lia]. cbn [bind].
  destruct (reserve_shape (data t) spare nc) as [k [Hk Em0]]. fold len0 in Em0. rewrite Em0.
  set (m0 := map Some (data t) ++ repeat None k).
  assert (Hl0 : length m0 = len0 + k) by (unfold m0; rewrite app_length, map_length, repeat_length; reflexivity).
  destruct (ptr_copy_ok start (start + nc) (len0 - start) m0) as [m1 E1]; [lia|lia|]. rewrite E1. cbn [bind].
  apply ptr_copy_spec in E1. destruct E1 as [L1 N1].
  destruct (insert_row_loop_spec s nc 0 start m1) as [m2 [completed [w [E2 [Hw [Hc [L2 [N2 Hit]]]]]]]]; [lia|].
  rewrite E2. cbn [bind Nat.add]. cbn [Nat.add] in N2, Hit.
  assert (Hm0 : forall p, p < len0 -> nth_error m0 p = Some (nth_error (data t) p)).
  { intros p Hp. unfold m0. rewrite nth_error_app, map_length. fold len0. destruct (Nat.ltb_spec p len0); [|lia].
    rewrite nth_error_map. destruct (nth_error (data t) p) eqn:Ep; [reflexivity|apply nth_error_None in Ep; fold len0 in Ep; lia]. }
  (* the part of the buffer below [start] is never touched *)
  assert (Hpre : owned_prefix m2 start = Some (firstn start (data t))).
  { apply owned_prefix_firstn; [lia|]. apply list_ext. intros p.
    rewrite nth_error_firstn, nth_error_map, nth_error_firstn. destruct (Nat.ltb_spec p start); [|reflexivity].
    rewrite N2. destruct (Nat.leb_spec start p); [lia|]. cbn [andb]. rewrite N1.
    destruct (Nat.leb_spec (start + nc) p); [lia|]. cbn [andb]. rewrite Hm0 by lia.
    destruct (nth_error (data t) p) eqn:Ep; [reflexivity|apply nth_error_None in Ep; fold len0 in Ep; lia]. }
  assert (Hfail : accounted t s (mkOp (mkTD (firstn start (data t)) idx (if idx =? 0 then 0 else num_cols t)) false
                                   (unconsumed s w) (skipn start (data t) ++ firstn w (items s)))).
  { unfold accounted, unconsumed. cbn [o_td o_dropped o_leaked data]. apply firstn_skipn_perm4. }
  destruct completed; cbn [negb].
  2:{ rewrite Hpre. eexists. split; [reflexivity|exact Hfail]. }
  assert (Hwn : w = nc) by (apply Hc; reflexivity). subst w.
  (* all [nc] slots were written: the Vec owns the shifted tail again *)
  assert (Hfull : owned_prefix m2 (len0 + nc)
                  = Some (firstn start (data t) ++ firstn nc (items s) ++ skipn start (data t))).
  { apply owned_prefix_firstn; [lia|]. apply list_ext. intros p.
    rewrite nth_error_firstn, nth_error_map, !nth_error_app, !firstn_length.
    assert (Hitems : nc <= length (items s)).
    { destruct nc as [|n']; [lia|]. specialize (Hit n' ltac:(lia)). lia. }
    fold len0. replace (Nat.min start len0) with start by lia. replace (Nat.min nc (length (items s))) with nc by lia.
    destruct (Nat.ltb_spec p (len0 + nc)); [|
      destruct (Nat.ltb_spec p start); [lia|]; destruct (Nat.ltb_spec (p - start) nc); [lia|];
      rewrite nth_error_skipn; rewrite (nth_error_ge_None (data t)) by (fold len0; lia); reflexivity].
    rewrite N2. destruct (Nat.leb_spec start p); destruct (Nat.ltb_spec p (start + nc)); cbn [andb].
    - destruct (Nat.ltb_spec p start); [lia|]. destruct (Nat.ltb_spec (p - start) nc); [|lia].
      rewrite nth_error_firstn. destruct (Nat.ltb_spec (p - start) nc); [|lia].
      destruct (nth_error (items s) (p - start)) eqn:Ei; [reflexivity|apply nth_error_None in Ei; lia].
    - rewrite N1. destruct (Nat.leb_spec (start + nc) p); [|lia].
      destruct (Nat.ltb_spec p (start + nc + (len0 - start))); [|lia]. cbn [andb].
      rewrite Hm0 by lia. destruct (Nat.ltb_spec p start); [lia|]. destruct (Nat.ltb_spec (p - start) nc); [lia|].
      rewrite nth_error_skipn. replace (start + (p - start - nc)) with (start + (p - (start + nc))) by lia.
      destruct (nth_error (data t) (start + (p - (start + nc)))) eqn:Ep; [reflexivity|apply nth_error_None in Ep; fold len0 in Ep; lia].
    - rewrite N1. destruct (Nat.leb_spec (start + nc) p); [lia|]. cbn [andb]. rewrite Hm0 by lia.
      destruct (Nat.ltb_spec p start); [|lia]. rewrite nth_error_firstn. destruct (Nat.ltb_spec p start); [|lia].
      destruct (nth_error (data t) p) eqn:Ep; [reflexivity|apply nth_error_None in Ep; fold len0 in Ep; lia].
    - lia. }
  assert (Hok : forall t', data t' = firstn start (data t) ++ firstn nc (items s) ++ skipn start (data t) ->
            accounted t s (mkOp t' true (unconsumed s nc) [])).
  { intros t' Ht'. unfold accounted, unconsumed. cbn [o_td o_dropped o_leaked]. rewrite Ht', app_nil_r.
    transitivity ((firstn start (data t) ++ skipn start (data t)) ++ (firstn nc (items s) ++ skipn nc (items s)));
      [|rewrite !firstn_skipn; apply Permutation_refl].
    rewrite <- !app_assoc. apply Permutation_app_head.
    rewrite !app_assoc. apply Permutation_app_tail. apply Permutation_app_comm. }
  destruct dbg.
  - destruct (script_next s nc).
    + rewrite Hpre. eexists. split; [reflexivity|exact Hfail].
    + rewrite Hfull. eexists. split; [reflexivity|]. apply Hok. destruct (nc =? 0); reflexivity.
    + rewrite Hpre. eexists. split; [reflexivity|exact Hfail].
  - rewrite Hfull. eexists. split; [reflexivity|]. apply Hok. destruct (nc =? 0); reflexivity.
Qed.

End Any.
