(** remove_col + DrainCol (C07, C12, C05): the drain yields the column's elements as an ideal
    double-ended sequence, and dropping it closes the gap with block copies that stay
    inside the buffer and never read a moved-out slot. *)
From Coq Require Import Permutation.
From TD Require Import Base.Prelude Spec.Grid Spec.Inv Spec.Ideal Model.Iter Model.Flatten Model.View
  Model.Owned Model.Access Proofs.ListLemmas Proofs.RowsSim Proofs.ColSim Proofs.ViewGeom Proofs.FlatSim
  Proofs.InsertRow Proofs.InsertCol Proofs.HistInv.

Section Drain.
Context {A : Type}.
Variable data : list A.
Variables nc nr idx : nat.
Hypothesis Hlen : length data = nc * nr.
Hypothesis Hidx : idx < nc.

Definition in_col (i : nat) : Prop := exists r, r < nr /\ i = idx + r * nc.
Definition col_cells : list nat := map (fun r => idx + r * nc) (seq 0 nr).

(** values at a list of buffer indices *)
Definition vals (l : list nat) : list A :=
  flat_map (fun i => match nth_error data i with Some x => [x] | None => [] end) l.

Lemma vals_app a b : vals (a ++ b) = vals a ++ vals b.
Proof. unfold vals. apply flat_map_app. Qed.

Lemma vals_cons i l x : nth_error data i = Some x -> vals (i :: l) = x :: vals l.
Proof. intros H. unfold vals. cbn [flat_map]. rewrite H. reflexivity. Qed.

(** the drain's state: [l] = column cells not yet yielded *)
Definition DCinv (d : draincol A) (l : list nat) : Prop :=
  col_sim (dc_iter d) l /\ NoDup l /\ (forall i, In i l -> in_col i) /\
  length (dc_slots d) = length data /\
  (forall i, i < length data ->
     nth_error (dc_slots d) i = if in_dec Nat.eq_dec i l then Some (nth_error data i)
                                else if in_dec Nat.eq_dec i col_cells then Some None
                                else Some (nth_error data i)).

Lemma in_col_lt i : in_col i -> i < length data.
Proof. intros [r [Hr ->]]. rewrite Hlen. nia. Qed.

Lemma in_col_cells i : in_col i <-> In i col_cells.
Proof.
  unfold col_cells. rewrite in_map_iff. split.
  - intros [r [Hr ->]]. exists r. split; [reflexivity|apply in_seq; lia].
  - intros [r [<- Hr]]. apply in_seq in Hr. exists r. split; [lia|reflexivity].
Qed.

Lemma set_field (d : draincol A) it' :
  dc_slots (mkDC (dc_slots d) it' (dc_col d) (dc_cols d) (dc_rows d)) = dc_slots d.
Proof. reflexivity. Qed.

(** taking the cell the cursor yielded *)
Lemma dc_take_ok d l (r : res (option nat * col_it)) (o : option nat) (l' : list nat) it' :
  DCinv d l -> r = Ok (o, it') -> col_sim it' l' ->
  (match o with Some i => In i l /\ (forall j, In j l' <-> In j l /\ j <> i) | None => l' = l end) ->
  NoDup l' ->
  exists d', dc_take d r = Ok (match o with Some i => nth_error data i | None => None end, d') /\ DCinv d' l'.
Proof.
  intros [Hs [Hnd [Hcol [Hsl Hslots]]]] -> Hs' Ho Hnd'. unfold dc_take. cbn [bind].
  destruct o as [i|].
  - destruct Ho as [Hin Hl'].
    pose proof (in_col_lt i (Hcol i Hin)) as Hi.
    unfold ptr_read. rewrite (Hslots i Hi). destruct (in_dec Nat.eq_dec i l) as [_|Hn]; [|contradiction].
    destruct (nth_error data i) as [x|] eqn:Ex; [|apply nth_error_None in Ex; lia]. cbn [bind].
    eexists. split; [reflexivity|].
    split; [exact Hs'|]. split; [exact Hnd'|]. split; [intros j Hj; apply Hcol; apply Hl' in Hj; tauto|].
    cbn [dc_slots]. split; [rewrite upd_length; exact Hsl|].
    intros j Hj. rewrite nth_error_upd, Hsl.
    destruct (Nat.eqb_spec i j) as [<-|Hne]; cbn [andb].
    + destruct (Nat.ltb_spec i (length data)); [|lia].
      destruct (in_dec Nat.eq_dec i l') as [Hx|_]; [apply Hl' in Hx; tauto|].
      destruct (in_dec Nat.eq_dec i col_cells) as [_|Hn]; [reflexivity|].
      exfalso. apply Hn. apply in_col_cells. apply Hcol. exact Hin.
    + rewrite (Hslots j Hj).
      destruct (in_dec Nat.eq_dec j l) as [Hjl|Hjl]; destruct (in_dec Nat.eq_dec j l') as [Hjl'|Hjl']; try reflexivity.
      * exfalso. apply Hjl'. apply Hl'. split; [exact Hjl|lia].
      * exfalso. apply Hjl. apply Hl' in Hjl'. tauto.
  - subst l'. eexists. split; [reflexivity|].
    split; [exact Hs'|]. split; [exact Hnd|]. split; [exact Hcol|]. split; [exact Hsl|exact Hslots].
Qed.

Lemma dc_next_ok d l : DCinv d l ->
  exists d', dc_next d = Ok (match l with i :: _ => nth_error data i | [] => None end, d') /\ DCinv d' (tl l).
Proof.
  intros Hinv. pose proof Hinv as [Hs [Hnd _]].
  destruct (col_sim_next _ _ Hs) as [it' [E Hs']].
  destruct l as [|i l]; cbn [i_next fst snd tl] in *.
  - destruct (dc_take_ok d [] _ None [] it' Hinv E Hs' eq_refl Hnd) as [d' [E' Hinv']]. exists d'. split; assumption.
  - inversion Hnd as [|? ? Hni Hnd']; subst.
    destruct (dc_take_ok d (i :: l) _ (Some i) l it' Hinv E Hs') as [d' [E' Hinv']]; [|exact Hnd'|].
    + split; [left; reflexivity|]. intros j. split.
      * intros Hj. split; [right; exact Hj|]. intros ->. contradiction.
      * intros [[<-|Hj] Hne]; [contradiction|exact Hj].
    + exists d'. split; assumption.
Qed.

Lemma dc_next_back_ok d l : DCinv d l ->
  exists d', dc_next_back d = Ok (match rev l with i :: _ => nth_error data i | [] => None end, d') /\
             DCinv d' (rev (tl (rev l))).
Proof.
  intros Hinv. pose proof Hinv as [Hs [Hnd _]].
  destruct (col_sim_next_back _ _ Hs) as [it' [E Hs']]. unfold i_next_back in *.
  destruct (rev l) as [|i rl] eqn:Er; cbn [fst snd tl] in *.
  - assert (l = []) by (apply (f_equal (@rev nat)) in Er; rewrite rev_involutive in Er; exact Er). subst l.
    destruct (dc_take_ok d [] _ None [] it' Hinv E Hs' eq_refl Hnd) as [d' [E' Hinv']]. exists d'. split; assumption.
  - assert (Hl : l = rev rl ++ [i]) by (apply (f_equal (@rev nat)) in Er; rewrite rev_involutive in Er; exact Er).
    assert (Hnd2 : NoDup (rev rl) /\ ~ In i (rev rl)).
    { rewrite Hl in Hnd. apply NoDup_remove in Hnd. rewrite app_nil_r in Hnd. exact Hnd. }
    destruct (dc_take_ok d l _ (Some i) (rev rl) it' Hinv E Hs') as [d' [E' Hinv']]; [|tauto|].
    + split; [rewrite Hl; apply in_or_app; right; left; reflexivity|]. intros j. rewrite Hl. split.
      * intros Hj. split; [apply in_or_app; left; exact Hj|]. intros ->. tauto.
      * intros [Hj Hne]. apply in_app_or in Hj. destruct Hj as [Hj|[<-|[]]]; [exact Hj|contradiction].
    + exists d'. split; assumption.
Qed.

(** all indices of a drain state are valid: their values are defined *)
Lemma vals_length l : (forall i, In i l -> i < length data) -> length (vals l) = length l.
Proof.
  induction l as [|i l IH]; intros H; [reflexivity|].
  destruct (nth_error data i) as [x|] eqn:Ex; [|apply nth_error_None in Ex; specialize (H i (or_introl eq_refl)); lia].
  rewrite (vals_cons i l x Ex). cbn [length]. rewrite IH; [reflexivity|]. intros j Hj. apply H. right. exact Hj.
Qed.

(** the caller's view of a drain script = the ideal run over the column's values *)
Lemma run_dc_ok : forall steps d l, DCinv d l ->
  exists d' l',
    run_dc steps d = Ok (fst (fst (run_vec_drain steps (vals l))), snd (fst (run_vec_drain steps (vals l))), d') /\
    DCinv d' l' /\ vals l' = snd (run_vec_drain steps (vals l)).
Proof.
  induction steps as [|s steps IH]; intros d l Hinv.
  - exists d, l. split; [reflexivity|]. split; [exact Hinv|reflexivity].
  - pose proof Hinv as [Hs [Hnd [Hcol _]]].
    assert (Hvalid : forall i, In i l -> i < length data) by (intros i Hi; apply in_col_lt, Hcol, Hi).
    destruct s; cbn [run_dc run_vec_drain].
    + (* next *)
      destruct (dc_next_ok d l Hinv) as [d1 [E1 Hinv1]]. rewrite E1. cbn [bind].
      destruct l as [|i l]; cbn [tl] in *.
      * cbn [vals flat_map]. destruct (IH d1 [] Hinv1) as [d' [l' [E [Hinv' Hv]]]].
        cbn [vals flat_map] in E, Hv. rewrite E. cbn [bind].
        destruct (run_vec_drain steps []) as [[o y] r]. cbn [fst snd] in *.
        exists d', l'. split; [reflexivity|]. split; assumption.
      * destruct (nth_error data i) as [x|] eqn:Ex; [|apply nth_error_None in Ex; specialize (Hvalid i (or_introl eq_refl)); lia].
        rewrite (vals_cons i l x Ex).
        destruct (IH d1 l Hinv1) as [d' [l' [E [Hinv' Hv]]]]. rewrite E. cbn [bind].
        destruct (run_vec_drain steps (vals l)) as [[o y] r]. cbn [fst snd] in *.
        exists d', l'. split; [reflexivity|]. split; assumption.
    + (* next_back *)
      destruct (dc_next_back_ok d l Hinv) as [d1 [E1 Hinv1]]. rewrite E1. cbn [bind].
      destruct (rev l) as [|i rl] eqn:Er; cbn [tl] in *.
      * assert (l = []) by (apply (f_equal (@rev nat)) in Er; rewrite rev_involutive in Er; exact Er). subst l.
        cbn [vals flat_map rev]. destruct (IH d1 [] Hinv1) as [d' [l' [E [Hinv' Hv]]]].
        cbn [vals flat_map rev] in E, Hv. rewrite E. cbn [bind].
        destruct (run_vec_drain steps []) as [[o y] r]. cbn [fst snd] in *.
        exists d', l'. split; [reflexivity|]. split; assumption.
      * assert (Hl : l = rev rl ++ [i]) by (apply (f_equal (@rev nat)) in Er; rewrite rev_involutive in Er; exact Er).
        destruct (nth_error data i) as [x|] eqn:Ex;
          [|apply nth_error_None in Ex; assert (In i l) by (rewrite Hl; apply in_or_app; right; left; reflexivity);
            specialize (Hvalid i H); lia].
        assert (Hv1 : vals l = vals (rev rl) ++ [x]).
        { rewrite Hl, vals_app. f_equal. rewrite (vals_cons i [] x Ex). reflexivity. }
        rewrite Hv1, rev_app_distr. cbn [rev app]. rewrite rev_involutive.
        destruct (IH d1 (rev rl) Hinv1) as [d' [l' [E [Hinv' Hv]]]]. rewrite E. cbn [bind].
        destruct (run_vec_drain steps (vals (rev rl))) as [[o y] r]. cbn [fst snd] in *.
        exists d', l'. split; [reflexivity|]. split; assumption.
    + (* len *)
      destruct (IH d l Hinv) as [d' [l' [E [Hinv' Hv]]]]. rewrite E. cbn [bind].
      unfold dc_len. rewrite (col_sim_len _ _ Hs), (vals_length l Hvalid).
      destruct (run_vec_drain steps (vals l)) as [[o y] r]. cbn [fst snd] in *.
      exists d', l'. split; [reflexivity|]. split; assumption.

    + (* a skipped element from the front *)
      destruct (dc_next_ok d l Hinv) as [d1 [E1 Hinv1]]. rewrite E1. cbn [bind].
      destruct l as [|i l]; cbn [tl] in *.
      * cbn [vals flat_map]. destruct (IH d1 [] Hinv1) as [d' [l' [E [Hinv' Hv]]]].
        cbn [vals flat_map] in E, Hv. rewrite E. cbn [bind].
        destruct (run_vec_drain steps []) as [[o y] r]. cbn [fst snd] in *.
        exists d', l'. split; [reflexivity|]. split; assumption.
      * destruct (nth_error data i) as [x|] eqn:Ex; [|apply nth_error_None in Ex; specialize (Hvalid i (or_introl eq_refl)); lia].
        rewrite (vals_cons i l x Ex).
        destruct (IH d1 l Hinv1) as [d' [l' [E [Hinv' Hv]]]]. rewrite E. cbn [bind].
        destruct (run_vec_drain steps (vals l)) as [[o y] r]. cbn [fst snd] in *.
        exists d', l'. split; [reflexivity|]. split; assumption.
    + (* a skipped element from the back *)
      destruct (dc_next_back_ok d l Hinv) as [d1 [E1 Hinv1]]. rewrite E1. cbn [bind].
      destruct (rev l) as [|i rl] eqn:Er; cbn [tl] in *.
      * assert (l = []) by (apply (f_equal (@rev nat)) in Er; rewrite rev_involutive in Er; exact Er). subst l.
        cbn [vals flat_map rev]. destruct (IH d1 [] Hinv1) as [d' [l' [E [Hinv' Hv]]]].
        cbn [vals flat_map rev] in E, Hv. rewrite E. cbn [bind].
        destruct (run_vec_drain steps []) as [[o y] r]. cbn [fst snd] in *.
        exists d', l'. split; [reflexivity|]. split; assumption.
      * assert (Hl : l = rev rl ++ [i]) by (apply (f_equal (@rev nat)) in Er; rewrite rev_involutive in Er; exact Er).
        destruct (nth_error data i) as [x|] eqn:Ex;
          [|apply nth_error_None in Ex; assert (In i l) by (rewrite Hl; apply in_or_app; right; left; reflexivity);
            specialize (Hvalid i H); lia].
        assert (Hv1 : vals l = vals (rev rl) ++ [x]).
        { rewrite Hl, vals_app. f_equal. rewrite (vals_cons i [] x Ex). reflexivity. }
        rewrite Hv1, rev_app_distr. cbn [rev app]. rewrite rev_involutive.
        destruct (IH d1 (rev rl) Hinv1) as [d' [l' [E [Hinv' Hv]]]]. rewrite E. cbn [bind].
        destruct (run_vec_drain steps (vals (rev rl))) as [[o y] r]. cbn [fst snd] in *.
        exists d', l'. split; [reflexivity|]. split; assumption.
Qed.

(** the destructor first drops whatever was not yielded *)
Lemma dc_exhaust_ok : forall fuel d l, length l < fuel -> DCinv d l ->
  exists d', dc_exhaust fuel d = Ok (vals l, d') /\ DCinv d' [].
Proof.
  induction fuel as [|fuel IH]; intros d l Hf Hinv; [lia|].
  cbn [dc_exhaust]. destruct (dc_next_ok d l Hinv) as [d1 [E1 Hinv1]]. rewrite E1. cbn [bind].
  destruct l as [|i l]; cbn [tl] in *.
  - exists d1. split; [reflexivity|exact Hinv1].
  - pose proof Hinv as [_ [_ [Hcol _]]].
    destruct (nth_error data i) as [x|] eqn:Ex;
      [|apply nth_error_None in Ex; pose proof (in_col_lt i (Hcol i (or_introl eq_refl))); lia].
    destruct (IH d1 l ltac:(cbn in Hf; lia) Hinv1) as [d' [E' Hinv']]. rewrite E'. cbn [bind fst snd].
    exists d'. split; [rewrite (vals_cons i l x Ex); reflexivity|exact Hinv'].
Qed.

End Drain.

(** * DropGuard::drop: closing the gap *)
Section Compact.
Context {A : Type}.
Variable data : list A.
Variables nc nr idx : nat.
Hypothesis Hlen : length data = nc * nr.
Hypothesis Hidx : idx < nc.
Hypothesis Hnr : 0 < nr.
Let w := nc - 1.

(** content of cell (c, r) of the (nc-1)-wide result *)
Definition gv (r c : nat) : option A :=
  if c <? idx then nth_error data (r * nc + c) else nth_error data (r * nc + c + 1).

(** the buffer when the drain is exhausted: the column's slots are moved-out *)
Definition orig (m : list (option A)) : Prop :=
  length m = length data /\
  forall i, i < length data ->
    nth_error m i = if in_dec Nat.eq_dec i (col_cells nc nr idx) then Some None else Some (nth_error data i).

Definition CI (m0 : list (option A)) (j : nat) (m : list (option A)) : Prop :=
  length m = length data /\
  (forall r c, c < w -> r * w + c < idx + j * w -> nth_error m (r * w + c) = Some (gv r c)) /\
  (forall p, idx + 1 + j * nc <= p -> nth_error m p = nth_error m0 p).

Lemma not_col_between j t : t < w -> ~ In (idx + 1 + j * nc + t) (col_cells nc nr idx).
Proof.
  intros Ht Hin. unfold col_cells in Hin. apply in_map_iff in Hin. destruct Hin as [r [E _]].
  unfold w in *. assert (r = j \/ r < j \/ j < r) by lia. destruct H as [->|[H|H]]; nia.
Qed.

Lemma dc_compact_ok m0 : orig m0 -> 0 < w ->
  forall k j m, j + k = nr - 1 -> CI m0 j m ->
  exists m', dc_compact k w nc (idx + 1 + j * nc) (idx + j * w) m
             = Ok (m', idx + 1 + (nr - 1) * nc, idx + (nr - 1) * w) /\ CI m0 (nr - 1) m'.
Proof.
  intros [Hl0 Ho] Hw. induction k as [|k IH]; intros j m Hj [Hl [Hdone Hrest]].
  - assert (j = nr - 1) by lia. subst j. exists m. split; [reflexivity|]. split; [exact Hl|]. split; assumption.
  - cbn [dc_compact].
    destruct (ptr_copy_ok (idx + 1 + j * nc) (idx + j * w) w m) as [m1 E1]; [unfold w in *; nia|unfold w in *; nia|].
    rewrite E1. cbn [bind]. apply ptr_copy_spec in E1. destruct E1 as [L1 N1].
    replace (idx + 1 + j * nc + nc) with (idx + 1 + S j * nc) by lia.
    replace (idx + j * w + w) with (idx + S j * w) by lia.
    apply IH; [lia|]. split; [lia|]. split.
    + intros r c Hc Hp. rewrite N1.
      destruct (Nat.leb_spec (idx + j * w) (r * w + c)); destruct (Nat.ltb_spec (r * w + c) (idx + j * w + w)); cbn [andb].
      * (* written by this copy *)
        remember (r * w + c - (idx + j * w)) as t eqn:Et.
        rewrite Hrest by lia. rewrite Ho by (unfold w in *; nia).
        destruct (in_dec Nat.eq_dec (idx + 1 + j * nc + t) (col_cells nc nr idx)) as [Hin|_];
          [exfalso; apply (not_col_between j t); [lia|exact Hin]|].
        f_equal. unfold gv.
        assert (Hcase : (r = j /\ c = idx + t) \/ (r = S j /\ c + w = idx + t)).
        { assert (Htri : r = j \/ r = S j \/ r < j \/ S j < r) by lia.
          destruct Htri as [Hr1|[Hr1|[Hr1|Hr1]]]; [left; split; [exact Hr1|subst r; lia]|right; split; [exact Hr1|subst r; lia]|nia|nia]. }
        destruct Hcase as [[Hr1 Hc1]|[Hr1 Hc2]]; subst r.
        -- destruct (Nat.ltb_spec c idx); [lia|]. f_equal. lia.
        -- destruct (Nat.ltb_spec c idx); [f_equal; unfold w in *; nia|unfold w in *; nia].
      * nia.
      * apply Hdone; [exact Hc|lia].
      * nia.
    + intros p Hp. rewrite N1.
      destruct (Nat.leb_spec (idx + j * w) p); destruct (Nat.ltb_spec p (idx + j * w + w)); cbn [andb];
        try (apply Hrest; lia). unfold w in *. nia.
Qed.

Theorem compact_all (m0 : list (option A)) : orig m0 ->
  exists m1 m2 d,
    dc_compact (nr - 1) w nc (idx + 1) idx m0 = Ok (m1, idx + 1 + (nr - 1) * nc, idx + (nr - 1) * w) /\
    ptr_copy (idx + 1 + (nr - 1) * nc) (idx + (nr - 1) * w) (nc - (idx + 1)) m1 = Ok m2 /\
    owned_prefix m2 (w * nr) = Some d /\ length d = w * nr /\
    (forall r c, r < nr -> c < w -> nth_error d (r * w + c) = gv r c).
Proof.
  intros Ho. pose proof Ho as [Hl0 Hov].
  destruct (Nat.eq_dec w 0) as [Hw0|Hwnz].
  - (* the only column: nothing to move, the array becomes empty *)
    assert (Hnc : nc = 1) by (unfold w in *; lia). assert (Hi0 : idx = 0) by lia.
    assert (Hgen : forall k j (m : list (option A)), j + k = nr - 1 -> length m = length data ->
              dc_compact k w nc (idx + 1 + j * nc) (idx + j * w) m = Ok (m, idx + 1 + (nr - 1) * nc, idx + (nr - 1) * w)).
    { induction k as [|k IH]; intros j m Hj Hm.
      - assert (j = nr - 1) by lia. subst j. reflexivity.
      - cbn [dc_compact]. unfold ptr_copy. rewrite Hw0.
        destruct (Nat.leb_spec (idx + 1 + j * nc + 0) (length m)); [|nia].
        destruct (Nat.leb_spec (idx + j * 0 + 0) (length m)); [|nia]. cbn [andb bind].
        assert (Hsame : firstn (idx + j * 0) m ++ slice (idx + 1 + j * nc) 0 m ++ skipn (idx + j * 0 + 0) m = m).
        { unfold slice. cbn [firstn app]. rewrite Nat.add_0_r. apply firstn_skipn. }
        rewrite Hsame.
        replace (idx + 1 + j * nc + nc) with (idx + 1 + S j * nc) by lia.
        replace (idx + j * 0 + 0) with (idx + S j * 0) by lia.
        specialize (IH (S j) m ltac:(lia) Hm). rewrite Hw0 in IH. exact IH. }
    exists m0. specialize (Hgen (nr - 1) 0 m0 ltac:(lia) Hl0). cbn [Nat.mul] in Hgen. rewrite !Nat.add_0_r in Hgen.
    unfold ptr_copy. replace (nc - (idx + 1)) with 0 by lia.
    destruct (Nat.leb_spec (idx + 1 + (nr - 1) * nc + 0) (length m0)); [|nia].
    destruct (Nat.leb_spec (idx + (nr - 1) * w + 0) (length m0)); [|nia]. cbn [andb].
    eexists. exists []. split; [exact Hgen|]. split; [reflexivity|].
    rewrite Hw0. split; [unfold owned_prefix; cbn; reflexivity|]. split; [reflexivity|]. intros r c Hr Hc. lia.
  - assert (Hw : 0 < w) by lia.
    destruct (dc_compact_ok m0 Ho Hw (nr - 1) 0 m0 ltac:(lia)) as [m1 [E1 [L1 [D1 R1]]]].
    { split; [exact Hl0|]. split; [|reflexivity].
      intros r c Hc Hp. cbn [Nat.mul Nat.add] in Hp. rewrite Nat.add_0_r in Hp.
      assert (r = 0) by nia. subst r. cbn [Nat.mul Nat.add] in *.
      rewrite Hov by nia.
      destruct (in_dec Nat.eq_dec c (col_cells nc nr idx)) as [Hin|_].
      - exfalso. unfold col_cells in Hin. apply in_map_iff in Hin. destruct Hin as [r [E _]]. nia.
      - unfold gv. destruct (Nat.ltb_spec c idx); [reflexivity|lia]. }
    cbn [Nat.mul] in E1.
    exists m1.
    destruct (ptr_copy_ok (idx + 1 + (nr - 1) * nc) (idx + (nr - 1) * w) (nc - (idx + 1)) m1) as [m2 E2];
      [unfold w in *; nia|unfold w in *; nia|].
    exists m2. pose proof E2 as E2'. apply ptr_copy_spec in E2'. destruct E2' as [L2 N2].
    (* every slot of the new array is initialised with its final content *)
    assert (Hall : forall r c, r < nr -> c < w -> nth_error m2 (r * w + c) = Some (gv r c)).
    { intros r c Hr Hc. rewrite N2.
      destruct (Nat.leb_spec (idx + (nr - 1) * w) (r * w + c));
        destruct (Nat.ltb_spec (r * w + c) (idx + (nr - 1) * w + (nc - (idx + 1)))); cbn [andb].
      - assert (r = nr - 1) by nia. subst r.
        rewrite R1 by nia. rewrite Hov by (unfold w in *; nia).
        remember ((nr - 1) * w + c - (idx + (nr - 1) * w)) as t eqn:Et.
        destruct (in_dec Nat.eq_dec (idx + 1 + (nr - 1) * nc + t) (col_cells nc nr idx)) as [Hin|_];
          [exfalso; apply (not_col_between (nr - 1) t); [subst t; unfold w; lia|exact Hin]|].
        f_equal. unfold gv. destruct (Nat.ltb_spec c idx); [subst t; lia|]. f_equal. subst t. lia.
      - unfold w in *. nia.
      - apply D1; [exact Hc|lia].
      - unfold w in *. nia. }
    assert (Hcells : forall p, p < w * nr -> exists r c, r < nr /\ c < w /\ p = r * w + c).
    { intros p Hp. exists (p / w), (p mod w).
      pose proof (Nat.div_mod p w ltac:(lia)). pose proof (Nat.mod_upper_bound p w ltac:(lia)).
      split; [apply Nat.div_lt_upper_bound; lia|]. split; lia. }
    assert (Hgv : forall r c, r < nr -> c < w -> exists x, gv r c = Some x).
    { intros r c Hr Hc. unfold gv. destruct (Nat.ltb_spec c idx); apply nth_error_lt_Some; unfold w in *; nia. }
    assert (Hbuild : exists d, all_some (firstn (w * nr) m2) = Some d).
    { apply all_some_build. intros p Hp. rewrite firstn_length in Hp.
      destruct (Hcells p ltac:(lia)) as [r [c [Hr [Hc ->]]]]. destruct (Hgv r c Hr Hc) as [x Hx].
      exists x. rewrite nth_error_firstn. destruct (Nat.ltb_spec (r * w + c) (w * nr)); [|lia].
      rewrite Hall by assumption. rewrite Hx. reflexivity. }
    destruct Hbuild as [d Hd]. exists d. split; [replace (idx + 0) with idx in E1 by lia; replace (idx + 1 + 0) with (idx + 1) in E1 by lia; exact E1|]. split; [exact E2|].
    assert (Hle : w * nr <= length m2) by (unfold w in *; nia).
    split; [unfold owned_prefix; destruct (Nat.leb_spec (w * nr) (length m2)); [exact Hd|lia]|].
    apply all_some_spec in Hd. split.
    + apply (f_equal (@length _)) in Hd. rewrite firstn_length, map_length in Hd. lia.
    + intros r c Hr Hc.
      assert (Hn : nth_error (firstn (w * nr) m2) (r * w + c) = nth_error (map Some d) (r * w + c)) by (rewrite Hd; reflexivity).
      rewrite nth_error_firstn, nth_error_map in Hn. destruct (Nat.ltb_spec (r * w + c) (w * nr)); [|nia].
      rewrite Hall in Hn by assumption.
      destruct (nth_error d (r * w + c)); cbn in Hn; [inversion Hn; reflexivity|discriminate].
Qed.

End Compact.

(** * remove_col, end to end *)
Section RemoveColTop.
Context {A : Type}.

Lemma col_cells_nodup nc nr idx : 0 < nc -> NoDup (col_cells nc nr idx).
Proof.
  intros Hnc. unfold col_cells. apply NoDup_nth_error. intros i j Hi E.
  rewrite map_length, seq_length in Hi. rewrite !nth_error_map, !nth_error_seq in E.
  destruct (Nat.ltb_spec i nr); [|lia]. destruct (Nat.ltb_spec j nr); cbn in E; [|discriminate].
  inversion E. nia.
Qed.

Lemma drain_start (t : toodee A) idx : Inv t -> idx < num_cols t ->
  (N.of_nat (length (data t)) < W)%N ->
  DCinv (data t) (num_cols t) (num_rows t) idx
    (mkDC (map Some (data t)) (mkCol (mkSl idx (length (data t) - num_cols t + 1)) (num_cols t - 1)) idx
          (num_cols t) (num_rows t))
    (col_cells (num_cols t) (num_rows t) idx) /\ 0 < num_rows t /\ num_cols t <= length (data t).
Proof.
  intros [Hl Hz] Hidx Hw. set (nc := num_cols t) in *. set (nr := num_rows t) in *.
  assert (Hnr : 0 < nr) by (destruct nr; [assert (nc = 0) by (apply Hz; reflexivity); lia|lia]).
  split; [|split; [exact Hnr|rewrite Hl; nia]].
  split; [|split; [apply col_cells_nodup; lia|split; [|split]]].
  - (* the cursor starts as the column's cells *)
    cbn [dc_iter].
    exists (map (fun r => mkSl (idx + r * nc) 1) (seq 0 nr)). split.
    + exists nr. split.
      * split; cbn [col_as_rows rv rcols rskip cv cskip len]; [lia|].
        destruct nr as [|k]; [lia|]. split; [lia|]. rewrite Hl. nia.
      * unfold rows_abs. cbn [col_as_rows rv rcols rskip cv cskip off]. apply map_ext. intros r. f_equal. nia.
    + unfold col_cells. rewrite map_map. reflexivity.
  - intros i Hi. unfold col_cells in Hi. apply in_map_iff in Hi. destruct Hi as [r [<- Hr]].
    apply in_seq in Hr. exists r. split; [lia|reflexivity].
  - cbn [dc_slots]. apply map_length.
  - intros i Hi. cbn [dc_slots]. rewrite nth_error_map.
    destruct (nth_error (data t) i) as [x|] eqn:Ex; [|apply nth_error_None in Ex; lia]. cbn [option_map].
    destruct (in_dec Nat.eq_dec i (col_cells nc nr idx)); reflexivity.
Qed.

(** dropped drain: the caller saw the ideal run over the column, the destructor dropped the
    rest, and the array is the original without that column *)
Theorem remove_col_dropped (t : toodee A) idx steps :
  Inv t -> idx < num_cols t -> (N.of_nat (length (data t)) < W)%N ->
  let nc := num_cols t in let nr := num_rows t in
  let colv := vals (data t) (col_cells nc nr idx) in
  exists d,
    remove_col t (N.of_nat idx) steps DropIt
    = Ok (mkDrain (if 0 <? nc - 1 then mkTD d nr (nc - 1) else mkTD d 0 0) true
            (fst (fst (run_vec_drain steps colv))) (snd (fst (run_vec_drain steps colv)))
            (snd (run_vec_drain steps colv)) []) /\
    length d = (nc - 1) * nr /\
    (forall r c, r < nr -> c < nc - 1 -> nth_error d (r * (nc - 1) + c) = gv (data t) nc idx r c).
Proof.
  intros Hi Hidx Hw nc nr colv. pose proof Hi as [Hl Hz]. fold nc nr in Hl.
  destruct (drain_start t idx Hi Hidx Hw) as [Hinv0 [Hnr Hncl]]. fold nc nr in Hinv0, Hnr, Hncl.
  unfold remove_col. fold nc nr.
  destruct (N.ltb_spec (N.of_nat idx) (N.of_nat nc)); [|lia]. cbn [negb]. rewrite Nat2N.id.
  unfold usub. destruct (Nat.leb_spec nc (length (data t))); [|lia]. cbn [bind].
  destruct (run_dc_ok (data t) nc nr idx Hl Hidx steps _ _ Hinv0) as [d1 [l1 [E1 [Hinv1 Hv1]]]].
  fold colv in E1, Hv1. rewrite E1. cbn [bind].
  pose proof Hinv1 as [_ [Hnd1 [Hcol1 _]]].
  assert (Hl1 : length l1 < S (length (data t))).
  { assert (length l1 <= length (col_cells nc nr idx)).
    { apply NoDup_incl_length; [exact Hnd1|]. intros i Hi1. destruct (Hcol1 i Hi1) as [r [Hr ->]].
      unfold col_cells. apply in_map_iff. exists r. split; [reflexivity|apply in_seq; lia]. }
    unfold col_cells in H1. rewrite map_length, seq_length in H1. rewrite Hl. nia. }
  destruct (dc_exhaust_ok (data t) nc nr idx Hl Hidx (S (length (data t))) d1 l1 Hl1 Hinv1) as [d2 [E2 Hinv2]].
  rewrite E2. cbn [bind]. rewrite Hv1.
  destruct Hinv2 as [_ [_ [_ [Hsl2 Hslots2]]]].
  assert (Horig : orig (data t) nc nr idx (dc_slots d2)).
  { split; [exact Hsl2|]. intros i Hi2. rewrite (Hslots2 i Hi2).
    destruct (in_dec Nat.eq_dec i []) as [[]|_]. reflexivity. }
  destruct (compact_all (data t) nc nr idx Hl Hidx Hnr (dc_slots d2) Horig) as [m1 [m2 [d [Ec [Ep [Hop [Hld Hd]]]]]]].
  rewrite Ec. cbn [bind]. destruct (Nat.leb_spec (idx + 1) nc); [|lia]. cbn [bind]. rewrite Ep. cbn [bind].
  exists d.
  destruct (Nat.ltb_spec 0 (nc - 1)).
  - rewrite Hop. split; [reflexivity|]. split; assumption.
  - assert (Hz0 : (nc - 1) * nr = 0) by nia. rewrite Hz0 in Hop. cbn [Nat.mul]. rewrite Hop.
    split; [reflexivity|]. split; assumption.
Qed.

(** leaked drain: the array is left empty with dimensions (0,0) *)
Theorem remove_col_leaked (t : toodee A) idx steps :
  Inv t -> idx < num_cols t -> (N.of_nat (length (data t)) < W)%N ->
  let colv := vals (data t) (col_cells (num_cols t) (num_rows t) idx) in
  exists leaked,
    remove_col t (N.of_nat idx) steps ForgetIt
    = Ok (mkDrain (mkTD [] 0 0) true (fst (fst (run_vec_drain steps colv))) (snd (fst (run_vec_drain steps colv)))
            [] leaked).
Proof.
  intros Hi Hidx Hw colv. pose proof Hi as [Hl Hz].
  destruct (drain_start t idx Hi Hidx Hw) as [Hinv0 [Hnr Hncl]].
  unfold remove_col.
  destruct (N.ltb_spec (N.of_nat idx) (N.of_nat (num_cols t))); [|lia]. cbn [negb]. rewrite Nat2N.id.
  unfold usub. destruct (Nat.leb_spec (num_cols t) (length (data t))); [|lia]. cbn [bind].
  destruct (run_dc_ok (data t) _ _ idx Hl Hidx steps _ _ Hinv0) as [d1 [l1 [E1 _]]].
  fold colv in E1. rewrite E1. cbn [bind]. eexists. reflexivity.
Qed.

Theorem remove_col_reject (t : toodee A) (index : N) steps fin :
  (N.of_nat (num_cols t) <= index)%N -> remove_col t index steps fin = Ok (mkDrain t false [] [] [] []).
Proof.
  intros H. unfold remove_col. destruct (N.ltb_spec index (N.of_nat (num_cols t))); [lia|reflexivity].
Qed.

End RemoveColTop.

(** * the result as rows of cells, and conservation *)
Section RemoveColGrid.
Context {A : Type}.

Lemma nth_error_remove_at : forall i (l : list A) c,
  nth_error (remove_at i l) c = if c <? i then nth_error l c else nth_error l (c + 1).
Proof.
  induction i as [|i IH]; intros l c.
  - destruct l as [|h t]; cbn [remove_at]; [destruct c; reflexivity|].
    cbn [Nat.ltb Nat.leb]. replace (c + 1) with (S c) by lia. reflexivity.
  - destruct l as [|h t]; cbn [remove_at]; [destruct c; [reflexivity|destruct (S c <? S i); reflexivity]|].
    destruct c as [|c]; cbn [nth_error]; [reflexivity|]. rewrite IH.
    change (S c <? S i) with (c <? i). destruct (c <? i); [reflexivity|]. replace (S c + 1) with (S (c + 1)) by lia. reflexivity.
Qed.

Lemma remove_at_length : forall i (l : list A), i < length l -> length (remove_at i l) = length l - 1.
Proof.
  induction i as [|i IH]; intros l Hi; destruct l as [|h t]; cbn [length remove_at] in *; try lia.
  rewrite IH by lia. lia.
Qed.

(** the pointwise description determines the flat buffer: every row without its cell [idx] *)
Theorem remove_col_rows (data d : list A) nc nr idx : idx < nc -> length data = nc * nr ->
  length d = (nc - 1) * nr ->
  (forall r c, r < nr -> c < nc - 1 -> nth_error d (r * (nc - 1) + c) = gv data nc idx r c) ->
  d = concat (map (remove_at idx) (chunks nr nc data)).
Proof.
  intros Hidx Hd Hl Hn.
  destruct (chunks_uniform nc nr data Hd) as [Hu Hcl].
  set (rows' := map (remove_at idx) (chunks nr nc data)).
  assert (Hu' : Forall (fun row => length row = nc - 1) rows').
  { apply Forall_forall. intros row Hin. unfold rows' in Hin. apply in_map_iff in Hin.
    destruct Hin as [row0 [<- Hin0]]. pose proof (proj1 (Forall_forall _ _) Hu row0 Hin0) as H0. cbn beta in H0.
    rewrite remove_at_length by lia. lia. }
  assert (Hl' : length rows' = nr) by (unfold rows'; rewrite map_length; exact Hcl).
  apply list_ext. intros p.
  destruct (Nat.lt_ge_cases p ((nc - 1) * nr)) as [Hp|Hp].
  - assert (Hw : 0 < nc - 1) by nia.
    set (r := p / (nc - 1)). set (c := p mod (nc - 1)).
    assert (Hpc : p = r * (nc - 1) + c) by (subst r c; pose proof (Nat.div_mod p (nc - 1) ltac:(lia)); lia).
    assert (Hc : c < nc - 1) by (subst c; apply Nat.mod_upper_bound; lia).
    assert (Hr : r < nr) by (subst r; apply Nat.div_lt_upper_bound; lia).
    rewrite Hpc. rewrite Hn by assumption.
    rewrite (concat_uniform_nth (nc - 1) rows' r c Hu') by lia.
    unfold rows'. rewrite nth_error_map, (chunks_nth_local nc data nr r Hr). cbn [option_map].
    rewrite nth_error_remove_at. unfold gv. rewrite !nth_error_firstn, !nth_error_skipn.
    destruct (Nat.ltb_spec c idx).
    + destruct (Nat.ltb_spec c nc); [reflexivity|lia].
    + destruct (Nat.ltb_spec (c + 1) nc); [f_equal; lia|lia].
  - rewrite !nth_error_ge_None; [reflexivity| |lia].
    rewrite (concat_uniform_length (nc - 1) rows' Hu'), Hl'. lia.
Qed.

(** the column's values, top to bottom, are the [idx]-th cells of the rows *)
Lemma vals_col_cells (data : list A) nc nr idx : idx < nc -> length data = nc * nr ->
  vals data (col_cells nc nr idx)
  = flat_map (fun row => match nth_error row idx with Some x => [x] | None => [] end) (chunks nr nc data).
Proof.
  intros Hidx Hd. unfold vals, col_cells. rewrite flat_map_concat_map, map_map.
  rewrite flat_map_concat_map. f_equal.
  apply list_ext. intros r. rewrite !nth_error_map.
  destruct (Nat.lt_ge_cases r nr) as [Hr|Hr].
  - rewrite nth_error_seq. destruct (Nat.ltb_spec r nr); [|lia]. cbn [option_map].
    rewrite (chunks_nth_local nc data nr r Hr). cbn [option_map]. f_equal.
    rewrite nth_error_firstn, nth_error_skipn. destruct (Nat.ltb_spec idx nc); [|lia].
    replace (idx + (0 + r) * nc) with (r * nc + idx) by lia. reflexivity.
  - rewrite nth_error_seq. destruct (Nat.ltb_spec r nr); [lia|]. cbn [option_map].
    destruct (chunks_uniform nc nr data Hd) as [_ Hcl].
    rewrite (nth_error_ge_None (chunks nr nc data)) by lia. reflexivity.
Qed.

Lemma remove_cols_perm idx : forall (rows : list (list A)),
  Forall (fun row => idx < length row) rows ->
  Permutation (concat (map (remove_at idx) rows)
               ++ flat_map (fun row => match nth_error row idx with Some x => [x] | None => [] end) rows)
              (concat rows).
Proof.
  assert (Hrem : forall i (l : list A) x, nth_error l i = Some x -> Permutation (x :: remove_at i l) l).
  { induction i as [|i IH]; intros l x Hx; destruct l as [|h t]; cbn in Hx; try discriminate.
    - inversion Hx; subst. apply Permutation_refl.
    - cbn [remove_at]. eapply Permutation_trans; [apply perm_swap|]. apply perm_skip. apply IH. exact Hx. }
  induction rows as [|row rows IH]; intros Hall; [apply Permutation_refl|].
  inversion Hall as [|? ? Hrow Hall']; subst. cbn [map concat flat_map].
  destruct (nth_error row idx) as [x|] eqn:Ex; [|apply nth_error_None in Ex; lia].
  specialize (IH Hall'). specialize (Hrem idx row x Ex).
  rewrite <- app_assoc. cbn [app].
  eapply Permutation_trans; [apply Permutation_app_head; apply Permutation_sym; apply Permutation_middle|].
  eapply Permutation_trans; [apply Permutation_sym; apply Permutation_middle|].
  cbn [app]. rewrite app_assoc.
  eapply Permutation_trans; [apply perm_skip; rewrite <- app_assoc; apply Permutation_refl|].
  change (x :: remove_at idx row ++ concat (map (remove_at idx) rows) ++ flat_map (fun row0 => match nth_error row0 idx with Some x0 => [x0] | None => [] end) rows)
    with ((x :: remove_at idx row) ++ (concat (map (remove_at idx) rows) ++ flat_map (fun row0 => match nth_error row0 idx with Some x0 => [x0] | None => [] end) rows)).
  apply Permutation_app; assumption.
Qed.

Lemma concat_chunks nc : forall n (d : list A), length d = nc * n -> concat (chunks n nc d) = d.
Proof.
  induction n as [|n IH]; intros d Hd; cbn [chunks concat].
  - symmetry. apply length_zero_iff_nil. lia.
  - rewrite IH by (rewrite skipn_length; lia). apply firstn_skipn.
Qed.

(** what is left of the array plus the removed column is a permutation of the array *)
Theorem remove_col_conserves (data d : list A) nc nr idx : idx < nc -> length data = nc * nr ->
  length d = (nc - 1) * nr ->
  (forall r c, r < nr -> c < nc - 1 -> nth_error d (r * (nc - 1) + c) = gv data nc idx r c) ->
  Permutation (d ++ vals data (col_cells nc nr idx)) data.
Proof.
  intros Hidx Hd Hl Hn.
  rewrite (remove_col_rows data d nc nr idx Hidx Hd Hl Hn), (vals_col_cells data nc nr idx Hidx Hd).
  destruct (chunks_uniform nc nr data Hd) as [Hu _].
  eapply Permutation_trans; [apply remove_cols_perm|rewrite (concat_chunks nc nr data Hd); apply Permutation_refl].
  eapply Forall_impl; [|exact Hu]. intros row Hrow. cbn beta in Hrow. lia.
Qed.

End RemoveColGrid.
