(** C08: [Rows]/[RowsMut] simulate the ideal double-ended exact-size sequence of row
    windows, for every [n < 2^64] (the overflow branch of [overflowing_mul] is a case of the
    proof). *)
From TD Require Import Base.Prelude Model.Iter Spec.Ideal Proofs.ListLemmas.

(** representation invariant: [k] rows remain *)
Definition rows_R (it : rows_it) (k : nat) : Prop :=
  (N.of_nat (len (rv it)) < W)%N /\
  match k with
  | 0 => len (rv it) = 0
  | S k' => 0 < rcols it /\ len (rv it) = k' * (rcols it + rskip it) + rcols it
  end.

(** abstraction: the remaining row windows, top to bottom *)
Definition rows_abs (it : rows_it) (k : nat) : list sl :=
  map (fun j => mkSl (off (rv it) + j * (rcols it + rskip it)) (rcols it)) (seq 0 k).

Lemma rows_abs_S it k :
  rows_abs it (S k) =
  mkSl (off (rv it)) (rcols it)
  :: rows_abs (mkRows (mkSl (off (rv it) + (rcols it + rskip it)) 0) (rcols it) (rskip it)) k.
Proof.
  unfold rows_abs. cbn [seq map rv rcols rskip off]. f_equal.
  - f_equal. lia.
  - rewrite <- seq_shift, map_map. apply map_ext. intros j. f_equal. lia.
Qed.

Lemma rows_abs_off it it' k :
  off (rv it) = off (rv it') -> rcols it = rcols it' -> rskip it = rskip it' ->
  rows_abs it k = rows_abs it' k.
Proof. intros H1 H2 H3. unfold rows_abs. rewrite H1, H2, H3. reflexivity. Qed.

Lemma rows_abs_0 it : rows_abs it 0 = [].
Proof. reflexivity. Qed.

Lemma rows_abs_length it k : length (rows_abs it k) = k.
Proof. unfold rows_abs. rewrite map_length, seq_length. reflexivity. Qed.

Lemma rows_abs_nth it k j :
  j < k -> nth_error (rows_abs it k) j
           = Some (mkSl (off (rv it) + j * (rcols it + rskip it)) (rcols it)).
Proof.
  intros H. unfold rows_abs. rewrite nth_error_map, nth_error_seq.
  destruct (Nat.ltb_spec j k); [|lia]. reflexivity.
Qed.

(** size_hint *)
Lemma rows_len_ok it k : rows_R it k -> rows_len it = k.
Proof.
  intros [_ H]. unfold rows_len. destruct k as [|k].
  - rewrite H. destruct (Nat.eqb_spec (rcols it) 0) as [|Hc]; auto.
    assert (E : rcols it + rskip it <> 0) by lia.
    rewrite Nat.div_0_l, Nat.mod_0_l by auto. rewrite Nat.div_0_l by auto. reflexivity.
  - destruct H as [Hc H]. destruct (Nat.eqb_spec (rcols it) 0); [lia|].
    rewrite H. set (D := rcols it + rskip it). set (c := rcols it) in *.
    destruct (Nat.eq_dec (rskip it) 0) as [Hs|Hs].
    + assert (D = c) by (subst D; lia).
      replace (k * D + c) with (S k * c) by (rewrite H0; lia).
      rewrite H0. rewrite Nat.div_mul, Nat.mod_mul by lia. rewrite Nat.div_0_l by lia. lia.
    + assert (c < D) by (subst D; lia).
      rewrite Nat.div_add_l, Nat.div_small by lia.
      rewrite (Nat.add_comm (k * D) c), Nat.mod_add, Nat.mod_small by lia.
      rewrite Nat.div_same by lia. lia.
Qed.

(** next *)
Lemma rows_next_ok it k :
  rows_R it k ->
  exists it', rows_next it = Ok (fst (i_next (rows_abs it k)), it') /\
              rows_R it' (k - 1) /\ rows_abs it' (k - 1) = snd (i_next (rows_abs it k)).
Proof.
  intros [Hw H]. unfold rows_next, sl_is_empty. destruct k as [|k].
  - rewrite H. cbn. exists it. split; [reflexivity|]. split; [split; [exact Hw|exact H]|reflexivity].
  - destruct H as [Hc H].
    destruct (Nat.eqb_spec (len (rv it)) 0); [lia|].
    unfold split_at. destruct (Nat.leb_spec (rcols it) (len (rv it))); [|lia].
    cbn [bind len off]. rewrite rows_abs_S. cbn [i_next fst snd].
    destruct (Nat.eqb_spec (len (rv it) - rcols it) 0) as [E|E].
    + (* that was the last row *)
      exists (rows_set it sl_empty). split; [reflexivity|].
      assert (k = 0) by nia. subst k. cbn [Nat.sub]. split; [|reflexivity].
      split; cbn; [|reflexivity]. unfold W. lia.
    + unfold get_from. cbn [len off].
      assert (Hk : k <> 0) by (intros ->; lia).
      destruct (Nat.leb_spec (rskip it) (len (rv it) - rcols it)); [|nia].
      cbn [bind]. eexists. split; [reflexivity|].
      replace (S k - 1) with k by lia. split.
      * split; cbn [rows_set rv rcols rskip len]; [lia|].
        destruct k as [|k']; [lia|]. split; [exact Hc|]. nia.
      * apply rows_abs_off; cbn; lia.
Qed.

Lemma rows_abs_snoc it k :
  rows_abs it (S k) =
  rows_abs it k ++ [mkSl (off (rv it) + k * (rcols it + rskip it)) (rcols it)].
Proof. unfold rows_abs. rewrite seq_S, map_app. reflexivity. Qed.

Lemma i_next_back_snoc {X} (l : list X) x : i_next_back (l ++ [x]) = (Some x, l).
Proof. unfold i_next_back. rewrite rev_app_distr. cbn. rewrite rev_involutive. reflexivity. Qed.

(** next_back *)
Lemma rows_next_back_ok it k :
  rows_R it k ->
  exists it', rows_next_back it = Ok (fst (i_next_back (rows_abs it k)), it') /\
              rows_R it' (k - 1) /\ rows_abs it' (k - 1) = snd (i_next_back (rows_abs it k)).
Proof.
  intros [Hw H]. unfold rows_next_back, sl_is_empty. destruct k as [|k].
  - rewrite H. cbn. exists it. split; [reflexivity|]. split; [split; [exact Hw|exact H]|reflexivity].
  - destruct H as [Hc H].
    destruct (Nat.eqb_spec (len (rv it)) 0); [lia|].
    unfold usub. destruct (Nat.leb_spec (rcols it) (len (rv it))); [|lia]. cbn [bind].
    unfold split_at. destruct (Nat.leb_spec (len (rv it) - rcols it) (len (rv it))); [|lia].
    cbn [bind len off]. rewrite rows_abs_snoc, i_next_back_snoc. cbn [fst snd].
    replace (S k - 1) with k by lia.
    assert (Hlk : len (rv it) - rcols it = k * (rcols it + rskip it)) by lia.
    rewrite Hlk.
    replace (len (rv it) - k * (rcols it + rskip it)) with (rcols it) by lia.
    destruct (Nat.eqb_spec (k * (rcols it + rskip it)) 0) as [E|E].
    + exists (rows_set it sl_empty). split.
      * reflexivity.
      * assert (k = 0) by nia. subst k. split; [|reflexivity].
        split; cbn; [|reflexivity]. unfold W. lia.
    + assert (Hk : k <> 0) by (intros ->; lia).
      destruct (Nat.leb_spec (rskip it) (k * (rcols it + rskip it))); [|nia]. cbn [bind].
      unfold get_to. cbn [len off].
      destruct (Nat.leb_spec (k * (rcols it + rskip it) - rskip it) (k * (rcols it + rskip it))); [|lia].
      cbn [bind]. eexists. split.
      * reflexivity.
      * split.
        -- split; cbn [rows_set rv rcols rskip len]; [lia|].
           destruct k as [|k']; [lia|]. split; [exact Hc|]. nia.
        -- apply rows_abs_off; cbn; lia.
Qed.

(** the sequence is empty after [self.v = &[]] *)
Lemma rows_R_empty it : rows_R (rows_set it sl_empty) 0.
Proof. split; cbn; [unfold W; lia|reflexivity]. Qed.

Lemma rows_next_empty it : rows_next (rows_set it sl_empty) = Ok (None, rows_set it sl_empty).
Proof. reflexivity. Qed.
Lemma rows_next_back_empty it :
  rows_next_back (rows_set it sl_empty) = Ok (None, rows_set it sl_empty).
Proof. reflexivity. Qed.

Lemma overflowing_mul_small (n d : N) :
  (n * d < W)%N -> overflowing_mul n d = ((n * d)%N, false).
Proof.
  intros H. unfold overflowing_mul. rewrite N.mod_small by exact H.
  destruct (N.leb_spec W (n * d)); [lia|reflexivity].
Qed.

Lemma overflowing_mul_big (n d : N) :
  (W <= n * d)%N -> snd (overflowing_mul n d) = true.
Proof.
  intros H. unfold overflowing_mul. cbn [snd].
  destruct (N.leb_spec W (n * d)); [reflexivity|lia].
Qed.

(** nth, for every [n : N] *)
Lemma rows_nth_ok it k (n : N) :
  rows_R it k ->
  exists it' k', rows_nth it n = Ok (fst (i_nth n (rows_abs it k)), it') /\
                 rows_R it' k' /\ rows_abs it' k' = snd (i_nth n (rows_abs it k)).
Proof.
  intros HR. pose proof HR as [Hw H]. unfold rows_nth, i_nth. rewrite rows_abs_length.
  set (D := rcols it + rskip it).
  destruct (N.leb_spec (N.of_nat k) n) as [Hge|Hlt].
  - (* past the end: the cursor is emptied *)
    assert (Hlen : (N.of_nat (len (rv it)) <= n * N.of_nat D)%N).
    { destruct k as [|k]; [lia|]. destruct H as [Hc H]. subst D. nia. }
    exists (rows_set it sl_empty), 0. cbn [fst snd].
    destruct (N.lt_ge_cases (n * N.of_nat D) W) as [Hs|Hb].
    + rewrite overflowing_mul_small by exact Hs.
      destruct (N.leb_spec (N.of_nat (len (rv it))) (n * N.of_nat D)); [|lia].
      cbn [orb]. rewrite rows_next_empty. split; [reflexivity|]. split; [apply rows_R_empty|reflexivity].
    + pose proof (overflowing_mul_big n (N.of_nat D) Hb) as Ho.
      destruct (overflowing_mul n (N.of_nat D)) as [st ov]. cbn [snd] in Ho. subst ov.
      rewrite orb_true_r. rewrite rows_next_empty.
      split; [reflexivity|]. split; [apply rows_R_empty|reflexivity].
  - (* n < k *)
    destruct k as [|k]; [lia|]. destruct H as [Hc H].
    set (m := N.to_nat n). assert (Hm : m <= k) by lia.
    assert (Hprod : (n * N.of_nat D = N.of_nat (m * D))%N) by (subst m; lia).
    assert (HmD : m * D <= k * D) by (apply Nat.mul_le_mono_r; exact Hm).
    rewrite overflowing_mul_small by (rewrite Hprod; subst D; lia).
    rewrite Hprod.
    destruct (N.leb_spec (N.of_nat (len (rv it))) (N.of_nat (m * D))); [subst D; lia|].
    cbn [orb]. rewrite Nat2N.id.
    unfold split_at. destruct (Nat.leb_spec (m * D) (len (rv it))); [|lia].
    cbn [bind snd].
    set (it1 := rows_set it (mkSl (off (rv it) + m * D) (len (rv it) - m * D))).
    assert (HR1 : rows_R it1 (S (k - m))).
    { split; cbn [it1 rows_set rv rcols rskip len]; [lia|]. split; [exact Hc|].
      fold D. rewrite H. fold D. rewrite Nat.mul_sub_distr_r. lia. }
    assert (Hshift : rows_abs it1 (S (k - m)) = skipn m (rows_abs it (S k))).
    { apply list_ext; intros j.
      destruct (Nat.lt_ge_cases j (S (k - m))) as [Hj|Hj].
      - rewrite rows_abs_nth by exact Hj. rewrite nth_error_skipn, rows_abs_nth by lia.
        cbn [it1 rows_set rv rcols rskip off]. fold D. f_equal. f_equal. lia.
      - rewrite !nth_error_ge_None; auto.
        + rewrite skipn_length, rows_abs_length. lia.
        + rewrite rows_abs_length. lia. }
    destruct (rows_next_ok it1 (S (k - m)) HR1) as [it' [E [HR' Habs]]].
    rewrite Hshift in E, Habs.
    exists it', (S (k - m) - 1). split; [exact E|]. split; [exact HR'|exact Habs].
Qed.

(** nth_back, for every [n : N] *)
Lemma rows_nth_back_ok it k (n : N) :
  rows_R it k ->
  exists it' k', rows_nth_back it n = Ok (fst (i_nth_back n (rows_abs it k)), it') /\
                 rows_R it' k' /\ rows_abs it' k' = snd (i_nth_back n (rows_abs it k)).
Proof.
  intros HR. pose proof HR as [Hw H]. unfold rows_nth_back, i_nth_back. rewrite rows_abs_length.
  set (D := rcols it + rskip it).
  destruct (N.leb_spec (N.of_nat k) n) as [Hge|Hlt].
  - assert (Hlen : (N.of_nat (len (rv it)) <= n * N.of_nat D)%N).
    { destruct k as [|k]; [lia|]. destruct H as [Hc H]. subst D. nia. }
    exists (rows_set it sl_empty), 0. cbn [fst snd].
    destruct (N.lt_ge_cases (n * N.of_nat D) W) as [Hs|Hb].
    + rewrite overflowing_mul_small by exact Hs.
      destruct (N.leb_spec (N.of_nat (len (rv it))) (n * N.of_nat D)); [|lia].
      cbn [orb]. rewrite rows_next_back_empty.
      split; [reflexivity|]. split; [apply rows_R_empty|reflexivity].
    + pose proof (overflowing_mul_big n (N.of_nat D) Hb) as Ho.
      destruct (overflowing_mul n (N.of_nat D)) as [st ov]. cbn [snd] in Ho. subst ov.
      rewrite orb_true_r. rewrite rows_next_back_empty.
      split; [reflexivity|]. split; [apply rows_R_empty|reflexivity].
  - destruct k as [|k]; [lia|]. destruct H as [Hc H].
    set (m := N.to_nat n). assert (Hm : m <= k) by lia.
    assert (Hprod : (n * N.of_nat D = N.of_nat (m * D))%N) by (subst m; lia).
    assert (HmD : m * D <= k * D) by (apply Nat.mul_le_mono_r; exact Hm).
    rewrite overflowing_mul_small by (rewrite Hprod; subst D; lia).
    rewrite Hprod.
    destruct (N.leb_spec (N.of_nat (len (rv it))) (N.of_nat (m * D))); [subst D; lia|].
    cbn [orb]. rewrite Nat2N.id.
    unfold usub. destruct (Nat.leb_spec (m * D) (len (rv it))); [|lia]. cbn [bind].
    unfold get_to. destruct (Nat.leb_spec (len (rv it) - m * D) (len (rv it))); [|lia].
    cbn [bind].
    set (it1 := rows_set it (mkSl (off (rv it)) (len (rv it) - m * D))).
    assert (HR1 : rows_R it1 (S (k - m))).
    { split; cbn [it1 rows_set rv rcols rskip len]; [lia|]. split; [exact Hc|].
      fold D. rewrite H. fold D. rewrite Nat.mul_sub_distr_r. lia. }
    assert (Hshift : rows_abs it1 (S (k - m)) = firstn (S k - m) (rows_abs it (S k))).
    { apply list_ext; intros j. rewrite nth_error_firstn.
      destruct (Nat.ltb_spec j (S k - m)) as [Hj|Hj].
      - rewrite !rows_abs_nth by lia. reflexivity.
      - rewrite nth_error_ge_None; auto. rewrite rows_abs_length. lia. }
    destruct (rows_next_back_ok it1 (S (k - m)) HR1) as [it' [E [HR' Habs]]].
    rewrite Hshift in E, Habs.
    exists it', (S (k - m) - 1). split; [exact E|]. split; [exact HR'|exact Habs].
Qed.

(** * The simulation relation and the theorem for every call history *)
Definition rows_sim (it : rows_it) (l : list sl) : Prop :=
  exists k, rows_R it k /\ rows_abs it k = l.

Lemma rows_sim_next it l : rows_sim it l ->
  exists it', rows_next it = Ok (fst (i_next l), it') /\ rows_sim it' (snd (i_next l)).
Proof.
  intros [k [HR <-]]. destruct (rows_next_ok it k HR) as [it' [E [HR' Ha]]].
  exists it'. split; [exact E|]. exists (k - 1). split; assumption.
Qed.
Lemma rows_sim_next_back it l : rows_sim it l ->
  exists it', rows_next_back it = Ok (fst (i_next_back l), it') /\ rows_sim it' (snd (i_next_back l)).
Proof.
  intros [k [HR <-]]. destruct (rows_next_back_ok it k HR) as [it' [E [HR' Ha]]].
  exists it'. split; [exact E|]. exists (k - 1). split; assumption.
Qed.
Lemma rows_sim_nth it l n : rows_sim it l ->
  exists it', rows_nth it n = Ok (fst (i_nth n l), it') /\ rows_sim it' (snd (i_nth n l)).
Proof.
  intros [k [HR <-]]. destruct (rows_nth_ok it k n HR) as [it' [k' [E [HR' Ha]]]].
  exists it'. split; [exact E|]. exists k'. split; assumption.
Qed.
Lemma rows_sim_nth_back it l n : rows_sim it l ->
  exists it', rows_nth_back it n = Ok (fst (i_nth_back n l), it') /\ rows_sim it' (snd (i_nth_back n l)).
Proof.
  intros [k [HR <-]]. destruct (rows_nth_back_ok it k n HR) as [it' [k' [E [HR' Ha]]]].
  exists it'. split; [exact E|]. exists k'. split; assumption.
Qed.
Lemma rows_sim_len it l : rows_sim it l -> rows_len it = length l.
Proof. intros [k [HR <-]]. rewrite rows_abs_length. apply rows_len_ok. exact HR. Qed.

(** default fold / rfold (repeated next / next_back) collect the whole sequence *)
Lemma rows_collect_ok fuel : forall it l,
  rows_sim it l -> length l < fuel -> rows_collect fuel it = Ok l.
Proof.
  induction fuel as [|f IH]; intros it l Hs Hl; [lia|].
  cbn [rows_collect]. destruct (rows_sim_next it l Hs) as [it' [E Hs']].
  rewrite E. cbn [bind]. destruct l as [|x l]; cbn [i_next fst snd] in *.
  - reflexivity.
  - rewrite (IH it' l Hs') by (cbn in Hl; lia). reflexivity.
Qed.

Lemma rows_rcollect_ok fuel : forall it l,
  rows_sim it l -> length l < fuel -> rows_rcollect fuel it = Ok (rev l).
Proof.
  induction fuel as [|f IH]; intros it l Hs Hl; [lia|].
  cbn [rows_rcollect]. destruct (rows_sim_next_back it l Hs) as [it' [E Hs']].
  rewrite E. cbn [bind]. unfold i_next_back in *.
  destruct (rev l) as [|x rl] eqn:Er; cbn [fst snd] in *.
  - reflexivity.
  - rewrite (IH it' (rev rl) Hs').
    + rewrite rev_involutive. reflexivity.
    + rewrite rev_length. apply (f_equal (@length sl)) in Er. rewrite rev_length in Er.
      cbn [length] in Er. lia.
Qed.

Lemma rows_sim_len_le it l : rows_sim it l -> length l <= len (rv it).
Proof.
  intros [k [[_ H] <-]]. rewrite rows_abs_length. destruct k as [|k]; [lia|].
  destruct H as [Hc H]. rewrite H. nia.
Qed.

Lemma rows_fold_ok it l : rows_sim it l -> rows_fold it = Ok l.
Proof.
  intros Hs. apply rows_collect_ok; [exact Hs|]. pose proof (rows_sim_len_le it l Hs). lia.
Qed.
Lemma rows_rfold_ok it l : rows_sim it l -> rows_rfold it = Ok (rev l).
Proof.
  intros Hs. apply rows_rcollect_ok; [exact Hs|]. pose proof (rows_sim_len_le it l Hs). lia.
Qed.
