(** C15: translate_with_wrap is the stated bijection.
    Row states: during the cycle-leader loop every row of the receiver holds some original
    row rotated left by some amount; [Rep] ties a buffer to such a state. *)
From Coq Require Import Sorted.
From TD Require Import Base.Prelude Model.Iter Model.Flatten Model.View Model.Ops Spec.Ideal
  Proofs.ListLemmas Proofs.RowsSim Proofs.ColSim Proofs.ViewGeom Proofs.FlatSim Proofs.Frame
  Proofs.Access Proofs.OpsProofs Proofs.TranslateArith.

(** * one swap-with-rotate step on two disjoint row windows *)
Lemma rot_swap_ok (b : buf) (wb wx : sl) nc mid :
  len wb = nc -> len wx = nc -> mid < nc ->
  off wb + nc <= length b -> off wx + nc <= length b ->
  (off wb + nc <= off wx \/ off wx + nc <= off wb) ->
  exists b2,
    (b1 <- (if 0 <? mid then
              a <- get_to wb mid ;; k <- usub nc mid ;; c <- get_range wx k nc ;; swap_wins b a c
            else Ok b) ;;
     (if mid <? nc then
        a <- get_range wb mid nc ;; k <- usub nc mid ;; c <- get_to wx k ;; swap_wins b1 a c
      else Ok b1)) = Ok b2 /\
    length b2 = length b /\
    forall i, nth_error b2 i =
      if in_win wb i then nth_error b (off wx + wrap ((i - off wb) + wrap (nc - mid) nc) nc)
      else if in_win wx i then nth_error b (off wb + wrap ((i - off wx) + mid) nc)
      else nth_error b i.
Proof.
  intros Hlb Hlx Hmid Hb Hx Hd.
  assert (Hstep1 : exists b1,
            (if 0 <? mid then
               a <- get_to wb mid ;; k <- usub nc mid ;; c <- get_range wx k nc ;; swap_wins b a c
             else Ok b) = Ok b1 /\ length b1 = length b /\
            forall i, nth_error b1 i =
              if (0 <? mid) && in_win (mkSl (off wb) mid) i then nth_error b (off wx + (nc - mid) + (i - off wb))
              else if (0 <? mid) && in_win (mkSl (off wx + (nc - mid)) mid) i then nth_error b (off wb + (i - (off wx + (nc - mid))))
              else nth_error b i).
  { destruct (Nat.ltb_spec 0 mid) as [Hm|Hm].
    - unfold get_to, usub, get_range. rewrite Hlb, Hlx.
      destruct (Nat.leb_spec mid nc); [|lia]. cbn [bind].
      destruct (Nat.leb_spec mid nc); [|lia]. cbn [bind].
      destruct (Nat.leb_spec (nc - mid) nc); [|lia]. rewrite Nat.leb_refl. cbn [andb bind].
      replace (nc - (nc - mid)) with mid by lia.
      destruct (swap_wins_ok b (mkSl (off wb) mid) (mkSl (off wx + (nc - mid)) mid)) as [b1 [E [L1 N1]]];
        cbn [off len]; try lia.
      exists b1. split; [exact E|]. split; [exact L1|]. intros i. rewrite N1. cbn [off len andb]. reflexivity.
    - exists b. split; [reflexivity|]. split; [reflexivity|]. intros i. reflexivity. }
  destruct Hstep1 as [b1 [E1 [L1 N1]]]. rewrite E1. cbn [bind].
  destruct (Nat.ltb_spec mid nc); [|lia].
  unfold get_range, usub, get_to. rewrite Hlb, Hlx.
  destruct (Nat.leb_spec mid nc); [|lia]. rewrite Nat.leb_refl. cbn [andb bind].
  destruct (Nat.leb_spec (nc - mid) nc); [|lia]. cbn [bind].
  destruct (swap_wins_ok b1 (mkSl (off wb + mid) (nc - mid)) (mkSl (off wx) (nc - mid))) as [b2 [E2 [L2 N2]]];
    cbn [off len]; try lia.
  exists b2. split; [exact E2|]. split; [lia|].
  intros i. rewrite N2. cbn [off len]. rewrite !N1. unfold in_win, wrap. cbn [off len]. rewrite Hlb, Hlx.
  destruct (Nat.ltb_spec 0 mid); cbn [andb]; case_cmp; fin.
Qed.

(** the closing rotation of the base row *)
Lemma rotate_win_ok (b : buf) (w : sl) mid :
  mid < len w -> off w + len w <= length b ->
  exists b', rotate_win b w mid = Ok b' /\ length b' = length b /\
    forall i, nth_error b' i =
      if in_win w i then nth_error b (off w + wrap ((i - off w) + mid) (len w)) else nth_error b i.
Proof.
  intros Hm Hb. unfold rotate_win, assert. destruct (Nat.leb_spec mid (len w)); [|lia]. cbn [bind].
  rewrite (read_win_ok b w Hb). cbn [bind].
  assert (Hlen : length (rotate_left mid (slice (off w) (len w) b)) = len w).
  { unfold rotate_left. rewrite app_length, skipn_length, firstn_length, slice_length; lia. }
  destruct (write_win_ok b w (rotate_left mid (slice (off w) (len w) b)) Hb Hlen) as [b' [E [L Nn]]].
  exists b'. split; [exact E|]. split; [exact L|]. intros i. rewrite Nn.
  destruct (in_win w i) eqn:Ei; [|reflexivity].
  unfold in_win in Ei. apply Bool.andb_true_iff in Ei. destruct Ei as [E1 E2].
  apply Nat.leb_le in E1. apply Nat.ltb_lt in E2.
  unfold rotate_left, wrap. nth_rw. case_cmp; fin.
Qed.

(** * row states *)
Definition rstate := nat -> nat * nat.

Definition Rep (v : view) (b0 b : buf) (st : rstate) : Prop :=
  length b = length b0 /\
  (forall i, ~ in_view v i -> nth_error b i = nth_error b0 i) /\
  (forall c r, c < vcols v -> r < vrows v ->
     nth_error b (v_cell v c r) = nth_error b0 (v_cell v (wrap (c + snd (st r)) (vcols v)) (fst (st r)))) /\
  (forall r, r < vrows v -> fst (st r) < vrows v /\ snd (st r) < vcols v).

Lemma wrap_assoc c k r n : c < n -> k < n -> r < n ->
  wrap (wrap (c + k) n + r) n = wrap (c + wrap (r + k) n) n.
Proof. intros. unfold wrap. case_cmp; fin. Qed.

Definition st_swap (nc : nat) (st : rstate) (base next mid : nat) : rstate :=
  fun r => if r =? next then (fst (st base), wrap (snd (st base) + mid) nc)
           else if r =? base then (fst (st next), wrap (snd (st next) + wrap (nc - mid) nc) nc)
           else st r.
Definition st_close (nc : nat) (st : rstate) (base mid : nat) : rstate :=
  fun r => if r =? base then (fst (st base), wrap (snd (st base) + mid) nc) else st r.

Lemma bind_ok_inv {X Y} (r : res X) (k : X -> res Y) y :
  bind r k = Ok y -> exists x, r = Ok x /\ k x = Ok y.
Proof. destruct r as [x| |]; cbn [bind]; intros H; try discriminate. exists x. split; [reflexivity|exact H]. Qed.

Lemma step_swap v b0 b st base next mid :
  wf_view v -> fits v b0 -> Rep v b0 b st ->
  base < vrows v -> next < vrows v -> base <> next -> mid < vcols v ->
  op_row_pair v (N.of_nat base) (N.of_nat next) = Ok (row_win v base, row_win v next) /\
  exists b1 b2,
    (if 0 <? mid then
       a <- get_to (row_win v base) mid ;; k <- usub (vcols v) mid ;; c <- get_range (row_win v next) k (vcols v) ;;
       swap_wins b a c
     else Ok b) = Ok b1 /\
    (if mid <? vcols v then
       a <- get_range (row_win v base) mid (vcols v) ;; k <- usub (vcols v) mid ;; c <- get_to (row_win v next) k ;;
       swap_wins b1 a c
     else Ok b1) = Ok b2 /\
    Rep v b0 b2 (st_swap (vcols v) st base next mid).
Proof.
  intros Hwf Hb0 [HL [Hout [Hcell Hrange]]] Hbase Hnext Hne Hmid.
  split; [rewrite op_row_pair_spec by (try assumption; lia); rewrite !Nat2N.id; reflexivity|].
  assert (Hb : fits v b) by (unfold fits in *; lia).
  destruct (rot_swap_ok b (row_win v base) (row_win v next) (vcols v) mid) as [b2 [E [L2 N2]]];
    try reflexivity; try assumption.
  - apply row_win_fits; assumption.
  - apply row_win_fits; assumption.
  - destruct (Nat.lt_ge_cases base next).
    + left. apply (row_wins_disjoint v base next Hwf); assumption.
    + right. apply (row_wins_disjoint v next base Hwf); [lia|assumption].
  - apply bind_ok_inv in E. destruct E as [b1 [Eb1 Eb2]].
    exists b1, b2. split; [exact Eb1|]. split; [exact Eb2|]. split; [lia|]. split; [|split].
    + intros i Hi. rewrite N2.
      destruct (in_win (row_win v base) i) eqn:E1;
        [exfalso; apply Hi, in_view_row; exists base; split; assumption|].
      destruct (in_win (row_win v next) i) eqn:E2;
        [exfalso; apply Hi, in_view_row; exists next; split; assumption|]. apply Hout. exact Hi.
    + intros c r Hc Hr. rewrite N2. unfold st_swap.
      rewrite !in_row_cell by assumption.
      destruct (Hrange base Hbase) as [Hsb Hrb]. destruct (Hrange next Hnext) as [Hsx Hrx].
      assert (Hk : wrap (vcols v - mid) (vcols v) < vcols v) by (unfold wrap; case_cmp).
      destruct (Nat.eqb_spec base r) as [<-|Hnb].
      * destruct (Nat.eqb_spec base next); [contradiction|]. rewrite Nat.eqb_refl. cbn [fst snd].
        replace (v_cell v c base - off (row_win v base)) with c by (unfold v_cell; cbn [row_win off]; lia).
        replace (off (row_win v next) + wrap (c + wrap (vcols v - mid) (vcols v)) (vcols v))
          with (v_cell v (wrap (c + wrap (vcols v - mid) (vcols v)) (vcols v)) next)
          by (unfold v_cell; cbn [row_win off]; lia).
        rewrite Hcell by (try assumption; apply wrap_lt; lia).
        rewrite wrap_assoc by assumption. reflexivity.
      * destruct (Nat.eqb_spec next r) as [<-|Hnx].
        -- rewrite Nat.eqb_refl. cbn [fst snd].
           replace (v_cell v c next - off (row_win v next)) with c by (unfold v_cell; cbn [row_win off]; lia).
           replace (off (row_win v base) + wrap (c + mid) (vcols v))
             with (v_cell v (wrap (c + mid) (vcols v)) base) by (unfold v_cell; cbn [row_win off]; lia).
           rewrite Hcell by (try assumption; apply wrap_lt; lia).
           rewrite wrap_assoc by assumption. reflexivity.
        -- destruct (Nat.eqb_spec r next); [lia|]. destruct (Nat.eqb_spec r base); [lia|].
           apply Hcell; assumption.
    + intros r Hr. unfold st_swap.
      destruct (Hrange base Hbase) as [Hsb Hrb]. destruct (Hrange next Hnext) as [Hsx Hrx].
      destruct (Nat.eqb_spec r next); cbn [fst snd]; [split; [assumption|apply wrap_lt; lia]|].
      destruct (Nat.eqb_spec r base); cbn [fst snd]; [|apply Hrange; assumption].
      split; [assumption|]. apply wrap_lt; [|lia]. unfold wrap. case_cmp.
Qed.

Lemma step_close v b0 b st base mid :
  wf_view v -> fits v b0 -> Rep v b0 b st -> base < vrows v -> mid < vcols v ->
  exists b',
    (if 0 <? mid then w <- v_get_unchecked_row v base ;; rotate_win b w mid else Ok b) = Ok b' /\
    Rep v b0 b' (st_close (vcols v) st base mid).
Proof.
  intros Hwf Hb0 [HL [Hout [Hcell Hrange]]] Hbase Hmid.
  assert (Hb : fits v b) by (unfold fits in *; lia).
  destruct (Hrange base Hbase) as [Hsb Hrb].
  destruct (Nat.ltb_spec 0 mid) as [Hm|Hm].
  - rewrite (get_unchecked_row_in v Hwf base Hbase). cbn [bind]. fold (row_win v base).
    destruct (rotate_win_ok b (row_win v base) mid) as [b' [E [L Nn]]]; [exact Hmid| |].
    { cbn [row_win len]. apply row_win_fits; assumption. }
    exists b'. split; [exact E|]. split; [lia|]. split; [|split].
    + intros i Hi. rewrite Nn.
      destruct (in_win (row_win v base) i) eqn:E1;
        [exfalso; apply Hi, in_view_row; exists base; split; assumption|]. apply Hout. exact Hi.
    + intros c r Hc Hr. rewrite Nn. unfold st_close. rewrite in_row_cell by assumption.
      destruct (Nat.eqb_spec base r) as [<-|Hnb].
      * rewrite Nat.eqb_refl. cbn [fst snd row_win len].
        replace (v_cell v c base - off (row_win v base)) with c by (unfold v_cell; cbn [row_win off]; lia).
        replace (off (row_win v base) + wrap (c + mid) (vcols v))
          with (v_cell v (wrap (c + mid) (vcols v)) base) by (unfold v_cell; cbn [row_win off]; lia).
        rewrite Hcell by (try assumption; apply wrap_lt; lia).
        rewrite wrap_assoc by assumption. reflexivity.
      * destruct (Nat.eqb_spec r base); [lia|]. apply Hcell; assumption.
    + intros r Hr. unfold st_close. destruct (Nat.eqb_spec r base); cbn [fst snd]; [|apply Hrange; assumption].
      split; [assumption|apply wrap_lt; lia].
  - exists b. split; [reflexivity|]. assert (mid = 0) by lia. subst mid.
    split; [exact HL|]. split; [exact Hout|]. split.
    + intros c r Hc Hr. unfold st_close. rewrite Hcell by assumption.
      destruct (Nat.eqb_spec r base) as [->|]; [|reflexivity]. cbn [fst snd].
      rewrite Nat.add_0_r.
      replace (wrap (snd (st base)) (vcols v)) with (snd (st base)); [reflexivity|].
      unfold wrap. destruct (Nat.leb_spec (vcols v) (snd (st base))); [lia|reflexivity].
    + intros r Hr. unfold st_close. destruct (Nat.eqb_spec r base); cbn [fst snd]; [|apply Hrange; assumption].
      split; [assumption|]. rewrite Nat.add_0_r. unfold wrap. case_cmp.
Qed.

(** * the inner loop: one cycle of rows *)
Section Cycle.
Variable v : view.
Variable b0 : buf.
Hypothesis Hwf : wf_view v.
Hypothesis Hfit : fits v b0.
Let nc := vcols v.
Let R := vrows v.
Variables cm a : nat.
Hypothesis Hcm : cm < nc.
Hypothesis Ha : 0 < a < R.

Fixpoint m (j : nat) : nat := match j with 0 => 0 | S j' => wrap (m j' + cm) nc end.
Lemma m_lt j : m j < nc.
Proof. destruct j; cbn [m]; [lia|]. apply wrap_lt; [|lia]. assert (m j < nc) by (induction j; cbn [m]; [lia|apply wrap_lt; lia]). lia. Qed.

Lemma m_close j : wrap (wrap (nc - m j) nc + m (S j)) nc = cm.
Proof. pose proof (m_lt j). cbn [m]. unfold wrap. case_cmp; fin. Qed.

Lemma R_pos : 0 < R. Proof. lia. Qed.

Variable base : nat.
Hypothesis Hbase : base < R.

Notation P := (TranslateArith.p R a base).
Notation LL := (TranslateArith.L R a).

Definition Inv_in (j : nat) (st st0 : rstate) : Prop :=
  (forall i, 1 <= i <= j -> st (P i) = (P (i - 1), cm)) /\
  st (P 0) = (P j, wrap (nc - m j) nc) /\
  (forall r, (forall i, i <= j -> r <> P i) -> st r = st0 r).

Definition Fin (st' st0 : rstate) : Prop :=
  (forall i, 1 <= i < LL -> st' (P i) = (P (i - 1), cm)) /\
  st' (P 0) = (P (LL - 1), cm) /\
  (forall r, (forall i, i < LL -> r <> P i) -> st' r = st0 r).

Lemma inner_ok st0 : (forall i, i < LL -> st0 (P i) = (P i, 0)) ->
  forall k j fuel sc b st, j + k + 1 = LL -> k < fuel ->
  Rep v b0 b st -> Inv_in j st st0 ->
  exists b' st',
    translate_inner fuel v nc R cm a base (P j + a) (m (S j)) sc b = Ok (b', sc + k + 1) /\
    Rep v b0 b' st' /\ Fin st' st0.
Proof.
  intros Hst0. induction k as [|k IH]; intros j fuel sc b st HjL Hfuel HRep [I1 [I2 I3]].
  - (* the cycle closes: next is the base row again *)
    destruct fuel as [|fuel]; [lia|]. cbn [translate_inner].
    fold (wrap (P j + a) R). rewrite <- (p_S R a R_pos Ha base Hbase j).
    assert (HSj : P (S j) = base) by (replace (S j) with LL by lia; apply (p_L R a R_pos Ha base Hbase)).
    rewrite HSj, Nat.eqb_refl.
    destruct (step_close v b0 b st base (m (S j)) Hwf Hfit HRep Hbase (m_lt (S j))) as [b' [E HRep']].
    fold nc in E. rewrite E. cbn [bind].
    exists b', (st_close nc st base (m (S j))). split; [f_equal; f_equal; lia|]. split; [exact HRep'|].
    pose proof (p_0 R a base Hbase) as Hp0.
    split; [|split].
    + intros i Hi. unfold st_close.
      destruct (Nat.eqb_spec (P i) base) as [E0|_]; [exfalso; apply (p_not_base R a R_pos Ha base Hbase i); [lia|exact E0]|].
      apply I1. lia.
    + pose proof I2 as I2b. rewrite Hp0 in I2b.
      unfold st_close. rewrite Hp0, Nat.eqb_refl. rewrite I2b. cbn [fst snd].
      replace (LL - 1) with j by lia. f_equal. apply m_close.
    + intros r Hr. unfold st_close.
      destruct (Nat.eqb_spec r base) as [->|_]; [exfalso; apply (Hr 0); [pose proof (L_pos R a R_pos Ha); lia|symmetry; exact Hp0]|].
      apply I3. intros i Hi. apply Hr. lia.
  - (* a swap-with-rotate step *)
    destruct fuel as [|fuel]; [lia|]. cbn [translate_inner].
    fold (wrap (P j + a) R). rewrite <- (p_S R a R_pos Ha base Hbase j).
    pose proof (p_0 R a base Hbase) as Hp0.
    pose proof (p_lt R a R_pos Ha base Hbase (S j)) as Hnext.
    assert (Hnb : base <> P (S j)).
    { intros E0. apply (p_not_base R a R_pos Ha base Hbase (S j)); [lia|symmetry; exact E0]. }
    destruct (Nat.eqb_spec base (P (S j))); [contradiction|].
    destruct (step_swap v b0 b st base (P (S j)) (m (S j)) Hwf Hfit HRep Hbase Hnext Hnb (m_lt (S j)))
      as [Epair [b1 [b2 [E1 [E2 HRep2]]]]].
    rewrite Epair. cbn [bind]. fold nc in E1, E2. rewrite E1. cbn [bind]. rewrite E2. cbn [bind].
    fold (wrap (m (S j) + cm) nc). change (wrap (m (S j) + cm) nc) with (m (S (S j))).
    destruct (IH (S j) fuel (sc + 1) b2 (st_swap nc st base (P (S j)) (m (S j)))) as [b' [st' [E [HRep' HFin]]]];
      [lia|lia|exact HRep2| |].
    + (* the invariant after the step *)
      assert (Hinj : forall i, i <= j -> P i <> P (S j)).
      { intros i Hi E0. apply (p_inj R a R_pos Ha base Hbase) in E0; lia. }
      split; [|split].
      * intros i Hi. unfold st_swap.
        destruct (Nat.eq_dec i (S j)) as [->|Hne].
        -- pose proof I2 as I2b. rewrite Hp0 in I2b.
           rewrite Nat.eqb_refl. rewrite I2b. cbn [fst snd].
           replace (S j - 1) with j by lia. f_equal. apply m_close.
        -- destruct (Nat.eqb_spec (P i) (P (S j))) as [E0|_]; [exfalso; apply (Hinj i); [lia|exact E0]|].
           destruct (Nat.eqb_spec (P i) base) as [E0|_];
             [exfalso; apply (p_not_base R a R_pos Ha base Hbase i); [lia|exact E0]|].
           apply I1. lia.
      * unfold st_swap. rewrite Hp0.
        destruct (Nat.eqb_spec base (P (S j))); [contradiction|]. rewrite Nat.eqb_refl.
        rewrite (I3 (P (S j))) by (intros i Hi E0; apply (Hinj i Hi); symmetry; exact E0).
        rewrite Hst0 by lia. cbn [fst snd]. f_equal.
        pose proof (m_lt (S j)). unfold wrap. case_cmp; fin.
      * intros r Hr. unfold st_swap.
        destruct (Nat.eqb_spec r (P (S j))) as [->|_]; [exfalso; apply (Hr (S j)); [lia|reflexivity]|].
        destruct (Nat.eqb_spec r base) as [->|_]; [exfalso; apply (Hr 0); [lia|symmetry; exact Hp0]|].
        apply I3. intros i Hi. apply Hr. lia.
    + exists b', st'. split; [rewrite E; f_equal; f_equal; lia|]. split; [exact HRep'|exact HFin].
Qed.

End Cycle.

(** * the outer loop: one cycle per residue class modulo gcd(R, adj) *)
Lemma map_NoDup_in_local {X Y} (f : X -> Y) (l : list X) :
  (forall x y, In x l -> In y l -> f x = f y -> x = y) -> NoDup l -> NoDup (map f l).
Proof.
  intros Hinj H. induction H as [|x l Hx _ IH]; cbn [map]; constructor.
  - intros Hin. apply in_map_iff in Hin. destruct Hin as [y [E Hy]].
    assert (y = x) by (apply Hinj; [right; exact Hy|left; reflexivity|exact E]). subst. contradiction.
  - apply IH. intros a b Ha Hb. apply Hinj; right; assumption.
Qed.

Lemma NoDup_app_intro_local {X} (l1 l2 : list X) :
  NoDup l1 -> NoDup l2 -> (forall x, In x l1 -> In x l2 -> False) -> NoDup (l1 ++ l2).
Proof.
  induction l1 as [|x l1 IH]; intros H1 H2 Hd; [exact H2|].
  inversion H1 as [|? ? Hx H1']; subst. cbn [app]. constructor.
  - intros Hin. apply in_app_or in Hin. destruct Hin as [Hin|Hin]; [contradiction|].
    apply (Hd x); [left; reflexivity|exact Hin].
  - apply IH; [exact H1'|exact H2|]. intros y Hy1 Hy2. apply (Hd y); [right; exact Hy1|exact Hy2].
Qed.

Lemma wrap_back x a R : x < R -> 0 < a < R -> wrap (wrap (x + a) R + (R - a)) R = x.
Proof. intros. unfold wrap. case_cmp; fin. Qed.

Lemma Rep_ext v b0 b st st' : (forall r, r < vrows v -> st r = st' r) -> Rep v b0 b st -> Rep v b0 b st'.
Proof.
  intros H [HL [Hout [Hcell Hrange]]]. split; [exact HL|]. split; [exact Hout|]. split.
  - intros c r Hc Hr. rewrite <- (H r Hr). apply Hcell; assumption.
  - intros r Hr. rewrite <- (H r Hr). apply Hrange; assumption.
Qed.

Section Outer.
Variable v : view.
Variable b0 : buf.
Hypothesis Hwf : wf_view v.
Hypothesis Hfit : fits v b0.
Let nc := vcols v.
Let R := vrows v.
Variables cm a : nat.
Hypothesis Hcm : cm < nc.
Hypothesis Ha : 0 < a < R.

Notation GG := (TranslateArith.g R a).
Notation LL := (TranslateArith.L R a).

Definition tgt : rstate := fun r => (wrap (r + (R - a)) R, cm).

Definition OInv (base : nat) (st : rstate) (D : list nat) : Prop :=
  NoDup D /\ length D = base * LL /\
  (forall r, In r D -> r < R /\ r mod GG < base /\ st r = tgt r) /\
  (forall r, r < R -> ~ In r D -> st r = (r, 0)).

Lemma HR_pos : 0 < R. Proof. lia. Qed.

Lemma outer_ok : forall n base fuel b st D,
  n = GG - base -> base < GG -> n <= fuel ->
  Rep v b0 b st -> OInv base st D ->
  exists b', translate_outer fuel v nc R cm a base (base * LL) b = Ok b' /\ Rep v b0 b' tgt.
Proof.
  pose proof (L_pos R a HR_pos Ha) as HL. pose proof (g_pos R a HR_pos Ha) as Hg.
  destruct (L_facts R a HR_pos Ha) as [HLR [Hlt [Hend Hgr]]].
  induction n as [|n IH]; intros base fuel b st D Hn Hbg Hfuel HRep [HND [HlenD [HD HnotD]]]; [lia|].
  destruct fuel as [|fuel]; [lia|]. cbn [translate_outer].
  assert (Hbase : base < R) by (apply Hgr; exact Hbg).
  pose proof (Hlt base Hbg) as Hsc.
  destruct (Nat.ltb_spec (base * LL) R); [|lia].
  pose proof (p_0 R a base Hbase) as Hp0.
  (* the rows of this cycle are still untouched *)
  assert (Hfresh : forall i, ~ In (TranslateArith.p R a base i) D).
  { intros i Hin. destruct (HD _ Hin) as [_ [Hres _]].
    rewrite (p_residue R a HR_pos Ha base Hbase i), Nat.mod_small in Hres by lia. lia. }
  assert (Hst0 : forall i, i < LL -> st (TranslateArith.p R a base i) = (TranslateArith.p R a base i, 0)).
  { intros i _. apply HnotD; [apply (p_lt R a HR_pos Ha base Hbase)|apply Hfresh]. }
  destruct (inner_ok v b0 Hwf Hfit cm a Hcm Ha base Hbase st Hst0 (LL - 1) 0 (S R) (base * LL) b st)
    as [b1 [st1 [E [HRep1 [F1 [F2 F3]]]]]]; [fold R; lia|lia|exact HRep| |].
  { split; [intros i Hi; lia|]. split.
    - fold R nc. rewrite (Hst0 0 HL). f_equal. cbn [m]. unfold wrap. rewrite Nat.sub_0_r, Nat.leb_refl. lia.
    - intros r _. reflexivity. }
  fold nc R in E, F1, F2, F3.
  replace (TranslateArith.p R a base 0 + a) with (base + a) in E by (rewrite Hp0; reflexivity).
  assert (Hm1 : m v cm 1 = cm).
  { cbn [m]. unfold wrap. fold nc. destruct (Nat.leb_spec nc (0 + cm)); lia. }
  rewrite Hm1 in E. rewrite E. cbn [bind].
  replace (base * LL + (LL - 1) + 1) with (S base * LL) by (cbn [Nat.mul]; lia).
  (* all rows of the cycle now hold their final content *)
  assert (Hcyc : forall i, i < LL -> st1 (TranslateArith.p R a base i) = tgt (TranslateArith.p R a base i)).
  { intros i Hi. unfold tgt. destruct i as [|i].
    - rewrite F2. f_equal.
      rewrite Hp0. rewrite <- (p_L R a HR_pos Ha base Hbase) at 2.
      replace LL with (S (LL - 1)) at 2 by lia. rewrite (p_S R a HR_pos Ha base Hbase).
      rewrite wrap_back; [reflexivity|apply (p_lt R a HR_pos Ha base Hbase)|exact Ha].
    - rewrite F1 by lia. f_equal. rewrite (p_S R a HR_pos Ha base Hbase).
      replace (S i - 1) with i by lia.
      rewrite wrap_back; [reflexivity|apply (p_lt R a HR_pos Ha base Hbase)|exact Ha]. }
  set (D1 := D ++ map (TranslateArith.p R a base) (seq 0 LL)).
  assert (HO1 : OInv (S base) st1 D1).
  { split; [|split; [|split]].
    - apply NoDup_app_intro_local.
      + exact HND.
      + apply map_NoDup_in_local; [|apply seq_NoDup].
        intros x y Hx Hy Hxy. apply in_seq in Hx, Hy.
        apply (p_inj R a HR_pos Ha base Hbase); [lia|lia|exact Hxy].
      + intros x Hx Hx2. apply in_map_iff in Hx2. destruct Hx2 as [i [<- _]]. apply (Hfresh i Hx).
    - unfold D1. rewrite app_length, map_length, seq_length, HlenD. lia.
    - intros r Hr. unfold D1 in Hr. apply in_app_or in Hr. destruct Hr as [Hr|Hr].
      + destruct (HD r Hr) as [H1 [H2 H3]]. split; [exact H1|]. split; [lia|].
        rewrite F3; [exact H3|]. intros i Hi E0. subst r. apply (Hfresh i Hr).
      + apply in_map_iff in Hr. destruct Hr as [i [<- Hi]]. apply in_seq in Hi.
        split; [apply (p_lt R a HR_pos Ha base Hbase)|]. split.
        * rewrite (p_residue R a HR_pos Ha base Hbase i), Nat.mod_small by lia. lia.
        * apply Hcyc. lia.
    - intros r Hr Hnin. rewrite F3.
      + apply HnotD; [exact Hr|]. intros Hin. apply Hnin. unfold D1. apply in_or_app. left. exact Hin.
      + intros i Hi E0. apply Hnin. unfold D1. apply in_or_app. right. apply in_map_iff.
        exists i. split; [symmetry; exact E0|apply in_seq; lia]. }
  destruct (Nat.leb_spec R (S base * LL)) as [Hdone|Hmore].
  - (* every row has been placed *)
    exists b1. split; [reflexivity|]. apply (Rep_ext v b0 b1 st1); [|exact HRep1].
    intros r Hr. destruct HO1 as [HND1 [Hlen1 [HD1 _]]].
    assert (Hin : In r D1).
    { apply (NoDup_length_incl HND1 (l' := seq 0 R)).
      - rewrite seq_length, Hlen1. exact Hdone.
      - intros x Hx. apply in_seq. destruct (HD1 x Hx). lia.
      - apply in_seq. lia. }
    apply (HD1 r Hin).
  - assert (S base < GG).
    { destruct (Nat.eq_dec (S base) GG) as [E0|]; [|lia]. exfalso.
      pose proof (R_eq R a HR_pos Ha) as HRe. rewrite <- E0 in HRe. lia. }
    destruct (IH (S base) fuel b1 st1 D1) as [b' [E' HRep']]; [lia|lia|lia|exact HRep1|exact HO1|].
    exists b'. split; [rewrite Nat.add_1_r; exact E'|exact HRep'].
Qed.

End Outer.

(** * translate_with_wrap *)
Lemma Rep_init v b : wf_view v -> Rep v b b (fun r => (r, 0)).
Proof.
  intros Hwf. split; [reflexivity|]. split; [reflexivity|]. split.
  - intros c r Hc Hr. cbn [fst snd]. rewrite Nat.add_0_r. unfold wrap.
    destruct (Nat.leb_spec (vcols v) c); [lia|reflexivity].
  - intros r Hr. cbn [fst snd]. split; [exact Hr|]. destruct Hwf as [_ H]. destruct (vrows v); [lia|]. lia.
Qed.

Theorem op_translate_spec v b (mc mr : N) : wf_view v -> fits v b ->
  (mc <= N.of_nat (vcols v))%N -> (mr <= N.of_nat (vrows v))%N ->
  exists b', op_translate v b mc mr = Ok b' /\ length b' = length b /\
    (forall i, ~ in_view v i -> nth_error b' i = nth_error b i) /\
    (forall c r, c < vcols v -> r < vrows v ->
       nth_error b' (v_cell v c r)
       = nth_error b (v_cell v ((c + N.to_nat mc) mod vcols v) ((r + N.to_nat mr) mod vrows v))).
Proof.
  intros Hwf Hb Hmc Hmr. unfold op_translate, assert.
  destruct (N.leb_spec mc (N.of_nat (vcols v))); [|lia].
  destruct (N.leb_spec mr (N.of_nat (vrows v))); [|lia]. cbn [bind].
  set (nc := vcols v). set (nr := vrows v).
  set (cmid := if (mc =? N.of_nat nc)%N then 0 else N.to_nat mc).
  set (rmid := if (mr =? N.of_nat nr)%N then 0 else N.to_nat mr).
  assert (Hcmod : forall c, c < nc -> (c + N.to_nat mc) mod nc = wrap (c + cmid) nc).
  { intros c Hc. subst cmid. destruct (N.eqb_spec mc (N.of_nat nc)) as [->|Hne].
    - rewrite Nat2N.id. replace (c + nc) with (c + 1 * nc) by lia. rewrite Nat.mod_add by lia.
      rewrite Nat.mod_small by lia. unfold wrap. rewrite Nat.add_0_r. destruct (Nat.leb_spec nc c); [lia|reflexivity].
    - symmetry. apply wrap_mod; lia. }
  assert (Hrmod : forall r, r < nr -> (r + N.to_nat mr) mod nr = wrap (r + rmid) nr).
  { intros r Hr. subst rmid. destruct (N.eqb_spec mr (N.of_nat nr)) as [->|Hne].
    - rewrite Nat2N.id. replace (r + nr) with (r + 1 * nr) by lia. rewrite Nat.mod_add by lia.
      rewrite Nat.mod_small by lia. unfold wrap. rewrite Nat.add_0_r. destruct (Nat.leb_spec nr r); [lia|reflexivity].
    - symmetry. apply wrap_mod; lia. }
  assert (Hcm : cmid = 0 \/ cmid < nc).
  { subst cmid. destruct (N.eqb_spec mc (N.of_nat nc)); lia. }
  assert (Hrm : rmid = 0 \/ rmid < nr).
  { subst rmid. destruct (N.eqb_spec mr (N.of_nat nr)); lia. }
  destruct (Nat.eqb_spec rmid 0) as [Er0|Ernz].
  - (* no row shift *)
    assert (Hrid : forall r, r < nr -> wrap (r + rmid) nr = r).
    { intros r Hr. rewrite Er0, Nat.add_0_r. unfold wrap. destruct (Nat.leb_spec nr r); [lia|reflexivity]. }
    destruct (Nat.eqb_spec cmid 0) as [Ec0|Ecnz]; cbn [negb].
    + exists b. split; [reflexivity|]. split; [reflexivity|]. split; [reflexivity|].
      intros c r Hc Hr. fold nc nr. rewrite Hcmod, Hrmod, Hrid by assumption.
      rewrite Ec0, Nat.add_0_r. unfold wrap. destruct (Nat.leb_spec nc c); [lia|reflexivity].
    + rewrite (all_rows_ok v Hwf). cbn [bind].
      destruct (view_for_rows (fun b w => rotate_win b w cmid)
                  (fun row c => nth_error row (wrap (c + cmid) nc)) v) with (b := b)
        as [b' [E [L [Nout Nin]]]]; [|exact Hwf|exact Hb|].
      * intros b1 w Hw Hl.
        destruct (rotate_win_ok b1 w cmid) as [b2 [E2 [L2 N2]]]; [fold nc in Hl; lia|exact Hw|].
        exists b2. split; [exact E2|]. split; [exact L2|]. intros i. rewrite N2.
        destruct (in_win w i) eqn:Ei; [|reflexivity].
        unfold in_win in Ei. apply Bool.andb_true_iff in Ei. destruct Ei as [E1 E3].
        apply Nat.leb_le in E1. apply Nat.ltb_lt in E3.
        rewrite nth_error_slice. fold nc in Hl. rewrite Hl.
        assert (wrap (i - off w + cmid) nc < nc) by (apply wrap_lt; lia).
        destruct (Nat.ltb_spec (wrap (i - off w + cmid) nc) nc); [reflexivity|lia].
      * exists b'. split; [exact E|]. split; [exact L|]. split; [exact Nout|].
        intros c r Hc Hr. rewrite (Nin c r Hc Hr). fold nc nr. rewrite Hcmod, Hrmod, Hrid by assumption.
        apply row_of_nth. apply wrap_lt; lia.
  - (* the cycle-leader loop *)
    assert (Hnr : 0 < nr) by lia. assert (Hrmid : 0 < rmid < nr) by lia.
    assert (Hnc : 0 < nc). { destruct Hwf as [_ Hshape]. fold nr nc in Hshape. destruct nr; [lia|]. lia. }
    assert (Hcm' : cmid < nc) by lia.
    assert (Ha : 0 < nr - rmid < nr) by lia.
    pose proof (g_pos nr (nr - rmid) Hnr Ha) as Hg.
    destruct (L_facts nr (nr - rmid) Hnr Ha) as [_ [_ [_ Hgr]]].
    assert (Hgle : TranslateArith.g nr (nr - rmid) <= nr).
    { pose proof (Hgr (TranslateArith.g nr (nr - rmid) - 1)). lia. }
    destruct (outer_ok v b Hwf Hb cmid (nr - rmid) Hcm' Ha (TranslateArith.g nr (nr - rmid)) 0 (S nr) b
                (fun r => (r, 0)) []) as [b' [E [HL [Hout [Hcell _]]]]];
      [fold nr; lia|fold nr; exact Hg|fold nr; lia|apply Rep_init; exact Hwf| |].
    { split; [constructor|]. split; [reflexivity|]. split; [intros r []|]. intros r _ _. reflexivity. }
    cbn [Nat.mul] in E. fold nc nr in E.
    exists b'. split; [exact E|]. split; [exact HL|]. split; [exact Hout|].
    intros c r Hc Hr. rewrite (Hcell c r Hc Hr). unfold tgt. cbn [fst snd]. fold nc nr.
    rewrite Hcmod, Hrmod by assumption. replace (nr - (nr - rmid)) with rmid by lia. reflexivity.
Qed.

Theorem op_translate_reject v b (mc mr : N) :
  (N.of_nat (vcols v) < mc)%N \/ (N.of_nat (vrows v) < mr)%N -> op_translate v b mc mr = Panic.
Proof.
  intros H. unfold op_translate, assert.
  destruct (N.leb_spec mc (N.of_nat (vcols v))); cbn [bind]; [|reflexivity].
  destruct (N.leb_spec mr (N.of_nat (vrows v))); cbn [bind]; [lia|reflexivity].
Qed.
