(** The binary-number iterator / view model (Model/BigIter.v) computes exactly what the
    unary model computes: for every state and argument, mapping the binary result into
    unary numbers gives the unary model's result (same Ok / Panic / UB class, same yielded
    window, same successor state).  No size bound: the statements hold for every [N]. *)
From TD Require Import Base.Prelude Model.Iter Model.View Model.BigIter.

Lemma leb_ref a b : (N.to_nat a <=? N.to_nat b) = (a <=? b)%N.
Proof. destruct (Nat.leb_spec (N.to_nat a) (N.to_nat b)); destruct (N.leb_spec a b); try reflexivity; lia. Qed.
Lemma ltb_ref a b : (N.to_nat a <? N.to_nat b) = (a <? b)%N.
Proof. destruct (Nat.ltb_spec (N.to_nat a) (N.to_nat b)); destruct (N.ltb_spec a b); try reflexivity; lia. Qed.
Lemma eqb_ref a b : (N.to_nat a =? N.to_nat b) = (a =? b)%N.
Proof. destruct (Nat.eqb_spec (N.to_nat a) (N.to_nat b)); destruct (N.eqb_spec a b); try reflexivity; lia. Qed.
Lemma eqb0_ref a : (N.to_nat a =? 0) = (a =? 0)%N.
Proof. change 0 with (N.to_nat 0%N). apply eqb_ref. Qed.

Lemma rmap_bind {X Y X' Y'} (g : X -> X') (f : Y -> Y') (r : res X) (r' : res X')
  (k : X -> res Y) (k' : X' -> res Y') :
  rmap g r = r' -> (forall x, rmap f (k x) = k' (g x)) -> rmap f (bind r k) = bind r' k'.
Proof. intros <- Hk. destruct r; cbn; [apply Hk|reflexivity|reflexivity]. Qed.

Lemma rmap_assert {Y Y'} (f : Y -> Y') b (k : unit -> res Y) (k' : unit -> res Y') :
  rmap f (k tt) = k' tt -> rmap f (bind (assert b) k) = bind (assert b) k'.
Proof. intros H. destruct b; cbn; [exact H|reflexivity]. Qed.

(** * windows *)
Lemma sl_empty_ref : sl_of bsl_empty = sl_empty.
Proof. reflexivity. Qed.
Lemma is_empty_ref s : sl_is_empty (sl_of s) = bsl_is_empty s.
Proof. unfold sl_is_empty, bsl_is_empty, sl_of. cbn [len]. apply eqb0_ref. Qed.

Lemma split_at_ref s k :
  rmap (fun p => (sl_of (fst p), sl_of (snd p))) (bsplit_at s k) = split_at (sl_of s) (N.to_nat k).
Proof.
  unfold bsplit_at, split_at, sl_of. cbn [len off]. rewrite leb_ref.
  destruct (N.leb_spec k (blen s)); cbn; [|reflexivity].
  rewrite N2Nat.inj_add, N2Nat.inj_sub. reflexivity.
Qed.
Lemma get_from_ref s a : rmap sl_of (bget_from s a) = get_from (sl_of s) (N.to_nat a).
Proof.
  unfold bget_from, get_from, sl_of. cbn [len off]. rewrite leb_ref.
  destruct (N.leb_spec a (blen s)); cbn; [|reflexivity]. rewrite N2Nat.inj_add, N2Nat.inj_sub. reflexivity.
Qed.
Lemma get_to_ref s b : rmap sl_of (bget_to s b) = get_to (sl_of s) (N.to_nat b).
Proof.
  unfold bget_to, get_to, sl_of. cbn [len off]. rewrite leb_ref.
  destruct (N.leb_spec b (blen s)); cbn; reflexivity.
Qed.
Lemma get_range_ref s a b : rmap sl_of (bget_range s a b) = get_range (sl_of s) (N.to_nat a) (N.to_nat b).
Proof.
  unfold bget_range, get_range, sl_of. cbn [len off]. rewrite !leb_ref.
  destruct ((a <=? b)%N && (b <=? blen s)%N); cbn; [|reflexivity].
  rewrite N2Nat.inj_add, N2Nat.inj_sub. reflexivity.
Qed.
Lemma index_range_ref s a b : rmap sl_of (bindex_range s a b) = index_range (sl_of s) (N.to_nat a) (N.to_nat b).
Proof.
  unfold bindex_range, index_range, sl_of. cbn [len off]. rewrite !leb_ref.
  destruct ((a <=? b)%N && (b <=? blen s)%N); cbn; [|reflexivity].
  rewrite N2Nat.inj_add, N2Nat.inj_sub. reflexivity.
Qed.
Lemma usub_ref a b : rmap N.to_nat (busub a b) = usub (N.to_nat a) (N.to_nat b).
Proof.
  unfold busub, usub. rewrite leb_ref. destruct (N.leb_spec b a); cbn; [|reflexivity].
  rewrite N2Nat.inj_sub. reflexivity.
Qed.

(** * rows *)
Definition rows_res (p : option bsl * brows) : option sl * rows_it :=
  (option_map sl_of (fst p), rows_of (snd p)).

Lemma rows_set_ref it v : rows_of (brows_set it v) = rows_set (rows_of it) (sl_of v).
Proof. reflexivity. Qed.

Theorem rows_next_ref it : rmap rows_res (brows_next it) = rows_next (rows_of it).
Proof.
  unfold brows_next, rows_next. cbn [rows_of rv rcols rskip]. rewrite is_empty_ref.
  destruct (bsl_is_empty (brv it)); [reflexivity|].
  eapply rmap_bind; [apply split_at_ref|]. intros [f s]. cbn [fst snd].
  rewrite is_empty_ref. destruct (bsl_is_empty s); [reflexivity|].
  eapply rmap_bind; [apply get_from_ref|]. intros v'. reflexivity.
Qed.

Theorem rows_len_ref it : N.to_nat (brows_len it) = rows_len (rows_of it).
Proof.
  unfold brows_len, rows_len. cbn [rows_of rv rcols rskip sl_of len]. rewrite eqb0_ref.
  destruct (N.eqb_spec (brcols it) 0) as [|Hc]; [reflexivity|].
  rewrite N2Nat.inj_add, !N2Nat.inj_div, N2Nat.inj_mod, N2Nat.inj_add. reflexivity.
Qed.

Lemma of_nat_sum a b : N.of_nat (N.to_nat a + N.to_nat b) = (a + b)%N.
Proof. lia. Qed.

Theorem rows_nth_ref it n : rmap rows_res (brows_nth it n) = rows_nth (rows_of it) n.
Proof.
  unfold brows_nth, rows_nth. cbn [rows_of rv rcols rskip sl_of len]. rewrite of_nat_sum, N2Nat.id.
  destruct (overflowing_mul n (brcols it + brskip it)) as [start ov].
  destruct ((blen (brv it) <=? start)%N || ov).
  - apply (rows_next_ref (brows_set it bsl_empty)).
  - eapply rmap_bind; [apply split_at_ref|]. intros [f s]. cbn [fst snd].
    apply (rows_next_ref (brows_set it s)).
Qed.

Theorem rows_next_back_ref it : rmap rows_res (brows_next_back it) = rows_next_back (rows_of it).
Proof.
  unfold brows_next_back, rows_next_back. cbn [rows_of rv rcols rskip]. rewrite is_empty_ref.
  destruct (bsl_is_empty (brv it)); [reflexivity|].
  eapply rmap_bind; [apply (usub_ref (blen (brv it)) (brcols it))|]. intros k.
  eapply rmap_bind; [apply split_at_ref|]. intros [f s]. cbn [fst snd].
  rewrite is_empty_ref. destruct (bsl_is_empty f); [reflexivity|].
  eapply rmap_bind; [apply (usub_ref (blen f) (brskip it))|]. intros k2.
  eapply rmap_bind; [apply get_to_ref|]. intros v'. reflexivity.
Qed.

Theorem rows_nth_back_ref it n : rmap rows_res (brows_nth_back it n) = rows_nth_back (rows_of it) n.
Proof.
  unfold brows_nth_back, rows_nth_back. cbn [rows_of rv rcols rskip sl_of len]. rewrite of_nat_sum, N2Nat.id.
  destruct (overflowing_mul n (brcols it + brskip it)) as [adj ov].
  destruct ((blen (brv it) <=? adj)%N || ov).
  - apply (rows_next_back_ref (brows_set it bsl_empty)).
  - eapply rmap_bind; [apply (usub_ref (blen (brv it)) adj)|]. intros k.
    eapply rmap_bind; [apply (get_to_ref (brv it))|]. intros v'.
    apply (rows_next_back_ref (brows_set it v')).
Qed.

(** * columns *)
Definition col_res (p : option N * bcol) : option nat * col_it :=
  (option_map N.to_nat (fst p), col_of (snd p)).

Theorem col_next_ref it : rmap col_res (bcol_next it) = col_next (col_of it).
Proof.
  unfold bcol_next, col_next. cbn [col_of cv cskip]. rewrite is_empty_ref.
  destruct (bsl_is_empty (bcv it)) eqn:He; [reflexivity|].
  unfold bsl_is_empty in He. apply N.eqb_neq in He.
  assert (Hs : sl_of (mkBsl (boff (bcv it) + 1) (blen (bcv it) - 1))
               = mkSl (off (sl_of (bcv it)) + 1) (len (sl_of (bcv it)) - 1)).
  { unfold sl_of. cbn [boff blen off len]. f_equal; lia. }
  rewrite <- Hs, is_empty_ref.
  destruct (bsl_is_empty (mkBsl (boff (bcv it) + 1) (blen (bcv it) - 1))); [reflexivity|].
  eapply rmap_bind; [apply get_from_ref|]. intros v'. reflexivity.
Qed.

Theorem col_len_ref it : N.to_nat (bcol_len it) = col_len (col_of it).
Proof.
  unfold bcol_len, col_len. cbn [col_of cv cskip sl_of len].
  rewrite N2Nat.inj_add, N2Nat.inj_div, N2Nat.inj_mod, N2Nat.inj_add. reflexivity.
Qed.

Lemma of_nat_1sum b : N.of_nat (1 + N.to_nat b) = (1 + b)%N.
Proof. lia. Qed.

Theorem col_nth_ref it n : rmap col_res (bcol_nth it n) = col_nth (col_of it) n.
Proof.
  unfold bcol_nth, col_nth. cbn [col_of cv cskip sl_of len]. rewrite of_nat_1sum, N2Nat.id.
  destruct (overflowing_mul n (1 + bcskip it)) as [start ov].
  destruct ((blen (bcv it) <=? start)%N || ov).
  - apply (col_next_ref (bcol_set it bsl_empty)).
  - eapply rmap_bind; [apply split_at_ref|]. intros [f s]. cbn [fst snd].
    apply (col_next_ref (bcol_set it s)).
Qed.

Theorem col_next_back_ref it : rmap col_res (bcol_next_back it) = col_next_back (col_of it).
Proof.
  unfold bcol_next_back, col_next_back. cbn [col_of cv cskip]. rewrite is_empty_ref.
  destruct (bsl_is_empty (bcv it)) eqn:He; [reflexivity|].
  unfold bsl_is_empty in He. apply N.eqb_neq in He.
  assert (Hs : sl_of (mkBsl (boff (bcv it)) (blen (bcv it) - 1))
               = mkSl (off (sl_of (bcv it))) (len (sl_of (bcv it)) - 1)).
  { unfold sl_of. cbn [boff blen off len]. f_equal; lia. }
  assert (Hl : N.to_nat (boff (bcv it) + (blen (bcv it) - 1))
               = off (sl_of (bcv it)) + (len (sl_of (bcv it)) - 1)).
  { unfold sl_of. cbn [off len]. lia. }
  rewrite <- Hs, <- Hl, is_empty_ref.
  destruct (bsl_is_empty (mkBsl (boff (bcv it)) (blen (bcv it) - 1))); [reflexivity|].
  eapply rmap_bind; [apply (usub_ref (blen (mkBsl (boff (bcv it)) (blen (bcv it) - 1))) (bcskip it))|]. intros k.
  eapply rmap_bind; [apply get_to_ref|]. intros v'. reflexivity.
Qed.

Theorem col_nth_back_ref it n : rmap col_res (bcol_nth_back it n) = col_nth_back (col_of it) n.
Proof.
  unfold bcol_nth_back, col_nth_back. cbn [col_of cv cskip sl_of len]. rewrite of_nat_1sum, N2Nat.id.
  destruct (overflowing_mul n (1 + bcskip it)) as [adj ov].
  destruct ((blen (bcv it) <=? adj)%N || ov).
  - apply (col_next_back_ref (bcol_set it bsl_empty)).
  - eapply rmap_bind; [apply (usub_ref (blen (bcv it)) adj)|]. intros k.
    eapply rmap_bind; [apply (get_to_ref (bcv it))|]. intros v'.
    apply (col_next_back_ref (bcol_set it v')).
Qed.

Theorem col_index_ref it idx : rmap N.to_nat (bcol_index it idx) = col_index (col_of it) idx.
Proof.
  unfold bcol_index, col_index. cbn [col_of cv cskip sl_of len off]. rewrite of_nat_1sum, N2Nat.id.
  destruct (checked_mul idx (1 + bcskip it)) as [pos|]; [|reflexivity].
  destruct (N.ltb_spec pos (blen (bcv it))); cbn; [|reflexivity]. rewrite N2Nat.inj_add. reflexivity.
Qed.

(** * views *)
Definition dims_res (d : N * N * N * N) : nat * nat * nat * nat :=
  let '(a, b, c, e) := d in (N.to_nat a, N.to_nat b, N.to_nat c, N.to_nat e).

Lemma calc_view_dims_ref s0 s1 e0 e1 cols rows stride :
  rmap dims_res (bcalc_view_dims s0 s1 e0 e1 cols rows stride)
  = calc_view_dims s0 s1 e0 e1 (N.to_nat cols) (N.to_nat rows) (N.to_nat stride).
Proof.
  unfold bcalc_view_dims, calc_view_dims. rewrite !N2Nat.id, leb_ref.
  apply rmap_assert. apply rmap_assert. apply rmap_assert. apply rmap_assert. apply rmap_assert.
  rewrite <- !N2Nat.inj_sub, !eqb0_ref.
  destruct (((e0 - s0 =? 0) || (e1 - s1 =? 0))%N).
  - cbn. reflexivity.
  - rewrite eqb0_ref. destruct (N.eqb_spec (e1 - s1) 0) as [|Hne]; cbn; [reflexivity|].
    f_equal. f_equal; [f_equal; lia|lia].
Qed.

Theorem view_of_ref k mutable p s0 s1 e0 e1 :
  rmap view_of_b (bview_of k mutable p s0 s1 e0 e1) = view_of k mutable (view_of_b p) s0 s1 e0 e1.
Proof.
  unfold bview_of, view_of. cbn [view_of_b vcols vrows vstride vw].
  eapply rmap_bind; [apply calc_view_dims_ref|]. intros [[[nc nr] a] b]. cbn [dims_res].
  eapply rmap_bind with (g := sl_of).
  - destruct k, mutable; first [apply get_range_ref | apply index_range_ref].
  - intros w. reflexivity.
Qed.

Theorem view_new_ref c r slen : rmap view_of_b (bview_new c r slen) = view_new c r (N.to_nat slen).
Proof.
  unfold bview_new, view_new. rewrite N2Nat.id.
  eapply rmap_bind with (g := fun x : unit => x).
  - destruct ((c =? 0) || (r =? 0))%N; [destruct (r =? c)%N|]; reflexivity.
  - intros []. destruct (checked_mul c r) as [size|]; [|reflexivity].
    apply rmap_assert. reflexivity.
Qed.

Lemma view_of_owned_ref cols rows len_ :
  view_of_b (bview_of_owned cols rows len_) = view_of_owned (N.to_nat cols) (N.to_nat rows) (N.to_nat len_).
Proof. reflexivity. Qed.

Theorem v_rows_ref v : rmap rows_of (bv_rows v) = v_rows (view_of_b v).
Proof.
  unfold bv_rows, v_rows. cbn [view_of_b vcols vrows vstride vw].
  eapply rmap_bind; [apply usub_ref|]. intros k. reflexivity.
Qed.

Theorem v_col_ref k v c : rmap col_of (bv_col k v c) = v_col k (view_of_b v) c.
Proof.
  unfold bv_col, v_col. cbn [view_of_b vcols vrows vstride vw]. rewrite N2Nat.id.
  apply rmap_assert.
  assert (Hv : forall kk, kk <> KOwned ->
    rmap col_of
      (w <- bget_range (bvw v) c (if (bvrows v =? 0)%N then c else (c + (bvrows v - 1) * bvstride v + 1)%N) ;;
       s <- busub (bvstride v) 1 ;; Ok (mkBcol w s))
    = (w <- get_range (sl_of (bvw v)) (N.to_nat c)
             (if N.to_nat (bvrows v) =? 0 then N.to_nat c
              else N.to_nat c + (N.to_nat (bvrows v) - 1) * N.to_nat (bvstride v) + 1) ;;
       s <- usub (N.to_nat (bvstride v)) 1 ;; Ok (mkCol w s))).
  { intros _ _. rewrite eqb0_ref.
    replace (if (bvrows v =? 0)%N then N.to_nat c else N.to_nat c + (N.to_nat (bvrows v) - 1) * N.to_nat (bvstride v) + 1)
      with (N.to_nat (if (bvrows v =? 0)%N then c else (c + (bvrows v - 1) * bvstride v + 1)%N))
      by (destruct (bvrows v =? 0)%N; lia).
    eapply rmap_bind; [apply get_range_ref|]. intros w.
    eapply rmap_bind; [apply (usub_ref (bvstride v) 1)|]. intros s. reflexivity. }
  destruct k; try (apply (Hv KView); discriminate).
  eapply rmap_bind; [apply (usub_ref (blen (bvw v)) (bvcols v))|]. intros e.
  replace (N.to_nat e + N.to_nat c + 1) with (N.to_nat (e + c + 1)) by lia.
  eapply rmap_bind; [apply get_range_ref|]. intros w.
  eapply rmap_bind; [apply (usub_ref (bvcols v) 1)|]. intros s. reflexivity.
Qed.
