(** Family 10 (binary-number iterators): from the refinement of each function
    (BigIterRefine) to whole call histories, and from the ideal list sequence to the
    two-counter oracle the correspondence evaluates.

    (1) [big_step] / [big_history]: a binary cursor state whose unary image simulates an
        ideal sequence answers every call, and every finite history of calls, as the ideal
        sequence does - for every [n : N], every size of array (no bound anywhere).
    (2) [counter_step] / [counter_history]: what the ideal LIST sequence answers is what
        the COUNTER oracle (Spec/BigIterSpec.v: remaining = L - front - back) answers. *)
From TD Require Import Base.Prelude Base.Codec Model.Iter Model.Flatten Model.View Model.IterRun Model.BigIter
  Model.BigFlat Model.BigIterRun Spec.Ideal Spec.BigIterSpec Proofs.RowsSim Proofs.ColSim Proofs.FlatSim
  Proofs.IterHistory Proofs.BigIterRefine Proofs.BigFlatRefine.

Definition bstate_of (s : bstate) : istate :=
  match s with BRows it => SRows (rows_of it) | BCol it => SCol (col_of it) | BCells it => SCells (flat_of it) end.
Definition byield_of (y : byield) : iyield :=
  match y with
  | BYRow o => YRow (option_map sl_of o)
  | BYCell o => YCell (option_map N.to_nat o)
  | BYLen n => YLen (N.to_nat n)
  | BYIdx r => YIdx (rmap N.to_nat r)
  end.
Definition bstep_res (p : byield * bstate) : iyield * istate := (byield_of (fst p), bstate_of (snd p)).

Lemma rmap_lift_rows r r' :
  rmap rows_res r = r' -> rmap bstep_res (blift_rows r) = lift_rows r'.
Proof. intros <-. destruct r as [[o it]| |]; reflexivity. Qed.
Lemma rmap_lift_col r r' :
  rmap col_res r = r' -> rmap bstep_res (blift_col r) = lift_col r'.
Proof. intros <-. destruct r as [[o it]| |]; reflexivity. Qed.

Lemma rmap_lift_cells r r' :
  rmap flat_res r = r' -> rmap bstep_res (blift_cells r) = lift_cells r'.
Proof. intros <-. destruct r as [[o it]| |]; reflexivity. Qed.

(** the cell cursor's row cursor hands out non-empty rows (true of every state that
    simulates a sequence: see [sim_yields_nonempty]) *)
Definition bstate_ok (s : bstate) : Prop :=
  match s with BCells it => yields_nonempty (bfiter it) | _ => True end.

Theorem bcall_step_ref dbg s c : bstate_ok s ->
  rmap bstep_res (bcall_step dbg s c) = icall_step dbg (bstate_of s) c.
Proof.
  intros Hok. destruct s as [it|it|it], c as [| |n|n| |i]; cbn [bcall_step icall_step bstate_of].
  - apply rmap_lift_rows, rows_next_ref.
  - apply rmap_lift_rows, rows_next_back_ref.
  - apply rmap_lift_rows, rows_nth_ref.
  - apply rmap_lift_rows, rows_nth_back_ref.
  - cbn. unfold bstep_res. cbn. rewrite rows_len_ref. reflexivity.
  - reflexivity.
  - apply rmap_lift_col, col_next_ref.
  - apply rmap_lift_col, col_next_back_ref.
  - apply rmap_lift_col, col_nth_ref.
  - apply rmap_lift_col, col_nth_back_ref.
  - cbn. unfold bstep_res. cbn. rewrite col_len_ref. reflexivity.
  - cbn. unfold bstep_res. cbn. rewrite col_index_ref. reflexivity.
  - apply rmap_lift_cells. unfold flat_next. apply (flat_next_ref it _ Hok).
  - apply rmap_lift_cells. unfold flat_next_back. apply (flat_next_back_ref it _ Hok).
  - apply rmap_lift_cells, flat_nth_ref.
  - apply rmap_lift_cells, flat_nth_back_ref.
  - cbn. unfold bstep_res. cbn. rewrite flat_len_ref. reflexivity.
  - reflexivity.
Qed.

Lemma i_next_back_in {X} (l : list X) x l' : i_next_back l = (Some x, l') -> In x l.
Proof.
  unfold i_next_back. destruct (rev l) as [|y t] eqn:Er; intros H; inversion H; subst.
  apply in_rev. rewrite Er. left. reflexivity.
Qed.

Lemma sim_yields_nonempty it rows : rows_sim (rows_of it) rows -> yields_nonempty it.
Proof.
  intros Hs. destruct (rows_sim_uniform _ _ Hs) as [Hu Hpos]. split; intros inner it' E.
  - pose proof (rows_next_ref it) as R. rewrite E in R. cbn [rmap rows_res fst snd option_map] in R.
    destruct (rows_sim_next _ _ Hs) as [it2 [E2 _]]. rewrite <- R in E2. inversion E2 as [[Hy _]].
    destruct rows as [|w rows']; cbn [i_next fst] in Hy; [discriminate|]. injection Hy as Hw.
    assert (Hnc : 0 < rcols (rows_of it)) by (apply Hpos; discriminate).
    inversion Hu as [|? ? Hlen _]; subst. cbn [sl_of len rows_of rcols] in *. lia.
  - pose proof (rows_next_back_ref it) as R. rewrite E in R. cbn [rmap rows_res fst snd option_map] in R.
    destruct (rows_sim_next_back _ _ Hs) as [it2 [E2 _]]. rewrite <- R in E2. inversion E2 as [[Hy _]].
    destruct (i_next_back rows) as [[w|] l'] eqn:Eb; cbn [fst] in Hy; [|discriminate]. injection Hy as Hw.
    pose proof (i_next_back_in rows w l' Eb) as Hin.
    assert (Hnc : 0 < rcols (rows_of it)) by (apply Hpos; intros ->; inversion Hin).
    pose proof (proj1 (Forall_forall _ _) Hu w Hin) as Hlen. cbn beta in Hlen.
    rewrite <- Hw in Hlen. cbn [sl_of len] in Hlen. lia.
Qed.

Lemma sim_state_ok s q : st_sim (bstate_of s) q -> bstate_ok s.
Proof.
  destruct s as [it|it|it]; cbn [bstate_ok]; try (intros; exact I).
  destruct q as [l|l]; cbn [st_sim bstate_of]; [contradiction|].
  intros [rows [Hs _]]. cbn [flat_of fiter] in Hs. eapply sim_yields_nonempty. exact Hs.
Qed.

(** one call, any [n : N], any size *)
Theorem big_step dbg s q c :
  st_sim (bstate_of s) q -> call_ok (bstate_of s) c ->
  exists y s' q', bcall_step dbg s c = Ok (y, s') /\ Ideal.ideal_call q c = (byield_of y, q') /\ st_sim (bstate_of s') q'.
Proof.
  intros Hs Hc.
  destruct (step_sim dbg (bstate_of s) q c Hs Hc) as [y0 [s0 [q' [E [Ei Hs']]]]].
  pose proof (bcall_step_ref dbg s c (sim_state_ok s q Hs)) as R. rewrite E in R.
  destruct (bcall_step dbg s c) as [[y s']| |]; cbn in R; try discriminate.
  inversion R as [[Hy Hst]]. exists y, s', q'. split; [reflexivity|]. cbn [fst snd]. rewrite Hy, Hst. split; [exact Ei|exact Hs'].
Qed.

(** the encoding family 10 uses, on the unary yields *)
Definition enc_iy (y : iyield) : list N :=
  match y with
  | YRow None | YCell None => [0%N]
  | YRow (Some w) => [1%N; N.of_nat (len w)]
  | YCell (Some _) => [1%N]
  | YLen n => [N.of_nat n]
  | YIdx (Ok _) => [1%N]
  | YIdx _ => [0%N]
  end.
Lemma enc_byield_ref y : enc_byield y = enc_iy (byield_of y).
Proof.
  destruct y as [[w|]|[i|]|n|[i| |]]; cbn; try reflexivity.
  - rewrite N2Nat.id. reflexivity.
  - rewrite N2Nat.id. reflexivity.
Qed.

Fixpoint ideal_enc_calls (q : iseq) (cs : list icall) : list N * iseq :=
  match cs with
  | [] => ([], q)
  | c :: tl =>
      let '(y, q') := Ideal.ideal_call q c in
      let '(o, q'') := ideal_enc_calls q' tl in
      (enc_iy y ++ o, q'')
  end.

(** every finite history *)
Theorem big_history dbg cs : forall s q,
  st_sim (bstate_of s) q -> Forall (call_ok (bstate_of s)) cs ->
  exists o s', bcalls dbg s cs = Ok (o, s') /\ o = fst (ideal_enc_calls q cs)
               /\ st_sim (bstate_of s') (snd (ideal_enc_calls q cs)).
Proof.
  induction cs as [|c tl IH]; intros s q Hs Hok.
  - exists [], s. cbn. split; [reflexivity|]. split; [reflexivity|exact Hs].
  - inversion Hok as [|? ? Hc Hrest]; subst.
    destruct (big_step dbg s q c Hs Hc) as [y [s1 [q1 [E [Ei Hs1]]]]].
    assert (Hok1 : Forall (call_ok (bstate_of s1)) tl).
    { eapply Forall_impl; [|exact Hrest]. intros a Ha. unfold call_ok in *.
      pose proof (bcall_step_ref dbg s c (sim_state_ok s q Hs)) as R. rewrite E in R. cbn [rmap bstep_res fst snd] in R.
      symmetry in R. rewrite (icall_step_kind dbg (bstate_of s) c (byield_of y) (bstate_of s1) R). exact Ha. }
    destruct (IH s1 q1 Hs1 Hok1) as [o [s2 [E2 [Ho Hs2]]]].
    cbn [bcalls ideal_enc_calls]. rewrite E. cbn [bind]. rewrite E2. cbn [bind fst snd].
    rewrite Ei. destruct (ideal_enc_calls q1 tl) as [o' q2] eqn:Eq. cbn [fst snd] in *.
    exists (enc_byield y ++ o), s2. split; [reflexivity|]. split; [|exact Hs2].
    rewrite enc_byield_ref, Ho. reflexivity.
Qed.

(** the terminal calls of family 10 *)
Theorem big_term s q t :
  st_sim (bstate_of s) q ->
  bterm_step s t = Ok (match t with
                       | 0 => [N.of_nat (match q with QRows l => length l | QCells l => length l end)]
                       | 1 => enc_iy (match q with
                                      | QRows l => YRow (fst (i_next_back l))
                                      | QCells l => YCell (fst (i_next_back l)) end)
                       | _ => []
                       end).
Proof.
  intros Hs. destruct t as [|[|t]]; [| |reflexivity].
  - destruct (big_step false s q ILen Hs (fun _ => eq_refl)) as [y [s' [q' [E [Ei _]]]]].
    destruct s as [it|it|it], q as [l|l]; cbn [st_sim bstate_of] in Hs; try contradiction;
      cbn [bcall_step] in E; inversion E; subst; cbn [Ideal.ideal_call byield_of] in Ei;
      inversion Ei as [[Hn]]; cbn [bterm_step]; first [rewrite Hn | rewrite <- Hn]; rewrite N2Nat.id; reflexivity.
  - destruct (big_step false s q INextBack Hs (fun _ => eq_refl)) as [y [s' [q' [E [Ei _]]]]].
    destruct s as [it|it|it], q as [l|l]; cbn [st_sim bstate_of] in Hs; try contradiction;
      cbn [bcall_step] in E; cbn [bterm_step].
    + unfold blift_rows in E. destruct (brows_next_back it) as [[o it']| |]; cbn [bind] in E; try discriminate.
      inversion E; subst. cbn [bind fst]. cbn [Ideal.ideal_call] in Ei.
      destruct (i_next_back l) as [x l']. inversion Ei as [[Hy Hq]]. cbn [fst].
      rewrite enc_byield_ref. cbn [byield_of]. reflexivity.
    + unfold blift_col in E. destruct (bcol_next_back it) as [[o it']| |]; cbn [bind] in E; try discriminate.
      inversion E; subst. cbn [bind fst]. cbn [Ideal.ideal_call] in Ei.
      destruct (i_next_back l) as [x l']. inversion Ei as [[Hy Hq]]. cbn [fst].
      rewrite enc_byield_ref. cbn [byield_of]. reflexivity.
    + unfold blift_cells in E. destruct (bflat_next_back it) as [[o it']| |]; cbn [bind] in E; try discriminate.
      inversion E; subst. cbn [bind fst]. cbn [Ideal.ideal_call] in Ei.
      destruct (i_next_back l) as [x l']. inversion Ei as [[Hy Hq]]. cbn [fst].
      rewrite enc_byield_ref. cbn [byield_of]. reflexivity.
Qed.

(** * list sequence = counters *)
Section Counters.
Context {X : Type}.
Variable P : X -> Prop.

Lemma Forall_skipn_l n : forall (l : list X), Forall P l -> Forall P (skipn n l).
Proof. induction n as [|n IH]; intros [|x l] H; cbn; try assumption. inversion H; subst. apply IH. assumption. Qed.
Lemma Forall_firstn_l n : forall (l : list X), Forall P l -> Forall P (firstn n l).
Proof. induction n as [|n IH]; intros [|x l] H; cbn; try constructor; inversion H; subst; [assumption|apply IH; assumption]. Qed.

Lemma i_next_cases (l : list X) : Forall P l ->
  (l = [] /\ i_next l = (None, [])) \/
  (exists x l', i_next l = (Some x, l') /\ P x /\ Forall P l' /\ length l = S (length l')).
Proof.
  intros H. destruct l as [|x l']; [left; split; reflexivity|right].
  inversion H; subst. exists x, l'. repeat split; assumption.
Qed.

Lemma i_next_back_cases (l : list X) : Forall P l ->
  (l = [] /\ i_next_back l = (None, [])) \/
  (exists x l', i_next_back l = (Some x, l') /\ P x /\ Forall P l' /\ length l = S (length l')).
Proof.
  intros H. unfold i_next_back. destruct (rev l) as [|x t] eqn:Er.
  - left. split; [|reflexivity]. apply (f_equal (@rev X)) in Er. rewrite rev_involutive in Er. exact Er.
  - right. exists x, (rev t).
    assert (Hl : l = rev t ++ [x]) by (apply (f_equal (@rev X)) in Er; rewrite rev_involutive in Er; exact Er).
    split; [reflexivity|]. rewrite Hl in H. apply Forall_app in H. destruct H as [H1 H2]. inversion H2; subst.
    repeat split; try assumption. rewrite app_length. cbn. lia.
Qed.
End Counters.

Definition rows_pred (nc : N) (w : sl) : Prop := N.of_nat (len w) = nc.

(** the ideal list sequence [q], seen through family 10's encoding, is the counter state
    [(f, b)] over [L] items each reported as [item] *)
Definition cnt_inv (q : iseq) (L : N) (item : list N) (is_col : bool) (fb : N * N) : Prop :=
  (fst fb + snd fb <= L)%N /\
  match q with
  | QRows l => is_col = false /\ N.of_nat (length l) = (L - fst fb - snd fb)%N /\
               exists nc, item = [nc] /\ Forall (rows_pred nc) l
  | QCells l => is_col = true /\ item = [] /\ N.of_nat (length l) = (L - fst fb - snd fb)%N
  end.

Lemma enc_row nc x : rows_pred nc x -> enc_iy (YRow (Some x)) = 1%N :: [nc].
Proof. unfold rows_pred. intros <-. reflexivity. Qed.

Theorem counter_step q L item is_col fb c :
  cnt_inv q L item is_col fb ->
  enc_iy (fst (Ideal.ideal_call q c)) = fst (BigIterSpec.ideal_call L item is_col fb c) /\
  cnt_inv (snd (Ideal.ideal_call q c)) L item is_col (snd (BigIterSpec.ideal_call L item is_col fb c)).
Proof.
  destruct fb as [f b]. intros [Hfb Hq]. cbn [fst snd] in *. unfold cnt_inv.
  destruct q as [l|l].
  - destruct Hq as [-> [Hlen [nc [-> Hall]]]].
    assert (Hrem : (0 <? L - f - b)%N = negb (length l =? 0)).
    { destruct (N.ltb_spec 0 (L - f - b)); destruct (Nat.eqb_spec (length l) 0); cbn; try reflexivity; lia. }
    destruct c as [| |n|n| |i]; cbn [Ideal.ideal_call BigIterSpec.ideal_call].
    + destruct (i_next_cases (rows_pred nc) l Hall) as [[-> E]|[x [l' [E [Hx [Hl' Hlen']]]]]]; rewrite E; cbn [fst snd].
      * cbn [length] in *. destruct (N.ltb_spec 0 (L - f - b)); [lia|]. cbn. split; [reflexivity|].
        split; [exact Hfb|]. split; [reflexivity|]. split; [exact Hlen|]. exists nc. split; [reflexivity|constructor].
      * destruct (N.ltb_spec 0 (L - f - b)); [|lia]. cbn [fst snd]. split; [apply enc_row; exact Hx|].
        split; [lia|]. split; [reflexivity|]. split; [lia|]. exists nc. split; [reflexivity|exact Hl'].
    + destruct (i_next_back_cases (rows_pred nc) l Hall) as [[-> E]|[x [l' [E [Hx [Hl' Hlen']]]]]]; rewrite E; cbn [fst snd].
      * cbn [length] in *. destruct (N.ltb_spec 0 (L - f - b)); [lia|]. cbn. split; [reflexivity|].
        split; [exact Hfb|]. split; [reflexivity|]. split; [exact Hlen|]. exists nc. split; [reflexivity|constructor].
      * destruct (N.ltb_spec 0 (L - f - b)); [|lia]. cbn [fst snd]. split; [apply enc_row; exact Hx|].
        split; [lia|]. split; [reflexivity|]. split; [lia|]. exists nc. split; [reflexivity|exact Hl'].
    + unfold i_nth. rewrite Hlen.
      destruct (N.leb_spec (L - f - b) n); destruct (N.ltb_spec n (L - f - b)); try lia; cbn [fst snd].
      * split; [reflexivity|]. split; [lia|]. split; [reflexivity|]. split; [cbn; lia|].
        exists nc. split; [reflexivity|constructor].
      * pose proof (Forall_skipn_l (rows_pred nc) (N.to_nat n) l Hall) as Hs.
        destruct (i_next_cases (rows_pred nc) _ Hs) as [[E0 E]|[x [l' [E [Hx [Hl' Hlen']]]]]]; rewrite E; cbn [fst snd].
        -- apply (f_equal (@length _)) in E0. rewrite skipn_length in E0. cbn in E0. lia.
        -- rewrite skipn_length in Hlen'. split; [apply enc_row; exact Hx|].
           split; [lia|]. split; [reflexivity|]. split; [lia|]. exists nc. split; [reflexivity|exact Hl'].
    + unfold i_nth_back. rewrite Hlen.
      destruct (N.leb_spec (L - f - b) n); destruct (N.ltb_spec n (L - f - b)); try lia; cbn [fst snd].
      * split; [reflexivity|]. split; [lia|]. split; [reflexivity|]. split; [cbn; lia|].
        exists nc. split; [reflexivity|constructor].
      * pose proof (Forall_firstn_l (rows_pred nc) (length l - N.to_nat n) l Hall) as Hs.
        destruct (i_next_back_cases (rows_pred nc) _ Hs) as [[E0 E]|[x [l' [E [Hx [Hl' Hlen']]]]]]; rewrite E; cbn [fst snd].
        -- apply (f_equal (@length _)) in E0. rewrite firstn_length in E0. cbn in E0. lia.
        -- rewrite firstn_length in Hlen'. split; [apply enc_row; exact Hx|].
           split; [lia|]. split; [reflexivity|]. split; [lia|]. exists nc. split; [reflexivity|exact Hl'].
    + cbn [fst snd enc_iy]. split; [rewrite Hlen; reflexivity|].
      split; [exact Hfb|]. split; [reflexivity|]. split; [exact Hlen|]. exists nc. split; [reflexivity|exact Hall].
    + cbn [fst snd enc_iy]. split; [reflexivity|].
      split; [exact Hfb|]. split; [reflexivity|]. split; [exact Hlen|]. exists nc. split; [reflexivity|exact Hall].
  - destruct Hq as [-> [-> Hlen]].
    assert (Hall : Forall (fun _ : nat => True) l) by (apply Forall_forall; intros; exact I).
    destruct c as [| |n|n| |i]; cbn [Ideal.ideal_call BigIterSpec.ideal_call].
    + destruct (i_next_cases _ l Hall) as [[-> E]|[x [l' [E [_ [_ Hlen']]]]]]; rewrite E; cbn [fst snd].
      * cbn [length] in *. destruct (N.ltb_spec 0 (L - f - b)); [lia|]. cbn. split; [reflexivity|].
        split; [exact Hfb|]. split; [reflexivity|]. split; [reflexivity|exact Hlen].
      * destruct (N.ltb_spec 0 (L - f - b)); [|lia]. cbn [fst snd]. split; [reflexivity|].
        split; [lia|]. split; [reflexivity|]. split; [reflexivity|lia].
    + destruct (i_next_back_cases _ l Hall) as [[-> E]|[x [l' [E [_ [_ Hlen']]]]]]; rewrite E; cbn [fst snd].
      * cbn [length] in *. destruct (N.ltb_spec 0 (L - f - b)); [lia|]. cbn. split; [reflexivity|].
        split; [exact Hfb|]. split; [reflexivity|]. split; [reflexivity|exact Hlen].
      * destruct (N.ltb_spec 0 (L - f - b)); [|lia]. cbn [fst snd]. split; [reflexivity|].
        split; [lia|]. split; [reflexivity|]. split; [reflexivity|lia].
    + unfold i_nth. rewrite Hlen.
      destruct (N.leb_spec (L - f - b) n); destruct (N.ltb_spec n (L - f - b)); try lia; cbn [fst snd].
      * split; [reflexivity|]. split; [lia|]. split; [reflexivity|]. split; [reflexivity|cbn; lia].
      * pose proof (Forall_skipn_l _ (N.to_nat n) l Hall) as Hs.
        destruct (i_next_cases _ _ Hs) as [[E0 E]|[x [l' [E [_ [_ Hlen']]]]]]; rewrite E; cbn [fst snd].
        -- apply (f_equal (@length _)) in E0. rewrite skipn_length in E0. cbn in E0. lia.
        -- rewrite skipn_length in Hlen'. split; [reflexivity|].
           split; [lia|]. split; [reflexivity|]. split; [reflexivity|lia].
    + unfold i_nth_back. rewrite Hlen.
      destruct (N.leb_spec (L - f - b) n); destruct (N.ltb_spec n (L - f - b)); try lia; cbn [fst snd].
      * split; [reflexivity|]. split; [lia|]. split; [reflexivity|]. split; [reflexivity|cbn; lia].
      * pose proof (Forall_firstn_l _ (length l - N.to_nat n) l Hall) as Hs.
        destruct (i_next_back_cases _ _ Hs) as [[E0 E]|[x [l' [E [_ [_ Hlen']]]]]]; rewrite E; cbn [fst snd].
        -- apply (f_equal (@length _)) in E0. rewrite firstn_length in E0. cbn in E0. lia.
        -- rewrite firstn_length in Hlen'. split; [reflexivity|].
           split; [lia|]. split; [reflexivity|]. split; [reflexivity|lia].
    + cbn [fst snd enc_iy]. split; [rewrite Hlen; reflexivity|].
      split; [exact Hfb|]. split; [reflexivity|]. split; [reflexivity|exact Hlen].
    + cbn [fst snd]. unfold i_index. rewrite Hlen.
      destruct (N.ltb_spec i (L - f - b)).
      * destruct (nth_error l (N.to_nat i)) eqn:En; [|apply nth_error_None in En; lia]. cbn.
        split; [reflexivity|]. split; [exact Hfb|]. split; [reflexivity|]. split; [reflexivity|first [exact Hlen|reflexivity]].
      * cbn. split; [reflexivity|]. split; [exact Hfb|]. split; [reflexivity|]. split; [reflexivity|first [exact Hlen|reflexivity]].
Qed.

Theorem counter_history cs : forall q L item is_col fb,
  cnt_inv q L item is_col fb ->
  fst (ideal_enc_calls q cs) = fst (BigIterSpec.ideal_calls L item is_col fb cs) /\
  cnt_inv (snd (ideal_enc_calls q cs)) L item is_col (snd (BigIterSpec.ideal_calls L item is_col fb cs)).
Proof.
  induction cs as [|c tl IH]; intros q L item is_col fb H; [split; [reflexivity|exact H]|].
  cbn [ideal_enc_calls BigIterSpec.ideal_calls].
  destruct (counter_step q L item is_col fb c H) as [Ho Hinv].
  destruct (Ideal.ideal_call q c) as [y q1]. destruct (BigIterSpec.ideal_call L item is_col fb c) as [o1 fb1].
  cbn [fst snd] in *. destruct (IH q1 L item is_col fb1 Hinv) as [Ho2 Hinv2].
  destruct (ideal_enc_calls q1 tl) as [o2 q2]. destruct (BigIterSpec.ideal_calls L item is_col fb1 tl) as [o3 fb3].
  cbn [fst snd] in *. split; [rewrite Ho, Ho2; reflexivity|exact Hinv2].
Qed.

(** * end to end: a receiver of ANY size, any history -> the counter oracle's answers *)
From TD Require Import Proofs.ViewGeom.

Lemma cnt_inv_rows v :
  cnt_inv (QRows (view_rows v)) (N.of_nat (vrows v)) [N.of_nat (vcols v)] false (0%N, 0%N).
Proof.
  unfold cnt_inv. cbn [fst snd]. split; [lia|]. split; [reflexivity|].
  split; [unfold view_rows; rewrite map_length, seq_length; lia|].
  exists (N.of_nat (vcols v)). split; [reflexivity|].
  unfold view_rows. apply Forall_forall. intros w Hin. apply in_map_iff in Hin.
  destruct Hin as [r [<- _]]. reflexivity.
Qed.
Lemma cnt_inv_col v c :
  cnt_inv (QCells (view_col v c)) (N.of_nat (vrows v)) [] true (0%N, 0%N).
Proof.
  unfold cnt_inv. cbn [fst snd]. split; [lia|]. split; [reflexivity|]. split; [reflexivity|].
  unfold view_col. rewrite map_length, seq_length. lia.
Qed.

(** rows() / rows_mut() of any well-formed binary view, then any call history: the binary
    model never fails and prints exactly what the two-counter oracle prints *)
Theorem big_rows_end_to_end dbg (v : bview) cs :
  wf_view (view_of_b v) ->
  exists it o s', bv_rows v = Ok it /\ bcalls dbg (BRows it) cs = Ok (o, s') /\
    o = fst (BigIterSpec.ideal_calls (bvrows v) [bvcols v] false (0%N, 0%N) cs).
Proof.
  intros Hwf. destruct (v_rows_sim _ Hwf) as [it0 [E0 Hsim]].
  pose proof (v_rows_ref v) as R. rewrite E0 in R.
  destruct (bv_rows v) as [it| |]; cbn in R; try discriminate. inversion R as [Hit].
  assert (Hs : st_sim (bstate_of (BRows it)) (QRows (view_rows (view_of_b v)))) by (cbn; rewrite Hit; exact Hsim).
  destruct (big_history dbg cs (BRows it) _ Hs) as [o [s' [E [Ho _]]]].
  { apply Forall_forall. intros c _ Hc. discriminate. }
  exists it, o, s'. split; [reflexivity|]. split; [exact E|].
  rewrite Ho. destruct (counter_history cs _ _ _ _ _ (cnt_inv_rows (view_of_b v))) as [Hc _].
  rewrite Hc. cbn [view_of_b vrows vcols]. rewrite !N2Nat.id. reflexivity.
Qed.

Theorem big_col_end_to_end dbg k (v : bview) (c : N) cs :
  wf_view (view_of_b v) -> (c < bvcols v)%N -> (k = KOwned -> bvstride v = bvcols v) ->
  exists it o s', bv_col k v c = Ok it /\ bcalls dbg (BCol it) cs = Ok (o, s') /\
    o = fst (BigIterSpec.ideal_calls (bvrows v) [] true (0%N, 0%N) cs).
Proof.
  intros Hwf Hc Hk.
  destruct (v_col_sim k (view_of_b v) c Hwf) as [it0 [E0 Hsim]].
  { cbn [view_of_b vcols]. rewrite N2Nat.id. exact Hc. }
  { intros Ho. cbn [view_of_b vstride vcols]. rewrite (Hk Ho). reflexivity. }
  pose proof (v_col_ref k v c) as R. rewrite E0 in R.
  destruct (bv_col k v c) as [it| |]; cbn in R; try discriminate. inversion R as [Hit].
  assert (Hs : st_sim (bstate_of (BCol it)) (QCells (view_col (view_of_b v) (N.to_nat c)))) by (cbn; rewrite Hit; exact Hsim).
  destruct (big_history dbg cs (BCol it) _ Hs) as [o [s' [E [Ho _]]]].
  { apply Forall_forall. intros c0 _ Hc0. discriminate. }
  exists it, o, s'. split; [reflexivity|]. split; [exact E|].
  rewrite Ho. destruct (counter_history cs _ _ _ _ _ (cnt_inv_col (view_of_b v) (N.to_nat c))) as [Hcn _].
  rewrite Hcn. cbn [view_of_b vrows]. rewrite !N2Nat.id. reflexivity.
Qed.

(** cells() / cells_mut() of any well-formed binary view - 2^63 cells and more - then any
    history of next / next_back / nth(n) / nth_back(n) / len, every [n : N], with or without
    debug assertions: the binary FlattenExact model never fails and prints exactly what the
    two-counter oracle prints for a sequence of cols * rows cells *)
From TD Require Import Proofs.CellsGeom.

Lemma cnt_inv_cells v : wf_view v ->
  cnt_inv (QCells (view_cells v)) (N.of_nat (vcols v) * N.of_nat (vrows v)) [] true (0%N, 0%N).
Proof.
  intros Hwf. unfold cnt_inv. cbn [fst snd]. split; [lia|]. split; [reflexivity|]. split; [reflexivity|].
  rewrite (view_cells_length v Hwf). lia.
Qed.

Theorem big_cells_end_to_end dbg (v : bview) cs :
  wf_view (view_of_b v) -> Forall (fun c => is_index c = false) cs ->
  exists it o s', bv_rows v = Ok it /\ bcalls dbg (BCells (bflat_new it)) cs = Ok (o, s') /\
    o = fst (BigIterSpec.ideal_calls (bvcols v * bvrows v) [] true (0%N, 0%N) cs).
Proof.
  intros Hwf Hcs. destruct (v_cells_sim _ Hwf) as [s0 [E0 Hsim]].
  unfold v_cells in E0. pose proof (v_rows_ref v) as R.
  destruct (bv_rows v) as [it| |]; cbn [rmap] in R; rewrite <- R in E0; cbn [bind] in E0; try discriminate.
  inversion E0 as [Hs0].
  assert (Hs : st_sim (bstate_of (BCells (bflat_new it))) (QCells (view_cells (view_of_b v)))).
  { cbn [st_sim bstate_of]. unfold flat_of, bflat_new. cbn [bfiter bffront bfback option_map].
    unfold flat_new in Hs0. rewrite Hs0. exact Hsim. }
  destruct (big_history dbg cs (BCells (bflat_new it)) _ Hs) as [o [s' [E [Ho _]]]].
  { eapply Forall_impl; [|exact Hcs]. intros c Hc _. exact Hc. }
  exists it, o, s'. split; [reflexivity|]. split; [exact E|].
  rewrite Ho. destruct (counter_history cs _ _ _ _ _ (cnt_inv_cells (view_of_b v) Hwf)) as [Hc _].
  rewrite Hc. cbn [view_of_b vrows vcols]. rewrite !N2Nat.id. reflexivity.
Qed.
