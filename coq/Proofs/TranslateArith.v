(** Arithmetic of the cycle-leader loop of translate_with_wrap (C15): the orbit of a row
    under "add adj modulo R". *)
From Coq Require Import Arith Lia PeanoNat List.
Import ListNotations.

Definition wrap (x n : nat) : nat := if n <=? x then x - n else x.

Lemma wrap_mod x n : 0 < n -> x < 2 * n -> wrap x n = x mod n.
Proof.
  intros Hn Hx. unfold wrap. destruct (Nat.leb_spec n x).
  - replace x with ((x - n) + 1 * n) at 2 by lia. rewrite Nat.mod_add by lia.
    rewrite Nat.mod_small by lia. reflexivity.
  - rewrite Nat.mod_small by lia. reflexivity.
Qed.

Lemma wrap_lt x n : x < 2 * n -> 0 < n -> wrap x n < n.
Proof. intros. unfold wrap. destruct (Nat.leb_spec n x); lia. Qed.

Section Orbit.
Variables R a : nat.
Hypothesis HR : 0 < R.
Hypothesis Ha : 0 < a < R.

Definition g := Nat.gcd R a.
Definition L := R / g.

Lemma g_pos : 0 < g.
Proof.
  unfold g. destruct (Nat.eq_dec (Nat.gcd R a) 0) as [E|]; [|lia].
  apply Nat.gcd_eq_0_l in E. lia.
Qed.

Lemma R_eq : R = L * g.
Proof.
  pose proof g_pos as Hg. unfold L.
  assert (H : R mod g = 0) by (apply Nat.mod_divide; [lia|apply Nat.gcd_divide_l]).
  apply Nat.div_exact in H; lia.
Qed.

Lemma mul_facts (l gg r : nat) : r = l * gg -> 0 < gg -> 0 < l ->
  l <= r /\ (forall x, x < gg -> x * l < r) /\ (forall x, r <= S x * l -> x < gg -> S x = gg) /\
  (forall x, x < gg -> x < r).
Proof.
  intros -> Hg Hl. split; [nia|]. split; [intros x Hx; nia|]. split; [|intros x Hx; nia].
  intros x H1 H2. destruct (Nat.eq_dec (S x) gg); [assumption|]. exfalso.
  assert (S x < gg) by lia. nia.
Qed.

Lemma L_pos : 0 < L.
Proof. pose proof R_eq. pose proof g_pos. destruct L; lia. Qed.

Lemma a_eq : a = (a / g) * g.
Proof.
  pose proof g_pos as Hg.
  assert (H : a mod g = 0) by (apply Nat.mod_divide; [lia|apply Nat.gcd_divide_r]).
  apply Nat.div_exact in H; lia.
Qed.

Lemma coprime : Nat.gcd L (a / g) = 1.
Proof.
  pose proof g_pos as Hg. pose proof R_eq as HRe. pose proof a_eq as Hae.
  assert (H : Nat.gcd (L * g) ((a / g) * g) = g) by (rewrite <- HRe, <- Hae; reflexivity).
  rewrite Nat.gcd_mul_mono_r in H.
  assert (Nat.gcd L (a / g) * g = 1 * g) by lia.
  apply Nat.mul_cancel_r in H0; lia.
Qed.

(** i*a is a multiple of R exactly when i is a multiple of L *)
Lemma orbit_zero i : (i * a) mod R = 0 <-> Nat.divide L i.
Proof.
  pose proof g_pos as Hg. pose proof R_eq as HRe. pose proof a_eq as Hae.
  split.
  - intros H. apply Nat.mod_divide in H; [|lia]. destruct H as [k Hk].
    assert (H1 : i * (a / g) = k * L).
    { assert (i * (a / g) * g = k * L * g) by (rewrite <- !Nat.mul_assoc, <- Hae, <- HRe; exact Hk).
      apply Nat.mul_cancel_r in H; lia. }
    apply Nat.gauss with (m := a / g).
    + exists k. rewrite Nat.mul_comm. exact H1.
    + apply coprime.
  - intros [q Hq]. apply Nat.mod_divide; [lia|]. exists (q * (a / g)).
    rewrite Hq.
    transitivity (q * L * (a / g * g)); [rewrite <- Hae; reflexivity|].
    transitivity (q * (a / g) * (L * g)); [lia|rewrite <- HRe; reflexivity].
Qed.

Variable base : nat.
Hypothesis Hbase : base < R.

Definition p (i : nat) : nat := (base + i * a) mod R.

Lemma p_lt i : p i < R.
Proof. apply Nat.mod_upper_bound. lia. Qed.

Lemma p_0 : p 0 = base.
Proof. unfold p. rewrite Nat.mul_0_l, Nat.add_0_r. apply Nat.mod_small. exact Hbase. Qed.

Lemma p_S i : p (S i) = wrap (p i + a) R.
Proof.
  rewrite wrap_mod by (pose proof (p_lt i); lia).
  unfold p. rewrite Nat.add_mod_idemp_l by lia. f_equal. lia.
Qed.

Lemma mod_eq_divide x y : x <= y -> x mod R = y mod R -> Nat.divide R (y - x).
Proof.
  intros Hle H. exists (y / R - x / R).
  pose proof (Nat.div_mod x R ltac:(lia)). pose proof (Nat.div_mod y R ltac:(lia)).
  assert (x / R <= y / R) by (apply Nat.div_le_mono; lia).
  rewrite Nat.mul_sub_distr_r. lia.
Qed.

Lemma p_eq_le i j : i <= j -> p i = p j -> Nat.divide L (j - i).
Proof.
  intros Hij H. apply orbit_zero. apply Nat.mod_divide; [lia|].
  unfold p in H. apply mod_eq_divide in H; [|nia].
  replace (base + j * a - (base + i * a)) with ((j - i) * a) in H by nia. exact H.
Qed.

Lemma p_inj i j : i < L -> j < L -> p i = p j -> i = j.
Proof.
  intros Hi Hj H. destruct (Nat.le_ge_cases i j) as [Hle|Hle].
  - destruct (p_eq_le i j Hle H) as [k Hk]. destruct k; [lia|]. nia.
  - symmetry in H. destruct (p_eq_le j i Hle H) as [k Hk]. destruct k; [lia|]. nia.
Qed.

Lemma p_L : p L = base.
Proof.
  unfold p. assert (H : (L * a) mod R = 0) by (apply orbit_zero; exists 1; lia).
  rewrite <- Nat.add_mod_idemp_r by lia. rewrite H, Nat.add_0_r. apply Nat.mod_small. exact Hbase.
Qed.

Lemma p_not_base i : 0 < i < L -> p i <> base.
Proof.
  intros Hi H. rewrite <- p_0 in H. apply p_inj in H; lia || (pose proof L_pos; lia).
Qed.

(** the whole orbit lies in one residue class modulo g *)
Lemma p_residue i : p i mod g = base mod g.
Proof.
  pose proof g_pos as Hg. pose proof R_eq as HRe. pose proof a_eq as Hae.
  unfold p. pose proof (Nat.div_mod (base + i * a) R ltac:(lia)) as Hd.
  set (q := (base + i * a) / R) in *. set (m := (base + i * a) mod R) in *.
  assert (Hm : m + (q * L) * g = base + (i * (a / g)) * g).
  { rewrite <- !Nat.mul_assoc, <- Hae, <- HRe. lia. }
  assert ((m + q * L * g) mod g = (base + i * (a / g) * g) mod g) by (rewrite Hm; reflexivity).
  rewrite !Nat.mod_add in H by lia. exact H.
Qed.

Lemma L_facts :
  L <= R /\ (forall x, x < g -> x * L < R) /\ (forall x, R <= S x * L -> x < g -> S x = g) /\
  (forall x, x < g -> x < R).
Proof. apply mul_facts; [apply R_eq|apply g_pos|apply L_pos]. Qed.

End Orbit.
