(** C05: ownership ledger.  What the array holds after an operation, together with what the
    operation dropped, leaked or handed to the caller, is a permutation of what the array
    held before together with what was supplied: nothing is dropped twice, nothing dropped
    stays reachable, nothing is lost. *)
From Coq Require Import Permutation.
From TD Require Import Base.Prelude Base.Codec Spec.Grid Spec.Inv Model.Iter Model.Flatten
  Model.Owned Model.Access Model.Hist Proofs.ListLemmas Proofs.InsertRow Proofs.RemoveRow
  Proofs.HistInv.

Section Ledger.
Context {A : Type}.
Implicit Type t : toodee A.

Lemma firstn_skipn_perm (l xs : list A) n :
  Permutation (firstn n l ++ xs ++ skipn n l) (l ++ xs).
Proof.
  rewrite <- (firstn_skipn n l) at 3. rewrite <- !app_assoc.
  apply Permutation_app_head. apply Permutation_app_comm.
Qed.

(** accepted insert_row / push_row: the array gains exactly the supplied row *)
Theorem insert_row_ledger dbg cap spare t idx xs :
  Inv t -> idx <= num_rows t -> (num_rows t = 0 \/ length xs = num_cols t) ->
  (N.of_nat (length (data t)) + N.of_nat (length xs) <= cap)%N ->
  exists r, insert_row dbg cap spare t (N.of_nat idx) (honest_script xs) = Ok r /\
            o_ok r = true /\ o_dropped r = [] /\ o_leaked r = [] /\
            Permutation (data (o_td r)) (data t ++ xs).
Proof.
  intros Hi Hidx Hw Hcap.
  rewrite (insert_row_accept dbg cap spare t idx xs Hi Hidx Hw Hcap).
  eexists. split; [reflexivity|]. cbn [o_ok o_dropped o_leaked o_td].
  repeat split; try reflexivity.
  destruct (Nat.eqb_spec (length xs) 0) as [E|E]; cbn [data].
  - apply length_zero_iff_nil in E. subst xs. rewrite app_nil_r.
    destruct Hi as [Hl Hz]. destruct Hw as [Hr|Hc].
    + assert (data t = []) by (apply length_zero_iff_nil; rewrite Hl, Hr; lia). rewrite H. constructor.
    + cbn in Hc. assert (data t = []) by (apply length_zero_iff_nil; rewrite Hl, <- Hc; lia).
      rewrite H. constructor.
  - apply firstn_skipn_perm.
Qed.

(** rejected insert_row: the array is untouched and the supplied elements are dropped
    (with the iterator), once *)
Theorem insert_row_reject_ledger dbg cap spare t (index : N) xs :
  (N.of_nat (num_rows t) < index)%N \/ (num_rows t <> 0 /\ length xs <> num_cols t) ->
  insert_row dbg cap spare t index (honest_script xs) = Ok (mkOp t false xs []).
Proof. apply insert_row_reject. Qed.

(** remove_row / pop_row, drain consumed to any extent, dropped or leaked: the remaining
    array, the yielded elements and the ones the destructor dropped (or that were leaked)
    are a permutation of the original array *)
Lemma without_row_perm t idx :
  Inv t -> idx < num_rows t ->
  Permutation (data (without_row t idx) ++ row_of t idx) (data t).
Proof.
  intros [Hl Hz] Hidx. unfold without_row, row_of.
  assert (Hfit : idx * num_cols t + num_cols t <= length (data t)) by (rewrite Hl; nia).
  destruct (Nat.eqb_spec (num_rows t - 1) 0) as [E|E]; cbn [data].
  - assert (idx = 0) by lia. subst idx. assert (num_rows t = 1) by lia.
    cbn [Nat.mul app]. unfold slice. cbn [skipn]. rewrite firstn_all2 by lia. apply Permutation_refl.
  - unfold slice. set (s := idx * num_cols t). set (n := num_cols t).
    rewrite <- (firstn_skipn s (data t)) at 4.
    rewrite <- app_assoc. apply Permutation_app_head.
    rewrite skipn_add.
    eapply Permutation_trans; [apply Permutation_app_comm|].
    rewrite firstn_skipn. apply Permutation_refl.
Qed.

Theorem remove_row_ledger t idx steps fin :
  Inv t -> idx < num_rows t ->
  exists r, remove_row t (N.of_nat idx) steps fin = Ok r /\
            Permutation (data (d_td r) ++ d_escaped r ++ d_dropped r ++ d_leaked r) (data t) /\
            (fin = DropIt -> d_leaked r = []).
Proof.
  intros Hi Hidx. rewrite (remove_row_spec t idx steps fin Hi Hidx).
  pose proof (run_vec_drain_conserves steps (row_of t idx)) as Hp.
  destruct (run_vec_drain steps (row_of t idx)) as [[obs y] rem].
  eexists. split; [reflexivity|]. cbn [d_td d_escaped d_dropped d_leaked]. split.
  - eapply Permutation_trans; [|apply (without_row_perm t idx Hi Hidx)].
    apply Permutation_app_head.
    destruct fin; cbn [app]; rewrite ?app_nil_r; exact Hp.
  - intros ->. reflexivity.
Qed.

End Ledger.

Lemma upd_perm {X} (v old : X) : forall (l : list X) i,
  nth_error l i = Some old -> Permutation (upd i v l ++ [old]) (l ++ [v]).
Proof.
  induction l as [|x l IH]; intros [|i] E; cbn in *; try discriminate.
  - inversion E; subst. apply perm_trans with (old :: v :: l).
    + apply perm_trans with (v :: old :: l); [|apply perm_swap].
      constructor. apply Permutation_sym, Permutation_cons_append.
    + constructor. apply Permutation_cons_append.
  - constructor. apply IH. exact E.
Qed.

(** * steps of the history machine that move no element across the array boundary in a way
    that needs the raw routines: the ledger equation holds by the step's definition; stated
    so that the claim is explicit for each of them *)
Definition step_ledger (cf : hconf) (h : hstate) (o : hop) (supplied : list elt) : Prop :=
  forall h' ob, hstep cf h o = Ok (h', ob) ->
  Permutation (data (h_td h') ++ ob_dropped ob ++ ob_leaked ob) (data (h_td h) ++ supplied).

Theorem simple_steps_ledger cf h :
  step_ledger cf h HClear [] /\ step_ledger cf h HDrop [] /\ step_ledger cf h HSwapDims [] /\
  step_ledger cf h HCapacity [] /\ step_ledger cf h HDefault [] /\
  (forall c r d, step_ledger cf h (HFromVec c r d) d) /\
  (forall c r v, (c < N.of_nat (num_cols (h_td h)))%N -> (r < N.of_nat (num_rows (h_td h)))%N ->
                 Inv (h_td h) -> step_ledger cf h (HSetCell c r v) [v]).
Proof.
  unfold step_ledger. repeat split.
  - intros h' ob H. cbn [hstep] in H. inversion H; subst; cbn. rewrite !app_nil_r. apply Permutation_refl.
  - intros h' ob H. cbn [hstep] in H. inversion H; subst; cbn. rewrite !app_nil_r. apply Permutation_refl.
  - intros h' ob H. cbn [hstep] in H. inversion H; subst; cbn. rewrite !app_nil_r. apply Permutation_refl.
  - intros h' ob H. cbn [hstep] in H. inversion H; subst; cbn. rewrite !app_nil_r. apply Permutation_refl.
  - intros h' ob H. cbn [hstep] in H. inversion H; subst; cbn. rewrite !app_nil_r. apply Permutation_refl.
  - intros c r d h' ob H. cbn [hstep] in H.
    destruct (negb (zero_rule_ok c r)); [inversion H; subst; cbn; rewrite app_nil_r; apply Permutation_refl|].
    destruct (checked_mul c r); [|inversion H; subst; cbn; rewrite app_nil_r; apply Permutation_refl].
    destruct (n =? N.of_nat (length d))%N; inversion H; subst; cbn; rewrite app_nil_r;
      [apply Permutation_app_comm|apply Permutation_refl].
  - intros c r v Hc Hr [Hl Hz] h' ob H. cbn [hstep] in H.
    unfold td_index_coord, assert, require in H.
    destruct (N.ltb_spec r (N.of_nat (num_rows (h_td h)))); [|lia].
    destruct (N.ltb_spec c (N.of_nat (num_cols (h_td h)))); [|lia]. cbn [bind] in H.
    set (i := N.to_nat r * num_cols (h_td h) + N.to_nat c) in *.
    assert (Hi : i < length (data (h_td h))) by (subst i; rewrite Hl; nia).
    destruct (Nat.ltb_spec i (length (data (h_td h)))); [|lia]. cbn [bind] in H.
    destruct (nth_error (data (h_td h)) i) as [old|] eqn:E; [|discriminate].
    inversion H; subst; cbn [h_td data ob_dropped ob_leaked]. rewrite app_nil_r.
    apply upd_perm. exact E.
Qed.
