(** remove_row (C07, C12): rotate-to-tail + Vec::drain yields the row and closes the gap,
    whether the drain is dropped or leaked. *)
From Coq Require Import Permutation.
From TD Require Import Base.Prelude Spec.Grid Spec.Inv Model.Iter Model.Owned
  Proofs.ListLemmas Proofs.InsertRow.

Section RemoveRow.
Context {A : Type}.

Definition row_of (t : toodee A) (idx : nat) : list A :=
  slice (idx * num_cols t) (num_cols t) (data t).

Definition without_row (t : toodee A) (idx : nat) : toodee A :=
  if num_rows t - 1 =? 0 then mkTD [] 0 0
  else mkTD (firstn (idx * num_cols t) (data t) ++ skipn (idx * num_cols t + num_cols t) (data t))
            (num_rows t - 1) (num_cols t).

Lemma rotate_tail_split (d : list A) start nc :
  start + nc <= length d ->
  let d1 := firstn start d ++ rotate_left nc (skipn start d) in
  length d1 = length d /\
  firstn (length d1 - nc) d1 = firstn start d ++ skipn (start + nc) d /\
  skipn (length d1 - nc) d1 = slice start nc d.
Proof.
  intros H d1.
  assert (Hl : length d1 = length d).
  { unfold d1, rotate_left. nth_rw. lia. }
  split; [exact Hl|]. rewrite Hl. unfold d1, rotate_left, slice.
  rewrite app_assoc.
  assert (Hp : length (firstn start d ++ skipn nc (skipn start d)) = length d - nc).
  { nth_rw. lia. }
  split.
  - rewrite firstn_app, Hp, Nat.sub_diag, firstn_O, app_nil_r.
    rewrite firstn_all2 by lia. rewrite <- skipn_add. reflexivity.
  - rewrite skipn_app, Hp, Nat.sub_diag, skipn_O.
    rewrite skipn_all2 by lia. reflexivity.
Qed.

Theorem remove_row_spec (t : toodee A) idx steps fin :
  Inv t -> idx < num_rows t ->
  remove_row t (N.of_nat idx) steps fin =
  let '(obs, yielded, rem) := run_vec_drain steps (row_of t idx) in
  Ok (mkDrain (without_row t idx) true obs yielded
        (match fin with DropIt => rem | ForgetIt => [] end)
        (match fin with DropIt => [] | ForgetIt => rem end)).
Proof.
  intros [Hlen Hz] Hidx. unfold remove_row.
  destruct (N.ltb_spec (N.of_nat idx) (N.of_nat (num_rows t))); [|lia]. cbn [negb].
  rewrite Nat2N.id.
  set (nc := num_cols t). set (start := idx * nc).
  assert (Hfit : start + nc <= length (data t)).
  { subst start nc. rewrite Hlen. nia. }
  unfold assert.
  destruct (Nat.leb_spec start (length (data t))); [|lia]. cbn [bind].
  rewrite skipn_length.
  destruct (Nat.leb_spec nc (length (data t) - start)); [|lia]. cbn [bind].
  destruct (rotate_tail_split (data t) start nc Hfit) as [Hl [Hk Hr]].
  unfold usub.
  destruct (Nat.leb_spec nc (length (firstn start (data t) ++ rotate_left nc (skipn start (data t)))));
    [|lia]. cbn [bind].
  rewrite Hk, Hr.
  unfold row_of, without_row. fold nc. fold start.
  assert (Hkept : (if num_rows t - 1 =? 0
                   then mkTD (firstn start (data t) ++ skipn (start + nc) (data t)) 0 0
                   else mkTD (firstn start (data t) ++ skipn (start + nc) (data t)) (num_rows t - 1) nc)
                  = (if num_rows t - 1 =? 0 then mkTD [] 0 0
                     else mkTD (firstn start (data t) ++ skipn (start + nc) (data t)) (num_rows t - 1) nc)).
  { destruct (Nat.eqb_spec (num_rows t - 1) 0); [|reflexivity].
    assert (idx = 0) by lia. subst idx. subst start. cbn [Nat.mul firstn Nat.add app].
    rewrite skipn_all2; [reflexivity|]. rewrite Hlen. subst nc. nia. }
  rewrite Hkept.
  destruct (run_vec_drain steps (slice start nc (data t))) as [[obs yielded] rem].
  destruct fin; reflexivity.
Qed.

(** out-of-range index: panics, array untouched *)
Theorem remove_row_reject (t : toodee A) (index : N) steps fin :
  (N.of_nat (num_rows t) <= index)%N ->
  remove_row t index steps fin = Ok (mkDrain t false [] [] [] []).
Proof.
  intros H. unfold remove_row.
  destruct (N.ltb_spec index (N.of_nat (num_rows t))); [lia|]. reflexivity.
Qed.

(** the array left behind (dropped or leaked drain alike) satisfies the shape invariant *)
Theorem without_row_inv (t : toodee A) idx :
  Inv t -> idx < num_rows t -> Inv (without_row t idx).
Proof.
  intros [Hlen Hz] Hidx. unfold without_row, Inv.
  destruct (Nat.eqb_spec (num_rows t - 1) 0); cbn [data num_rows num_cols length].
  - split; [reflexivity|tauto].
  - split.
    + nth_rw. rewrite Hlen. nia.
    + split; intros; [|lia]. assert (num_rows t = 0) by tauto. lia.
Qed.

(** what the drain does with the row: every element is yielded, dropped or leaked, once *)
Lemma run_vec_drain_conserves (steps : list drain_step) : forall (row : list A),
  let '(obs, yielded, rem) := run_vec_drain steps row in
  Permutation (yielded ++ rem) row.
Proof.
  induction steps as [|s steps IH]; intros row; cbn [run_vec_drain].
  - apply Permutation_refl.
  - destruct s.
    + destruct row as [|x row'].
      * specialize (IH []). destruct (run_vec_drain steps []) as [[o y] r]. exact IH.
      * specialize (IH row'). destruct (run_vec_drain steps row') as [[o y] r].
        cbn [app]. apply perm_skip. exact IH.
    + destruct (rev row) as [|x rrow'] eqn:E.
      * specialize (IH row). destruct (run_vec_drain steps row) as [[o y] r]. exact IH.
      * specialize (IH (rev rrow')). destruct (run_vec_drain steps (rev rrow')) as [[o y] r].
        cbn [app]. apply (f_equal (@rev A)) in E. rewrite rev_involutive in E. subst row.
        cbn [rev]. eapply perm_trans; [apply perm_skip; exact IH|].
        apply Permutation_cons_append.
    + specialize (IH row). destruct (run_vec_drain steps row) as [[o y] r]. exact IH.
    + destruct row as [|x row'].
      * apply IH.
      * specialize (IH row'). destruct (run_vec_drain steps row') as [[o y] r].
        cbn [app]. apply perm_skip. exact IH.
    + destruct (rev row) as [|x rrow'] eqn:E.
      * apply IH.
      * specialize (IH (rev rrow')). destruct (run_vec_drain steps (rev rrow')) as [[o y] r].
        cbn [app]. apply (f_equal (@rev A)) in E. rewrite rev_involutive in E. subst row.
        cbn [rev]. eapply perm_trans; [apply perm_skip; exact IH|].
        apply Permutation_cons_append.
Qed.

End RemoveRow.
