(** C01 (also C11, C12): every operation of the history machine - valid or rejected, with
    any iterator script (lying length, early end, panic at any call) and any drain script
    (consumed to any extent, dropped or leaked) - leaves an array that satisfies the shape
    invariant.  One lemma per operation, then induction over the history. *)
From TD Require Import Base.Prelude Base.Codec Spec.Grid Spec.Inv Model.Iter Model.Flatten
  Model.Owned Model.Access Model.Hist Proofs.ListLemmas Proofs.InsertRow Proofs.RemoveRow.

Section Ops.
Context {A : Type}.
Implicit Type t : toodee A.

Lemma all_some_length (m : list (option A)) d : all_some m = Some d -> length d = length m.
Proof. intros H. apply all_some_spec in H. subst. rewrite map_length. reflexivity. Qed.

Lemma owned_prefix_length (m : list (option A)) n d : owned_prefix m n = Some d -> length d = n.
Proof.
  unfold owned_prefix. destruct (Nat.leb_spec n (length m)) as [Hn|Hn]; [|discriminate].
  intros Hd. apply all_some_length in Hd. rewrite Hd, firstn_length. lia.
Qed.

Lemma Inv_empty : Inv (mkTD (@nil A) 0 0).
Proof. split; cbn; [reflexivity|tauto]. Qed.

(** * insert_row: any index, any script *)
Lemma insert_row_inv dbg cap spare t index s r :
  Inv t -> insert_row dbg cap spare t index s = Ok r -> Inv (o_td r).
Proof.
  intros [Hlen Hz] H. unfold insert_row in H.
  destruct (negb (index <=? N.of_nat (num_rows t))%N) eqn:Hidx.
  { inversion H; subst. split; assumption. }
  apply Bool.negb_false_iff in Hidx. apply N.leb_le in Hidx.
  match type of H with (match ?w with _ => _ end) = _ => destruct w as [ncN|] eqn:Hwidth end.
  2:{ inversion H; subst. split; assumption. }
  destruct (negb (reserve_ok cap (length (data t)) ncN)).
  { inversion H; subst. split; assumption. }
  set (nc := N.to_nat ncN) in *. set (idx := N.to_nat index) in *.
  (* when the array is non-empty the adopted width is its width *)
  assert (Hnc : num_rows t <> 0 -> nc = num_cols t).
  { intros Hr. destruct (Nat.eqb_spec (num_rows t) 0); [contradiction|].
    destruct (N.eqb_spec (N.of_nat (num_cols t)) (claimed s)); inversion Hwidth; subst. subst nc. lia. }
  assert (Hidx0 : num_rows t = 0 -> idx = 0) by (subst idx; lia).
  assert (Hcrit : forall d : list A, length d = idx * nc -> Inv (mkTD d idx (if idx =? 0 then 0 else num_cols t))).
  { intros d Hd. destruct (Nat.eqb_spec idx 0) as [E|E].
    - split; cbn [data num_rows num_cols]; [rewrite Hd, E; lia|rewrite E; tauto].
    - assert (Hr : num_rows t <> 0) by (intro Hr0; apply E, Hidx0, Hr0).
      split; cbn [data num_rows num_cols].
      + rewrite Hd, (Hnc Hr). lia.
      + split; intros; [|contradiction]. exfalso. apply Hr. apply Hz. assumption. }
  unfold usub, bind in H.
  destruct (idx * nc <=? length (data t)) eqn:Hstart; [|discriminate].
  apply Nat.leb_le in Hstart.
  match type of H with (match ?w with _ => _ end) = _ => destruct w as [m1| |] eqn:Hcopy end; try discriminate.
  match type of H with (match ?w with _ => _ end) = _ => destruct w as [[[m2 completed] k]| |] eqn:Hloop end; try discriminate.
  destruct completed; cbn [negb] in H.
  - (* the write loop completed *)
    assert (Hfinal : forall d : list A, owned_prefix m2 (length (data t) + nc) = Some d ->
              Inv (if nc =? 0 then mkTD d idx (if idx =? 0 then 0 else num_cols t)
                   else mkTD d (num_rows t + 1) nc)).
    { intros d Hd. apply owned_prefix_length in Hd.
      destruct (Nat.eqb_spec nc 0) as [E|E].
      - apply Hcrit. rewrite Hd, E.
        destruct (Nat.eq_dec (num_rows t) 0) as [Hr|Hr].
        + rewrite Hlen, Hr, (Hidx0 Hr). lia.
        + exfalso. apply Hr. apply Hz. rewrite <- (Hnc Hr). exact E.
      - split; cbn [data num_rows num_cols]; [|lia].
        rewrite Hd, Hlen.
        destruct (Nat.eq_dec (num_rows t) 0) as [Hr|Hr]; [rewrite Hr; lia|rewrite (Hnc Hr); lia]. }
    destruct dbg.
    + destruct (script_next s k); cbv zeta iota beta in H;
        (destruct (owned_prefix m2 _) as [d|] eqn:Hd; [|discriminate]; inversion H; subst; cbn [o_td]).
      * apply Hcrit. apply owned_prefix_length in Hd. exact Hd.
      * apply Hfinal. reflexivity.
      * apply Hcrit. apply owned_prefix_length in Hd. exact Hd.
    + destruct (owned_prefix m2 _) as [d|] eqn:Hd; [|discriminate]. inversion H; subst; cbn [o_td].
      apply Hfinal. reflexivity.
  - destruct (owned_prefix m2 _) as [d|] eqn:Hd; [|discriminate]. inversion H; subst; cbn [o_td].
    apply Hcrit. apply owned_prefix_length in Hd. exact Hd.
Qed.

(** * insert_col: any index, any script *)
Lemma insert_col_inv dbg cap spare t index s r :
  Inv t -> insert_col dbg cap spare t index s = Ok r -> Inv (o_td r).
Proof.
  intros [Hlen Hz] H. unfold insert_col in H.
  destruct (negb (index <=? N.of_nat (num_cols t))%N) eqn:Hidx.
  { inversion H; subst. split; assumption. }
  match type of H with (match ?w with _ => _ end) = _ => destruct w as [nrN|] eqn:Hheight end.
  2:{ inversion H; subst. split; assumption. }
  destruct (negb (reserve_ok cap (length (data t)) nrN)).
  { inversion H; subst. split; assumption. }
  set (nr := N.to_nat nrN) in *.
  assert (Hnr : num_cols t <> 0 -> nr = num_rows t).
  { intros Hc. destruct (Nat.eqb_spec (num_cols t) 0); [contradiction|].
    destruct (N.eqb_spec (N.of_nat (num_rows t)) (claimed s)); inversion Hheight; subst. subst nr. lia. }
  unfold usub in H. cbn [bind] in H.
  destruct (N.to_nat index <=? num_cols t); [|discriminate]. cbn [bind] in H.
  match type of H with (bind ?w _) = _ => destruct w as [[[m5 completed] k]| |] eqn:Hbody end;
    try discriminate.
  cbn [bind] in H.
  destruct completed; cbn [negb] in H.
  - assert (Hfinal : forall d : list A, owned_prefix m5 (length (data t) + nr) = Some d ->
              Inv (if 0 <? nr then mkTD d nr (num_cols t + 1) else mkTD d 0 0)).
    { intros d Hd. apply owned_prefix_length in Hd.
      destruct (Nat.ltb_spec 0 nr) as [E|E].
      - split; cbn [data num_rows num_cols]; [|lia]. rewrite Hd, Hlen.
        destruct (Nat.eq_dec (num_cols t) 0) as [Hc|Hc]; [rewrite Hc; lia|rewrite (Hnr Hc); lia].
      - split; cbn [data num_rows num_cols]; [|tauto]. rewrite Hd, Hlen.
        destruct (Nat.eq_dec (num_cols t) 0) as [Hc|Hc]; [rewrite Hc; lia|].
        rewrite <- (Hnr Hc). lia. }
    destruct dbg.
    + destruct (script_next_back s k); cbv zeta iota beta in H.
      * inversion H; subst. apply Inv_empty.
      * destruct (owned_prefix m5 _) as [d|] eqn:Hd; [|discriminate]. inversion H; subst; cbn [o_td].
        apply Hfinal. reflexivity.
      * inversion H; subst. apply Inv_empty.
    + destruct (owned_prefix m5 _) as [d|] eqn:Hd; [|discriminate]. inversion H; subst; cbn [o_td].
      apply Hfinal. reflexivity.
  - inversion H; subst. apply Inv_empty.
Qed.

(** * remove_row / remove_col: any index, any drain script, dropped or leaked *)
Lemma remove_row_inv t index steps fin r :
  Inv t -> remove_row t index steps fin = Ok r -> Inv (d_td r).
Proof.
  intros Hi H.
  destruct (N.ltb_spec index (N.of_nat (num_rows t))) as [Hlt|Hge].
  - replace index with (N.of_nat (N.to_nat index)) in H by lia.
    rewrite (remove_row_spec t (N.to_nat index) steps fin Hi) in H by lia.
    destruct (run_vec_drain steps (row_of t (N.to_nat index))) as [[obs y] rem].
    inversion H; subst; cbn [d_td]. apply without_row_inv; [exact Hi|lia].
  - rewrite (remove_row_reject t index steps fin Hge) in H. inversion H; subst. exact Hi.
Qed.

Lemma remove_col_inv t index steps fin r :
  Inv t -> remove_col t index steps fin = Ok r -> Inv (d_td r).
Proof.
  intros [Hlen Hz] H. unfold remove_col in H.
  destruct (negb (index <? N.of_nat (num_cols t))%N) eqn:Hidx.
  { inversion H; subst. split; assumption. }
  apply Bool.negb_false_iff in Hidx. apply N.ltb_lt in Hidx.
  unfold bind in H.
  destruct (usub (length (data t)) (num_cols t)) as [k0| |]; try discriminate.
  match type of H with (match ?w with _ => _ end) = _ => destruct w as [[[obs yielded] d1]| |] end; try discriminate.
  destruct fin.
  - match type of H with (match ?w with _ => _ end) = _ => destruct w as [[dropped d2]| |] end; try discriminate.
    match type of H with (match ?w with _ => _ end) = _ => destruct w as [[[m1 src] dest]| |] end; try discriminate.
    destruct (usub (num_cols t) (N.to_nat index + 1)); try discriminate.
    destruct (ptr_copy _ _ _ m1) as [m2| |]; try discriminate.
    destruct (0 <? num_cols t - 1) eqn:E.
    + destruct (owned_prefix m2 _) as [d|] eqn:Hd; [|discriminate].
      inversion H; subst; cbn [d_td]. apply owned_prefix_length in Hd.
      apply Nat.ltb_lt in E.
      split; cbn [data num_rows num_cols]; [exact Hd|].
      split; intros; [lia|]. exfalso. assert (num_cols t = 0) by (apply Hz; assumption). lia.
    + destruct (owned_prefix m2 _) as [d|] eqn:Hd; [|discriminate].
      inversion H; subst; cbn [d_td]. apply owned_prefix_length in Hd.
      split; cbn [data num_rows num_cols]; [exact Hd|tauto].
  - inversion H; subst. apply Inv_empty.
Qed.

End Ops.

(** * the history machine *)
Lemma fresh_seq_length n : forall s, length (fresh_seq s n) = n.
Proof. induction n as [|n IH]; intros s; cbn [fresh_seq length]; [reflexivity|rewrite IH; reflexivity]. Qed.

Lemma zero_rule_nat (c r : N) : zero_rule_ok c r = true -> (N.to_nat c = 0 <-> N.to_nat r = 0).
Proof.
  unfold zero_rule_ok. destruct (N.eqb_spec c 0), (N.eqb_spec r 0); cbn [orb]; intros H;
    try apply N.eqb_eq in H; lia.
Qed.

Lemma of_opres_inv h r h' ob :
  (forall o, r = Ok o -> Inv (o_td o)) -> of_opres h r = Ok (h', ob) -> Inv (h_td h').
Proof.
  intros Hr H. unfold of_opres in H. destruct r as [o| |]; cbn [bind] in H; try discriminate.
  inversion H; subst; cbn [h_td]. apply Hr. reflexivity.
Qed.

Lemma of_drainres_inv h r h' ob :
  (forall o, r = Ok o -> Inv (d_td o)) -> of_drainres h r = Ok (h', ob) -> Inv (h_td h').
Proof.
  intros Hr H. unfold of_drainres in H. destruct r as [o| |]; cbn [bind] in H; try discriminate.
  inversion H; subst; cbn [h_td]. apply Hr. reflexivity.
Qed.

Theorem hstep_inv cf : forall o h h' ob,
  Inv (h_td h) -> hstep cf h o = Ok (h', ob) -> Inv (h_td h').
Proof.
  induction o as [c r d|c r|c r v| |idx s|s|idx s|s|idx steps fin|steps fin|idx steps fin|steps fin
                  | | | |c r v|v| | |k| |k o IH|kind k o IH|c r d]; intros h h' ob Hi H; cbn [hstep] in H.
  - (* from_vec *)
    destruct (negb (zero_rule_ok c r)) eqn:Ez; [inversion H; subst; exact Hi|].
    apply Bool.negb_false_iff in Ez.
    unfold checked_mul in H. destruct (N.ltb_spec (c * r) W); [|inversion H; subst; exact Hi].
    destruct (N.eqb_spec (c * r) (N.of_nat (length d))) as [E|E]; inversion H; subst; [|exact Hi].
    cbn [h_td]. split; cbn [data num_rows num_cols]; [lia|apply zero_rule_nat; exact Ez].
  - (* new *)
    destruct (negb (zero_rule_ok c r)) eqn:Ez; [inversion H; subst; exact Hi|].
    apply Bool.negb_false_iff in Ez.
    unfold checked_mul in H. destruct (N.ltb_spec (c * r) W); [|inversion H; subst; exact Hi].
    destruct (negb (c * r <=? cf_cap cf)%N); inversion H; subst; [exact Hi|].
    cbn [h_td]. split; cbn [data num_rows num_cols]; [|apply zero_rule_nat; exact Ez].
    destruct (cf_track cf); [rewrite fresh_seq_length|rewrite repeat_length]; lia.
  - (* init *)
    destruct (negb (zero_rule_ok c r)) eqn:Ez; [inversion H; subst; exact Hi|].
    apply Bool.negb_false_iff in Ez.
    unfold checked_mul in H. destruct (N.ltb_spec (r * c) W); [|inversion H; subst; exact Hi].
    destruct (negb (r * c <=? cf_cap cf)%N); inversion H; subst; [exact Hi|].
    cbn [h_td]. split; cbn [data num_rows num_cols]; [|apply zero_rule_nat; exact Ez].
    rewrite repeat_length. lia.
  - inversion H; subst. apply Inv_empty.
  - eapply of_opres_inv; [|exact H]. intros o Ho. eapply insert_row_inv; [exact Hi|exact Ho].
  - eapply of_opres_inv; [|exact H]. intros o Ho. eapply insert_row_inv; [exact Hi|exact Ho].
  - eapply of_opres_inv; [|exact H]. intros o Ho. eapply insert_col_inv; [exact Hi|exact Ho].
  - eapply of_opres_inv; [|exact H]. intros o Ho. eapply insert_col_inv; [exact Hi|exact Ho].
  - eapply of_drainres_inv; [|exact H]. intros o Ho. eapply remove_row_inv; [exact Hi|exact Ho].
  - destruct (num_rows (h_td h) =? 0); [inversion H; subst; exact Hi|].
    eapply of_drainres_inv; [|exact H]. intros o Ho. eapply remove_row_inv; [exact Hi|exact Ho].
  - eapply of_drainres_inv; [|exact H]. intros o Ho. eapply remove_col_inv; [exact Hi|exact Ho].
  - destruct (num_cols (h_td h) =? 0); [inversion H; subst; exact Hi|].
    eapply of_drainres_inv; [|exact H]. intros o Ho. eapply remove_col_inv; [exact Hi|exact Ho].
  - inversion H; subst. apply Inv_empty.
  - (* swap_dimensions *)
    inversion H; subst; cbn [h_td]. destruct Hi as [Hl Hz].
    split; cbn [data num_rows num_cols]; [lia|tauto].
  - inversion H; subst. exact Hi.
  - (* IndexMut write *)
    destruct (td_index_coord (h_td h) c r) as [i| |]; try discriminate; [|inversion H; subst; exact Hi].
    destruct (nth_error (data (h_td h)) i); [|discriminate]. inversion H; subst; cbn [h_td].
    destruct Hi as [Hl Hz]. split; cbn [data num_rows num_cols]; [rewrite upd_length; exact Hl|exact Hz].
  - (* fill *)
    inversion H; subst; cbn [h_td]. destruct Hi as [Hl Hz].
    split; cbn [data num_rows num_cols]; [rewrite repeat_length; exact Hl|exact Hz].
  - inversion H; subst. exact Hi.
  - inversion H; subst. exact Hi.
  - inversion H; subst. apply Inv_empty.
  - inversion H; subst. apply Inv_empty.
  - (* an element destructor panics during the step: same array *)
    destruct (hstep cf h o) as [[h1 ob1]| |] eqn:E; cbn [bind] in H; try discriminate.
    destruct (negb (cf_track cf)); inversion H; subst; eapply IH; eauto.
  - (* a panicking Clone / Default: unchanged, or a partly completed fill of the same length *)
    destruct (negb (cf_track cf)); [eapply IH; eauto|].
    destruct (fuse_fires cf h kind k o) as [[h1 ob1]|] eqn:Ef; [|eapply IH; eauto].
    inversion H; subst h1 ob1. clear H.
    unfold fuse_fires in Ef.
    destruct kind as [|[|kind]]; [| |discriminate]; destruct o; try discriminate.
    + (* init *)
      destruct (zero_rule_ok c r); [|discriminate]. destruct (checked_mul r c); [|discriminate].
      destruct ((n <=? cf_cap cf)%N && (N.of_nat (S k) <? n)%N); inversion Ef; subst; exact Hi.
    + (* fill *)
      destruct (Nat.ltb_spec (S k) (length (data (h_td h)))); inversion Ef; subst; cbn [h_td].
      destruct Hi as [Hl Hz]. split; cbn [data num_rows num_cols]; [|exact Hz].
      rewrite app_length, repeat_length, skipn_length. lia.
    + destruct (k <? length (data (h_td h))); inversion Ef; subst; exact Hi.
    + destruct (zero_rule_ok c r); [|discriminate]. destruct (checked_mul c r); [|discriminate].
      destruct ((n =? N.of_nat (length d))%N && (k <? length d)); inversion Ef; subst; exact Hi.
    + destruct (zero_rule_ok c r); [|discriminate]. destruct (checked_mul c r); [|discriminate].
      destruct ((n <=? cf_cap cf)%N && (N.of_nat k <? n)%N); inversion Ef; subst; exact Hi.
  - (* clone_from *)
    destruct (negb (zero_rule_ok c r)) eqn:Ez; [inversion H; subst; exact Hi|].
    apply Bool.negb_false_iff in Ez.
    unfold checked_mul in H. destruct (N.ltb_spec (c * r) W); [|inversion H; subst; exact Hi].
    destruct (N.eqb_spec (c * r) (N.of_nat (length d))) as [E|E]; inversion H; subst; [|exact Hi].
    cbn [h_td]. split; cbn [data num_rows num_cols]; [lia|apply zero_rule_nat; exact Ez].
Qed.

(** every state of every history *)
Theorem hrun_inv cf : forall ops h l,
  Inv (h_td h) -> hrun cf h ops = Ok l -> Forall (fun p => Inv (h_td (fst p))) l.
Proof.
  induction ops as [|o ops IH]; intros h l Hi H; cbn [hrun] in H.
  - inversion H; subst. constructor.
  - destruct (hstep cf h o) as [[h1 ob1]| |] eqn:E; cbn [bind fst] in H; try discriminate.
    destruct (hrun cf h1 ops) as [rest| |] eqn:E2; cbn [bind fst] in H; try discriminate.
    inversion H; subst. constructor.
    + cbn [fst]. eapply hstep_inv; eauto.
    + eapply IH; [|exact E2]. eapply hstep_inv; eauto.
Qed.

Lemma h_init_inv : Inv (h_td h_init).
Proof. apply Inv_empty. Qed.

(** * the lengths the iterators report (C01, second clause), through the iterator models *)
From TD Require Import Model.View Spec.Ideal Proofs.RowsSim Proofs.ColSim Proofs.ViewGeom.

Section Lengths.
Context {A : Type}.
Implicit Type t : toodee A.

Definition as_view t : view := view_of_owned (num_cols t) (num_rows t) (length (data t)).

Lemma as_view_wf t : Inv t -> (N.of_nat (length (data t)) < W)%N -> wf_view (as_view t).
Proof.
  intros [Hl Hz] Hw. unfold as_view. rewrite Hl in *. apply wf_view_owned; assumption.
Qed.

Lemma td_rows_as_view t : v_rows (as_view t) = Ok (td_rows t).
Proof.
  unfold v_rows, as_view, view_of_owned, td_rows, td_full, usub. cbn [vstride vcols vw].
  rewrite Nat.leb_refl, Nat.sub_diag. reflexivity.
Qed.

Lemma td_col_as_view t c : td_col t c = v_col KOwned (as_view t) c.
Proof. reflexivity. Qed.

Lemma view_rows_length v : length (view_rows v) = vrows v.
Proof. unfold view_rows. rewrite map_length, seq_length. reflexivity. Qed.
Lemma view_col_length v c : length (view_col v c) = vrows v.
Proof. unfold view_col. rewrite map_length, seq_length. reflexivity. Qed.

Theorem lengths_agree t :
  Inv t -> (N.of_nat (length (data t)) < W)%N ->
  rows_len (td_rows t) = num_rows t /\
  flat_len rows_ops (td_cells t) = num_cols t * num_rows t /\
  (forall c : N, (c < N.of_nat (num_cols t))%N ->
     exists it, td_col t c = Ok it /\ col_len it = num_rows t) /\
  (forall c : N, (N.of_nat (num_cols t) <= c)%N -> td_col t c = Panic).
Proof.
  intros Hi Hw. pose proof (as_view_wf t Hi Hw) as Hwf.
  destruct (v_rows_sim _ Hwf) as [it [E Hs]]. rewrite td_rows_as_view in E. inversion E; subst it.
  assert (Hr : rows_len (td_rows t) = num_rows t).
  { rewrite (rows_sim_len _ _ Hs), view_rows_length. reflexivity. }
  split; [exact Hr|]. split; [|split].
  - unfold flat_len, td_cells, flat_new. cbn [fiter ffront fback rows_ops ro_num_cols ro_len].
    rewrite Hr. cbn [td_rows rcols]. lia.
  - intros c Hc. rewrite td_col_as_view.
    destruct (v_col_sim KOwned (as_view t) c Hwf Hc (fun _ => eq_refl)) as [it [E2 Hs2]].
    exists it. split; [exact E2|]. rewrite (col_sim_len _ _ Hs2), view_col_length. reflexivity.
  - intros c Hc. rewrite td_col_as_view. apply v_col_reject. exact Hc.
Qed.

End Lengths.
