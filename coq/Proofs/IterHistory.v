(** From one-step simulation to every call history (C08, C09): the three-line induction of
    DESIGN 5.4, over the family-3 runner so that the theorem speaks about exactly what the
    correspondence executes. *)
From TD Require Import Base.Prelude Base.Codec Model.Iter Model.Flatten Model.View Model.IterRun
  Spec.Ideal Proofs.ListLemmas Proofs.RowsSim Proofs.ColSim Proofs.FlatSim.

(** simulation between a cursor state and an ideal sequence *)
Definition st_sim (s : istate) (q : iseq) : Prop :=
  match s, q with
  | SRows it, QRows l => rows_sim it l
  | SCol it, QCells l => col_sim it l
  | SCells it, QCells l => flat_sim it l
  | _, _ => False
  end.

(** cell iterators have no [Index]; the call alphabet excludes it for them *)
Definition is_cells (s : istate) : bool := match s with SCells _ => true | _ => false end.
Definition is_index (c : icall) : bool := match c with IIndex _ => true | _ => false end.
Definition call_ok (s : istate) (c : icall) : Prop := is_cells s = true -> is_index c = false.

Lemma icall_step_kind dbg s c y s' : icall_step dbg s c = Ok (y, s') -> is_cells s' = is_cells s.
Proof.
  destruct s as [it|it|it], c; cbn [icall_step]; unfold lift_rows, lift_col, lift_cells; intros H;
    repeat match type of H with
    | bind ?r _ = _ => destruct r as [[? ?]| |]; cbn [bind] in H; try discriminate
    end; inversion H; reflexivity.
Qed.

Lemma step_sim dbg s q c :
  st_sim s q -> call_ok s c ->
  exists y s' q', icall_step dbg s c = Ok (y, s') /\ ideal_call q c = (y, q') /\ st_sim s' q'.
Proof.
  destruct s as [it|it|it], q as [l|l]; cbn [st_sim]; intros Hs Hok; try contradiction.
  - (* rows *)
    destruct c as [| |n|n| |i]; cbn [icall_step ideal_call].
    + destruct (rows_sim_next it l Hs) as [it' [E Hs']]. rewrite E. cbn [lift_rows bind fst snd].
      destruct (i_next l) as [x l']. do 3 eexists. split; [reflexivity|]. split; [reflexivity|exact Hs'].
    + destruct (rows_sim_next_back it l Hs) as [it' [E Hs']]. rewrite E. cbn [lift_rows bind fst snd].
      destruct (i_next_back l) as [x l']. do 3 eexists. split; [reflexivity|]. split; [reflexivity|exact Hs'].
    + destruct (rows_sim_nth it l n Hs) as [it' [E Hs']]. rewrite E. cbn [lift_rows bind fst snd].
      destruct (i_nth n l) as [x l']. do 3 eexists. split; [reflexivity|]. split; [reflexivity|exact Hs'].
    + destruct (rows_sim_nth_back it l n Hs) as [it' [E Hs']]. rewrite E. cbn [lift_rows bind fst snd].
      destruct (i_nth_back n l) as [x l']. do 3 eexists. split; [reflexivity|]. split; [reflexivity|exact Hs'].
    + rewrite (rows_sim_len it l Hs). do 3 eexists. split; [reflexivity|]. split; [reflexivity|exact Hs].
    + do 3 eexists. split; [reflexivity|]. split; [reflexivity|exact Hs].
  - (* column *)
    destruct c as [| |n|n| |i]; cbn [icall_step ideal_call].
    + destruct (col_sim_next it l Hs) as [it' [E Hs']]. rewrite E. cbn [lift_col bind fst snd].
      destruct (i_next l) as [x l']. do 3 eexists. split; [reflexivity|]. split; [reflexivity|exact Hs'].
    + destruct (col_sim_next_back it l Hs) as [it' [E Hs']]. rewrite E. cbn [lift_col bind fst snd].
      destruct (i_next_back l) as [x l']. do 3 eexists. split; [reflexivity|]. split; [reflexivity|exact Hs'].
    + destruct (col_sim_nth it l n Hs) as [it' [E Hs']]. rewrite E. cbn [lift_col bind fst snd].
      destruct (i_nth n l) as [x l']. do 3 eexists. split; [reflexivity|]. split; [reflexivity|exact Hs'].
    + destruct (col_sim_nth_back it l n Hs) as [it' [E Hs']]. rewrite E. cbn [lift_col bind fst snd].
      destruct (i_nth_back n l) as [x l']. do 3 eexists. split; [reflexivity|]. split; [reflexivity|exact Hs'].
    + rewrite (col_sim_len it l Hs). do 3 eexists. split; [reflexivity|]. split; [reflexivity|exact Hs].
    + rewrite (col_index_ok it l i Hs). do 3 eexists. split; [reflexivity|]. split; [reflexivity|exact Hs].
  - (* cells *)
    destruct c as [| |n|n| |i]; cbn [icall_step ideal_call].
    + destruct (flat_sim_next it l Hs) as [it' [E Hs']]. rewrite E. cbn [lift_cells bind fst snd].
      destruct (i_next l) as [x l']. do 3 eexists. split; [reflexivity|]. split; [reflexivity|exact Hs'].
    + destruct (flat_sim_next_back it l Hs) as [it' [E Hs']]. rewrite E. cbn [lift_cells bind fst snd].
      destruct (i_next_back l) as [x l']. do 3 eexists. split; [reflexivity|]. split; [reflexivity|exact Hs'].
    + destruct (flat_sim_nth dbg it l n Hs) as [it' [E Hs']]. rewrite E. cbn [lift_cells bind fst snd].
      destruct (i_nth n l) as [x l']. do 3 eexists. split; [reflexivity|]. split; [reflexivity|exact Hs'].
    + destruct (flat_sim_nth_back dbg it l n Hs) as [it' [E Hs']]. rewrite E. cbn [lift_cells bind fst snd].
      destruct (i_nth_back n l) as [x l']. do 3 eexists. split; [reflexivity|]. split; [reflexivity|exact Hs'].
    + rewrite (flat_sim_len it l Hs). do 3 eexists. split; [reflexivity|]. split; [reflexivity|exact Hs].
    + specialize (Hok eq_refl). discriminate.
Qed.

(** every finite call history, of any length: same results, same writes *)
Theorem history_sim dbg mutable : forall calls k s q b,
  st_sim s q -> Forall (call_ok s) calls ->
  exists o s' q' b',
    icalls dbg mutable k s calls b = Ok (o, s', b') /\
    ideal_calls mutable k q calls b = (o, q', b') /\ st_sim s' q'.
Proof.
  induction calls as [|c calls IH]; intros k s q b Hs Hok.
  - do 4 eexists. split; [reflexivity|]. split; [reflexivity|exact Hs].
  - cbn [icalls ideal_calls]. inversion Hok as [|c' calls' Hc Hrest]; subst.
    destruct (step_sim dbg s q c Hs Hc) as [y [s1 [q1 [E1 [E2 Hs1]]]]].
    rewrite E1, E2. cbn [bind].
    assert (Hok1 : Forall (call_ok s1) calls).
    { eapply Forall_impl; [|exact Hrest]. intros a Ha. unfold call_ok in *.
      rewrite (icall_step_kind dbg s c y s1 E1). exact Ha. }
    destruct (IH (S k) s1 q1 (if mutable then apply_mark k y b else b) Hs1 Hok1)
      as [o [s' [q' [b' [E3 [E4 Hs']]]]]].
    rewrite E3, E4. cbn [bind]. do 4 eexists. split; [reflexivity|]. split; [reflexivity|exact Hs'].
Qed.

(** terminal operations: count, last, fold, rfold *)
Lemma term_sim s q t :
  st_sim s q -> (match s, t with SCol _, TRfold => False | _, _ => True end) ->
  iterm_step s t = Ok (ideal_term q t).
Proof.
  destruct s as [it|it|it], q as [l|l]; cbn [st_sim]; intros Hs Ht; try contradiction.
  - destruct t; cbn [iterm_step ideal_term].
    + rewrite (rows_sim_len it l Hs). reflexivity.
    + destruct (rows_sim_next_back it l Hs) as [it' [E _]]. rewrite E. reflexivity.
    + rewrite (rows_fold_ok it l Hs). reflexivity.
    + rewrite (rows_rfold_ok it l Hs). reflexivity.
    + reflexivity.
  - destruct t; cbn [iterm_step ideal_term]; try contradiction.
    + rewrite (col_sim_len it l Hs). reflexivity.
    + destruct (col_sim_next_back it l Hs) as [it' [E _]]. rewrite E. reflexivity.
    + rewrite (col_fold_ok it l Hs). reflexivity.
    + reflexivity.
  - destruct t; cbn [iterm_step ideal_term].
    + rewrite (flat_sim_len it l Hs). reflexivity.
    + destruct (flat_sim_next_back it l Hs) as [it' [E _]]. rewrite E. reflexivity.
    + rewrite (flat_sim_fold it l Hs). reflexivity.
    + rewrite (flat_sim_rfold it l Hs). reflexivity.
    + reflexivity.
Qed.

Lemma call_ok_not_cells s c : is_cells s = false -> call_ok s c.
Proof. unfold call_ok. intros H H1. congruence. Qed.
Lemma calls_ok_not_cells s calls : is_cells s = false -> Forall (call_ok s) calls.
Proof. intros H. apply Forall_forall. intros c _. apply call_ok_not_cells. exact H. Qed.
