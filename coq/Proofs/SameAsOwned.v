(** C04, second clause: every mutating trait operation applied through a view has, inside the
    view's rectangle, the effect the same call has on an owned array holding the same cells.
    Fill and the swaps are in OpsProofs; here the flips, translate_with_wrap, copy_within,
    copy_from_slice / clone_from_slice and the sorts - each a corollary of the operation's
    coordinate specification, which does not mention the stride. *)
From Coq Require Import Permutation.
From TD Require Import Base.Prelude Model.Iter Model.View Model.Ops Proofs.ListLemmas Proofs.ViewGeom Proofs.Frame
  Proofs.OpsProofs Proofs.FlipProofs Proofs.CopyProofs Proofs.TranslateProofs Proofs.SortProofs.

Theorem flip_cols_same_as_owned v b v0 b0 :
  wf_view v -> fits v b -> wf_view v0 -> fits v0 b0 -> same_cells v b v0 b0 ->
  exists b' b0', op_flip_cols v b = Ok b' /\ op_flip_cols v0 b0 = Ok b0' /\ same_cells v b' v0 b0'.
Proof.
  intros Hwf Hb Hwf0 Hb0 Hsame. pose proof Hsame as [Hc [Hr _]].
  destruct (op_flip_cols_spec v b Hwf Hb) as [b' [E [_ [_ Hin]]]].
  destruct (op_flip_cols_spec v0 b0 Hwf0 Hb0) as [b0' [E0 [_ [_ Hin0]]]].
  exists b', b0'. split; [exact E|]. split; [exact E0|].
  apply (same_cells_map v b b' v0 b0 b0' (fun c _ => vcols v - 1 - c) (fun _ r => r) Hsame).
  - intros c r Hcc Hrr. split; [lia|exact Hrr].
  - exact Hin.
  - intros c r Hcc Hrr. rewrite Hin0 by assumption. rewrite Hc. reflexivity.
Qed.

Theorem flip_rows_same_as_owned v b v0 b0 :
  wf_view v -> fits v b -> wf_view v0 -> fits v0 b0 -> same_cells v b v0 b0 ->
  exists b' b0', op_flip_rows v b = Ok b' /\ op_flip_rows v0 b0 = Ok b0' /\ same_cells v b' v0 b0'.
Proof.
  intros Hwf Hb Hwf0 Hb0 Hsame. pose proof Hsame as [Hc [Hr _]].
  destruct (op_flip_rows_spec v b Hwf Hb) as [b' [E [_ [_ Hin]]]].
  destruct (op_flip_rows_spec v0 b0 Hwf0 Hb0) as [b0' [E0 [_ [_ Hin0]]]].
  exists b', b0'. split; [exact E|]. split; [exact E0|].
  apply (same_cells_map v b b' v0 b0 b0' (fun c _ => c) (fun _ r => vrows v - 1 - r) Hsame).
  - intros c r Hcc Hrr. split; [exact Hcc|lia].
  - exact Hin.
  - intros c r Hcc Hrr. rewrite Hin0 by assumption. rewrite Hr. reflexivity.
Qed.

Theorem translate_same_as_owned v b v0 b0 (mc mr : N) :
  wf_view v -> fits v b -> wf_view v0 -> fits v0 b0 -> same_cells v b v0 b0 ->
  (mc <= N.of_nat (vcols v))%N -> (mr <= N.of_nat (vrows v))%N ->
  exists b' b0', op_translate v b mc mr = Ok b' /\ op_translate v0 b0 mc mr = Ok b0' /\ same_cells v b' v0 b0'.
Proof.
  intros Hwf Hb Hwf0 Hb0 Hsame Hmc Hmr. pose proof Hsame as [Hc [Hr _]].
  destruct (op_translate_spec v b mc mr Hwf Hb Hmc Hmr) as [b' [E [_ [_ Hin]]]].
  destruct (op_translate_spec v0 b0 mc mr Hwf0 Hb0) as [b0' [E0 [_ [_ Hin0]]]]; [lia|lia|].
  exists b', b0'. split; [exact E|]. split; [exact E0|].
  apply (same_cells_map v b b' v0 b0 b0' (fun c _ => (c + N.to_nat mc) mod vcols v) (fun _ r => (r + N.to_nat mr) mod vrows v) Hsame).
  - intros c r Hcc Hrr. split; apply Nat.mod_upper_bound; lia.
  - exact Hin.
  - intros c r Hcc Hrr. rewrite Hin0 by assumption. rewrite Hc, Hr. reflexivity.
Qed.

Theorem copy_within_same_as_owned oc v b v0 b0 (x0 y0 x1 y1 dx dy : N) :
  wf_view v -> fits v b -> wf_view v0 -> fits v0 b0 -> same_cells v b v0 b0 ->
  (x0 <= x1)%N -> (y0 <= y1)%N -> (x1 <= N.of_nat (vcols v))%N -> (y1 <= N.of_nat (vrows v))%N ->
  (dx + (x1 - x0) <= N.of_nat (vcols v))%N -> (dy + (y1 - y0) <= N.of_nat (vrows v))%N ->
  (N.of_nat (vcols v) < W)%N -> (N.of_nat (vrows v) < W)%N ->
  exists b' b0', op_copy_within oc v b x0 y0 x1 y1 dx dy = Ok b' /\
                 op_copy_within oc v0 b0 x0 y0 x1 y1 dx dy = Ok b0' /\ same_cells v b' v0 b0'.
Proof.
  intros Hwf Hb Hwf0 Hb0 Hsame Hx Hy Hx1 Hy1 Hdx Hdy Hcw Hrw. pose proof Hsame as [Hc [Hr _]].
  destruct (op_copy_within_spec oc v b x0 y0 x1 y1 dx dy Hwf Hb Hx Hy Hx1 Hy1 Hdx Hdy Hcw Hrw) as [b' [E [_ [_ Hin]]]].
  destruct (op_copy_within_spec oc v0 b0 x0 y0 x1 y1 dx dy Hwf0 Hb0 Hx Hy) as [b0' [E0 [_ [_ Hin0]]]]; try lia.
  exists b', b0'. split; [exact E|]. split; [exact E0|].
  set (inr := fun c r => (N.to_nat dx <=? c) && (c <? N.to_nat dx + (N.to_nat x1 - N.to_nat x0))
                         && (N.to_nat dy <=? r) && (r <? N.to_nat dy + (N.to_nat y1 - N.to_nat y0))).
  apply (same_cells_map v b b' v0 b0 b0'
           (fun c r => if inr c r then c - N.to_nat dx + N.to_nat x0 else c)
           (fun c r => if inr c r then r - N.to_nat dy + N.to_nat y0 else r) Hsame).
  - intros c r Hcc Hrr. unfold inr.
    destruct (Nat.leb_spec (N.to_nat dx) c); destruct (Nat.ltb_spec c (N.to_nat dx + (N.to_nat x1 - N.to_nat x0)));
      destruct (Nat.leb_spec (N.to_nat dy) r); destruct (Nat.ltb_spec r (N.to_nat dy + (N.to_nat y1 - N.to_nat y0)));
      cbn [andb]; split; lia.
  - intros c r Hcc Hrr. rewrite Hin by assumption. fold (inr c r). destruct (inr c r); reflexivity.
  - intros c r Hcc Hrr. rewrite Hin0 by assumption. fold (inr c r). destruct (inr c r); reflexivity.
Qed.

Theorem copy_from_slice_same_as_owned k v b v0 b0 (src : list N) :
  wf_view v -> fits v b -> (k = KOwned -> vstride v = vcols v) ->
  wf_view v0 -> fits v0 b0 -> vstride v0 = vcols v0 -> same_cells v b v0 b0 ->
  length src = vcols v * vrows v ->
  exists b' b0', op_copy_from_slice k v b src = Ok b' /\ op_copy_from_slice KOwned v0 b0 src = Ok b0' /\
                 same_cells v b' v0 b0'.
Proof.
  intros Hwf Hb Hk Hwf0 Hb0 Hs0 [Hc [Hr _]] Hlen.
  destruct (op_copy_from_slice_spec k v b src Hwf Hb Hk Hlen) as [b' [E [_ [_ Hin]]]].
  destruct (op_copy_from_slice_spec KOwned v0 b0 src Hwf0 Hb0 (fun _ => Hs0)) as [b0' [E0 [_ [_ Hin0]]]];
    [rewrite <- Hc, <- Hr; exact Hlen|].
  exists b', b0'. split; [exact E|]. split; [exact E0|]. split; [exact Hc|]. split; [exact Hr|].
  intros c r Hcc Hrr. rewrite Hin, Hin0 by lia. rewrite Hc. reflexivity.
Qed.

Lemma sigma_at_lt s n c : Permutation s (seq 0 n) -> c < n -> sigma_at s c < n.
Proof.
  intros Hp Hc. assert (Hl : length s = n) by (rewrite (Permutation_length Hp), seq_length; reflexivity).
  assert (Hin : In (sigma_at s c) s) by (unfold sigma_at; apply nth_In; lia).
  apply (Permutation_in _ Hp) in Hin. apply in_seq in Hin. lia.
Qed.

(** the sorts: equal cells give equal key lines, hence the same permutation *)
Lemma same_cells_row_of v b v0 b0 r : same_cells v b v0 b0 -> r < vrows v -> fits v b -> fits v0 b0 ->
  wf_view v -> wf_view v0 -> row_of v b r = row_of v0 b0 r.
Proof.
  intros [Hc [Hr Hs]] Hrr Hb Hb0 Hwf Hwf0. apply list_ext. intros c.
  destruct (Nat.lt_ge_cases c (vcols v)) as [Hcc|Hcc].
  - rewrite (row_of_nth v b r c Hcc), (row_of_nth v0 b0 r c ltac:(lia)). apply Hs; assumption.
  - assert (L1 : length (row_of v b r) = vcols v).
    { unfold row_of. apply slice_length. pose proof (row_win_inside v r Hwf Hrr) as [_ H2].
      unfold fits in Hb. cbn [row_win off len] in *. lia. }
    assert (L2 : length (row_of v0 b0 r) = vcols v0).
    { unfold row_of. apply slice_length. pose proof (row_win_inside v0 r Hwf0 ltac:(lia)) as [_ H2].
      unfold fits in Hb0. cbn [row_win off len] in *. lia. }
    rewrite !nth_error_ge_None; [reflexivity|lia|lia].
Qed.

Theorem sort_by_row_same_as_owned v b v0 b0 (row : N) stable by_key (sigma : list nat) :
  wf_view v -> fits v b -> wf_view v0 -> fits v0 b0 -> same_cells v b v0 b0 ->
  (row < N.of_nat (vrows v))%N -> (stable = false -> Permutation sigma (seq 0 (vcols v))) ->
  exists b' b0', op_sort_by_row v b row stable by_key sigma = Ok b' /\
                 op_sort_by_row v0 b0 row stable by_key sigma = Ok b0' /\ same_cells v b' v0 b0'.
Proof.
  intros Hwf Hb Hwf0 Hb0 Hsame Hrow Hun. pose proof Hsame as [Hc [Hr _]].
  destruct (op_sort_by_row_spec v b row stable by_key sigma Hwf Hb Hrow Hun) as [Hp [b' [E [_ [_ Hin]]]]].
  destruct (op_sort_by_row_spec v0 b0 row stable by_key sigma Hwf0 Hb0) as [_ [b0' [E0 [_ [_ Hin0]]]]];
    [lia|intros Hst; rewrite <- Hc; exact (Hun Hst)|].
  exists b', b0'. split; [exact E|]. split; [exact E0|].
  rewrite <- (same_cells_row_of v b v0 b0 (N.to_nat row) Hsame ltac:(lia) Hb Hb0 Hwf Hwf0) in Hin0.
  set (s := sigma_of stable by_key (row_of v b (N.to_nat row)) sigma) in *.
  apply (same_cells_map v b b' v0 b0 b0' (fun c _ => sigma_at s c) (fun _ r => r) Hsame).
  - intros c r Hcc Hrr. split; [|exact Hrr]. apply (sigma_at_lt s (vcols v) c Hp Hcc).
  - exact Hin.
  - exact Hin0.
Qed.

Lemma same_cells_col_of v b v0 b0 c : same_cells v b v0 b0 -> c < vcols v -> col_of v b c = col_of v0 b0 c.
Proof.
  intros [Hc [Hr Hs]] Hcc. unfold col_of. rewrite <- Hr. apply map_ext_in. intros r Hin. apply in_seq in Hin.
  pose proof (Hs c r Hcc ltac:(lia)) as He.
  destruct (nth_error b (v_cell v c r)) as [x|] eqn:E1; destruct (nth_error b0 (v_cell v0 c r)) as [y|] eqn:E2; try discriminate.
  - rewrite (nth_error_nth _ _ _ E1), (nth_error_nth _ _ _ E2). congruence.
  - apply nth_error_None in E1. apply nth_error_None in E2. rewrite !nth_overflow by assumption. reflexivity.
Qed.

Theorem sort_by_col_same_as_owned k v b v0 b0 (col : N) stable by_key (sigma : list nat) :
  wf_view v -> fits v b -> (k = KOwned -> vstride v = vcols v) ->
  wf_view v0 -> fits v0 b0 -> vstride v0 = vcols v0 -> same_cells v b v0 b0 ->
  (col < N.of_nat (vcols v))%N -> (stable = false -> Permutation sigma (seq 0 (vrows v))) ->
  exists b' b0', op_sort_by_col k v b col stable by_key sigma = Ok b' /\
                 op_sort_by_col KOwned v0 b0 col stable by_key sigma = Ok b0' /\ same_cells v b' v0 b0'.
Proof.
  intros Hwf Hb Hk Hwf0 Hb0 Hs0 Hsame Hcol Hun. pose proof Hsame as [Hc [Hr _]].
  destruct (op_sort_by_col_spec k v b col stable by_key sigma Hwf Hb Hk Hcol Hun) as [Hp [b' [E [_ [_ Hin]]]]].
  destruct (op_sort_by_col_spec KOwned v0 b0 col stable by_key sigma Hwf0 Hb0 (fun _ => Hs0)) as [_ [b0' [E0 [_ [_ Hin0]]]]];
    [lia|intros Hst; rewrite <- Hr; exact (Hun Hst)|].
  exists b', b0'. split; [exact E|]. split; [exact E0|].
  rewrite <- (same_cells_col_of v b v0 b0 (N.to_nat col) Hsame ltac:(lia)) in Hin0.
  set (s := sigma_of stable by_key (col_of v b (N.to_nat col)) sigma) in *.
  apply (same_cells_map v b b' v0 b0 b0' (fun c _ => c) (fun _ r => sigma_at s r) Hsame).
  - intros c r Hcc Hrr. split; [exact Hcc|]. apply (sigma_at_lt s (vrows v) r Hp Hrr).
  - exact Hin.
  - exact Hin0.
Qed.

Theorem copy_from_toodee_same_as_owned k v b v0 b0 (srows : list (list N)) :
  wf_view v -> fits v b -> (k = KOwned -> vstride v = vcols v) ->
  wf_view v0 -> fits v0 b0 -> vstride v0 = vcols v0 -> same_cells v b v0 b0 ->
  length srows = vrows v -> Forall (fun r => length r = vcols v) srows ->
  exists b' b0', op_copy_from_toodee k v b (vcols v, vrows v) srows = Ok b' /\
                 op_copy_from_toodee KOwned v0 b0 (vcols v0, vrows v0) srows = Ok b0' /\ same_cells v b' v0 b0'.
Proof.
  intros Hwf Hb Hk Hwf0 Hb0 Hs0 [Hc [Hr _]] Hlen Hall.
  destruct (op_copy_from_toodee_spec k v b srows Hwf Hb Hk Hlen Hall) as [b' [E [_ [_ Hin]]]].
  destruct (op_copy_from_toodee_spec KOwned v0 b0 srows Hwf0 Hb0 (fun _ => Hs0)) as [b0' [E0 [_ [_ Hin0]]]];
    [lia|rewrite <- Hc; exact Hall|].
  exists b', b0'. split; [exact E|]. split; [exact E0|]. split; [exact Hc|]. split; [exact Hr|].
  intros c r Hcc Hrr. destruct (nth_error srows r) as [s|] eqn:Es; [|apply nth_error_None in Es; lia].
  rewrite (Hin c r s Hcc Es), (Hin0 c r s ltac:(lia) Es). reflexivity.
Qed.
