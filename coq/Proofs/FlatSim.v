(** C10: [FlattenExact] over the row cursor simulates the ideal double-ended exact-size
    sequence of all cells in row-major order, for every [n < 2^64] and every combination of
    absent / partial / exhausted front and back rows. *)
From TD Require Import Base.Prelude Model.Iter Model.Flatten Spec.Ideal
  Proofs.ListLemmas Proofs.RowsSim Proofs.ColSim.

(** * closed forms of the ideal operations *)
Lemma i_nth_closed {X} (n : N) (l : list X) :
  i_nth n l = if (N.of_nat (length l) <=? n)%N then (None, [])
              else (nth_error l (N.to_nat n), skipn (S (N.to_nat n)) l).
Proof.
  unfold i_nth. destruct (N.leb_spec (N.of_nat (length l)) n) as [|Hlt]; [reflexivity|].
  unfold i_next. remember (N.to_nat n) as k. assert (Hk : k < length l) by lia. clear Heqk Hlt.
  revert k Hk. induction l as [|x l IH]; intros [|k] Hk; cbn in *; try lia; try reflexivity.
  apply IH. lia.
Qed.

Lemma i_next_back_closed {X} (l : list X) :
  i_next_back l = match l with
                  | [] => (None, [])
                  | _ => (nth_error l (length l - 1), firstn (length l - 1) l)
                  end.
Proof.
  destruct l as [|x l]; [reflexivity|].
  destruct (@exists_last _ (x :: l)) as [l' [y E]]; [discriminate|]. rewrite E.
  rewrite i_next_back_snoc. rewrite app_length. cbn [length].
  replace (length l' + 1 - 1) with (length l') by lia.
  rewrite nth_error_app. destruct (Nat.ltb_spec (length l') (length l')); [lia|].
  rewrite Nat.sub_diag. cbn [nth_error].
  rewrite firstn_app, Nat.sub_diag, firstn_O, app_nil_r, firstn_all.
  destruct (l' ++ [y]) eqn:E2; [destruct l'; discriminate|reflexivity].
Qed.

Lemma i_nth_back_closed {X} (n : N) (l : list X) :
  i_nth_back n l = if (N.of_nat (length l) <=? n)%N then (None, [])
                   else (nth_error l (length l - 1 - N.to_nat n), firstn (length l - 1 - N.to_nat n) l).
Proof.
  unfold i_nth_back. destruct (N.leb_spec (N.of_nat (length l)) n) as [|Hlt]; [reflexivity|].
  rewrite i_next_back_closed.
  set (k := length l - N.to_nat n). assert (Hk : 0 < k <= length l) by (subst k; lia).
  destruct (firstn k l) eqn:E.
  - apply (f_equal (@length X)) in E. rewrite firstn_length in E. cbn in E. lia.
  - rewrite <- E. rewrite firstn_length. replace (Nat.min k (length l)) with k by lia.
    rewrite nth_error_firstn. destruct (Nat.ltb_spec (k - 1) k); [|lia].
    rewrite firstn_firstn. replace (Nat.min (k - 1) k) with (k - 1) by lia.
    replace (length l - 1 - N.to_nat n) with (k - 1) by (subst k; lia). reflexivity.
Qed.

Lemma i_next_closed {X} (l : list X) : i_next l = (nth_error l 0, skipn 1 l).
Proof. destruct l; reflexivity. Qed.

Lemma skipn_seq k : forall s n, skipn k (seq s n) = seq (s + k) (n - k).
Proof.
  induction k as [|k IH]; intros s n.
  - rewrite Nat.add_0_r, Nat.sub_0_r. reflexivity.
  - destruct n as [|n]; [reflexivity|]. cbn [seq skipn]. rewrite IH. f_equal; lia.
Qed.
Lemma firstn_seq k : forall s n, firstn k (seq s n) = seq s (Nat.min k n).
Proof.
  induction k as [|k IH]; intros s n; [reflexivity|].
  destruct n as [|n]; [reflexivity|]. cbn [seq firstn Nat.min]. rewrite IH. reflexivity.
Qed.

(** * the inner [slice::Iter] *)
Lemma si_cells_length w : length (si_cells w) = len w.
Proof. unfold si_cells. apply seq_length. Qed.

Lemma si_next_ok w : si_next w = (fst (i_next (si_cells w)), snd (si_next w)) /\
                     si_cells (snd (si_next w)) = snd (i_next (si_cells w)).
Proof.
  unfold si_next, si_cells, sl_is_empty. destruct w as [o [|l]]; cbn [off len Nat.eqb seq i_next fst snd].
  - split; reflexivity.
  - split; [reflexivity|]. f_equal; lia.
Qed.

Lemma seq_snoc s n : seq s (S n) = seq s n ++ [s + n].
Proof. rewrite seq_S. reflexivity. Qed.

Lemma si_next_back_ok w : si_next_back w = (fst (i_next_back (si_cells w)), snd (si_next_back w)) /\
                          si_cells (snd (si_next_back w)) = snd (i_next_back (si_cells w)).
Proof.
  unfold si_next_back, si_cells, sl_is_empty. destruct w as [o [|l]]; cbn [off len Nat.eqb fst snd].
  - split; reflexivity.
  - rewrite seq_snoc, i_next_back_snoc. cbn [fst snd]. split; [f_equal; f_equal; lia|f_equal; lia].
Qed.

Lemma si_nth_ok w n : si_nth w n = (fst (i_nth n (si_cells w)), snd (si_nth w n)) /\
                      si_cells (snd (si_nth w n)) = snd (i_nth n (si_cells w)).
Proof.
  rewrite i_nth_closed, si_cells_length. unfold si_nth.
  destruct (N.leb_spec (N.of_nat (len w)) n) as [|Hlt]; cbn [fst snd].
  - split; reflexivity.
  - unfold si_next, sl_is_empty. cbn [len off].
    destruct (Nat.eqb_spec (len w - N.to_nat n) 0); [lia|]. cbn [fst snd].
    unfold si_cells. cbn [off len]. rewrite nth_error_seq.
    destruct (Nat.ltb_spec (N.to_nat n) (len w)); [|lia]. split; [reflexivity|].
    rewrite skipn_seq. f_equal; lia.
Qed.

Lemma si_nth_back_ok w n : si_nth_back w n = (fst (i_nth_back n (si_cells w)), snd (si_nth_back w n)) /\
                           si_cells (snd (si_nth_back w n)) = snd (i_nth_back n (si_cells w)).
Proof.
  rewrite i_nth_back_closed, si_cells_length. unfold si_nth_back.
  destruct (N.leb_spec (N.of_nat (len w)) n) as [|Hlt]; cbn [fst snd].
  - split; reflexivity.
  - unfold si_next_back, sl_is_empty. cbn [len off].
    destruct (Nat.eqb_spec (len w - N.to_nat n) 0); [lia|]. cbn [fst snd].
    unfold si_cells. cbn [off len]. rewrite nth_error_seq.
    destruct (Nat.ltb_spec (len w - 1 - N.to_nat n) (len w)); [|lia]. split; [f_equal; f_equal; lia|].
    rewrite firstn_seq. f_equal; lia.
Qed.

(** * abstraction of a [FlattenExact] state *)
Definition ocells (o : option sl) : list nat := match o with Some w => si_cells w | None => [] end.
Definition rows_cells (rows : list sl) : list nat := concat (map si_cells rows).
Definition uniform (nc : nat) (rows : list sl) : Prop := Forall (fun w => len w = nc) rows.

Definition flat_sim (s : flat (I:=rows_it)) (l : list nat) : Prop :=
  exists rows, rows_sim (fiter s) rows /\
    l = ocells (ffront s) ++ rows_cells rows ++ ocells (fback s) /\
    (rcols (fiter s) = 0 -> ocells (ffront s) = [] /\ ocells (fback s) = []).

Lemma rows_sim_uniform it rows :
  rows_sim it rows -> uniform (rcols it) rows /\ (rows <> [] -> 0 < rcols it).
Proof.
  intros [k [[_ HR] <-]]. split.
  - unfold uniform, rows_abs. apply Forall_forall. intros w Hin. apply in_map_iff in Hin.
    destruct Hin as [j [<- _]]. reflexivity.
  - intros Hne. destruct k as [|k]; [exfalso; apply Hne; reflexivity|]. tauto.
Qed.

Lemma rows_cells_cons w rows : rows_cells (w :: rows) = si_cells w ++ rows_cells rows.
Proof. reflexivity. Qed.

Lemma rows_cells_length nc rows : uniform nc rows -> length (rows_cells rows) = nc * length rows.
Proof.
  induction 1 as [|w rows Hw _ IH]; [cbn; lia|].
  rewrite rows_cells_cons, app_length, si_cells_length, IH, Hw. cbn [length]. lia.
Qed.

Lemma rows_cells_skipn nc rows : uniform nc rows -> forall q,
  skipn (q * nc) (rows_cells rows) = rows_cells (skipn q rows).
Proof.
  induction 1 as [|w rows Hw Hu IH]; intros q.
  - rewrite !skipn_nil. reflexivity.
  - destruct q as [|q]; [reflexivity|].
    rewrite rows_cells_cons. cbn [skipn Nat.mul].
    rewrite skipn_app, si_cells_length, Hw.
    rewrite skipn_all2 by (rewrite si_cells_length; lia). cbn [app].
    replace (nc + q * nc - nc) with (q * nc) by lia. apply IH.
Qed.

Lemma rows_cells_app a b : rows_cells (a ++ b) = rows_cells a ++ rows_cells b.
Proof. unfold rows_cells. rewrite map_app, concat_app. reflexivity. Qed.

Lemma uniform_firstn nc rows q : uniform nc rows -> uniform nc (firstn q rows).
Proof.
  intros H. apply Forall_forall. intros w Hin. apply (proj1 (Forall_forall _ _) H).
  rewrite <- (firstn_skipn q rows). apply in_or_app. left. exact Hin.
Qed.
Lemma uniform_skipn nc rows q : uniform nc rows -> uniform nc (skipn q rows).
Proof.
  intros H. apply Forall_forall. intros w Hin. apply (proj1 (Forall_forall _ _) H).
  rewrite <- (firstn_skipn q rows). apply in_or_app. right. exact Hin.
Qed.

Lemma rows_cells_firstn nc rows q : uniform nc rows -> q <= length rows ->
  firstn (q * nc) (rows_cells rows) = rows_cells (firstn q rows).
Proof.
  intros Hu Hq. rewrite <- (firstn_skipn q rows) at 1. rewrite rows_cells_app.
  rewrite firstn_app.
  rewrite (rows_cells_length nc) by (apply uniform_firstn; exact Hu).
  rewrite firstn_length. replace (Nat.min q (length rows)) with q by lia.
  replace (q * nc - nc * q) with 0 by lia. rewrite firstn_O, app_nil_r.
  apply firstn_all2. rewrite (rows_cells_length nc) by (apply uniform_firstn; exact Hu).
  rewrite firstn_length. replace (Nat.min q (length rows)) with q by lia. lia.
Qed.

Lemma ocells_length o : length (ocells o) = match o with Some w => len w | None => 0 end.
Proof. destruct o; [apply si_cells_length|reflexivity]. Qed.

(** * next *)
Lemma flat_sim_next s l : flat_sim s l ->
  exists s', flat_next rows_ops s = Ok (fst (i_next l), s') /\ flat_sim s' (snd (i_next l)).
Proof.
  intros [rows [Hs [-> Hz]]]. unfold flat_next.
  cbn [rows_ops ro_len]. rewrite (rows_sim_len _ _ Hs).
  destruct s as [it front back]; cbn [fiter ffront fback] in *.
  destruct (rows_sim_uniform _ _ Hs) as [Hu Hpos].
  (* is there a cell left in the front row? *)
  assert (Hfront : (exists w c w', front = Some w /\ si_next w = (Some c, w'))
                   \/ (ocells front = [] /\
                       match front with
                       | Some inner => match si_next inner with (Some c, i') => Some (c, i') | (None, _) => None end
                       | None => None end = None)).
  { destruct front as [w|]; [|right; split; reflexivity].
    destruct (si_next w) as [[c|] w'] eqn:E.
    - left. exists w, c, w'. split; [reflexivity|exact E].
    - right. split; [|reflexivity]. cbn [ocells].
      unfold si_next, sl_is_empty in E. destruct (Nat.eqb_spec (len w) 0) as [E0|]; [|discriminate].
      unfold si_cells. rewrite E0. reflexivity. }
  destruct Hfront as [[w [c [w' [-> E]]]]|[Hf0 Htry]].
  - (* yes *)
    cbn [flat_next_loop Nat.add ffront fiter fback]. rewrite E.
    destruct (si_next_ok w) as [E1 E2]. rewrite E in E1, E2. cbn [snd] in E1, E2.
    inversion E1 as [Hc]. cbn [ocells].
    destruct (si_cells w) as [|x cells] eqn:Ec; cbn [i_next fst snd] in *; [discriminate|].
    inversion Hc; subst x. cbn [app i_next fst snd].
    eexists. split; [reflexivity|]. exists rows. cbn [fiter ffront fback ocells].
    split; [exact Hs|]. split; [rewrite E2; reflexivity|].
    intros H0. destruct (Hz H0) as [Hx _]. cbn [ocells] in Hx. rewrite Ec in Hx. discriminate.
  - (* no: ask the row cursor *)
    cbn [flat_next_loop Nat.add ffront fiter fback]. rewrite Htry, Hf0. cbn [app].
    destruct (rows_sim_next it rows Hs) as [it' [En Hs']]. cbn [rows_ops ro_next]. rewrite En. cbn [bind].
    pose proof (rows_next_cols it _ En) as Hcols. cbn [snd] in Hcols.
    destruct rows as [|w rows']; cbn [i_next fst snd] in *.
    + (* no row left: the back row *)
      cbn [rows_cells map concat app].
      destruct back as [b|]; cbn [ocells].
      * destruct (si_next_ok b) as [E1 E2]. destruct (si_next b) as [c b'] eqn:Eb. cbn [snd] in E1, E2.
        inversion E1; subst c.
        eexists. split; [reflexivity|]. exists []. cbn [fiter ffront fback ocells rows_cells map concat app].
        split; [exact Hs'|]. split; [rewrite Hf0, E2; reflexivity|].
        intros H0. rewrite Hcols in H0. destruct (Hz H0) as [_ Hb]. cbn [ocells] in Hb.
        split; [exact Hf0|]. rewrite E2, Hb. reflexivity.
      * eexists. split; [reflexivity|]. exists []. cbn [fiter ffront fback ocells rows_cells map concat app].
        split; [exact Hs'|]. split; [rewrite Hf0; reflexivity|]. intros _. split; [exact Hf0|reflexivity].
    + (* a new front row, which has at least one cell *)
      assert (Hnc : 0 < rcols it) by (apply Hpos; discriminate).
      assert (Hw : len w = rcols it) by (inversion Hu; assumption).
      destruct (rows_len it') as [|f'] eqn:Ef; cbn [flat_next_loop ffront fiter fback];
      (destruct (si_next w) as [[c|] w'] eqn:E;
       [|unfold si_next, sl_is_empty in E; destruct (Nat.eqb_spec (len w) 0); [lia|discriminate]]);
      (destruct (si_next_ok w) as [E1 E2]; rewrite E in E1, E2; cbn [snd] in E1, E2;
       rewrite rows_cells_cons;
       destruct (si_cells w) as [|x cells] eqn:Ec; cbn [i_next fst snd] in *; [discriminate|];
       inversion E1; subst x; cbn [app i_next fst snd];
       eexists; (split; [reflexivity|]); exists rows'; cbn [fiter ffront fback ocells];
       split; [exact Hs'|]; split; [rewrite E2, <- app_assoc; reflexivity|];
       intros H0; rewrite Hcols in H0; lia).
Qed.

(** * next_back *)
Lemma list_eq_dec_nil {X} (l : list X) : {l = []} + {l <> []}.
Proof. destruct l; [left; reflexivity|right; discriminate]. Qed.

Lemma i_next_back_app {X} (a b : list X) : b <> [] ->
  i_next_back (a ++ b) = (fst (i_next_back b), a ++ snd (i_next_back b)).
Proof.
  intros Hb. destruct (exists_last Hb) as [b' [y ->]].
  rewrite app_assoc, !i_next_back_snoc. reflexivity.
Qed.

Lemma si_next_back_none w c w' : si_next_back w = (c, w') -> c = None -> si_cells w = [].
Proof.
  unfold si_next_back, sl_is_empty. destruct (Nat.eqb_spec (len w) 0) as [E0|]; intros E Hc.
  - unfold si_cells. rewrite E0. reflexivity.
  - inversion E; subst. discriminate.
Qed.

Lemma uniform_snoc nc rows w : uniform nc (rows ++ [w]) -> uniform nc rows /\ len w = nc.
Proof.
  intros H. apply Forall_app in H. destruct H as [H1 H2]. split; [exact H1|]. inversion H2; assumption.
Qed.

Lemma flat_sim_next_back s l : flat_sim s l ->
  exists s', flat_next_back rows_ops s = Ok (fst (i_next_back l), s') /\ flat_sim s' (snd (i_next_back l)).
Proof.
  intros [rows [Hs [-> Hz]]]. unfold flat_next_back.
  cbn [rows_ops ro_len]. rewrite (rows_sim_len _ _ Hs).
  destruct s as [it front back]; cbn [fiter ffront fback] in *.
  destruct (rows_sim_uniform _ _ Hs) as [Hu Hpos].
  assert (Hback : (exists w c w', back = Some w /\ si_next_back w = (Some c, w'))
                   \/ (ocells back = [] /\
                       match back with
                       | Some inner => match si_next_back inner with (Some c, i') => Some (c, i') | (None, _) => None end
                       | None => None end = None)).
  { destruct back as [w|]; [|right; split; reflexivity].
    destruct (si_next_back w) as [[c|] w'] eqn:E.
    - left. exists w, c, w'. split; [reflexivity|exact E].
    - right. split; [|reflexivity]. cbn [ocells]. eapply si_next_back_none; [exact E|reflexivity]. }
  destruct Hback as [[w [c [w' [-> E]]]]|[Hb0 Htry]].
  - cbn [flat_next_back_loop Nat.add ffront fiter fback]. rewrite E.
    destruct (si_next_back_ok w) as [E1 E2]. rewrite E in E1, E2. cbn [snd] in E1, E2.
    cbn [ocells].
    assert (Hne : si_cells w <> []).
    { intros H0. rewrite H0 in E1. cbn in E1. discriminate. }
    rewrite app_assoc, (i_next_back_app _ _ Hne). cbn [fst snd].
    injection E1 as Hc. rewrite <- Hc.
    eexists. split; [reflexivity|]. exists rows. cbn [fiter ffront fback ocells].
    split; [exact Hs|]. split; [rewrite E2, <- app_assoc; reflexivity|].
    intros H0. destruct (Hz H0) as [_ Hx]. cbn [ocells] in Hx. contradiction.
  - cbn [flat_next_back_loop Nat.add ffront fiter fback]. rewrite Htry, Hb0, app_nil_r.
    destruct (rows_sim_next_back it rows Hs) as [it' [En Hs']]. cbn [rows_ops ro_next_back]. rewrite En. cbn [bind].
    pose proof (rows_next_back_cols it _ En) as Hcols. cbn [snd] in Hcols.
    destruct (list_eq_dec_nil rows) as [->|Hne].
    + cbn [i_next_back rev fst snd rows_cells map concat] in *. rewrite app_nil_r.
      destruct front as [b|]; cbn [ocells].
      * destruct (si_next_back_ok b) as [E1 E2]. destruct (si_next_back b) as [c b'] eqn:Eb. cbn [snd] in E1, E2.
        inversion E1; subst c.
        eexists. split; [reflexivity|]. exists []. cbn [fiter ffront fback ocells rows_cells map concat app].
        split; [exact Hs'|]. split; [rewrite Hb0, E2, app_nil_r; reflexivity|].
        intros H0. rewrite Hcols in H0. destruct (Hz H0) as [Hf _]. cbn [ocells] in Hf.
        split; [|exact Hb0]. rewrite E2, Hf. reflexivity.
      * eexists. split; [reflexivity|]. exists []. cbn [fiter ffront fback ocells rows_cells map concat app].
        split; [exact Hs'|]. split; [rewrite Hb0; reflexivity|]. intros _. split; [reflexivity|exact Hb0].
    + destruct (exists_last Hne) as [rows' [w ->]].
      rewrite i_next_back_snoc in En, Hs'. cbn [fst snd] in En, Hs'.
      rewrite i_next_back_snoc, app_length, Nat.add_1_r. cbn [fst snd length].
      assert (Hnc : 0 < rcols it) by (apply Hpos; destruct rows'; discriminate).
      destruct (uniform_snoc _ _ _ Hu) as [Hu' Hw].
      assert (Hcne : si_cells w <> []).
      { intros H0. apply (f_equal (@length nat)) in H0. rewrite si_cells_length in H0. cbn in H0. lia. }
      rewrite rows_cells_app. cbn [rows_cells map concat]. rewrite app_nil_r.
      fold (rows_cells rows'). rewrite app_assoc, (i_next_back_app _ _ Hcne). cbn [fst snd].
      cbn [flat_next_back_loop ffront fiter fback];
      (destruct (si_next_back w) as [[c|] w'] eqn:E;
       [|exfalso; apply Hcne; eapply si_next_back_none; [exact E|reflexivity]]);
      (destruct (si_next_back_ok w) as [E1 E2]; rewrite E in E1, E2; cbn [snd] in E1, E2;
       injection E1 as Hc; rewrite <- Hc;
       eexists; (split; [reflexivity|]); exists rows'; cbn [fiter ffront fback ocells];
       split; [exact Hs'|]; split; [rewrite E2, <- app_assoc; reflexivity|];
       intros H0; rewrite Hcols in H0; lia).
Qed.

(** * len, fold, rfold *)
Lemma flat_sim_len s l : flat_sim s l -> flat_len rows_ops s = length l.
Proof.
  intros [rows [Hs [-> _]]]. unfold flat_len. cbn [rows_ops ro_num_cols ro_len].
  rewrite (rows_sim_len _ _ Hs). destruct (rows_sim_uniform _ _ Hs) as [Hu _].
  rewrite !app_length, (rows_cells_length _ _ Hu), !ocells_length. lia.
Qed.

Lemma flat_sim_fold s l : flat_sim s l -> flat_fold rows_ops s = Ok l.
Proof.
  intros [rows [Hs [-> _]]]. unfold flat_fold. cbn [rows_ops ro_fold].
  rewrite (rows_fold_ok _ _ Hs). cbn [bind]. destruct s as [it [f|] [b|]]; reflexivity.
Qed.

Lemma rev_rows_cells rows : rev (rows_cells rows) = concat (map (fun r => rev (si_cells r)) (rev rows)).
Proof.
  induction rows as [|w rows IH]; [reflexivity|].
  rewrite rows_cells_cons, rev_app_distr, IH. cbn [rev]. rewrite map_app, concat_app.
  cbn [map concat]. rewrite app_nil_r. reflexivity.
Qed.

Lemma flat_sim_rfold s l : flat_sim s l -> flat_rfold rows_ops s = Ok (rev l).
Proof.
  intros [rows [Hs [-> _]]]. unfold flat_rfold. cbn [rows_ops ro_rfold].
  rewrite (rows_rfold_ok _ _ Hs). cbn [bind]. rewrite !rev_app_distr, rev_rows_cells, <- app_assoc.
  destruct s as [it [f|] [b|]]; reflexivity.
Qed.

(** the initial state *)
Lemma flat_new_sim it rows : rows_sim it rows -> flat_sim (flat_new it) (rows_cells rows).
Proof.
  intros Hs. exists rows. cbn [flat_new fiter ffront fback ocells app]. rewrite app_nil_r.
  split; [exact Hs|]. split; [reflexivity|]. intros _. split; reflexivity.
Qed.

(** * nth *)
Lemma i_nth_app_l {X} (n : N) (a b : list X) : (n < N.of_nat (length a))%N ->
  i_nth n (a ++ b) = (fst (i_nth n a), snd (i_nth n a) ++ b).
Proof.
  intros H. rewrite !i_nth_closed, app_length.
  destruct (N.leb_spec (N.of_nat (length a + length b)) n); [lia|].
  destruct (N.leb_spec (N.of_nat (length a)) n); [lia|]. cbn [fst snd].
  rewrite nth_error_app. destruct (Nat.ltb_spec (N.to_nat n) (length a)); [|lia].
  rewrite skipn_app. replace (S (N.to_nat n) - length a) with 0 by lia. reflexivity.
Qed.

Lemma i_nth_app_r {X} (n : N) (a b : list X) : (N.of_nat (length a) <= n)%N ->
  i_nth n (a ++ b) = i_nth (n - N.of_nat (length a)) b.
Proof.
  intros H. rewrite !i_nth_closed, app_length.
  destruct (N.leb_spec (N.of_nat (length a + length b)) n);
    destruct (N.leb_spec (N.of_nat (length b)) (n - N.of_nat (length a))); try lia; [reflexivity|].
  rewrite nth_error_app. destruct (Nat.ltb_spec (N.to_nat n) (length a)); [lia|].
  rewrite skipn_app, skipn_all2 by lia. cbn [app].
  replace (N.to_nat (n - N.of_nat (length a))) with (N.to_nat n - length a) by lia.
  replace (S (N.to_nat n) - length a) with (S (N.to_nat n - length a)) by lia. reflexivity.
Qed.

Lemma i_nth_nil {X} (n : N) : @i_nth X n [] = (None, []).
Proof. unfold i_nth. cbn [length]. destruct (N.leb_spec (N.of_nat 0) n); [reflexivity|lia]. Qed.

Lemma rows_split q (rows : list sl) w : nth_error rows q = Some w ->
  rows = firstn q rows ++ w :: skipn (S q) rows.
Proof.
  revert q. induction rows as [|x rows IH]; intros [|q] H; cbn in *; try discriminate.
  - inversion H; reflexivity.
  - f_equal. apply IH. exact H.
Qed.

Lemma flat_sim_nth dbg s l n : flat_sim s l ->
  exists s', flat_nth rows_ops dbg s n = Ok (fst (i_nth n l), s') /\ flat_sim s' (snd (i_nth n l)).
Proof.
  intros [rows [Hs [-> Hz]]]. unfold flat_nth.
  destruct s as [it front back]; cbn [fiter ffront fback rows_ops ro_num_cols ro_len ro_nth] in *.
  destruct (rows_sim_uniform _ _ Hs) as [Hu Hpos].
  destruct (Nat.eqb_spec (rcols it) 0) as [E0|Hnz].
  { (* an iterator over an empty receiver *)
    destruct (Hz E0) as [Hf Hb]. rewrite Hf, Hb.
    assert (rows = []) by (destruct rows; [reflexivity|exfalso; assert (0 < rcols it) by (apply Hpos; discriminate); lia]).
    subst rows. cbn [rows_cells map concat app]. rewrite i_nth_nil. cbn [fst snd].
    eexists. split; [reflexivity|]. exists []. cbn [fiter ffront fback].
    split; [exact Hs|]. split; [rewrite Hf, Hb; reflexivity|exact Hz]. }
  set (nc := rcols it) in *. assert (Hnc : 0 < nc) by lia.
  rewrite (rows_sim_len _ _ Hs).
  (* within the front row? *)
  assert (Hcase : (exists w, front = Some w /\ (n <? N.of_nat (len w))%N = true)
                  \/ (match front with
                      | Some inner => if (n <? N.of_nat (len inner))%N then inl (si_nth inner n)
                                      else inr ((n - N.of_nat (len inner))%N, @None sl)
                      | None => inr (n, None) end
                      = inr ((n - N.of_nat (length (ocells front)))%N, None)
                      /\ (N.of_nat (length (ocells front)) <= n)%N)).
  { destruct front as [w|].
    - destruct (N.ltb_spec n (N.of_nat (len w))) as [Hlt|Hge].
      + left. exists w. split; [reflexivity|]. apply N.ltb_lt. exact Hlt.
      + right. cbn [ocells]. rewrite si_cells_length. split; [reflexivity|exact Hge].
    - right. cbn [ocells length]. rewrite N.sub_0_r. split; [reflexivity|lia]. }
  destruct Hcase as [[w [-> Hlt]]|[Hstep Hge]].
  - rewrite Hlt. apply N.ltb_lt in Hlt. cbn [ocells].
    rewrite i_nth_app_l by (rewrite si_cells_length; exact Hlt).
    destruct (si_nth_ok w n) as [E1 E2]. destruct (si_nth w n) as [c w'] eqn:E. cbn [snd] in E1, E2.
    injection E1 as Hc. rewrite <- Hc. cbn [fst snd].
    eexists. split; [reflexivity|]. exists rows. cbn [fiter ffront fback ocells].
    split; [exact Hs|]. split; [rewrite E2; reflexivity|]. intros H0. fold nc in H0. lia.
  - rewrite Hstep. clear Hstep.
    rewrite (i_nth_app_r n (ocells front)) by exact Hge.
    set (n1 := (n - N.of_nat (length (ocells front)))%N).
    set (q := N.min (N.of_nat (length rows)) (n1 / N.of_nat nc)%N).
    destruct (rows_sim_nth it rows q Hs) as [it' [En Hs']].
    pose proof (rows_nth_cols q it _ En) as Hcols. cbn [snd] in Hcols.
    pose proof (rows_cells_length _ _ Hu) as Hclen. fold nc in Hclen.
    rewrite i_nth_closed in En, Hs'.
    destruct (N.leb_spec (N.of_nat (length rows)) q) as [Hq|Hq].
    + (* the row cursor is exhausted: the back row *)
      cbn [fst snd] in En, Hs'. rewrite En. cbn [bind].
      assert (Hqe : q = N.of_nat (length rows)) by (subst q; lia).
      assert (Hn1 : (N.of_nat (nc * length rows) <= n1)%N).
      { subst q. assert (N.of_nat (length rows) <= n1 / N.of_nat nc)%N by lia.
        assert (N.of_nat nc * (n1 / N.of_nat nc) <= n1)%N by (apply N.mul_div_le; lia). nia. }
      rewrite (i_nth_app_r n1 (rows_cells rows)) by (rewrite Hclen; exact Hn1).
      rewrite Hclen, Hqe.
      replace (n1 - N.of_nat (length rows) * N.of_nat nc)%N with (n1 - N.of_nat (nc * length rows))%N by lia.
      destruct back as [b|]; cbn [ocells].
      * destruct (si_nth_ok b (n1 - N.of_nat (nc * length rows))) as [E1 E2].
        destruct (si_nth b _) as [c b'] eqn:E. cbn [snd] in E1, E2.
        injection E1 as Hc. rewrite <- Hc.
        eexists. split; [reflexivity|]. exists []. cbn [fiter ffront fback ocells rows_cells map concat app].
        split; [exact Hs'|]. split; [rewrite E2; reflexivity|]. intros H0. rewrite Hcols in H0. fold nc in H0. lia.
      * rewrite i_nth_nil. cbn [fst snd].
        eexists. split; [reflexivity|]. exists []. cbn [fiter ffront fback ocells rows_cells map concat app].
        split; [exact Hs'|]. split; [reflexivity|]. intros H0. rewrite Hcols in H0. fold nc in H0. lia.
    + (* a row of the cursor *)
      cbn [fst snd] in En, Hs'.
      assert (Hqe : q = (n1 / N.of_nat nc)%N) by (subst q; lia).
      set (qn := N.to_nat q) in *. assert (Hqn : qn < length rows) by lia.
      destruct (nth_error rows qn) as [w|] eqn:Ew; [|apply nth_error_None in Ew; lia].
      rewrite En. cbn [bind].
      assert (Hw : len w = nc).
      { apply (proj1 (Forall_forall _ _) Hu). eapply nth_error_In. exact Ew. }
      set (n2 := (n1 - q * N.of_nat nc)%N).
      assert (Hn2 : (n2 < N.of_nat nc)%N).
      { subst n2. rewrite Hqe.
        pose proof (N.mod_upper_bound n1 (N.of_nat nc)). pose proof (N.div_mod' n1 (N.of_nat nc)). lia. }
      assert (Hdbg : (if dbg then assert (n2 <? N.of_nat (len w))%N else Ok tt) = Ok tt).
      { destruct dbg; [|reflexivity]. unfold assert. rewrite Hw.
        destruct (N.ltb_spec n2 (N.of_nat nc)); [reflexivity|lia]. }
      rewrite Hdbg. cbn [bind].
      (* the ideal side *)
      pose proof (rows_split qn rows w Ew) as Hsplit.
      assert (Hpre : length (rows_cells (firstn qn rows)) = qn * nc).
      { rewrite (rows_cells_length nc) by (apply uniform_firstn; exact Hu).
        rewrite firstn_length. replace (Nat.min qn (length rows)) with qn by lia. lia. }
      assert (Hideal : i_nth n1 (rows_cells rows ++ ocells back)
                       = (fst (i_nth n2 (si_cells w)),
                          snd (i_nth n2 (si_cells w)) ++ rows_cells (skipn (S qn) rows) ++ ocells back)).
      { rewrite Hsplit at 1. rewrite rows_cells_app, rows_cells_cons, <- !app_assoc.
        rewrite i_nth_app_r by (rewrite Hpre; subst n2 qn; lia).
        rewrite Hpre. replace (n1 - N.of_nat (qn * nc))%N with n2 by (subst n2 qn; lia).
        rewrite i_nth_app_l by (rewrite si_cells_length, Hw; exact Hn2). reflexivity. }
      rewrite Hideal. cbn [fst snd].
      destruct (si_nth_ok w n2) as [E1 E2]. destruct (si_nth w n2) as [c w'] eqn:E. cbn [snd] in E1, E2.
      injection E1 as Hc. rewrite <- Hc.
      eexists. split; [reflexivity|]. exists (skipn (S qn) rows). cbn [fiter ffront fback ocells].
      split; [exact Hs'|]. split; [rewrite E2; reflexivity|]. intros H0. rewrite Hcols in H0. fold nc in H0. lia.
Qed.

(** * nth_back *)
Lemma i_nth_back_app_r {X} (n : N) (a b : list X) : (n < N.of_nat (length b))%N ->
  i_nth_back n (a ++ b) = (fst (i_nth_back n b), a ++ snd (i_nth_back n b)).
Proof.
  intros H. rewrite !i_nth_back_closed, app_length.
  destruct (N.leb_spec (N.of_nat (length a + length b)) n); [lia|].
  destruct (N.leb_spec (N.of_nat (length b)) n); [lia|]. cbn [fst snd].
  rewrite nth_error_app. destruct (Nat.ltb_spec (length a + length b - 1 - N.to_nat n) (length a)); [lia|].
  rewrite firstn_app, firstn_all2 by lia.
  replace (length a + length b - 1 - N.to_nat n - length a) with (length b - 1 - N.to_nat n) by lia.
  reflexivity.
Qed.

Lemma i_nth_back_app_l {X} (n : N) (a b : list X) : (N.of_nat (length b) <= n)%N ->
  i_nth_back n (a ++ b) = i_nth_back (n - N.of_nat (length b)) a.
Proof.
  intros H. rewrite !i_nth_back_closed, app_length.
  destruct (N.leb_spec (N.of_nat (length a + length b)) n);
    destruct (N.leb_spec (N.of_nat (length a)) (n - N.of_nat (length b))); try lia; [reflexivity|].
  rewrite nth_error_app. destruct (Nat.ltb_spec (length a + length b - 1 - N.to_nat n) (length a)); [|lia].
  rewrite firstn_app. replace (length a + length b - 1 - N.to_nat n - length a) with 0 by lia.
  rewrite firstn_O, app_nil_r.
  replace (length a - 1 - N.to_nat (n - N.of_nat (length b))) with (length a + length b - 1 - N.to_nat n) by lia.
  reflexivity.
Qed.

Lemma i_nth_back_nil {X} (n : N) : @i_nth_back X n [] = (None, []).
Proof. unfold i_nth_back. cbn [length]. destruct (N.leb_spec (N.of_nat 0) n); [reflexivity|lia]. Qed.

Lemma flat_sim_nth_back dbg s l n : flat_sim s l ->
  exists s', flat_nth_back rows_ops dbg s n = Ok (fst (i_nth_back n l), s') /\ flat_sim s' (snd (i_nth_back n l)).
Proof.
  intros [rows [Hs [-> Hz]]]. unfold flat_nth_back.
  destruct s as [it front back]; cbn [fiter ffront fback rows_ops ro_num_cols ro_len ro_nth_back] in *.
  destruct (rows_sim_uniform _ _ Hs) as [Hu Hpos].
  destruct (Nat.eqb_spec (rcols it) 0) as [E0|Hnz].
  { destruct (Hz E0) as [Hf Hb]. rewrite Hf, Hb.
    assert (rows = []) by (destruct rows; [reflexivity|exfalso; assert (0 < rcols it) by (apply Hpos; discriminate); lia]).
    subst rows. cbn [rows_cells map concat app]. rewrite i_nth_back_nil. cbn [fst snd].
    eexists. split; [reflexivity|]. exists []. cbn [fiter ffront fback].
    split; [exact Hs|]. split; [rewrite Hf, Hb; reflexivity|exact Hz]. }
  set (nc := rcols it) in *. assert (Hnc : 0 < nc) by lia.
  rewrite (rows_sim_len _ _ Hs).
  assert (Hcase : (exists w, back = Some w /\ (n <? N.of_nat (len w))%N = true)
                  \/ (match back with
                      | Some inner => if (n <? N.of_nat (len inner))%N then inl (si_nth_back inner n)
                                      else inr ((n - N.of_nat (len inner))%N, @None sl)
                      | None => inr (n, None) end
                      = inr ((n - N.of_nat (length (ocells back)))%N, None)
                      /\ (N.of_nat (length (ocells back)) <= n)%N)).
  { destruct back as [w|].
    - destruct (N.ltb_spec n (N.of_nat (len w))) as [Hlt|Hge].
      + left. exists w. split; [reflexivity|]. apply N.ltb_lt. exact Hlt.
      + right. cbn [ocells]. rewrite si_cells_length. split; [reflexivity|exact Hge].
    - right. cbn [ocells length]. rewrite N.sub_0_r. split; [reflexivity|lia]. }
  rewrite (app_assoc (ocells front)).
  destruct Hcase as [[w [-> Hlt]]|[Hstep Hge]].
  - rewrite Hlt. apply N.ltb_lt in Hlt. cbn [ocells].
    rewrite i_nth_back_app_r by (rewrite si_cells_length; exact Hlt).
    destruct (si_nth_back_ok w n) as [E1 E2]. destruct (si_nth_back w n) as [c w'] eqn:E. cbn [snd] in E1, E2.
    injection E1 as Hc. rewrite <- Hc. cbn [fst snd].
    eexists. split; [reflexivity|]. exists rows. cbn [fiter ffront fback ocells].
    split; [exact Hs|]. split; [rewrite E2, <- app_assoc; reflexivity|]. intros H0. fold nc in H0. lia.
  - rewrite Hstep. clear Hstep.
    rewrite (i_nth_back_app_l n _ (ocells back)) by exact Hge.
    set (n1 := (n - N.of_nat (length (ocells back)))%N).
    set (q := N.min (N.of_nat (length rows)) (n1 / N.of_nat nc)%N).
    destruct (rows_sim_nth_back it rows q Hs) as [it' [En Hs']].
    pose proof (rows_nth_back_cols q it _ En) as Hcols. cbn [snd] in Hcols.
    pose proof (rows_cells_length _ _ Hu) as Hclen. fold nc in Hclen.
    rewrite i_nth_back_closed in En, Hs'.
    destruct (N.leb_spec (N.of_nat (length rows)) q) as [Hq|Hq].
    + cbn [fst snd] in En, Hs'. rewrite En. cbn [bind].
      assert (Hqe : q = N.of_nat (length rows)) by (subst q; lia).
      assert (Hn1 : (N.of_nat (nc * length rows) <= n1)%N).
      { subst q. assert (N.of_nat (length rows) <= n1 / N.of_nat nc)%N by lia.
        assert (N.of_nat nc * (n1 / N.of_nat nc) <= n1)%N by (apply N.mul_div_le; lia). nia. }
      rewrite (i_nth_back_app_l n1 _ (rows_cells rows)) by (rewrite Hclen; exact Hn1).
      rewrite Hclen, Hqe.
      replace (n1 - N.of_nat (length rows) * N.of_nat nc)%N with (n1 - N.of_nat (nc * length rows))%N by lia.
      destruct front as [b|]; cbn [ocells].
      * destruct (si_nth_back_ok b (n1 - N.of_nat (nc * length rows))) as [E1 E2].
        destruct (si_nth_back b _) as [c b'] eqn:E. cbn [snd] in E1, E2.
        injection E1 as Hc. rewrite <- Hc.
        eexists. split; [reflexivity|]. exists []. cbn [fiter ffront fback ocells rows_cells map concat app].
        split; [exact Hs'|]. split; [rewrite E2, app_nil_r; reflexivity|]. intros H0. rewrite Hcols in H0. fold nc in H0. lia.
      * rewrite i_nth_back_nil. cbn [fst snd].
        eexists. split; [reflexivity|]. exists []. cbn [fiter ffront fback ocells rows_cells map concat app].
        split; [exact Hs'|]. split; [reflexivity|]. intros H0. rewrite Hcols in H0. fold nc in H0. lia.
    + cbn [fst snd] in En, Hs'.
      assert (Hqe : q = (n1 / N.of_nat nc)%N) by (subst q; lia).
      set (qn := N.to_nat q) in *. assert (Hqn : qn < length rows) by lia.
      set (j := length rows - 1 - qn) in *.
      destruct (nth_error rows j) as [w|] eqn:Ew; [|apply nth_error_None in Ew; lia].
      rewrite En. cbn [bind].
      assert (Hw : len w = nc).
      { apply (proj1 (Forall_forall _ _) Hu). eapply nth_error_In. exact Ew. }
      set (n2 := (n1 - q * N.of_nat nc)%N).
      assert (Hn2 : (n2 < N.of_nat nc)%N).
      { subst n2. rewrite Hqe.
        pose proof (N.mod_upper_bound n1 (N.of_nat nc)). pose proof (N.div_mod' n1 (N.of_nat nc)). lia. }
      assert (Hdbg : (if dbg then assert (n2 <? N.of_nat (len w))%N else Ok tt) = Ok tt).
      { destruct dbg; [|reflexivity]. unfold assert. rewrite Hw.
        destruct (N.ltb_spec n2 (N.of_nat nc)); [reflexivity|lia]. }
      rewrite Hdbg. cbn [bind].
      pose proof (rows_split j rows w Ew) as Hsplit.
      assert (Hpost : length (rows_cells (skipn (S j) rows)) = qn * nc).
      { rewrite (rows_cells_length nc) by (apply uniform_skipn; exact Hu).
        rewrite skipn_length. subst j. nia. }
      assert (Hideal : i_nth_back n1 (ocells front ++ rows_cells rows)
                       = (fst (i_nth_back n2 (si_cells w)),
                          (ocells front ++ rows_cells (firstn j rows)) ++ snd (i_nth_back n2 (si_cells w)))).
      { rewrite Hsplit at 1. rewrite rows_cells_app, rows_cells_cons.
        rewrite !app_assoc.
        rewrite i_nth_back_app_l by (rewrite Hpost; subst n2 qn; lia).
        rewrite Hpost. replace (n1 - N.of_nat (qn * nc))%N with n2 by (subst n2 qn; lia).
        rewrite i_nth_back_app_r by (rewrite si_cells_length, Hw; exact Hn2). reflexivity. }
      rewrite Hideal. cbn [fst snd].
      destruct (si_nth_back_ok w n2) as [E1 E2]. destruct (si_nth_back w n2) as [c w'] eqn:E. cbn [snd] in E1, E2.
      injection E1 as Hc. rewrite <- Hc.
      eexists. split; [reflexivity|]. exists (firstn j rows). cbn [fiter ffront fback ocells].
      split; [exact Hs'|]. split; [rewrite E2, <- app_assoc; reflexivity|].
      intros H0. rewrite Hcols in H0. fold nc in H0. lia.
Qed.
