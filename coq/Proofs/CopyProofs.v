(** C14: the copy operations transfer exactly the source cells. *)
From Coq Require Import Sorted.
From TD Require Import Base.Prelude Model.Iter Model.Flatten Model.View Model.Ops Spec.Ideal
  Proofs.ListLemmas Proofs.RowsSim Proofs.ColSim Proofs.ViewGeom Proofs.FlatSim Proofs.Access
  Proofs.Frame Proofs.OpsProofs Proofs.InsertRow.

(** * row-wise zip of the receiver's rows with a list of source rows *)
Lemma zip_copy_ok : forall (rows : list sl) (srcs : list (list N)) (b : buf),
  StronglySorted before rows ->
  Forall (fun w => off w + len w <= length b) rows ->
  length srcs = length rows ->
  (forall j w s, nth_error rows j = Some w -> nth_error srcs j = Some s -> length s = len w) ->
  exists b', zip_copy rows srcs b = Ok b' /\ length b' = length b /\
    (forall i, (forall w, In w rows -> in_win w i = false) -> nth_error b' i = nth_error b i) /\
    (forall j w s o, nth_error rows j = Some w -> nth_error srcs j = Some s -> o < len w ->
       nth_error b' (off w + o) = nth_error s o).
Proof.
  induction rows as [|w rows IH]; intros srcs b Hs Hall Hlen Hls.
  - exists b. split; [reflexivity|]. split; [reflexivity|]. split; [reflexivity|].
    intros j w s o H. destruct j; discriminate.
  - destruct srcs as [|s srcs]; [discriminate|]. cbn [zip_copy].
    inversion Hs as [|? ? Hs' Hb]; subst. inversion Hall as [|? ? Hw Hall']; subst.
    pose proof (Hls 0 w s eq_refl eq_refl) as Hl0.
    unfold assert. destruct (Nat.eqb_spec (len w) (length s)); [|lia]. cbn [bind].
    destruct (write_win_ok b w s Hw Hl0) as [b1 [E1 [L1 N1]]]. rewrite E1. cbn [bind].
    destruct (IH srcs b1) as [b' [E [L [Nout Nin]]]]; try assumption.
    + eapply Forall_impl; [|exact Hall']. intros a Ha. cbn beta in *. lia.
    + cbn [length] in Hlen. lia.
    + intros j w0 s0 H1 H2. apply (Hls (S j) w0 s0); assumption.
    + exists b'. split; [exact E|]. split; [lia|]. split.
      * intros i Hi. rewrite Nout by (intros w0 Hw0; apply Hi; right; exact Hw0).
        rewrite N1, (Hi w (or_introl eq_refl)). reflexivity.
      * intros j w0 s0 o H1 H2 Ho. destruct j as [|j]; cbn [nth_error] in H1, H2.
        -- inversion H1; inversion H2; subst w0 s0.
           rewrite Nout.
           ++ rewrite N1. unfold in_win.
              destruct (Nat.leb_spec (off w) (off w + o)); [|lia].
              destruct (Nat.ltb_spec (off w + o) (off w + len w)); [|lia]. cbn [andb]. f_equal. lia.
           ++ intros w1 Hw1. pose proof (proj1 (Forall_forall _ _) Hb w1 Hw1) as Hbf. unfold before in Hbf.
              unfold in_win. apply Bool.andb_false_iff. left. apply Nat.leb_gt. lia.
        -- apply (Nin j w0 s0 o); assumption.
Qed.

(** the j-th chunk of [chunks] *)
Lemma chunks_nth {X} c (l : list X) : forall fuel j, j < fuel ->
  nth_error (chunks fuel c l) j = Some (firstn c (skipn (j * c) l)).
Proof.
  intros fuel. revert l. induction fuel as [|f IH]; intros l j Hj; [lia|].
  cbn [chunks]. destruct j as [|j]; cbn [nth_error]; [reflexivity|].
  rewrite IH by lia. f_equal. f_equal. cbn [Nat.mul]. rewrite skipn_add. reflexivity.
Qed.

Lemma chunks_length {X} c (l : list X) fuel : length (chunks fuel c l) = fuel.
Proof. revert l. induction fuel as [|f IH]; intros l; cbn [chunks length]; [reflexivity|rewrite IH; reflexivity]. Qed.

(** * copy_from_slice / clone_from_slice *)
Theorem op_copy_from_slice_spec k v b (src : list N) : wf_view v -> fits v b ->
  (k = KOwned -> vstride v = vcols v) -> length src = vcols v * vrows v ->
  exists b', op_copy_from_slice k v b src = Ok b' /\ length b' = length b /\
    (forall i, ~ in_view v i -> nth_error b' i = nth_error b i) /\
    (forall c r, c < vcols v -> r < vrows v ->
       nth_error b' (v_cell v c r) = nth_error src (r * vcols v + c)).
Proof.
  intros Hwf Hb Hk Hlen.
  assert (Hgen : exists b',
            (_ <- assert (vcols v * vrows v =? length src) ;;
             if vcols v =? 0 then Ok b
             else rows <- all_rows v ;; zip_copy rows (chunks (length src / vcols v) (vcols v) src) b) = Ok b' /\
            length b' = length b /\
            (forall i, ~ in_view v i -> nth_error b' i = nth_error b i) /\
            (forall c r, c < vcols v -> r < vrows v ->
               nth_error b' (v_cell v c r) = nth_error src (r * vcols v + c))).
  { unfold assert. destruct (Nat.eqb_spec (vcols v * vrows v) (length src)); [|lia]. cbn [bind].
    destruct (Nat.eqb_spec (vcols v) 0) as [E0|Hnz].
    - exists b. split; [reflexivity|]. split; [reflexivity|]. split; [reflexivity|]. intros c r Hc. lia.
    - rewrite (all_rows_ok v Hwf). cbn [bind].
      assert (Hdiv : length src / vcols v = vrows v) by (rewrite Hlen, Nat.mul_comm, Nat.div_mul; lia).
      rewrite Hdiv.
      destruct (zip_copy_ok (view_rows v) (chunks (vrows v) (vcols v) src) b) as [b' [E [L [Nout Nin]]]].
      + apply view_rows_sorted. exact Hwf.
      + eapply Forall_impl; [|apply (rows_in_buffer v b Hwf Hb)]. intros a [Ha _]. exact Ha.
      + rewrite chunks_length, view_rows_len. reflexivity.
      + intros j w s H1 H2.
        assert (Hj : j < vrows v) by (rewrite <- (view_rows_len v); apply nth_error_Some; congruence).
        rewrite nth_view_rows in H1 by exact Hj. inversion H1; subst w.
        rewrite chunks_nth in H2 by exact Hj. inversion H2; subst s.
        rewrite firstn_length, skipn_length. cbn [row_win len]. nia.
      + exists b'. split; [exact E|]. split; [exact L|]. split.
        * intros i Hi. apply Nout. apply not_in_view_rows. exact Hi.
        * intros c r Hc Hr.
          pose proof (Nin r (row_win v r) (firstn (vcols v) (skipn (r * vcols v) src)) c
                        (nth_view_rows v r Hr) (chunks_nth _ _ _ _ Hr) Hc) as H.
          cbn [row_win off] in H. unfold v_cell. rewrite H.
          rewrite nth_error_firstn, nth_error_skipn. destruct (Nat.ltb_spec c (vcols v)); [reflexivity|lia]. }
  destruct k; try exact Hgen.
  (* TooDee: one copy over the flat buffer *)
  specialize (Hk eq_refl). unfold op_copy_from_slice, assert.
  assert (Hlw : len (vw v) = length src).
  { destruct Hwf as [_ H]. destruct (vrows v) as [|kk]; [lia|]. destruct H as [_ [_ Hl]]. rewrite Hl, Hk. lia. }
  destruct (Nat.eqb_spec (len (vw v)) (length src)); [|lia]. cbn [bind].
  unfold fits in Hb. destruct (write_win_ok b (vw v) src Hb (eq_sym Hlw)) as [b' [E [L Nn]]].
  exists b'. split; [exact E|]. split; [exact L|]. split.
  - intros i Hi. rewrite Nn. destruct (in_win (vw v) i) eqn:Ei; [|reflexivity].
    exfalso. apply Hi. apply owned_window_is_cells; assumption.
  - intros c r Hc Hr. rewrite Nn.
    destruct (v_cell_inside v c r Hwf Hc Hr) as [H1 H2]. unfold in_win.
    destruct (Nat.leb_spec (off (vw v)) (v_cell v c r)); [|lia].
    destruct (Nat.ltb_spec (v_cell v c r) (off (vw v) + len (vw v))); [|lia]. cbn [andb].
    f_equal. unfold v_cell. rewrite Hk. lia.
Qed.

Theorem op_copy_from_slice_reject k v b (src : list N) : wf_view v ->
  (k = KOwned -> vstride v = vcols v) -> length src <> vcols v * vrows v ->
  op_copy_from_slice k v b src = Panic.
Proof.
  intros Hwf Hk Hlen.
  assert (Hgen : (_ <- assert (vcols v * vrows v =? length src) ;;
             if vcols v =? 0 then Ok b
             else rows <- all_rows v ;; zip_copy rows (chunks (length src / vcols v) (vcols v) src) b) = Panic).
  { unfold assert. destruct (Nat.eqb_spec (vcols v * vrows v) (length src)); [lia|reflexivity]. }
  destruct k; try exact Hgen.
  specialize (Hk eq_refl). unfold op_copy_from_slice, assert.
  assert (Hlw : len (vw v) = vcols v * vrows v).
  { destruct Hwf as [_ H]. destruct (vrows v) as [|kk]; [lia|]. destruct H as [_ [_ Hl]]. rewrite Hl, Hk. lia. }
  destruct (Nat.eqb_spec (len (vw v)) (length src)); [lia|reflexivity].
Qed.

(** * copy_from_toodee / clone_from_toodee *)
Lemma owned_copy_rows_ok nc : forall (srows : list (list N)) o L (b : buf),
  Forall (fun r => length r = nc) srows -> length srows * nc <= L -> o + L <= length b ->
  exists b', owned_copy_rows (mkSl o L) nc srows b = Ok b' /\ length b' = length b /\
    (forall i, i < o \/ o + length srows * nc <= i -> nth_error b' i = nth_error b i) /\
    (forall j s c, nth_error srows j = Some s -> c < nc -> nth_error b' (o + j * nc + c) = nth_error s c).
Proof.
  induction srows as [|r tl IH]; intros o L b Hall HL Hb.
  - exists b. split; [reflexivity|]. split; [reflexivity|]. split; [reflexivity|].
    intros j s c H. destruct j; discriminate.
  - inversion Hall as [|? ? Hr Hall']; subst. cbn [owned_copy_rows length] in *.
    unfold split_at. cbn [len off]. destruct (Nat.leb_spec (length r) L); [|lia]. cbn [bind fst snd].
    unfold assert. cbn [len]. rewrite Nat.eqb_refl. cbn [bind].
    destruct (write_win_ok b (mkSl o (length r)) r) as [b1 [E1 [L1 N1]]]; cbn [off len]; [lia|reflexivity|].
    rewrite E1. cbn [bind].
    destruct (IH (o + length r) (L - length r) b1 Hall') as [b' [E [L' [Nout Nin]]]]; [nia|lia|].
    exists b'. split; [exact E|]. split; [lia|]. split.
    + intros i Hi. rewrite Nout by lia. rewrite N1. unfold in_win. cbn [off len].
      destruct Hi as [Hi|Hi]; case_cmp; fin.
    + intros j s c Hj Hc. destruct j as [|j]; cbn [nth_error] in Hj.
      * inversion Hj; subst s. rewrite Nout by lia. rewrite N1. unfold in_win. cbn [off len].
        case_cmp; fin.
      * replace (o + S j * length r + c) with (o + length r + j * length r + c) by lia.
        apply (Nin j s c Hj Hc).
Qed.

Theorem op_copy_from_toodee_spec k v b (srows : list (list N)) : wf_view v -> fits v b ->
  (k = KOwned -> vstride v = vcols v) ->
  length srows = vrows v -> Forall (fun r => length r = vcols v) srows ->
  exists b', op_copy_from_toodee k v b (vcols v, vrows v) srows = Ok b' /\ length b' = length b /\
    (forall i, ~ in_view v i -> nth_error b' i = nth_error b i) /\
    (forall c r s, c < vcols v -> nth_error srows r = Some s ->
       nth_error b' (v_cell v c r) = nth_error s c).
Proof.
  intros Hwf Hb Hk Hlen Hall. unfold op_copy_from_toodee, assert. cbn [fst snd].
  rewrite !Nat.eqb_refl. cbn [andb bind].
  assert (Hgen : exists b', (rows <- all_rows v ;; zip_copy rows srows b) = Ok b' /\ length b' = length b /\
            (forall i, ~ in_view v i -> nth_error b' i = nth_error b i) /\
            (forall c r s, c < vcols v -> nth_error srows r = Some s ->
               nth_error b' (v_cell v c r) = nth_error s c)).
  { rewrite (all_rows_ok v Hwf). cbn [bind].
    destruct (zip_copy_ok (view_rows v) srows b) as [b' [E [L [Nout Nin]]]].
    - apply view_rows_sorted. exact Hwf.
    - eapply Forall_impl; [|apply (rows_in_buffer v b Hwf Hb)]. intros a [Ha _]. exact Ha.
    - rewrite view_rows_len. exact Hlen.
    - intros j w s H1 H2.
      assert (Hj : j < vrows v) by (rewrite <- (view_rows_len v); apply nth_error_Some; congruence).
      rewrite nth_view_rows in H1 by exact Hj. inversion H1; subst w. cbn [row_win len].
      apply (proj1 (Forall_forall _ _) Hall). eapply nth_error_In. exact H2.
    - exists b'. split; [exact E|]. split; [exact L|]. split.
      + intros i Hi. apply Nout. apply not_in_view_rows. exact Hi.
      + intros c r s Hc Hs.
        assert (Hr : r < vrows v) by (rewrite <- Hlen; apply nth_error_Some; congruence).
        pose proof (Nin r (row_win v r) s c (nth_view_rows v r Hr) Hs Hc) as H.
        cbn [row_win off] in H. unfold v_cell. exact H. }
  destruct k; try exact Hgen.
  specialize (Hk eq_refl).
  assert (Hlw : len (vw v) = vrows v * vcols v).
  { destruct Hwf as [_ H]. destruct (vrows v) as [|kk]; [lia|]. destruct H as [_ [_ Hl]]. rewrite Hl, Hk. lia. }
  unfold fits in Hb.
  destruct (owned_copy_rows_ok (vcols v) srows (off (vw v)) (len (vw v)) b Hall) as [b' [E [L [Nout Nin]]]];
    [rewrite Hlen; lia|exact Hb|].
  destruct (vw v) as [o l] eqn:Evw. cbn [off len] in *.
  exists b'. split; [exact E|]. split; [exact L|]. split.
  - intros i Hi. apply Nout. rewrite Hlen.
    destruct (Nat.lt_ge_cases i o); [left; assumption|]. destruct (Nat.le_gt_cases (o + vrows v * vcols v) i); [right; assumption|].
    exfalso. apply Hi. apply owned_window_is_cells; [exact Hwf|exact Hk|].
    rewrite Evw. unfold in_win. cbn [off len]. apply Bool.andb_true_iff. split; [apply Nat.leb_le|apply Nat.ltb_lt]; lia.
  - intros c r s Hc Hs. unfold v_cell. rewrite Evw, Hk. cbn [off]. apply (Nin r s c Hs Hc).
Qed.

Theorem op_copy_from_toodee_reject k v b sc sr srows :
  (vcols v <> sc \/ vrows v <> sr) -> op_copy_from_toodee k v b (sc, sr) srows = Panic.
Proof.
  intros H. unfold op_copy_from_toodee, assert. cbn [fst snd].
  destruct (Nat.eqb_spec (vcols v) sc), (Nat.eqb_spec (vrows v) sr); cbn [andb bind]; try reflexivity. lia.
Qed.

(** * copy_within *)
Lemma find_none_iff_local {X} (f : X -> bool) l : (forall x, In x l -> f x = false) -> find f l = None.
Proof.
  induction l as [|x l IH]; intros H; [reflexivity|]. cbn [find].
  rewrite (H x (or_introl eq_refl)). apply IH. intros y Hy. apply H. right. exact Hy.
Qed.

(** one row segment copied (read first, then written: any overlap is harmless) *)
Definition seg_src (v : view) (sx0 cols r : nat) : sl := mkSl (off (row_win v r) + sx0) cols.

Lemma seg_copy_ok v (b : buf) sx0 dx cols r r2 : wf_view v -> fits v b ->
  r < vrows v -> r2 < vrows v -> sx0 + cols <= vcols v -> dx + cols <= vcols v ->
  exists b1, write_win b (seg_src v dx cols r2) (slice (off (seg_src v sx0 cols r)) cols b) = Ok b1 /\
    length b1 = length b /\
    (forall i, nth_error b1 i = if in_win (seg_src v dx cols r2) i
                                then nth_error b (off (seg_src v sx0 cols r) + (i - off (seg_src v dx cols r2)))
                                else nth_error b i).
Proof.
  intros Hwf Hb Hr Hr2 Hs Hd.
  pose proof (row_win_fits v b r Hwf Hb Hr) as F1. pose proof (row_win_fits v b r2 Hwf Hb Hr2) as F2.
  destruct (write_win_ok b (seg_src v dx cols r2) (slice (off (seg_src v sx0 cols r)) cols b)) as [b1 [E [L Nn]]].
  - cbn [seg_src off len]. lia.
  - cbn [seg_src off len]. apply slice_length. lia.
  - exists b1. split; [exact E|]. split; [exact L|]. intros i. rewrite Nn.
    destruct (in_win (seg_src v dx cols r2) i) eqn:Ei; [|reflexivity].
    unfold in_win in Ei. apply Bool.andb_true_iff in Ei. destruct Ei as [E1 E2].
    apply Nat.leb_le in E1. apply Nat.ltb_lt in E2. cbn [seg_src off len] in *.
    rewrite nth_error_slice. destruct (Nat.ltb_spec (i - (off (row_win v r2) + dx)) cols); [reflexivity|lia].
Qed.

Definition seg_fold (v : view) (sx0 dx cols : nat) (pairs : list (nat * nat)) (b : buf) : res buf :=
  fold_left (fun acc p => b0 <- acc ;;
               write_win b0 (seg_src v dx cols (snd p)) (slice (off (seg_src v sx0 cols (fst p))) cols b0))
            pairs (Ok b).

Lemma seg_fold_cons v sx0 dx cols p pairs b b1 :
  write_win b (seg_src v dx cols (snd p)) (slice (off (seg_src v sx0 cols (fst p))) cols b) = Ok b1 ->
  seg_fold v sx0 dx cols (p :: pairs) b = seg_fold v sx0 dx cols pairs b1.
Proof. intros E. unfold seg_fold. cbn [fold_left bind]. rewrite E. reflexivity. Qed.

(** no earlier destination row is a later source or destination row *)
Inductive safe_pairs : list (nat * nat) -> Prop :=
| safe_nil : safe_pairs []
| safe_cons p tl : Forall (fun q => snd p <> fst q /\ snd p <> snd q) tl -> safe_pairs tl -> safe_pairs (p :: tl).

Lemma cell_in_seg v c r dx cols r2 : wf_view v -> c < vcols v -> r < vrows v -> r2 < vrows v -> dx + cols <= vcols v ->
  in_win (seg_src v dx cols r2) (v_cell v c r) = (r2 =? r) && (dx <=? c) && (c <? dx + cols).
Proof.
  intros Hwf Hc Hr Hr2 Hd. destruct (Nat.eqb_spec r2 r) as [->|Hne]; cbn [andb].
  - unfold in_win, v_cell. cbn [seg_src row_win off len]. case_cmp.
  - pose proof (in_row_cell v r2 c r Hwf Hc Hr2 Hr) as H.
    destruct (Nat.eqb_spec r2 r); [contradiction|].
    unfold in_win in *. cbn [seg_src row_win off len] in *.
    apply Bool.andb_false_iff in H. apply Bool.andb_false_iff.
    destruct H as [H|H]; [apply Nat.leb_gt in H; left; apply Nat.leb_gt; lia|apply Nat.ltb_ge in H; right; apply Nat.ltb_ge; lia].
Qed.

Lemma seg_fold_ok v sx0 dx cols : wf_view v -> sx0 + cols <= vcols v -> dx + cols <= vcols v ->
  forall pairs b, fits v b -> safe_pairs pairs ->
  Forall (fun p => fst p < vrows v /\ snd p < vrows v) pairs ->
  exists b', seg_fold v sx0 dx cols pairs b = Ok b' /\ length b' = length b /\
    (forall i, ~ in_view v i -> nth_error b' i = nth_error b i) /\
    (forall c r, c < vcols v -> r < vrows v ->
       nth_error b' (v_cell v c r) =
       match find (fun p => snd p =? r) pairs with
       | Some p => if (dx <=? c) && (c <? dx + cols) then nth_error b (v_cell v (c - dx + sx0) (fst p))
                   else nth_error b (v_cell v c r)
       | None => nth_error b (v_cell v c r)
       end).
Proof.
  intros Hwf Hs Hd. induction pairs as [|p tl IH]; intros b Hb Hsafe Hall.
  - exists b. split; [reflexivity|]. split; [reflexivity|]. split; reflexivity.
  - inversion Hsafe as [|? ? Hp Hsafe']; subst. inversion Hall as [|? ? [Hp1 Hp2] Hall']; subst.
    destruct (seg_copy_ok v b sx0 dx cols (fst p) (snd p) Hwf Hb Hp1 Hp2 Hs Hd) as [b1 [E1 [L1 N1]]].
    rewrite (seg_fold_cons _ _ _ _ _ _ _ _ E1).
    assert (Hb1 : fits v b1) by (unfold fits in *; lia).
    destruct (IH b1 Hb1 Hsafe' Hall') as [b' [E [L [Nout Nin]]]].
    exists b'. split; [exact E|]. split; [lia|]. split.
    + intros i Hi. rewrite Nout by exact Hi. rewrite N1.
      destruct (in_win (seg_src v dx cols (snd p)) i) eqn:Ei; [|reflexivity].
      exfalso. apply Hi. apply in_view_row. exists (snd p). split; [exact Hp2|].
      unfold in_win in *. cbn [seg_src row_win off len] in *.
      apply Bool.andb_true_iff in Ei. destruct Ei as [X1 X2]. apply Nat.leb_le in X1. apply Nat.ltb_lt in X2.
      apply Bool.andb_true_iff. split; [apply Nat.leb_le|apply Nat.ltb_lt]; lia.
    + intros c r Hc Hr. rewrite (Nin c r Hc Hr). cbn [find].
      (* values of b1 in terms of b *)
      assert (Hb1c : forall c' r', c' < vcols v -> r' < vrows v ->
                nth_error b1 (v_cell v c' r') =
                if (snd p =? r') && (dx <=? c') && (c' <? dx + cols)
                then nth_error b (v_cell v (c' - dx + sx0) (fst p)) else nth_error b (v_cell v c' r')).
      { intros c' r' Hc' Hr'. rewrite N1, (cell_in_seg v c' r' dx cols (snd p) Hwf Hc' Hr' Hp2 Hd).
        destruct ((snd p =? r') && (dx <=? c') && (c' <? dx + cols)) eqn:Econd; [|reflexivity].
        apply Bool.andb_true_iff in Econd. destruct Econd as [Econd X3]. apply Bool.andb_true_iff in Econd.
        destruct Econd as [X1 X2]. apply Nat.eqb_eq in X1. apply Nat.leb_le in X2. apply Nat.ltb_lt in X3. subst r'.
        f_equal. unfold v_cell. cbn [seg_src row_win off]. lia. }
      destruct (Nat.eqb_spec (snd p) r) as [Heq|Hne].
      * (* this row was written by the first step; later steps do not write it *)
        assert (Hnone : find (fun q => snd q =? r) tl = None).
        { apply find_none_iff_local. intros q Hq. pose proof (proj1 (Forall_forall _ _) Hp q Hq) as [_ H2].
          apply Nat.eqb_neq. congruence. }
        rewrite Hnone. rewrite (Hb1c c r Hc Hr). rewrite <- Heq, Nat.eqb_refl. cbn [andb]. reflexivity.
      * destruct (find (fun q => snd q =? r) tl) as [q|] eqn:Ef.
        -- apply find_some in Ef. destruct Ef as [Hq Hqr]. apply Nat.eqb_eq in Hqr.
           pose proof (proj1 (Forall_forall _ _) Hp q Hq) as [H1 H2].
           pose proof (proj1 (Forall_forall _ _) Hall' q Hq) as [Hq1 Hq2].
           destruct ((dx <=? c) && (c <? dx + cols)) eqn:Ein.
           ++ apply Bool.andb_true_iff in Ein. destruct Ein as [X1 X2]. apply Nat.leb_le in X1. apply Nat.ltb_lt in X2.
              rewrite (Hb1c (c - dx + sx0) (fst q)) by lia.
              destruct (Nat.eqb_spec (snd p) (fst q)); [congruence|]. reflexivity.
           ++ rewrite (Hb1c c r Hc Hr). destruct (Nat.eqb_spec (snd p) r); [contradiction|]. reflexivity.
        -- rewrite (Hb1c c r Hc Hr). destruct (Nat.eqb_spec (snd p) r); [contradiction|]. reflexivity.
Qed.

(** the model's two row loops are segment folds *)
Lemma copy_within_rows_eq v sx0 sx1 dx cols (down : bool) off_ : wf_view v ->
  cols = sx1 - sx0 -> sx0 <= sx1 -> sx1 <= vcols v -> dx + cols <= vcols v ->
  forall rs b, fits v b ->
  Forall (fun r => r < vrows v /\ (if down then r + off_ else r - off_) < vrows v
                   /\ r <> (if down then r + off_ else r - off_)) rs ->
  copy_within_rows v rs down off_ sx0 sx1 dx cols b
  = seg_fold v sx0 dx cols (map (fun r => (r, if down then r + off_ else r - off_)) rs) b.
Proof.
  intros Hwf Hcols Hle Hs Hd. induction rs as [|r tl IH]; intros b Hb Hall; [reflexivity|].
  inversion Hall as [|? ? [Hr [Hr2 Hne]] Hall']; subst. cbn [copy_within_rows map].
  set (r2 := if down then r + off_ else r - off_) in *.
  rewrite op_row_pair_spec by (try assumption; lia). rewrite !Nat2N.id. cbn [bind fst snd].
  destruct (seg_copy_ok v b sx0 dx (sx1 - sx0) r r2 Hwf Hb Hr Hr2 ltac:(lia) Hd) as [b1 [E1 [L1 _]]].
  assert (Estep : copy_row_to_row b (row_win v r) (row_win v r2) sx0 sx1 dx (sx1 - sx0) = Ok b1).
  { unfold copy_row_to_row, index_range. cbn [row_win len off].
    destruct (Nat.leb_spec dx (dx + (sx1 - sx0))); [|lia].
    destruct (Nat.leb_spec (dx + (sx1 - sx0)) (vcols v)); [|lia]. cbn [andb bind].
    destruct (Nat.leb_spec sx0 sx1); [|lia]. destruct (Nat.leb_spec sx1 (vcols v)); [|lia]. cbn [andb bind].
    unfold assert. cbn [len]. replace (dx + (sx1 - sx0) - dx) with (sx1 - sx0) by lia.
    rewrite Nat.eqb_refl. cbn [bind].
    rewrite read_win_ok by (cbn [off len]; pose proof (row_win_fits v b r Hwf Hb Hr); cbn [row_win off] in *; lia).
    cbn [bind off len]. exact E1. }
  rewrite Estep. cbn [bind].
  rewrite (seg_fold_cons v sx0 dx (sx1 - sx0) (r, r2) _ b b1 E1).
  apply IH; [unfold fits in *; lia|exact Hall'].
Qed.

Lemma copy_within_same_eq v sx0 sx1 dx : wf_view v ->
  sx0 <= sx1 -> sx1 <= vcols v -> dx + (sx1 - sx0) <= vcols v ->
  forall rs b, fits v b -> Forall (fun r => r < vrows v) rs ->
  copy_within_same v rs sx0 sx1 dx b = seg_fold v sx0 dx (sx1 - sx0) (map (fun r => (r, r)) rs) b.
Proof.
  intros Hwf Hle Hs Hd. induction rs as [|r tl IH]; intros b Hb Hall; [reflexivity|].
  inversion Hall as [|? ? Hr Hall']; subst. cbn [copy_within_same map].
  rewrite (index_row_in v Hwf (N.of_nat r)) by lia. rewrite Nat2N.id. cbn [bind]. fold (row_win v r).
  unfold assert. cbn [row_win len off].
  destruct (Nat.leb_spec sx0 sx1); [|lia]. destruct (Nat.leb_spec sx1 (vcols v)); [|lia].
  destruct (Nat.leb_spec (dx + (sx1 - sx0)) (vcols v)); [|lia]. cbn [andb bind].
  destruct (seg_copy_ok v b sx0 dx (sx1 - sx0) r r Hwf Hb Hr Hr ltac:(lia) Hd) as [b1 [E1 [L1 _]]].
  rewrite read_win_ok by (cbn [off len]; pose proof (row_win_fits v b r Hwf Hb Hr); cbn [row_win off] in *; lia).
  cbn [bind off len]. pose proof E1 as E1'. unfold seg_src, row_win in E1'. cbn [off len] in E1'. rewrite E1'. cbn [bind].
  rewrite (seg_fold_cons v sx0 dx (sx1 - sx0) (r, r) _ b b1); [|exact E1].
  apply IH; [unfold fits in *; lia|exact Hall'].
Qed.

Lemma find_map_pairs (f : nat -> nat) r' rs :
  find (fun p : nat * nat => snd p =? r') (map (fun r => (r, f r)) rs) =
  option_map (fun r => (r, f r)) (find (fun r => f r =? r') rs).
Proof.
  induction rs as [|r tl IH]; [reflexivity|]. cbn [map find snd]. destruct (f r =? r'); [reflexivity|exact IH].
Qed.

Lemma safe_pairs_mono (f : nat -> nat) rs :
  (forall a b, f a = f b -> a = b) ->
  (StronglySorted (fun a b => f a <> b) rs) -> NoDup rs ->
  safe_pairs (map (fun r => (r, f r)) rs).
Proof.
  intros Hinj Hs Hnd. induction Hs as [|a tl Hs IH Ha]; cbn [map]; constructor.
  - inversion Hnd as [|? ? Hnin _]; subst. apply Forall_forall. intros q Hq. apply in_map_iff in Hq.
    destruct Hq as [r [<- Hr]]. cbn [fst snd]. split.
    + apply (proj1 (Forall_forall _ _) Ha r Hr).
    + intros E. apply Hinj in E. subst. contradiction.
  - apply IH. inversion Hnd; assumption.
Qed.

Theorem op_copy_within_spec oc v b (x0 y0 x1 y1 dx dy : N) : wf_view v -> fits v b ->
  (x0 <= x1)%N -> (y0 <= y1)%N -> (x1 <= N.of_nat (vcols v))%N -> (y1 <= N.of_nat (vrows v))%N ->
  (dx + (x1 - x0) <= N.of_nat (vcols v))%N -> (dy + (y1 - y0) <= N.of_nat (vrows v))%N ->
  (N.of_nat (vcols v) < W)%N -> (N.of_nat (vrows v) < W)%N ->
  exists b', op_copy_within oc v b x0 y0 x1 y1 dx dy = Ok b' /\ length b' = length b /\
    (forall i, ~ in_view v i -> nth_error b' i = nth_error b i) /\
    (forall c r, c < vcols v -> r < vrows v ->
       nth_error b' (v_cell v c r) =
       if (N.to_nat dx <=? c) && (c <? N.to_nat dx + (N.to_nat x1 - N.to_nat x0))
          && (N.to_nat dy <=? r) && (r <? N.to_nat dy + (N.to_nat y1 - N.to_nat y0))
       then nth_error b (v_cell v (c - N.to_nat dx + N.to_nat x0) (r - N.to_nat dy + N.to_nat y0))
       else nth_error b (v_cell v c r)).
Proof.
  intros Hwf Hb Hx Hy Hx1 Hy1 Hdx Hdy Hcw Hrw. unfold op_copy_within, assert.
  destruct (N.leb_spec x0 x1); [|lia]. destruct (N.leb_spec y0 y1); [|lia].
  destruct (N.leb_spec x1 (N.of_nat (vcols v))); [|lia]. destruct (N.leb_spec y1 (N.of_nat (vrows v))); [|lia].
  cbn [bind]. unfold cadd.
  destruct (N.ltb_spec (dx + (x1 - x0)) W); [|lia]. cbn [bind].
  destruct (N.leb_spec (dx + (x1 - x0)) (N.of_nat (vcols v))); [|lia]. cbn [bind].
  destruct (N.ltb_spec (dy + (y1 - y0)) W); [|lia]. cbn [bind].
  destruct (N.leb_spec (dy + (y1 - y0)) (N.of_nat (vrows v))); [|lia]. cbn [bind].
  set (X0 := N.to_nat x0). set (Y0 := N.to_nat y0). set (X1 := N.to_nat x1). set (Y1 := N.to_nat y1).
  set (DX := N.to_nat dx). set (DY := N.to_nat dy).
  replace (N.to_nat (x1 - x0)) with (X1 - X0) by lia. replace (N.to_nat (y1 - y0)) with (Y1 - Y0) by lia.
  assert (HX : X0 <= X1 /\ X1 <= vcols v /\ DX + (X1 - X0) <= vcols v) by lia.
  assert (HY : Y0 <= Y1 /\ Y1 <= vrows v /\ DY + (Y1 - Y0) <= vrows v) by lia.
  (* the common conclusion from a segment fold *)
  assert (Hfold : forall (f : nat -> nat) rs,
            (forall r, In r rs <-> Y0 <= r < Y1) -> NoDup rs ->
            (forall r, Y0 <= r < Y1 -> f r = r - Y0 + DY) ->
            StronglySorted (fun a b => f a <> b) rs ->
            exists b', seg_fold v X0 DX (X1 - X0) (map (fun r => (r, f r)) rs) b = Ok b' /\ length b' = length b /\
              (forall i, ~ in_view v i -> nth_error b' i = nth_error b i) /\
              (forall c r, c < vcols v -> r < vrows v ->
                 nth_error b' (v_cell v c r) =
                 if (DX <=? c) && (c <? DX + (X1 - X0)) && (DY <=? r) && (r <? DY + (Y1 - Y0))
                 then nth_error b (v_cell v (c - DX + X0) (r - DY + Y0))
                 else nth_error b (v_cell v c r))).
  { intros f rs Hin Hnd Hf Hsorted.
    assert (Hinj : forall a c, In a rs -> In c rs -> f a = f c -> a = c).
    { intros a c Ha Hc E. apply Hin in Ha, Hc. rewrite !Hf in E by assumption. lia. }
    destruct (seg_fold_ok v X0 DX (X1 - X0) Hwf ltac:(lia) ltac:(lia) (map (fun r => (r, f r)) rs) b Hb)
      as [b' [E [L [Nout Nin]]]].
    - (* safe *)
      clear - Hsorted Hnd Hinj. induction Hsorted as [|a tl Hs IH Ha]; cbn [map]; constructor.
      + inversion Hnd as [|? ? Hnin _]; subst. apply Forall_forall. intros q Hq. apply in_map_iff in Hq.
        destruct Hq as [r [<- Hr]]. cbn [fst snd]. split; [apply (proj1 (Forall_forall _ _) Ha r Hr)|].
        intros E. apply Hinj in E; [subst; contradiction|left; reflexivity|right; exact Hr].
      + apply IH; [inversion Hnd; assumption|]. intros x y Hx Hy. apply Hinj; right; assumption.
    - apply Forall_forall. intros p Hp. apply in_map_iff in Hp. destruct Hp as [r [<- Hr]].
      apply Hin in Hr. cbn [fst snd]. rewrite Hf by exact Hr. lia.
    - exists b'. split; [exact E|]. split; [exact L|]. split; [exact Nout|].
      intros c r Hc Hr. rewrite (Nin c r Hc Hr), find_map_pairs.
      destruct (find (fun r0 => f r0 =? r) rs) as [r0|] eqn:Ef; cbn [option_map].
      + apply find_some in Ef. destruct Ef as [Hr0 Hfr]. apply Nat.eqb_eq in Hfr. apply Hin in Hr0.
        rewrite Hf in Hfr by exact Hr0. cbn [fst].
        destruct (Nat.leb_spec DY r); [|lia]. destruct (Nat.ltb_spec r (DY + (Y1 - Y0))); [|lia].
        rewrite !Bool.andb_true_r. replace (r - DY + Y0) with r0 by lia. reflexivity.
      + assert (Hnot : ~ (DY <= r < DY + (Y1 - Y0))).
        { intros Hrange. pose proof (find_none _ _ Ef (r - DY + Y0)) as Hn. cbn beta in Hn.
          rewrite Hf in Hn by lia. assert (Hmem : In (r - DY + Y0) rs) by (apply Hin; lia).
          specialize (Hn Hmem). apply Nat.eqb_neq in Hn. lia. }
        destruct (Nat.leb_spec DY r); destruct (Nat.ltb_spec r (DY + (Y1 - Y0))); try lia;
          rewrite ?Bool.andb_false_r; reflexivity. }
  assert (Hseq_in : forall r, In r (seq Y0 (Y1 - Y0)) <-> Y0 <= r < Y1) by (intros r; rewrite in_seq; lia).
  assert (Hm : forall (F : list nat -> res buf) rs, F [] = Ok b ->
            match rs with [] => Ok b | _ :: _ => F rs end = F rs).
  { intros F [|x l] HF; [symmetry; exact HF|reflexivity]. }
  destruct (N.ltb_spec y0 dy) as [Hdown|Hnd].
  - (* destination below: bottom-up *)
    rewrite (Hm (fun rs => copy_within_rows v (rev rs) true (N.to_nat dy - N.to_nat y0) X0 X1 DX (X1 - X0) b)) by reflexivity.
    rewrite (copy_within_rows_eq v X0 X1 DX (X1 - X0) true (N.to_nat dy - N.to_nat y0) Hwf eq_refl) by
      (try lia; try exact Hb; apply Forall_forall; intros r Hr; apply in_rev in Hr; apply Hseq_in in Hr; lia).
    apply (Hfold (fun r => r + (N.to_nat dy - N.to_nat y0)) (rev (seq Y0 (Y1 - Y0)))).
    + intros r. rewrite <- in_rev. apply Hseq_in.
    + apply NoDup_rev. apply seq_NoDup.
    + intros r Hr. lia.
    + (* decreasing rows: an earlier destination is above every later source *)
      assert (Hgen : forall s n, StronglySorted (fun a c => a + (N.to_nat dy - N.to_nat y0) <> c) (rev (seq s n))).
      { intros s n. revert s. induction n as [|n IHn]; intros s; [constructor|].
        rewrite seq_S, rev_app_distr. cbn [rev app]. constructor; [apply IHn|].
        apply Forall_forall. intros z Hz. apply in_rev in Hz. apply in_seq in Hz. lia. }
      apply Hgen.
  - destruct (N.ltb_spec dy y0) as [Hup|Hsame].
    + (* destination above: top-down *)
      rewrite (copy_within_rows_eq v X0 X1 DX (X1 - X0) false (N.to_nat y0 - N.to_nat dy) Hwf eq_refl) by
        (try lia; try exact Hb; apply Forall_forall; intros r Hr; apply Hseq_in in Hr; lia).
      apply (Hfold (fun r => r - (N.to_nat y0 - N.to_nat dy)) (seq Y0 (Y1 - Y0))).
      * exact Hseq_in.
      * apply seq_NoDup.
      * intros r Hr. lia.
      * assert (Hgen : forall n s, N.to_nat y0 - N.to_nat dy <= s ->
                  StronglySorted (fun a c => a - (N.to_nat y0 - N.to_nat dy) <> c) (seq s n)).
        { induction n as [|n IHn]; intros s Hs; cbn [seq]; constructor; [apply IHn; lia|].
          apply Forall_forall. intros z Hz. apply in_seq in Hz. lia. }
        apply Hgen. lia.
    + (* same rows: memmove within each row *)
      assert (DY = Y0) by lia.
      rewrite (Hm (fun rs => copy_within_same v rs X0 X1 DX b)) by reflexivity.
      rewrite (copy_within_same_eq v X0 X1 DX Hwf) by
        (try lia; try exact Hb; apply Forall_forall; intros r Hr; apply Hseq_in in Hr; lia).
      apply (Hfold (fun r => r) (seq Y0 (Y1 - Y0))).
      * exact Hseq_in.
      * apply seq_NoDup.
      * intros r Hr. lia.
      * assert (Hgen : forall n s, StronglySorted (fun a c : nat => a <> c) (seq s n)).
        { induction n as [|n IHn]; intros s; cbn [seq]; constructor; [apply IHn|].
          apply Forall_forall. intros z Hz. apply in_seq in Hz. lia. }
        apply Hgen.
Qed.

Theorem op_copy_within_reject oc v b (x0 y0 x1 y1 dx dy : N) :
  ~ ((x0 <= x1)%N /\ (y0 <= y1)%N /\ (x1 <= N.of_nat (vcols v))%N /\ (y1 <= N.of_nat (vrows v))%N /\
     (dx + (x1 - x0) <= N.of_nat (vcols v))%N /\ (dy + (y1 - y0) <= N.of_nat (vrows v))%N) ->
  op_copy_within oc v b x0 y0 x1 y1 dx dy = Panic.
Proof.
  intros H. unfold op_copy_within, assert.
  destruct (N.leb_spec x0 x1); cbn [bind]; [|reflexivity].
  destruct (N.leb_spec y0 y1); cbn [bind]; [|reflexivity].
  destruct (N.leb_spec x1 (N.of_nat (vcols v))); cbn [bind]; [|reflexivity].
  destruct (N.leb_spec y1 (N.of_nat (vrows v))); cbn [bind]; [|reflexivity].
  unfold cadd. destruct (N.ltb_spec (dx + (x1 - x0)) W); cbn [bind]; [|reflexivity].
  destruct (N.leb_spec (dx + (x1 - x0)) (N.of_nat (vcols v))); cbn [bind]; [|reflexivity].
  destruct (N.ltb_spec (dy + (y1 - y0)) W); cbn [bind]; [|reflexivity].
  destruct (N.leb_spec (dy + (y1 - y0)) (N.of_nat (vrows v))); cbn [bind]; [|reflexivity].
  exfalso. apply H. repeat split; assumption.
Qed.
