(** C16 / C17: [build_swap_trace] (sort.rs 10-46).  For every permutation sigma of 0..n-1
    (sigma[k] = the original index of the line that must end at position k) the returned
    transpositions, applied in order, turn the identity arrangement into sigma; all the
    unchecked indexing stays in bounds. *)
From Coq Require Import Permutation.
From TD Require Import Base.Prelude Model.Ops Proofs.ListLemmas.

Definition apply_trace {X} (tr : list (nat * nat)) (l : list X) : list X :=
  fold_left (fun acc p => swap_idx (fst p) (snd p) acc) tr l.

Lemma swap_idx_length {X} i j (l : list X) : length (swap_idx i j l) = length l.
Proof.
  unfold swap_idx. destruct (nth_error l i); [|reflexivity]. destruct (nth_error l j); [|reflexivity].
  rewrite !upd_length. reflexivity.
Qed.

Lemma nth_swap_idx {X} i j (l : list X) k : i < length l -> j < length l ->
  nth_error (swap_idx i j l) k = nth_error l (if k =? i then j else if k =? j then i else k).
Proof.
  intros Hi Hj. unfold swap_idx.
  destruct (nth_error l i) as [x|] eqn:Ei; [|apply nth_error_None in Ei; lia].
  destruct (nth_error l j) as [y|] eqn:Ej; [|apply nth_error_None in Ej; lia].
  rewrite !nth_error_upd, !upd_length.
  destruct (Nat.eqb_spec j k), (Nat.eqb_spec k i), (Nat.eqb_spec i k), (Nat.eqb_spec k j); subst; try lia; cbn [andb];
    repeat match goal with |- context [?a <? ?b] => destruct (Nat.ltb_spec a b); try lia end; congruence.
Qed.

Lemma apply_trace_length {X} tr : forall (l : list X), length (apply_trace tr l) = length l.
Proof.
  induction tr as [|p tr IH]; intros l; [reflexivity|]. cbn [apply_trace fold_left].
  fold (apply_trace tr (swap_idx (fst p) (snd p) l)). rewrite IH. apply swap_idx_length.
Qed.

Lemma apply_trace_snoc {X} tr p (l : list X) :
  apply_trace (tr ++ [p]) l = swap_idx (fst p) (snd p) (apply_trace tr l).
Proof. unfold apply_trace. rewrite fold_left_app. reflexivity. Qed.

(** swaps are natural: a trace acts on any list through its action on the identity *)
Lemma apply_trace_natural {X} tr : forall n (l : list X), length l = n ->
  Forall (fun p => fst p < n /\ snd p < n) tr ->
  forall k, nth_error (apply_trace tr l) k =
            match nth_error (apply_trace tr (seq 0 n)) k with
            | Some s => nth_error l s
            | None => None
            end.
Proof.
  induction tr as [|p tr IH] using rev_ind; intros n l Hl Hall k.
  - cbn [apply_trace fold_left]. rewrite nth_error_seq. destruct (Nat.ltb_spec k n); [reflexivity|].
    apply nth_error_None. lia.
  - apply Forall_app in Hall. destruct Hall as [Hall Hp]. inversion Hp as [|? ? [Hp1 Hp2] _]; subst.
    rewrite !apply_trace_snoc.
    rewrite !nth_swap_idx by (rewrite apply_trace_length, ?seq_length; lia).
    apply IH; [reflexivity|exact Hall].
Qed.

(** * the algorithm *)
Section Trace.
Variable sigma : list nat.
Let n := length sigma.
Hypothesis Hperm : Permutation sigma (seq 0 n).

Lemma sigma_lt k s : nth_error sigma k = Some s -> s < n.
Proof.
  intros H. apply nth_error_In in H. apply (Permutation_in _ Hperm) in H. apply in_seq in H. lia.
Qed.

Lemma sigma_nodup : NoDup sigma.
Proof. apply (Permutation_NoDup (Permutation_sym Hperm)). apply seq_NoDup. Qed.

Lemma sigma_inj k1 k2 s : nth_error sigma k1 = Some s -> nth_error sigma k2 = Some s -> k1 = k2.
Proof.
  intros H1 H2. apply (proj1 (NoDup_nth_error sigma) sigma_nodup); [|congruence].
  apply nth_error_Some. congruence.
Qed.

Lemma sigma_surj s : s < n -> exists k, nth_error sigma k = Some s.
Proof.
  intros H. apply In_nth_error. apply (Permutation_in _ (Permutation_sym Hperm)). apply in_seq. lia.
Qed.

Definition o0 : ord := map (fun i => (i, 0)) sigma.

(** ** the reverse lookup *)
Definition rev_inv (j : nat) (o : ord) : Prop :=
  length o = n /\
  (forall k, k < n -> option_map fst (nth_error o k) = nth_error sigma k) /\
  (forall idx s, idx < j -> nth_error sigma idx = Some s -> option_map snd (nth_error o s) = Some idx).

Lemma bst_reverse_ok : forall m j o, j + m = n -> rev_inv j o ->
  exists o', bst_reverse (seq j m) o = Ok o' /\ rev_inv n o'.
Proof.
  induction m as [|m IH]; intros j o Hj Hinv.
  - exists o. split; [reflexivity|]. replace n with j by lia. exact Hinv.
  - cbn [seq bst_reverse]. destruct Hinv as [Hlen [Hfst Hsnd]].
    unfold ord_get. destruct (nth_error o j) as [[s x]|] eqn:Ej; [|apply nth_error_None in Ej; lia].
    cbn [bind fst]. pose proof (Hfst j ltac:(lia)) as Hs. rewrite Ej in Hs. cbn in Hs. symmetry in Hs.
    pose proof (sigma_lt j s Hs) as Hsn.
    unfold ord_set1, ord_get. destruct (nth_error o s) as [[s2 y]|] eqn:Es; [|apply nth_error_None in Es; lia].
    cbn [bind fst].
    apply IH; [lia|]. split; [rewrite upd_length; exact Hlen|]. split.
    + intros k Hk. rewrite nth_error_upd. destruct (Nat.eqb_spec s k) as [->|]; cbn [andb].
      * destruct (Nat.ltb_spec k (length o)); [|lia]. cbn. rewrite <- (Hfst k Hk), Es. reflexivity.
      * apply Hfst. exact Hk.
    + intros idx s' Hidx Hs'. rewrite nth_error_upd.
      destruct (Nat.eqb_spec s s') as [<-|Hne]; cbn [andb].
      * destruct (Nat.ltb_spec s (length o)); [|lia]. cbn. f_equal. apply (sigma_inj j idx s); assumption.
      * apply Hsnd; [|exact Hs'].
        destruct (Nat.eq_dec idx j) as [->|]; [congruence|lia].
Qed.

(** ** the trace loop *)
Definition tr_inv (i sc : nat) (o : ord) (cur : list nat) (tr : list (nat * nat)) : Prop :=
  length o = n /\ length cur = n /\ sc <= i /\ length tr = sc /\ firstn sc o = tr /\
  apply_trace tr (seq 0 n) = cur /\ NoDup cur /\
  Forall (fun p => fst p < n /\ snd p < n) tr /\
  (forall k, k < i -> nth_error cur k = nth_error sigma k) /\
  (forall k, i <= k < n -> exists q x, nth_error o k = Some (q, x) /\ i <= q < n /\ nth_error cur q = nth_error sigma k) /\
  (forall p, i <= p < n -> exists q x, nth_error o p = Some (q, x) /\ i <= x < n /\ nth_error sigma x = nth_error cur p).

Lemma cur_inj (cur : list nat) p1 p2 s : NoDup cur -> nth_error cur p1 = Some s -> nth_error cur p2 = Some s -> p1 = p2.
Proof.
  intros Hnd H1 H2. apply (proj1 (NoDup_nth_error cur) Hnd); [|congruence]. apply nth_error_Some. congruence.
Qed.

Lemma NoDup_swap_idx {X} i j (l : list X) : i < length l -> j < length l -> NoDup l -> NoDup (swap_idx i j l).
Proof.
  intros Hi Hj Hnd. apply NoDup_nth_error. intros a c Ha E.
  rewrite swap_idx_length in Ha. rewrite !nth_swap_idx in E by assumption.
  set (f := fun k => if k =? i then j else if k =? j then i else k) in *.
  assert (Hf : forall k, k < length l -> f k < length l).
  { intros k Hk. unfold f. destruct (k =? i); [exact Hj|]. destruct (k =? j); [exact Hi|exact Hk]. }
  assert (f a = f c).
  { apply (proj1 (NoDup_nth_error l) Hnd); [apply Hf; exact Ha|exact E]. }
  unfold f in H. destruct (Nat.eqb_spec a i), (Nat.eqb_spec c i), (Nat.eqb_spec a j), (Nat.eqb_spec c j); lia.
Qed.

Lemma bst_trace_ok : forall m i sc o cur tr, i + m = n -> tr_inv i sc o cur tr ->
  exists o' sc', bst_trace (seq i m) sc o = Ok (o', sc') /\
                 exists tr', firstn sc' o' = tr' /\ apply_trace tr' (seq 0 n) = sigma /\
                             Forall (fun p => fst p < n /\ snd p < n) tr'.
Proof.
  induction m as [|m IH]; intros i sc o cur tr Hi Hinv.
  - destruct Hinv as [Hlo [Hlc [Hsc [Hlt [Hfirst [Happ [Hnd [Hall [Hdone _]]]]]]]]].
    exists o, sc. split; [reflexivity|]. exists tr. split; [exact Hfirst|]. split; [|exact Hall].
    rewrite Happ. apply list_ext. intros k. destruct (Nat.ltb_spec k n).
    + apply Hdone. lia.
    + rewrite !nth_error_ge_None by lia. reflexivity.
  - destruct Hinv as [Hlo [Hlc [Hsc [Hlt [Hfirst [Happ [Hnd [Hall [Hdone [Hwant Hwho]]]]]]]]]].
    cbn [seq bst_trace]. unfold ord_get at 1.
    destruct (Hwant i ltac:(lia)) as [other [inv_i [Eo [Hother Hcuro]]]].
    destruct (Hwho i ltac:(lia)) as [other' [inv_i' [Eo' [Hinv_i Hsig]]]].
    rewrite Eo in Eo'. inversion Eo'; subst other' inv_i'. clear Eo'.
    rewrite Eo. cbn [bind].
    destruct (nth_error sigma i) as [si|] eqn:Esi; [|apply nth_error_None in Esi; fold n in Esi; lia].
    destruct (nth_error cur i) as [ci|] eqn:Eci; [|apply nth_error_None in Eci; lia].
    destruct (Nat.eqb_spec i other) as [Heq|Hne]; cbn [negb].
    + (* already in place *)
      subst other. apply (IH (S i) sc o cur tr); [lia|].
      split; [exact Hlo|]. split; [exact Hlc|]. split; [lia|]. split; [exact Hlt|]. split; [exact Hfirst|].
      split; [exact Happ|]. split; [exact Hnd|]. split; [exact Hall|]. split; [|split].
      * intros k Hk. destruct (Nat.eq_dec k i) as [->|]; [rewrite Esi; exact Hcuro|apply Hdone; lia].
      * intros k Hk. destruct (Hwant k ltac:(lia)) as [q [x [E1 [Hq Hcq]]]]. exists q, x.
        split; [exact E1|]. split; [|exact Hcq].
        destruct (Nat.eq_dec q i) as [->|]; [|lia]. exfalso.
        rewrite Hcuro in Hcq. symmetry in Hcq. pose proof (sigma_inj i k si Esi Hcq). lia.
      * intros p Hp. destruct (Hwho p ltac:(lia)) as [q [x [E1 [Hx Hsx]]]]. exists q, x.
        split; [exact E1|]. split; [|exact Hsx].
        destruct (Nat.eq_dec x i) as [->|]; [|lia]. exfalso.
        rewrite Esi in Hsx. symmetry in Hsx.
        pose proof (cur_inj cur p i si Hnd Hsx Hcuro). lia.
    + (* swap i <-> other *)
      assert (Hoi : i < other) by lia.
      assert (Hii : i < inv_i).
      { destruct (Nat.eq_dec inv_i i) as [->|]; [|lia]. exfalso.
        rewrite Esi in Hsig. inversion Hsig; subst ci.
        pose proof (cur_inj cur other i si Hnd Hcuro Eci). lia. }
      unfold ord_get. destruct (nth_error o sc) as [psc|] eqn:Esc; [|apply nth_error_None in Esc; lia].
      cbn [bind]. destruct (Nat.ltb_spec i inv_i); [|lia].
      unfold ord_set0, ord_set1, ord_get.
      set (o1 := upd sc (i, other) o).
      assert (Hl1 : length o1 = n) by (unfold o1; rewrite upd_length; exact Hlo).
      destruct (nth_error o1 inv_i) as [[a1 a2]|] eqn:E1; [|apply nth_error_None in E1; lia].
      cbn [bind snd]. set (o2 := upd inv_i (other, a2) o1).
      assert (Hl2 : length o2 = n) by (unfold o2; rewrite upd_length; exact Hl1).
      destruct (nth_error o2 other) as [[c1 c2]|] eqn:E2; [|apply nth_error_None in E2; lia].
      cbn [bind fst]. set (o3 := upd other (c1, inv_i) o2).
      set (cur' := swap_idx i other cur).
      apply (IH (S i) (S sc) o3 cur' (tr ++ [(i, other)])); [lia|].
      assert (Hcur' : forall k, nth_error cur' k = nth_error cur (if k =? i then other else if k =? other then i else k)).
      { intros k. unfold cur'. apply nth_swap_idx; lia. }
      (* entries of o3 at positions above i *)
      assert (Ho3 : forall k, i < k < n ->
                nth_error o3 k = match nth_error o k with
                                 | Some (q, x) => Some (if k =? inv_i then other else q, if k =? other then inv_i else x)
                                 | None => None end).
      { intros k Hk. unfold o3. rewrite nth_error_upd, Hl2.
        destruct (Nat.eqb_spec other k) as [<-|Hnk]; cbn [andb].
        - destruct (Nat.ltb_spec other n); [|lia]. unfold o2 in E2. rewrite nth_error_upd, Hl1 in E2.
          destruct (Nat.eqb_spec inv_i other) as [Heq|Hneq]; cbn [andb] in E2.
          + destruct (Nat.ltb_spec other n); [|lia]. inversion E2; subst c1 c2.
            unfold o1 in E1. rewrite nth_error_upd_neq in E1 by lia. rewrite Heq in E1. rewrite E1.
            rewrite Heq, Nat.eqb_refl. reflexivity.
          + unfold o1 in E2. rewrite nth_error_upd_neq in E2 by lia. rewrite E2.
            destruct (Nat.eqb_spec other inv_i); [lia|]. rewrite Nat.eqb_refl. reflexivity.
        - unfold o2. rewrite nth_error_upd, Hl1.
          destruct (Nat.eqb_spec inv_i k) as [<-|Hnk2]; cbn [andb].
          + destruct (Nat.ltb_spec inv_i n); [|lia]. unfold o1 in E1. rewrite nth_error_upd_neq in E1 by lia.
            rewrite E1. rewrite Nat.eqb_refl. destruct (Nat.eqb_spec inv_i other); [lia|]. reflexivity.
          + unfold o1. rewrite nth_error_upd_neq by lia.
            destruct (nth_error o k) as [[q x]|]; [|reflexivity].
            destruct (Nat.eqb_spec k inv_i); [lia|]. destruct (Nat.eqb_spec k other); [lia|]. reflexivity. }
      split; [unfold o3; rewrite upd_length; exact Hl2|].
      split; [unfold cur'; rewrite swap_idx_length; exact Hlc|].
      split; [lia|]. split; [rewrite app_length; cbn [length]; lia|]. split; [|split; [|split; [|split; [|split; [|split]]]]].
      * (* the trace prefix *)
        assert (Hpre : forall k, k < sc -> nth_error o3 k = nth_error o k).
        { intros k Hk. unfold o3, o2, o1. rewrite !nth_error_upd_neq by lia. reflexivity. }
        assert (Hat : nth_error o3 sc = Some (i, other)).
        { unfold o3, o2. rewrite !nth_error_upd_neq by lia. unfold o1. apply nth_error_upd_eq. lia. }
        apply list_ext. intros k. rewrite nth_error_firstn, nth_error_app, Hlt.
        destruct (Nat.ltb_spec k (S sc)).
        -- destruct (Nat.ltb_spec k sc).
           ++ rewrite Hpre by lia. rewrite <- Hfirst, nth_error_firstn.
              destruct (Nat.ltb_spec k sc); [reflexivity|lia].
           ++ replace k with sc by lia. rewrite Nat.sub_diag. exact Hat.
        -- destruct (Nat.ltb_spec k sc); [lia|]. symmetry. apply nth_error_None. cbn [length]. lia.
      * rewrite apply_trace_snoc, Happ. reflexivity.
      * unfold cur'. apply NoDup_swap_idx; try lia. exact Hnd.
      * apply Forall_app. split; [exact Hall|]. constructor; [cbn [fst snd]; lia|constructor].
      * intros k Hk. rewrite Hcur'. destruct (Nat.eqb_spec k i) as [->|Hki]; [rewrite Esi; exact Hcuro|].
        destruct (Nat.eqb_spec k other); [lia|]. apply Hdone. lia.
      * (* who holds what is wanted at k *)
        intros k Hk. rewrite Ho3 by lia.
        destruct (Hwant k ltac:(lia)) as [q [x [Ek [Hq Hcq]]]]. rewrite Ek.
        eexists; eexists. split; [reflexivity|].
        destruct (Nat.eqb_spec k inv_i) as [->|Hkn].
        -- split; [lia|]. rewrite Hcur'. destruct (Nat.eqb_spec other i); [lia|]. rewrite Nat.eqb_refl.
           rewrite Eci. symmetry. exact Hsig.
        -- assert (Hqi : q <> i).
           { intros ->. rewrite Eci in Hcq. symmetry in Hcq.
             pose proof (sigma_inj k inv_i ci Hcq Hsig). contradiction. }
           assert (Hqo : q <> other).
           { intros ->. rewrite Hcuro in Hcq. symmetry in Hcq. pose proof (sigma_inj i k si Esi Hcq). lia. }
           split; [lia|]. rewrite Hcur'. destruct (Nat.eqb_spec q i); [contradiction|].
           destruct (Nat.eqb_spec q other); [contradiction|]. exact Hcq.
      * (* who wants what sits at p *)
        intros p Hp. rewrite Ho3 by lia.
        destruct (Hwho p ltac:(lia)) as [q [x [Ep [Hx Hsx]]]]. rewrite Ep.
        eexists; eexists. split; [reflexivity|].
        destruct (Nat.eqb_spec p other) as [->|Hpo].
        -- split; [lia|]. rewrite Hcur'. destruct (Nat.eqb_spec other i); [lia|]. rewrite Nat.eqb_refl.
           rewrite Eci. exact Hsig.
        -- assert (Hxi : x <> i).
           { intros ->. rewrite Esi in Hsx. symmetry in Hsx.
             pose proof (cur_inj cur p other si Hnd Hsx Hcuro). contradiction. }
           split; [lia|]. rewrite Hcur'. destruct (Nat.eqb_spec p i); [lia|].
           destruct (Nat.eqb_spec p other); [contradiction|]. exact Hsx.
Qed.

Theorem build_swap_trace_ok :
  exists tr, build_swap_trace o0 = Ok tr /\ apply_trace tr (seq 0 n) = sigma /\
             Forall (fun p => fst p < n /\ snd p < n) tr.
Proof.
  unfold build_swap_trace. assert (Hl0 : length o0 = n) by (unfold o0; rewrite map_length; reflexivity).
  rewrite Hl0.
  destruct (bst_reverse_ok n 0 o0) as [o1 [E1 [Hl1 [Hfst Hsnd]]]]; [lia| |].
  { split; [exact Hl0|]. split; [|intros; lia].
    intros k Hk. unfold o0. rewrite nth_error_map. destruct (nth_error sigma k); reflexivity. }
  rewrite E1. cbn [bind].
  destruct (bst_trace_ok n 0 0 o1 (seq 0 n) []) as [o2 [sc [E2 [tr [Hfirst [Happ Hall]]]]]]; [lia| |].
  { split; [exact Hl1|]. split; [apply seq_length|]. split; [lia|]. split; [reflexivity|]. split; [reflexivity|].
    split; [reflexivity|]. split; [apply seq_NoDup|]. split; [constructor|]. split; [intros; lia|]. split.
    - intros k Hk. pose proof (Hfst k ltac:(lia)) as Hk1.
      destruct (nth_error o1 k) as [[q x]|] eqn:Ek; [|apply nth_error_None in Ek; lia].
      cbn in Hk1. exists q, x. split; [reflexivity|]. symmetry in Hk1.
      pose proof (sigma_lt k q Hk1). split; [lia|]. rewrite nth_error_seq.
      destruct (Nat.ltb_spec q n); [|lia]. rewrite Hk1. reflexivity.
    - intros p Hp. destruct (sigma_surj p ltac:(lia)) as [idx Hidx].
      pose proof (Hsnd idx p ltac:(apply nth_error_Some; fold n; congruence) Hidx) as Hp1.
      destruct (nth_error o1 p) as [[q x]|] eqn:Ep; [|discriminate]. cbn in Hp1. inversion Hp1; subst x.
      exists q, idx. split; [reflexivity|].
      assert (idx < n) by (apply nth_error_Some; fold n; congruence).
      split; [lia|]. rewrite Hidx, nth_error_seq. destruct (Nat.ltb_spec p n); [reflexivity|lia]. }
  rewrite E2. cbn [bind fst snd]. exists tr. rewrite Hfirst. split; [reflexivity|]. split; assumption.
Qed.

End Trace.
