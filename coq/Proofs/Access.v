(** C02: every accessor reaches exactly the addressed cell, or panics. *)
From TD Require Import Base.Prelude Model.Iter Model.View Model.GeomRun Spec.Ideal
  Proofs.ListLemmas Proofs.RowsSim Proofs.ColSim Proofs.ViewGeom.

Section Access.
Variable v : view.
Hypothesis Hwf : wf_view v.

Lemma in_range_fits (c r : N) :
  (c < N.of_nat (vcols v))%N -> (r < N.of_nat (vrows v))%N ->
  N.to_nat r * vstride v + N.to_nat c < len (vw v).
Proof.
  intros Hc Hr. destruct Hwf as [_ H]. destruct (vrows v) as [|R']; [lia|].
  destruct H as [_ [Hs Hl]]. rewrite Hl.
  assert (N.to_nat r * vstride v <= R' * vstride v) by (apply Nat.mul_le_mono_r; lia). lia.
Qed.

Lemma index_coord_in (c r : N) :
  (c < N.of_nat (vcols v))%N -> (r < N.of_nat (vrows v))%N ->
  v_index_coord v c r = Ok (v_cell v (N.to_nat c) (N.to_nat r)).
Proof.
  intros Hc Hr. unfold v_index_coord, assert, require, v_cell.
  destruct (N.ltb_spec r (N.of_nat (vrows v))); [|lia].
  destruct (N.ltb_spec c (N.of_nat (vcols v))); [|lia]. cbn [bind].
  pose proof (in_range_fits c r Hc Hr).
  destruct (Nat.ltb_spec (N.to_nat r * vstride v + N.to_nat c) (len (vw v))); [|lia].
  cbn [bind]. f_equal. lia.
Qed.

Lemma index_coord_out (c r : N) :
  (N.of_nat (vcols v) <= c)%N \/ (N.of_nat (vrows v) <= r)%N -> v_index_coord v c r = Panic.
Proof.
  intros H. unfold v_index_coord, assert.
  destruct (N.ltb_spec r (N.of_nat (vrows v))); [|reflexivity].
  destruct (N.ltb_spec c (N.of_nat (vcols v))); [|reflexivity]. lia.
Qed.

Lemma index_row_in (r : N) :
  (r < N.of_nat (vrows v))%N ->
  v_index_row v r = Ok (mkSl (off (vw v) + N.to_nat r * vstride v) (vcols v)).
Proof.
  intros Hr. unfold v_index_row, assert, get_range.
  destruct (N.ltb_spec r (N.of_nat (vrows v))); [|lia]. cbn [bind].
  destruct Hwf as [_ Hx]. destruct (vrows v) as [|R']; [lia|]. destruct Hx as [_ [Hs Hl]].
  assert (N.to_nat r * vstride v <= R' * vstride v) by (apply Nat.mul_le_mono_r; lia).
  destruct (Nat.leb_spec (N.to_nat r * vstride v) (N.to_nat r * vstride v + vcols v)); [|lia].
  destruct (Nat.leb_spec (N.to_nat r * vstride v + vcols v) (len (vw v))); [|lia].
  cbn [andb]. f_equal. f_equal. lia.
Qed.

Lemma row_then_col_in (c r : N) :
  (c < N.of_nat (vcols v))%N -> (r < N.of_nat (vrows v))%N ->
  acc_row_then_col v c r = Ok (v_cell v (N.to_nat c) (N.to_nat r)).
Proof.
  intros Hc Hr. unfold acc_row_then_col. rewrite index_row_in by exact Hr. cbn [bind len off].
  destruct (N.ltb_spec c (N.of_nat (vcols v))); [|lia]. unfold v_cell. f_equal.
Qed.

Lemma row_then_col_out (c r : N) :
  (N.of_nat (vcols v) <= c)%N \/ (N.of_nat (vrows v) <= r)%N -> acc_row_then_col v c r = Panic.
Proof.
  intros H. unfold acc_row_then_col.
  destruct (N.ltb_spec r (N.of_nat (vrows v))) as [Hr|Hr].
  - rewrite index_row_in by exact Hr. cbn [bind len].
    destruct (N.ltb_spec c (N.of_nat (vcols v))); [lia|reflexivity].
  - unfold v_index_row, assert. destruct (N.ltb_spec r (N.of_nat (vrows v))); [lia|reflexivity].
Qed.

Lemma col_then_idx_in k (c r : N) :
  (k = KOwned -> vstride v = vcols v) ->
  (c < N.of_nat (vcols v))%N -> (r < N.of_nat (vrows v))%N ->
  acc_col_then_idx k v c r = Ok (v_cell v (N.to_nat c) (N.to_nat r)).
Proof.
  intros Hk Hc Hr. unfold acc_col_then_idx.
  destruct (v_col_sim k v c Hwf Hc Hk) as [it [E Hs]]. rewrite E. cbn [bind].
  rewrite (col_index_ok it _ r Hs). unfold i_index, view_col.
  rewrite map_length, seq_length. destruct (N.ltb_spec r (N.of_nat (vrows v))); [|lia].
  rewrite nth_error_map, nth_error_seq. destruct (Nat.ltb_spec (N.to_nat r) (vrows v)); [|lia].
  cbn [option_map]. unfold v_cell. f_equal.
Qed.

Lemma col_then_idx_out k (c r : N) :
  (k = KOwned -> vstride v = vcols v) ->
  (N.of_nat (vcols v) <= c)%N \/ (N.of_nat (vrows v) <= r)%N -> acc_col_then_idx k v c r = Panic.
Proof.
  intros Hk H. unfold acc_col_then_idx.
  destruct (N.ltb_spec c (N.of_nat (vcols v))) as [Hc|Hc].
  - destruct (v_col_sim k v c Hwf Hc Hk) as [it [E Hs]]. rewrite E. cbn [bind].
    rewrite (col_index_ok it _ r Hs). unfold i_index, view_col.
    rewrite map_length, seq_length. destruct (N.ltb_spec r (N.of_nat (vrows v))); [lia|reflexivity].
  - rewrite v_col_reject by exact Hc. reflexivity.
Qed.

Lemma get_unchecked_in (c r : nat) : c < vcols v -> r < vrows v ->
  v_get_unchecked v c r = Ok (v_cell v c r).
Proof.
  intros Hc Hr. unfold v_get_unchecked, require, v_cell.
  pose proof (in_range_fits (N.of_nat c) (N.of_nat r)) as Hf. rewrite !Nat2N.id in Hf.
  destruct (Nat.ltb_spec (r * vstride v + c) (len (vw v))); [|lia]. cbn [bind]. f_equal. lia.
Qed.

Lemma get_unchecked_row_in (r : nat) : r < vrows v ->
  v_get_unchecked_row v r = Ok (mkSl (off (vw v) + r * vstride v) (vcols v)).
Proof.
  intros Hr. pose proof (index_row_in (N.of_nat r)) as H.
  unfold v_index_row, assert in H. destruct (N.ltb_spec (N.of_nat r) (N.of_nat (vrows v))); [|lia].
  cbn [bind] in H. rewrite !Nat2N.id in H. unfold v_get_unchecked_row. apply H. lia.
Qed.

End Access.
