(** C16 / C17: sorting by a row permutes whole columns, sorting by a column permutes whole
    rows, by the permutation the side sort produced; the stable side sort orders the keys
    and keeps ties in their original order. *)
From Coq Require Import Permutation Sorted.
From TD Require Import Base.Prelude Model.Iter Model.Flatten Model.View Model.Ops Spec.Ideal
  Proofs.ListLemmas Proofs.RowsSim Proofs.ColSim Proofs.ViewGeom Proofs.FlatSim Proofs.Frame
  Proofs.OpsProofs Proofs.SwapTrace.

(** * applying a swap trace to one row of the buffer *)
Lemma slice_swap_cells (b b1 : buf) w i j : off w + len w <= length b -> i < len w -> j < len w ->
  length b1 = length b ->
  (forall k, nth_error b1 k = if k =? off w + j then nth_error b (off w + i)
                              else if k =? off w + i then nth_error b (off w + j) else nth_error b k) ->
  slice (off w) (len w) b1 = swap_idx i j (slice (off w) (len w) b).
Proof.
  intros Hw Hi Hj HL Hn. apply list_ext. intros k.
  rewrite nth_swap_idx by (rewrite slice_length; lia).
  rewrite !nth_error_slice. destruct (Nat.ltb_spec k (len w)).
  - rewrite Hn.
    destruct (Nat.eqb_spec k i) as [->|Hki].
    + destruct (Nat.ltb_spec j (len w)); [|lia].
      destruct (Nat.eqb_spec (off w + i) (off w + j)); [f_equal; lia|]. rewrite Nat.eqb_refl. reflexivity.
    + destruct (Nat.eqb_spec k j) as [->|Hkj].
      * rewrite Nat.eqb_refl. destruct (Nat.ltb_spec i (len w)); [reflexivity|lia].
      * destruct (Nat.eqb_spec (off w + k) (off w + j)); [lia|].
        destruct (Nat.eqb_spec (off w + k) (off w + i)); [lia|].
        destruct (Nat.ltb_spec k (len w)); [reflexivity|lia].
  - destruct (Nat.eqb_spec k i); [lia|]. destruct (Nat.eqb_spec k j); [lia|].
    destruct (Nat.ltb_spec k (len w)); [lia|reflexivity].
Qed.

Lemma apply_trace_row_ok : forall (trace : list (nat * nat)) (b : buf) w,
  off w + len w <= length b ->
  Forall (fun p => fst p < len w /\ snd p < len w) trace ->
  exists b', apply_trace_row trace b w = Ok b' /\ length b' = length b /\
    forall k, nth_error b' k = if in_win w k
                               then nth_error (apply_trace trace (slice (off w) (len w) b)) (k - off w)
                               else nth_error b k.
Proof.
  induction trace as [|[i j] tl IH]; intros b w Hw Hall.
  - exists b. split; [reflexivity|]. split; [reflexivity|]. intros k. cbn [apply_trace fold_left].
    destruct (in_win w k) eqn:E; [|reflexivity].
    unfold in_win in E. apply Bool.andb_true_iff in E. destruct E as [E1 E2].
    apply Nat.leb_le in E1. apply Nat.ltb_lt in E2.
    rewrite nth_error_slice. destruct (Nat.ltb_spec (k - off w) (len w)); [f_equal; lia|lia].
  - inversion Hall as [|? ? [Hi Hj] Hall']; subst. cbn [fst snd] in Hi, Hj.
    unfold apply_trace_row. unfold cell_of.
    destruct (Nat.ltb_spec i (len w)); [|lia]. destruct (Nat.ltb_spec j (len w)); [|lia]. cbn [bind].
    destruct (swap_cells_ok b (off w + i) (off w + j)) as [b1 [E1 [L1 N1]]]; [lia|lia|].
    rewrite E1. cbn [bind].
    destruct (IH b1 w) as [b' [E' [L' N']]]; [lia|exact Hall'|].
    unfold apply_trace_row in E'. exists b'. split; [exact E'|]. split; [lia|].
    intros k. rewrite N'. cbn [apply_trace fold_left fst snd].
    rewrite (slice_swap_cells b b1 w i j Hw Hi Hj L1 N1).
    destruct (in_win w k) eqn:E; [reflexivity|].
    rewrite N1. unfold in_win in E. apply Bool.andb_false_iff in E.
    destruct (Nat.eqb_spec k (off w + j)); [exfalso; destruct E as [E|E]; [apply Nat.leb_gt in E|apply Nat.ltb_ge in E]; lia|].
    destruct (Nat.eqb_spec k (off w + i)); [exfalso; destruct E as [E|E]; [apply Nat.leb_gt in E|apply Nat.ltb_ge in E]; lia|].
    reflexivity.
Qed.

(** * sort by row: whole columns move, by sigma *)
Definition sigma_at (sigma : list nat) (k : nat) : nat := nth k sigma 0.

Theorem sort_by_row_perm v b (row : N) (sigma : list nat) :
  wf_view v -> fits v b -> (row < N.of_nat (vrows v))%N ->
  Permutation sigma (seq 0 (vcols v)) ->
  exists trace b',
    build_swap_trace (map (fun i => (i, 0)) sigma) = Ok trace /\
    (rows <- all_rows v ;; for_rows (apply_trace_row trace) rows b) = Ok b' /\
    length b' = length b /\
    (forall i, ~ in_view v i -> nth_error b' i = nth_error b i) /\
    (forall c r, c < vcols v -> r < vrows v ->
       nth_error b' (v_cell v c r) = nth_error b (v_cell v (sigma_at sigma c) r)).
Proof.
  intros Hwf Hb Hrow Hperm.
  assert (Hlen : length sigma = vcols v) by (rewrite (Permutation_length Hperm), seq_length; reflexivity).
  rewrite <- Hlen in Hperm.
  destruct (build_swap_trace_ok sigma Hperm) as [trace [Etr [Happ Hall]]]. rewrite Hlen in *.
  exists trace. rewrite (all_rows_ok v Hwf). cbn [bind].
  destruct (view_for_rows (apply_trace_row trace) (fun row c => nth_error (apply_trace trace row) c) v)
    with (b := b) as [b' [E [L [Nout Nin]]]]; [|exact Hwf|exact Hb|].
  - intros b1 w Hw Hl. apply apply_trace_row_ok; [exact Hw|]. rewrite Hl. exact Hall.
  - exists b'. split; [exact Etr|]. split; [exact E|]. split; [exact L|]. split; [exact Nout|].
    intros c r Hc Hr. rewrite (Nin c r Hc Hr).
    assert (Hrl : length (row_of v b r) = vcols v).
    { unfold row_of. apply slice_length. pose proof (row_win_inside v r Hwf Hr) as [_ H2].
      unfold fits in Hb. cbn [row_win off len] in *. lia. }
    rewrite (apply_trace_natural trace (vcols v) (row_of v b r) Hrl Hall c). rewrite Happ.
    unfold sigma_at. destruct (nth_error sigma c) as [s|] eqn:Es; [|apply nth_error_None in Es; lia].
    rewrite (nth_error_nth _ _ 0 Es). apply row_of_nth.
    apply nth_error_In in Es. apply (Permutation_in _ Hperm) in Es. apply in_seq in Es. lia.
Qed.

(** * sort by column: whole rows move, by sigma *)
Lemma swap_rows_trace k v b0 : wf_view v -> fits v b0 -> (k = KOwned -> vstride v = vcols v) ->
  forall (trace : list (nat * nat)) (b : buf) (cur : list nat),
  Forall (fun p => fst p < vrows v /\ snd p < vrows v) trace ->
  length b = length b0 -> length cur = vrows v ->
  (forall i, ~ in_view v i -> nth_error b i = nth_error b0 i) ->
  (forall r, r < vrows v -> nth r cur 0 < vrows v) ->
  (forall c r, c < vcols v -> r < vrows v -> nth_error b (v_cell v c r) = nth_error b0 (v_cell v c (nth r cur 0))) ->
  exists b',
    (fix go (t : list (nat * nat)) (b : buf) : res buf :=
       match t with
       | [] => Ok b
       | (i, j) :: tl => b' <- op_swap_rows k v b (N.of_nat i) (N.of_nat j) ;; go tl b'
       end) trace b = Ok b' /\
    length b' = length b0 /\
    (forall i, ~ in_view v i -> nth_error b' i = nth_error b0 i) /\
    (forall c r, c < vcols v -> r < vrows v ->
       nth_error b' (v_cell v c r) = nth_error b0 (v_cell v c (nth r (apply_trace trace cur) 0))).
Proof.
  intros Hwf Hb0 Hk. induction trace as [|[i j] tl IH]; intros b cur Hall HL Hlc Hout Hrange Hcell.
  - exists b. split; [reflexivity|]. split; [exact HL|]. split; [exact Hout|exact Hcell].
  - inversion Hall as [|? ? [Hi Hj] Hall']; subst. cbn [fst snd] in Hi, Hj.
    assert (Hb : fits v b) by (unfold fits in *; lia).
    destruct (op_swap_rows_spec k v b (N.of_nat i) (N.of_nat j) Hwf Hb Hk) as [b1 [E1 [L1 [O1 C1]]]]; [lia|lia|].
    rewrite E1. cbn [bind]. rewrite !Nat2N.id in C1.
    assert (Hsw : forall r, r < vrows v -> nth r (swap_idx i j cur) 0 = nth (swap_idx_of i j r) cur 0).
    { intros r Hr.
      assert (Hn : nth_error (swap_idx i j cur) r = nth_error cur (swap_idx_of i j r)).
      { rewrite nth_swap_idx by lia. unfold swap_idx_of.
        destruct (Nat.eqb_spec r i), (Nat.eqb_spec r j); subst; reflexivity. }
      destruct (nth_error cur (swap_idx_of i j r)) as [x|] eqn:Ex.
      - rewrite (nth_error_nth _ _ 0 Hn), (nth_error_nth _ _ 0 Ex). reflexivity.
      - apply nth_error_None in Ex. pose proof (swap_idx_of_lt i j r (vrows v) Hi Hj Hr). lia. }
    destruct (IH b1 (swap_idx i j cur)) as [b' [E' [L' [O' C']]]]; try assumption.
    + lia.
    + rewrite swap_idx_length. exact Hlc.
    + intros x Hx. rewrite O1 by exact Hx. apply Hout. exact Hx.
    + intros r Hr. rewrite Hsw by exact Hr. apply Hrange. apply swap_idx_of_lt; assumption.
    + intros c r Hc Hr. rewrite C1 by assumption. rewrite Hcell by (try assumption; apply swap_idx_of_lt; assumption).
      rewrite Hsw by exact Hr. reflexivity.
    + exists b'. split; [exact E'|]. split; [exact L'|]. split; [exact O'|]. exact C'.
Qed.

Theorem sort_by_col_perm k v b (sigma : list nat) :
  wf_view v -> fits v b -> (k = KOwned -> vstride v = vcols v) ->
  Permutation sigma (seq 0 (vrows v)) ->
  exists trace b',
    build_swap_trace (map (fun i => (i, 0)) sigma) = Ok trace /\
    (fix go (t : list (nat * nat)) (b : buf) : res buf :=
       match t with
       | [] => Ok b
       | (i, j) :: tl => b' <- op_swap_rows k v b (N.of_nat i) (N.of_nat j) ;; go tl b'
       end) trace b = Ok b' /\
    length b' = length b /\
    (forall i, ~ in_view v i -> nth_error b' i = nth_error b i) /\
    (forall c r, c < vcols v -> r < vrows v ->
       nth_error b' (v_cell v c r) = nth_error b (v_cell v c (sigma_at sigma r))).
Proof.
  intros Hwf Hb Hk Hperm.
  assert (Hlen : length sigma = vrows v) by (rewrite (Permutation_length Hperm), seq_length; reflexivity).
  rewrite <- Hlen in Hperm.
  destruct (build_swap_trace_ok sigma Hperm) as [trace [Etr [Happ Hall]]]. rewrite Hlen in *.
  exists trace.
  destruct (swap_rows_trace k v b Hwf Hb Hk trace b (seq 0 (vrows v)) Hall) as [b' [E [L [O C]]]];
    try reflexivity.
  - apply seq_length.
  - intros r Hr. rewrite seq_nth by exact Hr. lia.
  - intros c r Hc Hr. rewrite seq_nth by exact Hr. reflexivity.
  - exists b'. split; [exact Etr|]. split; [exact E|]. split; [exact L|]. split; [exact O|].
    intros c r Hc Hr. rewrite (C c r Hc Hr), Happ. reflexivity.
Qed.

(** * the stable side sort (slice::sort_by on (index, key) pairs), as insertion sort *)
Definition lexlt (a b : nat * N) : Prop := (snd a < snd b)%N \/ (snd a = snd b /\ fst a < fst b).

Lemma ins_stable_perm x l : Permutation (ins_stable N.leb x l) (x :: l).
Proof.
  induction l as [|y t IH]; cbn [ins_stable]; [apply Permutation_refl|].
  destruct (N.leb (snd y) (snd x)); [|apply Permutation_refl].
  eapply Permutation_trans; [apply perm_skip; exact IH|apply perm_swap].
Qed.

Lemma fold_ins_perm l : forall acc,
  Permutation (fold_left (fun acc x => ins_stable N.leb x acc) l acc) (acc ++ l).
Proof.
  induction l as [|x l IH]; intros acc; cbn [fold_left]; [rewrite app_nil_r; apply Permutation_refl|].
  eapply Permutation_trans; [apply IH|].
  eapply Permutation_trans; [apply Permutation_app_tail; apply ins_stable_perm|].
  cbn [app]. apply Permutation_middle.
Qed.

Lemma stable_sort_perm l : Permutation (stable_sort N.leb l) l.
Proof. unfold stable_sort. apply (fold_ins_perm l []). Qed.

Lemma enumerate_fst {X} (l : list X) : map fst (enumerate l) = seq 0 (length l).
Proof.
  unfold enumerate. generalize 0. induction l as [|x l IH]; intros s; [reflexivity|].
  cbn [length seq combine map fst]. f_equal. apply IH.
Qed.

Lemma stable_sigma_perm (ks : list N) :
  Permutation (map fst (stable_sort N.leb (enumerate ks))) (seq 0 (length ks)).
Proof. rewrite <- enumerate_fst. apply Permutation_map. apply stable_sort_perm. Qed.

Lemma ins_stable_sorted x l :
  StronglySorted lexlt l -> Forall (fun y => fst y < fst x) l -> StronglySorted lexlt (ins_stable N.leb x l).
Proof.
  induction l as [|y t IH]; intros Hs Hlt; cbn [ins_stable]; [constructor; constructor|].
  inversion Hs as [|? ? Hs' Hy]; subst. inversion Hlt as [|? ? Hyx Hlt']; subst.
  destruct (N.leb_spec (snd y) (snd x)) as [Hle|Hgt].
  - constructor; [apply IH; assumption|].
    apply Forall_forall. intros z Hz. apply (Permutation_in _ (ins_stable_perm x t)) in Hz.
    destruct Hz as [<-|Hz]; [|apply (proj1 (Forall_forall _ _) Hy z Hz)].
    unfold lexlt. destruct (N.eq_dec (snd y) (snd x)); [right; split; assumption|left; lia].
  - constructor; [exact Hs|]. apply Forall_forall. intros z Hz. unfold lexlt. left.
    destruct Hz as [<-|Hz]; [exact Hgt|].
    pose proof (proj1 (Forall_forall _ _) Hy z Hz) as Hyz. unfold lexlt in Hyz. lia.
Qed.

Lemma fold_ins_sorted l : forall acc s,
  StronglySorted lexlt acc -> Forall (fun y => fst y < s) acc ->
  StronglySorted lt (map fst l) -> Forall (fun x => s <= fst x) l ->
  StronglySorted lexlt (fold_left (fun acc x => ins_stable N.leb x acc) l acc).
Proof.
  induction l as [|x l IH]; intros acc s Hs Hacc Hidx Hge; cbn [fold_left]; [exact Hs|].
  inversion Hge as [|? ? Hx Hge']; subst. cbn [map] in Hidx. inversion Hidx as [|? ? Hidx' Hxl]; subst.
  apply (IH _ (S (fst x))).
  - apply ins_stable_sorted; [exact Hs|]. eapply Forall_impl; [|exact Hacc]. intros a Ha. cbn in Ha. lia.
  - apply Forall_forall. intros z Hz. apply (Permutation_in _ (ins_stable_perm x acc)) in Hz.
    destruct Hz as [<-|Hz]; [lia|]. pose proof (proj1 (Forall_forall _ _) Hacc z Hz). cbn in H. lia.
  - exact Hidx'.
  - apply Forall_forall. intros z Hz.
    pose proof (proj1 (Forall_forall _ _) Hxl (fst z) (in_map fst _ _ Hz)). lia.
Qed.

Lemma seq_sorted s n : StronglySorted lt (seq s n).
Proof.
  revert s. induction n as [|n IH]; intros s; cbn [seq]; constructor; [apply IH|].
  apply Forall_forall. intros x Hx. apply in_seq in Hx. lia.
Qed.

Lemma stable_sort_sorted (ks : list N) : StronglySorted lexlt (stable_sort N.leb (enumerate ks)).
Proof.
  unfold stable_sort. apply (fold_ins_sorted _ [] 0); [constructor|constructor| |].
  - rewrite enumerate_fst. apply seq_sorted.
  - apply Forall_forall. intros x _. lia.
Qed.

(** every pair of the sorted list is (i, ks[i]) *)
Lemma combine_seq_pairs (ks : list N) : forall s i x,
  In (i, x) (combine (seq s (length ks)) ks) -> s <= i /\ nth_error ks (i - s) = Some x.
Proof.
  induction ks as [|y ks IH]; intros s i x Hin; [destruct Hin|].
  cbn [length seq combine] in Hin. destruct Hin as [E|Hin].
  - inversion E; subst. split; [lia|]. rewrite Nat.sub_diag. reflexivity.
  - destruct (IH (S s) i x Hin) as [H1 H2]. split; [lia|].
    replace (i - s) with (S (i - S s)) by lia. exact H2.
Qed.

Lemma enumerate_pairs (ks : list N) p : In p (enumerate ks) -> nth_error ks (fst p) = Some (snd p).
Proof.
  destruct p as [i x]. intros Hin. destruct (combine_seq_pairs ks 0 i x Hin) as [_ H].
  rewrite Nat.sub_0_r in H. exact H.
Qed.

(** the stable permutation orders the keys and keeps equal keys in their original order *)
Definition key_at (ks : list N) (i : nat) : N := nth i ks 0%N.

Theorem stable_sigma_ordered (ks : list N) :
  let sigma := map fst (stable_sort N.leb (enumerate ks)) in
  forall c1 c2, c1 < c2 -> c2 < length ks ->
  let i1 := sigma_at sigma c1 in let i2 := sigma_at sigma c2 in
  (key_at ks i1 < key_at ks i2)%N \/ (key_at ks i1 = key_at ks i2 /\ i1 < i2).
Proof.
  intros sigma c1 c2 H12 H2 i1 i2.
  set (l := stable_sort N.leb (enumerate ks)).
  assert (Hlen : length l = length ks).
  { unfold l. rewrite (Permutation_length (stable_sort_perm _)). unfold enumerate.
    rewrite combine_length, seq_length. lia. }
  destruct (nth_error l c1) as [p1|] eqn:E1; [|apply nth_error_None in E1; lia].
  destruct (nth_error l c2) as [p2|] eqn:E2; [|apply nth_error_None in E2; lia].
  assert (Hlex : lexlt p1 p2).
  { pose proof (stable_sort_sorted ks) as Hs. fold l in Hs.
    clear - Hs E1 E2 H12. revert c1 c2 H12 E1 E2. induction Hs as [|a t Hs IH Ha]; intros c1 c2 H12 E1 E2.
    - destruct c1; discriminate.
    - destruct c2 as [|c2]; [lia|]. destruct c1 as [|c1]; cbn [nth_error] in E1, E2.
      + inversion E1; subst a. apply (proj1 (Forall_forall _ _) Ha). eapply nth_error_In. exact E2.
      + apply (IH c1 c2); [lia|assumption|assumption]. }
  assert (Hp : forall c p, nth_error l c = Some p -> sigma_at sigma c = fst p /\ key_at ks (fst p) = snd p).
  { intros c p Ec. split.
    - unfold sigma_at, sigma. fold l. apply nth_error_nth. rewrite nth_error_map, Ec. reflexivity.
    - assert (Hin : In p (enumerate ks)).
      { apply (Permutation_in _ (stable_sort_perm (enumerate ks))). fold l. eapply nth_error_In. exact Ec. }
      unfold key_at. apply nth_error_nth. apply enumerate_pairs. exact Hin. }
  destruct (Hp c1 p1 E1) as [A1 B1]. destruct (Hp c2 p2 E2) as [A2 B2].
  subst i1 i2. rewrite A1, A2, B1, B2. exact Hlex.
Qed.

(** * the two entry points as modelled *)
From TD Require Import Proofs.Access.

Theorem op_sort_by_row_spec v b (row : N) stable by_key (sigma : list nat) :
  wf_view v -> fits v b -> (row < N.of_nat (vrows v))%N ->
  let keys := row_of v b (N.to_nat row) in
  let s := sigma_of stable by_key keys sigma in
  (stable = false -> Permutation sigma (seq 0 (vcols v))) ->
  Permutation s (seq 0 (vcols v)) /\
  exists b', op_sort_by_row v b row stable by_key sigma = Ok b' /\ length b' = length b /\
    (forall i, ~ in_view v i -> nth_error b' i = nth_error b i) /\
    (forall c r, c < vcols v -> r < vrows v ->
       nth_error b' (v_cell v c r) = nth_error b (v_cell v (sigma_at s c) r)).
Proof.
  intros Hwf Hb Hrow keys s Hun.
  assert (Hkl : length keys = vcols v).
  { unfold keys, row_of. apply slice_length. pose proof (row_win_inside v (N.to_nat row) Hwf ltac:(lia)) as [_ H2].
    unfold fits in Hb. cbn [row_win off len] in *. lia. }
  assert (Hperm : Permutation s (seq 0 (vcols v))).
  { unfold s, sigma_of. destruct stable; [|apply Hun; reflexivity].
    rewrite <- Hkl. rewrite <- (map_length (key_of by_key) keys). apply stable_sigma_perm. }
  split; [exact Hperm|].
  destruct (sort_by_row_perm v b row s Hwf Hb Hrow Hperm) as [trace [b' [Etr [E [L [O C]]]]]].
  exists b'. split; [|split; [exact L|split; [exact O|exact C]]].
  unfold op_sort_by_row, assert. destruct (N.ltb_spec row (N.of_nat (vrows v))); [|lia]. cbn [bind].
  rewrite (index_row_in v Hwf row Hrow). cbn [bind].
  rewrite read_win_ok.
  - cbn [bind off len]. unfold s, keys, row_of in Etr. cbn [row_win off] in Etr.
    rewrite Etr. cbn [bind]. exact E.
  - pose proof (row_win_inside v (N.to_nat row) Hwf ltac:(lia)) as [_ H2].
    unfold fits in Hb. cbn [row_win off len] in *. lia.
Qed.

Theorem op_sort_by_row_reject v b (row : N) stable by_key sigma :
  (N.of_nat (vrows v) <= row)%N -> op_sort_by_row v b row stable by_key sigma = Panic.
Proof.
  intros H. unfold op_sort_by_row, assert. destruct (N.ltb_spec row (N.of_nat (vrows v))); [lia|reflexivity].
Qed.

(** the column's cells and keys *)
Definition col_of (v : view) (b : buf) (c : nat) : list N :=
  map (fun r => nth (v_cell v c r) b 0%N) (seq 0 (vrows v)).

Lemma read_cells_ok (b : buf) : forall cells, Forall (fun i => i < length b) cells ->
  (fix go (l : list nat) : res (list N) :=
     match l with
     | [] => Ok []
     | i :: tl => match nth_error b i with
                  | Some x => r <- go tl ;; Ok (x :: r)
                  | None => UB
                  end
     end) cells = Ok (map (fun i => nth i b 0%N) cells).
Proof.
  induction cells as [|i tl IH]; intros Hall; [reflexivity|].
  inversion Hall as [|? ? Hi Hall']; subst.
  destruct (nth_error b i) as [x|] eqn:E; [|apply nth_error_None in E; lia].
  rewrite (IH Hall'). cbn [bind map]. rewrite (nth_error_nth _ _ 0%N E). reflexivity.
Qed.

Theorem op_sort_by_col_spec k v b (col : N) stable by_key (sigma : list nat) :
  wf_view v -> fits v b -> (k = KOwned -> vstride v = vcols v) -> (col < N.of_nat (vcols v))%N ->
  let keys := col_of v b (N.to_nat col) in
  let s := sigma_of stable by_key keys sigma in
  (stable = false -> Permutation sigma (seq 0 (vrows v))) ->
  Permutation s (seq 0 (vrows v)) /\
  exists b', op_sort_by_col k v b col stable by_key sigma = Ok b' /\ length b' = length b /\
    (forall i, ~ in_view v i -> nth_error b' i = nth_error b i) /\
    (forall c r, c < vcols v -> r < vrows v ->
       nth_error b' (v_cell v c r) = nth_error b (v_cell v c (sigma_at s r))).
Proof.
  intros Hwf Hb Hk Hcol keys s Hun.
  assert (Hkl : length keys = vrows v) by (unfold keys, col_of; rewrite map_length, seq_length; reflexivity).
  assert (Hperm : Permutation s (seq 0 (vrows v))).
  { unfold s, sigma_of. destruct stable; [|apply Hun; reflexivity].
    rewrite <- Hkl. rewrite <- (map_length (key_of by_key) keys). apply stable_sigma_perm. }
  split; [exact Hperm|].
  destruct (sort_by_col_perm k v b s Hwf Hb Hk Hperm) as [trace [b' [Etr [E [L [O C]]]]]].
  exists b'. split; [|split; [exact L|split; [exact O|exact C]]].
  unfold op_sort_by_col, assert. destruct (N.ltb_spec col (N.of_nat (vcols v))); [|lia]. cbn [bind].
  set (k' := match k with KThird => KViewMut | x => x end).
  assert (Hk' : k' = KOwned -> vstride v = vcols v) by (intros Hx; apply Hk; destruct k; try discriminate; reflexivity).
  unfold col_cells. destruct (v_col_sim k' v col Hwf Hcol Hk') as [it [Eit Hsim]]. rewrite Eit. cbn [bind].
  rewrite (col_fold_ok it _ Hsim). cbn [bind]. unfold read_cells.
  rewrite read_cells_ok.
  - cbn [bind].
    assert (Hkeys : map (fun i => nth i b 0%N) (view_col v (N.to_nat col)) = keys).
    { unfold keys, col_of, view_col. rewrite map_map. apply map_ext. intros r. unfold v_cell. reflexivity. }
    rewrite Hkeys. unfold s in Etr. rewrite Etr. cbn [bind]. exact E.
  - apply Forall_forall. intros i Hi. unfold view_col in Hi. apply in_map_iff in Hi.
    destruct Hi as [r [<- Hr]]. apply in_seq in Hr.
    pose proof (v_cell_inside v (N.to_nat col) r Hwf ltac:(lia) ltac:(lia)) as Hin.
    unfold v_cell in Hin. unfold fits in Hb. lia.
Qed.

Theorem op_sort_by_col_reject k v b (col : N) stable by_key sigma :
  (N.of_nat (vcols v) <= col)%N -> op_sort_by_col k v b col stable by_key sigma = Panic.
Proof.
  intros H. unfold op_sort_by_col, assert. destruct (N.ltb_spec col (N.of_nat (vcols v))); [lia|reflexivity].
Qed.
