(** Buffer primitives pointwise, the row windows of a receiver, and the generic row loop
    (C04, C13, C14, C15, C16): every write goes through one of these, so "changes exactly
    the named cells" and "never touches a cell outside the view" are statements about
    [nth_error] of the root buffer. *)
From TD Require Import Base.Prelude Model.Iter Model.Flatten Model.View Model.Ops Spec.Ideal
  Proofs.ListLemmas Proofs.RowsSim Proofs.ColSim Proofs.ViewGeom.

Definition in_win (w : sl) (i : nat) : bool := (off w <=? i) && (i <? off w + len w).
Definition row_win (v : view) (r : nat) : sl := mkSl (off (vw v) + r * vstride v) (vcols v).

Lemma view_rows_row_win v : view_rows v = map (row_win v) (seq 0 (vrows v)).
Proof. reflexivity. Qed.

Lemma nth_view_rows v r : r < vrows v -> nth_error (view_rows v) r = Some (row_win v r).
Proof.
  intros H. unfold view_rows. rewrite nth_error_map, nth_error_seq.
  destruct (Nat.ltb_spec r (vrows v)); [reflexivity|lia].
Qed.

Lemma all_rows_ok v : wf_view v -> all_rows v = Ok (view_rows v).
Proof.
  intros Hwf. unfold all_rows. destruct (v_rows_sim v Hwf) as [it [E Hs]]. rewrite E. cbn [bind].
  apply rows_fold_ok. exact Hs.
Qed.

(** a row window lies inside the receiver's window *)
Lemma row_win_inside v r : wf_view v -> r < vrows v ->
  off (vw v) <= off (row_win v r) /\ off (row_win v r) + len (row_win v r) <= off (vw v) + len (vw v).
Proof.
  intros [_ H] Hr. cbn [row_win off len]. destruct (vrows v) as [|k]; [lia|].
  destruct H as [Hc [Hs Hl]]. rewrite Hl. nia.
Qed.

(** the cells of the receiver: exactly the indices inside one of its row windows *)
Definition in_view (v : view) (i : nat) : Prop :=
  exists c r, c < vcols v /\ r < vrows v /\ i = v_cell v c r.

Lemma in_view_row v i : in_view v i <-> exists r, r < vrows v /\ in_win (row_win v r) i = true.
Proof.
  unfold in_view, in_win, v_cell. cbn [row_win off len]. split.
  - intros [c [r [Hc [Hr ->]]]]. exists r. split; [exact Hr|].
    apply Bool.andb_true_iff. split; [apply Nat.leb_le|apply Nat.ltb_lt]; lia.
  - intros [r [Hr H]]. apply Bool.andb_true_iff in H. destruct H as [H1 H2].
    apply Nat.leb_le in H1. apply Nat.ltb_lt in H2.
    exists (i - (off (vw v) + r * vstride v)), r. repeat split; lia.
Qed.

(** * primitives *)
Lemma read_win_ok (b : buf) w : off w + len w <= length b -> read_win b w = Ok (slice (off w) (len w) b).
Proof. intros H. unfold read_win. destruct (Nat.leb_spec (off w + len w) (length b)); [reflexivity|lia]. Qed.

Lemma write_win_ok (b : buf) w xs : off w + len w <= length b -> length xs = len w ->
  exists b', write_win b w xs = Ok b' /\ length b' = length b /\
    forall i, nth_error b' i = if in_win w i then nth_error xs (i - off w) else nth_error b i.
Proof.
  intros Hb Hl. unfold write_win.
  destruct (Nat.leb_spec (off w + len w) (length b)); [|lia].
  destruct (Nat.eqb_spec (length xs) (len w)); [|lia]. cbn [andb].
  eexists. split; [reflexivity|]. split.
  - apply splice_length. lia.
  - intros i. unfold splice, in_win. nth_rw. case_cmp; fin.
Qed.

Lemma swap_cells_ok (b : buf) i j : i < length b -> j < length b ->
  exists b', swap_cells b i j = Ok b' /\ length b' = length b /\
    forall k, nth_error b' k = if k =? j then nth_error b i else if k =? i then nth_error b j else nth_error b k.
Proof.
  intros Hi Hj. unfold swap_cells.
  destruct (nth_error b i) as [x|] eqn:Ei; [|apply nth_error_None in Ei; lia].
  destruct (nth_error b j) as [y|] eqn:Ej; [|apply nth_error_None in Ej; lia].
  eexists. split; [reflexivity|]. split; [rewrite !upd_length; reflexivity|].
  intros k. rewrite !nth_error_upd, !upd_length.
  destruct (Nat.eqb_spec j k), (Nat.eqb_spec k j), (Nat.eqb_spec i k), (Nat.eqb_spec k i);
    try lia; cbn [andb]; subst;
    repeat match goal with |- context [?a <? ?b] => destruct (Nat.ltb_spec a b); try lia end; congruence.
Qed.

(** swap_with_slice of two disjoint windows of equal length *)
Lemma swap_wins_ok (b : buf) w1 w2 : len w1 = len w2 ->
  off w1 + len w1 <= length b -> off w2 + len w2 <= length b ->
  (off w1 + len w1 <= off w2 \/ off w2 + len w2 <= off w1) ->
  exists b', swap_wins b w1 w2 = Ok b' /\ length b' = length b /\
    forall k, nth_error b' k =
      if in_win w1 k then nth_error b (off w2 + (k - off w1))
      else if in_win w2 k then nth_error b (off w1 + (k - off w2))
      else nth_error b k.
Proof.
  intros Hl H1 H2 Hd. unfold swap_wins.
  destruct (Nat.eqb_spec (len w1) (len w2)); [|lia]. cbn [negb].
  rewrite (read_win_ok b w1 H1), (read_win_ok b w2 H2). cbn [bind].
  destruct (write_win_ok b w1 (slice (off w2) (len w2) b)) as [b1 [E1 [L1 N1]]];
    [exact H1|rewrite slice_length; lia|].
  rewrite E1. cbn [bind].
  destruct (write_win_ok b1 w2 (slice (off w1) (len w1) b)) as [b2 [E2 [L2 N2]]];
    [lia|rewrite slice_length; lia|].
  rewrite E2. eexists. split; [reflexivity|]. split; [lia|].
  intros k. rewrite N2, N1. unfold in_win. rewrite !nth_error_slice.
  case_cmp; fin.
Qed.

(** * the generic row loop *)
From Coq Require Import Sorted.
Definition before (w1 w2 : sl) : Prop := off w1 + len w1 <= off w2.

Lemma sorted_map_seq {X} (R : X -> X -> Prop) (f : nat -> X) n : forall s,
  (forall i j, s <= i -> i < j -> j < s + n -> R (f i) (f j)) ->
  StronglySorted R (map f (seq s n)).
Proof.
  induction n as [|n IH]; intros s H; cbn [seq map]; constructor.
  - apply IH. intros i j Hi Hij Hj. apply H; lia.
  - apply Forall_forall. intros x Hx. apply in_map_iff in Hx. destruct Hx as [j [<- Hj]].
    apply in_seq in Hj. apply H; lia.
Qed.

Lemma view_rows_sorted v : wf_view v -> StronglySorted before (view_rows v).
Proof.
  intros Hwf. unfold view_rows. apply sorted_map_seq. intros i j _ Hij Hj.
  unfold before. cbn [off len]. destruct Hwf as [_ H]. destruct (vrows v) as [|k]; [lia|].
  destruct H as [_ [Hs _]].
  assert ((i + 1) * vstride v <= j * vstride v) by (apply Nat.mul_le_mono_r; lia). lia.
Qed.

Lemma slice_ext (b1 b : buf) w :
  (forall i, in_win w i = true -> nth_error b1 i = nth_error b i) ->
  slice (off w) (len w) b1 = slice (off w) (len w) b.
Proof.
  intros H. apply list_ext. intros i. rewrite !nth_error_slice.
  destruct (Nat.ltb_spec i (len w)); [|reflexivity]. apply H.
  unfold in_win. apply Bool.andb_true_iff. split; [apply Nat.leb_le|apply Nat.ltb_lt]; lia.
Qed.

Section ForRows.
Variable f : buf -> sl -> res buf.
Variable P : sl -> Prop.
Variable eff : list N -> nat -> option N.
Hypothesis Hf : forall b w, off w + len w <= length b -> P w ->
  exists b', f b w = Ok b' /\ length b' = length b /\
    (forall i, nth_error b' i = if in_win w i then eff (slice (off w) (len w) b) (i - off w)
                                else nth_error b i).

Lemma for_rows_ok : forall rows b,
  StronglySorted before rows -> Forall (fun w => off w + len w <= length b /\ P w) rows ->
  exists b', for_rows f rows b = Ok b' /\ length b' = length b /\
    (forall i, (forall w, In w rows -> in_win w i = false) -> nth_error b' i = nth_error b i) /\
    (forall w i, In w rows -> in_win w i = true ->
       nth_error b' i = eff (slice (off w) (len w) b) (i - off w)).
Proof.
  induction rows as [|w rows IH]; intros b Hs Hall.
  - exists b. repeat split; auto. intros w i [].
  - inversion Hs as [|? ? Hs' Hb]; subst. inversion Hall as [|? ? [Hw HP] Hall']; subst.
    destruct (Hf b w Hw HP) as [b1 [E1 [L1 N1]]].
    cbn [for_rows]. rewrite E1. cbn [bind].
    assert (Hall1 : Forall (fun w0 => off w0 + len w0 <= length b1 /\ P w0) rows).
    { eapply Forall_impl; [|exact Hall']. intros a [Ha Hp]. split; [lia|exact Hp]. }
    destruct (IH b1 Hs' Hall1) as [b' [E2 [L2 [Nout Nin]]]].
    exists b'. split; [exact E2|]. split; [lia|]. split.
    + intros i Hi. rewrite Nout by (intros w0 Hw0; apply Hi; right; exact Hw0).
      rewrite N1, (Hi w (or_introl eq_refl)). reflexivity.
    + intros w0 i [<-|Hin] Hi.
      * (* the first row: later rows do not touch it *)
        rewrite Nout.
        -- rewrite N1, Hi. reflexivity.
        -- intros w1 Hw1. pose proof (proj1 (Forall_forall _ _) Hb w1 Hw1) as Hbf. unfold before in Hbf.
           unfold in_win in *. apply Bool.andb_true_iff in Hi. destruct Hi as [Hi1 Hi2].
           apply Nat.leb_le in Hi1. apply Nat.ltb_lt in Hi2.
           apply Bool.andb_false_iff. left. apply Nat.leb_gt. lia.
      * rewrite (Nin w0 i Hin Hi). f_equal. apply slice_ext. intros k Hk. rewrite N1.
        pose proof (proj1 (Forall_forall _ _) Hb w0 Hin) as Hbf. unfold before in Hbf.
        assert (in_win w k = false).
        { unfold in_win in *. apply Bool.andb_true_iff in Hk. destruct Hk as [Hk1 Hk2].
          apply Nat.leb_le in Hk1. apply Bool.andb_false_iff. right. apply Nat.ltb_ge. lia. }
        rewrite H. reflexivity.
Qed.
End ForRows.
