(** C15 (flips): flip_cols reverses every row, flip_rows reverses the order of the rows;
    nothing outside the receiver changes. *)
From Coq Require Import Sorted.
From TD Require Import Base.Prelude Model.Iter Model.Flatten Model.View Model.Ops Spec.Ideal
  Proofs.ListLemmas Proofs.RowsSim Proofs.ColSim Proofs.ViewGeom Proofs.FlatSim Proofs.Frame Proofs.OpsProofs.

Lemma nth_error_rev {X} (l : list X) i : i < length l -> nth_error (rev l) i = nth_error l (length l - 1 - i).
Proof.
  intros H. revert i H. induction l as [|x l IH]; intros i H; cbn [length] in *; [lia|].
  cbn [rev]. rewrite nth_error_app, rev_length.
  destruct (Nat.ltb_spec i (length l)).
  - rewrite IH by lia. replace (S (length l) - 1 - i) with (S (length l - 1 - i)) by lia. reflexivity.
  - replace i with (length l) by lia. rewrite Nat.sub_diag.
    replace (S (length l) - 1 - length l) with 0 by lia. reflexivity.
Qed.

Theorem op_flip_cols_spec v b : wf_view v -> fits v b ->
  exists b', op_flip_cols v b = Ok b' /\ length b' = length b /\
    (forall i, ~ in_view v i -> nth_error b' i = nth_error b i) /\
    (forall c r, c < vcols v -> r < vrows v ->
       nth_error b' (v_cell v c r) = nth_error b (v_cell v (vcols v - 1 - c) r)).
Proof.
  intros Hwf Hb. unfold op_flip_cols. rewrite (all_rows_ok v Hwf). cbn [bind].
  destruct (view_for_rows (fun b w => xs <- read_win b w ;; write_win b w (rev xs))
              (fun row c => nth_error (rev row) c) v) with (b := b) as [b' [E [L [Nout Nin]]]];
    [|exact Hwf|exact Hb|].
  - intros b0 w Hw Hl. rewrite (read_win_ok b0 w Hw). cbn [bind].
    destruct (write_win_ok b0 w (rev (slice (off w) (len w) b0)) Hw) as [b1 [E1 [L1 N1]]];
      [rewrite rev_length, slice_length; lia|].
    exists b1. split; [exact E1|]. split; [exact L1|]. exact N1.
  - exists b'. split; [exact E|]. split; [exact L|]. split; [exact Nout|].
    intros c r Hc Hr. rewrite (Nin c r Hc Hr).
    assert (Hlen : length (row_of v b r) = vcols v).
    { unfold row_of. apply slice_length. destruct (row_win_inside v r Hwf Hr) as [_ H2].
      unfold fits in Hb. cbn [row_win off len] in H2. cbn [row_win off]. lia. }
    rewrite nth_error_rev by lia. rewrite Hlen. apply row_of_nth. lia.
Qed.

(** * flip_rows: the next / next_back loop *)
Definition win_at (l : list sl) (i : nat) : sl := nth i l sl_empty.

Lemma flip_loop_ok : forall n (l : list sl) fuel it (b : buf) nc,
  length l = n -> n < 2 * fuel ->
  rows_sim it l -> StronglySorted before l ->
  Forall (fun w => off w + len w <= length b /\ len w = nc) l ->
  exists b', flip_rows_loop fuel it b = Ok b' /\ length b' = length b /\
    (forall k, (forall w, In w l -> in_win w k = false) -> nth_error b' k = nth_error b k) /\
    (forall i o, i < n -> o < nc ->
       nth_error b' (off (win_at l i) + o) = nth_error b (off (win_at (rev l) i) + o)).
Proof.
  induction n as [n IH] using lt_wf_ind. intros l fuel it b nc Hn Hfuel Hs Hsorted Hall.
  destruct fuel as [|fuel]; [lia|]. cbn [flip_rows_loop].
  destruct (rows_sim_next it l Hs) as [it1 [E1 Hs1]]. rewrite E1. cbn [bind fst snd].
  destruct l as [|w l1]; cbn [i_next fst snd] in *.
  { (* no row *)
    destruct (rows_sim_next_back it1 [] Hs1) as [it2 [E2 _]]. rewrite E2. cbn [bind fst snd i_next_back rev].
    exists b. split; [reflexivity|]. split; [reflexivity|]. split; [reflexivity|].
    intros i o Hi. cbn in Hn. lia. }
  destruct (rows_sim_next_back it1 l1 Hs1) as [it2 [E2 Hs2]]. rewrite E2. cbn [bind fst snd].
  destruct (list_eq_dec_nil l1) as [->|Hne].
  { (* one row: the middle row stays *)
    cbn [i_next_back rev fst snd]. exists b. split; [reflexivity|]. split; [reflexivity|]. split; [reflexivity|].
    intros i o Hi Ho. cbn in Hn. assert (i = 0) by lia. subst i. reflexivity. }
  destruct (exists_last Hne) as [mid [w' ->]].
  rewrite i_next_back_snoc in *. cbn [fst snd] in *.
  (* the two outer rows are swapped *)
  inversion Hsorted as [|? ? Hsorted1 Hbw]; subst.
  inversion Hall as [|? ? [Hw Hlw] Hall1]; subst.
  apply Forall_app in Hall1. destruct Hall1 as [Hallmid Hw'].
  inversion Hw' as [|? ? [Hw'b Hlw'] _]; subst.
  assert (Hww' : before w w').
  { apply (proj1 (Forall_forall _ _) Hbw). apply in_or_app. right. left. reflexivity. }
  destruct (swap_wins_ok b w w') as [b1 [Esw [L1 N1]]]; [lia|exact Hw|exact Hw'b|left; exact Hww'|].
  rewrite Esw. cbn [bind].
  (* sortedness facts for the middle *)
  assert (Hsmid : StronglySorted before mid).
  { clear - Hsorted1. induction mid as [|x mid IHm]; [constructor|].
    cbn [app] in Hsorted1. inversion Hsorted1 as [|? ? Hs' Hf]; subst. constructor; [apply IHm; exact Hs'|].
    apply Forall_app in Hf. tauto. }
  assert (Hmid_after_w : forall x, In x mid -> before w x).
  { intros x Hx. apply (proj1 (Forall_forall _ _) Hbw). apply in_or_app. left. exact Hx. }
  assert (Hmid_before_w' : forall x, In x mid -> before x w').
  { clear - Hsorted1. induction mid as [|y mid IHm]; intros x Hx; [destruct Hx|].
    cbn [app] in Hsorted1. inversion Hsorted1 as [|? ? Hs' Hf]; subst.
    destruct Hx as [->|Hx].
    - apply (proj1 (Forall_forall _ _) Hf). apply in_or_app. right. left. reflexivity.
    - apply IHm; assumption. }
  assert (Hallmid1 : Forall (fun x => off x + len x <= length b1 /\ len x = len w) mid).
  { eapply Forall_impl; [|exact Hallmid]. intros a [Ha1 Ha2]. split; [lia|exact Ha2]. }
  destruct (IH (length mid)) with (l := mid) (fuel := fuel) (it := it2) (b := b1) (nc := len w)
    as [b' [E [L [Nout Nin]]]]; try assumption; try reflexivity.
  { cbn [length]. rewrite app_length. cbn [length]. lia. }
  { cbn [length] in Hfuel. rewrite app_length in Hfuel. cbn [length] in Hfuel. lia. }
  exists b'. split; [exact E|]. split; [lia|]. split.
  - intros k Hk. rewrite Nout.
    + rewrite N1. rewrite (Hk w (or_introl eq_refl)).
      rewrite (Hk w') by (right; apply in_or_app; right; left; reflexivity). reflexivity.
    + intros x Hx. apply Hk. right. apply in_or_app. left. exact Hx.
  - intros i o Hi Ho.
    assert (Hnotmid : forall x k, In x mid -> (in_win w k = true \/ in_win w' k = true) -> in_win x k = false).
    { intros x k Hx Hk. pose proof (Hmid_after_w x Hx) as Ha. pose proof (Hmid_before_w' x Hx) as Hb2.
      unfold before, in_win in *. apply Bool.andb_false_iff.
      destruct Hk as [Hk|Hk]; apply Bool.andb_true_iff in Hk; destruct Hk as [K1 K2];
        apply Nat.leb_le in K1; apply Nat.ltb_lt in K2.
      - left. apply Nat.leb_gt. lia.
      - right. apply Nat.ltb_ge. lia. }
    assert (Hinw : forall x, in_win x (off x + o) = true <-> o < len x).
    { intros x. unfold in_win. rewrite Bool.andb_true_iff, Nat.leb_le, Nat.ltb_lt. lia. }
    cbn [length] in Hi. rewrite app_length in Hi. cbn [length] in Hi.
    assert (Hrev : rev (w :: mid ++ [w']) = w' :: rev mid ++ [w]).
    { cbn [rev]. rewrite rev_app_distr. reflexivity. }
    rewrite Hrev. unfold win_at.
    destruct i as [|i].
    + (* first row receives the last *)
      cbn [nth]. rewrite Nout.
      * rewrite N1. rewrite (proj2 (Hinw w)) by lia. f_equal. lia.
      * intros x Hx. apply (Hnotmid x _ Hx). left. apply Hinw. lia.
    + cbn [nth].
      destruct (Nat.eq_dec i (length mid)) as [->|Hlt].
      * (* last row receives the first *)
        rewrite app_nth2 by lia. rewrite Nat.sub_diag. cbn [nth].
        rewrite app_nth2 by (rewrite rev_length; lia). rewrite rev_length, Nat.sub_diag. cbn [nth].
        rewrite Nout.
        -- rewrite N1.
           assert (in_win w (off w' + o) = false).
           { unfold before, in_win in *. apply Bool.andb_false_iff. right. apply Nat.ltb_ge. lia. }
           rewrite H, (proj2 (Hinw w')) by lia. f_equal. lia.
        -- intros x Hx. apply (Hnotmid x _ Hx). right. apply Hinw. lia.
      * (* a middle row *)
        rewrite app_nth1 by lia. rewrite app_nth1 by (rewrite rev_length; lia).
        specialize (Nin i o ltac:(lia) Ho). unfold win_at in Nin. rewrite Nin.
        rewrite N1.
        set (x := nth i (rev mid) sl_empty).
        assert (Hx : In x mid). { apply in_rev. apply nth_In. rewrite rev_length. lia. }
        assert (Hlx : len x = len w) by (apply (proj1 (Forall_forall _ _) Hallmid x Hx)).
        pose proof (Hmid_after_w x Hx) as Ha. pose proof (Hmid_before_w' x Hx) as Hb2.
        assert (in_win w (off x + o) = false).
        { unfold before, in_win in *. apply Bool.andb_false_iff. right. apply Nat.ltb_ge. lia. }
        assert (in_win w' (off x + o) = false).
        { unfold before, in_win in *. apply Bool.andb_false_iff. left. apply Nat.leb_gt. lia. }
        rewrite H, H0. reflexivity.
Qed.

Theorem op_flip_rows_spec v b : wf_view v -> fits v b ->
  exists b', op_flip_rows v b = Ok b' /\ length b' = length b /\
    (forall i, ~ in_view v i -> nth_error b' i = nth_error b i) /\
    (forall c r, c < vcols v -> r < vrows v ->
       nth_error b' (v_cell v c r) = nth_error b (v_cell v c (vrows v - 1 - r))).
Proof.
  intros Hwf Hb. unfold op_flip_rows. destruct (v_rows_sim v Hwf) as [it [E Hs]]. rewrite E. cbn [bind].
  destruct (flip_loop_ok (vrows v) (view_rows v) (S (vrows v)) it b (vcols v))
    as [b' [E1 [L [Nout Nin]]]]; try assumption.
  - apply view_rows_len.
  - lia.
  - apply view_rows_sorted. exact Hwf.
  - apply rows_in_buffer; assumption.
  - exists b'. split; [exact E1|]. split; [exact L|]. split.
    + intros i Hi. apply Nout. apply not_in_view_rows. exact Hi.
    + intros c r Hc Hr. specialize (Nin r c Hr Hc).
      unfold win_at in Nin.
      assert (H1 : nth r (view_rows v) sl_empty = row_win v r).
      { apply nth_error_nth. apply nth_view_rows. exact Hr. }
      assert (H2 : nth r (rev (view_rows v)) sl_empty = row_win v (vrows v - 1 - r)).
      { apply nth_error_nth. rewrite nth_error_rev by (rewrite view_rows_len; exact Hr).
        rewrite view_rows_len. apply nth_view_rows. lia. }
      rewrite H1, H2 in Nin. cbn [row_win off] in Nin. unfold v_cell.
      replace (off (vw v) + r * vstride v + c) with (off (vw v) + r * vstride v + c) by lia.
      exact Nin.
Qed.
