(** C13 / C04 (and the row-wise parts of C14, C15): the swap family and fill change exactly
    the named cells, on each of the three implementors, and never touch a cell outside the
    receiver's rectangle. *)
From Coq Require Import Sorted.
From TD Require Import Base.Prelude Model.Iter Model.Flatten Model.View Model.Ops Spec.Ideal
  Proofs.ListLemmas Proofs.RowsSim Proofs.ColSim Proofs.ViewGeom Proofs.Access Proofs.Frame.

(** the receiver's window lies in the buffer *)
Definition fits (v : view) (b : buf) : Prop := off (vw v) + len (vw v) <= length b.

(** content of row [r] of the receiver in buffer [b] *)
Definition row_of (v : view) (b : buf) (r : nat) : list N :=
  slice (off (row_win v r)) (vcols v) b.

Lemma row_of_nth v b r c : c < vcols v -> nth_error (row_of v b r) c = nth_error b (v_cell v c r).
Proof.
  intros Hc. unfold row_of. rewrite nth_error_slice. destruct (Nat.ltb_spec c (vcols v)); [|lia].
  unfold v_cell. cbn [row_win off]. f_equal.
Qed.

Lemma rows_in_buffer v b : wf_view v -> fits v b ->
  Forall (fun w => off w + len w <= length b /\ len w = vcols v) (view_rows v).
Proof.
  intros Hwf Hb. apply Forall_forall. intros w Hin. unfold view_rows in Hin.
  apply in_map_iff in Hin. destruct Hin as [r [<- Hr]]. apply in_seq in Hr.
  destruct (row_win_inside v r Hwf) as [_ H2]; [lia|]. unfold fits in Hb.
  fold (row_win v r). split; [lia|reflexivity].
Qed.

Lemma in_win_row_cell v c r : c < vcols v -> in_win (row_win v r) (v_cell v c r) = true.
Proof.
  intros Hc. unfold in_win, v_cell. cbn [row_win off len].
  apply Bool.andb_true_iff. split; [apply Nat.leb_le|apply Nat.ltb_lt]; lia.
Qed.

Lemma not_in_view_rows v i : ~ in_view v i -> forall w, In w (view_rows v) -> in_win w i = false.
Proof.
  intros Hn w Hin. unfold view_rows in Hin. apply in_map_iff in Hin. destruct Hin as [r [<- Hr]].
  apply in_seq in Hr. fold (row_win v r). destruct (in_win (row_win v r) i) eqn:E; [|reflexivity].
  exfalso. apply Hn. apply in_view_row. exists r. split; [lia|exact E].
Qed.

(** the row loop over a receiver: frame + per-row effect *)
Section ViewRows.
Variable f : buf -> sl -> res buf.
Variable eff : list N -> nat -> option N.
Variable v : view.
Hypothesis Hf : forall b w, off w + len w <= length b -> len w = vcols v ->
  exists b', f b w = Ok b' /\ length b' = length b /\
    (forall i, nth_error b' i = if in_win w i then eff (slice (off w) (len w) b) (i - off w)
                                else nth_error b i).

Lemma view_for_rows b : wf_view v -> fits v b ->
  exists b', for_rows f (view_rows v) b = Ok b' /\ length b' = length b /\
    (forall i, ~ in_view v i -> nth_error b' i = nth_error b i) /\
    (forall c r, c < vcols v -> r < vrows v -> nth_error b' (v_cell v c r) = eff (row_of v b r) c).
Proof.
  intros Hwf Hb.
  destruct (for_rows_ok f (fun w => len w = vcols v) eff Hf (view_rows v) b
              (view_rows_sorted v Hwf) (rows_in_buffer v b Hwf Hb)) as [b' [E [L [Nout Nin]]]].
  exists b'. split; [exact E|]. split; [exact L|]. split.
  - intros i Hi. apply Nout. apply not_in_view_rows. exact Hi.
  - intros c r Hc Hr.
    rewrite (Nin (row_win v r) (v_cell v c r)).
    + unfold row_of. cbn [row_win len off]. f_equal. unfold v_cell. lia.
    + eapply nth_error_In. apply (nth_view_rows v r Hr).
    + apply in_win_row_cell. exact Hc.
Qed.
End ViewRows.

(** * fill *)
Lemma owned_window_is_cells v i : wf_view v -> vstride v = vcols v ->
  in_win (vw v) i = true -> in_view v i.
Proof.
  intros [_ H] Hs Hi. unfold in_win in Hi. apply Bool.andb_true_iff in Hi. destruct Hi as [H1 H2].
  apply Nat.leb_le in H1. apply Nat.ltb_lt in H2.
  destruct (vrows v) as [|k] eqn:Ek; [lia|]. destruct H as [Hc [_ Hl]].
  set (j := i - off (vw v)). exists (j mod vcols v), (j / vcols v).
  assert (Hj : j < S k * vcols v) by (subst j; rewrite Hl, Hs in H2; lia).
  split; [apply Nat.mod_upper_bound; lia|]. split.
  - apply Nat.div_lt_upper_bound; lia.
  - unfold v_cell. rewrite Hs. pose proof (Nat.div_mod j (vcols v)). subst j. lia.
Qed.

Theorem op_fill_spec k v b x : wf_view v -> fits v b -> (k = KOwned -> vstride v = vcols v) ->
  exists b', op_fill k v b x = Ok b' /\ length b' = length b /\
    (forall i, ~ in_view v i -> nth_error b' i = nth_error b i) /\
    (forall c r, c < vcols v -> r < vrows v -> nth_error b' (v_cell v c r) = Some x).
Proof.
  intros Hwf Hb Hk.
  assert (Hrows : exists b', (rows <- all_rows v ;; for_rows (fun b w => write_win b w (repeat x (len w))) rows b) = Ok b' /\
            length b' = length b /\
            (forall i, ~ in_view v i -> nth_error b' i = nth_error b i) /\
            (forall c r, c < vcols v -> r < vrows v -> nth_error b' (v_cell v c r) = Some x)).
  { rewrite (all_rows_ok v Hwf). cbn [bind].
    destruct (view_for_rows (fun b w => write_win b w (repeat x (len w)))
                (fun _ c => if c <? vcols v then Some x else None) v) with (b := b) as [b' [E [L [Nout Nin]]]];
      [|exact Hwf|exact Hb|].
    - intros b0 w Hw Hl.
      destruct (write_win_ok b0 w (repeat x (len w)) Hw (repeat_length _ _)) as [b1 [E1 [L1 N1]]].
      exists b1. split; [exact E1|]. split; [exact L1|]. intros i. rewrite N1.
      destruct (in_win w i) eqn:Ei; [|reflexivity]. rewrite nth_error_repeat', Hl. reflexivity.
    - exists b'. split; [exact E|]. split; [exact L|]. split; [exact Nout|].
      intros c r Hc Hr. rewrite (Nin c r Hc Hr). destruct (Nat.ltb_spec c (vcols v)); [reflexivity|lia]. }
  destruct k; try exact Hrows.
  (* the owned array fills its flat buffer *)
  unfold op_fill. unfold fits in Hb.
  destruct (write_win_ok b (vw v) (repeat x (len (vw v))) Hb (repeat_length _ _)) as [b' [E [L Nn]]].
  exists b'. split; [exact E|]. split; [exact L|]. split.
  - intros i Hi. rewrite Nn. destruct (in_win (vw v) i) eqn:Ei; [|reflexivity].
    exfalso. apply Hi. apply owned_window_is_cells; auto.
  - intros c r Hc Hr. rewrite Nn.
    destruct (v_cell_inside v c r Hwf Hc Hr) as [H1 H2].
    unfold in_win. destruct (Nat.leb_spec (off (vw v)) (v_cell v c r)); [|lia].
    destruct (Nat.ltb_spec (v_cell v c r) (off (vw v) + len (vw v))); [|lia]. cbn [andb].
    rewrite nth_error_repeat'. destruct (Nat.ltb_spec (v_cell v c r - off (vw v)) (len (vw v))); [reflexivity|lia].
Qed.

(** * a cell lies in exactly its own row window *)
Lemma in_row_cell v a c r : wf_view v -> c < vcols v -> a < vrows v -> r < vrows v ->
  in_win (row_win v a) (v_cell v c r) = (a =? r).
Proof.
  intros Hwf Hc Ha Hr. destruct (Nat.eqb_spec a r) as [->|Hne]; [apply in_win_row_cell; exact Hc|].
  destruct (in_win (row_win v a) (v_cell v c r)) eqn:Ein; [|reflexivity].
  exfalso. unfold in_win in Ein. apply Bool.andb_true_iff in Ein. destruct Ein as [X1 X2].
  apply Nat.leb_le in X1. apply Nat.ltb_lt in X2. cbn [row_win off len] in X1, X2.
  destruct (v_cell_inj v c r (v_cell v c r - (off (vw v) + a * vstride v)) a Hwf Hc) as [_ Heq];
    [lia|unfold v_cell in *; lia|congruence].
Qed.

Lemma row_win_fits v b r : wf_view v -> fits v b -> r < vrows v ->
  off (row_win v r) + vcols v <= length b.
Proof.
  intros Hwf Hb Hr. destruct (row_win_inside v r Hwf Hr) as [_ H]. unfold fits in Hb.
  cbn [row_win off len] in *. lia.
Qed.


(** * swap_cols *)
Definition swap_idx_of (a b c : nat) : nat := if c =? b then a else if c =? a then b else c.

Theorem op_swap_cols_spec v b (c1 c2 : N) : wf_view v -> fits v b ->
  (c1 < N.of_nat (vcols v))%N -> (c2 < N.of_nat (vcols v))%N ->
  exists b', op_swap_cols v b c1 c2 = Ok b' /\ length b' = length b /\
    (forall i, ~ in_view v i -> nth_error b' i = nth_error b i) /\
    (forall c r, c < vcols v -> r < vrows v ->
       nth_error b' (v_cell v c r) = nth_error b (v_cell v (swap_idx_of (N.to_nat c1) (N.to_nat c2) c) r)).
Proof.
  intros Hwf Hb H1 H2. unfold op_swap_cols, assert.
  destruct (N.ltb_spec c1 (N.of_nat (vcols v))); [|lia].
  destruct (N.ltb_spec c2 (N.of_nat (vcols v))); [|lia]. cbn [bind].
  rewrite (all_rows_ok v Hwf). cbn [bind].
  set (a1 := N.to_nat c1). set (a2 := N.to_nat c2).
  destruct (view_for_rows
              (fun b w => pa <- cell_of w a1 ;; pb <- cell_of w a2 ;; swap_cells b pa pb)
              (fun row c => nth_error row (swap_idx_of a1 a2 c)) v) with (b := b)
    as [b' [E [L [Nout Nin]]]]; [|exact Hwf|exact Hb|].
  - intros b0 w Hw Hl. unfold cell_of.
    destruct (Nat.ltb_spec a1 (len w)); [|subst a1; lia].
    destruct (Nat.ltb_spec a2 (len w)); [|subst a2; lia]. cbn [bind].
    destruct (swap_cells_ok b0 (off w + a1) (off w + a2)) as [b1 [E1 [L1 N1]]]; [lia|lia|].
    exists b1. split; [exact E1|]. split; [exact L1|]. intros i. rewrite N1.
    unfold in_win, swap_idx_of. rewrite !nth_error_slice.
    destruct (Nat.leb_spec (off w) i); destruct (Nat.ltb_spec i (off w + len w)); cbn [andb];
      repeat match goal with |- context [?x =? ?y] => destruct (Nat.eqb_spec x y); try lia end;
      repeat match goal with |- context [?x <? ?y] => destruct (Nat.ltb_spec x y); try lia end;
      try reflexivity; f_equal; lia.
  - exists b'. split; [exact E|]. split; [exact L|]. split; [exact Nout|].
    intros c r Hc Hr. rewrite (Nin c r Hc Hr). apply row_of_nth.
    unfold swap_idx_of. subst a1 a2.
    destruct (Nat.eqb_spec c (N.to_nat c2)); [lia|]. destruct (Nat.eqb_spec c (N.to_nat c1)); lia.
Qed.

Theorem op_swap_cols_reject v b (c1 c2 : N) :
  (N.of_nat (vcols v) <= c1)%N \/ (N.of_nat (vcols v) <= c2)%N -> op_swap_cols v b c1 c2 = Panic.
Proof.
  intros H. unfold op_swap_cols, assert.
  destruct (N.ltb_spec c1 (N.of_nat (vcols v))); cbn [bind]; [|reflexivity].
  destruct (N.ltb_spec c2 (N.of_nat (vcols v))); cbn [bind]; [lia|reflexivity].
Qed.

(** * two rows through rows_mut().nth(a) then .nth(d) *)
From TD Require Import Proofs.FlatSim.

Lemma view_rows_len v : length (view_rows v) = vrows v.
Proof. unfold view_rows. rewrite map_length, seq_length. reflexivity. Qed.

Lemma nth_then_nth_ok v (r1 r2 : N) : wf_view v ->
  (r1 < r2)%N -> (r2 < N.of_nat (vrows v))%N ->
  nth_then_nth v r1 (r2 - r1 - 1) = Ok (row_win v (N.to_nat r1), row_win v (N.to_nat r2)).
Proof.
  intros Hwf H12 H2. unfold nth_then_nth.
  destruct (v_rows_sim v Hwf) as [it [E Hs]]. rewrite E. cbn [bind].
  destruct (rows_sim_nth it _ r1 Hs) as [it1 [E1 Hs1]]. rewrite E1. cbn [bind fst snd].
  rewrite i_nth_closed in *. rewrite view_rows_len in *.
  destruct (N.leb_spec (N.of_nat (vrows v)) r1); [lia|]. cbn [fst snd] in *.
  rewrite nth_view_rows by lia. cbn [unwrap bind].
  destruct (rows_sim_nth it1 _ (r2 - r1 - 1) Hs1) as [it2 [E2 _]]. rewrite E2. cbn [bind fst snd].
  rewrite i_nth_closed, skipn_length, view_rows_len.
  destruct (N.leb_spec (N.of_nat (vrows v - S (N.to_nat r1))) (r2 - r1 - 1)); [lia|]. cbn [fst].
  rewrite nth_error_skipn.
  replace (S (N.to_nat r1) + N.to_nat (r2 - r1 - 1)) with (N.to_nat r2) by lia.
  rewrite nth_view_rows by lia. reflexivity.
Qed.

Lemma nth_then_nth_reject v (r1 r2 : N) : wf_view v ->
  (r1 < r2)%N -> (N.of_nat (vrows v) <= r2)%N ->
  nth_then_nth v r1 (r2 - r1 - 1) = Panic.
Proof.
  intros Hwf H12 H2. unfold nth_then_nth.
  destruct (v_rows_sim v Hwf) as [it [E Hs]]. rewrite E. cbn [bind].
  destruct (rows_sim_nth it _ r1 Hs) as [it1 [E1 Hs1]]. rewrite E1. cbn [bind fst snd].
  rewrite i_nth_closed in *. rewrite view_rows_len in *.
  destruct (N.leb_spec (N.of_nat (vrows v)) r1); cbn [fst snd] in *; [reflexivity|].
  rewrite nth_view_rows by lia. cbn [unwrap bind].
  destruct (rows_sim_nth it1 _ (r2 - r1 - 1) Hs1) as [it2 [E2 _]]. rewrite E2. cbn [bind fst snd].
  rewrite i_nth_closed, skipn_length, view_rows_len.
  destruct (N.leb_spec (N.of_nat (vrows v - S (N.to_nat r1))) (r2 - r1 - 1)); [reflexivity|lia].
Qed.

(** * row_pair_mut *)
Theorem op_row_pair_spec v (r1 r2 : N) : wf_view v ->
  (r1 < N.of_nat (vrows v))%N -> (r2 < N.of_nat (vrows v))%N -> r1 <> r2 ->
  op_row_pair v r1 r2 = Ok (row_win v (N.to_nat r1), row_win v (N.to_nat r2)).
Proof.
  intros Hwf H1 H2 Hne. unfold op_row_pair, assert.
  destruct (N.ltb_spec r1 (N.of_nat (vrows v))); [|lia].
  destruct (N.ltb_spec r2 (N.of_nat (vrows v))); [|lia]. cbn [bind].
  destruct (N.eqb_spec r1 r2); [contradiction|]. cbn [negb bind].
  destruct (N.ltb_spec r1 r2).
  - apply nth_then_nth_ok; assumption.
  - rewrite nth_then_nth_ok by (try assumption; lia). reflexivity.
Qed.

Theorem op_row_pair_reject v (r1 r2 : N) :
  (N.of_nat (vrows v) <= r1)%N \/ (N.of_nat (vrows v) <= r2)%N \/ r1 = r2 ->
  op_row_pair v r1 r2 = Panic.
Proof.
  intros H. unfold op_row_pair, assert.
  destruct (N.ltb_spec r1 (N.of_nat (vrows v))); cbn [bind]; [|reflexivity].
  destruct (N.ltb_spec r2 (N.of_nat (vrows v))); cbn [bind]; [|reflexivity].
  destruct (N.eqb_spec r1 r2); cbn [negb bind]; [reflexivity|lia].
Qed.

(** distinct rows are disjoint windows, in the buffer *)
Lemma row_wins_disjoint v r1 r2 : wf_view v -> r1 < r2 -> r2 < vrows v ->
  off (row_win v r1) + len (row_win v r1) <= off (row_win v r2).
Proof.
  intros Hwf H12 H2.
  apply (view_rows_disjoint v r1 r2 _ _ Hwf H12); apply nth_view_rows; lia.
Qed.

(** * swap_rows: the three implementations *)
Definition swap_rows_post v (b b' : buf) (a1 a2 : nat) : Prop :=
  length b' = length b /\
  (forall i, ~ in_view v i -> nth_error b' i = nth_error b i) /\
  (forall c r, c < vcols v -> r < vrows v ->
     nth_error b' (v_cell v c r) = nth_error b (v_cell v c (swap_idx_of a1 a2 r))).

Lemma swap_two_rows v b a1 a2 : wf_view v -> fits v b -> a1 < a2 -> a2 < vrows v ->
  exists b', swap_wins b (row_win v a1) (row_win v a2) = Ok b' /\ swap_rows_post v b b' a1 a2.
Proof.
  intros Hwf Hb H12 H2.
  destruct (row_win_inside v a1 Hwf) as [_ Hi1]; [lia|].
  destruct (row_win_inside v a2 Hwf H2) as [_ Hi2]. unfold fits in Hb.
  pose proof (row_wins_disjoint v a1 a2 Hwf H12 H2) as Hd.
  destruct (swap_wins_ok b (row_win v a1) (row_win v a2)) as [b' [E [L Nn]]];
    [reflexivity|lia|lia|left; exact Hd|].
  exists b'. split; [exact E|]. split; [exact L|]. split.
  - intros i Hi. rewrite Nn.
    destruct (in_win (row_win v a1) i) eqn:E1;
      [exfalso; apply Hi, in_view_row; exists a1; split; [lia|exact E1]|].
    destruct (in_win (row_win v a2) i) eqn:E2;
      [exfalso; apply Hi, in_view_row; exists a2; split; [lia|exact E2]|]. reflexivity.
  - intros c r Hc Hr. rewrite Nn. unfold swap_idx_of.
    destruct (Nat.eqb_spec r a2) as [->|Hn2].
    + (* row a2 receives row a1 *)
      assert (in_win (row_win v a1) (v_cell v c a2) = false).
      { unfold in_win, v_cell in *. cbn [row_win off len] in *.
        apply Bool.andb_false_iff. right. apply Nat.ltb_ge. lia. }
      rewrite H, in_win_row_cell by exact Hc. f_equal. unfold v_cell. cbn [row_win off]. lia.
    + destruct (Nat.eqb_spec r a1) as [->|Hn1].
      * rewrite in_win_row_cell by exact Hc. f_equal. unfold v_cell. cbn [row_win off]. lia.
      * assert (Hx : forall a, a < vrows v -> a <> r -> in_win (row_win v a) (v_cell v c r) = false).
        { intros a Ha Hne. destruct (in_win (row_win v a) (v_cell v c r)) eqn:Ein; [|reflexivity].
          exfalso. unfold in_win in Ein. apply Bool.andb_true_iff in Ein. destruct Ein as [X1 X2].
          apply Nat.leb_le in X1. apply Nat.ltb_lt in X2. cbn [row_win off len] in X1, X2.
          destruct (v_cell_inj v c r (v_cell v c r - (off (vw v) + a * vstride v)) a Hwf Hc) as [_ Heq];
            [lia|unfold v_cell in *; lia|congruence]. }
        rewrite (Hx a1) by lia. rewrite (Hx a2) by lia. reflexivity.
Qed.

Theorem op_swap_rows_spec k v b (r1 r2 : N) : wf_view v -> fits v b ->
  (k = KOwned -> vstride v = vcols v) ->
  (r1 < N.of_nat (vrows v))%N -> (r2 < N.of_nat (vrows v))%N ->
  exists b', op_swap_rows k v b r1 r2 = Ok b' /\ swap_rows_post v b b' (N.to_nat r1) (N.to_nat r2).
Proof.
  intros Hwf Hb Hk H1 H2. unfold op_swap_rows.
  destruct (N.eqb_spec r1 r2) as [->|Hne].
  { unfold assert. destruct (N.ltb_spec r2 (N.of_nat (vrows v))); [|lia]. cbn [bind].
    exists b. split; [reflexivity|]. split; [reflexivity|]. split; [reflexivity|].
    intros c r Hc Hr. unfold swap_idx_of.
    destruct (Nat.eqb_spec r (N.to_nat r2)); [subst; reflexivity|reflexivity]. }
  (* order the two rows *)
  assert (Hsym : forall a1 a2 b', swap_rows_post v b b' a1 a2 -> swap_rows_post v b b' a2 a1).
  { intros a1 a2 b' [L [Nout Nin]]. split; [exact L|]. split; [exact Nout|].
    intros c r Hc Hr. rewrite (Nin c r Hc Hr). unfold swap_idx_of.
    destruct (Nat.eqb_spec r a1), (Nat.eqb_spec r a2); subst; reflexivity. }
  assert (Hmain : forall lo hi : N, (lo < hi)%N -> (hi < N.of_nat (vrows v))%N ->
            exists b', (match k with
              | KOwned =>
                  _ <- assert (hi <? N.of_nat (vrows v))%N ;;
                  let nc := vcols v in
                  rest0 <- get_from (vw v) (N.to_nat lo * nc) ;;
                  p <- split_at rest0 nc ;;
                  let '(first, rest) := p in
                  let snd_idx := (N.to_nat hi - N.to_nat lo - 1) * nc in
                  second <- sub_win rest snd_idx nc ;;
                  swap_wins b first second
              | KViewMut =>
                  _ <- assert (hi <? N.of_nat (vrows v))%N ;;
                  let nc := vcols v in
                  rest0 <- get_from (vw v) (N.to_nat lo * vstride v) ;;
                  p <- split_at rest0 nc ;;
                  let '(first, rest) := p in
                  snd_idx <- usub ((N.to_nat hi - N.to_nat lo) * vstride v) nc ;;
                  second <- sub_win rest snd_idx nc ;;
                  swap_wins b first second
              | _ =>
                  p <- nth_then_nth v lo (hi - lo - 1)%N ;;
                  swap_wins b (fst p) (snd p)
              end) = Ok b' /\ swap_rows_post v b b' (N.to_nat lo) (N.to_nat hi)).
  { intros lo hi Hlh Hhi.
    destruct (swap_two_rows v b (N.to_nat lo) (N.to_nat hi) Hwf Hb) as [b' [E Hpost]]; [lia|lia|].
    exists b'. split; [|exact Hpost].
    assert (Hthird : (p <- nth_then_nth v lo (hi - lo - 1)%N ;; swap_wins b (fst p) (snd p)) = Ok b').
    { rewrite (nth_then_nth_ok v lo hi Hwf Hlh Hhi). cbn [bind fst snd]. exact E. }
    destruct Hwf as [Hw Hshape]. destruct (vrows v) as [|kk] eqn:Ek; [lia|].
    destruct Hshape as [Hc [Hs Hl]].
    set (a := N.to_nat lo) in *. set (h := N.to_nat hi) in *.
    assert (Ha : a < h) by lia. assert (Hh : h <= kk) by lia.
    destruct k; try exact Hthird.
    - (* TooDee: stride = width *)
      specialize (Hk eq_refl). unfold assert. destruct (N.ltb_spec hi (N.of_nat (S kk))); [|lia]. cbn [bind].
      unfold get_from. rewrite Hl, Hk.
      destruct (Nat.leb_spec (a * vcols v) (kk * vcols v + vcols v)); [|nia]. cbn [bind].
      unfold split_at. cbn [len off].
      destruct (Nat.leb_spec (vcols v) (kk * vcols v + vcols v - a * vcols v)); [|nia]. cbn [bind].
      unfold sub_win, get_range. cbn [len off].
      match goal with |- context [if ?c then _ else _] => assert (Hc2 : c = true) end.
      { apply Bool.andb_true_iff. split; apply Nat.leb_le; nia. }
      rewrite Hc2. cbn [bind].
      replace (mkSl (off (vw v) + a * vcols v) (vcols v)) with (row_win v a)
        by (unfold row_win; rewrite Hk; reflexivity).
      match goal with |- swap_wins b _ ?w = _ => replace w with (row_win v h) end; [exact E|].
      unfold row_win. rewrite Hk. f_equal; nia.
    - (* TooDeeViewMut: stride *)
      unfold assert. destruct (N.ltb_spec hi (N.of_nat (S kk))); [|lia]. cbn [bind].
      unfold get_from. rewrite Hl.
      destruct (Nat.leb_spec (a * vstride v) (kk * vstride v + vcols v)); [|nia]. cbn [bind].
      unfold split_at. cbn [len off].
      destruct (Nat.leb_spec (vcols v) (kk * vstride v + vcols v - a * vstride v)); [|nia]. cbn [bind].
      unfold usub. destruct (Nat.leb_spec (vcols v) ((h - a) * vstride v)); [|nia]. cbn [bind].
      unfold sub_win, get_range. cbn [len off].
      match goal with |- context [if ?c then _ else _] => assert (Hc2 : c = true) end.
      { apply Bool.andb_true_iff. split; apply Nat.leb_le; nia. }
      rewrite Hc2. cbn [bind].
      fold (row_win v a).
      match goal with |- swap_wins b _ ?w = _ => replace w with (row_win v h) end; [exact E|].
      unfold row_win. f_equal; nia. }
  destruct (N.ltb_spec r2 r1) as [Hlt|Hge].
  - destruct (Hmain r2 r1 Hlt H1) as [b' [E Hpost]]. exists b'. split; [exact E|]. apply Hsym. exact Hpost.
  - destruct (Hmain r1 r2) as [b' [E Hpost]]; [lia|exact H2|]. exists b'. split; [exact E|exact Hpost].
Qed.

Theorem op_swap_rows_reject k v b (r1 r2 : N) : wf_view v ->
  (N.of_nat (vrows v) <= r1)%N \/ (N.of_nat (vrows v) <= r2)%N -> op_swap_rows k v b r1 r2 = Panic.
Proof.
  intros Hwf H. unfold op_swap_rows.
  destruct (N.eqb_spec r1 r2) as [->|Hne].
  { unfold assert. destruct (N.ltb_spec r2 (N.of_nat (vrows v))); [lia|reflexivity]. }
  assert (Hmain : forall lo hi : N, (lo < hi)%N -> (N.of_nat (vrows v) <= hi)%N ->
            (match k with
             | KOwned =>
                 _ <- assert (hi <? N.of_nat (vrows v))%N ;;
                 let nc := vcols v in
                 rest0 <- get_from (vw v) (N.to_nat lo * nc) ;;
                 p <- split_at rest0 nc ;;
                 let '(first, rest) := p in
                 let snd_idx := (N.to_nat hi - N.to_nat lo - 1) * nc in
                 second <- sub_win rest snd_idx nc ;;
                 swap_wins b first second
             | KViewMut =>
                 _ <- assert (hi <? N.of_nat (vrows v))%N ;;
                 let nc := vcols v in
                 rest0 <- get_from (vw v) (N.to_nat lo * vstride v) ;;
                 p <- split_at rest0 nc ;;
                 let '(first, rest) := p in
                 snd_idx <- usub ((N.to_nat hi - N.to_nat lo) * vstride v) nc ;;
                 second <- sub_win rest snd_idx nc ;;
                 swap_wins b first second
             | _ =>
                 p <- nth_then_nth v lo (hi - lo - 1)%N ;;
                 swap_wins b (fst p) (snd p)
             end) = Panic).
  { intros lo hi Hlh Hhi.
    assert (Hthird : (p <- nth_then_nth v lo (hi - lo - 1)%N ;; swap_wins b (fst p) (snd p)) = Panic).
    { rewrite (nth_then_nth_reject v lo hi Hwf Hlh Hhi). reflexivity. }
    destruct k; try exact Hthird;
      (unfold assert; destruct (N.ltb_spec hi (N.of_nat (vrows v))); [lia|reflexivity]). }
  destruct (N.ltb_spec r2 r1); apply Hmain; lia.
Qed.

(** * swap of two cells *)
Definition swap_cells_post (b b' : buf) (i j : nat) : Prop :=
  length b' = length b /\
  forall k, nth_error b' k = if k =? j then nth_error b i else if k =? i then nth_error b j else nth_error b k.

Lemma swap_cells_post_sym b b' i j : swap_cells_post b b' i j -> swap_cells_post b b' j i.
Proof.
  intros [L Nn]. split; [exact L|]. intros k. rewrite Nn.
  destruct (Nat.eqb_spec k j), (Nat.eqb_spec k i); subst; reflexivity.
Qed.

Lemma rows_nth_row v it (r : N) : wf_view v -> v_rows v = Ok it -> (r < N.of_nat (vrows v))%N ->
  exists it', rows_nth it r = Ok (Some (row_win v (N.to_nat r)), it') /\
              rows_sim it' (skipn (S (N.to_nat r)) (view_rows v)).
Proof.
  intros Hwf E Hr. destruct (v_rows_sim v Hwf) as [it0 [E0 Hs]]. rewrite E in E0. inversion E0; subst it0.
  destruct (rows_sim_nth it _ r Hs) as [it' [E1 Hs1]]. exists it'.
  rewrite i_nth_closed, view_rows_len in *.
  destruct (N.leb_spec (N.of_nat (vrows v)) r); [lia|]. cbn [fst snd] in *.
  rewrite nth_view_rows in E1 by lia. split; assumption.
Qed.

Lemma rows_nth_none v it (r : N) : wf_view v -> v_rows v = Ok it -> (N.of_nat (vrows v) <= r)%N ->
  exists it', rows_nth it r = Ok (None, it').
Proof.
  intros Hwf E Hr. destruct (v_rows_sim v Hwf) as [it0 [E0 Hs]]. rewrite E in E0. inversion E0; subst it0.
  destruct (rows_sim_nth it _ r Hs) as [it' [E1 _]]. exists it'.
  rewrite i_nth_closed, view_rows_len in E1.
  destruct (N.leb_spec (N.of_nat (vrows v)) r); [|lia]. exact E1.
Qed.

Theorem op_swap_spec k v b (c1 r1 c2 r2 : N) : wf_view v -> fits v b ->
  (c1 < N.of_nat (vcols v))%N -> (r1 < N.of_nat (vrows v))%N ->
  (c2 < N.of_nat (vcols v))%N -> (r2 < N.of_nat (vrows v))%N ->
  exists b', op_swap k v b c1 r1 c2 r2 = Ok b' /\
    swap_cells_post b b' (v_cell v (N.to_nat c1) (N.to_nat r1)) (v_cell v (N.to_nat c2) (N.to_nat r2)).
Proof.
  intros Hwf Hb Hc1 Hr1 Hc2 Hr2.
  assert (Hin : forall c r : N, (c < N.of_nat (vcols v))%N -> (r < N.of_nat (vrows v))%N ->
            v_cell v (N.to_nat c) (N.to_nat r) < length b).
  { intros c r Hc Hr. destruct (v_cell_inside v (N.to_nat c) (N.to_nat r) Hwf); [lia|lia|].
    unfold fits in Hb. lia. }
  assert (Hcells : forall ca ra cb rb : N,
            (ca < N.of_nat (vcols v))%N -> (ra < N.of_nat (vrows v))%N ->
            (cb < N.of_nat (vcols v))%N -> (rb < N.of_nat (vrows v))%N ->
            exists b', swap_cells b (v_cell v (N.to_nat ca) (N.to_nat ra)) (v_cell v (N.to_nat cb) (N.to_nat rb)) = Ok b' /\
                       swap_cells_post b b' (v_cell v (N.to_nat ca) (N.to_nat ra)) (v_cell v (N.to_nat cb) (N.to_nat rb))).
  { intros ca ra cb rb Ha1 Ha2 Hb1 Hb2.
    destruct (swap_cells_ok b _ _ (Hin ca ra Ha1 Ha2) (Hin cb rb Hb1 Hb2)) as [b' [E [L Nn]]].
    exists b'. split; [exact E|split; assumption]. }
  assert (Hgen : forall ca ra cb rb : N,
            (ca < N.of_nat (vcols v))%N -> (ra < N.of_nat (vrows v))%N ->
            (cb < N.of_nat (vcols v))%N -> (rb < N.of_nat (vrows v))%N -> (ra <= rb)%N ->
            exists b',
              (_ <- assert ((ca <? N.of_nat (vcols v))%N && (cb <? N.of_nat (vcols v))%N) ;;
               it <- v_rows v ;;
               p1 <- rows_nth it ra ;;
               row1 <- unwrap (fst p1) ;;
               if (ra =? rb)%N then
                 pa <- cell_of row1 (N.to_nat ca) ;; pb <- cell_of row1 (N.to_nat cb) ;; swap_cells b pa pb
               else
                 p2 <- rows_nth (snd p1) (rb - ra - 1)%N ;;
                 row2 <- unwrap (fst p2) ;;
                 pa <- cell_of row1 (N.to_nat ca) ;; pb <- cell_of row2 (N.to_nat cb) ;; swap_cells b pa pb) = Ok b'
              /\ swap_cells_post b b' (v_cell v (N.to_nat ca) (N.to_nat ra)) (v_cell v (N.to_nat cb) (N.to_nat rb))).
  { intros ca ra cb rb Ha1 Ha2 Hb1 Hb2 Hle.
    destruct (Hcells ca ra cb rb Ha1 Ha2 Hb1 Hb2) as [b' [E Hpost]]. exists b'. split; [|exact Hpost].
    unfold assert. destruct (N.ltb_spec ca (N.of_nat (vcols v))); [|lia].
    destruct (N.ltb_spec cb (N.of_nat (vcols v))); [|lia]. cbn [andb bind].
    destruct (v_rows_sim v Hwf) as [it [Eit _]]. rewrite Eit. cbn [bind].
    destruct (rows_nth_row v it ra Hwf Eit Ha2) as [it1 [E1 Hs1]]. rewrite E1. cbn [bind fst snd unwrap].
    assert (Hcell : forall (c r : N), (c < N.of_nat (vcols v))%N ->
              cell_of (row_win v (N.to_nat r)) (N.to_nat c) = Ok (v_cell v (N.to_nat c) (N.to_nat r))).
    { intros c r Hc. unfold cell_of. cbn [row_win len off].
      destruct (Nat.ltb_spec (N.to_nat c) (vcols v)); [|lia]. unfold v_cell. reflexivity. }
    destruct (N.eqb_spec ra rb) as [->|Hne].
    - rewrite !Hcell by assumption. cbn [bind]. exact E.
    - destruct (rows_sim_nth it1 _ (rb - ra - 1) Hs1) as [it2 [E2 _]]. rewrite E2. cbn [bind fst snd].
      rewrite i_nth_closed, skipn_length, view_rows_len.
      destruct (N.leb_spec (N.of_nat (vrows v - S (N.to_nat ra))) (rb - ra - 1)); [lia|]. cbn [fst].
      rewrite nth_error_skipn.
      replace (S (N.to_nat ra) + N.to_nat (rb - ra - 1)) with (N.to_nat rb) by lia.
      rewrite nth_view_rows by lia. cbn [unwrap bind].
      rewrite !Hcell by assumption. cbn [bind]. exact E. }
  unfold op_swap. destruct k.
  - (* TooDee *)
    unfold assert.
    destruct (N.ltb_spec c1 (N.of_nat (vcols v))); [|lia]. destruct (N.ltb_spec c2 (N.of_nat (vcols v))); [|lia].
    destruct (N.ltb_spec r1 (N.of_nat (vrows v))); [|lia]. destruct (N.ltb_spec r2 (N.of_nat (vrows v))); [|lia].
    cbn [andb bind]. rewrite !get_unchecked_in by (try assumption; lia). cbn [bind].
    apply Hcells; assumption.
  - destruct (N.ltb_spec r2 r1).
    + destruct (Hgen c2 r2 c1 r1) as [b' [E Hp]]; try assumption; [lia|].
      exists b'. split; [exact E|apply swap_cells_post_sym; exact Hp].
    + apply Hgen; assumption.
  - destruct (N.ltb_spec r2 r1).
    + destruct (Hgen c2 r2 c1 r1) as [b' [E Hp]]; try assumption; [lia|].
      exists b'. split; [exact E|apply swap_cells_post_sym; exact Hp].
    + apply Hgen; assumption.
  - destruct (N.ltb_spec r2 r1).
    + destruct (Hgen c2 r2 c1 r1) as [b' [E Hp]]; try assumption; [lia|].
      exists b'. split; [exact E|apply swap_cells_post_sym; exact Hp].
    + apply Hgen; assumption.
Qed.

Theorem op_swap_reject k v b (c1 r1 c2 r2 : N) : wf_view v ->
  (N.of_nat (vcols v) <= c1)%N \/ (N.of_nat (vrows v) <= r1)%N \/
  (N.of_nat (vcols v) <= c2)%N \/ (N.of_nat (vrows v) <= r2)%N ->
  op_swap k v b c1 r1 c2 r2 = Panic.
Proof.
  intros Hwf H.
  assert (Hgen : forall ca ra cb rb : N, (ra <= rb)%N ->
            (N.of_nat (vcols v) <= ca)%N \/ (N.of_nat (vrows v) <= ra)%N \/
            (N.of_nat (vcols v) <= cb)%N \/ (N.of_nat (vrows v) <= rb)%N ->
              (_ <- assert ((ca <? N.of_nat (vcols v))%N && (cb <? N.of_nat (vcols v))%N) ;;
               it <- v_rows v ;;
               p1 <- rows_nth it ra ;;
               row1 <- unwrap (fst p1) ;;
               if (ra =? rb)%N then
                 pa <- cell_of row1 (N.to_nat ca) ;; pb <- cell_of row1 (N.to_nat cb) ;; swap_cells b pa pb
               else
                 p2 <- rows_nth (snd p1) (rb - ra - 1)%N ;;
                 row2 <- unwrap (fst p2) ;;
                 pa <- cell_of row1 (N.to_nat ca) ;; pb <- cell_of row2 (N.to_nat cb) ;; swap_cells b pa pb) = Panic).
  { intros ca ra cb rb Hle Hbad. unfold assert.
    destruct (N.ltb_spec ca (N.of_nat (vcols v))); cbn [andb bind]; [|reflexivity].
    destruct (N.ltb_spec cb (N.of_nat (vcols v))); cbn [andb bind]; [|reflexivity].
    destruct (v_rows_sim v Hwf) as [it [Eit _]]. rewrite Eit. cbn [bind].
    destruct (N.ltb_spec ra (N.of_nat (vrows v))) as [Hra|Hra].
    - destruct (rows_nth_row v it ra Hwf Eit Hra) as [it1 [E1 Hs1]]. rewrite E1. cbn [bind fst snd unwrap].
      destruct (N.eqb_spec ra rb); [lia|].
      destruct (rows_sim_nth it1 _ (rb - ra - 1) Hs1) as [it2 [E2 _]]. rewrite E2. cbn [bind fst snd].
      rewrite i_nth_closed, skipn_length, view_rows_len.
      destruct (N.leb_spec (N.of_nat (vrows v - S (N.to_nat ra))) (rb - ra - 1)); [reflexivity|lia].
    - destruct (rows_nth_none v it ra Hwf Eit Hra) as [it1 E1]. rewrite E1. reflexivity. }
  unfold op_swap. destruct k.
  - unfold assert.
    destruct (N.ltb_spec c1 (N.of_nat (vcols v))); cbn [andb bind]; [|reflexivity].
    destruct (N.ltb_spec c2 (N.of_nat (vcols v))); cbn [andb bind]; [|reflexivity].
    destruct (N.ltb_spec r1 (N.of_nat (vrows v))); cbn [andb bind]; [|reflexivity].
    destruct (N.ltb_spec r2 (N.of_nat (vrows v))); cbn [andb bind]; [lia|reflexivity].
  - destruct (N.ltb_spec r2 r1); apply Hgen; lia.
  - destruct (N.ltb_spec r2 r1); apply Hgen; lia.
  - destruct (N.ltb_spec r2 r1); apply Hgen; lia.
Qed.

(** * "the same effect as on an owned array holding the same cells" *)
Definition same_cells (v1 : view) (b1 : buf) (v2 : view) (b2 : buf) : Prop :=
  vcols v1 = vcols v2 /\ vrows v1 = vrows v2 /\
  forall c r, c < vcols v1 -> r < vrows v1 -> nth_error b1 (v_cell v1 c r) = nth_error b2 (v_cell v2 c r).

(** two runs whose results are given by the same coordinate map agree on the cells *)
Lemma same_cells_map v1 b1 b1' v2 b2 b2' (fc fr : nat -> nat -> nat) :
  same_cells v1 b1 v2 b2 ->
  (forall c r, c < vcols v1 -> r < vrows v1 -> fc c r < vcols v1 /\ fr c r < vrows v1) ->
  (forall c r, c < vcols v1 -> r < vrows v1 -> nth_error b1' (v_cell v1 c r) = nth_error b1 (v_cell v1 (fc c r) (fr c r))) ->
  (forall c r, c < vcols v2 -> r < vrows v2 -> nth_error b2' (v_cell v2 c r) = nth_error b2 (v_cell v2 (fc c r) (fr c r))) ->
  same_cells v1 b1' v2 b2'.
Proof.
  intros [Hc [Hr Hs]] Hrange H1 H2. split; [exact Hc|]. split; [exact Hr|].
  intros c r Hcc Hrr. rewrite H1 by assumption. rewrite H2 by lia.
  destruct (Hrange c r Hcc Hrr). apply Hs; assumption.
Qed.

Lemma swap_idx_of_lt a1 a2 r n : a1 < n -> a2 < n -> r < n -> swap_idx_of a1 a2 r < n.
Proof. unfold swap_idx_of. intros. destruct (r =? a2); [assumption|]. destruct (r =? a1); assumption. Qed.

Theorem swap_rows_same_as_owned k v b v0 b0 (r1 r2 : N) :
  wf_view v -> fits v b -> (k = KOwned -> vstride v = vcols v) ->
  wf_view v0 -> fits v0 b0 -> vstride v0 = vcols v0 ->
  same_cells v b v0 b0 ->
  (r1 < N.of_nat (vrows v))%N -> (r2 < N.of_nat (vrows v))%N ->
  exists b' b0', op_swap_rows k v b r1 r2 = Ok b' /\ op_swap_rows KOwned v0 b0 r1 r2 = Ok b0' /\
                 same_cells v b' v0 b0'.
Proof.
  intros Hwf Hb Hk Hwf0 Hb0 Hs0 Hsame H1 H2. pose proof Hsame as [Hc [Hr _]].
  destruct (op_swap_rows_spec k v b r1 r2 Hwf Hb Hk H1 H2) as [b' [E [_ [_ Hin]]]].
  destruct (op_swap_rows_spec KOwned v0 b0 r1 r2 Hwf0 Hb0 (fun _ => Hs0)) as [b0' [E0 [_ [_ Hin0]]]]; [lia|lia|].
  exists b', b0'. split; [exact E|]. split; [exact E0|].
  apply (same_cells_map v b b' v0 b0 b0' (fun c _ => c) (fun _ r => swap_idx_of (N.to_nat r1) (N.to_nat r2) r) Hsame).
  - intros c r Hcc Hrr. split; [exact Hcc|]. apply swap_idx_of_lt; lia.
  - exact Hin.
  - exact Hin0.
Qed.

Theorem swap_cols_same_as_owned v b v0 b0 (c1 c2 : N) :
  wf_view v -> fits v b -> wf_view v0 -> fits v0 b0 -> same_cells v b v0 b0 ->
  (c1 < N.of_nat (vcols v))%N -> (c2 < N.of_nat (vcols v))%N ->
  exists b' b0', op_swap_cols v b c1 c2 = Ok b' /\ op_swap_cols v0 b0 c1 c2 = Ok b0' /\
                 same_cells v b' v0 b0'.
Proof.
  intros Hwf Hb Hwf0 Hb0 Hsame H1 H2. pose proof Hsame as [Hc [Hr _]].
  destruct (op_swap_cols_spec v b c1 c2 Hwf Hb H1 H2) as [b' [E [_ [_ Hin]]]].
  destruct (op_swap_cols_spec v0 b0 c1 c2 Hwf0 Hb0) as [b0' [E0 [_ [_ Hin0]]]]; [lia|lia|].
  exists b', b0'. split; [exact E|]. split; [exact E0|].
  apply (same_cells_map v b b' v0 b0 b0' (fun c _ => swap_idx_of (N.to_nat c1) (N.to_nat c2) c) (fun _ r => r) Hsame).
  - intros c r Hcc Hrr. split; [apply swap_idx_of_lt; lia|exact Hrr].
  - exact Hin.
  - exact Hin0.
Qed.

Theorem fill_same_as_owned k v b v0 b0 x :
  wf_view v -> fits v b -> (k = KOwned -> vstride v = vcols v) ->
  wf_view v0 -> fits v0 b0 -> vstride v0 = vcols v0 -> same_cells v b v0 b0 ->
  exists b' b0', op_fill k v b x = Ok b' /\ op_fill KOwned v0 b0 x = Ok b0' /\ same_cells v b' v0 b0'.
Proof.
  intros Hwf Hb Hk Hwf0 Hb0 Hs0 [Hc [Hr _]].
  destruct (op_fill_spec k v b x Hwf Hb Hk) as [b' [E [_ [_ Hin]]]].
  destruct (op_fill_spec KOwned v0 b0 x Hwf0 Hb0 (fun _ => Hs0)) as [b0' [E0 [_ [_ Hin0]]]].
  exists b', b0'. split; [exact E|]. split; [exact E0|]. split; [exact Hc|]. split; [exact Hr|].
  intros c r Hcc Hrr. rewrite Hin, Hin0 by lia. reflexivity.
Qed.

(** indexed writes land on the addressed cell of the view, which is inside it *)
Lemma v_cell_in_view v c r : c < vcols v -> r < vrows v -> in_view v (v_cell v c r).
Proof. intros Hc Hr. exists c, r. repeat split; assumption. Qed.
