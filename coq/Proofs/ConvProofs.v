(** C20: constructors accept exactly the consistent arguments and preserve the contents;
    conversions from views collect the viewed cells in row-major order; equality is
    equality of dimensions and cells. *)
From TD Require Import Base.Prelude Base.Codec Spec.Grid Spec.Inv Model.Iter Model.Flatten
  Model.View Model.Ops Model.Owned Model.Conv Spec.Ideal
  Proofs.ListLemmas Proofs.RowsSim Proofs.ViewGeom.

Definition consistent (c r : N) : Prop := ((c = 0 <-> r = 0) /\ c * r < W)%N.

Lemma zero_rule_ok_iff (c r : N) : zero_rule c r = Ok tt <-> (c = 0 <-> r = 0)%N.
Proof.
  unfold zero_rule, assert.
  destruct (N.eqb_spec c 0), (N.eqb_spec r 0); cbn [orb]; subst;
    try (destruct (N.eqb_spec r 0)); try (destruct (N.eqb_spec 0 c)); try (destruct (N.eqb_spec r c));
    split; intros; try reflexivity; try discriminate; try lia.
Qed.
Lemma zero_rule_cases (c r : N) : zero_rule c r = Ok tt \/ zero_rule c r = Panic.
Proof. unfold zero_rule, assert. destruct ((c =? 0)%N || (r =? 0)%N); [destruct (r =? c)%N|]; auto. Qed.

Section Ctor.
Context {A : Type}.

(** from_vec / from_box, for every pair of dimensions in N x N and every buffer *)
Theorem ctor_from_vec_accepts (c r : N) (d : list A) :
  consistent c r -> (c * r)%N = N.of_nat (length d) ->
  ctor_from_vec c r d = Ok (mkTD d (N.to_nat r) (N.to_nat c)) /\ Inv (mkTD d (N.to_nat r) (N.to_nat c)).
Proof.
  intros [Hz Hw] Hl. split.
  - unfold ctor_from_vec. rewrite (proj2 (zero_rule_ok_iff c r) Hz). cbn [bind].
    unfold checked_mul. destruct (N.ltb_spec (c * r) W); [|lia].
    unfold assert. rewrite Hl, N.eqb_refl. reflexivity.
  - split; cbn [data num_rows num_cols]; lia.
Qed.

Theorem ctor_from_vec_rejects (c r : N) (d : list A) :
  ~ (consistent c r /\ (c * r)%N = N.of_nat (length d)) -> ctor_from_vec c r d = Panic.
Proof.
  intros H. unfold ctor_from_vec.
  destruct (zero_rule_cases c r) as [E|E]; rewrite E; cbn [bind]; [|reflexivity].
  apply zero_rule_ok_iff in E.
  unfold checked_mul. destruct (N.ltb_spec (c * r) W); [|reflexivity].
  unfold assert. destruct (N.eqb_spec (c * r) (N.of_nat (length d))); [|reflexivity].
  exfalso. apply H. split; [split|]; assumption.
Qed.

(** new / init *)
Theorem ctor_fill_accepts (c r : N) (mk : nat -> list A) :
  (forall n, length (mk n) = n) -> consistent c r ->
  ctor_fill c r mk = Ok (mkTD (mk (N.to_nat (c * r))) (N.to_nat r) (N.to_nat c))
  /\ Inv (mkTD (mk (N.to_nat (c * r))) (N.to_nat r) (N.to_nat c)).
Proof.
  intros Hmk [Hz Hw]. split.
  - unfold ctor_fill. rewrite (proj2 (zero_rule_ok_iff c r) Hz). cbn [bind].
    unfold checked_mul. destruct (N.ltb_spec (c * r) W); [reflexivity|lia].
  - split; cbn [data num_rows num_cols]; [rewrite Hmk; lia|lia].
Qed.

Theorem ctor_fill_rejects (c r : N) (mk : nat -> list A) :
  ~ consistent c r -> ctor_fill c r mk = Panic.
Proof.
  intros H. unfold ctor_fill.
  destruct (zero_rule_cases c r) as [E|E]; rewrite E; cbn [bind]; [|reflexivity].
  apply zero_rule_ok_iff in E.
  unfold checked_mul. destruct (N.ltb_spec (c * r) W); [|reflexivity].
  exfalso. apply H. split; assumption.
Qed.

End Ctor.

(** * From<TooDeeView> / From<TooDeeViewMut> *)
Definition row_values (b : buf) (w : sl) : list N := slice (off w) (len w) b.

Lemma from_view_go (b : buf) (rows : list sl) :
  Forall (fun w => off w + len w <= length b) rows ->
  (fix go (l : list sl) : res (list N) :=
     match l with
     | [] => Ok []
     | w :: tl => x <- read_win b w ;; rest <- go tl ;; Ok (x ++ rest)
     end) rows = Ok (concat (map (row_values b) rows)).
Proof.
  induction 1 as [|w tl Hw _ IH]; [reflexivity|].
  unfold read_win at 1. destruct (Nat.leb_spec (off w + len w) (length b)); [|lia].
  cbn [bind]. rewrite IH. reflexivity.
Qed.

Lemma view_rows_inside v w :
  wf_view v -> In w (view_rows v) -> off (vw v) <= off w /\ off w + len w <= off (vw v) + len (vw v) /\ len w = vcols v.
Proof.
  intros [_ H] Hin. unfold view_rows in Hin. apply in_map_iff in Hin.
  destruct Hin as [r [<- Hr]]. apply in_seq in Hr. cbn [off len].
  destruct (vrows v) as [|k]; [lia|]. destruct H as [Hc [Hs Hl]]. rewrite Hl. nia.
Qed.

Theorem from_view_spec v (b : buf) :
  wf_view v -> off (vw v) + len (vw v) <= length b ->
  from_view v b = Ok (mkTD (concat (map (row_values b) (view_rows v))) (vrows v) (vcols v))
  /\ Inv (mkTD (concat (map (row_values b) (view_rows v))) (vrows v) (vcols v)).
Proof.
  intros Hwf Hb. split.
  - unfold from_view, all_rows.
    destruct (v_rows_sim v Hwf) as [it [E Hs]]. rewrite E. cbn [bind].
    rewrite (rows_fold_ok it _ Hs). cbn [bind].
    rewrite from_view_go; [reflexivity|].
    apply Forall_forall. intros w Hin. destruct (view_rows_inside v w Hwf Hin) as [_ [H2 _]]. lia.
  - split; cbn [data num_rows num_cols].
    + assert (Hlen : forall rows, Forall (fun w => off w + len w <= length b /\ len w = vcols v) rows ->
                length (concat (map (row_values b) rows)) = vcols v * length rows).
      { induction 1 as [|w tl [Hw Hc] _ IH]; cbn [map concat length]; [lia|].
        rewrite app_length, IH. unfold row_values. rewrite slice_length by lia. lia. }
      rewrite Hlen.
      * unfold view_rows. rewrite map_length, seq_length. reflexivity.
      * apply Forall_forall. intros w Hin. destruct (view_rows_inside v w Hwf Hin) as [_ [H2 H3]].
        split; [lia|exact H3].
    + destruct Hwf as [_ H]. destruct (vrows v); [tauto|]. lia.
Qed.

(** the value at position (c, r) of the result is the viewed cell (c, r) *)
Lemma row_values_nth b w c : c < len w -> off w + len w <= length b ->
  nth_error (row_values b w) c = nth_error b (off w + c).
Proof.
  intros Hc Hb. unfold row_values. rewrite nth_error_slice.
  destruct (Nat.ltb_spec c (len w)); [reflexivity|lia].
Qed.

(** * derived PartialEq *)
Lemma list_N_eqb_eq a : forall b, list_N_eqb a b = true <-> a = b.
Proof.
  induction a as [|x a IH]; intros [|y b]; cbn [list_N_eqb]; split; intros H;
    try reflexivity; try discriminate.
  - apply Bool.andb_true_iff in H. destruct H as [H1 H2].
    apply N.eqb_eq in H1. apply IH in H2. subst. reflexivity.
  - inversion H; subst. rewrite N.eqb_refl. cbn [andb]. apply IH. reflexivity.
Qed.

Theorem td_eqb_eq (a b : toodee N) : td_eqb a b = true <-> a = b.
Proof.
  unfold td_eqb. destruct a as [da ra ca], b as [db rb cb]; cbn [data num_rows num_cols].
  rewrite !Bool.andb_true_iff, list_N_eqb_eq, !Nat.eqb_eq. split.
  - intros [[-> ->] ->]. reflexivity.
  - intros H; inversion H; auto.
Qed.

(** equality over an element type whose own equality is not reflexive (f64: NaN): an array is
    equal to itself exactly when none of its cells is such a value *)
Lemma cells_eqb_partial_refl (nan : nat -> bool) : forall (l : list N) i,
  cells_eqb_partial nan i l l = true <-> (forall j, j < length l -> nan (i + j) = false).
Proof.
  induction l as [|x l IH]; intros i; cbn [cells_eqb_partial length].
  - split; [intros _ j Hj; lia|reflexivity].
  - rewrite N.eqb_refl. cbn [andb]. rewrite Bool.andb_true_iff, Bool.negb_true_iff, IH. split.
    + intros [H0 Hr] j Hj. destruct j as [|j]; [rewrite Nat.add_0_r; exact H0|].
      replace (i + S j) with (S i + j) by lia. apply Hr. lia.
    + intros H. split; [rewrite <- (Nat.add_0_r i); apply H; lia|].
      intros j Hj. replace (S i + j) with (i + S j) by lia. apply H. lia.
Qed.

Theorem td_eqb_partial_self (nan : nat -> bool) (a : toodee N) :
  td_eqb_partial nan a a = true <-> (forall j, j < length (data a) -> nan j = false).
Proof.
  unfold td_eqb_partial. rewrite !Nat.eqb_refl, !Bool.andb_true_r. apply (cells_eqb_partial_refl nan (data a) 0).
Qed.
