(** Views are exactly the requested windows (C03) and the cursors created over them start
    as the ideal sequences of their rows / columns (C08, C09 initial states). *)
From TD Require Import Base.Prelude Model.Iter Model.Flatten Model.View Spec.Ideal
  Proofs.ListLemmas Proofs.RowsSim Proofs.ColSim.

(** well-formed receiver: zero rule, stride covers the width, the window has exactly the
    extent of the rectangle *)
Definition wf_view (v : view) : Prop :=
  (N.of_nat (len (vw v)) < W)%N /\
  match vrows v with
  | 0 => vcols v = 0 /\ len (vw v) = 0
  | S r' => 0 < vcols v /\ vcols v <= vstride v /\ len (vw v) = r' * vstride v + vcols v
  end.

Lemma wf_view_owned C R :
  (C = 0 <-> R = 0) -> (N.of_nat (C * R) < W)%N -> wf_view (view_of_owned C R (C * R)).
Proof.
  intros Hz Hw. split; cbn; [exact Hw|].
  destruct R as [|R]; cbn.
  - split; [tauto|lia].
  - split; [lia|]. split; [lia|]. lia.
Qed.

(** the rows of a receiver, by geometry *)
Definition view_rows (v : view) : list sl :=
  map (fun r => mkSl (off (vw v) + r * vstride v) (vcols v)) (seq 0 (vrows v)).
Definition view_col (v : view) (c : nat) : list nat :=
  map (fun r => off (vw v) + r * vstride v + c) (seq 0 (vrows v)).

Lemma v_rows_sim v : wf_view v ->
  exists it, v_rows v = Ok it /\ rows_sim it (view_rows v).
Proof.
  intros [Hw H]. unfold v_rows, usub.
  destruct (Nat.leb_spec (vcols v) (vstride v)) as [Hle|Hgt].
  - cbn [bind]. eexists. split; [reflexivity|]. exists (vrows v). split.
    + split; cbn [rv rcols rskip]; [exact Hw|].
      destruct (vrows v) as [|r]; [tauto|]. destruct H as [Hc [Hs Hl]].
      split; [exact Hc|]. rewrite Hl. f_equal. f_equal. lia.
    + unfold rows_abs, view_rows. cbn [rv rcols rskip]. apply map_ext. intros r.
      f_equal. f_equal. f_equal. lia.
  - destruct (vrows v) as [|r]; [lia|]. lia.
Qed.

Lemma v_col_sim k v (c : N) : wf_view v -> (c < N.of_nat (vcols v))%N ->
  (k = KOwned -> vstride v = vcols v) ->
  exists it, v_col k v c = Ok it /\ col_sim it (view_col v (N.to_nat c)).
Proof.
  intros [Hw H] Hc Hk. unfold v_col, assert.
  destruct (N.ltb_spec c (N.of_nat (vcols v))); [|lia]. cbn [bind].
  destruct (vrows v) as [|r] eqn:Er; [lia|]. destruct H as [Hc0 [Hs Hl]].
  set (ci := N.to_nat c). assert (Hci : ci < vcols v) by lia.
  assert (Hgoal : forall w sk, w = mkSl (off (vw v) + ci) (r * vstride v + 1) -> sk = vstride v - 1 ->
            col_sim (mkCol w sk) (view_col v ci)).
  { intros w sk -> ->. exists (rows_abs (col_as_rows (mkCol (mkSl (off (vw v) + ci) (r * vstride v + 1)) (vstride v - 1))) (S r)).
    split.
    - exists (S r). split; [|reflexivity]. split; cbn [col_as_rows rv rcols rskip cv cskip len]; [lia|].
      split; [lia|]. f_equal. f_equal. lia.
    - unfold view_col, rows_abs. rewrite Er, map_map. apply map_ext. intros j.
      cbn [col_as_rows rv rcols rskip cv cskip off]. replace (1 + (vstride v - 1)) with (vstride v) by lia. lia. }
  destruct k.
  - (* the owned array computes the end from data.len() *)
    specialize (Hk eq_refl). unfold usub.
    destruct (Nat.leb_spec (vcols v) (len (vw v))); [|nia]. cbn [bind].
    unfold get_range. fold ci.
    destruct (Nat.leb_spec ci (len (vw v) - vcols v + ci + 1)); [|lia].
    destruct (Nat.leb_spec (len (vw v) - vcols v + ci + 1) (len (vw v))); [|lia].
    cbn [andb bind]. destruct (Nat.leb_spec 1 (vcols v)); [|lia]. cbn [bind].
    eexists. split; [reflexivity|]. apply Hgoal; [|lia]. f_equal. rewrite Hl, Hk. lia.
  - unfold get_range. fold ci. cbn [Nat.eqb].
    replace (S r - 1) with r by lia.
    destruct (Nat.leb_spec ci (ci + r * vstride v + 1)); [|lia].
    destruct (Nat.leb_spec (ci + r * vstride v + 1) (len (vw v))); [|lia].
    cbn [andb bind]. unfold usub. destruct (Nat.leb_spec 1 (vstride v)); [|lia]. cbn [bind].
    eexists. split; [reflexivity|]. apply Hgoal; [|reflexivity]. f_equal. lia.
  - unfold get_range. fold ci. cbn [Nat.eqb].
    replace (S r - 1) with r by lia.
    destruct (Nat.leb_spec ci (ci + r * vstride v + 1)); [|lia].
    destruct (Nat.leb_spec (ci + r * vstride v + 1) (len (vw v))); [|lia].
    cbn [andb bind]. unfold usub. destruct (Nat.leb_spec 1 (vstride v)); [|lia]. cbn [bind].
    eexists. split; [reflexivity|]. apply Hgoal; [|reflexivity]. f_equal. lia.
  - unfold get_range. fold ci. cbn [Nat.eqb].
    replace (S r - 1) with r by lia.
    destruct (Nat.leb_spec ci (ci + r * vstride v + 1)); [|lia].
    destruct (Nat.leb_spec (ci + r * vstride v + 1) (len (vw v))); [|lia].
    cbn [andb bind]. unfold usub. destruct (Nat.leb_spec 1 (vstride v)); [|lia]. cbn [bind].
    eexists. split; [reflexivity|]. apply Hgoal; [|reflexivity]. f_equal. lia.
Qed.

Lemma v_col_reject k v (c : N) : (N.of_nat (vcols v) <= c)%N -> v_col k v c = Panic.
Proof.
  intros H. unfold v_col, assert. destruct (N.ltb_spec c (N.of_nat (vcols v))); [lia|reflexivity].
Qed.

(** * C03: [view] / [view_mut] *)
Definition window_valid (p : view) (s0 s1 e0 e1 : N) : Prop :=
  (s0 <= e0)%N /\ (s1 <= e1)%N /\ (e0 <= N.of_nat (vcols p))%N /\ (e1 <= N.of_nat (vrows p))%N.

(** the window the caller asked for: size [end - start] or (0,0), cell (c,r) is the parent's
    cell (s0 + c, s1 + r) *)
Definition requested (p : view) (s0 s1 e0 e1 : N) : view :=
  let nc := N.to_nat e0 - N.to_nat s0 in
  let nr := N.to_nat e1 - N.to_nat s1 in
  if (nc =? 0) || (nr =? 0) then mkView (mkSl (off (vw p)) 0) 0 0 (vstride p)
  else mkView (mkSl (off (vw p) + N.to_nat s1 * vstride p + N.to_nat s0)
                    ((nr - 1) * vstride p + nc)) nc nr (vstride p).

Theorem view_of_ok k mu p s0 s1 e0 e1 :
  wf_view p -> window_valid p s0 s1 e0 e1 ->
  view_of k mu p s0 s1 e0 e1 = Ok (requested p s0 s1 e0 e1) /\
  wf_view (requested p s0 s1 e0 e1).
Proof.
  intros [Hw H] [H0 [H1 [H2 H3]]]. unfold view_of, calc_view_dims, assert, requested.
  destruct (N.leb_spec s0 e0); [|lia]. destruct (N.leb_spec s1 e1); [|lia].
  destruct (N.leb_spec e0 (N.of_nat (vcols p))); [|lia].
  destruct (N.leb_spec e1 (N.of_nat (vrows p))); [|lia]. cbn [bind].
  assert (Hstride : vcols p <= vstride p).
  { destruct (vrows p); [lia|]. lia. }
  destruct (Nat.leb_spec (vcols p) (vstride p)); [|lia]. cbn [bind].
  set (nc := N.to_nat e0 - N.to_nat s0). set (nr := N.to_nat e1 - N.to_nat s1).
  destruct (Nat.eqb_spec nc 0) as [Enc|Enc]; cbn [orb].
  - cbn [Nat.eqb bind]. rewrite Nat.add_0_r.
    assert (Hr : forall (f : sl -> nat -> nat -> res sl), (f = get_range \/ f = index_range) ->
                 f (vw p) 0 0 = Ok (mkSl (off (vw p)) 0)).
    { intros f [-> | ->]; unfold get_range, index_range; cbn; rewrite Nat.add_0_r; reflexivity. }
    split.
    + destruct k, mu; cbn [bind]; rewrite ?(Hr get_range), ?(Hr index_range) by auto; reflexivity.
    + split; cbn; [unfold W; lia|auto].
  - destruct (Nat.eqb_spec nr 0) as [Enr|Enr].
    + cbn [Nat.eqb bind]. rewrite Nat.add_0_r.
      assert (Hr : forall (f : sl -> nat -> nat -> res sl), (f = get_range \/ f = index_range) ->
                   f (vw p) 0 0 = Ok (mkSl (off (vw p)) 0)).
      { intros f [-> | ->]; unfold get_range, index_range; cbn; rewrite Nat.add_0_r; reflexivity. }
      split.
      * destruct k, mu; cbn [bind]; rewrite ?(Hr get_range), ?(Hr index_range) by auto; reflexivity.
      * split; cbn; [unfold W; lia|auto].
    + destruct (Nat.eqb_spec nr 0); [lia|].
      destruct (vrows p) as [|R'] eqn:ER; [lia|]. destruct H as [Hc [Hs Hl]].
      set (ds := N.to_nat s1 * vstride p + N.to_nat s0).
      set (dl := (nr - 1) * vstride p + nc).
      assert (Hfit : ds + dl <= len (vw p)).
      { rewrite Hl. subst ds dl nc nr.
        assert (N.to_nat s1 + (N.to_nat e1 - N.to_nat s1 - 1) <= R') by lia.
        assert ((N.to_nat s1 + (N.to_nat e1 - N.to_nat s1 - 1)) * vstride p <= R' * vstride p)
          by (apply Nat.mul_le_mono_r; assumption).
        lia. }
      assert (Hr : forall (f : sl -> nat -> nat -> res sl), (f = get_range \/ f = index_range) ->
                   f (vw p) ds (ds + dl) = Ok (mkSl (off (vw p) + ds) dl)).
      { intros f [-> | ->]; unfold get_range, index_range;
          (destruct (Nat.leb_spec ds (ds + dl)); [|lia]);
          (destruct (Nat.leb_spec (ds + dl) (len (vw p))); [|lia]); cbn [andb];
          repeat f_equal; lia. }
      split.
      * destruct k, mu; cbn [bind]; rewrite ?(Hr get_range), ?(Hr index_range) by auto;
          cbn [bind]; subst ds; rewrite ?Nat.add_assoc; reflexivity.
      * split; cbn [vw vcols vrows vstride len]; [lia|].
        destruct nr as [|nr']; [lia|]. split; [lia|]. split; [lia|].
        subst dl. replace (S nr' - 1) with nr' by lia. reflexivity.
Qed.

(** any other start/end panics - and no unchecked range is ever taken *)
Theorem view_of_reject k mu p s0 s1 e0 e1 :
  wf_view p ->
  ((e0 < s0)%N \/ (e1 < s1)%N \/ (N.of_nat (vcols p) < e0)%N \/ (N.of_nat (vrows p) < e1)%N) ->
  view_of k mu p s0 s1 e0 e1 = Panic.
Proof.
  intros _ H. unfold view_of, calc_view_dims, assert.
  destruct (N.leb_spec s0 e0); [|reflexivity]. destruct (N.leb_spec s1 e1); [|reflexivity].
  destruct (N.leb_spec e0 (N.of_nat (vcols p))); [|reflexivity].
  destruct (N.leb_spec e1 (N.of_nat (vrows p))); [|reflexivity]. lia.
Qed.

(** cell (c, r) of the window is the parent's cell (s0 + c, s1 + r) *)
Lemma requested_cell p s0 s1 e0 e1 c r :
  N.to_nat e0 - N.to_nat s0 <> 0 -> N.to_nat e1 - N.to_nat s1 <> 0 ->
  v_cell (requested p s0 s1 e0 e1) c r = v_cell p (N.to_nat s0 + c) (N.to_nat s1 + r).
Proof.
  intros Hc Hr. unfold requested, v_cell.
  destruct (Nat.eqb_spec (N.to_nat e0 - N.to_nat s0) 0); [lia|].
  destruct (Nat.eqb_spec (N.to_nat e1 - N.to_nat s1) 0); [lia|].
  cbn [orb vw vstride off]. lia.
Qed.

Lemma requested_size p s0 s1 e0 e1 :
  (vcols (requested p s0 s1 e0 e1), vrows (requested p s0 s1 e0 e1)) =
  let nc := N.to_nat e0 - N.to_nat s0 in
  let nr := N.to_nat e1 - N.to_nat s1 in
  if (nc =? 0) || (nr =? 0) then (0, 0) else (nc, nr).
Proof. unfold requested. cbn zeta. destruct (_ || _); reflexivity. Qed.

(** every cell of a well-formed receiver lies inside its window, and distinct coordinates
    are distinct cells *)
Lemma v_cell_inside v c r : wf_view v -> c < vcols v -> r < vrows v ->
  off (vw v) <= v_cell v c r < off (vw v) + len (vw v).
Proof.
  intros [_ H] Hc Hr. unfold v_cell. destruct (vrows v) as [|R']; [lia|].
  destruct H as [_ [Hs Hl]]. rewrite Hl.
  assert (r * vstride v <= R' * vstride v) by (apply Nat.mul_le_mono_r; lia). lia.
Qed.

Lemma v_cell_inj v c r c' r' : wf_view v -> c < vcols v -> c' < vcols v ->
  v_cell v c r = v_cell v c' r' -> c = c' /\ r = r'.
Proof.
  intros [_ H] Hc Hc' E. unfold v_cell in E.
  destruct (vrows v) as [|R'].
  - lia.
  - destruct H as [_ [Hs _]].
    assert (r = r'); [|subst; lia].
    destruct (Nat.lt_trichotomy r r') as [Hlt|[Heq|Hgt]]; auto.
    + assert ((r + 1) * vstride v <= r' * vstride v) by (apply Nat.mul_le_mono_r; lia). lia.
    + assert ((r' + 1) * vstride v <= r * vstride v) by (apply Nat.mul_le_mono_r; lia). lia.
Qed.

(** the row windows of a receiver are pairwise disjoint (what makes rows_mut sound) *)
Lemma view_rows_disjoint v r1 r2 w1 w2 : wf_view v -> r1 < r2 ->
  nth_error (view_rows v) r1 = Some w1 -> nth_error (view_rows v) r2 = Some w2 ->
  off w1 + len w1 <= off w2.
Proof.
  intros [_ H] Hlt. unfold view_rows. rewrite !nth_error_map, !nth_error_seq.
  destruct (Nat.ltb_spec r1 (vrows v)); [|discriminate].
  destruct (Nat.ltb_spec r2 (vrows v)); [|discriminate].
  cbn [option_map]. intros E1 E2. inversion E1; inversion E2; subst. cbn [off len].
  destruct (vrows v) as [|R']; [lia|]. destruct H as [_ [Hs _]].
  assert ((r1 + 1) * vstride v <= r2 * vstride v) by (apply Nat.mul_le_mono_r; lia). lia.
Qed.

(** * views built directly over a slice *)
Theorem view_new_ok (c r : N) slen :
  ((c = 0 <-> r = 0))%N -> (c * r < W)%N -> (c * r <= N.of_nat slen)%N ->
  view_new c r slen = Ok (mkView (mkSl 0 (N.to_nat (c * r))) (N.to_nat c) (N.to_nat r) (N.to_nat c)) /\
  wf_view (mkView (mkSl 0 (N.to_nat (c * r))) (N.to_nat c) (N.to_nat r) (N.to_nat c)).
Proof.
  intros Hz Hw Hl. unfold view_new, checked_mul, assert.
  assert (Hzr : (if (c =? 0)%N || (r =? 0)%N then (if (r =? c)%N then Ok tt else Panic) else Ok tt) = Ok tt).
  { destruct (N.eqb_spec c 0), (N.eqb_spec r 0); cbn [orb]; auto;
      destruct (N.eqb_spec r c); auto; lia. }
  rewrite Hzr. cbn [bind]. destruct (N.ltb_spec (c * r) W); [|lia].
  destruct (N.leb_spec (c * r) (N.of_nat slen)); [|lia]. cbn [bind]. split; [reflexivity|].
  split; cbn [vw vcols vrows vstride len]; [lia|].
  destruct (N.to_nat r) as [|r'] eqn:Er.
  - split; [lia|]. assert (r = 0)%N by lia. subst r. lia.
  - split; [lia|]. split; [lia|]. nia.
Qed.

Theorem view_new_reject (c r : N) slen :
  ~ ((c = 0 <-> r = 0))%N \/ (W <= c * r)%N \/ (N.of_nat slen < c * r)%N ->
  view_new c r slen = Panic.
Proof.
  intros H. unfold view_new, checked_mul, assert.
  destruct (N.eqb_spec c 0), (N.eqb_spec r 0); cbn [orb].
  - subst. cbn [bind]. destruct H as [H|[H|H]]; [tauto|unfold W in H; lia|lia].
  - destruct (N.eqb_spec r c); [lia|reflexivity].
  - destruct (N.eqb_spec r c); [lia|reflexivity].
  - cbn [bind]. destruct (N.ltb_spec (c * r) W).
    + destruct (N.leb_spec (c * r) (N.of_nat slen)); [|reflexivity].
      destruct H as [H|[H|H]]; [tauto|lia|lia].
    + reflexivity.
Qed.
