(** C05, every step: for each fault-free operation of the history machine (honest
    iterators, drains dropped after any consumption, element destructors that panic during
    the step included) what the array owns afterwards plus what the step dropped is a
    permutation of what it owned before plus what was supplied; nothing is leaked. *)
From Coq Require Import Permutation.
From TD Require Import Base.Prelude Base.Codec Spec.Grid Spec.Inv Spec.HistSpec Model.Iter Model.Flatten
  Model.Owned Model.Access Model.Hist Proofs.ListLemmas Proofs.InsertRow Proofs.InsertCol
  Proofs.RemoveRow Proofs.RemoveCol Proofs.HistInv Proofs.Ledger.

Section Steps.
Context {A : Type}.
Implicit Type t : toodee A.

Definition ledger_ok t (xs : list A) (r : opres A) : Prop :=
  Permutation (data (o_td r) ++ o_dropped r) (data t ++ xs) /\ o_leaked r = [].

Lemma honest_eq (s : iter_script A) :
  (claimed s = N.of_nat (length (items s))) -> panic_at s = None -> s = honest_script (items s).
Proof. destruct s as [c i p]. cbn. intros -> ->. reflexivity. Qed.

(** insert_row with an honest iterator, any index in N, any capacity limit *)
Lemma insert_row_honest_ledger dbg cap spare t (index : N) xs : Inv t ->
  exists r, insert_row dbg cap spare t index (honest_script xs) = Ok r /\ ledger_ok t xs r.
Proof.
  intros Hi. pose proof Hi as [Hl Hz].
  destruct (N.leb_spec index (N.of_nat (num_rows t))) as [Hle|Hgt].
  2:{ rewrite insert_row_reject by (left; exact Hgt). eexists. split; [reflexivity|].
      split; [cbn; apply Permutation_refl|reflexivity]. }
  destruct (Nat.eq_dec (num_rows t) 0) as [Hr0|Hrn]; [|destruct (Nat.eq_dec (length xs) (num_cols t)) as [Hw|Hw]].
  3:{ rewrite insert_row_reject by (right; split; assumption). eexists. split; [reflexivity|].
      split; [cbn; apply Permutation_refl|reflexivity]. }
  all: destruct (N.leb_spec (N.of_nat (length (data t)) + N.of_nat (length xs)) cap) as [Hcap|Hcap].
  all: try (replace index with (N.of_nat (N.to_nat index)) by lia;
            destruct (insert_row_ledger dbg cap spare t (N.to_nat index) xs Hi ltac:(lia) ltac:(tauto) Hcap)
              as [r [E [_ [Hd [Hk Hp]]]]];
            exists r; split; [exact E|]; split; [rewrite Hd, app_nil_r; exact Hp|exact Hk]).
  (* the reservation would exceed the capacity limit: rejected before anything moved *)
  all: unfold insert_row, honest_script; cbn [items claimed];
       destruct (N.leb_spec index (N.of_nat (num_rows t))); [|lia]; cbn [negb].
  - destruct (Nat.eqb_spec (num_rows t) 0); [|lia]. unfold reserve_ok.
    destruct (N.leb_spec (N.of_nat (length (data t)) + N.of_nat (length xs)) cap); [lia|]. cbn [negb].
    eexists. split; [reflexivity|]. split; [cbn; apply Permutation_refl|reflexivity].
  - destruct (Nat.eqb_spec (num_rows t) 0); [lia|]. rewrite Hw, N.eqb_refl. unfold reserve_ok. rewrite <- Hw.
    destruct (N.leb_spec (N.of_nat (length (data t)) + N.of_nat (length xs)) cap); [lia|]. cbn [negb].
    eexists. split; [reflexivity|]. split; [cbn; apply Permutation_refl|reflexivity].
Qed.

(** insert_col likewise *)
Lemma insert_col_honest_ledger dbg cap spare t (index : N) xs : Inv t ->
  exists r, insert_col dbg cap spare t index (honest_script xs) = Ok r /\ ledger_ok t xs r.
Proof.
  intros Hi. pose proof Hi as [Hl Hz].
  destruct (N.leb_spec index (N.of_nat (num_cols t))) as [Hle|Hgt].
  2:{ rewrite insert_col_reject by (left; exact Hgt). eexists. split; [reflexivity|].
      split; [cbn; apply Permutation_refl|reflexivity]. }
  destruct (Nat.eq_dec (num_cols t) 0) as [Hc0|Hcn]; [|destruct (Nat.eq_dec (length xs) (num_rows t)) as [Hw|Hw]].
  3:{ rewrite insert_col_reject by (right; split; assumption). eexists. split; [reflexivity|].
      split; [cbn; apply Permutation_refl|reflexivity]. }
  all: destruct (N.leb_spec (N.of_nat (length (data t)) + N.of_nat (length xs)) cap) as [Hcap|Hcap].
  all: try (replace index with (N.of_nat (N.to_nat index)) by lia;
            destruct (insert_col_accept dbg cap spare t (N.to_nat index) xs Hi ltac:(lia) ltac:(tauto) Hcap)
              as [d' [E [Hld Hn]]];
            eexists; split; [exact E|]; split; [|reflexivity]; cbn [o_td o_dropped]; rewrite app_nil_r;
            assert (Hdata : length (data t) = num_cols t * length xs)
              by (rewrite Hl; first [rewrite Hc0; lia | rewrite Hw; reflexivity]);
            pose proof (insert_col_rows (data t) xs d' (num_cols t) (N.to_nat index) ltac:(lia) Hdata Hld Hn) as Hrows;
            destruct (chunks_uniform (num_cols t) (length xs) (data t) Hdata) as [Hu Hcl];
            assert (Hperm : Permutation d' (data t ++ xs));
            [rewrite Hrows; eapply Permutation_trans;
               [apply insert_cols_perm; [lia|eapply Forall_impl; [|exact Hu]; intros row Hrow; cbn beta in Hrow; lia]
               |rewrite (concat_chunks (num_cols t) (length xs) (data t) Hdata); apply Permutation_refl]
            |destruct (0 <? length xs); exact Hperm]).
  all: unfold insert_col, honest_script; cbn [items claimed];
       destruct (N.leb_spec index (N.of_nat (num_cols t))); [|lia]; cbn [negb].
  - destruct (Nat.eqb_spec (num_cols t) 0); [|lia]. unfold reserve_ok.
    destruct (N.leb_spec (N.of_nat (length (data t)) + N.of_nat (length xs)) cap); [lia|]. cbn [negb].
    eexists. split; [reflexivity|]. split; [cbn; apply Permutation_refl|reflexivity].
  - destruct (Nat.eqb_spec (num_cols t) 0); [lia|]. rewrite Hw, N.eqb_refl. unfold reserve_ok. rewrite <- Hw.
    destruct (N.leb_spec (N.of_nat (length (data t)) + N.of_nat (length xs)) cap); [lia|]. cbn [negb].
    eexists. split; [reflexivity|]. split; [cbn; apply Permutation_refl|reflexivity].
Qed.

Definition drain_ledger_ok t (r : drainres A) : Prop :=
  Permutation (data (d_td r) ++ d_escaped r ++ d_dropped r) (data t) /\ d_leaked r = [].

Lemma remove_row_drop_ledger t (index : N) steps : Inv t ->
  exists r, remove_row t index steps DropIt = Ok r /\ drain_ledger_ok t r.
Proof.
  intros Hi. destruct (N.ltb_spec index (N.of_nat (num_rows t))) as [Hlt|Hge].
  - replace index with (N.of_nat (N.to_nat index)) by lia.
    destruct (remove_row_ledger t (N.to_nat index) steps DropIt Hi ltac:(lia)) as [r [E [Hp Hk]]].
    exists r. split; [exact E|]. specialize (Hk eq_refl). split; [|exact Hk].
    rewrite Hk, app_nil_r in Hp. exact Hp.
  - rewrite (remove_row_reject t index steps DropIt Hge). eexists. split; [reflexivity|].
    split; [cbn; rewrite app_nil_r; apply Permutation_refl|reflexivity].
Qed.

Lemma remove_col_drop_ledger t (index : N) steps : Inv t -> (N.of_nat (length (data t)) < W)%N ->
  exists r, remove_col t index steps DropIt = Ok r /\ drain_ledger_ok t r.
Proof.
  intros Hi Hw. pose proof Hi as [Hl Hz].
  destruct (N.ltb_spec index (N.of_nat (num_cols t))) as [Hlt|Hge].
  - replace index with (N.of_nat (N.to_nat index)) by lia.
    destruct (remove_col_dropped t (N.to_nat index) steps Hi ltac:(lia) Hw) as [d [E [Hld Hn]]].
    eexists. split; [exact E|]. split; [|reflexivity]. cbn [d_td d_escaped d_dropped].
    pose proof (remove_col_conserves (data t) d (num_cols t) (num_rows t) (N.to_nat index) ltac:(lia) Hl Hld Hn) as Hc.
    pose proof (run_vec_drain_conserves steps (vals (data t) (col_cells (num_cols t) (num_rows t) (N.to_nat index)))) as Hy.
    destruct (run_vec_drain steps _) as [[obs y] rem]. cbn [fst snd].
    assert (Hd : Permutation (d ++ y ++ rem) (data t)).
    { eapply Permutation_trans; [apply Permutation_app_head; exact Hy|exact Hc]. }
    destruct (0 <? num_cols t - 1); exact Hd.
  - rewrite (remove_col_reject t index steps DropIt Hge). eexists. split; [reflexivity|].
    split; [cbn; rewrite app_nil_r; apply Permutation_refl|reflexivity].
Qed.

End Steps.

(** * the history machine *)
(** what a step whose Clone / Default fuse fires was given: the value(s) handed in plus the
    clones / defaults that were made before the panic *)
Definition fuse_given (h : hstate) (kind k : nat) (o : hop) : list elt :=
  match kind, o with
  | 0, HInit _ _ v => repeat v (S k)
  | 0, HFill v => repeat v (S k)
  | 0, HClone => firstn k (data (h_td h))
  | 0, HCloneFrom _ _ d => d ++ firstn k d
  | 1, HNew _ _ => fresh_seq (h_fresh h) k
  | _, _ => []
  end.

Fixpoint supplied (cf : hconf) (h : hstate) (o : hop) : list elt :=
  let t := h_td h in
  match o with
  | HBomb _ o' => supplied cf h o'
  | HFuse kind k o' =>
      if negb (cf_track cf) then supplied cf h o'
      else match fuse_fires cf h kind k o' with
           | Some _ => fuse_given h kind k o'
           | None => supplied cf h o'
           end
  | HCloneFrom c r d =>
      if zero_rule_ok c r && match checked_mul c r with Some p => (p =? N.of_nat (length d))%N | None => false end
      then d ++ d else d
  | HFromVec _ _ d => d
  | HNew c r =>
      if zero_rule_ok c r then
        match checked_mul c r with
        | Some p => if (p <=? cf_cap cf)%N
                    then (if cf_track cf then fresh_seq (h_fresh h) (N.to_nat p) else repeat 0%N (N.to_nat p))
                    else []
        | None => []
        end
      else []
  | HInit c r v =>
      if zero_rule_ok c r then
        match checked_mul r c with
        | Some p => if (p <=? cf_cap cf)%N then repeat v (Nat.max 1 (N.to_nat p)) else [v]
        | None => [v]
        end
      else [v]
  | HInsertRow _ s | HPushRow s | HInsertCol _ s | HPushCol s => items s
  | HSetCell _ _ v => [v]
  | HFill v => repeat v (Nat.max 1 (length (data t)))
  | HClone => data t
  | _ => []
  end.

Lemma perm_swap_app {X} (a b : list X) : Permutation (a ++ b) (b ++ a).
Proof. apply Permutation_app_comm. Qed.

Lemma honest_true s : honest s = true -> s = honest_script (items s).
Proof.
  unfold honest. intros H. apply Bool.andb_true_iff in H. destruct H as [H1 H2].
  apply N.eqb_eq in H1. apply honest_eq; [exact H1|]. destruct (panic_at s); [discriminate|reflexivity].
Qed.

Theorem hstep_ledger cf : forall o h h' ob,
  Inv (h_td h) -> (N.of_nat (length (data (h_td h))) < W)%N -> fault_free_op o = true ->
  hstep cf h o = Ok (h', ob) ->
  Permutation (data (h_td h') ++ ob_dropped ob) (data (h_td h) ++ supplied cf h o) /\ ob_leaked ob = [].
Proof.
  induction o as [c r d|c r|c r v| |idx s|s|idx s|s|idx steps fin|steps fin|idx steps fin|steps fin
                  | | | |c r v|v| | |k| |k o IH|kind k o IH|c r d]; intros h h' ob Hi Hw Hff H; cbn [hstep supplied] in *.
  - (* from_vec *)
    destruct (negb (zero_rule_ok c r)); [inversion H; subst; cbn; split; [apply Permutation_refl|reflexivity]|].
    destruct (checked_mul c r); [|inversion H; subst; cbn; split; [apply Permutation_refl|reflexivity]].
    destruct (n =? N.of_nat (length d))%N; inversion H; subst; cbn [h_td data ob_dropped ob_leaked];
      (split; [|reflexivity]); [apply Permutation_app_comm|apply Permutation_refl].
  - (* new *)
    destruct (zero_rule_ok c r); cbn [negb] in H; [|inversion H; subst; cbn; rewrite !app_nil_r; split; [apply Permutation_refl|reflexivity]].
    destruct (checked_mul c r); [|inversion H; subst; cbn; rewrite !app_nil_r; split; [apply Permutation_refl|reflexivity]].
    destruct (n <=? cf_cap cf)%N; cbn [negb] in H; inversion H; subst; cbn [h_td data ob_dropped ob_leaked].
    + split; [apply Permutation_app_comm|reflexivity].
    + rewrite !app_nil_r. split; [apply Permutation_refl|reflexivity].
  - (* init *)
    assert (Hrej : forall hh, Permutation (data (h_td hh) ++ [v]) (data (h_td hh) ++ [v])) by (intros; apply Permutation_refl).
    destruct (zero_rule_ok c r); cbn [negb] in H; [|inversion H; subst; cbn; split; [apply Permutation_refl|reflexivity]].
    destruct (checked_mul r c) as [p|]; [|inversion H; subst; cbn; split; [apply Permutation_refl|reflexivity]].
    destruct (p <=? cf_cap cf)%N; cbn [negb] in H; inversion H; subst; cbn [h_td data ob_dropped ob_leaked];
      [|split; [apply Permutation_refl|reflexivity]].
    split; [|reflexivity]. destruct (N.eqb_spec p 0) as [Hp0|Hp].
    + replace (N.to_nat p) with 0 by lia. cbn. apply Permutation_refl.
    + rewrite app_nil_r. replace (Nat.max 1 (N.to_nat p)) with (N.to_nat p) by lia. apply Permutation_app_comm.
  - inversion H; subst; cbn. rewrite app_nil_r. split; [apply Permutation_refl|reflexivity].
  - (* insert_row *)
    rewrite (honest_true s Hff) in H. cbn [items honest_script].
    destruct (insert_row_honest_ledger (cf_dbg cf) (cf_cap cf) (cf_spare cf) (h_td h) idx (items s) Hi) as [r [E [Hp Hk]]].
    unfold of_opres in H. rewrite E in H. cbn [bind] in H. inversion H; subst; cbn [h_td ob_dropped ob_leaked].
    split; [exact Hp|exact Hk].
  - rewrite (honest_true s Hff) in H. cbn [items honest_script].
    destruct (insert_row_honest_ledger (cf_dbg cf) (cf_cap cf) (cf_spare cf) (h_td h) (N.of_nat (num_rows (h_td h))) (items s) Hi) as [r [E [Hp Hk]]].
    unfold of_opres in H. rewrite E in H. cbn [bind] in H. inversion H; subst; cbn [h_td ob_dropped ob_leaked].
    split; [exact Hp|exact Hk].
  - rewrite (honest_true s Hff) in H. cbn [items honest_script].
    destruct (insert_col_honest_ledger (cf_dbg cf) (cf_cap cf) (cf_spare cf) (h_td h) idx (items s) Hi) as [r [E [Hp Hk]]].
    unfold of_opres in H. rewrite E in H. cbn [bind] in H. inversion H; subst; cbn [h_td ob_dropped ob_leaked].
    split; [exact Hp|exact Hk].
  - rewrite (honest_true s Hff) in H. cbn [items honest_script].
    destruct (insert_col_honest_ledger (cf_dbg cf) (cf_cap cf) (cf_spare cf) (h_td h) (N.of_nat (num_cols (h_td h))) (items s) Hi) as [r [E [Hp Hk]]].
    unfold of_opres in H. rewrite E in H. cbn [bind] in H. inversion H; subst; cbn [h_td ob_dropped ob_leaked].
    split; [exact Hp|exact Hk].
  - (* remove_row *)
    destruct fin; [|discriminate].
    destruct (remove_row_drop_ledger (h_td h) idx steps Hi) as [r [E [Hp Hk]]].
    unfold of_drainres in H. rewrite E in H. cbn [bind] in H. inversion H; subst; cbn [h_td ob_dropped ob_leaked].
    rewrite app_nil_r. split; [exact Hp|exact Hk].
  - destruct fin; [|discriminate]. destruct (num_rows (h_td h) =? 0).
    + inversion H; subst; cbn. rewrite !app_nil_r. split; [apply Permutation_refl|reflexivity].
    + destruct (remove_row_drop_ledger (h_td h) (N.of_nat (num_rows (h_td h) - 1)) steps Hi) as [r [E [Hp Hk]]].
      unfold of_drainres in H. rewrite E in H. cbn [bind] in H. inversion H; subst; cbn [h_td ob_dropped ob_leaked].
      rewrite app_nil_r. split; [exact Hp|exact Hk].
  - (* remove_col *)
    destruct fin; [|discriminate].
    destruct (remove_col_drop_ledger (h_td h) idx steps Hi Hw) as [r [E [Hp Hk]]].
    unfold of_drainres in H. rewrite E in H. cbn [bind] in H. inversion H; subst; cbn [h_td ob_dropped ob_leaked].
    rewrite app_nil_r. split; [exact Hp|exact Hk].
  - destruct fin; [|discriminate]. destruct (num_cols (h_td h) =? 0).
    + inversion H; subst; cbn. rewrite !app_nil_r. split; [apply Permutation_refl|reflexivity].
    + destruct (remove_col_drop_ledger (h_td h) (N.of_nat (num_cols (h_td h) - 1)) steps Hi Hw) as [r [E [Hp Hk]]].
      unfold of_drainres in H. rewrite E in H. cbn [bind] in H. inversion H; subst; cbn [h_td ob_dropped ob_leaked].
      rewrite app_nil_r. split; [exact Hp|exact Hk].
  - inversion H; subst; cbn. rewrite !app_nil_r. split; [apply Permutation_refl|reflexivity].
  - inversion H; subst; cbn. rewrite !app_nil_r. split; [apply Permutation_refl|reflexivity].
  - inversion H; subst; cbn. rewrite !app_nil_r. split; [apply Permutation_refl|reflexivity].
  - (* indexed write *)
    destruct (td_index_coord (h_td h) c r) as [i| |] eqn:Ei; try discriminate.
    + destruct (nth_error (data (h_td h)) i) as [old|] eqn:Eo; [|discriminate].
      inversion H; subst; cbn [h_td data ob_dropped ob_leaked]. split; [|reflexivity].
      apply upd_perm. exact Eo.
    + inversion H; subst; cbn. split; [apply Permutation_refl|reflexivity].
  - (* fill *)
    inversion H; subst; cbn [h_td data ob_dropped ob_leaked]. split; [|reflexivity].
    destruct (Nat.eqb_spec (length (data (h_td h))) 0) as [E0|En].
    + apply length_zero_iff_nil in E0. rewrite E0. cbn. apply Permutation_refl.
    + rewrite app_nil_r. replace (Nat.max 1 (length (data (h_td h)))) with (length (data (h_td h))) by lia.
      apply Permutation_app_comm.
  - inversion H; subst; cbn. split; [apply Permutation_refl|reflexivity].
  - inversion H; subst; cbn. rewrite !app_nil_r. split; [apply Permutation_refl|reflexivity].
  - inversion H; subst; cbn. rewrite !app_nil_r. split; [apply Permutation_refl|reflexivity].
  - inversion H; subst; cbn. rewrite !app_nil_r. split; [apply Permutation_refl|reflexivity].
  - (* a destructor panics during the step: same array, same drops *)
    destruct (hstep cf h o) as [[h1 ob1]| |] eqn:E; cbn [bind] in H; try discriminate.
    cbn [fault_free_op] in Hff. destruct (IH h h1 ob1 Hi Hw Hff E) as [Hp Hk].
    destruct (negb (cf_track cf)); inversion H; subst; cbn [ob_dropped ob_leaked]; split; assumption.
  - (* a Clone / Default fuse is a fault *)
    discriminate.
  - (* clone_from: the old cells and the source are dropped, the clones stay *)
    destruct (zero_rule_ok c r); cbn [negb andb] in *; [|inversion H; subst; cbn; split; [apply Permutation_refl|reflexivity]].
    destruct (checked_mul c r); [|inversion H; subst; cbn; split; [apply Permutation_refl|reflexivity]].
    destruct (n =? N.of_nat (length d))%N; inversion H; subst; cbn [h_td data ob_dropped ob_leaked];
      (split; [|reflexivity]); [|apply Permutation_refl].
    rewrite !app_assoc. apply Permutation_app_tail. apply Permutation_app_comm.
Qed.

(** * whole histories *)
Fixpoint supplied_all (cf : hconf) (h : hstate) (ops : list hop) (l : list (hstate * hobs)) : list elt :=
  match ops, l with
  | o :: ops', (h', _) :: l' => supplied cf h o ++ supplied_all cf h' ops' l'
  | _, _ => []
  end.
Definition dropped_all (l : list (hstate * hobs)) : list elt := concat (map (fun p => ob_dropped (snd p)) l).
Definition final_state (h : hstate) (l : list (hstate * hobs)) : hstate := last (map fst l) h.

Lemma last_cons_local {X} : forall (l : list X) a d, last (a :: l) d = last l a.
Proof.
  induction l as [|x t IH]; intros a d; [reflexivity|].
  change (last (a :: x :: t) d) with (last (x :: t) d). rewrite (IH x d), (IH x a). reflexivity.
Qed.

Theorem hrun_ledger cf : forall ops h l,
  Inv (h_td h) -> (N.of_nat (length (data (h_td h))) < W)%N ->
  forallb fault_free_op ops = true ->
  hrun cf h ops = Ok l ->
  Forall (fun p => (N.of_nat (length (data (h_td (fst p)))) < W)%N) l ->
  Permutation (data (h_td (final_state h l)) ++ dropped_all l) (data (h_td h) ++ supplied_all cf h ops l)
  /\ total_leaked l = 0.
Proof.
  induction ops as [|o ops IH]; intros h l Hi Hw Hff H Hall; cbn [hrun] in H.
  - inversion H; subst. cbn. rewrite !app_nil_r. split; [apply Permutation_refl|reflexivity].
  - cbn [forallb] in Hff. apply Bool.andb_true_iff in Hff. destruct Hff as [Hf1 Hf2].
    destruct (hstep cf h o) as [[h1 ob1]| |] eqn:E; cbn [bind fst] in H; try discriminate.
    destruct (hrun cf h1 ops) as [rest| |] eqn:E2; cbn [bind] in H; try discriminate.
    inversion H; subst l. clear H. inversion Hall as [|? ? Hw1 Hall']; subst. cbn [fst] in Hw1.
    destruct (hstep_ledger cf o h h1 ob1 Hi Hw Hf1 E) as [Hp1 Hk1].
    destruct (IH h1 rest (hstep_inv cf o h h1 ob1 Hi E) Hw1 Hf2 E2 Hall') as [Hp2 Hk2].
    split.
    + unfold final_state, dropped_all in *. cbn [map concat supplied_all snd fst].
      assert (Hlast : last (h1 :: map fst rest) h = last (map fst rest) h1) by apply last_cons_local.
      rewrite Hlast.
      (* final ++ (d1 ++ drest)  ~  data h ++ (s1 ++ srest) *)
      eapply Permutation_trans.
      { rewrite app_assoc. eapply Permutation_trans; [apply Permutation_app_tail; apply Permutation_app_comm|].
        rewrite <- app_assoc. apply Permutation_app_head. exact Hp2. }
      rewrite app_assoc. eapply Permutation_trans; [apply Permutation_app_tail; apply Permutation_app_comm|].
      eapply Permutation_trans; [apply Permutation_app_tail; exact Hp1|].
      rewrite <- !app_assoc. apply Permutation_refl.
    + unfold total_leaked in *. cbn [fold_right snd]. rewrite Hk1. cbn [length]. exact Hk2.
Qed.
