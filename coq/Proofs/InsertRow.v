(** insert_row (C06): the raw-pointer routine places the new row exactly. *)
From TD Require Import Base.Prelude Spec.Grid Spec.Inv Model.Iter Model.Owned Proofs.ListLemmas.

Section InsertRow.
Context {A : Type}.

Lemma script_next_honest (xs : list A) c k x :
  nth_error xs k = Some x -> script_next (mkScript c xs None) k = Yield x.
Proof. unfold script_next; simpl. intros ->. reflexivity. Qed.

Lemma script_next_done (xs : list A) c k :
  length xs <= k -> script_next (mkScript c xs None) k = Done.
Proof. unfold script_next; simpl. intros H. rewrite nth_error_ge_None; auto. Qed.

Lemma insert_row_loop_honest (xs : list A) c todo : forall k p (m : list (option A)),
  p + todo <= length m -> k + todo <= length xs ->
  insert_row_loop (mkScript c xs None) todo k p m
  = Ok (firstn p m ++ map Some (slice k todo xs) ++ skipn (p + todo) m, true, k + todo).
Proof.
  induction todo as [|todo IH]; intros k p m Hp Hk.
  - cbn [insert_row_loop]. unfold slice. rewrite firstn_O. cbn [map app].
    rewrite !Nat.add_0_r, firstn_skipn. reflexivity.
  - cbn [insert_row_loop].
    destruct (nth_error_lt_Some xs k) as [x Hx]; [lia|].
    rewrite (script_next_honest _ _ _ _ Hx).
    unfold ptr_write. destruct (Nat.ltb_spec p (length m)); [|lia].
    cbn [bind]. rewrite IH by (rewrite ?upd_length; lia).
    f_equal. f_equal; [|lia]. f_equal.
    apply list_ext; intros i. nth_rw.
    case_cmp; fin.
    replace (k + (i - Nat.min p (length m))) with k by lia. rewrite Hx. reflexivity.
Qed.

Definition honest_script (xs : list A) : iter_script A :=
  mkScript (N.of_nat (length xs)) xs None.

(** the buffer after [reserve]: the data followed by at least [n] free slots *)
Lemma reserve_shape (d : list A) spare n :
  exists k, n <= k /\ reserve_slots (to_slots d spare) (length d) n = map Some d ++ repeat None k.
Proof.
  unfold reserve_slots, to_slots. rewrite <- app_assoc, <- repeat_app.
  eexists; split; [|reflexivity].
  rewrite app_length, map_length, repeat_length. lia.
Qed.

(** shifting the tail by [nc] and writing [xs] into the gap *)
Lemma shift_and_fill (d xs : list A) k start :
  start <= length d -> length xs <= k ->
  let m0 := map Some d ++ repeat None k in
  exists m1,
    ptr_copy start (start + length xs) (length d - start) m0 = Ok m1 /\
    length m1 = length m0 /\
    firstn (length d + length xs)
      (firstn start m1 ++ map Some (slice 0 (length xs) xs) ++ skipn (start + length xs) m1)
    = map Some (firstn start d ++ xs ++ skipn start d).
Proof.
  intros Hs Hk m0.
  assert (Hl : length m0 = length d + k) by (unfold m0; nth_rw; reflexivity).
  destruct (ptr_copy_ok start (start + length xs) (length d - start) m0) as [m1 E]; try lia.
  exists m1. split; [exact E|].
  apply ptr_copy_spec in E. destruct E as [Hl1 Hn]. split; [exact Hl1|].
  apply list_ext; intros i.
  rewrite nth_error_firstn, !nth_error_app, nth_error_firstn, nth_error_skipn.
  rewrite !Hn. rewrite firstn_length, !map_length, slice_length', nth_error_map, nth_error_slice.
  rewrite nth_error_map, !nth_error_app, nth_error_firstn, nth_error_skipn, firstn_length.
  unfold m0. rewrite !nth_error_app, !map_length, !nth_error_map, !nth_error_repeat'.
  case_cmp; fin.
  rewrite nth_error_ge_None by lia. reflexivity.
Qed.

Lemma owned_prefix_firstn (m : list (option A)) n (d : list A) :
  n <= length m -> firstn n m = map Some d -> owned_prefix m n = Some d.
Proof.
  intros Hn E. unfold owned_prefix. destruct (Nat.leb_spec n (length m)); [|lia].
  rewrite E. apply all_some_map_Some.
Qed.

(** C06, rows, accepted calls: the result is the original with the new row at [idx] *)
Theorem insert_row_accept dbg cap spare (t : toodee A) idx xs :
  Inv t -> idx <= num_rows t -> (num_rows t = 0 \/ length xs = num_cols t) ->
  (N.of_nat (length (data t)) + N.of_nat (length xs) <= cap)%N ->
  insert_row dbg cap spare t (N.of_nat idx) (honest_script xs) =
  Ok (mkOp (if length xs =? 0 then mkTD [] 0 0
            else mkTD (firstn (idx * length xs) (data t) ++ xs ++ skipn (idx * length xs) (data t))
                      (num_rows t + 1) (length xs))
           true [] []).
Proof.
  intros [Hlen Hz] Hidx Hw Hcap.
  unfold insert_row, honest_script. cbn [items claimed].
  destruct (N.leb_spec (N.of_nat idx) (N.of_nat (num_rows t))) as [_|]; [|lia]. cbn [negb].
  assert (Hwidth : (if num_rows t =? 0 then Some (N.of_nat (length xs))
                    else if (N.of_nat (num_cols t) =? N.of_nat (length xs))%N
                         then Some (N.of_nat (length xs)) else None) = Some (N.of_nat (length xs))).
  { destruct (Nat.eqb_spec (num_rows t) 0); auto.
    destruct Hw as [|Hw]; [lia|]. rewrite Hw, N.eqb_refl. reflexivity. }
  rewrite Hwidth. unfold reserve_ok.
  destruct (N.leb_spec (N.of_nat (length (data t)) + N.of_nat (length xs)) cap); [|lia]. cbn [negb].
  rewrite !Nat2N.id.
  set (nc := length xs). set (start := idx * nc).
  assert (Hstart : start <= length (data t)).
  { subst start nc. destruct Hw as [Hr|Hw]; [assert (idx = 0) by lia; subst; lia|].
    rewrite Hw, Hlen. rewrite Nat.mul_comm. apply Nat.mul_le_mono_l. exact Hidx. }
  unfold usub. destruct (Nat.leb_spec start (length (data t))); [|lia]. cbn [bind].
  destruct (reserve_shape (data t) spare nc) as [k [Hk ->]].
  destruct (shift_and_fill (data t) xs k start Hstart Hk) as [m1 [E [Hl1 Hfin]]].
  fold nc in E, Hfin. rewrite E. cbn [bind].
  assert (Hm1 : length m1 = length (data t) + k).
  { rewrite Hl1. nth_rw. reflexivity. }
  rewrite insert_row_loop_honest by (fold nc; lia). cbn [bind negb].
  rewrite Nat.add_0_l.
  assert (Hdone : script_next (mkScript (N.of_nat nc) xs None) nc = Done)
    by (apply script_next_done; subst nc; lia).
  rewrite Hdone.
  assert (Hunc : unconsumed (mkScript (N.of_nat nc) xs None) nc = []).
  { unfold unconsumed; cbn [items]. apply skipn_all. }
  rewrite Hunc.
  assert (Hop : owned_prefix (firstn start m1 ++ map Some (slice 0 nc xs) ++ skipn (start + nc) m1)
                             (length (data t) + nc)
                = Some (firstn start (data t) ++ xs ++ skipn start (data t))).
  { apply owned_prefix_firstn; [|exact Hfin]. nth_rw. subst nc start. lia. }
  assert (Hfinal : (if nc =? 0 then mkTD (firstn start (data t) ++ xs ++ skipn start (data t)) idx
                                         (if idx =? 0 then 0 else num_cols t)
                    else mkTD (firstn start (data t) ++ xs ++ skipn start (data t)) (num_rows t + 1) nc)
                   = (if nc =? 0 then mkTD [] 0 0
                      else mkTD (firstn start (data t) ++ xs ++ skipn start (data t)) (num_rows t + 1) nc)).
  { destruct (Nat.eqb_spec nc 0) as [Hz0|Hnz]; [|reflexivity].
    assert (Hr0 : num_rows t = 0).
    { destruct Hw as [|Hw]; auto. apply Hz. subst nc. lia. }
    assert (Hd0 : data t = []).
    { apply length_zero_iff_nil. rewrite Hlen, Hr0. lia. }
    assert (idx = 0) by lia. subst idx.
    assert (Hx0 : xs = []) by (apply length_zero_iff_nil; exact Hz0).
    subst start. rewrite Hd0, Hx0. cbn. reflexivity. }
  destruct dbg; rewrite Hop, Hfinal; reflexivity.
Qed.

(** rejected calls: nothing changes, the supplied items are dropped *)
Theorem insert_row_reject dbg cap spare (t : toodee A) (index : N) xs :
  (N.of_nat (num_rows t) < index)%N \/ (num_rows t <> 0 /\ length xs <> num_cols t) ->
  insert_row dbg cap spare t index (honest_script xs) = Ok (mkOp t false xs []).
Proof.
  intros H. unfold insert_row, honest_script. cbn [items claimed].
  destruct (N.leb_spec index (N.of_nat (num_rows t))) as [Hle|Hgt]; cbn [negb]; [|reflexivity].
  destruct H as [H|[Hr Hl]]; [lia|].
  destruct (Nat.eqb_spec (num_rows t) 0); [lia|].
  destruct (N.eqb_spec (N.of_nat (num_cols t)) (N.of_nat (length xs))); [lia|reflexivity].
Qed.

(** the flat layout read as a grid *)
Lemma firstn_add (l : list A) a b : firstn (a + b) l = firstn a l ++ firstn b (skipn a l).
Proof.
  revert l; induction a as [|a IH]; intros [|x l]; cbn [firstn skipn app Nat.add]; auto.
  - rewrite firstn_nil. reflexivity.
  - rewrite IH. reflexivity.
Qed.

Lemma skipn_add (l : list A) a b : skipn (a + b) l = skipn b (skipn a l).
Proof.
  revert l; induction a as [|a IH]; intros [|x l]; cbn [skipn Nat.add]; auto.
  rewrite skipn_nil. reflexivity.
Qed.

Lemma chunks_insert_row C (xs : list A) : length xs = C ->
  forall i R d, i <= R -> length d = C * R ->
  chunks (R + 1) C (firstn (i * C) d ++ xs ++ skipn (i * C) d) = insert_at i xs (chunks R C d).
Proof.
  intros Hx. induction i as [|i IH]; intros R d Hi Hd.
  - cbn [Nat.mul firstn skipn app]. rewrite Nat.add_1_r. cbn [chunks].
    rewrite firstn_app, skipn_app, Hx, Nat.sub_diag, firstn_all2, skipn_all2 by lia.
    cbn [firstn skipn]. rewrite app_nil_r. cbn [app]. destruct (chunks R C d); reflexivity.
  - destruct R as [|R]; [lia|].
    cbn [Nat.add chunks insert_at].
    assert (HC : C <= length d) by (rewrite Hd; nia).
    replace (S i * C) with (C + i * C) by lia.
    rewrite firstn_add, skipn_add, <- app_assoc.
    rewrite firstn_app, skipn_app, firstn_length, Nat.min_l, Nat.sub_diag by lia.
    rewrite firstn_firstn, Nat.min_id. cbn [firstn skipn]. rewrite app_nil_r.
    rewrite skipn_all2 by (rewrite firstn_length; lia). cbn [app].
    f_equal. apply IH; [lia|]. rewrite skipn_length, Hd. nia.
Qed.

Corollary insert_row_grid (t : toodee A) idx xs :
  Inv t -> idx <= num_rows t -> length xs = num_cols t -> 0 < num_cols t ->
  to_grid (mkTD (firstn (idx * length xs) (data t) ++ xs ++ skipn (idx * length xs) (data t))
                (num_rows t + 1) (length xs))
  = insert_at idx xs (to_grid t).
Proof.
  intros [Hl _] Hi Hx Hc. unfold to_grid, g_of_data. cbn [data num_rows num_cols].
  rewrite Hx. apply chunks_insert_row; auto.
Qed.

End InsertRow.
