(** C09: [Col]/[ColMut] are the row cursor with one-cell rows; every theorem about the row
    cursor transfers. *)
From TD Require Import Base.Prelude Model.Iter Spec.Ideal Proofs.ListLemmas Proofs.RowsSim.

Definition col_as_rows (it : col_it) : rows_it := mkRows (cv it) 1 (cskip it).
Definition rows_as_col (it : rows_it) : col_it := mkCol (rv it) (rskip it).

Definition lift_cell (r : res (option sl * rows_it)) : res (option nat * col_it) :=
  p <- r ;; Ok (option_map off (fst p), rows_as_col (snd p)).

Ltac split_ifs :=
  repeat (match goal with
          | |- context [if ?a <=? ?b then _ else _] => destruct (Nat.leb_spec a b)
          | |- context [if ?a =? ?b then _ else _] => destruct (Nat.eqb_spec a b)
          end; cbn [bind len off fst snd option_map rows_set col_set rv rcols rskip cv cskip]);
  try reflexivity; try lia.

Lemma col_next_refines it : col_next it = lift_cell (rows_next (col_as_rows it)).
Proof.
  unfold col_next, rows_next, lift_cell, col_as_rows, rows_as_col, sl_is_empty, split_at, get_from.
  cbn [rv rcols rskip len off bind]. destruct it as [[o l] sk]. cbn [cv cskip len off].
  split_ifs.
Qed.

Lemma col_next_back_refines it : col_next_back it = lift_cell (rows_next_back (col_as_rows it)).
Proof.
  unfold col_next_back, rows_next_back, lift_cell, col_as_rows, rows_as_col, sl_is_empty, usub,
    split_at, get_to.
  cbn [rv rcols rskip len off bind]. destruct it as [[o l] sk]. cbn [cv cskip len off].
  split_ifs.
Qed.

Lemma col_nth_refines it n : col_nth it n = lift_cell (rows_nth (col_as_rows it) n).
Proof.
  unfold col_nth, rows_nth, col_as_rows. cbn [rv rcols rskip].
  destruct (overflowing_mul n (N.of_nat (1 + cskip it))) as [st ov].
  destruct ((N.of_nat (len (cv it)) <=? st)%N || ov).
  - apply (col_next_refines (col_set it sl_empty)).
  - unfold split_at. destruct (N.to_nat st <=? len (cv it)); [|reflexivity].
    cbn [bind snd]. apply (col_next_refines (col_set it _)).
Qed.

Lemma col_nth_back_refines it n : col_nth_back it n = lift_cell (rows_nth_back (col_as_rows it) n).
Proof.
  unfold col_nth_back, rows_nth_back, col_as_rows. cbn [rv rcols rskip].
  destruct (overflowing_mul n (N.of_nat (1 + cskip it))) as [st ov].
  destruct ((N.of_nat (len (cv it)) <=? st)%N || ov).
  - apply (col_next_back_refines (col_set it sl_empty)).
  - destruct (usub (len (cv it)) (N.to_nat st)) as [k| |]; try reflexivity. cbn [bind].
    destruct (get_to (cv it) k) as [v'| |]; try reflexivity. cbn [bind].
    apply (col_next_back_refines (col_set it v')).
Qed.

Lemma col_len_refines it : col_len it = rows_len (col_as_rows it).
Proof.
  unfold col_len, rows_len, col_as_rows. cbn [rv rcols rskip Nat.eqb].
  rewrite Nat.div_1_r. reflexivity.
Qed.

(** the simulation relation for columns: the remaining cells, top to bottom *)
Definition col_sim (it : col_it) (l : list nat) : Prop :=
  exists rows, rows_sim (col_as_rows it) rows /\ l = map off rows.

Lemma map_i_next {X Y} (f : X -> Y) l :
  i_next (map f l) = (option_map f (fst (i_next l)), map f (snd (i_next l))).
Proof. destruct l; reflexivity. Qed.
Lemma map_i_next_back {X Y} (f : X -> Y) l :
  i_next_back (map f l) = (option_map f (fst (i_next_back l)), map f (snd (i_next_back l))).
Proof.
  unfold i_next_back. rewrite <- map_rev. destruct (rev l); cbn; [reflexivity|].
  rewrite map_rev. reflexivity.
Qed.
Lemma map_i_nth {X Y} (f : X -> Y) n l :
  i_nth n (map f l) = (option_map f (fst (i_nth n l)), map f (snd (i_nth n l))).
Proof.
  unfold i_nth. rewrite map_length. destruct (N.of_nat (length l) <=? n)%N; [reflexivity|].
  rewrite skipn_map. apply map_i_next.
Qed.
Lemma map_i_nth_back {X Y} (f : X -> Y) n l :
  i_nth_back n (map f l) = (option_map f (fst (i_nth_back n l)), map f (snd (i_nth_back n l))).
Proof.
  unfold i_nth_back. rewrite map_length. destruct (N.of_nat (length l) <=? n)%N; [reflexivity|].
  rewrite firstn_map. apply map_i_next_back.
Qed.

Lemma col_as_rows_as_col it : rcols it = 1 -> col_as_rows (rows_as_col it) = it.
Proof. destruct it; cbn. intros ->. reflexivity. Qed.

(** the row-cursor operations keep [cols] *)
Lemma rows_next_cols i r : rows_next i = Ok r -> rcols (snd r) = rcols i.
Proof.
  unfold rows_next. destruct (sl_is_empty (rv i)); [intros E; inversion E; reflexivity|].
  destruct (split_at (rv i) (rcols i)) as [[a b]| |]; cbn [bind]; try discriminate.
  destruct (sl_is_empty b); [intros E; inversion E; reflexivity|].
  destruct (get_from b (rskip i)); cbn [bind]; try discriminate.
  intros E; inversion E; reflexivity.
Qed.
Lemma rows_next_back_cols i r : rows_next_back i = Ok r -> rcols (snd r) = rcols i.
Proof.
  unfold rows_next_back. destruct (sl_is_empty (rv i)); [intros E; inversion E; reflexivity|].
  destruct (usub (len (rv i)) (rcols i)) as [k| |]; cbn [bind]; try discriminate.
  destruct (split_at (rv i) k) as [[a b]| |]; cbn [bind]; try discriminate.
  destruct (sl_is_empty a); [intros E; inversion E; reflexivity|].
  destruct (usub (len a) (rskip i)) as [k2| |]; cbn [bind]; try discriminate.
  destruct (get_to a k2); cbn [bind]; try discriminate.
  intros E; inversion E; reflexivity.
Qed.
Lemma rows_nth_cols n i r : rows_nth i n = Ok r -> rcols (snd r) = rcols i.
Proof.
  unfold rows_nth. destruct (overflowing_mul n _) as [st ov].
  destruct (_ || _).
  - intros E. apply rows_next_cols in E. exact E.
  - destruct (split_at (rv i) (N.to_nat st)) as [p| |]; cbn [bind]; try discriminate.
    intros E. apply rows_next_cols in E. exact E.
Qed.
Lemma rows_nth_back_cols n i r : rows_nth_back i n = Ok r -> rcols (snd r) = rcols i.
Proof.
  unfold rows_nth_back. destruct (overflowing_mul n _) as [st ov].
  destruct (_ || _).
  - intros E. apply rows_next_back_cols in E. exact E.
  - destruct (usub (len (rv i)) (N.to_nat st)) as [k| |]; cbn [bind]; try discriminate.
    destruct (get_to (rv i) k); cbn [bind]; try discriminate.
    intros E. apply rows_next_back_cols in E. exact E.
Qed.

Section Transfer.
(** one generic transfer lemma: a row-cursor operation with its ideal counterpart *)
Variable rop : rows_it -> res (option sl * rows_it).
Variable cop : col_it -> res (option nat * col_it).
Variable iop_r : list sl -> option sl * list sl.
Variable iop_c : list nat -> option nat * list nat.
Hypothesis refines : forall it, cop it = lift_cell (rop (col_as_rows it)).
Hypothesis keeps : forall i r, rop i = Ok r -> rcols (snd r) = rcols i.
Hypothesis rsim : forall it l, rows_sim it l ->
  exists it', rop it = Ok (fst (iop_r l), it') /\ rows_sim it' (snd (iop_r l)).
Hypothesis imap : forall l,
  iop_c (map off l) = (option_map off (fst (iop_r l)), map off (snd (iop_r l))).

Lemma col_transfer it l : col_sim it l ->
  exists it', cop it = Ok (fst (iop_c l), it') /\ col_sim it' (snd (iop_c l)).
Proof.
  intros [rows [Hs ->]]. destruct (rsim _ _ Hs) as [it' [E Hs']].
  exists (rows_as_col it'). rewrite refines, E. unfold lift_cell. cbn [bind fst snd].
  rewrite imap. cbn [fst snd]. split; [reflexivity|].
  exists (snd (iop_r rows)). split; [|reflexivity].
  rewrite col_as_rows_as_col; [exact Hs'|].
  apply keeps in E. cbn in E. exact E.
Qed.
End Transfer.

Lemma col_sim_next it l : col_sim it l ->
  exists it', col_next it = Ok (fst (i_next l), it') /\ col_sim it' (snd (i_next l)).
Proof.
  apply (col_transfer rows_next col_next i_next i_next col_next_refines rows_next_cols
           rows_sim_next (map_i_next off)).
Qed.
Lemma col_sim_next_back it l : col_sim it l ->
  exists it', col_next_back it = Ok (fst (i_next_back l), it') /\ col_sim it' (snd (i_next_back l)).
Proof.
  apply (col_transfer rows_next_back col_next_back i_next_back i_next_back col_next_back_refines
           rows_next_back_cols rows_sim_next_back (map_i_next_back off)).
Qed.
Lemma col_sim_nth it l n : col_sim it l ->
  exists it', col_nth it n = Ok (fst (i_nth n l), it') /\ col_sim it' (snd (i_nth n l)).
Proof.
  apply (col_transfer (fun i => rows_nth i n) (fun i => col_nth i n) (i_nth n) (i_nth n)
           (fun i => col_nth_refines i n) (rows_nth_cols n)
           (fun i l => rows_sim_nth i l n) (map_i_nth off n)).
Qed.
Lemma col_sim_nth_back it l n : col_sim it l ->
  exists it', col_nth_back it n = Ok (fst (i_nth_back n l), it') /\ col_sim it' (snd (i_nth_back n l)).
Proof.
  apply (col_transfer (fun i => rows_nth_back i n) (fun i => col_nth_back i n)
           (i_nth_back n) (i_nth_back n)
           (fun i => col_nth_back_refines i n) (rows_nth_back_cols n)
           (fun i l => rows_sim_nth_back i l n) (map_i_nth_back off n)).
Qed.
Lemma col_sim_len it l : col_sim it l -> col_len it = length l.
Proof.
  intros [rows [Hs ->]]. rewrite col_len_refines, map_length. apply rows_sim_len. exact Hs.
Qed.

(** indexing the remaining column: [it[i]], for every [i : N] (repaired code: checked_mul) *)
Lemma col_index_ok it l (i : N) : col_sim it l ->
  col_index it i = match i_index i l with Some x => Ok x | None => Panic end.
Proof.
  intros [rows [[k [[Hw H] <-]] ->]]. unfold col_index, i_index, checked_mul.
  rewrite map_length, rows_abs_length. cbn [col_as_rows rv rcols rskip] in *.
  set (D := 1 + cskip it) in *.
  destruct (N.ltb_spec i (N.of_nat k)) as [Hlt|Hge].
  - destruct k as [|k]; [lia|]. destruct H as [_ H].
    set (m := N.to_nat i). assert (Hm : m <= k) by lia.
    assert (HmD : m * D <= k * D) by (apply Nat.mul_le_mono_r; exact Hm).
    assert (Hprod : (i * N.of_nat D = N.of_nat (m * D))%N) by (subst m; lia).
    rewrite Hprod.
    destruct (N.ltb_spec (N.of_nat (m * D)) W); [|lia].
    destruct (N.ltb_spec (N.of_nat (m * D)) (N.of_nat (len (cv it)))); [|lia].
    rewrite nth_error_map, rows_abs_nth by lia. cbn [option_map off rv rcols rskip].
    rewrite Nat2N.id. reflexivity.
  - assert (Hlen : (N.of_nat (len (cv it)) <= i * N.of_nat D)%N).
    { destruct k as [|k]; [lia|]. destruct H as [_ H]. subst D. nia. }
    destruct (N.ltb_spec (i * N.of_nat D) W); [|reflexivity].
    destruct (N.ltb_spec (i * N.of_nat D) (N.of_nat (len (cv it)))); [lia|reflexivity].
Qed.

(** fold: repeated next *)
Lemma col_collect_ok fuel : forall it l,
  col_sim it l -> length l < fuel -> col_collect fuel it = Ok l.
Proof.
  induction fuel as [|f IH]; intros it l Hs Hl; [lia|].
  cbn [col_collect]. destruct (col_sim_next it l Hs) as [it' [E Hs']].
  rewrite E. cbn [bind]. destruct l as [|x l]; cbn [i_next fst snd] in *.
  - reflexivity.
  - rewrite (IH it' l Hs') by (cbn in Hl; lia). reflexivity.
Qed.
Lemma col_fold_ok it l : col_sim it l -> col_fold it = Ok l.
Proof.
  intros Hs. apply col_collect_ok; [exact Hs|].
  destruct Hs as [rows [Hr ->]]. rewrite map_length.
  pose proof (rows_sim_len_le _ _ Hr). cbn in H. lia.
Qed.
