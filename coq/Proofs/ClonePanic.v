(** C11 for clone_from_slice / clone_from_toodee: when the k-th Clone panics, for every k,
    the buffer has the length it had, no cell outside the receiver changed, and every cell of
    the receiver holds either the element it held before or the element the source supplied
    for that cell. *)
From TD Require Import Base.Prelude Model.Iter Model.View Model.Ops
  Proofs.ViewGeom Proofs.Frame Proofs.OpsProofs Proofs.CopyProofs.

Lemma fold_upd_spec (b' : buf) : forall (l : list nat) (acc : buf),
  (forall i, In i l -> i < length acc) -> length b' = length acc ->
  let r := fold_left (fun a i => match nth_error b' i with Some x => upd i x a | None => a end) l acc in
  length r = length acc /\
  forall i, nth_error r i = if existsb (Nat.eqb i) l then nth_error b' i else nth_error acc i.
Proof.
  induction l as [|a tl IH]; intros acc Hin Hlen; cbn [fold_left existsb].
  - split; [reflexivity|]. intros; reflexivity.
  - assert (Ha : a < length acc) by (apply Hin; left; reflexivity).
    destruct (nth_error b' a) as [x|] eqn:Ex; [|apply nth_error_None in Ex; lia].
    destruct (IH (upd a x acc)) as [L Nn].
    + intros i Hi. rewrite upd_length. apply Hin. right. exact Hi.
    + rewrite upd_length. exact Hlen.
    + rewrite upd_length in L. split; [exact L|]. intros i. rewrite Nn.
      destruct (existsb (Nat.eqb i) tl) eqn:Et; [rewrite Bool.orb_true_r; reflexivity|].
      rewrite Bool.orb_false_r. destruct (Nat.eqb_spec i a) as [->|Hne].
      * rewrite nth_error_upd_eq by exact Ha. symmetry. exact Ex.
      * apply nth_error_upd_neq. congruence.
Qed.

Lemma In_firstn_local {X} (x : X) k : forall l, In x (firstn k l) -> In x l.
Proof.
  induction k as [|k IH]; intros [|y l] H; cbn [firstn] in H; try contradiction.
  destruct H as [->|H]; [left; reflexivity|right; apply IH; exact H].
Qed.

Lemma recv_cells_in v i : In i (recv_cells v) -> in_view v i.
Proof.
  unfold recv_cells. intros H. apply in_flat_map in H. destruct H as [r [Hr H]].
  apply in_map_iff in H. destruct H as [c [<- Hc]]. apply in_seq in Hr, Hc.
  exists c, r. repeat split; lia.
Qed.

Lemma in_view_lt v b i : wf_view v -> fits v b -> in_view v i -> i < length b.
Proof.
  intros Hwf Hb Hi. apply in_view_row in Hi. destruct Hi as [r [Hr Hin]].
  pose proof (row_win_fits v b r Hwf Hb Hr) as F. unfold in_win in Hin. cbn [row_win off len] in *.
  apply Bool.andb_true_iff in Hin. destruct Hin as [_ H2]. apply Nat.ltb_lt in H2. lia.
Qed.

(** the general statement: [b'] is the buffer the completed call leaves *)
Theorem partial_clone_spec v b b' k : wf_view v -> fits v b -> length b' = length b ->
  (forall i, ~ in_view v i -> nth_error b' i = nth_error b i) ->
  let p := partial_clone b b' (recv_cells v) k in
  length p = length b /\
  (forall i, ~ in_view v i -> nth_error p i = nth_error b i) /\
  (forall i, nth_error p i = nth_error b i \/ nth_error p i = nth_error b' i).
Proof.
  intros Hwf Hb Hlen Hout p. unfold p, partial_clone.
  destruct (fold_upd_spec b' (firstn k (recv_cells v)) b) as [L Nn].
  - intros i Hi. apply (in_view_lt v b i Hwf Hb). apply recv_cells_in. eapply In_firstn_local; exact Hi.
  - exact Hlen.
  - split; [exact L|]. split.
    + intros i Hi. rewrite Nn. destruct (existsb (Nat.eqb i) (firstn k (recv_cells v))); [apply Hout; exact Hi|reflexivity].
    + intros i. rewrite Nn. destruct (existsb (Nat.eqb i) (firstn k (recv_cells v))); [right|left]; reflexivity.
Qed.

(** clone_from_slice, all three implementations, any k *)
Theorem clone_from_slice_panic_safe rk v b (src : list N) k : wf_view v -> fits v b ->
  (rk = KOwned -> vstride v = vcols v) -> length src = vcols v * vrows v ->
  exists b', op_copy_from_slice rk v b src = Ok b' /\
    let p := partial_clone b b' (recv_cells v) k in
    length p = length b /\
    (forall i, ~ in_view v i -> nth_error p i = nth_error b i) /\
    (forall c r, c < vcols v -> r < vrows v ->
       nth_error p (v_cell v c r) = nth_error b (v_cell v c r) \/
       nth_error p (v_cell v c r) = nth_error src (r * vcols v + c)).
Proof.
  intros Hwf Hb Hk Hlen.
  destruct (op_copy_from_slice_spec rk v b src Hwf Hb Hk Hlen) as [b' [E [L [Nout Nin]]]].
  exists b'. split; [exact E|].
  destruct (partial_clone_spec v b b' k Hwf Hb L Nout) as [L' [Nout' Ncell]].
  split; [exact L'|]. split; [exact Nout'|].
  intros c r Hc Hr. destruct (Ncell (v_cell v c r)) as [H|H]; [left; exact H|right].
  rewrite H. apply Nin; assumption.
Qed.

(** clone_from_toodee, any k *)
Theorem clone_from_toodee_panic_safe rk v b (srows : list (list N)) k : wf_view v -> fits v b ->
  (rk = KOwned -> vstride v = vcols v) ->
  length srows = vrows v -> Forall (fun r => length r = vcols v) srows ->
  exists b', op_copy_from_toodee rk v b (vcols v, vrows v) srows = Ok b' /\
    let p := partial_clone b b' (recv_cells v) k in
    length p = length b /\
    (forall i, ~ in_view v i -> nth_error p i = nth_error b i) /\
    (forall c r s, c < vcols v -> nth_error srows r = Some s ->
       nth_error p (v_cell v c r) = nth_error b (v_cell v c r) \/
       nth_error p (v_cell v c r) = nth_error s c).
Proof.
  intros Hwf Hb Hk Hrows Hall.
  destruct (op_copy_from_toodee_spec rk v b srows Hwf Hb Hk Hrows Hall) as [b' [E [L [Nout Nin]]]].
  exists b'. split; [exact E|].
  destruct (partial_clone_spec v b b' k Hwf Hb L Nout) as [L' [Nout' Ncell]].
  split; [exact L'|]. split; [exact Nout'|].
  intros c r s Hc Hs. destruct (Ncell (v_cell v c r)) as [H|H]; [left; exact H|right].
  rewrite H. apply (Nin c r s Hc Hs).
Qed.
