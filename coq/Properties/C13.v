(** C13 - swap and fill primitives change exactly the named cells.
    [k] ranges over the implementors whose code differs: KOwned (TooDee's overrides),
    KViewMut (TooDeeViewMut's swap_rows override, trait defaults otherwise), KThird / KView
    (trait defaults only).  [b] is the root buffer, [v] the receiver's window into it,
    [v_cell v c r] the buffer index of its cell (c, r). *)
From TD Require Import Base.Prelude Model.Iter Model.View Model.Ops
  Proofs.ViewGeom Proofs.Frame Proofs.OpsProofs.

(** fill: every cell of the receiver becomes the value, nothing else changes *)
Theorem C13_fill :
  forall k v b x, wf_view v -> fits v b -> (k = KOwned -> vstride v = vcols v) ->
  exists b', op_fill k v b x = Ok b' /\ length b' = length b /\
    (forall i, ~ in_view v i -> nth_error b' i = nth_error b i) /\
    (forall c r, c < vcols v -> r < vrows v -> nth_error b' (v_cell v c r) = Some x).
Proof. exact op_fill_spec. Qed.
Print Assumptions C13_fill.

(** swap_rows, all three implementations, in range (equal indices: identity) *)
Theorem C13_swap_rows :
  forall k v b (r1 r2 : N), wf_view v -> fits v b -> (k = KOwned -> vstride v = vcols v) ->
  (r1 < N.of_nat (vrows v))%N -> (r2 < N.of_nat (vrows v))%N ->
  exists b', op_swap_rows k v b r1 r2 = Ok b' /\ length b' = length b /\
    (forall i, ~ in_view v i -> nth_error b' i = nth_error b i) /\
    (forall c r, c < vcols v -> r < vrows v ->
       nth_error b' (v_cell v c r) = nth_error b (v_cell v c (swap_idx_of (N.to_nat r1) (N.to_nat r2) r))).
Proof. exact op_swap_rows_spec. Qed.
Print Assumptions C13_swap_rows.

(** any out-of-range row index - every [N], including the equal-indices case - panics (the
    buffer is not returned: nothing was written) *)
Theorem C13_swap_rows_out_of_range :
  forall k v b (r1 r2 : N), wf_view v ->
  (N.of_nat (vrows v) <= r1)%N \/ (N.of_nat (vrows v) <= r2)%N -> op_swap_rows k v b r1 r2 = Panic.
Proof. exact op_swap_rows_reject. Qed.
Print Assumptions C13_swap_rows_out_of_range.

Theorem C13_swap_cols :
  forall v b (c1 c2 : N), wf_view v -> fits v b ->
  (c1 < N.of_nat (vcols v))%N -> (c2 < N.of_nat (vcols v))%N ->
  exists b', op_swap_cols v b c1 c2 = Ok b' /\ length b' = length b /\
    (forall i, ~ in_view v i -> nth_error b' i = nth_error b i) /\
    (forall c r, c < vcols v -> r < vrows v ->
       nth_error b' (v_cell v c r) = nth_error b (v_cell v (swap_idx_of (N.to_nat c1) (N.to_nat c2) c) r)).
Proof. exact op_swap_cols_spec. Qed.
Print Assumptions C13_swap_cols.

Theorem C13_swap_cols_out_of_range :
  forall v b (c1 c2 : N),
  (N.of_nat (vcols v) <= c1)%N \/ (N.of_nat (vcols v) <= c2)%N -> op_swap_cols v b c1 c2 = Panic.
Proof. exact op_swap_cols_reject. Qed.
Print Assumptions C13_swap_cols_out_of_range.

(** swap of two cells: exactly those two buffer indices exchange their contents *)
Theorem C13_swap :
  forall k v b (c1 r1 c2 r2 : N), wf_view v -> fits v b ->
  (c1 < N.of_nat (vcols v))%N -> (r1 < N.of_nat (vrows v))%N ->
  (c2 < N.of_nat (vcols v))%N -> (r2 < N.of_nat (vrows v))%N ->
  exists b', op_swap k v b c1 r1 c2 r2 = Ok b' /\
    swap_cells_post b b' (v_cell v (N.to_nat c1) (N.to_nat r1)) (v_cell v (N.to_nat c2) (N.to_nat r2)).
Proof. exact op_swap_spec. Qed.
Print Assumptions C13_swap.

Theorem C13_swap_out_of_range :
  forall k v b (c1 r1 c2 r2 : N), wf_view v ->
  (N.of_nat (vcols v) <= c1)%N \/ (N.of_nat (vrows v) <= r1)%N \/
  (N.of_nat (vcols v) <= c2)%N \/ (N.of_nat (vrows v) <= r2)%N ->
  op_swap k v b c1 r1 c2 r2 = Panic.
Proof. exact op_swap_reject. Qed.
Print Assumptions C13_swap_out_of_range.

(** row_pair_mut: the two rows' slices, in argument order; they are disjoint *)
Theorem C13_row_pair :
  forall v (r1 r2 : N), wf_view v ->
  (r1 < N.of_nat (vrows v))%N -> (r2 < N.of_nat (vrows v))%N -> r1 <> r2 ->
  op_row_pair v r1 r2 = Ok (row_win v (N.to_nat r1), row_win v (N.to_nat r2)).
Proof. exact op_row_pair_spec. Qed.
Print Assumptions C13_row_pair.

Theorem C13_row_pair_rejects :
  forall v (r1 r2 : N),
  (N.of_nat (vrows v) <= r1)%N \/ (N.of_nat (vrows v) <= r2)%N \/ r1 = r2 ->
  op_row_pair v r1 r2 = Panic.
Proof. exact op_row_pair_reject. Qed.
Print Assumptions C13_row_pair_rejects.

Theorem C13_rows_disjoint :
  forall v r1 r2, wf_view v -> r1 < r2 -> r2 < vrows v ->
  off (row_win v r1) + len (row_win v r1) <= off (row_win v r2).
Proof. exact row_wins_disjoint. Qed.
Print Assumptions C13_rows_disjoint.

(** non-vacuity: a 2x3 window (stride 4) at offset 5 of a 16-cell buffer *)
Example C13_example :
  let v := mkView (mkSl 5 10) 2 3 4 in
  let b := map N.of_nat (seq 0 16) in
  wf_view v /\ fits v b /\
  op_swap_rows KViewMut v b 0 2 = Ok (map N.of_nat [0;1;2;3;4;13;14;7;8;9;10;11;12;5;6;15]) /\
  op_swap_rows KThird v b 2 0 = Ok (map N.of_nat [0;1;2;3;4;13;14;7;8;9;10;11;12;5;6;15]) /\
  op_swap_rows KViewMut v b 3 3 = Panic /\
  op_swap KThird v b 1 0 0 2 = Ok (map N.of_nat [0;1;2;3;4;5;13;7;8;9;10;11;12;6;14;15]).
Proof. split; [split; cbn; [unfold W; lia|lia]|split; [unfold fits; cbn; lia|repeat split; vm_compute; reflexivity]]. Qed.
