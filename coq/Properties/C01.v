(** C01 - array dimensions always agree with its contents. *)
From TD Require Import Base.Prelude Spec.Grid Spec.Inv Model.Iter Model.Flatten Model.Owned
  Model.Access Model.Hist Spec.HistSpec Proofs.HistInv Proofs.GridRefine.

(** one step of ANY public operation of the history machine - constructors, insert / push /
    remove / pop of rows and columns with any iterator script (honest, lying about its
    length, ending early, panicking at any call) and any drain script (consumed to any
    extent from either end, then dropped or leaked), clear, swap_dimensions, capacity
    calls, indexed writes, fill, clone, conversions, with valid or invalid arguments
    (any [N]), in either build mode - keeps the shape invariant
    [len(data) = cols*rows /\ (cols = 0 <-> rows = 0)] *)
Theorem C01_step_keeps_shape :
  forall cf o h h' ob, Inv (h_td h) -> hstep cf h o = Ok (h', ob) -> Inv (h_td h').
Proof. exact hstep_inv. Qed.
Print Assumptions C01_step_keeps_shape.

(** hence every state of every finite history, of any length, from the empty array *)
Theorem C01_history_keeps_shape :
  forall cf ops l, hrun cf h_init ops = Ok l -> Forall (fun p => Inv (h_td (fst p))) l.
Proof. intros cf ops l. apply hrun_inv. exact h_init_inv. Qed.
Print Assumptions C01_history_keeps_shape.

(** ... and behaves as the plain rows-of-cells model: for every state satisfying the
    invariant, every operation and arguments (any [N]), wherever the plain model [g_step]
    specifies the step - constructors, insert / push with honest iterators, remove / pop with
    drains consumed to any extent and dropped, clear, swap_dimensions, indexed writes, fill,
    clone, clone_from, conversions, and every rejected call - the array accepts or rejects
    as the plain model does, returns the same values (a drain's yields = the ideal run over
    the removed line), and its buffer read as rows of [num_cols] cells IS the plain model's
    grid afterwards.  [g_step] is also the specification the run-time oracle evaluates on
    the implementation's observations.  Side conditions are physical: buffers shorter than
    2^64 elements, reservations within the allocator's limit ([cap_ok]) *)
Theorem C01_step_refines_plain_model :
  forall lim cf o h h' ob,
  Inv (h_td h) -> (N.of_nat (length (data (h_td h))) < W)%N -> cap_ok cf h o ->
  hstep cf h o = Ok (h', ob) ->
  refines o h' ob (g_step lim (cf_cap cf) (to_grid (h_td h)) o (data (h_td h'))).
Proof. exact hstep_refines. Qed.
Print Assumptions C01_step_refines_plain_model.

Theorem C01_history_refines_plain_model :
  forall lim cf ops h l,
  Inv (h_td h) -> hrun cf h ops = Ok l -> steps_feasible cf h ops l -> steps_refine lim cf h ops l.
Proof. exact hrun_refines. Qed.
Print Assumptions C01_history_refines_plain_model.

(** the grid's dimensions are the array's *)
Theorem C01_grid_dimensions :
  forall (A : Type) (t : toodee A), Inv t ->
  g_height (to_grid t) = num_rows t /\ g_width (to_grid t) = num_cols t /\ g_cells (to_grid t) = data t.
Proof. intros A t Hi. destruct (to_grid_dims t Hi). repeat split; try assumption. apply to_grid_cells. exact Hi. Qed.
Print Assumptions C01_grid_dimensions.

(** in a state satisfying the invariant, rows(), cells() and every col(c) report the
    lengths num_rows, num_cols*num_rows and num_rows - computed by the iterator models'
    own size_hint arithmetic - and col(c) panics for every other c *)
Theorem C01_lengths :
  forall (A : Type) (t : toodee A),
  Inv t -> (N.of_nat (length (data t)) < W)%N ->
  rows_len (td_rows t) = num_rows t /\
  flat_len rows_ops (td_cells t) = num_cols t * num_rows t /\
  (forall c : N, (c < N.of_nat (num_cols t))%N ->
     exists it, td_col t c = Ok it /\ col_len it = num_rows t) /\
  (forall c : N, (N.of_nat (num_cols t) <= c)%N -> td_col t c = Panic).
Proof. exact @lengths_agree. Qed.
Print Assumptions C01_lengths.

(** non-vacuity: grow to 3x2, remove a column with a half-consumed drain, clear, regrow *)
Example C01_example :
  let cf := mkConf true 1000 2 true in
  let row xs := mkScript (N.of_nat (length xs)) xs None in
  exists l, hrun cf h_init
    [HPushRow (row [1; 2; 3]%N); HInsertRow 0 (row [4; 5; 6]%N); HRemoveCol 1 [DBack; DLen] DropIt;
     HClear; HPushCol (row [7; 8]%N)] = Ok l
  /\ map (fun p => (num_cols (h_td (fst p)), num_rows (h_td (fst p)), data (h_td (fst p)))) l
     = [(3, 1, [1; 2; 3]%N); (3, 2, [4; 5; 6; 1; 2; 3]%N); (2, 2, [4; 6; 1; 3]%N); (0, 0, []); (1, 2, [7; 8]%N)].
Proof. eexists. split; vm_compute; reflexivity. Qed.
