(** C01 - array dimensions always agree with its contents. *)
From TD Require Import Base.Prelude Spec.Grid Spec.Inv Model.Iter Model.Flatten Model.Owned
  Model.Access Model.Hist Proofs.HistInv.

(** one step of ANY public operation of the history machine - constructors, insert / push /
    remove / pop of rows and columns with any iterator script (honest, lying about its
    length, ending early, panicking at any call) and any drain script (consumed to any
    extent from either end, then dropped or leaked), clear, swap_dimensions, capacity
    calls, indexed writes, fill, clone, conversions, with valid or invalid arguments
    (any [N]), in either build mode - keeps the shape invariant
    [len(data) = cols*rows /\ (cols = 0 <-> rows = 0)] *)
Theorem C01_step_keeps_shape :
  forall cf o h h' ob, Inv (h_td h) -> hstep cf h o = Ok (h', ob) -> Inv (h_td h').
Proof. exact hstep_inv. Qed.
Print Assumptions C01_step_keeps_shape.

(** hence every state of every finite history, of any length, from the empty array *)
Theorem C01_history_keeps_shape :
  forall cf ops l, hrun cf h_init ops = Ok l -> Forall (fun p => Inv (h_td (fst p))) l.
Proof. intros cf ops l. apply hrun_inv. exact h_init_inv. Qed.
Print Assumptions C01_history_keeps_shape.

(** in a state satisfying the invariant, rows(), cells() and every col(c) report the
    lengths num_rows, num_cols*num_rows and num_rows - computed by the iterator models'
    own size_hint arithmetic - and col(c) panics for every other c *)
Theorem C01_lengths :
  forall (A : Type) (t : toodee A),
  Inv t -> (N.of_nat (length (data t)) < W)%N ->
  rows_len (td_rows t) = num_rows t /\
  flat_len rows_ops (td_cells t) = num_cols t * num_rows t /\
  (forall c : N, (c < N.of_nat (num_cols t))%N ->
     exists it, td_col t c = Ok it /\ col_len it = num_rows t) /\
  (forall c : N, (N.of_nat (num_cols t) <= c)%N -> td_col t c = Panic).
Proof. exact @lengths_agree. Qed.
Print Assumptions C01_lengths.

(** non-vacuity: grow to 3x2, remove a column with a half-consumed drain, clear, regrow *)
Example C01_example :
  let cf := mkConf true 1000 2 true in
  let row xs := mkScript (N.of_nat (length xs)) xs None in
  exists l, hrun cf h_init
    [HPushRow (row [1; 2; 3]%N); HInsertRow 0 (row [4; 5; 6]%N); HRemoveCol 1 [DBack; DLen] DropIt;
     HClear; HPushCol (row [7; 8]%N)] = Ok l
  /\ map (fun p => (num_cols (h_td (fst p)), num_rows (h_td (fst p)), data (h_td (fst p)))) l
     = [(3, 1, [1; 2; 3]%N); (3, 2, [4; 5; 6; 1; 2; 3]%N); (2, 2, [4; 6; 1; 3]%N); (0, 0, []); (1, 2, [7; 8]%N)].
Proof. eexists. split; vm_compute; reflexivity. Qed.
