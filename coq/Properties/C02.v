(** C02 - checked access reaches exactly the addressed cell or panics. *)
From TD Require Import Base.Prelude Model.Iter Model.View Model.GeomRun Proofs.ViewGeom Proofs.Access.

(** in range: x[(c,r)], x[r][c], x.col(c)[r] (and, being the same arithmetic, their mutable
    forms) and the unchecked getters all denote the one cell [v_cell v c r] - which for the
    owned array (offset 0, stride = num_cols) is data()[r*num_cols + c] *)
Theorem C02_in_range_one_cell :
  forall k v (c r : N), wf_view v -> (k = KOwned -> vstride v = vcols v) ->
  (c < N.of_nat (vcols v))%N -> (r < N.of_nat (vrows v))%N ->
  let cell := v_cell v (N.to_nat c) (N.to_nat r) in
  v_index_coord v c r = Ok cell /\
  acc_row_then_col v c r = Ok cell /\
  acc_col_then_idx k v c r = Ok cell /\
  v_get_unchecked v (N.to_nat c) (N.to_nat r) = Ok cell /\
  (w <- v_get_unchecked_row v (N.to_nat r) ;; Ok (off w + N.to_nat c)) = Ok cell.
Proof.
  intros k v c r Hwf Hk Hc Hr cell. subst cell.
  split; [apply index_coord_in; assumption|].
  split; [apply row_then_col_in; assumption|].
  split; [apply col_then_idx_in; assumption|].
  split; [apply get_unchecked_in; [assumption|lia|lia]|].
  rewrite get_unchecked_row_in by (try assumption; lia). cbn [bind off]. unfold v_cell. f_equal.
Qed.
Print Assumptions C02_in_range_one_cell.

(** any other coordinate - every (c, r) in N x N, so every usize pair including those whose
    products wrap - : every checked accessor panics, in both build modes (the model has no
    overflow-mode dependence left after repair D5), before any buffer access *)
Theorem C02_out_of_range_panics :
  forall k v (c r : N), wf_view v -> (k = KOwned -> vstride v = vcols v) ->
  (N.of_nat (vcols v) <= c)%N \/ (N.of_nat (vrows v) <= r)%N ->
  v_index_coord v c r = Panic /\
  acc_row_then_col v c r = Panic /\
  acc_col_then_idx k v c r = Panic.
Proof.
  intros k v c r Hwf Hk H.
  split; [apply index_coord_out; assumption|].
  split; [apply row_then_col_out; assumption|apply col_then_idx_out; assumption].
Qed.
Print Assumptions C02_out_of_range_panics.

(** cells are inside the receiver's window and distinct coordinates are distinct cells *)
Theorem C02_cell_inside :
  forall v c r, wf_view v -> c < vcols v -> r < vrows v ->
  off (vw v) <= v_cell v c r < off (vw v) + len (vw v).
Proof. exact v_cell_inside. Qed.
Print Assumptions C02_cell_inside.

Example C02_example :
  let v := view_of_owned 2 3 6 in
  wf_view v /\
  acc_col_then_idx KOwned v 0 9223372036854775808 = Panic /\
  acc_col_then_idx KOwned v 1 2 = Ok 5 /\ v_index_coord v 1 2 = Ok 5.
Proof. split; [apply wf_view_owned; [lia|unfold W; lia]|vm_compute; repeat split]. Qed.
