(** C11 - a panic in caller-supplied code leaves a valid array. *)
From TD Require Import Base.Prelude Spec.Grid Spec.Inv Model.Iter Model.Owned Model.Hist
  Proofs.HistInv Proofs.InsertCol Proofs.InsertRowAny.
From TD Require Import Model.View Model.Ops Proofs.ViewGeom Proofs.Frame Proofs.OpsProofs Proofs.ClonePanic.

(** insert_row / push_row with ANY iterator script: any claimed length (every [N], so
    usize::MAX and lengths that overflow the reservation), ending early or late, panicking
    at any call of next() - whatever the call leaves behind (returned or unwound) satisfies
    the shape invariant *)
Theorem C11_insert_row_any_iterator :
  forall (A : Type) dbg cap spare (t : toodee A) index s r,
  Inv t -> insert_row dbg cap spare t index s = Ok r -> Inv (o_td r).
Proof. exact @insert_row_inv. Qed.
Print Assumptions C11_insert_row_any_iterator.

Theorem C11_insert_col_any_iterator :
  forall (A : Type) dbg cap spare (t : toodee A) index s r,
  Inv t -> insert_col dbg cap spare t index s = Ok r -> Inv (o_td r).
Proof. exact @insert_col_inv. Qed.
Print Assumptions C11_insert_col_any_iterator.

(** ... and the call ALWAYS returns or unwinds cleanly: for every array satisfying the
    invariant, every index, every iterator script (any claimed length in N, ending early or
    late, panicking at any call) the model never answers UB - no block copy or write leaves
    the reserved buffer, the Vec never owns an uninitialised slot - and every element is
    accounted for exactly once: owned by the array afterwards, dropped with the iterator,
    or leaked (never dropped twice, never both reachable and dropped) *)
Theorem C11_insert_row_never_ub :
  forall (A : Type) dbg cap spare (t : toodee A) (index : N) (s : iter_script A),
  Inv t -> exists r, insert_row dbg cap spare t index s = Ok r /\ Inv (o_td r) /\
                     Permutation.Permutation (data (o_td r) ++ o_dropped r ++ o_leaked r) (data t ++ items s).
Proof. exact @insert_row_any. Qed.
Print Assumptions C11_insert_row_never_ub.

(** the same for insert_col, whose repaired implementation moves old cells apart BEFORE the
    iterator is consulted: any script - short, long, panicking at any call - leaves an
    array satisfying the invariant (the empty one on failure), never UB, every element
    accounted for exactly once *)
Theorem C11_insert_col_never_ub :
  forall (A : Type) dbg cap spare (t : toodee A) (index : N) (s : iter_script A),
  Inv t -> exists r, insert_col dbg cap spare t index s = Ok r /\ Inv (o_td r) /\
                     Permutation.Permutation (data (o_td r) ++ o_dropped r ++ o_leaked r) (data t ++ items s).
Proof. exact @insert_col_any. Qed.
Print Assumptions C11_insert_col_never_ub.

(** ... and exactly which of the two outcomes: past the argument checks the call succeeds
    with every cell in place iff the iterator keeps its promise ([col_full]); otherwise the
    caller is left with the empty array, the old cells and the consumed elements leaked *)
Theorem C11_insert_col_outcomes :
  forall (A : Type) dbg cap spare (t : toodee A) idx (s : iter_script A) R,
  Inv t -> idx <= num_cols t -> claimed s = N.of_nat R -> (num_cols t = 0 \/ R = num_rows t) ->
  (N.of_nat (length (data t)) + N.of_nat R <= cap)%N ->
  let nc := num_cols t in
  let cf := fun r => nth_error (rev (items s)) (R - 1 - r) in
  exists res, insert_col dbg cap spare t (N.of_nat idx) s = Ok res /\
   ((~ col_full dbg s R /\ exists k, k <= R /\ res = col_failres t s k) \/
    (col_full dbg s R /\ exists d',
       res = mkOp (if 0 <? R then mkTD d' R (nc + 1) else mkTD d' 0 0) true (rev_unconsumed s R) [] /\
       length d' = (nc + 1) * R /\
       forall r c, r < R -> c <= nc -> nth_error d' (r * (nc + 1) + c) = fvg (data t) cf nc idx r c)).
Proof. exact @insert_col_gen. Qed.
Print Assumptions C11_insert_col_outcomes.

(** whole histories with faults at any step - panicking iterators, lying lengths, element
    destructors that panic during removals / clear ([HBomb]), [Clone::clone] /
    [Default::default] panicking at their k-th call inside init / fill / clone / clone_from /
    new ([HFuse]) - keep a valid array after
    every step, so every later call starts from a state the crate's unchecked code may
    rely on *)
Theorem C11_history_with_faults :
  forall cf ops l, hrun cf h_init ops = Ok l -> Forall (fun p => Inv (h_td (fst p))) l.
Proof. intros cf ops l. apply hrun_inv. exact h_init_inv. Qed.
Print Assumptions C11_history_with_faults.

(** clone_from_slice / clone_from_toodee on an owned array, a mutable view or a third-party
    implementor, the k-th [Clone::clone] panicking, for EVERY k: the buffer keeps its length,
    no cell outside the receiver changes, and every cell of the receiver holds the element it
    held before or the element the source supplied for it ([partial_clone]: the first k cells in
    row-major order have been assigned, which is what the correspondence observes on
    drop-tracked elements, together with: nothing dropped twice, nothing leaked) *)
Theorem C11_clone_from_slice_panicking_clone :
  forall rk v b (src : list N) k, wf_view v -> fits v b ->
  (rk = KOwned -> vstride v = vcols v) -> length src = vcols v * vrows v ->
  exists b', op_copy_from_slice rk v b src = Ok b' /\
    let p := partial_clone b b' (recv_cells v) k in
    length p = length b /\
    (forall i, ~ in_view v i -> nth_error p i = nth_error b i) /\
    (forall c r, c < vcols v -> r < vrows v ->
       nth_error p (v_cell v c r) = nth_error b (v_cell v c r) \/
       nth_error p (v_cell v c r) = nth_error src (r * vcols v + c)).
Proof. exact clone_from_slice_panic_safe. Qed.
Print Assumptions C11_clone_from_slice_panicking_clone.

Theorem C11_clone_from_toodee_panicking_clone :
  forall rk v b (srows : list (list N)) k, wf_view v -> fits v b ->
  (rk = KOwned -> vstride v = vcols v) ->
  length srows = vrows v -> Forall (fun r => length r = vcols v) srows ->
  exists b', op_copy_from_toodee rk v b (vcols v, vrows v) srows = Ok b' /\
    let p := partial_clone b b' (recv_cells v) k in
    length p = length b /\
    (forall i, ~ in_view v i -> nth_error p i = nth_error b i) /\
    (forall c r s, c < vcols v -> nth_error srows r = Some s ->
       nth_error p (v_cell v c r) = nth_error b (v_cell v c r) \/
       nth_error p (v_cell v c r) = nth_error s c).
Proof. exact clone_from_toodee_panic_safe. Qed.
Print Assumptions C11_clone_from_toodee_panicking_clone.

(** non-vacuity: the iterator panics at its second call while a row is inserted in the
    middle of a 2x3 array; and one that claims usize::MAX elements on the empty array *)
Example C11_example :
  insert_row true 1000 0 (mkTD [1; 2; 3; 4; 5; 6]%N 3 2) 1 (mkScript 2 [8; 9]%N (Some 1))
    = Ok (mkOp (mkTD [1; 2]%N 1 2) false [9]%N [3; 4; 5; 6; 8]%N) /\
  insert_row true 1000 0 (mkTD [] 0 0) 0 (mkScript 18446744073709551615 [8]%N None)
    = Ok (mkOp (mkTD [] 0 0) false [8]%N []).
Proof. split; vm_compute; reflexivity. Qed.
