(** C11 - a panic in caller-supplied code leaves a valid array. *)
From TD Require Import Base.Prelude Spec.Grid Spec.Inv Model.Iter Model.Owned Model.Hist
  Proofs.HistInv Proofs.InsertRowAny.

(** insert_row / push_row with ANY iterator script: any claimed length (every [N], so
    usize::MAX and lengths that overflow the reservation), ending early or late, panicking
    at any call of next() - whatever the call leaves behind (returned or unwound) satisfies
    the shape invariant *)
Theorem C11_insert_row_any_iterator :
  forall (A : Type) dbg cap spare (t : toodee A) index s r,
  Inv t -> insert_row dbg cap spare t index s = Ok r -> Inv (o_td r).
Proof. exact @insert_row_inv. Qed.
Print Assumptions C11_insert_row_any_iterator.

Theorem C11_insert_col_any_iterator :
  forall (A : Type) dbg cap spare (t : toodee A) index s r,
  Inv t -> insert_col dbg cap spare t index s = Ok r -> Inv (o_td r).
Proof. exact @insert_col_inv. Qed.
Print Assumptions C11_insert_col_any_iterator.

(** ... and the call ALWAYS returns or unwinds cleanly: for every array satisfying the
    invariant, every index, every iterator script (any claimed length in N, ending early or
    late, panicking at any call) the model never answers UB - no block copy or write leaves
    the reserved buffer, the Vec never owns an uninitialised slot - and every element is
    accounted for exactly once: owned by the array afterwards, dropped with the iterator,
    or leaked (never dropped twice, never both reachable and dropped) *)
Theorem C11_insert_row_never_ub :
  forall (A : Type) dbg cap spare (t : toodee A) (index : N) (s : iter_script A),
  Inv t -> exists r, insert_row dbg cap spare t index s = Ok r /\ Inv (o_td r) /\
                     Permutation.Permutation (data (o_td r) ++ o_dropped r ++ o_leaked r) (data t ++ items s).
Proof. exact @insert_row_any. Qed.
Print Assumptions C11_insert_row_never_ub.

(** whole histories with faults at any step - panicking iterators, lying lengths, element
    destructors that panic during removals / clear ([HBomb]) - keep a valid array after
    every step, so every later call starts from a state the crate's unchecked code may
    rely on *)
Theorem C11_history_with_faults :
  forall cf ops l, hrun cf h_init ops = Ok l -> Forall (fun p => Inv (h_td (fst p))) l.
Proof. intros cf ops l. apply hrun_inv. exact h_init_inv. Qed.
Print Assumptions C11_history_with_faults.

(** non-vacuity: the iterator panics at its second call while a row is inserted in the
    middle of a 2x3 array; and one that claims usize::MAX elements on the empty array *)
Example C11_example :
  insert_row true 1000 0 (mkTD [1; 2; 3; 4; 5; 6]%N 3 2) 1 (mkScript 2 [8; 9]%N (Some 1))
    = Ok (mkOp (mkTD [1; 2]%N 1 2) false [9]%N [3; 4; 5; 6; 8]%N) /\
  insert_row true 1000 0 (mkTD [] 0 0) 0 (mkScript 18446744073709551615 [8]%N None)
    = Ok (mkOp (mkTD [] 0 0) false [8]%N []).
Proof. split; vm_compute; reflexivity. Qed.
