(** C20 - constructors and conversions preserve contents and reject bad shapes. *)
From TD Require Import Base.Prelude Spec.Grid Spec.Inv Model.Iter Model.View Model.Ops Model.Owned
  Model.Conv Proofs.ViewGeom Proofs.ConvProofs.

(** from_vec / from_box, for EVERY pair of dimensions (all of N x N, so every usize pair
    including products that overflow) and every buffer: accepted exactly when the zero rule
    holds, the product fits in usize and equals the buffer length; the array then has those
    dimensions and exactly the buffer as its row-major cells *)
Theorem C20_from_vec_accepts :
  forall (A : Type) (c r : N) (d : list A),
  consistent c r -> (c * r)%N = N.of_nat (length d) ->
  ctor_from_vec c r d = Ok (mkTD d (N.to_nat r) (N.to_nat c)) /\ Inv (mkTD d (N.to_nat r) (N.to_nat c)).
Proof. exact @ctor_from_vec_accepts. Qed.
Print Assumptions C20_from_vec_accepts.

Theorem C20_from_vec_rejects :
  forall (A : Type) (c r : N) (d : list A),
  ~ (consistent c r /\ (c * r)%N = N.of_nat (length d)) -> ctor_from_vec c r d = Panic.
Proof. exact @ctor_from_vec_rejects. Qed.
Print Assumptions C20_from_vec_rejects.

(** new / init: accepted exactly for consistent dimensions; c*r cells, each the default /
    a clone of the value ([mk n] = the n cells created) *)
Theorem C20_new_init_accepts :
  forall (A : Type) (c r : N) (mk : nat -> list A),
  (forall n, length (mk n) = n) -> consistent c r ->
  ctor_fill c r mk = Ok (mkTD (mk (N.to_nat (c * r))) (N.to_nat r) (N.to_nat c))
  /\ Inv (mkTD (mk (N.to_nat (c * r))) (N.to_nat r) (N.to_nat c)).
Proof. exact @ctor_fill_accepts. Qed.
Print Assumptions C20_new_init_accepts.

Theorem C20_new_init_rejects :
  forall (A : Type) (c r : N) (mk : nat -> list A), ~ consistent c r -> ctor_fill c r mk = Panic.
Proof. exact @ctor_fill_rejects. Qed.
Print Assumptions C20_new_init_rejects.

(** TooDeeView::new / TooDeeViewMut::new over a slice of length slen: accepted exactly when
    the zero rule holds, the product fits and is <= slen; the view is then the prefix *)
Theorem C20_view_new_accepts :
  forall (c r : N) slen,
  ((c = 0 <-> r = 0))%N -> (c * r < W)%N -> (c * r <= N.of_nat slen)%N ->
  view_new c r slen = Ok (mkView (mkSl 0 (N.to_nat (c * r))) (N.to_nat c) (N.to_nat r) (N.to_nat c)) /\
  wf_view (mkView (mkSl 0 (N.to_nat (c * r))) (N.to_nat c) (N.to_nat r) (N.to_nat c)).
Proof. exact view_new_ok. Qed.
Print Assumptions C20_view_new_accepts.

Theorem C20_view_new_rejects :
  forall (c r : N) slen,
  ~ ((c = 0 <-> r = 0))%N \/ (W <= c * r)%N \/ (N.of_nat slen < c * r)%N ->
  view_new c r slen = Panic.
Proof. exact view_new_reject. Qed.
Print Assumptions C20_view_new_rejects.

(** From<TooDeeView> / From<TooDeeViewMut> of any well-formed view (any window, any stride):
    the view's dimensions and its rows' cells, top to bottom, left to right *)
Theorem C20_from_view :
  forall v (b : buf), wf_view v -> off (vw v) + len (vw v) <= length b ->
  from_view v b = Ok (mkTD (concat (map (row_values b) (view_rows v))) (vrows v) (vcols v))
  /\ Inv (mkTD (concat (map (row_values b) (view_rows v))) (vrows v) (vcols v)).
Proof. exact from_view_spec. Qed.
Print Assumptions C20_from_view.

(** derived equality: equal exactly when dimensions and cells are equal (so equal arrays,
    being equal triples, feed the same data to any hasher) *)
Theorem C20_eq_iff :
  forall a b : toodee N, td_eqb a b = true <-> a = b.
Proof. exact td_eqb_eq. Qed.
Print Assumptions C20_eq_iff.

(** with an element type whose equality is not reflexive (f64 holding a NaN) "equal exactly
    when dimensions and cells are equal" means: an array is equal to itself iff no cell holds
    such a value - a pointer-equality shortcut in `==` would break it *)
Theorem C20_equality_is_cellwise_even_for_self :
  forall (nan : nat -> bool) (a : toodee N),
  td_eqb_partial nan a a = true <-> (forall j, j < length (data a) -> nan j = false).
Proof. exact td_eqb_partial_self. Qed.
Print Assumptions C20_equality_is_cellwise_even_for_self.

Example C20_example :
  @ctor_from_vec N 5 0 [] = Panic /\ @ctor_from_vec N 4294967296 4294967296 [] = Panic /\
  ctor_from_vec 2 3 (iota 6) = Ok (mkTD (iota 6) 3 2) /\
  ctor_fill 3 0 (fun n => repeat 0%N n) = Panic /\
  from_view (mkView (mkSl 5 6) 2 2 4) (iota 16) = Ok (mkTD [5; 6; 9; 10]%N 2 2) /\
  td_eqb (mkTD (iota 6) 3 2) (mkTD (iota 6) 2 3) = false.
Proof. repeat split; vm_compute; reflexivity. Qed.
