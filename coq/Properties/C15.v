(** C15 - translate and flip are the stated bijections. *)
From TD Require Import Base.Prelude Model.Iter Model.View Model.Ops
  Proofs.ViewGeom Proofs.Frame Proofs.OpsProofs Proofs.FlipProofs Proofs.TranslateProofs.

(** translate_with_wrap((mc, mr)) on any well-formed receiver (owned array or view, any
    window / stride), every shape (every gcd structure between the number of rows and the
    row shift - the cycle-leader loop is proved by induction over its cycles, not sampled),
    every mc <= cols, mr <= rows: the new cell (c, r) holds the old cell
    ((c + mc) mod cols, (r + mr) mod rows); nothing outside the receiver changes; the
    fuelled loops never run out of fuel (the model's UB outcome is excluded: the result is Ok) *)
Theorem C15_translate :
  forall v b (mc mr : N), wf_view v -> fits v b ->
  (mc <= N.of_nat (vcols v))%N -> (mr <= N.of_nat (vrows v))%N ->
  exists b', op_translate v b mc mr = Ok b' /\ length b' = length b /\
    (forall i, ~ in_view v i -> nth_error b' i = nth_error b i) /\
    (forall c r, c < vcols v -> r < vrows v ->
       nth_error b' (v_cell v c r)
       = nth_error b (v_cell v ((c + N.to_nat mc) mod vcols v) ((r + N.to_nat mr) mod vrows v))).
Proof. exact op_translate_spec. Qed.
Print Assumptions C15_translate.

(** any larger shift (every [N]) panics *)
Theorem C15_translate_rejects :
  forall v b (mc mr : N),
  (N.of_nat (vcols v) < mc)%N \/ (N.of_nat (vrows v) < mr)%N -> op_translate v b mc mr = Panic.
Proof. exact op_translate_reject. Qed.
Print Assumptions C15_translate_rejects.

(** flip_rows: new (c, r) = old (c, rows-1-r) *)
Theorem C15_flip_rows :
  forall v b, wf_view v -> fits v b ->
  exists b', op_flip_rows v b = Ok b' /\ length b' = length b /\
    (forall i, ~ in_view v i -> nth_error b' i = nth_error b i) /\
    (forall c r, c < vcols v -> r < vrows v ->
       nth_error b' (v_cell v c r) = nth_error b (v_cell v c (vrows v - 1 - r))).
Proof. exact op_flip_rows_spec. Qed.
Print Assumptions C15_flip_rows.

(** flip_cols: new (c, r) = old (cols-1-c, r) *)
Theorem C15_flip_cols :
  forall v b, wf_view v -> fits v b ->
  exists b', op_flip_cols v b = Ok b' /\ length b' = length b /\
    (forall i, ~ in_view v i -> nth_error b' i = nth_error b i) /\
    (forall c r, c < vcols v -> r < vrows v ->
       nth_error b' (v_cell v c r) = nth_error b (v_cell v (vcols v - 1 - c) r)).
Proof. exact op_flip_cols_spec. Qed.
Print Assumptions C15_flip_cols.

(** non-vacuity: a 2x6 interior window (stride 4), shift (1, 4): gcd(6, 6-4) = 2, two
    cycles of three rows *)
Example C15_example :
  let v := mkView (mkSl 5 22) 2 6 4 in
  let b := map N.of_nat (seq 0 32) in
  wf_view v /\ fits v b /\
  op_translate v b 1 4 = Ok (map N.of_nat
    [0;1;2;3;4;22;21;7;8;26;25;11;12;6;5;15;16;10;9;19;20;14;13;23;24;18;17;27;28;29;30;31]).
Proof. split; [split; cbn; [unfold W; lia|lia]|split; [unfold fits; cbn; lia|vm_compute; reflexivity]]. Qed.
