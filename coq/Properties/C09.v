(** C09 - column iterators behave as an ideal double-ended exact-size indexable sequence. *)
From TD Require Import Base.Prelude Model.Iter Model.View Model.IterRun Spec.Ideal
  Proofs.RowsSim Proofs.ColSim Proofs.IterHistory Proofs.ViewGeom
  Model.BigIter Model.BigIterRun Spec.BigIterSpec Proofs.BigIterRefine Proofs.BigIterStep.

(** [col(c)] / [col_mut(c)], c in range: the ideal sequence of that column's cells, for the
    owned array's own range computation and for the views' *)
Theorem C09_col_start :
  forall k v (c : N), wf_view v -> (c < N.of_nat (vcols v))%N ->
  (k = KOwned -> vstride v = vcols v) ->
  exists it, v_col k v c = Ok it /\ col_sim it (view_col v (N.to_nat c)).
Proof. exact v_col_sim. Qed.
Print Assumptions C09_col_start.

(** c out of range (any c : N) panics *)
Theorem C09_col_out_of_range :
  forall k v (c : N), (N.of_nat (vcols v) <= c)%N -> v_col k v c = Panic.
Proof. exact v_col_reject. Qed.
Print Assumptions C09_col_out_of_range.

(** one call, including [it[i]] for every i : N: ideal result or panic exactly when the
    ideal sequence has no i-th element; never UB *)
Theorem C09_step :
  forall dbg it l c, col_sim it l ->
  exists y s' q', icall_step dbg (SCol it) c = Ok (y, s') /\
                  Ideal.ideal_call (QCells l) c = (y, q') /\ st_sim s' q'.
Proof. intros dbg it l c H. exact (step_sim dbg (SCol it) (QCells l) c H (call_ok_not_cells (SCol it) c eq_refl)). Qed.
Print Assumptions C09_step.

Theorem C09_history :
  forall dbg mutable calls k it l b, col_sim it l ->
  exists o s' q' b',
    icalls dbg mutable k (SCol it) calls b = Ok (o, s', b') /\
    Ideal.ideal_calls mutable k (QCells l) calls b = (o, q', b') /\ st_sim s' q'.
Proof. intros dbg mu calls k it l b H. exact (history_sim dbg mu calls k (SCol it) (QCells l) b H (calls_ok_not_cells (SCol it) calls eq_refl)). Qed.
Print Assumptions C09_history.

Theorem C09_terminal :
  forall it l t, col_sim it l -> t <> TRfold ->
  iterm_step (SCol it) t = Ok (ideal_term (QCells l) t).
Proof.
  intros it l t H Ht. apply (term_sim (SCol it) (QCells l) t H). destruct t; auto.
Qed.
Print Assumptions C09_terminal.

(** the cells of a column are distinct cells inside the receiver's window *)
Theorem C09_cells_distinct :
  forall v c r c' r', wf_view v -> c < vcols v -> c' < vcols v ->
  v_cell v c r = v_cell v c' r' -> c = c' /\ r = r'.
Proof. exact v_cell_inj. Qed.
Print Assumptions C09_cells_distinct.

(** the column iterators over binary numbers compute what the unary model computes *)
Theorem C09_binary_model_is_the_model :
  (forall it, rmap col_res (bcol_next it) = col_next (col_of it)) /\
  (forall it, rmap col_res (bcol_next_back it) = col_next_back (col_of it)) /\
  (forall it n, rmap col_res (bcol_nth it n) = col_nth (col_of it) n) /\
  (forall it n, rmap col_res (bcol_nth_back it n) = col_nth_back (col_of it) n) /\
  (forall it, N.to_nat (bcol_len it) = col_len (col_of it)) /\
  (forall it i, rmap N.to_nat (bcol_index it i) = col_index (col_of it) i) /\
  (forall k v c, rmap col_of (bv_col k v c) = v_col k (view_of_b v) c).
Proof.
  repeat split; [exact col_next_ref|exact col_next_back_ref|exact col_nth_ref|exact col_nth_back_ref
                |exact col_len_ref|exact col_index_ref|exact v_col_ref].
Qed.
Print Assumptions C09_binary_model_is_the_model.

(** col(c) / col_mut(c) of a well-formed receiver of ANY size, then ANY finite history
    (indexing included, every n, i : N): never fails, prints what the two-counter ideal prints *)
Theorem C09_any_size_any_history :
  forall dbg k (v : bview) (c : N) cs,
  wf_view (view_of_b v) -> (c < bvcols v)%N -> (k = KOwned -> bvstride v = bvcols v) ->
  exists it o s', bv_col k v c = Ok it /\ bcalls dbg (BCol it) cs = Ok (o, s') /\
    o = fst (BigIterSpec.ideal_calls (bvrows v) [] true (0%N, 0%N) cs).
Proof. exact big_col_end_to_end. Qed.
Print Assumptions C09_any_size_any_history.

Example C09_example_huge :
  let v := mkBview (mkBsl 0 9223372036854775808) 4294967296 2147483648 4294967296 in
  (it <- bv_col KView v 17 ;; r <- bcol_nth it 4294967296 ;; Ok (fst r, bcol_len (snd r))) = Ok (None, 0%N) /\
  (it <- bv_col KView v 17 ;; r <- bcol_nth_back it 2147483646 ;; Ok (fst r, bcol_len (snd r), bcol_index (snd r) 1))
    = Ok (Some 4294967313%N, 1%N, Panic).
Proof. split; vm_compute; reflexivity. Qed.

Example C09_example :
  let v := mkView (mkSl 5 10) 2 3 4 in
  (it <- v_col KView v 1 ;; r <- col_nth_back it 1 ;; i <- col_index (snd r) 0 ;;
   Ok (fst r, i, col_index (snd r) 9223372036854775808))
  = Ok (Some 10, 6, Panic).
Proof. vm_compute. reflexivity. Qed.
