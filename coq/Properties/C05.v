(** C05 - every element is dropped exactly once.
    The ledger equation: what the array owns after an operation, together with what the
    operation dropped, handed to the caller or leaked, is a permutation of what it owned
    before together with what was supplied.  With distinct identities this says: nothing
    is dropped twice, nothing dropped stays reachable, nothing is lost.
    Proved for every fault-free operation of the history machine and for histories of any
    length; the same equation is also evaluated on every run by the extracted ledger oracle
    on the implementation's own drop ledger (Tracked elements; zero-sized elements by
    counting). *)
From Coq Require Import Permutation.
From TD Require Import Base.Prelude Spec.Grid Spec.Inv Model.Owned Model.Hist
  Spec.HistSpec Proofs.InsertRow Proofs.RemoveRow Proofs.Ledger Proofs.LedgerAll Proofs.LedgerAny.

Theorem C05_insert_row_accepted :
  forall (A : Type) dbg cap spare (t : toodee A) idx xs,
  Inv t -> idx <= num_rows t -> (num_rows t = 0 \/ length xs = num_cols t) ->
  (N.of_nat (length (data t)) + N.of_nat (length xs) <= cap)%N ->
  exists r, insert_row dbg cap spare t (N.of_nat idx) (honest_script xs) = Ok r /\
            o_ok r = true /\ o_dropped r = [] /\ o_leaked r = [] /\
            Permutation (data (o_td r)) (data t ++ xs).
Proof. exact @insert_row_ledger. Qed.
Print Assumptions C05_insert_row_accepted.

Theorem C05_insert_row_rejected :
  forall (A : Type) dbg cap spare (t : toodee A) (index : N) xs,
  (N.of_nat (num_rows t) < index)%N \/ (num_rows t <> 0 /\ length xs <> num_cols t) ->
  insert_row dbg cap spare t index (honest_script xs) = Ok (mkOp t false xs []).
Proof. exact @insert_row_reject_ledger. Qed.
Print Assumptions C05_insert_row_rejected.

Theorem C05_remove_row :
  forall (A : Type) (t : toodee A) idx steps fin,
  Inv t -> idx < num_rows t ->
  exists r, remove_row t (N.of_nat idx) steps fin = Ok r /\
            Permutation (data (d_td r) ++ d_escaped r ++ d_dropped r ++ d_leaked r) (data t) /\
            (fin = DropIt -> d_leaked r = []).
Proof. exact @remove_row_ledger. Qed.
Print Assumptions C05_remove_row.

Theorem C05_simple_steps :
  forall cf h,
  step_ledger cf h HClear [] /\ step_ledger cf h HDrop [] /\ step_ledger cf h HSwapDims [] /\
  step_ledger cf h HCapacity [] /\ step_ledger cf h HDefault [] /\
  (forall c r d, step_ledger cf h (HFromVec c r d) d) /\
  (forall c r v, (c < N.of_nat (num_cols (h_td h)))%N -> (r < N.of_nat (num_rows (h_td h)))%N ->
                 Inv (h_td h) -> step_ledger cf h (HSetCell c r v) [v]).
Proof. exact simple_steps_ledger. Qed.
Print Assumptions C05_simple_steps.

(** every fault-free step - constructors, insert / push / remove / pop of rows and columns
    with honest iterators and with drains consumed to any extent (next, next_back, nth,
    nth_back, len) and then dropped, clear, swap_dimensions, indexed writes, fill, clone,
    conversions, valid or rejected arguments, also when an element destructor panics during
    the step ([HBomb]): owned-after + dropped is a permutation of owned-before + supplied,
    and nothing is leaked *)
Theorem C05_every_step :
  forall cf o h h' ob,
  Inv (h_td h) -> (N.of_nat (length (data (h_td h))) < W)%N -> fault_free_op o = true ->
  hstep cf h o = Ok (h', ob) ->
  Permutation (data (h_td h') ++ ob_dropped ob) (data (h_td h) ++ supplied cf h o) /\ ob_leaked ob = [].
Proof. exact hstep_ledger. Qed.
Print Assumptions C05_every_step.

(** ... hence for every fault-free history, of any length: what is still owned at the end
    plus everything dropped along the way is a permutation of everything ever supplied;
    with distinct identities: each element is dropped exactly once or still owned, never
    both, never twice *)
Theorem C05_every_history :
  forall cf ops h l,
  Inv (h_td h) -> (N.of_nat (length (data (h_td h))) < W)%N ->
  forallb fault_free_op ops = true ->
  hrun cf h ops = Ok l ->
  Forall (fun p => (N.of_nat (length (data (h_td (fst p)))) < W)%N) l ->
  Permutation (data (h_td (final_state h l)) ++ dropped_all l) (data (h_td h) ++ supplied_all cf h ops l)
  /\ total_leaked l = 0.
Proof. exact hrun_ledger. Qed.
Print Assumptions C05_every_history.

(** EVERY step, faults and leaks included - iterators that lie about their length, end
    early or late or panic at any call, drains dropped or leaked (mem::forget) after any
    consumption, destructors that panic: owned-after + dropped + leaked is a permutation of
    owned-before + supplied.  So no element is ever dropped twice, or dropped while still
    reachable; an element escapes its destructor only by being leaked, and then it is in
    the leak set the model names *)
Theorem C05_every_step_with_faults :
  forall cf o h h' ob,
  Inv (h_td h) -> (N.of_nat (length (data (h_td h))) < W)%N ->
  hstep cf h o = Ok (h', ob) ->
  Permutation (data (h_td h') ++ ob_dropped ob ++ ob_leaked ob) (data (h_td h) ++ supplied cf h o).
Proof. exact hstep_ledger_all. Qed.
Print Assumptions C05_every_step_with_faults.

Theorem C05_every_history_with_faults :
  forall cf ops h l,
  Inv (h_td h) -> (N.of_nat (length (data (h_td h))) < W)%N ->
  hrun cf h ops = Ok l ->
  Forall (fun p => (N.of_nat (length (data (h_td (fst p)))) < W)%N) l ->
  Permutation (data (h_td (final_state h l)) ++ dropped_all l ++ leaked_all l)
              (data (h_td h) ++ supplied_all cf h ops l).
Proof. exact hrun_ledger_all. Qed.
Print Assumptions C05_every_history_with_faults.

Example C05_example :
  remove_row (mkTD [1; 2; 3; 4; 5; 6]%N 3 2) 1 [DFront] DropIt
  = Ok (mkDrain (mkTD [1; 2; 5; 6]%N 2 2) true [ObsItem (Some 3%N)] [3%N] [4%N] []).
Proof. vm_compute. reflexivity. Qed.
