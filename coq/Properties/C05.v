(** C05 - every element is dropped exactly once.
    The ledger equation: what the array owns after an operation, together with what the
    operation dropped, handed to the caller or leaked, is a permutation of what it owned
    before together with what was supplied.  With distinct identities this says: nothing
    is dropped twice, nothing dropped stays reachable, nothing is lost.
    Proved here for the row routines and the steps that do not go through the raw column
    routines; for insert_col / remove_col the same equation is checked on every run by the
    extracted ledger oracle (Tracked elements, zero-sized elements by counting), see C05
    in DESIGN.md. *)
From Coq Require Import Permutation.
From TD Require Import Base.Prelude Spec.Grid Spec.Inv Model.Owned Model.Hist
  Proofs.InsertRow Proofs.RemoveRow Proofs.Ledger.

Theorem C05_insert_row_accepted :
  forall (A : Type) dbg cap spare (t : toodee A) idx xs,
  Inv t -> idx <= num_rows t -> (num_rows t = 0 \/ length xs = num_cols t) ->
  (N.of_nat (length (data t)) + N.of_nat (length xs) <= cap)%N ->
  exists r, insert_row dbg cap spare t (N.of_nat idx) (honest_script xs) = Ok r /\
            o_ok r = true /\ o_dropped r = [] /\ o_leaked r = [] /\
            Permutation (data (o_td r)) (data t ++ xs).
Proof. exact @insert_row_ledger. Qed.
Print Assumptions C05_insert_row_accepted.

Theorem C05_insert_row_rejected :
  forall (A : Type) dbg cap spare (t : toodee A) (index : N) xs,
  (N.of_nat (num_rows t) < index)%N \/ (num_rows t <> 0 /\ length xs <> num_cols t) ->
  insert_row dbg cap spare t index (honest_script xs) = Ok (mkOp t false xs []).
Proof. exact @insert_row_reject_ledger. Qed.
Print Assumptions C05_insert_row_rejected.

Theorem C05_remove_row :
  forall (A : Type) (t : toodee A) idx steps fin,
  Inv t -> idx < num_rows t ->
  exists r, remove_row t (N.of_nat idx) steps fin = Ok r /\
            Permutation (data (d_td r) ++ d_escaped r ++ d_dropped r ++ d_leaked r) (data t) /\
            (fin = DropIt -> d_leaked r = []).
Proof. exact @remove_row_ledger. Qed.
Print Assumptions C05_remove_row.

Theorem C05_simple_steps :
  forall cf h,
  step_ledger cf h HClear [] /\ step_ledger cf h HDrop [] /\ step_ledger cf h HSwapDims [] /\
  step_ledger cf h HCapacity [] /\ step_ledger cf h HDefault [] /\
  (forall c r d, step_ledger cf h (HFromVec c r d) d) /\
  (forall c r v, (c < N.of_nat (num_cols (h_td h)))%N -> (r < N.of_nat (num_rows (h_td h)))%N ->
                 Inv (h_td h) -> step_ledger cf h (HSetCell c r v) [v]).
Proof. exact simple_steps_ledger. Qed.
Print Assumptions C05_simple_steps.

Example C05_example :
  remove_row (mkTD [1; 2; 3; 4; 5; 6]%N 3 2) 1 [DFront] DropIt
  = Ok (mkDrain (mkTD [1; 2; 5; 6]%N 2 2) true [ObsItem (Some 3%N)] [3%N] [4%N] []).
Proof. vm_compute. reflexivity. Qed.
