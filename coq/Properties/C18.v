(** C18 - serialisation round-trips every array.
    At the serde data-model level: the derived serialiser's field protocol followed by the
    visitor + [from_vec]; the JSON text layer and element codecs are exercised by the
    correspondence (real serde_json, four transports), not modelled. *)
From TD Require Import Base.Prelude Spec.Grid Spec.Inv Model.Owned Model.Serde Proofs.SerdeProofs.

(** every valid owned array (any shape, including (0,0), 1xN, Nx1; elements representable
    in the element codec), through each of the four transports (borrowed-key [from_str] /
    [from_slice], owned-key [from_reader], key-deduplicating [from_value]), comes back
    equal: same dimensions, same cells *)
Theorem C18_roundtrip_owned :
  forall tr (t : toodee N),
  Inv t -> u32_elems (data t) -> (N.of_nat (length (data t)) < W)%N ->
  deserialize tr true (serialize t) = DeOk t.
Proof. exact roundtrip_owned. Qed.
Print Assumptions C18_roundtrip_owned.

(** a view / mutable view of size (cols, rows) whose [cells()] are [cells] serialises to a
    document that deserialises to the owned array with those dimensions and cells *)
Theorem C18_roundtrip_view :
  forall tr (cols rows : nat) (cells : list N),
  length cells = cols * rows -> (cols = 0 <-> rows = 0) -> u32_elems cells ->
  (N.of_nat (length cells) < W)%N ->
  deserialize tr true (serialize_view cols rows cells) = DeOk (mkTD cells rows cols).
Proof. exact roundtrip_view. Qed.
Print Assumptions C18_roundtrip_view.

Example C18_example :
  let t := mkTD [7; 8; 9; 10; 11; 12]%N 2 3 in
  Inv t /\ deserialize TReader true (serialize t) = DeOk t
  /\ deserialize TValue true (serialize_view 0 0 []) = DeOk (mkTD [] 0 0).
Proof. split; [split; cbn; lia|split; vm_compute; reflexivity]. Qed.
