(** C10 - cell iterators visit every cell once in row-major order. *)
From Coq Require Import Sorted.
From TD Require Import Base.Prelude Model.Iter Model.Flatten Model.View Model.IterRun Spec.Ideal
  Proofs.RowsSim Proofs.FlatSim Proofs.IterHistory Proofs.ViewGeom Proofs.CellsGeom
  Model.BigIter Model.BigFlat Model.BigIterRun Proofs.BigFlatRefine.
From TD Require Spec.BigIterSpec Proofs.BigIterStep.

(** cells() / cells_mut() / the IntoIterator forms of any well-formed receiver (owned array,
    view, mutable view, any window and stride, empty) start as the ideal sequence of all its
    cells in row-major order *)
Theorem C10_cells_start :
  forall v, wf_view v -> exists s, v_cells v = Ok s /\ flat_sim s (view_cells v).
Proof. exact v_cells_sim. Qed.
Print Assumptions C10_cells_start.

(** ... which is every cell of the rectangle exactly once: row by row, left to right,
    strictly increasing buffer indices (so cells_mut never yields a cell twice), all inside
    the receiver *)
Theorem C10_every_cell_once :
  forall v, wf_view v ->
  view_cells v = flat_map (fun r => map (fun c => v_cell v c r) (seq 0 (vcols v))) (seq 0 (vrows v))
  /\ length (view_cells v) = vcols v * vrows v
  /\ StronglySorted lt (view_cells v) /\ NoDup (view_cells v).
Proof.
  intros v H. split; [apply view_cells_formula|]. split; [apply view_cells_length; exact H|].
  split; [apply view_cells_sorted; exact H|apply view_cells_nodup; exact H].
Qed.
Print Assumptions C10_every_cell_once.

(** one call - next, next_back, nth(n), nth_back(n), len - for EVERY n : N and every state
    of the front / back rows (absent, partly consumed, exhausted): the ideal result, the
    simulation is kept, never UB, the debug assertion of FlattenExact never fires *)
Theorem C10_step :
  forall dbg s l c, flat_sim s l -> is_index c = false ->
  exists y s' q', icall_step dbg (SCells s) c = Ok (y, s') /\
                  ideal_call (QCells l) c = (y, q') /\ st_sim s' q'.
Proof. intros dbg s l c H Hc. exact (step_sim dbg (SCells s) (QCells l) c H (fun _ => Hc)). Qed.
Print Assumptions C10_step.

(** every finite interleaving of calls, of any length *)
Theorem C10_history :
  forall dbg mutable calls k s l b, flat_sim s l -> Forall (fun c => is_index c = false) calls ->
  exists o s' q' b',
    icalls dbg mutable k (SCells s) calls b = Ok (o, s', b') /\
    ideal_calls mutable k (QCells l) calls b = (o, q', b') /\ st_sim s' q'.
Proof.
  intros dbg mu calls k s l b H Hc.
  apply (history_sim dbg mu calls k (SCells s) (QCells l) b H).
  eapply Forall_impl; [|exact Hc]. intros c Hx _. exact Hx.
Qed.
Print Assumptions C10_history.

(** count, last, fold, rfold *)
Theorem C10_terminal :
  forall s l t, flat_sim s l -> iterm_step (SCells s) t = Ok (ideal_term (QCells l) t).
Proof. intros s l t H. apply (term_sim (SCells s) (QCells l) t H). exact I. Qed.
Print Assumptions C10_terminal.

(** the same code paths over binary numbers (Model/BigFlat.v; family 10 runs them on
    zero-sized elements, where 2^63 cells cost nothing) compute exactly what the model above
    computes - next / next_back (given that the row cursor hands out non-empty rows, which
    every simulated state guarantees), nth / nth_back for every n : N, len *)
Theorem C10_binary_model_is_the_model :
  (forall s k, yields_nonempty (bfiter s) ->
     rmap flat_res (bflat_next s) = flat_next_loop rows_ops (S (S k)) (flat_of s)) /\
  (forall s k, yields_nonempty (bfiter s) ->
     rmap flat_res (bflat_next_back s) = flat_next_back_loop rows_ops (S (S k)) (flat_of s)) /\
  (forall dbg s n, rmap flat_res (bflat_nth dbg s n) = flat_nth rows_ops dbg (flat_of s) n) /\
  (forall dbg s n, rmap flat_res (bflat_nth_back dbg s n) = flat_nth_back rows_ops dbg (flat_of s) n) /\
  (forall s, N.to_nat (bflat_len s) = flat_len rows_ops (flat_of s)).
Proof.
  repeat split; [exact flat_next_ref|exact flat_next_back_ref|exact flat_nth_ref|exact flat_nth_back_ref|exact flat_len_ref].
Qed.
Print Assumptions C10_binary_model_is_the_model.

(** cells() / cells_mut() of a well-formed receiver of ANY size, then ANY finite history of
    next / next_back / nth(n) / nth_back(n) / len, every n : N, with and without debug
    assertions: the model never fails and prints what the ideal sequence of
    num_cols * num_rows cells prints, stated as two counters (the oracle family 10 evaluates) *)
Theorem C10_any_size_any_history :
  forall dbg (v : bview) cs, wf_view (view_of_b v) -> Forall (fun c => is_index c = false) cs ->
  exists it o s', bv_rows v = Ok it /\ bcalls dbg (BCells (bflat_new it)) cs = Ok (o, s') /\
    o = fst (BigIterSpec.ideal_calls (bvcols v * bvrows v) [] true (0%N, 0%N) cs).
Proof. exact BigIterStep.big_cells_end_to_end. Qed.
Print Assumptions C10_any_size_any_history.

(** non-vacuity at sizes the unary model cannot write down: cells() of a 2^32 x 2^31 array:
    nth(2^63 - 2) lands on the last cell but one, then one cell is left *)
Example C10_example_huge :
  let v := bview_of_owned 4294967296 2147483648 9223372036854775808 in
  wf_view (view_of_b v) /\
  (it <- bv_rows v ;;
   r <- bcalls true (BCells (bflat_new it)) [ILen; INth 9223372036854775806; ILen; INext; INext] ;;
   Ok (fst r))
  = Ok [9223372036854775808; 1; 1; 1; 0]%N.
Proof.
  split; [|vm_compute; reflexivity].
  unfold wf_view, view_of_b, bview_of_owned, sl_of, W.
  cbn [vw vrows vcols vstride len off bvw bvrows bvcols bvstride boff blen].
  split; [lia|].
  replace (N.to_nat 2147483648) with (S (N.to_nat 2147483647)) by lia. lia.
Qed.

(** non-vacuity: a 2x3 window of a 4-wide parent; a front row partly consumed, then a
    row-crossing nth, nth_back(usize::MAX) *)
Example C10_example :
  let v := mkView (mkSl 5 10) 2 3 4 in
  wf_view v /\ view_cells v = [5; 6; 9; 10; 13; 14] /\
  (s <- v_cells v ;; r1 <- flat_next rows_ops s ;; r2 <- flat_nth rows_ops true (snd r1) 2 ;;
   r3 <- flat_nth_back rows_ops true (snd r2) 18446744073709551615 ;;
   Ok (fst r1, fst r2, fst r3, flat_len rows_ops (snd r3)))
  = Ok (Some 5, Some 10, None, 0).
Proof. split; [split; cbn; [unfold W; lia|lia]|split; vm_compute; reflexivity]. Qed.
