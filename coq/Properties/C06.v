(** C06 - inserting a row or column places it exactly and keeps the rest.
    Only statements, each closed by [exact] and followed by [Print Assumptions]. *)
From TD Require Import Base.Prelude Spec.Grid Spec.Inv Model.Owned Proofs.InsertRow Proofs.InsertCol.

(** accepted [insert_row]/[push_row]: for every shape, index [<= R], element type, capacity
    situation ([spare]) and build mode ([dbg]): the flat buffer is the original with the row
    spliced in at [idx * C]; inserting an empty row into the empty array leaves (0,0) *)
Theorem C06_insert_row_places :
  forall (A : Type) dbg cap spare (t : toodee A) idx xs,
  Inv t -> idx <= num_rows t -> (num_rows t = 0 \/ length xs = num_cols t) ->
  (N.of_nat (length (data t)) + N.of_nat (length xs) <= cap)%N ->
  insert_row dbg cap spare t (N.of_nat idx) (honest_script xs) =
  Ok (mkOp (if length xs =? 0 then mkTD [] 0 0
            else mkTD (firstn (idx * length xs) (data t) ++ xs ++ skipn (idx * length xs) (data t))
                      (num_rows t + 1) (length xs))
           true [] []).
Proof. exact @insert_row_accept. Qed.
Print Assumptions C06_insert_row_places.

(** ... and that layout, read as rows of cells, is the original grid with the row at [idx] *)
Theorem C06_insert_row_grid :
  forall (A : Type) (t : toodee A) idx xs,
  Inv t -> idx <= num_rows t -> length xs = num_cols t -> 0 < num_cols t ->
  to_grid (mkTD (firstn (idx * length xs) (data t) ++ xs ++ skipn (idx * length xs) (data t))
                (num_rows t + 1) (length xs))
  = insert_at idx xs (to_grid t).
Proof. exact @insert_row_grid. Qed.
Print Assumptions C06_insert_row_grid.

(** any other index (every [index < 2^64], in fact every [N]) or length: the call panics,
    the array is untouched (hence still valid) and the items are dropped *)
Theorem C06_insert_row_rejects :
  forall (A : Type) dbg cap spare (t : toodee A) (index : N) xs,
  (N.of_nat (num_rows t) < index)%N \/ (num_rows t <> 0 /\ length xs <> num_cols t) ->
  insert_row dbg cap spare t index (honest_script xs) = Ok (mkOp t false xs []).
Proof. exact @insert_row_reject. Qed.
Print Assumptions C06_insert_row_rejects.

(** accepted [insert_col]/[push_col]: for every shape, index [<= C], capacity situation and
    build mode the back-to-front block-copy loop ends with a buffer whose cell (c, r) of the
    (C+1)-wide result is: the old (c, r) for c < idx, the r-th supplied element for c = idx,
    the old (c-1, r) for c > idx; into the empty array the column becomes an Nx1 array, an
    empty column leaves (0,0).  No slot outside the reserved buffer is touched and the Vec
    never owns an uninitialised slot (the model returns Ok, not UB) *)
Theorem C06_insert_col_places :
  forall (A : Type) dbg cap spare (t : toodee A) idx xs,
  Inv t -> idx <= num_cols t -> (num_cols t = 0 \/ length xs = num_rows t) ->
  (N.of_nat (length (data t)) + N.of_nat (length xs) <= cap)%N ->
  exists d',
    insert_col dbg cap spare t (N.of_nat idx) (honest_script xs)
    = Ok (mkOp (if 0 <? length xs then mkTD d' (length xs) (num_cols t + 1) else mkTD d' 0 0) true [] []) /\
    length d' = (num_cols t + 1) * length xs /\
    (forall r c, r < length xs -> c <= num_cols t ->
       nth_error d' (r * (num_cols t + 1) + c) = fv (data t) xs (num_cols t) idx r c).
Proof. exact @insert_col_accept. Qed.
Print Assumptions C06_insert_col_places.

(** ... which, read as rows of cells, is every original row with the new element inserted
    at [idx] *)
Theorem C06_insert_col_grid :
  forall (A : Type) (data xs d' : list A) nc idx, idx <= nc -> length data = nc * length xs ->
  length d' = (nc + 1) * length xs ->
  (forall r c, r < length xs -> c <= nc -> nth_error d' (r * (nc + 1) + c) = fv data xs nc idx r c) ->
  d' = concat (map2 (fun x row => insert_at idx x row) xs (chunks (length xs) nc data)).
Proof. exact @insert_col_rows. Qed.
Print Assumptions C06_insert_col_grid.

Theorem C06_insert_col_rejects :
  forall (A : Type) dbg cap spare (t : toodee A) (index : N) xs,
  (N.of_nat (num_cols t) < index)%N \/ (num_cols t <> 0 /\ length xs <> num_rows t) ->
  insert_col dbg cap spare t index (honest_script xs) = Ok (mkOp t false xs []).
Proof. exact @insert_col_reject. Qed.
Print Assumptions C06_insert_col_rejects.

(** non-vacuity: a 2x2 array, a row inserted in the middle *)
Example C06_example :
  insert_row true 1000 3 (mkTD [1; 2; 3; 4] 2 2) 1 (honest_script [8; 9])
  = Ok (mkOp (mkTD [1; 2; 8; 9; 3; 4] 3 2) true [] []).
Proof. vm_compute. reflexivity. Qed.

Example C06_example_col :
  insert_col true 1000 0 (mkTD [1; 2; 3; 4] 2 2) 1 (honest_script [8; 9])
  = Ok (mkOp (mkTD [1; 8; 2; 3; 9; 4] 2 3) true [] []).
Proof. vm_compute. reflexivity. Qed.
