(** C12 - leaking a drain, iterator or view leaves a valid array. *)
From Coq Require Import Permutation.
From TD Require Import Base.Prelude Spec.Grid Spec.Inv Model.Iter Model.Owned Model.Hist
  Proofs.RemoveRow Proofs.RemoveCol Proofs.RemoveColLeak Proofs.HistInv.

(** mem::forget of the drain returned by remove_row / pop_row after ANY consumption
    (any interleaving of next / next_back / len): the array is the original without that
    row - a valid shape - the unyielded elements are leaked, none is dropped or duplicated *)
Theorem C12_remove_row_leaked :
  forall (A : Type) (t : toodee A) idx steps,
  Inv t -> idx < num_rows t ->
  let '(obs, yielded, rem) := run_vec_drain steps (row_of t idx) in
  remove_row t (N.of_nat idx) steps ForgetIt
    = Ok (mkDrain (without_row t idx) true obs yielded [] rem)
  /\ Inv (without_row t idx) /\ Permutation (yielded ++ rem) (row_of t idx).
Proof.
  intros A t idx steps Hi Hidx.
  pose proof (remove_row_spec t idx steps ForgetIt Hi Hidx) as H.
  pose proof (run_vec_drain_conserves steps (row_of t idx)) as Hp.
  destruct (run_vec_drain steps (row_of t idx)) as [[obs y] rem].
  split; [exact H|]. split; [apply without_row_inv; assumption|exact Hp].
Qed.
Print Assumptions C12_remove_row_leaked.

(** remove_col / pop_col, any index, any drain script, dropped or leaked: what is left is a
    valid shape (after a leak: the empty array, dimensions (0,0) over an emptied Vec) *)
Theorem C12_remove_col_any_end :
  forall (A : Type) (t : toodee A) index steps fin r,
  Inv t -> remove_col t index steps fin = Ok r -> Inv (d_td r).
Proof. exact @remove_col_inv. Qed.
Print Assumptions C12_remove_col_any_end.

(** mem::forget of the DrainCol after ANY consumption: the call returns (never UB), the
    caller saw the ideal run over the column, and the array is left empty with dimensions
    (0,0) - a valid shape; the elements still in the buffer are leaked, and together with
    the yielded ones they are exactly the array's elements: none dropped, none twice *)
Theorem C12_remove_col_leaked :
  forall (A : Type) (t : toodee A) idx steps,
  Inv t -> idx < num_cols t -> (N.of_nat (length (data t)) < W)%N ->
  let colv := vals (data t) (col_cells (num_cols t) (num_rows t) idx) in
  let obs := fst (fst (run_vec_drain steps colv)) in
  let yielded := snd (fst (run_vec_drain steps colv)) in
  exists leaked,
    remove_col t (N.of_nat idx) steps ForgetIt = Ok (mkDrain (mkTD [] 0 0) true obs yielded [] leaked) /\
    Permutation (yielded ++ leaked) (data t).
Proof. exact @remove_col_leaked_all. Qed.
Print Assumptions C12_remove_col_leaked.

(** histories in which drains are leaked at any step keep a valid array throughout *)
Theorem C12_history_with_leaks :
  forall cf ops l, hrun cf h_init ops = Ok l -> Forall (fun p => Inv (h_td (fst p))) l.
Proof. intros cf ops l. apply hrun_inv. exact h_init_inv. Qed.
Print Assumptions C12_history_with_leaks.

Example C12_example :
  remove_row (mkTD [1; 2; 3; 4; 5; 6]%N 3 2) 0 [DFront] ForgetIt
    = Ok (mkDrain (mkTD [3; 4; 5; 6]%N 2 2) true [ObsItem (Some 1%N)] [1%N] [] [2%N]) /\
  remove_col (mkTD [1; 2; 3; 4; 5; 6]%N 3 2) 1 [DBack] ForgetIt
    = Ok (mkDrain (mkTD [] 0 0) true [ObsItem (Some 6%N)] [6%N] [] [1; 2; 3; 4; 5]%N).
Proof. split; vm_compute; reflexivity. Qed.
