(** C16 - sorting by a row permutes whole columns into order.
    [sigma_of stable by_key keys sigma] is the permutation the side sort produced:
    for the stable variants (sort_by_row, sort_by_row_key, sort_row_ord) it is computed by
    the model's stable sort of the key row; for the unstable variants it is the permutation
    observed from the run ([sigma]), which the correspondence validates on every case
    (a permutation, keys ordered); the theorem holds for ANY permutation. *)
From Coq Require Import Permutation.
From TD Require Import Base.Prelude Model.Iter Model.View Model.Ops
  Proofs.ViewGeom Proofs.Frame Proofs.OpsProofs Proofs.SwapTrace Proofs.SortProofs.

(** build_swap_trace: for every permutation of 0..n-1 the transpositions it returns turn
    the identity arrangement into that permutation; every unchecked index stays in bounds
    (the model returns Ok, not UB) *)
Theorem C16_swap_trace :
  forall sigma, Permutation sigma (seq 0 (length sigma)) ->
  exists tr, build_swap_trace (map (fun i => (i, 0)) sigma) = Ok tr /\
             apply_trace tr (seq 0 (length sigma)) = sigma /\
             Forall (fun p => fst p < length sigma /\ snd p < length sigma) tr.
Proof. exact build_swap_trace_ok. Qed.
Print Assumptions C16_swap_trace.

(** the sort: every result column is one original column, intact, each exactly once:
    result cell (c, r) = original cell (s c, r) for every row r, with s a permutation of
    the columns; nothing outside the receiver changes *)
Theorem C16_sort_by_row :
  forall v b (row : N) stable by_key (sigma : list nat),
  wf_view v -> fits v b -> (row < N.of_nat (vrows v))%N ->
  let keys := row_of v b (N.to_nat row) in
  let s := sigma_of stable by_key keys sigma in
  (stable = false -> Permutation sigma (seq 0 (vcols v))) ->
  Permutation s (seq 0 (vcols v)) /\
  exists b', op_sort_by_row v b row stable by_key sigma = Ok b' /\ length b' = length b /\
    (forall i, ~ in_view v i -> nth_error b' i = nth_error b i) /\
    (forall c r, c < vcols v -> r < vrows v ->
       nth_error b' (v_cell v c r) = nth_error b (v_cell v (sigma_at s c) r)).
Proof. exact op_sort_by_row_spec. Qed.
Print Assumptions C16_sort_by_row.

(** the stable permutation puts the keys in order and keeps equal keys in their original
    left-to-right order (so the result is fully determined) *)
Theorem C16_stable_order :
  forall (ks : list N),
  let sigma := map fst (stable_sort N.leb (enumerate ks)) in
  forall c1 c2, c1 < c2 -> c2 < length ks ->
  let i1 := sigma_at sigma c1 in let i2 := sigma_at sigma c2 in
  (key_at ks i1 < key_at ks i2)%N \/ (key_at ks i1 = key_at ks i2 /\ i1 < i2).
Proof. exact stable_sigma_ordered. Qed.
Print Assumptions C16_stable_order.

(** an out-of-range row (every N) panics *)
Theorem C16_out_of_range :
  forall v b (row : N) stable by_key sigma,
  (N.of_nat (vrows v) <= row)%N -> op_sort_by_row v b row stable by_key sigma = Panic.
Proof. exact op_sort_by_row_reject. Qed.
Print Assumptions C16_out_of_range.

Example C16_example :
  let v := mkView (mkSl 0 8) 4 2 4 in
  let b := [100000 + 2*1024; 100001 + 1*1024; 100002 + 2*1024; 100003 + 1*1024; 10; 11; 12; 13]%N in
  op_sort_by_row v b 0 true true []
  = Ok [100001 + 1*1024; 100003 + 1*1024; 100000 + 2*1024; 100002 + 2*1024; 11; 13; 10; 12]%N.
Proof. vm_compute. reflexivity. Qed.
