(** C07 - removing a row or column yields it in order and closes the gap.
    Rows: full statement.  Columns: see C07_remove_col_* (DrainCol). *)
From Coq Require Import Permutation.
From TD Require Import Base.Prelude Spec.Grid Spec.Inv Model.Owned Proofs.RemoveRow Proofs.RemoveCol.

(** remove_row / pop_row with the drain consumed to any extent, from either end, with any
    interleaving of len(): the observations are those of the ideal run over the row, and
    afterwards - dropped or leaked - the array is the original without that row
    ((0,0) when it was the last one) *)
Theorem C07_remove_row :
  forall (A : Type) (t : toodee A) idx steps fin,
  Inv t -> idx < num_rows t ->
  remove_row t (N.of_nat idx) steps fin =
  let '(obs, yielded, rem) := run_vec_drain steps (row_of t idx) in
  Ok (mkDrain (without_row t idx) true obs yielded
        (match fin with DropIt => rem | ForgetIt => [] end)
        (match fin with DropIt => [] | ForgetIt => rem end)).
Proof. exact @remove_row_spec. Qed.
Print Assumptions C07_remove_row.

Theorem C07_remove_row_out_of_range :
  forall (A : Type) (t : toodee A) (index : N) steps fin,
  (N.of_nat (num_rows t) <= index)%N ->
  remove_row t index steps fin = Ok (mkDrain t false [] [] [] []).
Proof. exact @remove_row_reject. Qed.
Print Assumptions C07_remove_row_out_of_range.

Theorem C07_remove_row_keeps_shape :
  forall (A : Type) (t : toodee A) idx, Inv t -> idx < num_rows t -> Inv (without_row t idx).
Proof. exact @without_row_inv. Qed.
Print Assumptions C07_remove_row_keeps_shape.

(** every element of the row is yielded or left for the destructor, exactly once *)
Theorem C07_drain_conserves :
  forall (A : Type) (steps : list drain_step) (row : list A),
  let '(obs, yielded, rem) := run_vec_drain steps row in Permutation (yielded ++ rem) row.
Proof. exact @run_vec_drain_conserves. Qed.
Print Assumptions C07_drain_conserves.

(** remove_col / pop_col with the DrainCol consumed to any extent from either end (any
    interleaving of next / next_back / len) and then dropped: the caller observed the ideal
    run over the column's elements top to bottom, the destructor dropped the unyielded ones,
    and the array is the original without that column - cell (c, r) of the (C-1)-wide result
    is the old (c, r) for c < idx and the old (c+1, r) otherwise; (0,0) when it was the only
    column.  Every block copy of the compaction stays inside the buffer and never moves a
    moved-out slot (the model returns Ok, not UB): the 0.6.0 heap overflow cannot recur *)
Theorem C07_remove_col :
  forall (A : Type) (t : toodee A) idx steps,
  Inv t -> idx < num_cols t -> (N.of_nat (length (data t)) < W)%N ->
  let nc := num_cols t in let nr := num_rows t in
  let colv := vals (data t) (col_cells nc nr idx) in
  exists d,
    remove_col t (N.of_nat idx) steps DropIt
    = Ok (mkDrain (if 0 <? nc - 1 then mkTD d nr (nc - 1) else mkTD d 0 0) true
            (fst (fst (run_vec_drain steps colv))) (snd (fst (run_vec_drain steps colv)))
            (snd (run_vec_drain steps colv)) []) /\
    length d = (nc - 1) * nr /\
    (forall r c, r < nr -> c < nc - 1 -> nth_error d (r * (nc - 1) + c) = gv (data t) nc idx r c).
Proof. exact @remove_col_dropped. Qed.
Print Assumptions C07_remove_col.

Theorem C07_remove_col_out_of_range :
  forall (A : Type) (t : toodee A) (index : N) steps fin,
  (N.of_nat (num_cols t) <= index)%N -> remove_col t index steps fin = Ok (mkDrain t false [] [] [] []).
Proof. exact @remove_col_reject. Qed.
Print Assumptions C07_remove_col_out_of_range.

Example C07_example_col :
  remove_col (mkTD [1; 2; 3; 4; 5; 6] 2 3) 1 [DBack; DLen; DFront; DFront] DropIt
  = Ok (mkDrain (mkTD [1; 3; 4; 6] 2 2) true
          [ObsItem (Some 5); ObsLen 1; ObsItem (Some 2); ObsItem None] [5; 2] [] []).
Proof. vm_compute. reflexivity. Qed.

Example C07_example :
  remove_row (mkTD [1; 2; 3; 4; 5; 6] 3 2) 1 [DBack; DLen; DFront; DFront] DropIt
  = Ok (mkDrain (mkTD [1; 2; 5; 6] 2 2) true
          [ObsItem (Some 4); ObsLen 1; ObsItem (Some 3); ObsItem None] [4; 3] [] []).
Proof. vm_compute. reflexivity. Qed.
