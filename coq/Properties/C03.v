(** C03 - a view is exactly the requested window of its parent. *)
From TD Require Import Base.Prelude Model.View Proofs.ViewGeom.

(** valid start <= end <= (C,R): view / view_mut on every receiver kind succeed with the
    requested window, which is again well-formed - so the statement applies at any nesting
    depth.  No unchecked range leaves the parent (the result is [Ok], never [UB]). *)
Theorem C03_view_is_requested_window :
  forall k mu p s0 s1 e0 e1, wf_view p -> window_valid p s0 s1 e0 e1 ->
  view_of k mu p s0 s1 e0 e1 = Ok (requested p s0 s1 e0 e1) /\
  wf_view (requested p s0 s1 e0 e1).
Proof. exact view_of_ok. Qed.
Print Assumptions C03_view_is_requested_window.

(** its size is end - start, or (0,0) when either extent is zero *)
Theorem C03_size :
  forall p s0 s1 e0 e1,
  (vcols (requested p s0 s1 e0 e1), vrows (requested p s0 s1 e0 e1)) =
  let nc := N.to_nat e0 - N.to_nat s0 in
  let nr := N.to_nat e1 - N.to_nat s1 in
  if (nc =? 0) || (nr =? 0) then (0, 0) else (nc, nr).
Proof. exact requested_size. Qed.
Print Assumptions C03_size.

(** its cell (c,r) is the parent's cell (start.0 + c, start.1 + r): reads and writes through
    the view reach exactly that buffer index *)
Theorem C03_cell :
  forall p s0 s1 e0 e1 c r,
  N.to_nat e0 - N.to_nat s0 <> 0 -> N.to_nat e1 - N.to_nat s1 <> 0 ->
  v_cell (requested p s0 s1 e0 e1) c r = v_cell p (N.to_nat s0 + c) (N.to_nat s1 + r).
Proof. exact requested_cell. Qed.
Print Assumptions C03_cell.

(** any other start / end (every N, so every usize) panics *)
Theorem C03_invalid_panics :
  forall k mu p s0 s1 e0 e1, wf_view p ->
  ((e0 < s0)%N \/ (e1 < s1)%N \/ (N.of_nat (vcols p) < e0)%N \/ (N.of_nat (vrows p) < e1)%N) ->
  view_of k mu p s0 s1 e0 e1 = Panic.
Proof. exact view_of_reject. Qed.
Print Assumptions C03_invalid_panics.

(** views built directly over a slice *)
Theorem C03_new_accepts :
  forall (c r : N) slen,
  ((c = 0 <-> r = 0))%N -> (c * r < W)%N -> (c * r <= N.of_nat slen)%N ->
  view_new c r slen = Ok (mkView (mkSl 0 (N.to_nat (c * r))) (N.to_nat c) (N.to_nat r) (N.to_nat c)) /\
  wf_view (mkView (mkSl 0 (N.to_nat (c * r))) (N.to_nat c) (N.to_nat r) (N.to_nat c)).
Proof. exact view_new_ok. Qed.
Print Assumptions C03_new_accepts.

Theorem C03_new_rejects :
  forall (c r : N) slen,
  ~ ((c = 0 <-> r = 0))%N \/ (W <= c * r)%N \/ (N.of_nat slen < c * r)%N ->
  view_new c r slen = Panic.
Proof. exact view_new_reject. Qed.
Print Assumptions C03_new_rejects.

(** non-vacuity, including the zero-extent window at the far corner (defect D9) *)
Example C03_example :
  let p := view_of_owned 3 3 9 in
  view_of KOwned false p 3 3 3 3 = Ok (mkView (mkSl 0 0) 0 0 3) /\
  view_of KOwned true p 1 1 3 2 = Ok (mkView (mkSl 4 2) 2 1 3) /\
  view_of KOwned false p 2 2 1 3 = Panic.
Proof. vm_compute. repeat split. Qed.
