(** C14 - copy operations transfer exactly the source cells. *)
From TD Require Import Base.Prelude Model.Iter Model.View Model.Ops Proofs.CopyWide
  Proofs.ViewGeom Proofs.Frame Proofs.OpsProofs Proofs.CopyProofs.

(** copy_from_slice / clone_from_slice: TooDee's flat fast path and the trait default
    (repaired for empty receivers, D10), every receiver shape including (0,0) *)
Theorem C14_copy_from_slice :
  forall k v b (src : list N), wf_view v -> fits v b ->
  (k = KOwned -> vstride v = vcols v) -> length src = vcols v * vrows v ->
  exists b', op_copy_from_slice k v b src = Ok b' /\ length b' = length b /\
    (forall i, ~ in_view v i -> nth_error b' i = nth_error b i) /\
    (forall c r, c < vcols v -> r < vrows v ->
       nth_error b' (v_cell v c r) = nth_error src (r * vcols v + c)).
Proof. exact op_copy_from_slice_spec. Qed.
Print Assumptions C14_copy_from_slice.

Theorem C14_copy_from_slice_size_mismatch :
  forall k v b (src : list N), wf_view v ->
  (k = KOwned -> vstride v = vcols v) -> length src <> vcols v * vrows v ->
  op_copy_from_slice k v b src = Panic.
Proof. exact op_copy_from_slice_reject. Qed.
Print Assumptions C14_copy_from_slice_size_mismatch.

(** copy_from_toodee / clone_from_toodee: [srows] are the source's rows as its rows()
    iterator yields them (owned, view or strided view: C08 gives exactly its rows) *)
Theorem C14_copy_from_toodee :
  forall k v b (srows : list (list N)), wf_view v -> fits v b ->
  (k = KOwned -> vstride v = vcols v) ->
  length srows = vrows v -> Forall (fun r => length r = vcols v) srows ->
  exists b', op_copy_from_toodee k v b (vcols v, vrows v) srows = Ok b' /\ length b' = length b /\
    (forall i, ~ in_view v i -> nth_error b' i = nth_error b i) /\
    (forall c r s, c < vcols v -> nth_error srows r = Some s ->
       nth_error b' (v_cell v c r) = nth_error s c).
Proof. exact op_copy_from_toodee_spec. Qed.
Print Assumptions C14_copy_from_toodee.

Theorem C14_copy_from_toodee_size_mismatch :
  forall k v b sc sr srows,
  (vcols v <> sc \/ vrows v <> sr) -> op_copy_from_toodee k v b (sc, sr) srows = Panic.
Proof. exact op_copy_from_toodee_reject. Qed.
Print Assumptions C14_copy_from_toodee_size_mismatch.

(** copy_within: for EVERY relative placement of the two rectangles (destination above,
    below, left, right, diagonal, identical, overlapping or not, zero-area): the destination
    rectangle equals the source rectangle's PRIOR contents, every other cell is unchanged *)
Theorem C14_copy_within :
  forall oc v b (x0 y0 x1 y1 dx dy : N), wf_view v -> fits v b ->
  (x0 <= x1)%N -> (y0 <= y1)%N -> (x1 <= N.of_nat (vcols v))%N -> (y1 <= N.of_nat (vrows v))%N ->
  (dx + (x1 - x0) <= N.of_nat (vcols v))%N -> (dy + (y1 - y0) <= N.of_nat (vrows v))%N ->
  (N.of_nat (vcols v) < W)%N -> (N.of_nat (vrows v) < W)%N ->
  exists b', op_copy_within oc v b x0 y0 x1 y1 dx dy = Ok b' /\ length b' = length b /\
    (forall i, ~ in_view v i -> nth_error b' i = nth_error b i) /\
    (forall c r, c < vcols v -> r < vrows v ->
       nth_error b' (v_cell v c r) =
       if (N.to_nat dx <=? c) && (c <? N.to_nat dx + (N.to_nat x1 - N.to_nat x0))
          && (N.to_nat dy <=? r) && (r <? N.to_nat dy + (N.to_nat y1 - N.to_nat y0))
       then nth_error b (v_cell v (c - N.to_nat dx + N.to_nat x0) (r - N.to_nat dy + N.to_nat y0))
       else nth_error b (v_cell v c r)).
Proof. exact op_copy_within_spec. Qed.
Print Assumptions C14_copy_within.

(** a rectangle that does not fit panics (for arguments whose sums do not wrap; wrapping
    sums exist only with a zero-area source and a corner near usize::MAX in a build without
    overflow checks - modelled, observed, outside the property's quantifier) *)
Theorem C14_copy_within_rejects :
  forall oc v b (x0 y0 x1 y1 dx dy : N),
  ~ ((x0 <= x1)%N /\ (y0 <= y1)%N /\ (x1 <= N.of_nat (vcols v))%N /\ (y1 <= N.of_nat (vrows v))%N /\
     (dx + (x1 - x0) <= N.of_nat (vcols v))%N /\ (dy + (y1 - y0) <= N.of_nat (vrows v))%N) ->
  op_copy_within oc v b x0 y0 x1 y1 dx dy = Panic.
Proof. exact op_copy_within_reject. Qed.
Print Assumptions C14_copy_within_rejects.

(** ... and the binary-number path of the model (destination corners of ANY magnitude, sums
    of 2^64 and more included): a call whose rectangles do not fit - empty source or not - is
    rejected in both build modes before anything is written.  (Before the D14 repair the
    sums wrapped without overflow checks: a zero-area source was then accepted silently and
    a non-empty one panicked only after some rows had been copied.) *)
Theorem C14_copy_within_far_corner_rejected :
  forall v oc b (x0 y0 x1 y1 dx dy : N),
  ~ ((x0 <= x1)%N /\ (y0 <= y1)%N /\ (x1 <= N.of_nat (vcols v))%N /\ (y1 <= N.of_nat (vrows v))%N /\
     (dx + (x1 - x0) <= N.of_nat (vcols v))%N /\ (dy + (y1 - y0) <= N.of_nat (vrows v))%N) ->
  op_copy_within_w oc v b x0 y0 x1 y1 dx dy = Ok (true, b).
Proof. exact op_copy_within_w_rejects. Qed.
Print Assumptions C14_copy_within_far_corner_rejected.

(** whatever the row loop does, it never touches a cell outside the receiver *)
Theorem C14_copy_within_rows_frame :
  forall v, wf_view v -> forall oc down off_ sx0 sx1 dx e0 rs b,
  fits v b -> Forall (fun r => r < vrows v) rs -> sx0 <= sx1 -> sx1 <= vcols v ->
  exists p b', copy_within_rows_w oc v rs down off_ sx0 sx1 dx e0 b = Ok (p, b') /\
    length b' = length b /\ forall i, ~ in_view v i -> nth_error b' i = nth_error b i.
Proof. exact rows_w_frame. Qed.
Print Assumptions C14_copy_within_rows_frame.

(** the binary-number path is the plain one wherever that one returns, so it models
    copy_within for all arguments: C14_copy_within (and the frame / same-as-owned theorems of
    C04) describe what it does when the destination fits, the theorem above when it does not *)
Theorem C14_copy_within_any_magnitude_agrees :
  forall oc v b b' (x0 y0 x1 y1 dx dy : N),
  (N.of_nat (vrows v) < W)%N ->
  op_copy_within oc v b x0 y0 x1 y1 dx dy = Ok b' ->
  op_copy_within_w oc v b x0 y0 x1 y1 dx dy = Ok (false, b').
Proof. exact op_copy_within_w_agrees. Qed.
Print Assumptions C14_copy_within_any_magnitude_agrees.

(** non-vacuity: on a 4x3, destination corners at usize::MAX (sums of 2^64 + 1), with and
    without overflow checks, and a zero-area source *)
Example C14_far_corner_example :
  let v := view_of_owned 4 3 12 in
  let b := map N.of_nat (seq 0 12) in
  op_copy_within_w false v b 0 0 2 2 0 18446744073709551615 = Ok (true, b) /\
  op_copy_within_w true v b 0 0 2 2 0 18446744073709551615 = Ok (true, b) /\
  op_copy_within_w false v b 0 0 2 1 18446744073709551615 1 = Ok (true, b) /\
  op_copy_within_w false v b 0 0 2 0 18446744073709551615 0 = Ok (true, b) /\
  op_copy_within_w false v b 1 0 3 2 2 1 = Ok (false, map N.of_nat [0; 1; 2; 3; 4; 5; 1; 2; 8; 9; 5; 6]).
Proof. repeat split; vm_compute; reflexivity. Qed.

(** non-vacuity: a down-left overlapping copy on a 6x6 *)
Example C14_example :
  let v := view_of_owned 6 6 36 in
  let b := map N.of_nat (seq 0 36) in
  exists b', op_copy_within true v b 2 0 5 3 1 1 = Ok b' /\
    map (fun i => nth i b' 0%N) [7; 8; 9; 13; 14; 15; 19; 20; 21] = map N.of_nat [2; 3; 4; 8; 9; 10; 14; 15; 16].
Proof. eexists. split; vm_compute; reflexivity. Qed.
