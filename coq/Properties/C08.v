(** C08 - row iterators behave as an ideal double-ended exact-size sequence. *)
From TD Require Import Base.Prelude Model.Iter Model.View Model.IterRun Spec.Ideal
  Proofs.RowsSim Proofs.ColSim Proofs.IterHistory Proofs.ViewGeom
  Model.BigIter Model.BigIterRun Spec.BigIterSpec Proofs.BigIterRefine Proofs.BigIterStep.

(** [rows()] / [rows_mut()] of any well-formed receiver (owned array, view, mutable view,
    any window, stride >= width, empty) start as the ideal sequence of its row slices *)
Theorem C08_rows_start :
  forall v, wf_view v -> exists it, v_rows v = Ok it /\ rows_sim it (view_rows v).
Proof. exact v_rows_sim. Qed.
Print Assumptions C08_rows_start.

(** one call - next, next_back, nth(n), nth_back(n), len, for EVERY n : N (so every
    n <= usize::MAX, including products that overflow) - gives the ideal result and keeps
    the simulation; never UB *)
Theorem C08_step :
  forall dbg it l c, rows_sim it l ->
  exists y s' q', icall_step dbg (SRows it) c = Ok (y, s') /\
                  Ideal.ideal_call (QRows l) c = (y, q') /\ st_sim s' q'.
Proof. intros dbg it l c H. exact (step_sim dbg (SRows it) (QRows l) c H (call_ok_not_cells (SRows it) c eq_refl)). Qed.
Print Assumptions C08_step.

(** every finite interleaving of calls, of any length: every result equals the ideal
    sequence's, and a mutable iteration writes through to exactly the same cells *)
Theorem C08_history :
  forall dbg mutable calls k it l b, rows_sim it l ->
  exists o s' q' b',
    icalls dbg mutable k (SRows it) calls b = Ok (o, s', b') /\
    Ideal.ideal_calls mutable k (QRows l) calls b = (o, q', b') /\ st_sim s' q'.
Proof. intros dbg mu calls k it l b H. exact (history_sim dbg mu calls k (SRows it) (QRows l) b H (calls_ok_not_cells (SRows it) calls eq_refl)). Qed.
Print Assumptions C08_history.

(** count, last, fold, rfold *)
Theorem C08_terminal :
  forall it l t, rows_sim it l -> iterm_step (SRows it) t = Ok (ideal_term (QRows l) t).
Proof. intros it l t H. apply (term_sim (SRows it) (QRows l) t H). exact I. Qed.
Print Assumptions C08_terminal.

(** the rows are pairwise disjoint slices (soundness of rows_mut) *)
Theorem C08_rows_disjoint :
  forall v r1 r2 w1 w2, wf_view v -> r1 < r2 ->
  nth_error (view_rows v) r1 = Some w1 -> nth_error (view_rows v) r2 = Some w2 ->
  off w1 + len w1 <= off w2.
Proof. exact view_rows_disjoint. Qed.
Print Assumptions C08_rows_disjoint.

(** the same code paths over binary numbers (Model/BigIter.v), so that arrays of 2^32 x 2^31
    cells - which zero-sized elements make real - are inside the executable model: each
    function computes what its unary counterpart computes, for every state and every n *)
Theorem C08_binary_model_is_the_model :
  (forall it, rmap rows_res (brows_next it) = rows_next (rows_of it)) /\
  (forall it, rmap rows_res (brows_next_back it) = rows_next_back (rows_of it)) /\
  (forall it n, rmap rows_res (brows_nth it n) = rows_nth (rows_of it) n) /\
  (forall it n, rmap rows_res (brows_nth_back it n) = rows_nth_back (rows_of it) n) /\
  (forall it, N.to_nat (brows_len it) = rows_len (rows_of it)) /\
  (forall v, rmap rows_of (bv_rows v) = v_rows (view_of_b v)) /\
  (forall k mu p s0 s1 e0 e1, rmap view_of_b (bview_of k mu p s0 s1 e0 e1) = view_of k mu (view_of_b p) s0 s1 e0 e1).
Proof.
  repeat split; [exact rows_next_ref|exact rows_next_back_ref|exact rows_nth_ref|exact rows_nth_back_ref
                |exact rows_len_ref|exact v_rows_ref|exact view_of_ref].
Qed.
Print Assumptions C08_binary_model_is_the_model.

(** rows() / rows_mut() of a well-formed receiver of ANY size, then ANY finite history of
    next / next_back / nth(n) / nth_back(n) / len with every n : N: the model never fails,
    and what it prints is what the ideal sequence prints, stated as two counters (items
    taken from the front and from the back of [num_rows] rows of [num_cols] cells) - no
    stride, no product that could overflow.  This is the oracle family 10 evaluates. *)
Theorem C08_any_size_any_history :
  forall dbg (v : bview) cs, wf_view (view_of_b v) ->
  exists it o s', bv_rows v = Ok it /\ bcalls dbg (BRows it) cs = Ok (o, s') /\
    o = fst (BigIterSpec.ideal_calls (bvrows v) [bvcols v] false (0%N, 0%N) cs).
Proof. exact big_rows_end_to_end. Qed.
Print Assumptions C08_any_size_any_history.

(** non-vacuity at the sizes the unary model cannot write down: a one-column window of a
    2^32 x 2^31 array (stride 2^32, 2^31 rows); nth(2^32) - whose product with the stride is
    2^64 - exhausts it, nth(5) does not *)
Example C08_example_huge :
  let v := mkBview (mkBsl 7 9223372032559808513) 1 2147483648 4294967296 in
  wf_view (view_of_b v) /\
  (it <- bv_rows v ;; r <- brows_nth it 4294967296 ;; Ok (fst r, brows_len (snd r))) = Ok (None, 0%N) /\
  (it <- bv_rows v ;; r <- brows_nth it 5 ;; Ok (fst r, brows_len (snd r)))
    = Ok (Some (mkBsl 21474836487 1), 2147483642%N).
Proof.
  split; [|split; vm_compute; reflexivity].
  unfold wf_view, view_of_b, sl_of, W. cbn [vw vrows vcols vstride len off bvw bvrows bvcols bvstride boff blen].
  split; [lia|].
  replace (N.to_nat 2147483648) with (S (N.to_nat 2147483647)) by lia. lia.
Qed.

(** non-vacuity: a 2x3 window of a 4-wide parent; nth(usize::MAX) empties it *)
Example C08_example :
  let v := mkView (mkSl 5 10) 2 3 4 in
  wf_view v /\
  (it <- v_rows v ;; r <- rows_nth it 1 ;; r2 <- rows_nth (snd r) 18446744073709551615 ;;
   Ok (fst r, fst r2, rows_len (snd r2)))
  = Ok (Some (mkSl 9 2), None, 0).
Proof. split; [split; cbn; [unfold W; lia|lia]|vm_compute; reflexivity]. Qed.
