(** C08 - row iterators behave as an ideal double-ended exact-size sequence. *)
From TD Require Import Base.Prelude Model.Iter Model.View Model.IterRun Spec.Ideal
  Proofs.RowsSim Proofs.ColSim Proofs.IterHistory Proofs.ViewGeom.

(** [rows()] / [rows_mut()] of any well-formed receiver (owned array, view, mutable view,
    any window, stride >= width, empty) start as the ideal sequence of its row slices *)
Theorem C08_rows_start :
  forall v, wf_view v -> exists it, v_rows v = Ok it /\ rows_sim it (view_rows v).
Proof. exact v_rows_sim. Qed.
Print Assumptions C08_rows_start.

(** one call - next, next_back, nth(n), nth_back(n), len, for EVERY n : N (so every
    n <= usize::MAX, including products that overflow) - gives the ideal result and keeps
    the simulation; never UB *)
Theorem C08_step :
  forall dbg it l c, rows_sim it l ->
  exists y s' q', icall_step dbg (SRows it) c = Ok (y, s') /\
                  ideal_call (QRows l) c = (y, q') /\ st_sim s' q'.
Proof. intros dbg it l c H. exact (step_sim dbg (SRows it) (QRows l) c H (call_ok_not_cells (SRows it) c eq_refl)). Qed.
Print Assumptions C08_step.

(** every finite interleaving of calls, of any length: every result equals the ideal
    sequence's, and a mutable iteration writes through to exactly the same cells *)
Theorem C08_history :
  forall dbg mutable calls k it l b, rows_sim it l ->
  exists o s' q' b',
    icalls dbg mutable k (SRows it) calls b = Ok (o, s', b') /\
    ideal_calls mutable k (QRows l) calls b = (o, q', b') /\ st_sim s' q'.
Proof. intros dbg mu calls k it l b H. exact (history_sim dbg mu calls k (SRows it) (QRows l) b H (calls_ok_not_cells (SRows it) calls eq_refl)). Qed.
Print Assumptions C08_history.

(** count, last, fold, rfold *)
Theorem C08_terminal :
  forall it l t, rows_sim it l -> iterm_step (SRows it) t = Ok (ideal_term (QRows l) t).
Proof. intros it l t H. apply (term_sim (SRows it) (QRows l) t H). exact I. Qed.
Print Assumptions C08_terminal.

(** the rows are pairwise disjoint slices (soundness of rows_mut) *)
Theorem C08_rows_disjoint :
  forall v r1 r2 w1 w2, wf_view v -> r1 < r2 ->
  nth_error (view_rows v) r1 = Some w1 -> nth_error (view_rows v) r2 = Some w2 ->
  off w1 + len w1 <= off w2.
Proof. exact view_rows_disjoint. Qed.
Print Assumptions C08_rows_disjoint.

(** non-vacuity: a 2x3 window of a 4-wide parent; nth(usize::MAX) empties it *)
Example C08_example :
  let v := mkView (mkSl 5 10) 2 3 4 in
  wf_view v /\
  (it <- v_rows v ;; r <- rows_nth it 1 ;; r2 <- rows_nth (snd r) 18446744073709551615 ;;
   Ok (fst r, fst r2, rows_len (snd r2)))
  = Ok (Some (mkSl 9 2), None, 0).
Proof. split; [split; cbn; [unfold W; lia|lia]|vm_compute; reflexivity]. Qed.
