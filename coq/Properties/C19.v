(** C19 - deserialisation accepts only consistent documents and never panics. *)
From TD Require Import Base.Prelude Spec.Grid Spec.Inv Model.Owned Model.Serde Proofs.SerdeProofs.

(** for EVERY document (any fields in any order, duplicated, unknown, any value kinds, any
    integer sizes including >= 2^64), every transport, map or non-map top level: the
    result is an error or an array - the asserting constructor behind the visitor is never
    reached with arguments it rejects *)
Theorem C19_never_panics :
  forall tr top d, deserialize tr top d <> DePanic.
Proof. exact deserialize_never_panics. Qed.
Print Assumptions C19_never_panics.

(** an accepted document yields a valid shape (product = length, zero rule) whose
    dimensions and cells are exactly the document's num_cols, num_rows and (last) data
    values; so nothing with an overflowing product, a length mismatch or exactly one zero
    dimension is ever accepted *)
Theorem C19_accepts_only_consistent :
  forall tr top d t, deserialize tr top d = DeOk t ->
  top = true /\ Inv t /\ (N.of_nat (length (data t)) < W)%N /\ accepted_fields d t.
Proof. exact deserialize_accepts. Qed.
Print Assumptions C19_accepts_only_consistent.

Example C19_example :
  deserialize TStr true [(KData, JArr []); (KRows, JUInt 5); (KCols, JUInt 0)] = DeErr /\
  deserialize TStr true [(KCols, JUInt 4294967296); (KRows, JUInt 4294967296); (KData, JArr [])] = DeErr /\
  deserialize TStr true [(KData, JArr [JUInt 1]); (KData, JArr [JUInt 3; JUInt 4]); (KRows, JUInt 1); (KCols, JUInt 2)]
    = DeOk (mkTD [3; 4]%N 1 2).
Proof. repeat split; vm_compute; reflexivity. Qed.
