(** C17 - sorting by a column permutes whole rows into order.
    As C16 with rows and columns exchanged; the row moves go through the implementor's own
    swap_rows (TooDee's, TooDeeViewMut's, or the trait default), [k]. *)
From Coq Require Import Permutation.
From TD Require Import Base.Prelude Model.Iter Model.View Model.Ops
  Proofs.ViewGeom Proofs.Frame Proofs.OpsProofs Proofs.SwapTrace Proofs.SortProofs.

Theorem C17_sort_by_col :
  forall k v b (col : N) stable by_key (sigma : list nat),
  wf_view v -> fits v b -> (k = KOwned -> vstride v = vcols v) -> (col < N.of_nat (vcols v))%N ->
  let keys := col_of v b (N.to_nat col) in
  let s := sigma_of stable by_key keys sigma in
  (stable = false -> Permutation sigma (seq 0 (vrows v))) ->
  Permutation s (seq 0 (vrows v)) /\
  exists b', op_sort_by_col k v b col stable by_key sigma = Ok b' /\ length b' = length b /\
    (forall i, ~ in_view v i -> nth_error b' i = nth_error b i) /\
    (forall c r, c < vcols v -> r < vrows v ->
       nth_error b' (v_cell v c r) = nth_error b (v_cell v c (sigma_at s r))).
Proof. exact op_sort_by_col_spec. Qed.
Print Assumptions C17_sort_by_col.

Theorem C17_stable_order :
  forall (ks : list N),
  let sigma := map fst (stable_sort N.leb (enumerate ks)) in
  forall r1 r2, r1 < r2 -> r2 < length ks ->
  let i1 := sigma_at sigma r1 in let i2 := sigma_at sigma r2 in
  (key_at ks i1 < key_at ks i2)%N \/ (key_at ks i1 = key_at ks i2 /\ i1 < i2).
Proof. exact stable_sigma_ordered. Qed.
Print Assumptions C17_stable_order.

Theorem C17_out_of_range :
  forall k v b (col : N) stable by_key sigma,
  (N.of_nat (vcols v) <= col)%N -> op_sort_by_col k v b col stable by_key sigma = Panic.
Proof. exact op_sort_by_col_reject. Qed.
Print Assumptions C17_out_of_range.

Example C17_example :
  let v := mkView (mkSl 0 6) 2 3 2 in
  let b := [100000 + 3*1024; 1; 100001 + 1*1024; 2; 100002 + 3*1024; 3]%N in
  op_sort_by_col KOwned v b 0 true true []
  = Ok [100001 + 1*1024; 2; 100000 + 3*1024; 1; 100002 + 3*1024; 3]%N.
Proof. vm_compute. reflexivity. Qed.
