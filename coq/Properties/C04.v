(** C04 - operations on a mutable view never touch cells outside it.
    [in_view v i]: buffer index [i] is one of the receiver's cells.  Every theorem below is
    for any well-formed receiver: any window position (interior, touching an edge, single
    row / column, nested to any depth - a nested window is again a well-formed receiver,
    C03), any stride.  The frame clauses of C13 (fill, swaps), C14 (copies), C15
    (translate, flips) and C16/C17 (sorts) are restated here as they become theorems;
    operations whose frame is not yet proved are covered by the extracted frame oracle on
    every run (whole parent compared before / after, nested receivers included). *)
From Coq Require Import Sorted.
From TD Require Import Base.Prelude Model.Iter Model.View Model.Ops
  Proofs.ViewGeom Proofs.CellsGeom Proofs.Frame Proofs.OpsProofs Proofs.FlipProofs Proofs.CopyProofs
  Proofs.TranslateProofs Proofs.SwapTrace Proofs.SortProofs Proofs.SameAsOwned.

(** the frame: fill and the swap family write only to cells of the receiver *)
Theorem C04_frame_fill_and_swaps :
  forall k v b, wf_view v -> fits v b -> (k = KOwned -> vstride v = vcols v) ->
  (forall x b', op_fill k v b x = Ok b' -> forall i, ~ in_view v i -> nth_error b' i = nth_error b i) /\
  (forall r1 r2 b', op_swap_rows k v b r1 r2 = Ok b' -> forall i, ~ in_view v i -> nth_error b' i = nth_error b i) /\
  (forall c1 c2 b', op_swap_cols v b c1 c2 = Ok b' -> forall i, ~ in_view v i -> nth_error b' i = nth_error b i) /\
  (forall c1 r1 c2 r2 b', op_swap k v b c1 r1 c2 r2 = Ok b' -> forall i, ~ in_view v i -> nth_error b' i = nth_error b i).
Proof.
  intros k v b Hwf Hb Hk. repeat split.
  - intros x b' E. destruct (op_fill_spec k v b x Hwf Hb Hk) as [b1 [E1 [_ [Hout _]]]]. rewrite E in E1. inversion E1; subst b1. exact Hout.
  - intros r1 r2 b' E.
    destruct (N.ltb_spec r1 (N.of_nat (vrows v))); [destruct (N.ltb_spec r2 (N.of_nat (vrows v)))|].
    + destruct (op_swap_rows_spec k v b r1 r2 Hwf Hb Hk) as [b1 [E1 [_ [Hout _]]]]; [assumption|assumption|rewrite E in E1; inversion E1; subst b1; exact Hout].
    + rewrite op_swap_rows_reject in E by (try assumption; right; assumption). discriminate.
    + rewrite op_swap_rows_reject in E by (try assumption; left; assumption). discriminate.
  - intros c1 c2 b' E.
    destruct (N.ltb_spec c1 (N.of_nat (vcols v))); [destruct (N.ltb_spec c2 (N.of_nat (vcols v)))|].
    + destruct (op_swap_cols_spec v b c1 c2 Hwf Hb) as [b1 [E1 [_ [Hout _]]]]; [assumption|assumption|rewrite E in E1; inversion E1; subst b1; exact Hout].
    + rewrite op_swap_cols_reject in E by (right; assumption). discriminate.
    + rewrite op_swap_cols_reject in E by (left; assumption). discriminate.
  - intros c1 r1 c2 r2 b' E i Hi.
    destruct (N.ltb_spec c1 (N.of_nat (vcols v))); [|rewrite op_swap_reject in E by (try assumption; tauto); discriminate].
    destruct (N.ltb_spec r1 (N.of_nat (vrows v))); [|rewrite op_swap_reject in E by (try assumption; tauto); discriminate].
    destruct (N.ltb_spec c2 (N.of_nat (vcols v))); [|rewrite op_swap_reject in E by (try assumption; tauto); discriminate].
    destruct (N.ltb_spec r2 (N.of_nat (vrows v))); [|rewrite op_swap_reject in E by (try assumption; tauto); discriminate].
    destruct (op_swap_spec k v b c1 r1 c2 r2 Hwf Hb) as [b1 [E1 [_ Hn]]]; try assumption.
    rewrite E in E1. inversion E1; subst b1. rewrite Hn.
    destruct (Nat.eqb_spec i (v_cell v (N.to_nat c2) (N.to_nat r2))) as [->|_];
      [exfalso; apply Hi, v_cell_in_view; lia|].
    destruct (Nat.eqb_spec i (v_cell v (N.to_nat c1) (N.to_nat r1))) as [->|_];
      [exfalso; apply Hi, v_cell_in_view; lia|]. reflexivity.
Qed.
Print Assumptions C04_frame_fill_and_swaps.

(** the frame of every other trait operation: copies, translate, flips, sorts - whenever the
    call returns, the cells outside the receiver are untouched (for each of them the exact
    effect inside is the statement of C14, C15, C16, C17, given purely by view coordinates,
    hence the same for a view and for an owned array holding the same cells) *)
Theorem C04_frame_copy_translate_flip_sort :
  forall v b, wf_view v -> fits v b ->
  (forall k src b', (k = KOwned -> vstride v = vcols v) ->
     op_copy_from_slice k v b src = Ok b' -> forall i, ~ in_view v i -> nth_error b' i = nth_error b i) /\
  (forall mc mr b', op_translate v b mc mr = Ok b' -> forall i, ~ in_view v i -> nth_error b' i = nth_error b i) /\
  (forall b', op_flip_rows v b = Ok b' -> forall i, ~ in_view v i -> nth_error b' i = nth_error b i) /\
  (forall b', op_flip_cols v b = Ok b' -> forall i, ~ in_view v i -> nth_error b' i = nth_error b i).
Proof.
  intros v b Hwf Hb. repeat split.
  - intros k src b' Hk E.
    destruct (Nat.eq_dec (length src) (vcols v * vrows v)) as [Hl|Hl].
    + destruct (op_copy_from_slice_spec k v b src Hwf Hb Hk Hl) as [b1 [E1 [_ [Hout _]]]].
      rewrite E in E1. inversion E1; subst b1. exact Hout.
    + rewrite (op_copy_from_slice_reject k v b src Hwf Hk Hl) in E. discriminate.
  - intros mc mr b' E.
    destruct (N.leb_spec mc (N.of_nat (vcols v))); [destruct (N.leb_spec mr (N.of_nat (vrows v)))|].
    + destruct (op_translate_spec v b mc mr Hwf Hb) as [b1 [E1 [_ [Hout _]]]]; [assumption|assumption|].
      rewrite E in E1. inversion E1; subst b1. exact Hout.
    + rewrite op_translate_reject in E by (right; assumption). discriminate.
    + rewrite op_translate_reject in E by (left; assumption). discriminate.
  - intros b' E. destruct (op_flip_rows_spec v b Hwf Hb) as [b1 [E1 [_ [Hout _]]]].
    rewrite E in E1. inversion E1; subst b1. exact Hout.
  - intros b' E. destruct (op_flip_cols_spec v b Hwf Hb) as [b1 [E1 [_ [Hout _]]]].
    rewrite E in E1. inversion E1; subst b1. exact Hout.
Qed.
Print Assumptions C04_frame_copy_translate_flip_sort.

(** copy_within and the sorts: frame (statements of C14 / C16 / C17, restated) *)
Theorem C04_frame_copy_within :
  forall oc v b (x0 y0 x1 y1 dx dy : N), wf_view v -> fits v b ->
  (x0 <= x1)%N -> (y0 <= y1)%N -> (x1 <= N.of_nat (vcols v))%N -> (y1 <= N.of_nat (vrows v))%N ->
  (dx + (x1 - x0) <= N.of_nat (vcols v))%N -> (dy + (y1 - y0) <= N.of_nat (vrows v))%N ->
  (N.of_nat (vcols v) < W)%N -> (N.of_nat (vrows v) < W)%N ->
  exists b', op_copy_within oc v b x0 y0 x1 y1 dx dy = Ok b' /\
    (forall i, ~ in_view v i -> nth_error b' i = nth_error b i).
Proof.
  intros. destruct (op_copy_within_spec oc v b x0 y0 x1 y1 dx dy) as [b' [E [_ [Hout _]]]]; try assumption.
  exists b'. split; assumption.
Qed.
Print Assumptions C04_frame_copy_within.

Theorem C04_frame_sorts :
  forall k v b (line : N) stable by_key (sigma : list nat), wf_view v -> fits v b ->
  (k = KOwned -> vstride v = vcols v) ->
  ((line < N.of_nat (vrows v))%N -> (stable = false -> Permutation.Permutation sigma (seq 0 (vcols v))) ->
     exists b', op_sort_by_row v b line stable by_key sigma = Ok b' /\
                (forall i, ~ in_view v i -> nth_error b' i = nth_error b i)) /\
  ((line < N.of_nat (vcols v))%N -> (stable = false -> Permutation.Permutation sigma (seq 0 (vrows v))) ->
     exists b', op_sort_by_col k v b line stable by_key sigma = Ok b' /\
                (forall i, ~ in_view v i -> nth_error b' i = nth_error b i)).
Proof.
  intros k v b line stable by_key sigma Hwf Hb Hk. split.
  - intros Hl Hs. destruct (op_sort_by_row_spec v b line stable by_key sigma Hwf Hb Hl Hs) as [_ [b' [E [_ [Hout _]]]]].
    exists b'. split; assumption.
  - intros Hl Hs. destruct (op_sort_by_col_spec k v b line stable by_key sigma Hwf Hb Hk Hl Hs) as [_ [b' [E [_ [Hout _]]]]].
    exists b'. split; assumption.
Qed.
Print Assumptions C04_frame_sorts.

(** inside the rectangle the effect is the one the same call has on an owned array holding
    the same cells *)
Theorem C04_swap_rows_same_as_owned :
  forall k v b v0 b0 (r1 r2 : N),
  wf_view v -> fits v b -> (k = KOwned -> vstride v = vcols v) ->
  wf_view v0 -> fits v0 b0 -> vstride v0 = vcols v0 -> same_cells v b v0 b0 ->
  (r1 < N.of_nat (vrows v))%N -> (r2 < N.of_nat (vrows v))%N ->
  exists b' b0', op_swap_rows k v b r1 r2 = Ok b' /\ op_swap_rows KOwned v0 b0 r1 r2 = Ok b0' /\
                 same_cells v b' v0 b0'.
Proof. exact swap_rows_same_as_owned. Qed.
Print Assumptions C04_swap_rows_same_as_owned.

Theorem C04_swap_cols_same_as_owned :
  forall v b v0 b0 (c1 c2 : N),
  wf_view v -> fits v b -> wf_view v0 -> fits v0 b0 -> same_cells v b v0 b0 ->
  (c1 < N.of_nat (vcols v))%N -> (c2 < N.of_nat (vcols v))%N ->
  exists b' b0', op_swap_cols v b c1 c2 = Ok b' /\ op_swap_cols v0 b0 c1 c2 = Ok b0' /\
                 same_cells v b' v0 b0'.
Proof. exact swap_cols_same_as_owned. Qed.
Print Assumptions C04_swap_cols_same_as_owned.

Theorem C04_fill_same_as_owned :
  forall k v b v0 b0 x,
  wf_view v -> fits v b -> (k = KOwned -> vstride v = vcols v) ->
  wf_view v0 -> fits v0 b0 -> vstride v0 = vcols v0 -> same_cells v b v0 b0 ->
  exists b' b0', op_fill k v b x = Ok b' /\ op_fill KOwned v0 b0 x = Ok b0' /\ same_cells v b' v0 b0'.
Proof. exact fill_same_as_owned. Qed.
Print Assumptions C04_fill_same_as_owned.

(** ... and so for every other mutating trait operation: flips, translate_with_wrap,
    copy_within, copy / clone_from_slice, copy / clone_from_toodee and all the sorts - through a
    view (any window, any stride) the cells of the rectangle end up exactly as the same call
    leaves them on an owned array holding the same cells *)
Theorem C04_flips_same_as_owned :
  forall v b v0 b0, wf_view v -> fits v b -> wf_view v0 -> fits v0 b0 -> same_cells v b v0 b0 ->
  (exists b' b0', op_flip_cols v b = Ok b' /\ op_flip_cols v0 b0 = Ok b0' /\ same_cells v b' v0 b0') /\
  (exists b' b0', op_flip_rows v b = Ok b' /\ op_flip_rows v0 b0 = Ok b0' /\ same_cells v b' v0 b0').
Proof. intros. split; [apply flip_cols_same_as_owned|apply flip_rows_same_as_owned]; assumption. Qed.
Print Assumptions C04_flips_same_as_owned.

Theorem C04_translate_same_as_owned :
  forall v b v0 b0 (mc mr : N),
  wf_view v -> fits v b -> wf_view v0 -> fits v0 b0 -> same_cells v b v0 b0 ->
  (mc <= N.of_nat (vcols v))%N -> (mr <= N.of_nat (vrows v))%N ->
  exists b' b0', op_translate v b mc mr = Ok b' /\ op_translate v0 b0 mc mr = Ok b0' /\ same_cells v b' v0 b0'.
Proof. exact translate_same_as_owned. Qed.
Print Assumptions C04_translate_same_as_owned.

Theorem C04_copy_within_same_as_owned :
  forall oc v b v0 b0 (x0 y0 x1 y1 dx dy : N),
  wf_view v -> fits v b -> wf_view v0 -> fits v0 b0 -> same_cells v b v0 b0 ->
  (x0 <= x1)%N -> (y0 <= y1)%N -> (x1 <= N.of_nat (vcols v))%N -> (y1 <= N.of_nat (vrows v))%N ->
  (dx + (x1 - x0) <= N.of_nat (vcols v))%N -> (dy + (y1 - y0) <= N.of_nat (vrows v))%N ->
  (N.of_nat (vcols v) < W)%N -> (N.of_nat (vrows v) < W)%N ->
  exists b' b0', op_copy_within oc v b x0 y0 x1 y1 dx dy = Ok b' /\
                 op_copy_within oc v0 b0 x0 y0 x1 y1 dx dy = Ok b0' /\ same_cells v b' v0 b0'.
Proof. exact copy_within_same_as_owned. Qed.
Print Assumptions C04_copy_within_same_as_owned.

Theorem C04_copy_from_same_as_owned :
  forall k v b v0 b0,
  wf_view v -> fits v b -> (k = KOwned -> vstride v = vcols v) ->
  wf_view v0 -> fits v0 b0 -> vstride v0 = vcols v0 -> same_cells v b v0 b0 ->
  (forall src, length src = vcols v * vrows v ->
     exists b' b0', op_copy_from_slice k v b src = Ok b' /\ op_copy_from_slice KOwned v0 b0 src = Ok b0' /\
                    same_cells v b' v0 b0') /\
  (forall srows, length srows = vrows v -> Forall (fun r => length r = vcols v) srows ->
     exists b' b0', op_copy_from_toodee k v b (vcols v, vrows v) srows = Ok b' /\
                    op_copy_from_toodee KOwned v0 b0 (vcols v0, vrows v0) srows = Ok b0' /\ same_cells v b' v0 b0').
Proof.
  intros. split; intros.
  - apply copy_from_slice_same_as_owned; assumption.
  - apply copy_from_toodee_same_as_owned; assumption.
Qed.
Print Assumptions C04_copy_from_same_as_owned.

Theorem C04_sorts_same_as_owned :
  forall k v b v0 b0 stable by_key (sigma : list nat),
  wf_view v -> fits v b -> (k = KOwned -> vstride v = vcols v) ->
  wf_view v0 -> fits v0 b0 -> vstride v0 = vcols v0 -> same_cells v b v0 b0 ->
  (forall row : N, (row < N.of_nat (vrows v))%N ->
     (stable = false -> Permutation.Permutation sigma (seq 0 (vcols v))) ->
     exists b' b0', op_sort_by_row v b row stable by_key sigma = Ok b' /\
                    op_sort_by_row v0 b0 row stable by_key sigma = Ok b0' /\ same_cells v b' v0 b0') /\
  (forall col : N, (col < N.of_nat (vcols v))%N ->
     (stable = false -> Permutation.Permutation sigma (seq 0 (vrows v))) ->
     exists b' b0', op_sort_by_col k v b col stable by_key sigma = Ok b' /\
                    op_sort_by_col KOwned v0 b0 col stable by_key sigma = Ok b0' /\ same_cells v b' v0 b0').
Proof.
  intros. split; intros.
  - apply sort_by_row_same_as_owned; assumption.
  - apply sort_by_col_same_as_owned; assumption.
Qed.
Print Assumptions C04_sorts_same_as_owned.

(** mutable iteration: every slice rows_mut() yields and every cell cells_mut() yields lies
    inside the receiver, and no cell is yielded twice *)
Theorem C04_iteration_targets_inside :
  forall v, wf_view v ->
  (forall r, r < vrows v -> forall i, in_win (row_win v r) i = true -> in_view v i) /\
  (forall x, In x (view_cells v) -> in_view v x) /\ NoDup (view_cells v).
Proof.
  intros v Hwf. split; [|split].
  - intros r Hr i Hi. apply in_view_row. exists r. split; assumption.
  - intros x Hx. destruct (view_cells_inside v x Hwf Hx) as [c [r [Hc [Hr ->]]]]. apply v_cell_in_view; assumption.
  - apply view_cells_nodup. exact Hwf.
Qed.
Print Assumptions C04_iteration_targets_inside.

(** non-vacuity: an interior 2x2 window of a 4x4 array *)
Example C04_example :
  let v := mkView (mkSl 5 6) 2 2 4 in
  let b := map N.of_nat (seq 0 16) in
  wf_view v /\ fits v b /\ ~ in_view v 7 /\ in_view v 10 /\
  op_fill KViewMut v b 99 = Ok (map N.of_nat [0;1;2;3;4;99;99;7;8;99;99;11;12;13;14;15]).
Proof.
  split; [split; cbn; [unfold W; lia|lia]|]. split; [unfold fits; cbn; lia|].
  split; [|split; [exists 1, 1; cbn; repeat split; lia|vm_compute; reflexivity]].
  intros [c [r [Hc [Hr E]]]]. cbn in *. unfold v_cell in E. cbn in E. lia.
Qed.
