(** The row / column iterators and the view geometry once more, over binary numbers [N]
    instead of unary [nat]: the same code paths of src/iter.rs and src/view.rs, executable
    on shapes of 2^32 x 2^31 cells and beyond (zero-sized elements make such arrays free in
    the implementation; the unary model cannot even write their dimensions down).
    Definitions only.  Proofs/BigIterRefine.v proves that each function here computes
    exactly what its unary counterpart in Model/Iter.v / Model/View.v computes, so every
    theorem about those holds for these. *)
From TD Require Import Base.Prelude Model.Iter Model.View.
Local Open Scope N_scope.

Record bsl : Type := mkBsl { boff : N; blen : N }.
Definition bsl_empty : bsl := mkBsl 0 0.
Definition bsl_is_empty (s : bsl) : bool := blen s =? 0.
Definition bsplit_at (s : bsl) (k : N) : res (bsl * bsl) :=
  if k <=? blen s then Ok (mkBsl (boff s) k, mkBsl (boff s + k) (blen s - k)) else Panic.
Definition bget_from (s : bsl) (a : N) : res bsl :=
  if a <=? blen s then Ok (mkBsl (boff s + a) (blen s - a)) else UB.
Definition bget_to (s : bsl) (b : N) : res bsl :=
  if b <=? blen s then Ok (mkBsl (boff s) b) else UB.
Definition bget_range (s : bsl) (a b : N) : res bsl :=
  if (a <=? b) && (b <=? blen s) then Ok (mkBsl (boff s + a) (b - a)) else UB.
Definition bindex_range (s : bsl) (a b : N) : res bsl :=
  if (a <=? b) && (b <=? blen s) then Ok (mkBsl (boff s + a) (b - a)) else Panic.
Definition busub (a b : N) : res N := if b <=? a then Ok (a - b) else UB.

(** * Rows / RowsMut *)
Record brows : Type := mkBrows { brv : bsl; brcols : N; brskip : N }.
Definition brows_set (it : brows) (v : bsl) : brows := mkBrows v (brcols it) (brskip it).

Definition brows_next (it : brows) : res (option bsl * brows) :=
  if bsl_is_empty (brv it) then Ok (None, it)
  else
    p <- bsplit_at (brv it) (brcols it) ;;
    let '(fst_, snd_) := p in
    if bsl_is_empty snd_ then Ok (Some fst_, brows_set it bsl_empty)
    else v' <- bget_from snd_ (brskip it) ;; Ok (Some fst_, brows_set it v').

Definition brows_len (it : brows) : N :=
  if brcols it =? 0 then 0
  else
    let l := blen (brv it) in
    let denom := brcols it + brskip it in
    l / denom + (l mod denom) / brcols it.

Definition brows_nth (it : brows) (n : N) : res (option bsl * brows) :=
  let '(start, overflow) := overflowing_mul n (brcols it + brskip it) in
  if (blen (brv it) <=? start) || overflow then
    brows_next (brows_set it bsl_empty)
  else
    p <- bsplit_at (brv it) start ;;
    brows_next (brows_set it (snd p)).

Definition brows_next_back (it : brows) : res (option bsl * brows) :=
  if bsl_is_empty (brv it) then Ok (None, it)
  else
    k <- busub (blen (brv it)) (brcols it) ;;
    p <- bsplit_at (brv it) k ;;
    let '(fst_, snd_) := p in
    if bsl_is_empty fst_ then Ok (Some snd_, brows_set it bsl_empty)
    else
      k2 <- busub (blen fst_) (brskip it) ;;
      v' <- bget_to fst_ k2 ;;
      Ok (Some snd_, brows_set it v').

Definition brows_nth_back (it : brows) (n : N) : res (option bsl * brows) :=
  let '(adj, overflow) := overflowing_mul n (brcols it + brskip it) in
  if (blen (brv it) <=? adj) || overflow then
    brows_next_back (brows_set it bsl_empty)
  else
    k <- busub (blen (brv it)) adj ;;
    v' <- bget_to (brv it) k ;;
    brows_next_back (brows_set it v').

(** * Col / ColMut *)
Record bcol : Type := mkBcol { bcv : bsl; bcskip : N }.
Definition bcol_set (it : bcol) (v : bsl) : bcol := mkBcol v (bcskip it).

Definition bcol_next (it : bcol) : res (option N * bcol) :=
  if bsl_is_empty (bcv it) then Ok (None, it)
  else
    let fst_ := boff (bcv it) in
    let snd_ := mkBsl (boff (bcv it) + 1) (blen (bcv it) - 1) in
    if bsl_is_empty snd_ then Ok (Some fst_, bcol_set it bsl_empty)
    else v' <- bget_from snd_ (bcskip it) ;; Ok (Some fst_, bcol_set it v').

Definition bcol_len (it : bcol) : N :=
  let l := blen (bcv it) in
  let denom := 1 + bcskip it in
  l / denom + l mod denom.

Definition bcol_nth (it : bcol) (n : N) : res (option N * bcol) :=
  let '(start, overflow) := overflowing_mul n (1 + bcskip it) in
  if (blen (bcv it) <=? start) || overflow then
    bcol_next (bcol_set it bsl_empty)
  else
    p <- bsplit_at (bcv it) start ;;
    bcol_next (bcol_set it (snd p)).

Definition bcol_next_back (it : bcol) : res (option N * bcol) :=
  if bsl_is_empty (bcv it) then Ok (None, it)
  else
    let last := boff (bcv it) + (blen (bcv it) - 1) in
    let fst_ := mkBsl (boff (bcv it)) (blen (bcv it) - 1) in
    if bsl_is_empty fst_ then Ok (Some last, bcol_set it bsl_empty)
    else
      k <- busub (blen fst_) (bcskip it) ;;
      v' <- bget_to fst_ k ;;
      Ok (Some last, bcol_set it v').

Definition bcol_nth_back (it : bcol) (n : N) : res (option N * bcol) :=
  let '(adj, overflow) := overflowing_mul n (1 + bcskip it) in
  if (blen (bcv it) <=? adj) || overflow then
    bcol_next_back (bcol_set it bsl_empty)
  else
    k <- busub (blen (bcv it)) adj ;;
    v' <- bget_to (bcv it) k ;;
    bcol_next_back (bcol_set it v').

Definition bcol_index (it : bcol) (idx : N) : res N :=
  match checked_mul idx (1 + bcskip it) with
  | None => Panic
  | Some pos => if pos <? blen (bcv it) then Ok (boff (bcv it) + pos) else Panic
  end.

(** * Views *)
Record bview : Type := mkBview { bvw : bsl; bvcols : N; bvrows : N; bvstride : N }.

Definition bcalc_view_dims (s0 s1 e0 e1 cols rows stride : N) : res (N * N * N * N) :=
  _ <- assert (s0 <=? e0) ;;
  _ <- assert (s1 <=? e1) ;;
  _ <- assert (e0 <=? cols) ;;
  _ <- assert (e1 <=? rows) ;;
  _ <- assert (cols <=? stride) ;;
  let nc := e0 - s0 in
  let nr := e1 - s1 in
  let '(nc, nr) := if (nc =? 0) || (nr =? 0) then (0, 0) else (nc, nr) in
  let '(ds, dl) := if nr =? 0 then (0, 0) else (s1 * stride + s0, (nr - 1) * stride + nc) in
  Ok (nc, nr, ds, ds + dl).

Definition bview_of (k : rkind) (mutable : bool) (p : bview) (s0 s1 e0 e1 : N) : res bview :=
  d <- bcalc_view_dims s0 s1 e0 e1 (bvcols p) (bvrows p) (bvstride p) ;;
  let '(nc, nr, a, b) := d in
  w <- (match k, mutable with
        | KViewMut, false => bindex_range (bvw p) a b
        | _, _ => bget_range (bvw p) a b
        end) ;;
  Ok (mkBview w nc nr (bvstride p)).

Definition bview_new (c r slen : N) : res bview :=
  _ <- (if (c =? 0) || (r =? 0) then assert (r =? c) else Ok tt) ;;
  match checked_mul c r with
  | None => Panic
  | Some size =>
      _ <- assert (size <=? slen) ;;
      Ok (mkBview (mkBsl 0 size) c r c)
  end.

Definition bview_of_owned (cols rows len_ : N) : bview := mkBview (mkBsl 0 len_) cols rows cols.

Definition bv_rows (v : bview) : res brows :=
  k <- busub (bvstride v) (bvcols v) ;; Ok (mkBrows (bvw v) (bvcols v) k).

Definition bv_col (k : rkind) (v : bview) (c : N) : res bcol :=
  _ <- assert (c <? bvcols v) ;;
  match k with
  | KOwned =>
      e <- busub (blen (bvw v)) (bvcols v) ;;
      w <- bget_range (bvw v) c (e + c + 1) ;;
      s <- busub (bvcols v) 1 ;;
      Ok (mkBcol w s)
  | _ =>
      let start := c in
      let e := if bvrows v =? 0 then start else start + (bvrows v - 1) * bvstride v + 1 in
      w <- bget_range (bvw v) start e ;;
      s <- busub (bvstride v) 1 ;;
      Ok (mkBcol w s)
  end.

(** * what the unary model sees *)
Definition sl_of (s : bsl) : sl := mkSl (N.to_nat (boff s)) (N.to_nat (blen s)).
Definition rows_of (it : brows) : rows_it :=
  mkRows (sl_of (brv it)) (N.to_nat (brcols it)) (N.to_nat (brskip it)).
Definition col_of (it : bcol) : col_it := mkCol (sl_of (bcv it)) (N.to_nat (bcskip it)).
Definition view_of_b (v : bview) : view :=
  mkView (sl_of (bvw v)) (N.to_nat (bvcols v)) (N.to_nat (bvrows v)) (N.to_nat (bvstride v)).
Definition rmap {X Y} (f : X -> Y) (r : res X) : res Y :=
  match r with Ok x => Ok (f x) | Panic => Panic | UB => UB end.
