(** Model of src/flattenexact.rs over an abstract row iterator (a record of operations).
    Instantiated with the [Rows] model at the end.  Definitions only. *)
From TD Require Import Base.Prelude Model.Iter.

Record row_ops (I : Type) : Type := mkRowOps {
  ro_next : I -> res (option sl * I);
  ro_next_back : I -> res (option sl * I);
  ro_nth : I -> N -> res (option sl * I);
  ro_nth_back : I -> N -> res (option sl * I);
  ro_len : I -> nat;
  ro_num_cols : I -> nat;
  ro_fold : I -> res (list sl);
  ro_rfold : I -> res (list sl);
}.
Arguments ro_next {I}. Arguments ro_next_back {I}. Arguments ro_nth {I}.
Arguments ro_nth_back {I}. Arguments ro_len {I}. Arguments ro_num_cols {I}.
Arguments ro_fold {I}. Arguments ro_rfold {I}.

Section Flatten.
Context {I : Type} (ops : row_ops I).

Record flat : Type := mkFlat { fiter : I; ffront : option sl; fback : option sl }.

(* flattenexact.rs 27-29 *)
Definition flat_new (it : I) : flat := mkFlat it None None.

(* flattenexact.rs 40-52; the [loop] as fuelled recursion *)
Fixpoint flat_next_loop (fuel : nat) (s : flat) : res (option nat * flat) :=
  match fuel with
  | 0 => UB
  | S f =>
      let try_front :=
        match ffront s with
        | Some inner =>
            match si_next inner with
            | (Some c, inner') => Some (c, inner')
            | (None, _) => None
            end
        | None => None
        end in
      match try_front with
      | Some (c, inner') => Ok (Some c, mkFlat (fiter s) (Some inner') (fback s))
      | None =>
          r <- ro_next ops (fiter s) ;;
          match r with
          | (None, it') =>
              match fback s with
              | None => Ok (None, mkFlat it' (ffront s) None)
              | Some b => let '(c, b') := si_next b in Ok (c, mkFlat it' (ffront s) (Some b'))
              end
          | (Some inner, it') => flat_next_loop f (mkFlat it' (Some inner) (fback s))
          end
      end
  end.
Definition flat_next (s : flat) : res (option nat * flat) :=
  flat_next_loop (2 + ro_len ops (fiter s)) s.

(* flattenexact.rs 129-141 *)
Fixpoint flat_next_back_loop (fuel : nat) (s : flat) : res (option nat * flat) :=
  match fuel with
  | 0 => UB
  | S f =>
      let try_back :=
        match fback s with
        | Some inner =>
            match si_next_back inner with
            | (Some c, inner') => Some (c, inner')
            | (None, _) => None
            end
        | None => None
        end in
      match try_back with
      | Some (c, inner') => Ok (Some c, mkFlat (fiter s) (ffront s) (Some inner'))
      | None =>
          r <- ro_next_back ops (fiter s) ;;
          match r with
          | (None, it') =>
              match ffront s with
              | None => Ok (None, mkFlat it' None (fback s))
              | Some b => let '(c, b') := si_next_back b in Ok (c, mkFlat it' (Some b') (fback s))
              end
          | (Some inner, it') => flat_next_back_loop f (mkFlat it' (ffront s) (Some inner))
          end
      end
  end.
Definition flat_next_back (s : flat) : res (option nat * flat) :=
  flat_next_back_loop (2 + ro_len ops (fiter s)) s.

(* flattenexact.rs 55-60 *)
Definition flat_len (s : flat) : nat :=
  ro_num_cols ops (fiter s) * ro_len ops (fiter s)
  + match ffront s with Some i => len i | None => 0 end
  + match fback s with Some i => len i | None => 0 end.

(* flattenexact.rs 68-98; [dbg] = debug assertions enabled *)
Definition flat_nth (dbg : bool) (s : flat) (n : N) : res (option nat * flat) :=
  let num_cols := ro_num_cols ops (fiter s) in
  if num_cols =? 0 then Ok (None, s)
  else
    let front_step :=
      match ffront s with
      | Some inner =>
          if (n <? N.of_nat (len inner))%N then inl (si_nth inner n)
          else inr ((n - N.of_nat (len inner))%N, None)
      | None => inr (n, None)
      end in
    match front_step with
    | inl (c, inner') => Ok (c, mkFlat (fiter s) (Some inner') (fback s))
    | inr (n1, front1) =>
        let iter_skip := N.min (N.of_nat (ro_len ops (fiter s))) (n1 / N.of_nat num_cols)%N in
        r <- ro_nth ops (fiter s) iter_skip ;;
        match r with
        | (Some inner, it') =>
            let n2 := (n1 - iter_skip * N.of_nat num_cols)%N in
            _ <- (if dbg then assert (n2 <? N.of_nat (len inner))%N else Ok tt) ;;
            let '(c, tmp) := si_nth inner n2 in
            Ok (c, mkFlat it' (Some tmp) (fback s))
        | (None, it') =>
            let n2 := (n1 - iter_skip * N.of_nat num_cols)%N in
            match fback s with
            | None => Ok (None, mkFlat it' front1 None)
            | Some b => let '(c, b') := si_nth b n2 in Ok (c, mkFlat it' front1 (Some b'))
            end
        end
    end.

(* flattenexact.rs 144-174 *)
Definition flat_nth_back (dbg : bool) (s : flat) (n : N) : res (option nat * flat) :=
  let num_cols := ro_num_cols ops (fiter s) in
  if num_cols =? 0 then Ok (None, s)
  else
    let back_step :=
      match fback s with
      | Some inner =>
          if (n <? N.of_nat (len inner))%N then inl (si_nth_back inner n)
          else inr ((n - N.of_nat (len inner))%N, None)
      | None => inr (n, None)
      end in
    match back_step with
    | inl (c, inner') => Ok (c, mkFlat (fiter s) (ffront s) (Some inner'))
    | inr (n1, back1) =>
        let iter_skip := N.min (N.of_nat (ro_len ops (fiter s))) (n1 / N.of_nat num_cols)%N in
        r <- ro_nth_back ops (fiter s) iter_skip ;;
        match r with
        | (Some inner, it') =>
            let n2 := (n1 - iter_skip * N.of_nat num_cols)%N in
            _ <- (if dbg then assert (n2 <? N.of_nat (len inner))%N else Ok tt) ;;
            let '(c, tmp) := si_nth_back inner n2 in
            Ok (c, mkFlat it' (ffront s) (Some tmp))
        | (None, it') =>
            let n2 := (n1 - iter_skip * N.of_nat num_cols)%N in
            match ffront s with
            | None => Ok (None, mkFlat it' None back1)
            | Some b => let '(c, b') := si_nth_back b n2 in Ok (c, mkFlat it' (Some b') back1)
            end
        end
    end.

(* flattenexact.rs 102-118: frontiter, then every row of iter, then backiter *)
Definition flat_fold (s : flat) : res (list nat) :=
  rows <- ro_fold ops (fiter s) ;;
  Ok (match ffront s with Some i => si_cells i | None => [] end
      ++ concat (map si_cells rows)
      ++ match fback s with Some i => si_cells i | None => [] end).

(* flattenexact.rs 178-194 *)
Definition flat_rfold (s : flat) : res (list nat) :=
  rows <- ro_rfold ops (fiter s) ;;
  Ok (match fback s with Some i => rev (si_cells i) | None => [] end
      ++ concat (map (fun r => rev (si_cells r)) rows)
      ++ match ffront s with Some i => rev (si_cells i) | None => [] end).

End Flatten.

Definition rows_ops : row_ops rows_it :=
  mkRowOps rows_it rows_next rows_next_back rows_nth rows_nth_back rows_len rcols rows_fold rows_rfold.
