(** Model of src/iter.rs: [Rows]/[RowsMut] and [Col]/[ColMut] as cursors over a slice
    window.  Mirrors the code branch for branch; definitions only.
    After the repairs D3/D4 the shared and the mutable variants compute the same windows;
    one model function serves both and the correspondence runs each variant against it. *)
From TD Require Import Base.Prelude.

(** * Rows / RowsMut  (iter.rs 12-233) *)
Record rows_it : Type := mkRows { rv : sl; rcols : nat; rskip : nat }.

Definition rows_set (it : rows_it) (v : sl) : rows_it := mkRows v (rcols it) (rskip it).

(* iter.rs 26-41 / 136-152 *)
Definition rows_next (it : rows_it) : res (option sl * rows_it) :=
  if sl_is_empty (rv it) then Ok (None, it)
  else
    p <- split_at (rv it) (rcols it) ;;
    let '(fst_, snd_) := p in
    if sl_is_empty snd_ then Ok (Some fst_, rows_set it sl_empty)
    else v' <- get_from snd_ (rskip it) ;; Ok (Some fst_, rows_set it v').

(* iter.rs 44-52 / 155-163 *)
Definition rows_len (it : rows_it) : nat :=
  if rcols it =? 0 then 0
  else
    let l := len (rv it) in
    let denom := rcols it + rskip it in
    l / denom + (l mod denom) / rcols it.

(* iter.rs 60-70 / 171-181 *)
Definition rows_nth (it : rows_it) (n : N) : res (option sl * rows_it) :=
  let '(start, overflow) := overflowing_mul n (N.of_nat (rcols it + rskip it)) in
  if (N.of_nat (len (rv it)) <=? start)%N || overflow then
    rows_next (rows_set it sl_empty)
  else
    p <- split_at (rv it) (N.to_nat start) ;;
    rows_next (rows_set it (snd p)).

(* iter.rs 80-95 / 191-208 *)
Definition rows_next_back (it : rows_it) : res (option sl * rows_it) :=
  if sl_is_empty (rv it) then Ok (None, it)
  else
    k <- usub (len (rv it)) (rcols it) ;;
    p <- split_at (rv it) k ;;
    let '(fst_, snd_) := p in
    if sl_is_empty fst_ then Ok (Some snd_, rows_set it sl_empty)
    else
      k2 <- usub (len fst_) (rskip it) ;;
      v' <- get_to fst_ k2 ;;
      Ok (Some snd_, rows_set it v').

(* iter.rs 98-109 / 211-224 (the repaired RowsMut reads the length before mem::take) *)
Definition rows_nth_back (it : rows_it) (n : N) : res (option sl * rows_it) :=
  let '(adj, overflow) := overflowing_mul n (N.of_nat (rcols it + rskip it)) in
  if (N.of_nat (len (rv it)) <=? adj)%N || overflow then
    rows_next_back (rows_set it sl_empty)
  else
    k <- usub (len (rv it)) (N.to_nat adj) ;;
    v' <- get_to (rv it) k ;;
    rows_next_back (rows_set it v').

(** default [Iterator::fold]: repeated [next]; fuel = number of remaining rows + 1.
    Fuel exhaustion (a non-terminating loop) is reported as [UB] and excluded by theorem. *)
Fixpoint rows_collect (fuel : nat) (it : rows_it) : res (list sl) :=
  match fuel with
  | 0 => UB
  | S f =>
      r <- rows_next it ;;
      match r with
      | (None, _) => Ok []
      | (Some w, it') => rest <- rows_collect f it' ;; Ok (w :: rest)
      end
  end.
Fixpoint rows_rcollect (fuel : nat) (it : rows_it) : res (list sl) :=
  match fuel with
  | 0 => UB
  | S f =>
      r <- rows_next_back it ;;
      match r with
      | (None, _) => Ok []
      | (Some w, it') => rest <- rows_rcollect f it' ;; Ok (w :: rest)
      end
  end.
Definition rows_fold (it : rows_it) : res (list sl) := rows_collect (S (len (rv it))) it.
Definition rows_rfold (it : rows_it) : res (list sl) := rows_rcollect (S (len (rv it))) it.

(** * Col / ColMut  (iter.rs 236-477) *)
Record col_it : Type := mkCol { cv : sl; cskip : nat }.
Definition col_set (it : col_it) (v : sl) : col_it := mkCol v (cskip it).

(* iter.rs 263-277 / 391-406 ; yields the absolute index of the cell *)
Definition col_next (it : col_it) : res (option nat * col_it) :=
  if sl_is_empty (cv it) then Ok (None, it)
  else
    let fst_ := off (cv it) in
    let snd_ := mkSl (off (cv it) + 1) (len (cv it) - 1) in
    if sl_is_empty snd_ then Ok (Some fst_, col_set it sl_empty)
    else v' <- get_from snd_ (cskip it) ;; Ok (Some fst_, col_set it v').

(* iter.rs 280-285 / 409-414 *)
Definition col_len (it : col_it) : nat :=
  let l := len (cv it) in
  let denom := 1 + cskip it in
  l / denom + l mod denom.

(* iter.rs 293-303 / 422-432 *)
Definition col_nth (it : col_it) (n : N) : res (option nat * col_it) :=
  let '(start, overflow) := overflowing_mul n (N.of_nat (1 + cskip it)) in
  if (N.of_nat (len (cv it)) <=? start)%N || overflow then
    col_next (col_set it sl_empty)
  else
    p <- split_at (cv it) (N.to_nat start) ;;
    col_next (col_set it (snd p)).

(* iter.rs 313-327 / 442-458 *)
Definition col_next_back (it : col_it) : res (option nat * col_it) :=
  if sl_is_empty (cv it) then Ok (None, it)
  else
    let last := off (cv it) + (len (cv it) - 1) in
    let fst_ := mkSl (off (cv it)) (len (cv it) - 1) in
    if sl_is_empty fst_ then Ok (Some last, col_set it sl_empty)
    else
      k <- usub (len fst_) (cskip it) ;;
      v' <- get_to fst_ k ;;
      Ok (Some last, col_set it v').

(* iter.rs 330-341 / 461-475 *)
Definition col_nth_back (it : col_it) (n : N) : res (option nat * col_it) :=
  let '(adj, overflow) := overflowing_mul n (N.of_nat (1 + cskip it)) in
  if (N.of_nat (len (cv it)) <=? adj)%N || overflow then
    col_next_back (col_set it sl_empty)
  else
    k <- usub (len (cv it)) (N.to_nat adj) ;;
    v' <- get_to (cv it) k ;;
    col_next_back (col_set it v').

(* iter.rs 252-255 / 364-367 / 380-383 (repaired: checked_mul) *)
Definition col_index (it : col_it) (idx : N) : res nat :=
  match checked_mul idx (N.of_nat (1 + cskip it)) with
  | None => Panic
  | Some pos =>
      if (pos <? N.of_nat (len (cv it)))%N then Ok (off (cv it) + N.to_nat pos) else Panic
  end.

Fixpoint col_collect (fuel : nat) (it : col_it) : res (list nat) :=
  match fuel with
  | 0 => UB
  | S f =>
      r <- col_next it ;;
      match r with
      | (None, _) => Ok []
      | (Some w, it') => rest <- col_collect f it' ;; Ok (w :: rest)
      end
  end.
Definition col_fold (it : col_it) : res (list nat) := col_collect (S (len (cv it))) it.

(** * [core::slice::Iter] over one row: a window consumed from both ends *)
Definition si_next (s : sl) : option nat * sl :=
  if sl_is_empty s then (None, s) else (Some (off s), mkSl (off s + 1) (len s - 1)).
Definition si_next_back (s : sl) : option nat * sl :=
  if sl_is_empty s then (None, s) else (Some (off s + (len s - 1)), mkSl (off s) (len s - 1)).
Definition si_nth (s : sl) (n : N) : option nat * sl :=
  if (N.of_nat (len s) <=? n)%N then (None, mkSl (off s + len s) 0)
  else si_next (mkSl (off s + N.to_nat n) (len s - N.to_nat n)).
Definition si_nth_back (s : sl) (n : N) : option nat * sl :=
  if (N.of_nat (len s) <=? n)%N then (None, mkSl (off s) 0)
  else si_next_back (mkSl (off s) (len s - N.to_nat n)).
Definition si_cells (s : sl) : list nat := seq (off s) (len s).
