(** Family 9 (C20): constructors with their argument checks (toodee.rs new, init, from_vec,
    from_box), conversions from views (toodee.rs From<TooDeeView>/From<TooDeeViewMut>: the
    rows() of the view, extended one after the other), derived PartialEq.  The direct view
    constructors are family 4 ([view_new]).  Definitions only. *)
From TD Require Import Base.Prelude Base.Codec Model.Iter Model.Flatten Model.View Model.Ops
  Model.Owned.

Definition zero_rule (c r : N) : res unit :=
  if (c =? 0)%N || (r =? 0)%N then assert (r =? c)%N else Ok tt.

(* toodee.rs from_vec / from_box: zero rule, checked product, length *)
Definition ctor_from_vec {A} (c r : N) (d : list A) : res (toodee A) :=
  _ <- zero_rule c r ;;
  match checked_mul c r with
  | None => Panic
  | Some p => _ <- assert (p =? N.of_nat (length d))%N ;; Ok (mkTD d (N.to_nat r) (N.to_nat c))
  end.

(* toodee.rs new / init: zero rule, checked product; [mk n] = the n cells the constructor
   creates (T::default() n times / n clones of the value).  Only products the harness can
   allocate are evaluated ([cap]). *)
Definition ctor_fill {A} (c r : N) (mk : nat -> list A) : res (toodee A) :=
  _ <- zero_rule c r ;;
  match checked_mul c r with
  | None => Panic
  | Some p => Ok (mkTD (mk (N.to_nat p)) (N.to_nat r) (N.to_nat c))
  end.

(* From<TooDeeView> / From<TooDeeViewMut>: for r in view.rows() { v.extend_from_slice(r) } *)
Definition from_view (v : view) (b : buf) : res (toodee N) :=
  rows <- all_rows v ;;
  cells <- (fix go (l : list sl) : res (list N) :=
              match l with
              | [] => Ok []
              | w :: tl => x <- read_win b w ;; rest <- go tl ;; Ok (x ++ rest)
              end) rows ;;
  Ok (mkTD cells (vrows v) (vcols v)).

(** derived PartialEq: data, num_rows, num_cols *)
Definition td_eqb (a b : toodee N) : bool :=
  list_N_eqb (data a) (data b) && (num_rows a =? num_rows b) && (num_cols a =? num_cols b).

(** the same derived PartialEq when some cells ([nan i] = true for cell i of either
    operand) hold a value that is not equal to itself *)
Fixpoint cells_eqb_partial (nan : nat -> bool) (i : nat) (a b : list N) : bool :=
  match a, b with
  | [], [] => true
  | x :: a', y :: b' => (x =? y)%N && negb (nan i) && cells_eqb_partial nan (S i) a' b'
  | _, _ => false
  end.
Definition td_eqb_partial (nan : nat -> bool) (a b : toodee N) : bool :=
  cells_eqb_partial nan 0 (data a) (data b) && (num_rows a =? num_rows b) && (num_cols a =? num_cols b).

Definition enc_td (t : toodee N) : list N :=
  [1%N; N.of_nat (num_cols t); N.of_nat (num_rows t)] ++ e_Nlist (data t).

Definition iota (n : nat) : list N := map N.of_nat (seq 0 n).

Definition conv_model (inp : list N) : list N :=
  match inp with
  | _dbg :: sub :: rest =>
      if (sub =? 0)%N then
        match run_parser (C <~ p_nat ;; R <~ p_nat ;; s0 <~ p_N ;; s1 <~ p_N ;; e0 <~ p_N ;; e1 <~ p_N ;;
                          m <~ p_bool ;; p_ret (C, R, (s0, s1, e0, e1), m)) rest with
        | None => BAD_CASE
        | Some (C, R, (s0, s1, e0, e1), m) =>
            match (v <- view_of KOwned m (view_of_owned C R (C * R)) s0 s1 e0 e1 ;;
                   from_view v (iota (C * R))) with
            | Ok t => enc_td t ++ [1%N]
            | Panic => [0%N]
            | UB => [777771%N]
            end
        end
      else if (sub =? 1)%N then
        match run_parser (c1 <~ p_nat ;; r1 <~ p_nat ;; c2 <~ p_nat ;; r2 <~ p_nat ;; d <~ p_nat ;;
                          p_ret (c1, r1, c2, r2, d)) rest with
        | None => BAD_CASE
        | Some (c1, r1, c2, r2, d) =>
            let a := mkTD (iota (c1 * r1)) r1 c1 in
            let d2 := match d with
                      | 0 => iota (c2 * r2)
                      | S k => if k <? c2 * r2 then upd k (N.of_nat k + 500)%N (iota (c2 * r2)) else iota (c2 * r2)
                      end in
            let b := mkTD d2 r2 c2 in
            let e := if td_eqb a b then 1%N else 0%N in
            [e; e; 1%N; 1%N]
        end
      else if (sub =? 4)%N then
        (* From<view> over elements whose k-th Clone panics: outcome, elements dropped twice,
           elements leaked.  The copy is built on the side: a panic drops what was cloned *)
        match run_parser (C <~ p_nat ;; R <~ p_nat ;; s0 <~ p_N ;; s1 <~ p_N ;; e0 <~ p_N ;; e1 <~ p_N ;;
                          m <~ p_bool ;; k <~ p_N ;; p_ret (C, R, (s0, s1, e0, e1), m, k)) rest with
        | None => BAD_CASE
        | Some (C, R, (s0, s1, e0, e1), m, k) =>
            match view_of KOwned m (view_of_owned C R (C * R)) s0 s1 e0 e1 with
            | Ok v => [(if (k <? N.of_nat (vcols v * vrows v))%N then 0 else 1)%N; 0%N; 0%N]
            | Panic => [0%N; 0%N; 0%N]
            | UB => [777771%N]
            end
        end
      else if (sub =? 3)%N then
        (* elements with a non-reflexive equality (f64): cell [nan - 1] holds a NaN.
           a == a (the same object), a != a, a == a.clone(), a == a rebuilt from its cells *)
        match run_parser (c <~ p_nat ;; r <~ p_nat ;; nan <~ p_nat ;; p_ret (c, r, nan)) rest with
        | None => BAD_CASE
        | Some (c, r, nan) =>
            let a := mkTD (iota (c * r)) r c in
            let e := if td_eqb_partial (fun i => Nat.eqb (S i) nan) a a then 1%N else 0%N in
            [e; (1 - e)%N; e; e]
        end
      else
        match run_parser (via <~ p_nat ;; c <~ p_N ;; r <~ p_N ;; l <~ p_nat ;; tr <~ p_bool ;;
                          p_ret (via, c, r, l, tr)) rest with
        | None => BAD_CASE
        | Some (via, c, r, l, tr) =>
            let t := match via with
                     | 0 | 1 => ctor_from_vec c r (iota l)
                     | 2 => ctor_fill c r (fun n => if tr then map (fun i => (1000000 + i)%N) (iota n) else repeat 0%N n)
                     | _ => ctor_fill c r (fun n => repeat 7%N n)
                     end in
            match t with
            | Ok t => enc_td t ++ [1%N; 0%N; 0%N]
            | Panic => [0%N; 0%N; 0%N]
            | UB => [777771%N]
            end
        end
  | _ => BAD_CASE
  end.
