(** Model of src/serde.rs at the serde data-model level (C18, C19): the document a
    deserializer presents is a sequence of (key, value) events; [visit_map] (repaired: owned
    keys D7, zero-rule check D8) followed by [TooDee::from_vec].  serde_json's text layer
    and the element codecs are exercised by the correspondence, not modelled.
    Definitions only. *)
From TD Require Import Base.Prelude Base.Codec Model.Owned.

Inductive jval : Type :=
| JUInt (n : N)          (* a non-negative integer literal, any size *)
| JNeg | JFloat | JStr | JNull | JBool | JObj
| JArr (l : list jval).

Inductive jkey : Type := KCols | KRows | KData | KOther.

Definition jdoc := list (jkey * jval).

(** [usize] from a value: only integers below 2^64 *)
Definition de_usize (v : jval) : option N :=
  match v with JUInt n => if (n <? W)%N then Some n else None | _ => None end.
(** [u32] element *)
Definition de_u32 (v : jval) : option N :=
  match v with JUInt n => if (n <? 4294967296)%N then Some n else None | _ => None end.
Fixpoint de_all {X} (f : jval -> option X) (l : list jval) : option (list X) :=
  match l with
  | [] => Some []
  | v :: t => match f v, de_all f t with Some x, Some r => Some (x :: r) | _, _ => None end
  end.
Definition de_vec (v : jval) : option (list N) :=
  match v with JArr l => de_all de_u32 l | _ => None end.

Record vstate : Type := mkVS { vs_cols : option N; vs_rows : option N; vs_data : option (list N) }.

(* serde.rs visit_map: the while-let loop; None = Err *)
Fixpoint visit_fields (d : jdoc) (s : vstate) : option vstate :=
  match d with
  | [] => Some s
  | (k, v) :: tl =>
      match k with
      | KCols =>
          match vs_cols s with
          | Some _ => None                                   (* duplicate_field *)
          | None => match de_usize v with
                    | Some n => visit_fields tl (mkVS (Some n) (vs_rows s) (vs_data s))
                    | None => None
                    end
          end
      | KRows =>
          match vs_rows s with
          | Some _ => None
          | None => match de_usize v with
                    | Some n => visit_fields tl (mkVS (vs_cols s) (Some n) (vs_data s))
                    | None => None
                    end
          end
      | KData =>
          match de_vec v with
          | Some l => visit_fields tl (mkVS (vs_cols s) (vs_rows s) (Some l))   (* last one wins *)
          | None => None
          end
      | KOther => None                                       (* unknown_field *)
      end
  end.

Inductive de_result : Type :=
| DeErr
| DeOk (t : toodee N)
| DePanic.

(* after the loop: missing fields, overflow, zero rule, length; then from_vec with its own
   assertions (toodee.rs from_vec), which are the only place a panic could come from *)
Definition from_vec_model (c r : N) (d : list N) : res (toodee N) :=
  _ <- (if (c =? 0)%N || (r =? 0)%N then assert (r =? c)%N else Ok tt) ;;
  match checked_mul c r with
  | None => Panic
  | Some p => _ <- assert (p =? N.of_nat (length d))%N ;; Ok (mkTD d (N.to_nat r) (N.to_nat c))
  end.

Definition visit_map (d : jdoc) : de_result :=
  match visit_fields d (mkVS None None None) with
  | None => DeErr
  | Some s =>
      match vs_cols s, vs_rows s, vs_data s with
      | Some c, Some r, Some data =>
          let '(product, overflow) := overflowing_mul c r in
          if overflow then DeErr
          else if negb (Bool.eqb (c =? 0)%N (r =? 0)%N) then DeErr
          else if negb (product =? N.of_nat (length data))%N then DeErr
          else match from_vec_model c r data with
               | Ok t => DeOk t
               | Panic => DePanic
               | UB => DePanic
               end
      | _, _, _ => DeErr
      end
  end.

(** a generic value tree (serde_json::Value) keeps one entry per key: the last *)
Definition jkey_eqb (a b : jkey) : bool :=
  match a, b with
  | KCols, KCols | KRows, KRows | KData, KData | KOther, KOther => true
  | _, _ => false
  end.
Fixpoint dedup_last (d : jdoc) : jdoc :=
  match d with
  | [] => []
  | (k, v) :: tl =>
      if existsb (fun p => jkey_eqb (fst p) k) tl then dedup_last tl else (k, v) :: dedup_last tl
  end.

Inductive transport : Type := TStr | TValue | TSlice | TReader.
Definition deserialize (tr : transport) (top_is_map : bool) (d : jdoc) : de_result :=
  if negb top_is_map then DeErr
  else match tr with
       | TValue => visit_map (dedup_last d)
       | _ => visit_map d
       end.

(** * Serialisation: the derived impl emits data, num_rows, num_cols (toodee.rs 30-36); the
    view impls emit num_cols, num_rows, data = cells() collected (serde.rs) *)
Definition serialize (t : toodee N) : jdoc :=
  [(KData, JArr (map JUInt (data t))); (KRows, JUInt (N.of_nat (num_rows t)));
   (KCols, JUInt (N.of_nat (num_cols t)))].
Definition serialize_view (cols rows : nat) (cells : list N) : jdoc :=
  [(KCols, JUInt (N.of_nat cols)); (KRows, JUInt (N.of_nat rows)); (KData, JArr (map JUInt cells))].

(** * Decoding of family-7 cases *)
Fixpoint p_jval (fuel : nat) : parser jval :=
  match fuel with
  | 0 => p_fail
  | S f =>
      k <~ p_nat ;;
      match k with
      | 0 => n <~ p_N ;; p_ret (JUInt n)
      | 1 => p_ret (JUInt W)                 (* the literal 18446744073709551616 *)
      | 2 => _ <~ p_N ;; p_ret JNeg
      | 3 => p_ret JFloat
      | 4 => p_ret JStr
      | 5 => p_ret JNull
      | 6 => p_ret JBool
      | 7 => l <~ p_list (p_jval f) ;; p_ret (JArr l)
      | _ => p_ret JObj
      end
  end.
Definition p_jkey : parser jkey :=
  k <~ p_nat ;; p_ret (match k with 0 => KCols | 1 => KRows | 2 => KData | _ => KOther end).
Definition p_field : parser (jkey * jval) := k <~ p_jkey ;; v <~ p_jval 4 ;; p_ret (k, v).
Definition p_transport : parser transport :=
  t <~ p_nat ;; p_ret (match t with 0 => TStr | 1 => TValue | 2 => TSlice | _ => TReader end).

Definition enc_de_result (r : de_result) : list N :=
  match r with
  | DeErr => [0%N]
  | DeOk t => [1%N; N.of_nat (num_cols t); N.of_nat (num_rows t)] ++ e_Nlist (data t)
  | DePanic => [2%N]
  end.

(** top-level form of the document: 1 = a map; anything else (another value, a truncated
    text, or - 2 - the positional sequence of the field values) is not a map *)
(** other element types are run through the same model after re-tagging the data items:
    what the element codec accepts becomes the integer the harness reports for it, what
    it rejects becomes a value no u32 codec accepts.
    kind 1: the zero-sized unit type - JSON null only (reported as 0);
    kind 2: Option<u8> - null (0) or an integer below 256 (1 + value) *)
Definition retag_elem (ek : N) (v : jval) : jval :=
  if (ek =? 1)%N then match v with JNull => JUInt 0 | _ => JStr end
  else if (ek =? 2)%N then match v with
                           | JNull => JUInt 0
                           | JUInt n => if (n <? 256)%N then JUInt (1 + n) else JStr
                           | _ => JStr
                           end
  else v.
Definition retag_doc (ek : N) (d : jdoc) : jdoc :=
  map (fun kv => match kv with
                 | (KData, JArr l) => (KData, JArr (map (retag_elem ek) l))
                 | _ => kv
                 end) d.

Definition p_doc_case : parser (transport * bool * jdoc) :=
  _d <~ p_bool ;; tr <~ p_transport ;; top <~ p_N ;; d <~ p_list p_field ;;
  p_ret (tr, (top mod 10 =? 1)%N, retag_doc (top / 10) d).

Definition serde_model (inp : list N) : list N :=
  match run_parser p_doc_case inp with
  | None => BAD_CASE
  | Some (tr, top, d) => enc_de_result (deserialize tr top d)
  end.

(** C19 oracle: never a panic; an accepted document yields exactly its stated fields and a
    valid shape; nothing with overflowing / mismatching / one-zero dimensions is accepted *)
Definition last_field (k : jkey) (d : jdoc) : option jval :=
  match filter (fun p => jkey_eqb (fst p) k) (rev d) with (_, v) :: _ => Some v | [] => None end.
Definition oracle_serde (inp obs : list N) : bool :=
  match run_parser p_doc_case inp with
  | None => false
  | Some (tr, top, d) =>
      match obs with
      | [e] => (e =? 0)%N           (* an error; a panic (2) is a violation *)
      | ok :: c :: r :: rest =>
          (ok =? 1)%N
          && match run_parser (p_list p_N) rest with
             | None => false
             | Some data =>
                 (c * r =? N.of_nat (length data))%N && (c * r <? W)%N
                 && Bool.eqb (c =? 0)%N (r =? 0)%N
                 && top
                 && match last_field KCols d, last_field KRows d, last_field KData d with
                    | Some (JUInt c'), Some (JUInt r'), Some (JArr l) =>
                        (c =? c')%N && (r =? r')%N
                        && match de_all de_u32 l with Some l' => list_N_eqb data l' | None => false end
                    | _, _, _ => false
                    end
             end
      | _ => false
      end
  end.

(** * Family 8 (C18): round trip.  The case names a C x R parent holding 0..C*R-1, a
    receiver (the array or a window of it), the transport; the expected result is the
    receiver's cells as an owned array.  Element types other than u32 report equality only. *)
Definition roundtrip_model (inp : list N) : list N :=
  match run_parser (_d <~ p_bool ;; ety <~ p_nat ;; tr <~ p_transport ;; rk <~ p_nat ;;
                    C <~ p_nat ;; R <~ p_nat ;; s0 <~ p_nat ;; s1 <~ p_nat ;; e0 <~ p_nat ;; e1 <~ p_nat ;;
                    p_ret (ety, tr, rk, C, R, (s0, s1, e0, e1))) inp with
  | None => BAD_CASE
  | Some (ety, tr, rk, C, R, (s0, s1, e0, e1)) =>
      let '(x0, y0, nc, nr) :=
        match rk with
        | 0 => (0, 0, C, R)
        | _ => if (e0 - s0 =? 0) || (e1 - s1 =? 0) then (0, 0, 0, 0) else (s0, s1, e0 - s0, e1 - s1)
        end in
      let cells := flat_map (fun r => map (fun c => N.of_nat ((y0 + r) * C + x0 + c)) (seq 0 nc)) (seq 0 nr) in
      let doc := match rk with
                 | 0 => serialize (mkTD cells nr nc)
                 | _ => serialize_view nc nr cells
                 end in
      match deserialize tr true doc with
      | DeOk t =>
          [1%N; N.of_nat (num_cols t); N.of_nat (num_rows t)]
          ++ (if ety =? 0 then e_Nlist (data t) else [])
      | DeErr => [0%N]
      | DePanic => [2%N]
      end
  end.

Definition oracle_roundtrip (inp obs : list N) : bool :=
  match run_parser (_d <~ p_bool ;; ety <~ p_nat ;; tr <~ p_transport ;; rk <~ p_nat ;;
                    C <~ p_nat ;; R <~ p_nat ;; s0 <~ p_nat ;; s1 <~ p_nat ;; e0 <~ p_nat ;; e1 <~ p_nat ;;
                    p_ret (ety, rk, C, R, (s0, s1, e0, e1))) inp with
  | None => false
  | Some (ety, rk, C, R, (s0, s1, e0, e1)) =>
      let '(x0, y0, nc, nr) :=
        match rk with
        | 0 => (0, 0, C, R)
        | _ => if (e0 - s0 =? 0) || (e1 - s1 =? 0) then (0, 0, 0, 0) else (s0, s1, e0 - s0, e1 - s1)
        end in
      let cells := flat_map (fun r => map (fun c => N.of_nat ((y0 + r) * C + x0 + c)) (seq 0 nc)) (seq 0 nr) in
      list_N_eqb obs ([1%N; N.of_nat nc; N.of_nat nr] ++ (if ety =? 0 then e_Nlist cells else []))
  end.
